(* driver for the C06 model: one case per line
     prox <metric 0|2> <nties> ties.. <R> <M> <nx> xc.. <ny> yc.. <nv> values.. <rows> <cols> cells..
   R, M: "inf" or an integer key; coordinates: integer or "nan"; values / cells: xv tokens.
   output: for every cell, row-major, three integers  key row col
           (key -1 = NaN, -2 = inf; row col = remembered target or -1 -1)
     brute  <metric> <nx> xc.. <ny> yc.. <nv> values.. <rows> <cols> cells..
   output: per cell the brute-force nearest key (-1 = no target) *)
open Model
open Zio
open Xio
let next_ext r = match next r with "inf" -> EInf | s -> EFin (z_of_string s)
let next_coord r = match next r with "nan" -> None | s -> Some (z_of_string s)
let () = main_loop (fun op r ->
  match op with
  | "prox" ->
    let metric = next_z r in
    let ties = next_list r next_z in
    let rr = next_ext r in
    let mm = next_ext r in
    let xc = next_list r next_coord in
    let yc = next_list r next_coord in
    let vs = next_list r next_xv in
    let g = next_grid r next_xv in
    let out = run_model metric ties rr mm xc yc vs g in
    String.concat " " (List.map (fun row ->
      String.concat " " (List.map (fun (k, (a, b)) ->
        string_of_z k ^ " " ^ string_of_z a ^ " " ^ string_of_z b) row)) out)
  | "brute" ->
    let metric = int_of_z (next_z r) in
    let xc = next_list r next_coord in
    let yc = next_list r next_coord in
    let vs = next_list r next_xv in
    let g = next_grid r next_xv in
    let key = if metric = 2 then key_manhattan else key_euclid in
    let h = List.length g in
    let w = match g with [] -> 0 | row :: _ -> List.length row in
    let cells = List.concat (List.init h (fun i -> List.init w (fun j -> (i, j)))) in
    String.concat " " (List.map (fun (i, j) ->
      match brute key xc yc vs g (z_of_int i) (z_of_int j) with
      | None -> "-1" | Some k -> string_of_z k) cells)
  | _ -> "ERR unknown-op " ^ op)
