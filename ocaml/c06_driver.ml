(* driver for the C06 model (ops prox, proxd, bearing, brute): one case per line
     prox <metric 0|2> <nties> ties.. <R> <M> <nx> xc.. <ny> yc.. <nv> values.. <rows> <cols> cells..
   R, M: "inf" or an integer key; coordinates: integer or "nan"; values / cells: xv tokens.
   output: for every cell, row-major, three integers  key row col
           (key -1 = NaN, -2 = inf; row col = remembered target or -1 -1)
     brute  <metric> <nx> xc.. <ny> yc.. <nv> values.. <rows> <cols> cells..
   output: per cell the brute-force nearest key (-1 = no target) *)
open Model
open Zio
open Xio
let next_ext r = match next r with "inf" -> EInf | s -> EFin (z_of_string s)
let next_coord r = match next r with "nan" -> None | s -> Some (z_of_string s)
let float_of_sf (x : spec_float) : float =
  match x with
  | S754_nan -> Stdlib.nan
  | S754_zero s -> if s then (-0.) else 0.
  | S754_infinity s -> if s then Stdlib.neg_infinity else Stdlib.infinity
  | S754_finite (s, m, e) ->
    let f = ldexp (float_of_int (int_of_pos m)) (int_of_z e) in if s then (-. f) else f
let hex (f : float) : string = if f <> f then "nan" else Printf.sprintf "%h" f
let lift1 f x = Float64.of_float (f (Float64.to_float x))
let gc_metric = gc_key (lift1 Stdlib.sin) (lift1 Stdlib.cos) (lift1 Stdlib.asin)
let libm_atan2 y x = Float64.of_float (Stdlib.atan2 (Float64.to_float y) (Float64.to_float x))
let () = main_loop (fun op r ->
  match op with
  | "proxd" ->
    (* as "prox", plus the direction output: per cell  key row col direction(hex float) *)
    let metric = int_of_z (next_z r) in
    let ties = next_list r next_z in
    let rr = next_ext r in
    let mm = next_ext r in
    let xc = next_list r next_coord in
    let yc = next_list r next_coord in
    let vs = next_list r next_xv in
    let g = next_grid r next_xv in
    let key = if metric = 1 then gc_metric
              else metric_of_key (if metric = 2 then key_manhattan else key_euclid) in
    let out = run_model_full libm_atan2 key ties rr mm xc yc vs g in
    String.concat " " (List.map (fun row ->
      String.concat " " (List.map (fun ((k, (a, b)), d) ->
        string_of_z k ^ " " ^ string_of_z a ^ " " ^ string_of_z b ^ " " ^ hex (float_of_sf d)) row)) out)
  | "gckey" ->
    (* gckey <n> then n quadruples x1 x2 y1 y2 (integers, degrees): the GREAT_CIRCLE key of each *)
    let n = next_int r in
    let qs = next_n r n (fun r ->
      let a = next_z r in let b = next_z r in let c = next_z r in let d = next_z r in (a, b, c, d)) in
    String.concat " " (List.map (fun (a, b, c, d) -> string_of_z (gc_metric a b c d)) qs)
  | "bearing" ->
    (* bearing <n> then n quadruples x1 x2 y1 y2 (hex floats): _calc_direction of each *)
    let n = next_int r in
    let qs = next_n r n (fun r ->
      let f () = Float64.of_float (float_of_string (next r)) in
      let a = f () in let b = f () in let c = f () in let d = f () in (a, b, c, d)) in
    String.concat " " (List.map (fun (a, b, c, d) -> hex (float_of_sf (calc_direction libm_atan2 a b c d))) qs)
  | "prox" ->
    let metric = next_z r in
    let ties = next_list r next_z in
    let rr = next_ext r in
    let mm = next_ext r in
    let xc = next_list r next_coord in
    let yc = next_list r next_coord in
    let vs = next_list r next_xv in
    let g = next_grid r next_xv in
    let out = run_model metric ties rr mm xc yc vs g in
    String.concat " " (List.map (fun row ->
      String.concat " " (List.map (fun (k, (a, b)) ->
        string_of_z k ^ " " ^ string_of_z a ^ " " ^ string_of_z b) row)) out)
  | "brute" ->
    let metric = int_of_z (next_z r) in
    let xc = next_list r next_coord in
    let yc = next_list r next_coord in
    let vs = next_list r next_xv in
    let g = next_grid r next_xv in
    let key = metric_of_key (if metric = 2 then key_manhattan else key_euclid) in
    let h = List.length g in
    let w = match g with [] -> 0 | row :: _ -> List.length row in
    let cells = List.concat (List.init h (fun i -> List.init w (fun j -> (i, j)))) in
    String.concat " " (List.map (fun (i, j) ->
      match brute key xc yc vs g (z_of_int i) (z_of_int j) with
      | None -> "-1" | Some k -> string_of_z k) cells)
  | _ -> "ERR unknown-op " ^ op)
