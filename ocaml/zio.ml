(* zio.ml — conversion between text tokens and the extracted Z (Model.z).
   Decimal for machine-int sized numbers, 0x… hex (bitwise) for larger ones.
   Shared by every driver whose model extracts Z. *)
open Model

let rec pos_of_int (n : int) : positive =
  if n = 1 then XH else if n land 1 = 0 then XO (pos_of_int (n lsr 1)) else XI (pos_of_int (n lsr 1))
let z_of_int (n : int) : z = if n = 0 then Z0 else if n > 0 then Zpos (pos_of_int n) else Zneg (pos_of_int (-n))

(* bits, least significant first *)
let rec pos_of_bits (bs : bool list) : positive option =
  match bs with
  | [] -> None
  | b :: rest ->
    (match pos_of_bits rest with
     | None -> if b then Some XH else None
     | Some p -> Some (if b then XI p else XO p))

let z_of_hex (neg : bool) (s : string) : z =
  let bits = ref [] in
  String.iter (fun c ->
      let v = match c with
        | '0'..'9' -> Char.code c - 48 | 'a'..'f' -> Char.code c - 87
        | 'A'..'F' -> Char.code c - 55 | _ -> failwith ("bad hex digit in " ^ s) in
      (* most significant nibble first; we build LSB-first at the end *)
      bits := (v land 1 = 1) :: (v land 2 = 2) :: (v land 4 = 4) :: (v land 8 = 8) :: !bits)
    s;
  match pos_of_bits !bits with
  | None -> Z0
  | Some p -> if neg then Zneg p else Zpos p

let z_of_string (s : string) : z =
  let n = String.length s in
  let neg = n > 0 && s.[0] = '-' in
  let body = if neg then String.sub s 1 (n - 1) else s in
  if String.length body > 2 && body.[0] = '0' && (body.[1] = 'x' || body.[1] = 'X')
  then z_of_hex neg (String.sub body 2 (String.length body - 2))
  else z_of_int (int_of_string s)

let rec pos_bits (p : positive) : int = match p with XH -> 1 | XO q | XI q -> 1 + pos_bits q
let rec int_of_pos (p : positive) : int =
  match p with XH -> 1 | XO q -> 2 * int_of_pos q | XI q -> 2 * int_of_pos q + 1
let hex_of_pos (p : positive) : string =
  (* collect bits LSB first *)
  let rec bits p acc = match p with XH -> true :: acc | XO q -> bits q (false :: acc) | XI q -> bits q (true :: acc) in
  let msb_first = bits p [] in
  let lsb_first = List.rev msb_first in
  let buf = Buffer.create 16 in
  let rec nibbles l acc = match l with
    | [] -> acc
    | _ ->
      let take l = match l with b :: r -> ((if b then 1 else 0), r) | [] -> (0, []) in
      let (a, l) = take l in let (b, l) = take l in let (c, l) = take l in let (d, l) = take l in
      nibbles l ((a + 2*b + 4*c + 8*d) :: acc) in
  List.iter (fun v -> Buffer.add_char buf "0123456789abcdef".[v]) (nibbles lsb_first []);
  Buffer.contents buf
let string_of_z (x : z) : string =
  match x with
  | Z0 -> "0"
  | Zpos p -> if pos_bits p <= 61 then string_of_int (int_of_pos p) else "0x" ^ hex_of_pos p
  | Zneg p -> if pos_bits p <= 61 then string_of_int (- (int_of_pos p)) else "-0x" ^ hex_of_pos p
let int_of_z (x : z) : int = match x with Z0 -> 0 | Zpos p -> int_of_pos p | Zneg p -> - (int_of_pos p)

let rec nat_of_int (n : int) : nat = if n <= 0 then O else S (nat_of_int (n - 1))
let rec int_of_nat (n : nat) : int = match n with O -> 0 | S k -> 1 + int_of_nat k

(* token stream helpers *)
let tokens_of_line (l : string) : string list =
  List.filter (fun s -> s <> "") (String.split_on_char ' ' (String.trim l))
exception Parse of string
let next (r : string list ref) : string =
  match !r with [] -> raise (Parse "unexpected end of line") | t :: rest -> r := rest; t
let next_int r = int_of_string (next r)
let next_z r = z_of_string (next r)
let rec next_n r n f = if n <= 0 then [] else let x = f r in x :: next_n r (n - 1) f
let next_list r f = let n = next_int r in next_n r n f
let next_grid r f = let rows = next_int r in let cols = next_int r in
  next_n r rows (fun r -> next_n r cols f)

(* main loop: one case per input line, one result line per case *)
let main_loop (handle : string -> string list ref -> string) =
  try
    while true do
      let line = input_line stdin in
      let r = ref (tokens_of_line line) in
      let out =
        try let op = next r in handle op r
        with Parse m -> "ERR parse " ^ m
           | Failure m -> "ERR failure " ^ m
           | Not_found -> "ERR notfound"
           | Stack_overflow -> "ERR stackoverflow" in
      print_string out; print_newline ()
    done
  with End_of_file -> ()
