(* driver for the C02 model: one case per line
     df     <nodata> <nz | -1> zone_ids.. <ncells> (zone value)..
     dforig (same; the unpatched _sort_and_stride)
     ra     (same)   -> per cell values of sum ; max ; mean
   df output: one group per row "zone count sum min max mean var dsum ptp", groups separated by ';' *)
open Model
open Zio
open Xio
let string_of_q (x : q) : string = string_of_z x.qnum ^ "/" ^ string_of_z (Zpos x.qden)
let opt f = function Some x -> f x | None -> "nan"
let next_ids r = let n = next_int r in if n < 0 then None else Some (next_n r n next_xv)
let next_cells r = let n = next_int r in next_n r n (fun r -> let z = next_xv r in let v = next_xv r in (z, v))
let rec index i l = match l with [] -> [] | x :: t -> (z_of_int i, x) :: index (i + 1) t
let col f rows = List.map (fun (_, o) -> opt f o) rows
let rec transpose ls = match ls with
  | [] -> [] | [] :: _ -> [] | _ -> List.map List.hd ls :: transpose (List.map List.tl ls)
type dfp = { df : 'a. (z list -> 'a) -> (xv * xv) list -> xv list option -> xv -> (xv * 'a option) list }
let table (p : dfp) cells ids nd =
  let df f = p.df f in
  let zones = List.map (fun (u, _) -> string_of_xv u) (df f_count cells ids nd) in
  let cols = [ zones;
               col string_of_z (df f_count cells ids nd); col string_of_z (df f_sum cells ids nd);
               col string_of_z (df f_min cells ids nd); col string_of_z (df f_max cells ids nd);
               col string_of_q (df f_mean cells ids nd); col string_of_q (df f_var cells ids nd);
               col string_of_z (df f_dsum cells ids nd); col string_of_z (df f_ptp cells ids nd) ] in
  String.concat " ; " (List.map (String.concat " ") (transpose cols))
let () = main_loop (fun op r ->
  let nd = next_xv r in
  let ids = next_ids r in
  let cells = next_cells r in
  match op with
  | "df" -> table { df = (fun f -> stats_df f) } cells ids nd
  | "dforig" -> table { df = (fun f -> stats_df_orig f) } cells ids nd
  | "ra" ->
    let ic = index 0 cells in
    let n = z_of_int (List.length cells) in
    String.concat " ; " [
      String.concat " " (List.map (opt string_of_z) (stats_ra f_sum ic ids nd n));
      String.concat " " (List.map (opt string_of_z) (stats_ra f_max ic ids nd n));
      String.concat " " (List.map (opt string_of_q) (stats_ra f_mean ic ids nd n)) ]
  | _ -> "ERR unknown-op " ^ op)
