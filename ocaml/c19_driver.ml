(* driver for the C19 model: one case per line; floats as %h hex, strings as s:<hex bytes>
     euclid|manhattan x1 x2 y1 y2            -> value
     gc x1 x2 y1 y2 radius                   -> value | E BadX1..BadY2
     dist <str>                              -> OK value | E invalid|number|unit
     cellsize cx cy <unit>                   -> vx vy | KEYERR
     res first last nm1                      -> value
     cellsize_full pair|scalar|none a b xmin xmax wm1 ymin ymax hm1 <0|1> <unit> -> vx vy | KEYERR
     circle cx cy <radius str>               -> K rows cols cells.. | E ..
     annulus cx cy <outer str> <inner str>   -> K rows cols cells.. | E .. | PADERR
     ellipse hw hh / annulus_hw hwo hho hwi hhi (integers)
     splits <str>                            -> pieces T:<hex> / N:<hex> *)
open Model
open Zio

let fl (s : string) : Float64.t = Float64.of_float (float_of_string s)
let next_fl r = fl (next r)
let out_fl (x : Float64.t) : string = Printf.sprintf "%h" (Float64.to_float x)

let ascii_of_char (c : char) : ascii =
  let n = Char.code c in
  let b i = (n lsr i) land 1 = 1 in
  Ascii (b 0, b 1, b 2, b 3, b 4, b 5, b 6, b 7)
let char_of_ascii (a : ascii) : char =
  match a with Ascii (b0, b1, b2, b3, b4, b5, b6, b7) ->
    let v b i = if b then 1 lsl i else 0 in
    Char.chr (v b0 0 + v b1 1 + v b2 2 + v b3 3 + v b4 4 + v b5 5 + v b6 6 + v b7 7)
let string_of_asciis (l : ascii list) : string =
  let b = Buffer.create 16 in List.iter (fun a -> Buffer.add_char b (char_of_ascii a)) l; Buffer.contents b
let asciis_of_string (s : string) : ascii list = List.init (String.length s) (fun i -> ascii_of_char s.[i])
let hexval c = match c with
  | '0'..'9' -> Char.code c - 48 | 'a'..'f' -> Char.code c - 87 | 'A'..'F' -> Char.code c - 55
  | _ -> failwith "bad hex"
let next_str r : ascii list =
  let t = next r in
  if String.length t < 2 || String.sub t 0 2 <> "s:" then failwith "string token expected";
  let h = String.sub t 2 (String.length t - 2) in
  let n = String.length h / 2 in
  asciis_of_string (String.init n (fun i -> Char.chr (16 * hexval h.[2 * i] + hexval h.[2 * i + 1])))
let hex_of_asciis l =
  String.concat "" (List.map (fun a -> Printf.sprintf "%02x" (Char.code (char_of_ascii a))) l)

(* externals handed to the model *)
let tofloat (tok : ascii list) : Float64.t = Float64.of_float (float_of_string (string_of_asciis tok))
let trunc (x : Float64.t) : z = z_of_int (int_of_float (Float64.to_float x))
let lift f = fun (x : Float64.t) -> Float64.of_float (f (Float64.to_float x))
let f_of_z (x : z) : Float64.t = Float64.of_float (float_of_int (int_of_z x))
let pi_over_180 = Float64.of_float (Float.pi /. 180.0)

let string_of_kernel (k : z list list) : string =
  let rows = List.length k in
  let cols = (match k with [] -> 0 | r :: _ -> List.length r) in
  Printf.sprintf "K %d %d %s" rows cols
    (String.concat " " (List.map (fun row -> String.concat " " (List.map string_of_z row)) k))
let string_of_derr = function
  | ErrInvalid -> "E invalid" | ErrNumber -> "E number" | ErrUnit -> "E unit" | ErrFuel -> "E FUEL"

let () = main_loop (fun op r ->
  match op with
  | "euclid" ->
    let x1 = next_fl r in let x2 = next_fl r in let y1 = next_fl r in let y2 = next_fl r in
    out_fl (f_euclid x1 x2 y1 y2)
  | "manhattan" ->
    let x1 = next_fl r in let x2 = next_fl r in let y1 = next_fl r in let y2 = next_fl r in
    out_fl (f_manhattan x1 x2 y1 y2)
  | "gc" ->
    let x1 = next_fl r in let x2 = next_fl r in let y1 = next_fl r in let y2 = next_fl r in
    let rad = next_fl r in
    (match f_great_circle (lift sin) (lift cos) (lift asin) f_of_z pi_over_180 x1 x2 y1 y2 rad with
     | Inl BadX1 -> "E BadX1" | Inl BadX2 -> "E BadX2" | Inl BadY1 -> "E BadY1" | Inl BadY2 -> "E BadY2"
     | Inr v -> out_fl v)
  | "dist" ->
    let s = next_str r in
    (match f_get_distance tofloat s with Inl e -> string_of_derr e | Inr v -> "OK " ^ out_fl v)
  | "cellsize" ->
    let cx = next_fl r in let cy = next_fl r in let u = next_str r in
    (match f_calc_cellsize cx cy u with None -> "KEYERR" | Some (a, b) -> out_fl a ^ " " ^ out_fl b)
  | "cellsize_full" ->
    let kind = next r in
    let a = next_fl r in let b = next_fl r in
    let xmin = next_fl r in let xmax = next_fl r in let wm1 = next_fl r in
    let ymin = next_fl r in let ymax = next_fl r in let hm1 = next_fl r in
    let hasunit = next_int r in let u = next_str r in
    let attr = (match kind with "pair" -> ResPair (a, b) | "scalar" -> ResScalar a | _ -> ResAbsent) in
    (match f_calc_cellsize_full attr (if hasunit = 1 then Some u else None) xmin xmax wm1 ymin ymax hm1 with
     | None -> "KEYERR" | Some (p, q) -> out_fl p ^ " " ^ out_fl q)
  | "res" ->
    let a = next_fl r in let b = next_fl r in let n = next_fl r in out_fl (f_calc_res a b n)
  | "circle" ->
    let cx = next_fl r in let cy = next_fl r in let s = next_str r in
    (match circle_kernel tofloat trunc cx cy s with Inl e -> string_of_derr e | Inr k -> string_of_kernel k)
  | "annulus" ->
    let cx = next_fl r in let cy = next_fl r in let so = next_str r in let si = next_str r in
    (match annulus_kernel tofloat trunc cx cy so si with
     | Inl e -> string_of_derr e | Inr None -> "PADERR" | Inr (Some k) -> string_of_kernel k)
  | "ellipse" ->
    let hw = next_z r in let hh = next_z r in string_of_kernel (ellipse_kernel hw hh)
  | "annulus_hw" ->
    let a = next_z r in let b = next_z r in let c = next_z r in let d = next_z r in
    (match annulus_hw a b c d with None -> "PADERR" | Some k -> string_of_kernel k)
  | "splits" ->
    let s = next_str r in
    (match splits s with
     | None -> "FUEL"
     | Some ps -> String.concat " " (List.map (function PText t -> "T:" ^ hex_of_asciis t | PNum t -> "N:" ^ hex_of_asciis t) ps))
  | _ -> "ERR unknown-op " ^ op)
