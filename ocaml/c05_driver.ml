(* driver for the C05 model: one case per line
     vs <rows> <cols> cells(hex floats).. <nx> xs.. <ny> ys.. <x> <y> <observer_elev> <target_elev>
   output:  OK <cells..> SPEC <same | cells..> FULL <same | cells..> PREM <ok | failed>
          | RANGE | DUPKEY | NOTFOUND | ERR ..
     tree <nops> ops..   (abstract status structure driven directly) -> one result code per op
     ctree <num_nodes> <nops> ops..   (the CONCRETE red-black tree model of Tree.v driven directly; ops as for
          "tree" plus S = snapshot) -> one token per op:
          I:<root> | D:<root>:<deleted> | NF | Q:<max> | QERR | STOP | S:<row>;<row>;..
          row = id,key,max,red,left,right,parent,g0,g1,g2,a0,a1,a2 for NIL (-1), the dummy root (0)
          and every row handed out by the idle stack so far
   libm's atan is handed to the model here (Stdlib.atan). *)
open Model
open Zio
let next_f r = Float64.of_float (float_of_string (next r))
let str_f (x : Float64.t) = Printf.sprintf "%h" (Float64.to_float x)
let str_grid g = String.concat " " (List.map (fun row -> String.concat " " (List.map str_f row)) g)
let fatan (x : Float64.t) : Float64.t = Float64.of_float (Stdlib.atan (Float64.to_float x))
let same a b = List.for_all2 (List.for_all2 (fun x y ->
  let x = Float64.to_float x and y = Float64.to_float y in (x = y) || (x <> x && y <> y))) a b
let () = main_loop (fun op r ->
  match op with
  | "vs" ->
    let g = next_grid r next_f in
    let xs = next_list r next_f in
    let ys = next_list r next_f in
    let x = next_f r in let y = next_f r in
    let oe = next_f r in let te = next_f r in
    (match viewshed_model fatan g xs ys x y oe te with
     | VsRange -> "RANGE"
     | VsErr EDupKey -> "DUPKEY"
     | VsErr ENotFound -> "NOTFOUND"
     | VsOk (m, s, f, p) ->
       "OK " ^ str_grid m ^ " SPEC " ^ (if same m s then "same" else str_grid s)
       ^ " FULL " ^ (if same m f then "same" else str_grid f)
       ^ " PREM " ^ (if p then "ok" else "failed"))
  | "tree" ->
    (* tree <nops> then per op:  I key g0 g1 g2 a0 a1 a2 | D key | Q key ang grad *)
    let n = next_int r in
    let ops = next_n r n (fun r ->
      match next r with
      | "I" -> let k = next_f r in
        let g0 = next_f r in let g1 = next_f r in let g2 = next_f r in
        let a0 = next_f r in let a1 = next_f r in let a2 = next_f r in
        TIns (k, { ng0 = g0; ng1 = g1; ng2 = g2; na0 = a0; na1 = a1; na2 = a2 })
      | "D" -> TDel (next_f r)
      | "Q" -> let k = next_f r in let a = next_f r in let g = next_f r in TQry (k, a, g)
      | t -> raise (Parse ("bad tree op " ^ t))) in
    String.concat " " (List.map string_of_z (tree_run [] ops))
  | "ctree" ->
    let nn = next_int r in
    let n = next_int r in
    let st = ref (fc_init (z_of_int nn)) in
    let used = ref [] in
    let toks = ref [] in
    let row i =
      let nd = fc_row !st (z_of_int i) in
      let v = nd.t_val in
      String.concat "," ([string_of_int i; str_f nd.t_key; str_f nd.t_max; (if nd.t_red then "1" else "0");
                          string_of_z nd.t_left; string_of_z nd.t_right; string_of_z nd.t_parent]
                         @ List.map str_f [v.ng0; v.ng1; v.ng2; v.na0; v.na1; v.na2]) in
    for _ = 1 to n do
      let t = next r in
      if t = "S" then
        toks := ("S:" ^ String.concat ";" (List.map row ((-1) :: 0 :: List.sort compare !used))) :: !toks
      else begin
        let o = match t with
          | "I" -> let k = next_f r in
            let g0 = next_f r in let g1 = next_f r in let g2 = next_f r in
            let a0 = next_f r in let a1 = next_f r in let a2 = next_f r in
            TIns (k, { ng0 = g0; ng1 = g1; ng2 = g2; na0 = a0; na1 = a1; na2 = a2 })
          | "D" -> TDel (next_f r)
          | "Q" -> let k = next_f r in let a = next_f r in let g = next_f r in TQry (k, a, g)
          | t -> raise (Parse ("bad tree op " ^ t)) in
        let top = (match !st.c_idle with id :: _ -> Some (int_of_z id) | [] -> None) in
        let (res, s') = fc_step !st o in
        st := s';
        let tok = match res with
          | RIns root ->
            (match top with Some id -> if not (List.mem id !used) then used := id :: !used | None -> ());
            "I:" ^ string_of_z root
          | RDel (root, d) -> "D:" ^ string_of_z root ^ ":" ^ string_of_z d
          | RNotFound -> "NF"
          | RQry m -> "Q:" ^ str_f m
          | RQErr -> "QERR"
          | RStop -> "STOP" in
        toks := tok :: !toks
      end
    done;
    String.concat " " (List.rev !toks)
  | _ -> "ERR unknown-op " ^ op)
