(* driver for the C10 model: one analysis per line
     an <n> instr.. <m> roots..
   instr tokens:  F x | C x y | V x y | W x k s | T x k s | R x      (k: 0 KBuf 1 KAttr 2 KSetData / 10 TRechunk 11 TWiden)
   output: <closed 0|1> <ret 0|1> <nhits> site kind site kind ...
     ex <n> instr.. <m> (var loc).. <probe loc>     run the program once in order with written value 7 from a state where
   the given variables denote the given locations: prints heap(probe) and the returned locations *)
open Model
open Zio
let next_pos r = pos_of_int (next_int r)
let next_instr r =
  match next r with
  | "F" -> IFresh (next_pos r)
  | "C" -> let x = next_pos r in let y = next_pos r in ICopy (x, y)
  | "V" -> let x = next_pos r in let y = next_pos r in IView (x, y)
  | "W" -> let x = next_pos r in let k = next_int r in let s = next_z r in
    IWrite (x, (match k with 0 -> KBuf | 1 -> KAttr | 2 -> KSetData | _ -> failwith "wkind"), s)
  | "T" -> let x = next_pos r in let k = next_int r in let s = next_z r in
    ITouch (x, (match k with 10 -> TRechunk | 11 -> TWiden | _ -> failwith "tkind"), s)
  | "R" -> IRet (next_pos r)
  | t -> failwith ("instr " ^ t)
let b2s b = if b then "1" else "0"
let () = main_loop (fun op r ->
  match op with
  | "an" ->
    let p = next_list r next_instr in
    let roots = next_list r next_pos in
    let ((closed, hits), ret) = analyse p roots in
    String.concat " " ([b2s closed; b2s ret; string_of_int (List.length hits)] @
                       List.concat_map (fun (s, k) -> [string_of_z s; string_of_z k]) hits)
  | "ex" ->
    let p = next_list r next_instr in
    let binds = next_list r (fun r -> let x = next_int r in let l = next_z r in (x, l)) in
    let probe = next_z r in
    let env0 x = (try Some (List.assoc (int_of_pos x) binds) with Not_found -> None) in
    let s0 = { env = env0; heap = (fun l -> l); next = z_of_int 1000000; ret = [] } in
    let s' = run (List.map (fun i -> (i, z_of_int 7)) p) s0 in
    String.concat " " (string_of_z (s'.heap probe) :: List.map string_of_z s'.ret)
  | _ -> "ERR unknown-op " ^ op)
