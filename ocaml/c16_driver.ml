(* driver for the C16 model: one case per line
     regions <4|8> <rows> <cols> cells..     -> the label raster, row-major
     pass1   <4|8> <rows> <cols> cells..     -> the labels after the first pass only *)
open Model
open Zio
open Xio
let () = main_loop (fun op r ->
  let n = next_int r in
  let rows = next_int r in let cols = next_int r in
  let g = next_n r rows (fun r -> next_n r cols next_xv) in
  let f = match op with
    | "regions" -> regions_model | "pass1" -> pass1_model
    | _ -> raise (Parse ("unknown-op " ^ op)) in
  string_of_grid string_of_xv (f (n = 8) (nat_of_int rows) (nat_of_int cols) g))
