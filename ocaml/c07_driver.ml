(* driver for the C07 model: one case per line
     dask <metric 0|2> <nties> ties.. <R> <M> <F> <mdn> <mdd> <nx> xc.. <ny> yc.. <nv> values.. <nrch> rch.. <ncch> cch.. <rows> <cols> cells..
   (max_distance = mdn/mdd, unbounded when mdd = 0; R M F: "inf" or integer key thresholds)
   output: pad_y pad_x followed by, for every cell row-major,  key row col   (as the C06 driver)
     whole <metric> <nties> ties.. <R> <M> <nx> xc.. <ny> yc.. <nv> values.. <rows> <cols> cells..
   output: key row col per cell *)
open Model
open Zio
open Xio
let next_ext r = match next r with "inf" -> EInf | s -> EFin (z_of_string s)
let next_coord r = match next r with "nan" -> None | s -> Some (z_of_string s)
let cells out =
  String.concat " " (List.map (fun row ->
    String.concat " " (List.map (fun (k, (a, b)) ->
      string_of_z k ^ " " ^ string_of_z a ^ " " ^ string_of_z b) row)) out)
let () = main_loop (fun op r ->
  match op with
  | "dask" ->
    let metric = next_z r in
    let ties = next_list r next_z in
    let rr = next_ext r in
    let mm = next_ext r in
    let ff = next_ext r in
    let mdn = next_z r in
    let mdd = next_z r in
    let xc = next_list r next_coord in
    let yc = next_list r next_coord in
    let vs = next_list r next_xv in
    let rch = next_list r next_z in
    let cch = next_list r next_z in
    let g = next_grid r next_xv in
    let ((py, px), out) = run_model_dask metric ties rr mm ff mdn mdd xc yc vs rch cch g in
    string_of_z py ^ " " ^ string_of_z px ^ " " ^ cells out
  | "whole" ->
    let metric = next_z r in
    let ties = next_list r next_z in
    let rr = next_ext r in
    let mm = next_ext r in
    let xc = next_list r next_coord in
    let yc = next_list r next_coord in
    let vs = next_list r next_xv in
    let g = next_grid r next_xv in
    cells (run_model_whole metric ties rr mm xc yc vs g)
  | _ -> "ERR unknown-op " ^ op)
