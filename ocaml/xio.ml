(* xio.ml — text tokens for Model.xv (nan / -inf / inf / integer). *)
open Model
open Zio
let xv_of_string (s : string) : xv =
  match s with
  | "nan" -> XNaN | "inf" -> XPInf | "-inf" -> XNInf
  | _ -> XFin (z_of_string s)
let string_of_xv (x : xv) : string =
  match x with XNaN -> "nan" | XPInf -> "inf" | XNInf -> "-inf" | XFin z -> string_of_z z
let next_xv r = xv_of_string (next r)
let string_of_list f l = String.concat " " (List.map f l)
let string_of_grid f g = String.concat " " (List.map (string_of_list f) g)
