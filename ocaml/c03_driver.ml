(* driver for the C03 model: one case per line
     ds  <nodata> <nz|-1> zone_ids.. <nblocks> { <ncells> (zone value).. }
         -> rows "zone count sum min max mean var" separated by ';'
     dsorig (same)  -> rows "zone sum" of the unpatched nansum combiner
     dx  <count|pct> <nodata> <nz|-1> zone_ids.. <nc|-1> cat_ids.. <nblocks> { <ncells> (zone value).. }
         -> rows "zone total e.." separated by ';' *)
open Model
open Zio
open Xio
let string_of_q (x : q) : string = string_of_z x.qnum ^ "/" ^ string_of_z (Zpos x.qden)
let opt f = function Some x -> f x | None -> "nan"
let next_ids r = let n = next_int r in if n < 0 then None else Some (next_n r n next_xv)
let next_blocks r =
  let nb = next_int r in
  next_n r nb (fun r -> let n = next_int r in next_n r n (fun r -> let z = next_xv r in let v = next_xv r in (z, v)))
let rows f t = String.concat " ; " (List.map f t)
let () = main_loop (fun op r ->
  match op with
  | "ds" ->
    let nd = next_xv r in let ids = next_ids r in let blocks = next_blocks r in
    rows (fun (u, d) -> String.concat " " [string_of_xv u; opt string_of_z d.d_count; opt string_of_z d.d_sum;
                                           opt string_of_z d.d_min; opt string_of_z d.d_max;
                                           opt string_of_q d.d_mean; opt string_of_q d.d_var])
      (dstats blocks ids nd)
  | "dsorig" ->
    let nd = next_xv r in let ids = next_ids r in let blocks = next_blocks r in
    rows (fun (u, s) -> string_of_xv u ^ " " ^ opt string_of_z s) (dsum_orig blocks ids nd)
  | "dx" ->
    let agg = next r in
    let nd = next_xv r in let zids = next_ids r in let cids = next_ids r in let blocks = next_blocks r in
    let t = dxtab blocks zids cids nd in
    if agg = "pct" then
      rows (fun ((u, es), (_, (tot, _))) -> String.concat " " (string_of_xv u :: string_of_z tot :: List.map (opt string_of_q) es))
        (List.combine (percentages t) t)
    else
      rows (fun (u, (tot, es)) -> String.concat " " (string_of_xv u :: string_of_z tot :: List.map string_of_z es)) t
  | _ -> "ERR unknown-op " ^ op)
