(* driver for the C18 model: one case per line
     trim  <ne> excludes.. <rows> <cols> cells.. <ny> ys.. <nx> xs..
     trimu (same; the membership test before fixes/C18-trim-nan-exclusion.diff)
     crop  <ni> ids.. <rows> <cols> zones.. <vrows> <vcols> values.. <ny> ys.. <nx> xs..
   output: top bottom left right <nrows> (<len> cells..)* <ny> ys.. <nx> xs.. *)
open Model
open Zio
open Xio
let show (((((((t, b), l), r), out), ys), xs)) =
  let row r = string_of_int (List.length r) ^ " " ^ string_of_list string_of_xv r in
  String.concat " " ([string_of_z t; string_of_z b; string_of_z l; string_of_z r;
                      string_of_int (List.length out)] @ List.map row out @
                     [string_of_int (List.length ys); string_of_list string_of_z ys;
                      string_of_int (List.length xs); string_of_list string_of_z xs])
let grid_with_shape r =
  let rows = next_int r in let cols = next_int r in
  (rows, cols, next_n r rows (fun r -> next_n r cols next_xv))
let () = main_loop (fun op r ->
  match op with
  | "trim" | "trimu" ->
    let ex = next_list r next_xv in
    let (rows, cols, g) = grid_with_shape r in
    let ys = next_list r next_z in
    let xs = next_list r next_z in
    let f = if op = "trim" then trim_model else trim_model_unfixed in
    show (f ex (nat_of_int rows) (nat_of_int cols) g ys xs)
  | "crop" ->
    let ids = next_list r next_xv in
    let (rows, cols, zones) = grid_with_shape r in
    let (_, _, values) = grid_with_shape r in
    let ys = next_list r next_z in
    let xs = next_list r next_z in
    show (crop_model ids (nat_of_int rows) (nat_of_int cols) zones values ys xs)
  | _ -> "ERR unknown-op " ^ op)
