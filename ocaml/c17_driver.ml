(* driver for the C17 model: one case per line
     stat <max|min|sum|mean|median|var> <nlayers> {<rows> <cols> cells..}*
     lesser|equal|greater  {ref grid (xv)} <nlayers> {grid}*
     lowest|highest        <nlayers> {grid}*
     rank|popularity       {ref grid (integers)} <nlayers> {grid}*
     combine               <nlayers> {grid}*
   output: rows separated by " | " (cells: nan/inf/-inf/integer, rationals as num/den,
   IDXERR for a Python IndexError/ValueError in the cell);
   combine: rows, then " # ", then the key tuples separated by " ; " *)
open Model
open Zio
open Xio
let string_of_qv = function
  | QNaN -> "nan" | QNInf -> "-inf" | QPInf -> "inf"
  | QFin q -> string_of_z q.qnum ^ "/" ^ string_of_z (Zpos q.qden)
let opt_cell = function Some x -> string_of_xv x | None -> "IDXERR"
let rows f g = String.concat " | " (List.map (string_of_list f) g)
let next_layers r = next_list r (fun r -> next_grid r next_xv)
let () = main_loop (fun op r ->
  match op with
  | "stat" ->
    let f = next r in
    let ls = next_layers r in
    (match f with
     | "max" -> rows string_of_xv (cell_stats_x stat_max ls)
     | "min" -> rows string_of_xv (cell_stats_x stat_min ls)
     | "sum" -> rows string_of_xv (cell_stats_x stat_sum ls)
     | "mean" -> rows string_of_qv (cell_stats_q stat_mean ls)
     | "median" -> rows string_of_qv (cell_stats_q stat_median ls)
     | "var" -> rows string_of_qv (cell_stats_q stat_var ls)
     | _ -> "ERR unknown-stat " ^ f)
  | "lesser" | "equal" | "greater" ->
    let rf = next_grid r next_xv in
    let ls = next_layers r in
    let f = (match op with "lesser" -> lesser_raster | "equal" -> equal_raster | _ -> greater_raster) in
    rows string_of_xv (f rf ls)
  | "lowest" -> let ls = next_layers r in rows opt_cell (lowest_raster ls)
  | "highest" -> let ls = next_layers r in rows opt_cell (highest_raster ls)
  | "rank" | "popularity" ->
    let rf = next_grid r next_z in
    let ls = next_layers r in
    rows opt_cell ((if op = "rank" then rank_raster else popularity_raster) rf ls)
  | "combine" ->
    let ls = next_layers r in
    let (g, keys) = combine_raster ls in
    rows string_of_xv g ^ " # " ^ String.concat " ; " (List.map (string_of_list string_of_xv) keys)
  | _ -> "ERR unknown-op " ^ op)
