(* driver for the C08 model (float instance): one case per line, numbers as C99 hex floats,
   a raster cell is  #<integer> (integer dtype) or a hex float;  RES = absent | scalar <c> | pair <cx> <cy>
     slope <k57> RES <nx> xs.. <ny> ys.. <rows> <cols> cells..
     aspect <radian> <rows> <cols> cells..
     curvature RES <nx> xs.. <ny> ys.. <rows> <cols> cells..
     hillshade <pi> <azimuth> <altitude> <rows> <cols> cells..
   output: result cells row-major as hex floats, or ERR value.
   libm atan / atan2 / sin / cos are passed to the model from here. *)
open Model
open Zio

let fl s = Float64.of_float (float_of_string s)
let next_fl r = fl (next r)
let next_cell r =
  let t = next r in
  if String.length t > 1 && t.[0] = '#' then CI (z_of_string (String.sub t 1 (String.length t - 1)))
  else CF (fl t)
let str_f x = Printf.sprintf "%h" (Float64.to_float x)
let str_grid g = String.concat " " (List.map (fun row -> String.concat " " (List.map str_f row)) g)
let lift1 f x = Float64.of_float (f (Float64.to_float x))
let lift2 f x y = Float64.of_float (f (Float64.to_float x) (Float64.to_float y))
let next_res r =
  match next r with
  | "absent" -> FAbsent
  | "scalar" -> let c = next_fl r in FScalar c
  | "pair" -> let a = next_fl r in let b = next_fl r in FPair (a, b)
  | t -> raise (Parse ("bad res " ^ t))

let () = main_loop (fun op r ->
  match op with
  | "slope" ->
    let k57 = next_fl r in
    let res = next_res r in
    let xs = next_list r next_fl in let ys = next_list r next_fl in
    let g = next_grid r next_cell in
    str_grid (f_slope (lift1 atan) k57 res xs ys g)
  | "aspect" ->
    let radian = next_fl r in
    let g = next_grid r next_cell in
    str_grid (f_aspect (lift2 atan2) radian g)
  | "curvature" ->
    let res = next_res r in
    let xs = next_list r next_fl in let ys = next_list r next_fl in
    let g = next_grid r next_cell in
    str_grid (f_curvature res xs ys g)
  | "hillshade" ->
    let pi = next_fl r in let az = next_fl r in let alt = next_fl r in
    let g = next_grid r next_cell in
    (match f_hillshade (lift1 atan) (lift1 sin) (lift1 cos) (lift2 atan2) pi az alt g with
     | Some o -> str_grid o
     | None -> "ERR value")
  | _ -> "ERR unknown-op " ^ op)
