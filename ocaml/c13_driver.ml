(* driver for the C13 model (float instance): one case per line
     <op> [params as C99 hex floats] then one grid per band: <rows> <cols> cells..
   ops:  ndvi nbr nbr2 ndmi gci (2 bands, public argument order)
         arvi sipi ebbi (3 bands)          savi <soil> (2)       evi <c1> <c2> <soil> <gain> (3)
         true_color <is32:0|1> <nodata> <c> <th> (3 bands)
   a cell is  #<integer>  (integer dtype) or a hex float (float dtype)
   output: result cells row-major as hex floats (true_color: R G B A planes of integers), or ERR value *)
open Model
open Zio

let fl s = Float64.of_float (float_of_string s)
let next_fl r = fl (next r)
let next_cell r =
  let t = next r in
  if String.length t > 1 && t.[0] = '#' then CI (z_of_string (String.sub t 1 (String.length t - 1)))
  else CF (fl t)
let str_f x = Printf.sprintf "%h" (Float64.to_float x)
let str_grid f g = String.concat " " (List.map (fun row -> String.concat " " (List.map f row)) g)
let expf x = Float64.of_float (exp (Float64.to_float x))

let () = main_loop (fun op r ->
  let g () = next_grid r next_cell in
  let two f = let a = g () in let b = g () in str_grid str_f (f a b) in
  let three f = let a = g () in let b = g () in let c = g () in str_grid str_f (f a b c) in
  match op with
  | "ndvi" -> two f_ndvi
  | "nbr" -> two f_nbr
  | "nbr2" -> two f_nbr2
  | "ndmi" -> two f_ndmi
  | "gci" -> two f_gci
  | "arvi" -> three f_arvi
  | "sipi" -> three f_sipi
  | "ebbi" -> three f_ebbi
  | "savi" ->
    let soil = next_fl r in
    let a = g () in let b = g () in
    (match f_savi soil a b with Some o -> str_grid str_f o | None -> "ERR value")
  | "evi" ->
    let c1 = next_fl r in let c2 = next_fl r in let soil = next_fl r in let gain = next_fl r in
    let a = g () in let b = g () in let c = g () in
    (match f_evi c1 c2 soil gain a b c with Some o -> str_grid str_f o | None -> "ERR value")
  | "true_color" ->
    let is32 = next_int r = 1 in
    let nodata = next_fl r in let c = next_fl r in let th = next_fl r in
    let rr = g () in let gg = g () in let bb = g () in
    let (((pr, pg), pb), pa) = f_true_color expf is32 nodata c th rr gg bb in
    String.concat " " (List.map (str_grid string_of_z) [pr; pg; pb; pa])
  | _ -> "ERR unknown-op " ^ op)
