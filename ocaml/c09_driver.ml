(* driver for the C09 model: one case per line
     apply <func> <rows> <cols> cells.. <krows> <kcols> kernel..      -> cells row-major | REJECT
     stats <n> names.. <rows> <cols> cells.. <krows> <kcols> kernel..  -> all layers row-major | REJECT
     mean <passes> <ne> excludes.. <rows> <cols> cells..               -> cells
     conv <rows> <cols> cells.. <krows> <kcols> weights..              -> cells
     hot <rows> <cols> z..                                             -> ints
     hotspots <rows> <cols> cells.. <krows> <kcols> weights..          -> ints | ZERODIV
     fapply/fstats/fmean/fconv/fhot/fhotspots/fglobal: the same kernels at the FLOAT instance
       (binary32 = SpecFloat, binary64 = PrimFloat); values are C99 hex floats, nan, inf, -inf
     ck <is_ndarray 0|1> <rows> <cols>                                 -> ok | reject
     defaults                                                          -> default stats_funcs, default apply func
   cells: nan | n | n/d (exact rationals).  x ** 0.5 is the external function of the model; here it is the
   double-precision sqrt of the double nearest to the argument (the theorems hold for every function). *)
open Model
open Zio

let q_of_string (s : Stdlib.String.t) : q =
  match String.index_opt s '/' with
  | None -> { qnum = z_of_string s; qden = XH }
  | Some k ->
    let n = z_of_string (String.sub s 0 k) in
    (match z_of_string (String.sub s (k + 1) (String.length s - k - 1)) with
     | Zpos p -> { qnum = n; qden = p }
     | _ -> failwith "bad denominator")
let string_of_q (x : q) =
  match x.qden with
  | XH -> string_of_z x.qnum
  | p -> string_of_z x.qnum ^ "/" ^ string_of_z (Zpos p)
let xq_of_string s = if s = "nan" then None else Some (q_of_string s)
let string_of_xq v = match qred_x v with None -> "nan" | Some x -> string_of_q x
let next_q r = q_of_string (next r)
let next_xq r = xq_of_string (next r)
let string_of_list f l = String.concat " " (List.map f l)
let string_of_grid f g = String.concat " " (List.map (string_of_list f) g)

(* ---- the external square root ---- *)
let rec float_of_pos p = match p with
  | XH -> 1.0 | XO r -> 2.0 *. float_of_pos r | XI r -> 2.0 *. float_of_pos r +. 1.0
let float_of_zz x = match x with Z0 -> 0.0 | Zpos p -> float_of_pos p | Zneg p -> -. float_of_pos p
let float_of_q (x : q) = float_of_zz x.qnum /. float_of_pos x.qden
let rec shift_pos p n = if n <= 0 then p else shift_pos (XO p) (n - 1)
let q_of_float (f : float) : q =
  if f = 0.0 then { qnum = Z0; qden = XH } else begin
    let (m, e) = Float.frexp f in                      (* f = m * 2^e, 0.5 <= |m| < 1 *)
    let mi = Float.to_int (Float.ldexp m 53) in        (* |mi| < 2^53 *)
    let e = e - 53 in
    let zn = z_of_int mi in
    if e >= 0 then
      { qnum = (match zn with Z0 -> Z0 | Zpos p -> Zpos (shift_pos p e) | Zneg p -> Zneg (shift_pos p e)); qden = XH }
    else { qnum = zn; qden = shift_pos XH (- e) }
  end
let qsqrt (x : q) : q = q_of_float (Float.sqrt (float_of_q x))

let prim_of_name = function
  | "mean" -> Some PNanmean | "sum" -> Some PNansum | "min" -> Some PNanmin | "max" -> Some PNanmax
  | "std" -> Some PNanstd | "var" -> Some PNanvar | "range" -> Some PRangeOfMinMax | _ -> None
let name_of_prim = function
  | PNanmean -> "nanmean" | PNansum -> "nansum" | PNanmin -> "nanmin" | PNanmax -> "nanmax"
  | PNanstd -> "nanstd" | PNanvar -> "nanvar" | PRangeOfMinMax -> "range_of_min_max"
let stat_of_name = function
  | "mean" -> S_mean | "max" -> S_max | "min" -> S_min | "range" -> S_range
  | "std" -> S_std | "var" -> S_var | "sum" -> S_sum | s -> failwith ("unknown stat " ^ s)
let name_of_stat = function
  | S_mean -> "mean" | S_max -> "max" | S_min -> "min" | S_range -> "range"
  | S_std -> "std" | S_var -> "var" | S_sum -> "sum"

let func_of_name (s : Stdlib.String.t) : xq grid -> xq =
  match s with
  | "u_range" -> u_range | "u_count" -> u_count | "u_nnan" -> u_nnan
  | "u_first" -> u_first | "u_idxsum" -> u_idxsum
  | _ -> (match prim_of_name s with
          | Some p -> q_reducer qsqrt p
          | None -> failwith ("unknown func " ^ s))

(* exact kernels are arrays of rationals as well (a kernel entry could be NaN in the generic model) *)
let next_kq r = Some (next_q r)

(* ---- float instance: values cross as C99 hex floats / nan / inf / -inf ---- *)
let fl (s : Stdlib.String.t) = Float64.of_float (float_of_string s)
let next_fl r = fl (next r)
let str_f x =
  let v = Float64.to_float x in
  if Float.is_nan v then "nan" else Printf.sprintf "%h" v
let str_fgrid g = String.concat " " (List.map (fun row -> String.concat " " (List.map str_f row)) g)

let () = main_loop (fun op r ->
  match op with
  | "apply" ->
    let f = func_of_name (next r) in
    let data = next_grid r next_xq in
    let kernel = next_grid r next_kq in
    (match q_apply f data kernel with
     | Some g -> string_of_grid string_of_xq g
     | None -> "REJECT")
  | "stats" ->
    let names = next_list r (fun r -> stat_of_name (next r)) in
    let data = next_grid r next_xq in
    let kernel = next_grid r next_kq in
    (match q_stats qsqrt data kernel names with
     | Some layers -> String.concat " " (List.map (string_of_grid string_of_xq) layers)
     | None -> "REJECT")
  | "mean" ->
    let passes = next_z r in
    let excludes = next_list r next_xq in
    let data = next_grid r next_xq in
    string_of_grid string_of_xq (q_mean data passes excludes)
  | "conv" ->
    let data = next_grid r next_xq in
    let kernel = next_grid r next_kq in
    string_of_grid string_of_xq (q_conv data kernel)
  | "hot" ->
    let z = next_grid r next_xq in
    string_of_grid string_of_z (q_hot z)
  | "hotspots" ->
    let data = next_grid r next_xq in
    let kernel = next_grid r next_kq in
    (match q_hotspots qsqrt data kernel with
     | Some g -> string_of_grid string_of_z g
     | None -> "ZERODIV")
  | "ck" ->
    let nd = next_int r in
    let rows = next_z r in
    let cols = next_z r in
    if custom_kernel_ok (nd <> 0) rows cols then "ok" else "reject"
  | "defaults" ->
    string_of_list name_of_stat default_stats_funcs ^ " | " ^ name_of_prim apply_default_func
  (* ---- float instance ---- *)
  | "fapply" ->
    let p = (match prim_of_name (next r) with Some p -> p | None -> failwith "unknown func") in
    let data = next_grid r next_fl in
    let kernel = next_grid r next_fl in
    (match f_apply p data kernel with Some g -> str_fgrid g | None -> "REJECT")
  | "fstats" ->
    let names = next_list r (fun r -> stat_of_name (next r)) in
    let data = next_grid r next_fl in
    let kernel = next_grid r next_fl in
    (match f_stats data kernel names with
     | Some layers -> String.concat " " (List.map str_fgrid layers)
     | None -> "REJECT")
  | "fmean" ->
    let passes = next_z r in
    let excludes = next_list r next_fl in
    let data = next_grid r next_fl in
    str_fgrid (f_mean data passes excludes)
  | "fconv" ->
    let data = next_grid r next_fl in
    let kernel = next_grid r next_fl in
    str_fgrid (f_conv data kernel)
  | "fhot" ->
    let z = next_grid r next_fl in
    string_of_grid string_of_z (f_hot z)
  | "fhotspots" ->
    let data = next_grid r next_fl in
    let kernel = next_grid r next_fl in
    (match f_hotspots data kernel with
     | Some g -> string_of_grid string_of_z g
     | None -> "ZERODIV")
  | "fglobal" ->
    let data = next_grid r next_fl in
    let (m, s) = f_global data in str_f m ^ " " ^ str_f s
  | _ -> "ERR unknown-op " ^ op)
