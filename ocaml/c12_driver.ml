(* driver for the C12 model: one case per line
     reclass <nb> bins.. <nn> newvals.. <rows> <cols> cells..
     binary  <nv> values.. <rows> <cols> cells..
     class   <nb> bins.. <rows> <cols> cells..
     jenksmin <k> <n> sorted integer data..
     jenksimp <k> <n> sorted integer data..     (the imperative model of _run_numpy_jenks_matrices / _run_jenks)
     qcuts <k> <n> sorted integer data..        (quantile: k * de-duplicated percentile cuts | class of each datum)
   output: the result cells row-major, or ERR … *)
open Model
open Zio
open Xio
let opt_cell = function Some x -> string_of_xv x | None -> "FUEL"
let string_of_q (q : q) = string_of_z q.qnum ^ "/" ^ string_of_z (Zpos q.qden)
let rec range a b = if a > b then [] else a :: range (a + 1) b
let () = main_loop (fun op r ->
  match op with
  | "reclass" ->
    let bins = next_list r next_xv in
    let nv = next_list r next_xv in
    let g = next_grid r next_xv in
    string_of_grid opt_cell (reclass_raster bins nv g)
  | "binary" ->
    let vs = next_list r next_xv in
    let g = next_grid r next_xv in
    string_of_grid string_of_xv (binary_raster vs g)
  | "class" ->
    let bins = next_list r next_xv in
    let g = next_grid r next_xv in
    string_of_grid opt_cell (List.map (List.map (class_cell bins)) g)
  | "jenksmin" ->
    (* jenksmin <k> <n> x1..xn  (integers, ascending) -> exact minimum within-class SSD as num/den *)
    let k = next_int r in
    let xs = next_list r next_z in
    let q = jenks_min (List.map (fun z -> { qnum = z; qden = XH }) xs) (nat_of_int k) in
    string_of_z q.qnum ^ "/" ^ string_of_z (Zpos q.qden)
  | "jenksimp" ->
    (* jenksimp <k> <n> x1..xn -> every cell of the two (n+1) x (k+1) matrices row-major as
         <lower_class_limit>,<var_combination num/den | inf>,<near-tie flag>
       then  | <bt_ok 0/1> | kclass (num/den each) | cuts *)
    let k = next_int r in
    let xs = next_list r next_z in
    let n = List.length xs in
    let data = List.map (fun z -> { qnum = z; qden = XH }) xs in
    let kn = nat_of_int k in
    let (lm, vm) = jenks_matrices data kn in
    let cell rr cc =
      let rn = nat_of_int rr and cn = nat_of_int cc in
      let v = match vm rn cn with Fin q -> string_of_q q | PInf -> "inf" in
      let tie = if rr >= 2 && cc >= 2 && near_tie data vm rn cn then "1" else "0" in
      string_of_z (lm rn cn) ^ "," ^ v ^ "," ^ tie in
    let cells = List.concat_map (fun rr -> List.map (fun cc -> cell rr cc) (range 0 k)) (range 0 n) in
    String.concat " " cells
    ^ " | " ^ (if jenks_bt_ok data kn then "1" else "0")
    ^ " | " ^ String.concat " " (List.map string_of_q (run_jenks data kn))
    ^ " | " ^ String.concat " " (List.map (fun c -> string_of_int (int_of_nat c)) (jenks_cuts data kn))
  | "qcuts" ->
    let k = next_int r in
    let xs = next_list r next_z in
    let kn = nat_of_int k in
    String.concat " " (List.map string_of_z (zuniq (q_cuts xs kn)))
    ^ " | " ^ String.concat " " (List.map (fun v -> opt_cell (quantile_class xs kn v)) xs)
  | _ -> "ERR unknown-op " ^ op)
