(* driver for the C12 model: one case per line
     reclass <nb> bins.. <nn> newvals.. <rows> <cols> cells..
     binary  <nv> values.. <rows> <cols> cells..
     class   <nb> bins.. <rows> <cols> cells..
     jenksmin <k> <n> sorted integer data..
   output: the result cells row-major, or ERR … *)
open Model
open Zio
open Xio
let opt_cell = function Some x -> string_of_xv x | None -> "FUEL"
let () = main_loop (fun op r ->
  match op with
  | "reclass" ->
    let bins = next_list r next_xv in
    let nv = next_list r next_xv in
    let g = next_grid r next_xv in
    string_of_grid opt_cell (reclass_raster bins nv g)
  | "binary" ->
    let vs = next_list r next_xv in
    let g = next_grid r next_xv in
    string_of_grid string_of_xv (binary_raster vs g)
  | "class" ->
    let bins = next_list r next_xv in
    let g = next_grid r next_xv in
    string_of_grid opt_cell (List.map (List.map (class_cell bins)) g)
  | "jenksmin" ->
    (* jenksmin <k> <n> x1..xn  (integers, ascending) -> exact minimum within-class SSD as num/den *)
    let k = next_int r in
    let xs = next_list r next_z in
    let q = jenks_min (List.map (fun z -> { qnum = z; qden = XH }) xs) (nat_of_int k) in
    string_of_z q.qnum ^ "/" ^ string_of_z (Zpos q.qden)
  | _ -> "ERR unknown-op " ^ op)
