(* driver for the C15 model: one case per line
     poly    <conn8 0/1> <ny> <nx> <hastr 0/1> [6 transform ints] <hasmask 0/1> <n values> [<n mask bits>]
     regions <conn8 0/1> <ny> <nx> <hasmask 0/1> <n values> [<n mask bits>]       (nx >= 2: _calculate_regions as called)
   output:  poly:    OK <npoly> { <value> <nrings> { <npts> x y x y ... } }   |  ERR none
            regions: OK r0 r1 ...                                             |  ERR none *)
open Model
open Zio
let next_bool r = (next_int r) <> 0
let () = main_loop (fun op r ->
  match op with
  | "poly" ->
    let c8 = next_bool r in
    let ny = next_int r in let nx = next_int r in
    let tr = if next_bool r then Some (next_n r 6 next_z) else None in
    let hasmask = next_bool r in
    let vals = next_n r (nx * ny) next_z in
    let mask = if hasmask then Some (next_n r (nx * ny) next_bool) else None in
    (match polygonize_model vals mask c8 tr (z_of_int nx) (z_of_int ny) with
     | None -> "ERR none"
     | Some (col, polys) ->
       let b = Buffer.create 256 in
       Buffer.add_string b ("OK " ^ string_of_int (List.length polys));
       if List.length col <> List.length polys then "ERR column-length"
       else begin
         List.iter2 (fun v rings ->
           Buffer.add_string b (" " ^ string_of_z v ^ " " ^ string_of_int (List.length rings));
           List.iter (fun ring ->
             Buffer.add_string b (" " ^ string_of_int (List.length ring));
             List.iter (fun (x, y) -> Buffer.add_string b (" " ^ string_of_z x ^ " " ^ string_of_z y)) ring) rings)
           col polys;
         Buffer.contents b
       end)
  | "regions" ->
    let c8 = next_bool r in
    let ny = next_int r in let nx = next_int r in
    let hasmask = next_bool r in
    let vals = next_n r (nx * ny) next_z in
    let mask = if hasmask then Some (next_n r (nx * ny) next_bool) else None in
    (match calculate_regions vals mask c8 (z_of_int nx) (z_of_int ny) with
     | None -> "ERR none"
     | Some rs -> "OK " ^ String.concat " " (List.map string_of_z rs))
  | _ -> "ERR unknown-op " ^ op)
