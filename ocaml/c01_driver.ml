(* driver for the C01 model: one case per line
     <op> <kr> <kc> kernel-cells.. <rows> <cols> cells.. <dy> <dx> <ncy> cy.. <ncx> cx..
   op: conv | curv | horn | hill | apply0 (nansum) | apply1 (nanmax) | apply2 (nanmin) | mean0 (sum) | mean1 (count)
   (curv/horn/hill/mean ignore the kernel; pass "0 0")
   output: the whole-raster result, " | ", the chunked (map_overlap) result; cells row-major
     ramp <ax> <stx> <ay> <sty> <ncy> cy.. <ncx> cx..
   output: whole coordinate raster " | " blockwise coordinate raster; each cell is x*1000003 + y *)
open Model
open Zio
open Xio
let next_chunks r = next_list r (fun r -> pos_of_int (next_int r))
let rec sum_pos = function [] -> 0 | p :: r -> int_of_pos p + sum_pos r
let () = main_loop (fun op r ->
  if op = "ramp" then begin
    let ax = next_z r in let stx = next_z r in let ay = next_z r in let sty = next_z r in
    let cy = next_chunks r in let cx = next_chunks r in
    let h = z_of_int (sum_pos cy) and w = z_of_int (sum_pos cx) in
    string_of_grid string_of_z (zramp_whole ax stx ay sty h w) ^ " | " ^
    string_of_grid string_of_z (zramp_blocks ax stx ay sty cy cx)
  end else begin
  let k = next_grid r next_xv in
  let g = next_grid r next_xv in
  let dy = next_z r in
  let dx = next_z r in
  let cy = next_chunks r in
  let cx = next_chunks r in
  let f = match op with
    | "conv" -> xconv k
    | "curv" -> xcurv
    | "horn" -> xhorn
    | "hill" -> xhill
    | "apply0" -> xapply (z_of_int 0) k
    | "apply1" -> xapply (z_of_int 1) k
    | "apply2" -> xapply (z_of_int 2) k
    | "mean0" -> xmean_part (z_of_int 0)
    | "mean1" -> xmean_part (z_of_int 1)
    | _ -> failwith ("unknown-op " ^ op) in
  string_of_grid string_of_xv (run_whole f g) ^ " | " ^
  string_of_grid string_of_xv (run_overlap f dy dx cy cx g)
  end)
