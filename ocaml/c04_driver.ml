(* driver for the C04 model: one case per line
     x2 | x2orig  <count|pct> <nodata> <nz|-1> zone_ids.. <nc|-1> cat_ids.. <ncells> (zone value)..
     x3 <count|sum|min|max|mean|var> <nodata> <nz|-1> zone_ids.. <nc|-1> cat_ids.. <nlayers> labels.. <ncells> (zone v_1..v_L)..
   output: rows "zone total e.." (x2) or "zone e.." (x3) separated by ';' *)
open Model
open Zio
open Xio
let string_of_q (x : q) : string = string_of_z x.qnum ^ "/" ^ string_of_z (Zpos x.qden)
let opt f = function Some x -> f x | None -> "nan"
let next_ids r = let n = next_int r in if n < 0 then None else Some (next_n r n next_xv)
let rows f t = String.concat " ; " (List.map f t)
let () = main_loop (fun op r ->
  let agg = next r in
  let nd = next_xv r in
  let zids = next_ids r in
  let cids = next_ids r in
  match op with
  | "x2" | "x2orig" ->
    let n = next_int r in
    let cells = next_n r n (fun r -> let z = next_xv r in let v = next_xv r in (z, v)) in
    let t = if op = "x2" then xtab cells zids cids nd else xtab_orig cells zids cids nd in
    if agg = "pct" then
      rows (fun ((u, es), (_, (tot, _))) -> String.concat " " (string_of_xv u :: string_of_z tot :: List.map (opt string_of_q) es))
        (List.combine (percentages t) t)
    else
      rows (fun (u, (tot, es)) -> String.concat " " (string_of_xv u :: string_of_z tot :: List.map string_of_z es)) t
  | "x3" ->
    let labels = next_list r next_xv in
    let nl = List.length labels in
    let n = next_int r in
    let cells = next_n r n (fun r -> let z = next_xv r in let vs = next_n r nl next_xv in (z, vs)) in
    let pz f e = rows (fun (u, es) -> String.concat " " (string_of_xv u :: List.map (opt string_of_z) es))
        (xtab3 f e cells labels zids cids nd) in
    let pq f e = rows (fun (u, es) -> String.concat " " (string_of_xv u :: List.map (opt string_of_q) es))
        (xtab3 f e cells labels zids cids nd) in
    (match agg with
     | "count" -> pz f_count (Some Z0)
     | "sum" -> pz f_sum (Some Z0)
     | "min" -> pz f_min None
     | "max" -> pz f_max None
     | "mean" -> pq f_mean None
     | "var" -> pq f_var None
     | _ -> "ERR unknown-agg " ^ agg)
  | _ -> "ERR unknown-op " ^ op)
