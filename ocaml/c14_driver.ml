(* driver for the C14 model (A* path finding): one case per line

     cells <conn> <snap_s> <snap_g> <h> <w> cells(xv).. <nb> barriers(xv).. <sy> <sx> <gy> <gx>
         PrimFloat instance of a_star_search after the coordinate->pixel step (pixel ids given)
     exact ...same arguments...
         exact instance  a + b*sqrt2 (+ sqrt n): cells printed  a,b,n
     full  <conn> <snap_s> <snap_g> <h> <w> cells.. <nb> barriers.. <ny> ycoords(float).. <nx> xcoords(float)..
           <resx|-> <resy|-> <sy> <sx> <gy> <gx>          (floats as %h / decimal)
         the whole a_star_search incl. _get_pixel_id / calc_res at binary64
     pix   <n> coords(float).. <res|-> <p>       one axis of _get_pixel_id  -> index or ERR 3
     pixz  <p> <c0> <s>                          exact integer model of the same step
     sgn3  <a> <b> <m> <n>                       sign of a + b sqrt2 + sqrt m - sqrt n
     bf    <conn> <h> <w> cells.. <nb> barriers.. <sy> <sx> <gy> <gx>     Bellman-Ford minimum  a,b | none

   output of the search ops: ERR <code> | STUCK | FUEL | the h*w cells row-major (nan or the value) *)
open Model
open Zio
open Xio

let next_float r = Float64.of_float (float_of_string (next r))
let next_bool r = (next_int r) <> 0
let next_optfloat r = let t = next r in if t = "-" then None else Some (Float64.of_float (float_of_string t))
let string_of_float_cell = function None -> "nan" | Some f -> Printf.sprintf "%h" (Float64.to_float f)
let string_of_xc_cell = function
  | None -> "nan"
  | Some ((a, b), n) -> string_of_z a ^ "," ^ string_of_z b ^ "," ^ string_of_z n

let show_result h w to_list cellstr res =
  match res with
  | RErr c -> "ERR " ^ string_of_z c
  | ROut OutOfFuel -> "FUEL"
  | ROut Stuck -> "STUCK"
  | ROut (Done img) -> String.concat " " (List.map cellstr (to_list h w img))

let read_common r =
  let conn = next_z r in
  let ss = next_bool r in
  let sg = next_bool r in
  let hi = next_int r in
  let wi = next_int r in
  let g = next_n r hi (fun r -> next_n r wi next_xv) in
  let barriers = next_list r next_xv in
  (conn, ss, sg, z_of_int hi, z_of_int wi, g, barriers)

let () = main_loop (fun op r ->
  match op with
  | "cells" ->
    let (conn, ss, sg, h, w, g, barriers) = read_common r in
    let sy = next_z r in let sx = next_z r in let gy = next_z r in let gx = next_z r in
    show_result h w F.f_img_list string_of_float_cell
      (F.f_astar_cells h w g barriers conn ss sg (sy, sx) (gy, gx))
  | "exact" ->
    let (conn, ss, sg, h, w, g, barriers) = read_common r in
    let sy = next_z r in let sx = next_z r in let gy = next_z r in let gx = next_z r in
    show_result h w xc_img_list string_of_xc_cell
      (xc_astar h w g barriers conn ss sg (sy, sx) (gy, gx))
  | "full" ->
    let (conn, ss, sg, h, w, g, barriers) = read_common r in
    let ys = next_list r next_float in
    let xs = next_list r next_float in
    let resx = next_optfloat r in
    let resy = next_optfloat r in
    let sy = next_float r in let sx = next_float r in
    let gy = next_float r in let gx = next_float r in
    show_result h w F.f_img_list string_of_float_cell
      (F.a_star h w g barriers conn ss sg ys xs resx resy sy sx gy gx)
  | "pix" ->
    let cs = next_list r next_float in
    let res = next_optfloat r in
    let p = next_float r in
    (match F.pixel_axis cs res p with None -> "ERR 3" | Some i -> string_of_z i)
  | "pixz" ->
    let p = next_z r in let c0 = next_z r in let s = next_z r in
    string_of_z (pixel_idx p c0 s)
  | "sgn3" ->
    let a = next_z r in let b = next_z r in let m = next_z r in let n = next_z r in
    string_of_z (sgn3 a b m n)
  | "bf" ->
    let conn = next_z r in
    let hi = next_int r in
    let wi = next_int r in
    let g = next_n r hi (fun r -> next_n r wi next_xv) in
    let barriers = next_list r next_xv in
    let sy = next_z r in let sx = next_z r in let gy = next_z r in let gx = next_z r in
    (match bf_min (z_of_int hi) (z_of_int wi) g barriers (offsets_of conn) (sy, sx) (gy, gx) with
     | None -> "none"
     | Some (a, b) -> string_of_z a ^ "," ^ string_of_z b)
  | _ -> "ERR unknown-op " ^ op)
