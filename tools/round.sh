#!/bin/bash
# usage: tools/round.sh <round no> <Cxx> <letter> [<letter>…] — confirm /tmp/mutout<round>-cxx/<letter> and run the check against each kept change
r=$1; p=$2; shift 2; l=$(echo $p | tr 'C' 'c')
for v in "$@"; do
  d=/tmp/mutout$r-$l/$v
  [ -f $d/patch.diff ] || { echo "$p-$v: no patch"; continue; }
  /venv/bin/python /verif/tools/confirm_seeded.py $p $d $p-$v 2>&1 | grep -v WARNING | tail -2
  [ -d /verif/seeded/$p-$v ] && /venv/bin/python /verif/tools/run_seeded.py $p-$v 2>&1 | grep -v WARNING | tail -1
done
