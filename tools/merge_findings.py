#!/venv/bin/python
"""Merge known_findings.d/*.json (written per property while the checks were built) into the single committed
known_findings.json (the file the checks consult); entries are de-duplicated on (property, key)."""
import glob, json, os
V = os.path.dirname(os.path.dirname(os.path.abspath(__file__)))
main = os.path.join(V, 'known_findings.json')
doc = json.load(open(main))
seen = {(k['property'], k['key']): k for k in doc['findings']}
for f in sorted(glob.glob(os.path.join(V, 'known_findings.d', '*.json'))):
    for k in json.load(open(f)).get('findings', []):
        seen[(k['property'], k['key'])] = k
doc['findings'] = [seen[k] for k in sorted(seen)]
json.dump(doc, open(main, 'w'), indent=1)
print(len(doc['findings']), 'findings;', sum(1 for k in doc['findings'] if k['status'] == 'known'), 'known,',
      sum(1 for k in doc['findings'] if k['status'] == 'fixed'), 'fixed')
