#!/venv/bin/python
"""Confirm a candidate seeded change and, if it holds up, keep it under /verif/seeded/<name>/.

usage: tools/confirm_seeded.py <property id> <candidate dir with patch.diff demo.py notes.txt> <name>

Confirms, in a scratch worktree of /repo's HEAD (removed afterwards):
  1. demo.py exits 0 on the unchanged tree;
  2. the patch applies and the package still imports;
  3. demo.py exits non-zero with the patch;
  4. the whole existing test suite gives exactly the baseline's stable passes with the patch.
"""
import json
import os
import shutil
import subprocess
import sys
import tempfile
import xml.etree.ElementTree as ET

VERIF = os.path.dirname(os.path.dirname(os.path.abspath(__file__)))


def sh(cmd, cwd=None, env=None, timeout=3600):
    p = subprocess.run(cmd, shell=True, cwd=cwd, env=env, stdout=subprocess.PIPE, stderr=subprocess.STDOUT, timeout=timeout)
    return p.returncode, p.stdout.decode('utf-8', 'replace')


def main():
    pid, cand, name = sys.argv[1], sys.argv[2], sys.argv[3]
    skip_suite = '--skip-suite' in sys.argv
    wt = tempfile.mkdtemp(prefix='confirm-', dir='/tmp')
    os.rmdir(wt)
    rc, out = sh('git -C /repo worktree add -q --detach %s HEAD' % wt)
    assert rc == 0, out
    env = dict(os.environ, PYTHONPATH=wt, PYTHONHASHSEED='0')
    meta = {'property': pid, 'name': name, 'repo_head': sh('git -C /repo rev-parse --short HEAD')[1].strip()}
    ok = False
    try:
        demo = os.path.join(cand, 'demo.py')
        patch = os.path.join(cand, 'patch.diff')
        rc0, out0 = sh('/venv/bin/python %s' % demo, cwd=wt, env=env, timeout=1200)
        meta['demo_clean_rc'] = rc0
        if rc0 != 0:
            print('REJECT: demo fails on the unchanged tree\n' + out0[-1500:])
            return 1
        rc, out = sh('git -C %s apply %s' % (wt, patch))
        if rc != 0:
            print('REJECT: patch does not apply: ' + out)
            return 1
        rc, out = sh('/venv/bin/python -c "import xrspatial, xrspatial.experimental.polygonize"', cwd=wt, env=env)
        if rc != 0:
            print('REJECT: package does not import with the patch: ' + out[-800:])
            return 1
        rc1, out1 = sh('/venv/bin/python %s' % demo, cwd=wt, env=env, timeout=1200)
        meta['demo_patched_rc'] = rc1
        meta['demo_patched_tail'] = out1[-600:]
        if rc1 == 0:
            print('REJECT: demo passes with the patch')
            return 1
        if not skip_suite:
            junit = os.path.join(wt, 'junit.xml')
            rc, out = sh('/venv/bin/python -m pytest -q -p no:cacheprovider --timeout=900 --continue-on-collection-errors '
                         '--junitxml=%s' % junit, cwd=wt, env=env, timeout=3000)
            base = json.load(open('/root/.vp/BASELINE.json'))
            passed = set()
            for tc in ET.parse(junit).getroot().iter('testcase'):
                bad = any(ch.tag in ('failure', 'error', 'skipped') for ch in tc)
                if not bad:
                    passed.add('%s::%s' % (tc.get('classname'), tc.get('name')))
            missing = sorted(set(base['stable_pass']) - passed)
            meta['suite_passed'] = len(passed)
            meta['suite_missing_from_baseline'] = missing
            if missing:
                print('REJECT: existing tests fail with the patch: %s' % missing[:10])
                return 1
        ok = True
        dst = os.path.join(VERIF, 'seeded', name)
        os.makedirs(dst, exist_ok=True)
        shutil.copy(patch, os.path.join(dst, 'patch.diff'))
        shutil.copy(demo, os.path.join(dst, 'demo.py'))
        notes = os.path.join(cand, 'notes.txt')
        meta['needs_to_manifest'] = open(notes).read() if os.path.exists(notes) else ''
        meta['confirmed'] = ['demo exits 0 on unchanged tree', 'patch applies, package imports',
                             'demo exits %d with patch' % rc1] + ([] if skip_suite else
                             ['full suite with patch: all %d baseline stable passes still pass' % len(base['stable_pass'])])
        json.dump(meta, open(os.path.join(dst, 'meta.json'), 'w'), indent=1)
        print('KEPT %s (%s)' % (name, pid))
        return 0
    finally:
        sh('git -C /repo worktree remove --force %s' % wt)
        if os.path.exists(wt):
            shutil.rmtree(wt, ignore_errors=True)


if __name__ == '__main__':
    sys.exit(main())
