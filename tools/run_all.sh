#!/bin/bash
# run every claimed property's check (quick by default) and summarise; usage: tools/run_all.sh [quick|thorough] [seed]
cd "$(dirname "$0")/.."
tier=${1:-quick}; seed=${2:-0}
for p in $(/venv/bin/python -c "import json;print(' '.join(c['property_id'] for c in json.load(open('MANIFEST.json'))['checks']))" 2>/dev/null); do
  s=$(date +%s)
  VERIF_SEED=$seed ./check $p --tier $tier > /tmp/runall-$p.log 2>&1; rc=$?
  e=$(( $(date +%s) - s ))
  echo "$p exit=$rc ${e}s $(grep -c '^VIOLATION' /tmp/runall-$p.log) violation(s) $(grep -c '^KNOWN-FINDING' /tmp/runall-$p.log) known | $(tail -1 /tmp/runall-$p.log)"
done
