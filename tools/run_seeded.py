#!/venv/bin/python
"""Run a property's check against one kept seeded change (in a scratch worktree, via VERIF_REPO) and
record whether the check caught it in seeded/<name>/meta.json.

usage: tools/run_seeded.py <name> [--tier quick|thorough] [--seed N]
"""
import json
import os
import shutil
import subprocess
import sys
import tempfile
import time

VERIF = os.path.dirname(os.path.dirname(os.path.abspath(__file__)))


def sh(cmd, cwd=None, env=None, timeout=7200):
    p = subprocess.run(cmd, shell=True, cwd=cwd, env=env, stdout=subprocess.PIPE, stderr=subprocess.STDOUT, timeout=timeout)
    return p.returncode, p.stdout.decode('utf-8', 'replace')


def main():
    name = sys.argv[1]
    tier = 'quick'
    seed = '0'
    if '--tier' in sys.argv:
        tier = sys.argv[sys.argv.index('--tier') + 1]
    if '--seed' in sys.argv:
        seed = sys.argv[sys.argv.index('--seed') + 1]
    d = os.path.join(VERIF, 'seeded', name)
    meta = json.load(open(os.path.join(d, 'meta.json')))
    pid = meta['property']
    wt = tempfile.mkdtemp(prefix='seeded-', dir='/tmp')
    os.rmdir(wt)
    rc, out = sh('git -C /repo worktree add -q --detach %s HEAD' % wt)
    assert rc == 0, out
    try:
        rc, out = sh('git -C %s apply %s' % (wt, os.path.join(d, 'patch.diff')))
        if rc != 0:
            print('patch does not apply to current /repo HEAD: ' + out)
            return 2
        env = dict(os.environ, VERIF_REPO=wt, VERIF_SEED=seed)
        t0 = time.time()
        rc, out = sh('./check %s --tier %s' % (pid, tier), cwd=VERIF, env=env)
        lines = [l for l in out.split('\n') if l.startswith('VIOLATION') or l.startswith('KNOWN-FINDING')
                 or l.startswith('OK ') or l.startswith('FAIL ')]
        caught = rc == 1 and any(l.startswith('VIOLATION property=%s' % pid) for l in lines)
        res = {'tier': tier, 'seed': int(seed), 'exit': rc, 'caught': caught, 'wall_s': round(time.time() - t0, 1),
               'lines': lines[:6], 'repo_head': sh('git -C /repo rev-parse --short HEAD')[1].strip()}
        viol = [l for l in lines if l.startswith('VIOLATION')]
        if viol and 'replay=' in viol[0]:
            rp = viol[0].split('replay=')[1].split()[0]
            try:
                r = json.load(open(rp))
                res['first_replay_what'] = (r.get('what') or str(r.get('broken', ''))[:300])[:300]
                res['no_failing_input_found'] = 'no-failing-input-found' in viol[0]
            except Exception:
                pass
        meta.setdefault('check_runs', [])
        meta['check_runs'] = [r for r in meta['check_runs'] if not (r['tier'] == tier and r['seed'] == int(seed))] + [res]
        json.dump(meta, open(os.path.join(d, 'meta.json'), 'w'), indent=1)
        print('%s %s: %s (exit %d, %.0fs) %s' % (name, pid, 'CAUGHT' if caught else 'MISSED', rc, res['wall_s'],
                                                 res.get('first_replay_what', '')[:160]))
        return 0 if caught else 1
    finally:
        sh('git -C /repo worktree remove --force %s' % wt)
        if os.path.exists(wt):
            shutil.rmtree(wt, ignore_errors=True)


if __name__ == '__main__':
    sys.exit(main())
