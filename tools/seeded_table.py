#!/venv/bin/python
"""print a markdown table of the seeded changes and what the checks did with them (from seeded/*/meta.json)"""
import glob, json, os
V = os.path.dirname(os.path.dirname(os.path.abspath(__file__)))
print('| seeded change | property | what it changes / needs | check result (quick tier) | first artefact that reports it |')
print('|---|---|---|---|---|')
for d in sorted(glob.glob(os.path.join(V, 'seeded', '*'))):
    m = json.load(open(os.path.join(d, 'meta.json')))
    notes = ' '.join((m.get('needs_to_manifest') or '').split())
    notes = notes[:260] + ('…' if len(notes) > 260 else '')
    runs = m.get('check_runs', [])
    if runs:
        r = runs[-1]
        res = ('caught' if r['caught'] else 'MISSED') + ' (%ss)' % int(r['wall_s'])
        art = ('no failing input found: ' if r.get('no_failing_input_found') else 'failing input: ') + ' '.join(str(r.get('first_replay_what', '')).split())[:200]
    else:
        res, art = 'not run', ''
    print('| %s | %s | %s | %s | %s |' % (m['name'], m['property'], notes.replace('|', '/'), res, art.replace('|', '/')))
