#!/bin/bash
# usage: tools/round5.sh Cxx   — confirm /tmp/mutout5-cxx/{I,J} and run the check against each kept change
p=$1; l=$(echo $p | tr 'C' 'c')
for v in I J; do
  d=/tmp/mutout5-$l/$v
  [ -f $d/patch.diff ] || { echo "$p-$v: no patch"; continue; }
  /venv/bin/python /verif/tools/confirm_seeded.py $p $d $p-$v 2>&1 | grep -v WARNING | tail -2
  [ -d /verif/seeded/$p-$v ] && /venv/bin/python /verif/tools/run_seeded.py $p-$v 2>&1 | grep -v WARNING | tail -1
done
