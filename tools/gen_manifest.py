#!/venv/bin/python
"""Regenerate /verif/MANIFEST.json from the per-property modules under harness/props."""
import importlib
import json
import os
import sys

VERIF = os.path.dirname(os.path.dirname(os.path.abspath(__file__)))
sys.path.insert(0, VERIF)
sys.path.insert(0, '/repo')

props = [json.loads(l) for l in open(os.path.join(VERIF, 'properties.jsonl'))]
checks = []
na = []
hooks_commits = []
ready = set(open(os.path.join(VERIF, 'tools', 'ready.txt')).read().split())
for p in props:
    pid = p['id']
    if pid not in ready:
        na.append({'property_id': pid, 'reason': 'check still under construction in this round (plan: DESIGN.md section 4 %s)' % pid})
        continue
    path = os.path.join(VERIF, 'harness', 'props', pid.lower() + '.py')
    if not os.path.exists(path):
        na.append({'property_id': pid, 'reason': 'not built yet in this round (planned: see DESIGN.md section 4 %s)' % pid})
        continue
    mod = importlib.import_module('harness.props.' + pid.lower())
    if getattr(mod, 'NOT_READY', False):
        na.append({'property_id': pid, 'reason': getattr(mod, 'NOT_READY_REASON', 'check under construction')})
        continue
    checks.append({
        'property_id': pid,
        'quick_cmd': './check %s --tier quick' % pid,
        'thorough_cmd': './check %s --tier thorough' % pid,
        'evidence_file': 'evidence/%s.json' % pid,
        'replay_cmd_template': './check %s --replay {path}' % pid,
        'engine': 'coq+correspondence',
        'level_claimed': {
            'category': 'proof',
            'text': getattr(mod, 'LEVEL_TEXT', 'Coq theorems about an executable Gallina model + model/implementation correspondence'),
            'design_ref': 'DESIGN.md section 13 (as built) and section 4 (plan), ' + pid,
        },
        'level_note': getattr(mod, 'LEVEL_NOTE', '; '.join(getattr(mod, 'TRUSTED', []) + getattr(mod, 'ASSUMPTIONS', []))),
        'technique': getattr(mod, 'TECHNIQUE', None) or (
            'machine-checked proof in Coq 8.16.1 (theorems in coq/%s/Props*.v, each with Print Assumptions; coqchk in the thorough tier) about a '
            'hand-written executable Gallina model of the anchored code; the model is tied to /repo on every run by a correspondence check '
            '(model extracted to OCaml and run against the implementation on generated inputs, bit-for-bit or exact)%s; when a proof obligation or '
            'the correspondence breaks, an independent Python oracle written from the property text searches for a concrete failing input. '
            'What is proved: %s' % (pid, (' and by a fail-closed Python-ast facts translator that regenerates coq/%s/Generated*.v from the source '
                                          '(proof obligations over the generated facts are re-checked by coqc each run)' % pid)
                                    if hasattr(mod, 'facts') else '',
                                    ' '.join(getattr(mod, 'LEVEL_TEXT', '').split())[:700])),
    })
m = {
    'version': 1,
    'setup_cmd': './check --setup',
    'hooks': {
        'guard': 'XRSPATIAL_VERIF',
        'enable': 'no hooks are needed: every observation point is a public return value or an importable module-private function; checks import xrspatial from /repo\'s working tree (PYTHONPATH=/repo)',
        'baseline_off_cmd': 'cd /repo && /venv/bin/python -m pytest -ra -q -p no:cacheprovider --timeout=900 --continue-on-collection-errors',
        'source_commits': hooks_commits,
        'add_only': True,
    },
    'engines': [{
        'name': 'coq+correspondence',
        'path': 'check',
        'serves_properties': [c['property_id'] for c in checks],
        'kind_free_text': 'Coq 8.16.1 developments under coq/<id> (Model.v executable definitions, Proofs.v, Props.v with the claimed theorems + Print Assumptions), extracted to OCaml and run against the implementation on generated inputs; Python oracles written from the property text search for failing inputs',
    }],
    'checks': checks,
    'not_applicable': na,
    'notes': 'See DESIGN.md. Known findings and fixed defects: known_findings.json.',
}
json.dump(m, open(os.path.join(VERIF, 'MANIFEST.json'), 'w'), indent=1)
print('checks:', [c['property_id'] for c in checks], 'not_applicable:', [n['property_id'] for n in na])
