#!/venv/bin/python
"""print a markdown table of known_findings.json (+ known_findings.d) for DESIGN.md"""
import json, glob, os, re
V = os.path.dirname(os.path.dirname(os.path.abspath(__file__)))
seen = {}
for f in [os.path.join(V, 'known_findings.json')] + sorted(glob.glob(os.path.join(V, 'known_findings.d', '*.json'))):
    if os.path.exists(f):
        for k in json.load(open(f)).get('findings', []):
            seen[(k['property'], k['key'])] = k
print('| property | key | status | commit | what failed |')
print('|---|---|---|---|---|')
for (p, key), k in sorted(seen.items()):
    w = re.sub(r'^(known|fixed):\s*property=\S+\s*', '', ' '.join(k['what'].split()))
    w = w[:330] + ('…' if len(w) > 330 else '')
    print('| %s | %s | %s | %s | %s |' % (p, key, k['status'], k.get('commit') or '', w.replace('|', '/')))
