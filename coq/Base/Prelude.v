(* Base/Prelude.v — shared imports, arithmetic automation set-up and list
   helpers used by every property development.  Definitions only plus small
   lemmas; closed under the global context. *)
From Coq Require Export ZArith List Bool Lia ZifyBool.
Export ListNotations.
Ltac Zify.zify_post_hook ::= Z.to_euclidean_division_equations.
Open Scope Z_scope.

(* Z-indexed access with a default, for indices known to be in range. *)
Definition nthZ {A} (d : A) (l : list A) (i : Z) : A :=
  if i <? 0 then d else nth (Z.to_nat i) l d.

Definition lenZ {A} (l : list A) : Z := Z.of_nat (length l).

(* Numba / NumPy indexing: a negative index wraps once (i + len). *)
Definition nthWrap {A} (d : A) (l : list A) (i : Z) : A :=
  if i <? 0 then nthZ d l (i + lenZ l) else nthZ d l i.

Lemma lenZ_nonneg {A} (l : list A) : 0 <= lenZ l.
Proof. unfold lenZ; lia. Qed.

Lemma nthWrap_nonneg {A} (d : A) l i : 0 <= i -> nthWrap d l i = nthZ d l i.
Proof. unfold nthWrap; intros; destruct (i <? 0) eqn:E; [lia|reflexivity]. Qed.

Lemma nthZ_cons_S {A} (d : A) a l i : 0 < i -> nthZ d (a :: l) i = nthZ d l (i - 1).
Proof.
  unfold nthZ; intros.
  destruct (i <? 0) eqn:E1; [lia|]. destruct (i - 1 <? 0) eqn:E2; [lia|].
  replace (Z.to_nat i) with (S (Z.to_nat (i - 1))) by lia. reflexivity.
Qed.

Lemma nthZ_cons_0 {A} (d : A) a l : nthZ d (a :: l) 0 = a.
Proof. reflexivity. Qed.

Lemma nthZ_in {A} (d : A) l i : 0 <= i < lenZ l -> In (nthZ d l i) l.
Proof.
  unfold nthZ, lenZ; intros. destruct (i <? 0) eqn:E; [lia|].
  apply nth_In; lia.
Qed.

Lemma nthZ_map {A B} (f : A -> B) da db l i :
  0 <= i < lenZ l -> nthZ db (map f l) i = f (nthZ da l i).
Proof.
  unfold nthZ, lenZ; intros. destruct (i <? 0) eqn:E; [lia|].
  rewrite nth_indep with (d' := f da) by (rewrite map_length; lia).
  apply map_nth.
Qed.

Lemma lenZ_map {A B} (f : A -> B) l : lenZ (map f l) = lenZ l.
Proof. unfold lenZ; now rewrite map_length. Qed.

Lemma lenZ_cons {A} (a : A) l : lenZ (a :: l) = lenZ l + 1.
Proof. unfold lenZ; simpl length; lia. Qed.

Lemma lenZ_app {A} (l l' : list A) : lenZ (l ++ l') = lenZ l + lenZ l'.
Proof. unfold lenZ; rewrite app_length; lia. Qed.

(* iota: [s; s+1; ...] of length n *)
Fixpoint ziota (s : Z) (n : nat) : list Z :=
  match n with O => [] | S k => s :: ziota (s + 1) k end.

Lemma ziota_length s n : length (ziota s n) = n.
Proof. revert s; induction n; simpl; auto. Qed.

Lemma ziota_In s n x : In x (ziota s n) <-> s <= x < s + Z.of_nat n.
Proof.
  revert s; induction n as [|n IH]; intros s; simpl.
  - lia.
  - rewrite IH. lia.
Qed.
