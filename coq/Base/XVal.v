(* Base/XVal.v — raster cell values for comparison-only algorithms:
   IEEE-754 values up to an order embedding of the finite ones into Z
   (the harness scales every finite number of one case by a common power of
   two, so finite doubles map to integers exactly and order-preservingly).
   NaN, -inf, +inf are explicit because the properties speak about them. *)
Require Import Base.Prelude.

Inductive xv : Type := XNaN | XNInf | XFin (z : Z) | XPInf.

Definition xisnan (a : xv) : bool := match a with XNaN => true | _ => false end.
Definition xisfinite (a : xv) : bool := match a with XFin _ => true | _ => false end.

(* IEEE comparisons: every comparison with NaN is false. *)
Definition xleb (a b : xv) : bool :=
  match a, b with
  | XNaN, _ | _, XNaN => false
  | XNInf, _ => true
  | _, XPInf => true
  | XFin x, XFin y => x <=? y
  | _, _ => false
  end.
Definition xltb (a b : xv) : bool :=
  match a, b with
  | XNaN, _ | _, XNaN => false
  | XNInf, XNInf => false
  | XNInf, _ => true
  | XPInf, _ => false
  | XFin x, XFin y => x <? y
  | XFin _, XPInf => true
  | XFin _, XNInf => false
  end.
Definition xeqb (a b : xv) : bool :=
  match a, b with
  | XNInf, XNInf | XPInf, XPInf => true
  | XFin x, XFin y => x =? y
  | _, _ => false
  end.
Definition xgtb a b := xltb b a.
Definition xgeb a b := xleb b a.

Lemma xeqb_eq a b : xeqb a b = true <-> a = b /\ a <> XNaN.
Proof.
  destruct a, b; simpl; split; try discriminate; try (intros [? ?]; congruence);
    try (intros; split; congruence).
  - intros H; apply Z.eqb_eq in H; subst; split; congruence.
  - intros [H _]; inversion H; apply Z.eqb_refl.
Qed.

Lemma xltb_not_leb a b : a <> XNaN -> b <> XNaN -> xltb a b = negb (xleb b a).
Proof. destruct a, b; simpl; try congruence; intros; lia. Qed.

Lemma xleb_total a b : a <> XNaN -> b <> XNaN -> xleb a b = true \/ xleb b a = true.
Proof. destruct a, b; simpl; try congruence; auto; intros; lia. Qed.

Lemma xleb_trans a b c : xleb a b = true -> xleb b c = true -> xleb a c = true.
Proof. destruct a, b, c; simpl; try congruence; lia. Qed.

Lemma xleb_refl a : a <> XNaN -> xleb a a = true.
Proof. destruct a; simpl; try congruence; intros; lia. Qed.
