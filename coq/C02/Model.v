(* C02/Model.v — executable model of the NumPy path of xrspatial/zonal.py `stats`:
   _strides, _sort_and_stride, _calc_stats, _stats_numpy (both return types).
   Definitions only.  Zone ids and raster values are Base.XVal.xv (NaN, -inf,
   finite, +inf); finite values are exact integers (the harness uses
   integer-valued data, zone ids are scaled by a common power of two).
   The model follows the source AFTER fixes/C02-neg-inf-zone.diff
   ([sort_and_stride]); the unpatched behaviour is kept as
   [sort_and_stride_orig] for the refutation witness in Props.v. *)
Require Import Base.Prelude Base.XVal.
From Coq Require Import QArith.
Open Scope Z_scope.

(* order used by np.argsort / np.sort / np.unique on floats:
   -inf < finite < +inf < NaN (NaN sorts to the end) *)
Definition zle (a b : xv) : bool :=
  match a, b with
  | _, XNaN => true
  | XNaN, _ => false
  | _, _ => xleb a b
  end.

(* Python  `u in ids`  on a list / ndarray: any(e == u) *)
Definition memx (u : xv) (ids : list xv) : bool := existsb (fun e => xeqb e u) ids.

(* ---- np.argsort(flatten_zones) followed by fancy indexing: a sort of the
   cells by zone key.  NumPy's default sort is not stable; the model uses the
   stable insertion sort, the theorems only use "sorted permutation". ---- *)
Section Keyed.
  Context {A : Type}.
  Variable key : A -> xv.
  Fixpoint kinsert (a : A) (l : list A) : list A :=
    match l with
    | [] => [a]
    | b :: r => if zle (key a) (key b) then a :: l else b :: kinsert a r
    end.
  Definition ksort (l : list A) : list A := fold_right kinsert [] l.
  (* x[np.isfinite(zone of x)] *)
  Definition kfinite (l : list A) : list A := filter (fun a => xisfinite (key a)) l.
End Keyed.

(* np.unique: ascending distinct values *)
Fixpoint uinsert (a : xv) (l : list xv) : list xv :=
  match l with
  | [] => [a]
  | b :: r => if xeqb a b then l else if zle a b then a :: l else b :: uinsert a r
  end.
Definition np_unique (l : list xv) : list xv := fold_right uinsert [] l.

(* ---- _strides(flatten_zones, unique_zones) ------------------------------
     count = 0
     for i in range(num_zones):
         while count < num_elements and flatten_zones[count] == unique_zones[i]: count += 1
         strides[i] = count
   The loop state is (count, flatten_zones[count:]); the while loop is
   structural on the remaining suffix. *)
Fixpoint skip_eq (u : xv) (rest : list xv) (count : Z) : list xv * Z :=
  match rest with
  | z :: r => if xeqb z u then skip_eq u r (count + 1) else (rest, count)
  | [] => (rest, count)
  end.
Fixpoint strides_go (rest : list xv) (count : Z) (uz : list xv) : list Z :=
  match uz with
  | [] => []
  | u :: us => let '(rest', c') := skip_eq u rest count in c' :: strides_go rest' c' us
  end.
Definition strides (zs uz : list xv) : list Z := strides_go zs 0 uz.

(* Python slice l[s:e] for 0 <= s *)
Definition slice {X} (l : list X) (s e : Z) : list X :=
  firstn (Z.to_nat (e - s)) (skipn (Z.to_nat s) l).

(* the recurring loop   start = 0; for i: end = breaks[i]; ... l[start:end] ...; start = end *)
Fixpoint slices {X} (l : list X) (start : Z) (breaks : list Z) : list (list X) :=
  match breaks with
  | [] => []
  | e :: bs => slice l start e :: slices l e bs
  end.

(* unique_zones = np.unique(zones[np.isfinite(zones)]) *)
Definition unique_zones {A} (key : A -> xv) (cells : list A) : list xv :=
  np_unique (filter xisfinite (map key cells)).

(* _sort_and_stride with the finite mask applied to sorted_zones, sorted_indices
   and values_by_zones alike (patched).  Returns the kept cells in sorted order
   (carrying index and value) and zone_breaks. *)
Definition sort_and_stride {A} (key : A -> xv) (cells : list A) (uz : list xv) : list A * list Z :=
  let kept := kfinite key (ksort key cells) in
  (kept, strides (map key kept) uz).

(* as in the unpatched source: only sorted_zones is filtered *)
Definition sort_and_stride_orig {A} (key : A -> xv) (cells : list A) (uz : list xv) : list A * list Z :=
  let sorted := ksort key cells in
  (sorted, strides (map key (kfinite key sorted)) uz).

(* ---- _calc_stats -------------------------------------------------------- *)
(* np.isfinite(v) & (v != nodata_values); nodata None behaves like NaN (never equal) *)
Definition valid (nodata v : xv) : bool := xisfinite v && negb (xeqb v nodata).
Definition fin_vals (l : list xv) : list Z :=
  flat_map (fun v => match v with XFin z => [z] | _ => [] end) l.
Definition valid_vals (nodata : xv) (l : list xv) : list Z := fin_vals (filter (valid nodata) l).
(* if len(zone_values) > 0: results[i] = func(zone_values)   else NaN (= None) *)
Definition reduce {T} (f : list Z -> T) (nodata : xv) (zone_values : list xv) : option T :=
  match valid_vals nodata zone_values with
  | [] => None
  | zv => Some (f zv)
  end.
Definition calc_stats {T} (f : list Z -> T) (nodata : xv) (vbz : list xv) (breaks : list Z)
           (uz ids : list xv) : list (option T) :=
  map (fun p => if memx (fst p) ids then reduce f nodata (snd p) else None)
      (combine uz (slices vbz 0 breaks)).

(* ---- _stats_numpy -------------------------------------------------------- *)
(* zone_ids = np.unique(zone_ids); zone_ids = [z for z in zone_ids if z in unique_zones] *)
Definition select_ids (uz : list xv) (zone_ids : option (list xv)) : list xv :=
  match zone_ids with
  | None => uz
  | Some ids => filter (fun z => memx z uz) (np_unique ids)
  end.

(* NumPy fancy assignment r[zs] = x, as a lookup function *)
Definition assign {X} (r : Z -> X) (zs : list Z) (x : X) : Z -> X :=
  fun j => if existsb (Z.eqb j) zs then x else r j.
Fixpoint index_of (u : xv) (uz : list xv) : Z :=
  match uz with
  | [] => 0
  | v :: r => if xeqb v u then 0 else 1 + index_of u r
  end.

Section Stats.
  Context {A T : Type}.
  Variables key value : A -> xv.
  Variable f : list Z -> T.            (* one entry of stats_funcs *)

  (* return_type='pandas.DataFrame': rows (zone label, statistic or NaN) *)
  Definition stats_numpy (cells : list A) (zone_ids : option (list xv)) (nodata : xv)
    : list (xv * option T) :=
    let uz := unique_zones key cells in
    let ids := select_ids uz zone_ids in
    let '(kept, breaks) := sort_and_stride key cells uz in
    let res := calc_stats f nodata (map value kept) breaks uz ids in
    (* selected_indexes = [i for i, z in enumerate(unique_zones) if z in zone_ids] *)
    let selected := map snd (filter (fun p => memx (fst p) ids) (combine uz res)) in
    combine ids selected.

  (* return_type='xarray.DataArray': one value per cell of the raster (row-major) *)
  Variable idx : A -> Z.
  Definition stats_raster (cells : list A) (zone_ids : option (list xv)) (nodata : xv) (n : Z)
    : list (option T) :=
    let uz := unique_zones key cells in
    let ids := select_ids uz zone_ids in
    let '(kept, breaks) := sort_and_stride key cells uz in
    let res := calc_stats f nodata (map value kept) breaks uz ids in
    let sidx := map idx kept in
    let r := fold_left (fun r zone =>
                 let iz := index_of zone uz in
                 let zs := if iz =? 0 then slice sidx 0 (nthZ 0 breaks iz)
                           else slice sidx (nthZ 0 breaks (iz - 1)) (nthZ 0 breaks iz) in
                 assign r zs (nthZ None res iz)) ids (fun _ => None) in
    map r (ziota 0 (Z.to_nat n)).

  (* the unpatched DataFrame path, for the refutation witness *)
  Definition stats_numpy_orig (cells : list A) (zone_ids : option (list xv)) (nodata : xv)
    : list (xv * option T) :=
    let uz := unique_zones key cells in
    let ids := select_ids uz zone_ids in
    let '(sorted, breaks) := sort_and_stride_orig key cells uz in
    let res := calc_stats f nodata (map value sorted) breaks uz ids in
    let selected := map snd (filter (fun p => memx (fst p) ids) (combine uz res)) in
    combine ids selected.
End Stats.

(* ---- the default statistics (exact arithmetic) and two user reducers ---- *)
Definition f_count (l : list Z) : Z := lenZ l.
Definition f_sum (l : list Z) : Z := fold_right Z.add 0 l.
Fixpoint omin (l : list Z) : option Z :=
  match l with
  | [] => None
  | x :: r => match omin r with None => Some x | Some m => Some (Z.min x m) end
  end.
Fixpoint omax (l : list Z) : option Z :=
  match l with
  | [] => None
  | x :: r => match omax r with None => Some x | Some m => Some (Z.max x m) end
  end.
Definition f_min (l : list Z) : Z := match omin l with Some m => m | None => 0 end.
Definition f_max (l : list Z) : Z := match omax l with Some m => m | None => 0 end.
Definition f_sumsq (l : list Z) : Z := f_sum (map (fun x => x * x) l).
(* z.mean() = sum / n *)
Definition f_mean (l : list Z) : Q := Qmake (f_sum l) (Z.to_pos (lenZ l)).
(* z.var() (ddof = 0) as the single fraction (n*sum(x^2) - sum(x)^2) / n^2; it is
   shown equal to mean((x - mean)^2) in Reducers.v *)
Definition f_var (l : list Z) : Q :=
  let n := lenZ l in Qmake (n * f_sumsq l - f_sum l * f_sum l) (Z.to_pos (n * n)).
(* user reducers: docstring example  lambda val: val.sum()*2 , and peak-to-peak *)
Definition f_dsum (l : list Z) : Z := 2 * f_sum l.
Definition f_ptp (l : list Z) : Z := f_max l - f_min l.

(* ---- concrete instances used by the driver ---- *)
Definition cell : Type := xv * xv.              (* (zone, value) *)
Definition icell : Type := Z * (xv * xv).        (* (flat index, (zone, value)) *)
Definition stats_df {T} (f : list Z -> T) := stats_numpy (A := cell) fst snd f.
Definition stats_df_orig {T} (f : list Z -> T) := stats_numpy_orig (A := cell) fst snd f.
Definition stats_ra {T} (f : list Z -> T) :=
  stats_raster (A := icell) (fun c => fst (snd c)) (fun c => snd (snd c)) f fst.
