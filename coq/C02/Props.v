(* C02/Props.v — the property theorems claimed for C02 (zonal stats summarise
   exactly the valid cells of each zone), nothing else. *)
Require Import Base.Prelude Base.XVal C02.Model C02.Sorting C02.Proofs C02.Reducers C02.Raster.
From Coq Require Import QArith.
Open Scope Z_scope.

(* _strides on zone-sorted keys returns the cumulative group sizes (for lists of
   ANY length), and the sorted list is the concatenation of its groups in the
   order of unique_zones.  Hypotheses: the keys are sorted, unique_zones is
   strictly ascending and NaN-free and contains every key. *)
Theorem C02_strides_cumcount : forall (A : Type) (key : A -> xv) (us : list xv) (l : list A) (c : Z),
  StronglySorted (kle key) l -> ascending us -> no_nan us -> covered key l us ->
  strides_go (map key l) c us = cumsum c (map (fun u => lenZ (filter (keq key u) l)) us)
  /\ l = concat (map (fun u => filter (keq key u) l) us).
Proof. exact @strides_go_groups. Qed.
Print Assumptions C02_strides_cumcount.

(* the i-th slice values_by_zones[zone_breaks[i-1]:zone_breaks[i]] is exactly the
   multiset of cells whose zone is unique_zones[i] — cells with a NaN / +-inf zone
   are in no slice *)
Theorem C02_slice_is_zone : forall (A : Type) (key : A -> xv) (cells : list A) (uz : list xv),
  uz_ok key cells uz ->
  let kept := fst (sort_and_stride key cells uz) in
  let breaks := snd (sort_and_stride key cells uz) in
  lenZ (slices kept 0 breaks) = lenZ uz /\
  forall i, 0 <= i < lenZ uz ->
    Permutation (nthZ [] (slices kept 0 breaks) i) (filter (keq key (nthZ XNaN uz i)) cells).
Proof.
  intros A key cells uz Hok kept breaks.
  destruct (sort_and_stride_spec key cells uz Hok) as (_ & _ & S).
  fold kept breaks in S. rewrite S. split; [apply lenZ_map|].
  intros i Hi. rewrite (nthZ_map _ XNaN) by exact Hi.
  assert (kept = kfinite key (ksort key cells)) as -> by reflexivity.
  apply keq_group_perm.
  destruct Hok as (_ & Hf & _). unfold all_fin in Hf. rewrite Forall_forall in Hf.
  apply Hf, nthZ_in, Hi.
Qed.
Print Assumptions C02_slice_is_zone.

(* THE PROPERTY (DataFrame return type), for every raster (any size), every
   nodata value, every NaN-free zone_ids list (any order, absent and duplicate
   ids) and EVERY permutation-invariant reducer f (the user-supplied reducer;
   the seven defaults are instances, next theorem):
   - there is exactly one row per distinct finite zone id present in the raster
     and requested, in ascending order;
   - its statistic is f over exactly the values of the cells whose zone equals
     the id and whose value is finite and different from nodata (in raster
     order), and NaN (None) if there is no such cell. *)
Theorem C02_stats_spec : forall (A T : Type) (key value : A -> xv) (f : list Z -> T),
  (forall l l', Permutation l l' -> f l = f l') ->
  forall (cells : list A) (zone_ids : option (list xv)) (nodata : xv),
  ids_ok zone_ids ->
  let rows := stats_numpy key value f cells zone_ids nodata in
  rows = map (fun u => (u, match zone_vals key value nodata cells u with
                           | [] => None | zv => Some (f zv) end)) (map fst rows) /\
  ascending (map fst rows) /\
  (forall u, In u (map fst rows) <->
     (xisfinite u = true /\ (exists a, In a cells /\ key a = u) /\ requested zone_ids u)).
Proof.
  intros A T key value f Hf cells zone_ids nodata Hids rows.
  assert (E : rows = map (fun u => (u, zone_stat key value f nodata cells u))
                         (select_ids (unique_zones key cells) zone_ids)).
  { apply stats_numpy_spec; auto. }
  assert (Efst : map fst rows = select_ids (unique_zones key cells) zone_ids).
  { rewrite E, map_map. cbn [fst]. apply map_id. }
  destruct (unique_zones_ok key cells) as (Ha & Hfin & _).
  destruct (select_ids_spec _ zone_ids Ha Hfin Hids) as (Sa & Sf & Si).
  rewrite Efst. split; [exact E|]. split; [exact Sa|].
  intros u. rewrite Si, unique_zones_In. tauto.
Qed.
Print Assumptions C02_stats_spec.

(* the seven default statistics (count, sum, min, max, mean, var — std is the
   square root of var, taken in floating point by the harness) and the two user
   reducers of the correspondence are permutation invariant, so C02_stats_spec
   applies to each of them *)
Theorem C02_default_stats_perm_invariant : forall l l', Permutation l l' ->
  f_count l = f_count l' /\ f_sum l = f_sum l' /\ f_min l = f_min l' /\ f_max l = f_max l' /\
  f_mean l = f_mean l' /\ f_var l = f_var l' /\ f_dsum l = f_dsum l' /\ f_ptp l = f_ptp l'.
Proof.
  intros l l' P. repeat split.
  - apply f_count_perm; auto. - apply f_sum_perm; auto. - apply f_min_perm; auto.
  - apply f_max_perm; auto. - apply f_mean_perm; auto. - apply f_var_perm; auto.
  - apply f_dsum_perm; auto. - apply f_ptp_perm; auto.
Qed.
Print Assumptions C02_default_stats_perm_invariant.

(* ... and they are the statistics their names say: min/max the least/greatest
   element, mean = sum/n, var = mean squared deviation from the mean *)
Theorem C02_default_stats_meaning : forall l, l <> [] ->
  (In (f_min l) l /\ forall x, In x l -> f_min l <= x) /\
  (In (f_max l) l /\ forall x, In x l -> x <= f_max l) /\
  (f_mean l == inject_Z (f_sum l) / inject_Z (lenZ l))%Q /\
  (f_var l == sq_dev_sum (f_mean l) l / inject_Z (lenZ l))%Q.
Proof.
  intros l Hne.
  assert (Hn : 0 < lenZ l). { destruct l; [congruence|]. rewrite lenZ_cons. pose proof (lenZ_nonneg l). lia. }
  split; [|split; [|split]].
  - destruct (omin_nonempty l Hne) as (m & Hm). unfold f_min. rewrite Hm. apply omin_spec; auto.
  - destruct (omax_nonempty l Hne) as (m & Hm). unfold f_max. rewrite Hm. apply omax_spec; auto.
  - apply f_mean_is_sum_over_n; auto.
  - apply f_var_is_mean_sq_dev; auto.
Qed.
Print Assumptions C02_default_stats_meaning.

(* return_type='xarray.DataArray', for every raster whose cells carry distinct flat
   indices, every permutation-invariant reducer, every NaN-free zone_ids: the cell with
   flat index k carries the statistic of its own zone when that zone is finite and
   selected, and NaN (None) otherwise — including every cell whose zone is NaN / +-inf *)
Theorem C02_raster_spec : forall (A T : Type) (key value : A -> xv) (idx : A -> Z) (f : list Z -> T),
  (forall l l', Permutation l l' -> f l = f l') ->
  forall (cells : list A) (zone_ids : option (list xv)) (nodata : xv) (n : Z) (a : A),
  ids_ok zone_ids -> NoDup (map idx cells) -> In a cells -> 0 <= idx a < n ->
  nthZ None (stats_raster key value f idx cells zone_ids nodata n) (idx a)
  = if xisfinite (key a) && memx (key a) (select_ids (unique_zones key cells) zone_ids)
    then match zone_vals key value nodata cells (key a) with [] => None | zv => Some (f zv) end
    else None.
Proof. intros; apply stats_raster_spec; auto. Qed.
Print Assumptions C02_raster_spec.

(* ---- non-vacuity / regression witnesses ---- *)
(* interleaved zones 2,1 with a NaN zone, a +inf zone and a -inf zone cell; value 9 is nodata *)
Definition ex_cells : list cell :=
  [(XNInf, XFin 100); (XFin 2, XFin 10); (XFin 1, XFin 1); (XNaN, XFin 50); (XFin 2, XFin 9);
   (XFin 1, XFin 3); (XPInf, XFin 70); (XFin 2, XNaN); (XFin 1, XFin 2); (XFin 3, XFin 9)].
Example C02_nonvacuous :
  uz_ok fst ex_cells (unique_zones fst ex_cells) /\
  stats_df f_sum ex_cells None (XFin 9) = [(XFin 1, Some 6); (XFin 2, Some 10); (XFin 3, None)] /\
  stats_df f_count ex_cells (Some [XFin 3; XFin 7; XFin 1; XFin 1]) (XFin 9) = [(XFin 1, Some 3); (XFin 3, None)] /\
  stats_df f_mean ex_cells (Some [XFin 1]) XNaN = [(XFin 1, Some (6 # 3))].
Proof. split; [apply unique_zones_ok|]. repeat split; vm_compute; reflexivity. Qed.

(* the unpatched _sort_and_stride: a -inf zone cell shifts every slice (zone 1
   receives the value 100 of the -inf cell); witness of the defect fixed by
   fixes/C02-neg-inf-zone.diff *)
Example C02_neg_inf_zone_refuted :
  stats_df_orig f_sum ex_cells None XNaN <> stats_df f_sum ex_cells None XNaN /\
  stats_df_orig f_sum ex_cells (Some [XFin 1]) XNaN = [(XFin 1, Some 104)] /\
  stats_df f_sum ex_cells (Some [XFin 1]) XNaN = [(XFin 1, Some 6)].
Proof. split; [vm_compute; discriminate|]. split; vm_compute; reflexivity. Qed.

Example C02_raster_nonvacuous :
  let ic := combine (ziota 0 (length ex_cells)) ex_cells in
  NoDup (map fst ic) /\
  stats_ra f_sum ic (Some [XFin 2; XFin 3]) (XFin 9) 10
  = [None; Some 10; None; None; Some 10; None; None; Some 10; None; None].
Proof.
  split; [|vm_compute; reflexivity].
  cbv [ex_cells length ziota combine map fst]. repeat (constructor; [simpl; intuition lia|]). constructor.
Qed.
