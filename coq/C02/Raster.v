(* C02/Raster.v — return_type='xarray.DataArray': every cell of a selected zone carries
   its zone's statistic, every other cell is NaN. *)
Require Import Base.Prelude Base.XVal C02.Model C02.Sorting C02.Proofs.

Lemma index_of_bounds c : forall L, In c L -> nn c -> 0 <= index_of c L < lenZ L.
Proof.
  induction L as [|k L IH]; intros Hin Hn; [destruct Hin|]. cbn [index_of]. rewrite lenZ_cons.
  destruct (xeqb k c) eqn:E.
  - pose proof (lenZ_nonneg L). lia.
  - destruct Hin as [->|Hin]; [rewrite xeqb_nn_refl in E; [discriminate|auto]|].
    specialize (IH Hin Hn). lia.
Qed.

Lemma index_of_nth {X} (d : X) (g : xv -> X) c : forall L,
  In c L -> nn c -> nthZ d (map g L) (index_of c L) = g c.
Proof.
  induction L as [|k L IH]; intros Hin Hn; [destruct Hin|]. cbn [map index_of].
  destruct (xeqb k c) eqn:E.
  - apply xeqb_true in E. subst; auto.
  - destruct Hin as [->|Hin]; [rewrite xeqb_nn_refl in E; [discriminate|auto]|].
    pose proof (index_of_bounds c L Hin Hn) as H0.
    rewrite nthZ_cons_S by lia. replace (1 + index_of c L - 1) with (index_of c L) by lia. apply IH; auto.
Qed.

Lemma slices_nth {X} (l : list X) : forall bs s i, 0 <= i < lenZ bs ->
  nthZ [] (slices l s bs) i = slice l (if i =? 0 then s else nthZ 0 bs (i - 1)) (nthZ 0 bs i).
Proof.
  induction bs as [|e bs IH]; intros s i Hi.
  - unfold lenZ in Hi; simpl in Hi; lia.
  - rewrite lenZ_cons in Hi. cbn [slices]. destruct (i =? 0) eqn:E.
    + assert (i = 0) by lia. subst i. reflexivity.
    + rewrite (nthZ_cons_S [] _ _ i) by lia. rewrite IH by lia.
      rewrite (nthZ_cons_S 0 e bs i) by lia.
      destruct (i - 1 =? 0) eqn:E2.
      * assert (H1 : i - 1 = 0) by lia. rewrite H1. rewrite nthZ_cons_0. reflexivity.
      * rewrite (nthZ_cons_S 0 e bs (i - 1)) by lia. reflexivity.
Qed.

Lemma cumsum_length l : forall c, length (cumsum c l) = length l.
Proof. induction l; intros c; simpl; auto. Qed.

Lemma NoDup_map_inj {X Y} (g : X -> Y) l a b :
  NoDup (map g l) -> In a l -> In b l -> g a = g b -> a = b.
Proof.
  induction l as [|x l IH]; intros Hnd Ha Hb E; [destruct Ha|].
  simpl in Hnd. inversion Hnd as [|? ? Hnin Hnd']; subst.
  destruct Ha as [->|Ha], Hb as [->|Hb]; auto.
  - exfalso. apply Hnin. rewrite E. apply in_map; auto.
  - exfalso. apply Hnin. rewrite <- E. apply in_map; auto.
Qed.

Lemma nthZ_ziota_map {X} (r : Z -> X) d n k : 0 <= k < Z.of_nat n -> nthZ d (map r (ziota 0 n)) k = r k.
Proof.
  intros Hk. assert (G : forall n s k, 0 <= k < Z.of_nat n -> nthZ d (map r (ziota s n)) k = r (s + k)).
  { clear. induction n as [|n IH]; intros s k Hk; [lia|]. cbn [ziota map].
    destruct (Z.eq_dec k 0) as [->|Hne].
    - rewrite nthZ_cons_0. f_equal. lia.
    - rewrite nthZ_cons_S by lia. rewrite IH by lia. f_equal. lia. }
  rewrite G by auto. f_equal.
Qed.

(* the fold of fancy assignments: when at most the zone zk owns position k *)
Lemma fold_assign {X} (ZS : xv -> list Z) (G : xv -> X) (k : Z) (zk : xv) : forall (ids : list xv) (r0 : Z -> X),
  (forall u, In u ids -> (existsb (Z.eqb k) (ZS u) = xeqb u zk)) ->
  fold_left (fun r u => assign r (ZS u) (G u)) ids r0 k
  = if memx zk ids then G zk else r0 k.
Proof.
  induction ids as [|u us IH]; intros r0 H; [reflexivity|].
  cbn [fold_left]. rewrite IH by (intros; apply H; simpl; auto).
  unfold memx. cbn [existsb]. fold (memx zk us).
  destruct (memx zk us) eqn:M.
  - rewrite orb_true_r. reflexivity.
  - rewrite orb_false_r. unfold assign. rewrite (H u (or_introl eq_refl)).
    destruct (xeqb u zk) eqn:E; auto. apply xeqb_true in E. subst; auto.
Qed.

Section Raster.
  Context {A T : Type}.
  Variables key value : A -> xv.
  Variable idx : A -> Z.
  Variable f : list Z -> T.
  Hypothesis f_perm : forall l l', Permutation l l' -> f l = f l'.

  Theorem stats_raster_spec (cells : list A) zone_ids nodata n (a : A) :
    ids_ok zone_ids -> NoDup (map idx cells) -> In a cells -> 0 <= idx a < n ->
    nthZ None (stats_raster key value f idx cells zone_ids nodata n) (idx a)
    = if xisfinite (key a) && memx (key a) (select_ids (unique_zones key cells) zone_ids)
      then zone_stat key value f nodata cells (key a) else None.
  Proof.
    intros Hids Hnd Ha Hk. unfold stats_raster.
    pose proof (unique_zones_ok key cells) as Hok.
    set (uz := unique_zones key cells) in *.
    pose proof Hok as (Hua & Huf & Huc).
    destruct (select_ids_spec uz zone_ids Hua Huf Hids) as (Sa & Sf & Si).
    set (ids := select_ids uz zone_ids) in *.
    destruct (sort_and_stride key cells uz) as [kept breaks] eqn:E.
    pose proof (sort_and_stride_spec key cells uz Hok) as H.
    rewrite E in H. cbn [fst snd] in H. destruct H as (P & B & S).
    rewrite (calc_stats_spec key value f f_perm cells uz ids nodata kept breaks Hok E).
    rewrite nthZ_ziota_map by lia.
    set (k := idx a). set (zk := key a).
    set (G := fun u => if memx u ids then zone_stat key value f nodata cells u else None).
    assert (Hlen : lenZ breaks = lenZ uz).
    { rewrite B. unfold lenZ. rewrite cumsum_length, map_length. reflexivity. }
    assert (Hfin : forall u, In u ids -> xisfinite u = true).
    { unfold all_fin in Sf. rewrite Forall_forall in Sf. auto. }
    transitivity (fold_left (fun r u => assign r (map idx (filter (keq key u) kept)) (G u)) ids (fun _ => None) k).
    - assert (Hgen : forall (L : list xv) r0, (forall u, In u L -> In u ids) ->
        fold_left (fun (r : Z -> option T) (zone : xv) =>
           assign r (if index_of zone uz =? 0 then slice (map idx kept) 0 (nthZ 0 breaks (index_of zone uz))
                     else slice (map idx kept) (nthZ 0 breaks (index_of zone uz - 1)) (nthZ 0 breaks (index_of zone uz)))
                  (nthZ None (map G uz) (index_of zone uz))) L r0
        = fold_left (fun r u => assign r (map idx (filter (keq key u) kept)) (G u)) L r0).
      { induction L as [|u L IH]; intros r0 HL; [reflexivity|]. cbn [fold_left].
        assert (Hu : In u ids) by (apply HL; simpl; auto).
        assert (Huz : In u uz) by (apply Si in Hu; tauto).
        assert (Hn : nn u) by (apply fin_nn, Hfin, Hu).
        pose proof (index_of_bounds u uz Huz Hn) as Hb.
        rewrite (index_of_nth None G u uz Huz Hn).
        assert (Hz : (if index_of u uz =? 0 then slice (map idx kept) 0 (nthZ 0 breaks (index_of u uz))
                      else slice (map idx kept) (nthZ 0 breaks (index_of u uz - 1)) (nthZ 0 breaks (index_of u uz)))
                     = map idx (filter (keq key u) kept)).
        { pose proof (slices_nth (map idx kept) breaks 0 (index_of u uz)) as Hs.
          rewrite Hlen in Hs. specialize (Hs Hb).
          rewrite slices_map, S, map_map in Hs.
          rewrite (index_of_nth [] (fun x => map idx (filter (keq key x) kept)) u uz Huz Hn) in Hs.
          rewrite Hs. destruct (index_of u uz =? 0); reflexivity. }
        rewrite Hz. apply IH. intros; apply HL; simpl; auto. }
      unfold G. rewrite <- Hgen by auto. reflexivity.
    - rewrite (fold_assign (fun u => map idx (filter (keq key u) kept)) G k zk).
      + unfold G. destruct (xisfinite zk) eqn:Fz; cbn [andb].
        * destruct (memx zk ids); reflexivity.
        * destruct (memx zk ids) eqn:M; auto.
          apply memx_In in M. destruct M as [M _]. apply Hfin in M. congruence.
      + intros u Hu. pose proof (Hfin u Hu) as Fu.
        assert (Ek : kept = kfinite key (ksort key cells)) by (unfold sort_and_stride in E; congruence).
        destruct (xeqb u zk) eqn:Eq.
        * apply xeqb_true in Eq. apply existsb_exists. exists k. split; [|apply Z.eqb_refl].
          apply in_map_iff. exists a. split; auto. apply filter_In. split.
          -- apply (Permutation_in _ (Permutation_sym P)). apply filter_In. split; auto.
             fold zk. rewrite <- Eq. exact Fu.
          -- unfold keq. fold zk. rewrite <- Eq. apply xeqb_fin_refl; auto.
        * destruct (existsb (Z.eqb k) (map idx (filter (keq key u) kept))) eqn:Ex; auto.
          apply existsb_exists in Ex. destruct Ex as (j & Hj & Ejk). apply Z.eqb_eq in Ejk. subst j.
          apply in_map_iff in Hj. destruct Hj as (b & Eb & Hb). apply filter_In in Hb. destruct Hb as [Hb Kb].
          apply (Permutation_in _ P) in Hb. apply filter_In in Hb. destruct Hb as [Hb _].
          assert (b = a) by (apply (NoDup_map_inj idx cells); auto).
          subst b. unfold keq in Kb. fold zk in Kb. rewrite xeqb_sym in Kb. congruence.
  Qed.
End Raster.
