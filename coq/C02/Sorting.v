(* C02/Sorting.v — the sort / unique primitives: ksort is a sorted permutation,
   np_unique is the strictly ascending list of the distinct elements. *)
Require Import Base.Prelude Base.XVal C02.Model.
From Coq Require Export Permutation Sorted.

Lemma zle_total a b : zle a b = true \/ zle b a = true.
Proof. destruct a, b; simpl; auto; lia. Qed.
Lemma zle_trans a b c : zle a b = true -> zle b c = true -> zle a c = true.
Proof. destruct a, b, c; simpl; try congruence; lia. Qed.
Lemma zle_refl a : zle a a = true.
Proof. destruct a; simpl; auto; lia. Qed.

Lemma xeqb_true a b : xeqb a b = true -> a = b.
Proof. intros H; apply xeqb_eq in H; tauto. Qed.
Definition nn (a : xv) : Prop := xisnan a = false.
Lemma fin_nn a : xisfinite a = true -> nn a.
Proof. destruct a; simpl; try discriminate; reflexivity. Qed.
Lemma xeqb_nn_refl a : nn a -> xeqb a a = true.
Proof. unfold nn; destruct a; simpl; try discriminate; intros; auto; lia. Qed.
Lemma xeqb_fin_refl a : xisfinite a = true -> xeqb a a = true.
Proof. intros; apply xeqb_nn_refl, fin_nn; auto. Qed.
Lemma xeqb_sym a b : xeqb a b = xeqb b a.
Proof. destruct a, b; simpl; auto; lia. Qed.
Lemma xltb_irrefl a : xltb a a = false.
Proof. destruct a; simpl; auto; lia. Qed.
Lemma xltb_trans a b c : xltb a b = true -> xltb b c = true -> xltb a c = true.
Proof. destruct a, b, c; simpl; try congruence; lia. Qed.
Lemma xltb_zle a b : xltb a b = true -> zle a b = true.
Proof. destruct a, b; simpl; try congruence; lia. Qed.
Lemma xltb_neq a b : xltb a b = true -> xeqb a b = false.
Proof. destruct a, b; simpl; try congruence; lia. Qed.
Lemma xltb_neq' a b : xltb a b = true -> xeqb b a = false.
Proof. destruct a, b; simpl; try congruence; lia. Qed.
(* on finite values: trichotomy *)
Lemma fin_trichotomy a b : nn a -> nn b ->
  xeqb a b = true \/ xltb a b = true \/ xltb b a = true.
Proof. unfold nn; destruct a, b; simpl; try discriminate; intros; auto; lia. Qed.
Lemma zle_fin_lt_or_eq a b : nn a -> nn b -> zle a b = true ->
  xeqb a b = true \/ xltb a b = true.
Proof. unfold nn; destruct a, b; simpl; try discriminate; intros; auto; lia. Qed.
Lemma zle_not_lt a b : zle a b = true -> xltb b a = false.
Proof. destruct a, b; simpl; try congruence; lia. Qed.

Lemma memx_In u l : memx u l = true <-> (In u l /\ u <> XNaN).
Proof.
  unfold memx. rewrite existsb_exists. split.
  - intros (e & Hin & He). apply xeqb_eq in He. destruct He as [-> Hn]. auto.
  - intros [Hin Hn]. exists u; split; auto. apply xeqb_eq; auto.
Qed.
Lemma memx_In_nn u l : nn u -> (memx u l = true <-> In u l).
Proof.
  intros Hf. rewrite memx_In. split; [tauto|]. intros; split; auto. intros ->; discriminate.
Qed.
Lemma memx_In_fin u l : xisfinite u = true -> (memx u l = true <-> In u l).
Proof. intros; apply memx_In_nn, fin_nn; auto. Qed.

Section KeyedSort.
  Context {A : Type}.
  Variable key : A -> xv.
  Definition kle (a b : A) : Prop := zle (key a) (key b) = true.

  Lemma kinsert_perm a l : Permutation (kinsert key a l) (a :: l).
  Proof.
    induction l as [|b r IH]; simpl; auto.
    destruct (zle (key a) (key b)); auto.
    rewrite IH. apply perm_swap.
  Qed.
  Lemma ksort_perm l : Permutation (ksort key l) l.
  Proof.
    induction l as [|a l IH]; simpl; auto.
    rewrite kinsert_perm. auto.
  Qed.
  Lemma kinsert_sorted a l : StronglySorted kle l -> StronglySorted kle (kinsert key a l).
  Proof.
    induction l as [|b r IH]; intros Hs; simpl.
    - constructor; auto.
    - destruct (zle (key a) (key b)) eqn:E.
      + constructor; auto. inversion Hs as [|? ? Hs' Hall]; subst.
        constructor; [exact E|].
        eapply Forall_impl; [|exact Hall]. intros c Hc. unfold kle in *. eapply zle_trans; eauto.
      + inversion Hs as [|? ? Hs' Hall]; subst.
        constructor; [auto|].
        eapply Permutation_Forall; [symmetry; apply kinsert_perm|].
        constructor; auto. unfold kle. destruct (zle_total (key a) (key b)); congruence.
  Qed.
  Lemma ksort_sorted l : StronglySorted kle (ksort key l).
  Proof. induction l; simpl; [constructor|apply kinsert_sorted; auto]. Qed.

  Lemma StronglySorted_filter (R : A -> A -> Prop) p l :
    StronglySorted R l -> StronglySorted R (filter p l).
  Proof.
    induction 1 as [|a l Hs IH Hall]; simpl; [constructor|].
    destruct (p a); auto. constructor; auto.
    rewrite Forall_forall in *. intros x Hx. apply filter_In in Hx. apply Hall; tauto.
  Qed.
End KeyedSort.

Lemma Permutation_filter' {A} (p : A -> bool) l l' :
  Permutation l l' -> Permutation (filter p l) (filter p l').
Proof.
  induction 1; simpl; auto.
  - destruct (p x); auto.
  - destruct (p x), (p y); auto. apply perm_swap.
  - etransitivity; eauto.
Qed.

(* ---- np_unique ---------------------------------------------------------- *)
Definition ascending (l : list xv) : Prop := StronglySorted (fun a b => xltb a b = true) l.
Definition all_fin (l : list xv) : Prop := Forall (fun u => xisfinite u = true) l.
Definition no_nan (l : list xv) : Prop := Forall nn l.
Lemma all_fin_no_nan l : all_fin l -> no_nan l.
Proof. apply Forall_impl. intros; apply fin_nn; auto. Qed.

Lemma uinsert_In a l x : nn a -> no_nan l -> (In x (uinsert a l) <-> x = a \/ In x l).
Proof.
  intros Ha. induction l as [|b r IH]; intros Hl; simpl.
  - intuition.
  - inversion Hl; subst. destruct (xeqb a b) eqn:E.
    + apply xeqb_true in E. subst. simpl. intuition.
    + destruct (zle a b); simpl; [intuition|]. rewrite IH by auto. intuition.
Qed.
Lemma uinsert_fin a l : nn a -> no_nan l -> no_nan (uinsert a l).
Proof.
  intros Ha Hl. unfold no_nan. rewrite Forall_forall. intros x Hx.
  apply uinsert_In in Hx; auto. destruct Hx as [->|Hx]; auto.
  unfold no_nan in Hl. rewrite Forall_forall in Hl. auto.
Qed.
Lemma uinsert_ascending a l : nn a -> no_nan l -> ascending l -> ascending (uinsert a l).
Proof.
  intros Ha. induction l as [|b r IH]; intros Hl Hs; simpl.
  - repeat constructor.
  - inversion Hl as [|? ? Hb Hr]; subst. inversion Hs as [|? ? Hs' Hall]; subst.
    destruct (xeqb a b) eqn:E; [exact Hs|].
    destruct (zle a b) eqn:E2.
    + assert (Hab : xltb a b = true).
      { destruct (zle_fin_lt_or_eq a b Ha Hb E2); congruence. }
      constructor; auto. constructor; auto.
      eapply Forall_impl; [|exact Hall]. intros c Hc. eapply xltb_trans; eauto.
    + constructor; [apply IH; auto|].
      rewrite Forall_forall. intros x Hx. apply uinsert_In in Hx; auto.
      destruct Hx as [->|Hx].
      * destruct (fin_trichotomy a b Ha Hb) as [H|[H|H]]; try congruence.
        apply xltb_zle in H. congruence.
      * rewrite Forall_forall in Hall. auto.
Qed.

Lemma np_unique_spec l : no_nan l ->
  no_nan (np_unique l) /\ ascending (np_unique l) /\ (forall x, In x (np_unique l) <-> In x l).
Proof.
  induction l as [|a l IH]; intros Hl; simpl.
  - repeat split; try constructor; auto.
  - inversion Hl; subst. destruct IH as (F & S & I); auto.
    split; [apply uinsert_fin; auto|]. split; [apply uinsert_ascending; auto|].
    intros x. rewrite uinsert_In by auto. rewrite I. intuition.
Qed.

Lemma filter_fin_all_fin l : all_fin (filter xisfinite l).
Proof. unfold all_fin. rewrite Forall_forall. intros x Hx. apply filter_In in Hx. tauto. Qed.

(* an ascending list has no duplicates and its elements determine it *)
Lemma ascending_tail_gt u us : ascending (u :: us) -> Forall (fun v => xltb u v = true) us.
Proof. inversion 1; auto. Qed.

(* filtering an ascending list B by membership in an ascending sub-list A gives back A *)
Lemma filter_mem_ascending : forall B A,
  ascending B -> ascending A -> no_nan A -> no_nan B -> (forall x, In x A -> In x B) ->
  filter (fun u => memx u A) B = A.
Proof.
  induction B as [|b B IH]; intros A HB HA FA FB Hsub.
  - destruct A as [|a A]; auto. exfalso. apply (Hsub a). left; auto.
  - inversion HB as [|? ? HB' HBall]; subst. inversion FB as [|? ? Fb FB']; subst.
    destruct A as [|a A].
    + change (filter (fun u => memx u []) (b :: B)) with (filter (fun u => memx u []) B).
      apply IH; auto. intros x [].
    + cbn [filter]. inversion HA as [|? ? HA' HAall]; subst. inversion FA as [|? ? Fa FA']; subst.
      destruct (xeqb a b) eqn:E.
      * apply xeqb_true in E; subst b.
        assert (Hm : memx a (a :: A) = true) by (apply memx_In_nn; simpl; auto).
        rewrite Hm. f_equal.
        transitivity (filter (fun u => memx u A) B); [|apply IH; auto].
        -- apply filter_ext_in. intros u Hu.
           rewrite Forall_forall in HBall. specialize (HBall u Hu).
           unfold memx. simpl. rewrite (xltb_neq _ _ HBall). reflexivity.
        -- intros x Hx. destruct (Hsub x (or_intror Hx)) as [->|]; auto.
           rewrite Forall_forall in HAall. specialize (HAall _ Hx). rewrite xltb_irrefl in HAall. discriminate.
      * (* b not in A: a must be in B, b < a, so b is dropped *)
        assert (HaB : In a B).
        { destruct (Hsub a (or_introl eq_refl)) as [->|]; auto. rewrite xeqb_nn_refl in E; congruence. }
        assert (Hba : xltb b a = true). { rewrite Forall_forall in HBall. auto. }
        assert (Hnb : memx b (a :: A) = false).
        { destruct (memx b (a :: A)) eqn:M; auto. apply memx_In in M. destruct M as [[->|Hin] _].
          - rewrite xltb_irrefl in Hba. discriminate.
          - rewrite Forall_forall in HAall. specialize (HAall _ Hin).
            pose proof (xltb_trans _ _ _ Hba HAall) as C. rewrite xltb_irrefl in C. discriminate. }
        rewrite Hnb. apply IH; auto.
        intros x Hx. destruct (Hsub x Hx) as [->|]; auto.
        exfalso. destruct Hx as [->|Hx].
        -- rewrite xltb_irrefl in Hba; discriminate.
        -- rewrite Forall_forall in HAall. specialize (HAall _ Hx).
           pose proof (xltb_trans _ _ _ Hba HAall) as C. rewrite xltb_irrefl in C. discriminate.
Qed.
