(* C02/Proofs.v — strides = cumulative group sizes, the i-th slice is exactly the
   group of zone i, _calc_stats / _stats_numpy specification. *)
Require Import Base.Prelude Base.XVal C02.Model C02.Sorting.

Definition keq {A} (key : A -> xv) (u : xv) (a : A) : bool := xeqb (key a) u.
Fixpoint cumsum (c : Z) (l : list Z) : list Z :=
  match l with [] => [] | x :: r => (c + x) :: cumsum (c + x) r end.

Lemma lenZ_nil {X} : lenZ (@nil X) = 0.
Proof. reflexivity. Qed.

Lemma filter_none {A} (p : A -> bool) l : Forall (fun a => p a = false) l -> filter p l = [].
Proof. induction 1 as [|a l Ha Hl IH]; simpl; auto. rewrite Ha; auto. Qed.
Lemma filter_all {A} (p : A -> bool) l : Forall (fun a => p a = true) l -> filter p l = l.
Proof. induction 1 as [|a l Ha Hl IH]; simpl; auto. rewrite Ha; f_equal; auto. Qed.
Lemma filter_filter_impl {A} (p q : A -> bool) l :
  (forall a, In a l -> p a = true -> q a = true) -> filter p (filter q l) = filter p l.
Proof.
  induction l as [|a l IH]; intros H; simpl; auto.
  destruct (q a) eqn:Q; simpl.
  - destruct (p a); rewrite IH; auto; intros; apply H; simpl; auto.
  - destruct (p a) eqn:P.
    + rewrite (H a) in Q; simpl; auto. discriminate.
    + apply IH. intros; apply H; simpl; auto.
Qed.
Lemma filter_map_comm {A B} (g : A -> B) (p : B -> bool) l :
  filter p (map g l) = map g (filter (fun a => p (g a)) l).
Proof. induction l as [|a l IH]; simpl; auto. destruct (p (g a)); simpl; rewrite IH; auto. Qed.
Lemma combine_map_self {A B} (g : A -> B) l : combine l (map g l) = map (fun a => (a, g a)) l.
Proof. induction l; simpl; f_equal; auto. Qed.

(* ---- the while loop of _strides consumes exactly one group ---- *)
Lemma skip_eq_group {A} (key : A -> xv) u (g r : list A) c :
  Forall (fun a => keq key u a = true) g ->
  Forall (fun a => keq key u a = false) r ->
  skip_eq u (map key (g ++ r)) c = (map key r, c + lenZ g).
Proof.
  revert c. induction g as [|a g IH]; intros c Hg Hr.
  - simpl. rewrite lenZ_nil, Z.add_0_r.
    destruct r as [|b r]; simpl; auto.
    inversion Hr as [|? ? Hb]; subst. unfold keq in Hb. rewrite Hb. reflexivity.
  - inversion Hg as [|? ? Ha Hg']; subst. unfold keq in Ha. simpl. rewrite Ha.
    rewrite IH; auto. rewrite lenZ_cons. f_equal. lia.
Qed.

(* a sorted list whose keys are all >= u splits into the u-group followed by the rest *)
Lemma sorted_split {A} (key : A -> xv) u (l : list A) :
  StronglySorted (kle key) l -> Forall (fun a => nn (key a)) l -> nn u ->
  Forall (fun a => zle u (key a) = true) l ->
  l = filter (keq key u) l ++ filter (fun a => negb (keq key u a)) l.
Proof.
  intros Hs Hf Hu Hlb. induction Hs as [|a l Hs IH Hall]; simpl; auto.
  inversion Hf as [|? ? Fa Fl]; subst. inversion Hlb as [|? ? La Ll]; subst.
  destruct (keq key u a) eqn:E; simpl.
  - f_equal. apply IH; auto.
  - assert (Hlt : xltb u (key a) = true).
    { destruct (zle_fin_lt_or_eq u (key a) Hu Fa La) as [H|H]; auto.
      unfold keq in E. rewrite xeqb_sym in E. congruence. }
    assert (Hnone : Forall (fun b => keq key u b = false) l).
    { rewrite Forall_forall in *. intros b Hb. unfold keq.
      specialize (Hall b Hb). unfold kle in Hall.
      destruct (xeqb (key b) u) eqn:E2; auto. apply xeqb_true in E2. rewrite E2 in Hall.
      apply zle_not_lt in Hall. congruence. }
    rewrite (filter_none _ _ Hnone). simpl. f_equal.
    symmetry. apply filter_all. eapply Forall_impl; [|exact Hnone]. intros b ->; reflexivity.
Qed.

Definition covered {A} (key : A -> xv) (l : list A) (us : list xv) : Prop :=
  Forall (fun a => In (key a) us) l.

(* strides = cumulative group sizes, and the sorted list is the concatenation of its groups *)
Lemma strides_go_groups {A} (key : A -> xv) : forall us (l : list A) c,
  StronglySorted (kle key) l -> ascending us -> no_nan us -> covered key l us ->
  strides_go (map key l) c us = cumsum c (map (fun u => lenZ (filter (keq key u) l)) us)
  /\ l = concat (map (fun u => filter (keq key u) l) us).
Proof.
  induction us as [|u us IH]; intros l c Hs Ha Hn Hc.
  - destruct l as [|a l]; simpl; auto. inversion Hc as [|? ? H]; subst. destruct H.
  - inversion Ha as [|? ? Ha' Hgt]; subst. inversion Hn as [|? ? Hu Hn']; subst.
    assert (Hnl : Forall (fun a => nn (key a)) l).
    { unfold covered in Hc. rewrite Forall_forall in *. intros a Hin. specialize (Hc a Hin).
      destruct Hc as [<-|Hc]; auto. }
    assert (Hlb : Forall (fun a => zle u (key a) = true) l).
    { unfold covered in Hc. rewrite Forall_forall in *. intros a Hin. specialize (Hc a Hin).
      destruct Hc as [<-|Hc]; [apply zle_refl|]. apply xltb_zle. auto. }
    pose proof (sorted_split key u l Hs Hnl Hu Hlb) as Hsplit.
    set (lo := filter (keq key u) l) in *.
    set (hi := filter (fun a => negb (keq key u a)) l) in *.
    assert (Hlo : Forall (fun a => keq key u a = true) lo).
    { rewrite Forall_forall. intros a Hin. apply filter_In in Hin. tauto. }
    assert (Hhi : Forall (fun a => keq key u a = false) hi).
    { rewrite Forall_forall. intros a Hin. apply filter_In in Hin.
      destruct Hin as [_ H]. destruct (keq key u a); auto; discriminate. }
    assert (Hchi : covered key hi us).
    { unfold covered in *. rewrite Forall_forall in *. intros a Hin.
      pose proof (Hhi a Hin) as Hne. apply filter_In in Hin. destruct Hin as [Hin _].
      destruct (Hc a Hin) as [E|H]; auto. unfold keq in Hne. rewrite <- E in Hne.
      rewrite xeqb_nn_refl in Hne; [discriminate|]. rewrite E; auto. }
    assert (Hshi : StronglySorted (kle key) hi) by (apply (StronglySorted_filter key); auto).
    assert (Hgrp : forall u', In u' us -> filter (keq key u') hi = filter (keq key u') l).
    { intros u' Hin. apply filter_filter_impl. intros a _ Hk. unfold keq in *.
      apply xeqb_true in Hk. rewrite Hk. rewrite Forall_forall in Hgt.
      rewrite (xltb_neq' _ _ (Hgt u' Hin)). reflexivity. }
    destruct (IH hi (c + lenZ lo) Hshi Ha' Hn' Hchi) as [IH1 IH2].
    split.
    + assert (Hm : map key l = map key (lo ++ hi)) by (f_equal; exact Hsplit).
      cbn [strides_go map cumsum]. rewrite Hm, (skip_eq_group key u lo hi c Hlo Hhi).
      f_equal. rewrite IH1. f_equal. apply map_ext_in. intros u' Hin. rewrite Hgrp; auto.
    + cbn [map concat]. fold lo. rewrite Hsplit at 1. f_equal.
      rewrite IH2 at 1. f_equal. apply map_ext_in. intros u' Hin. apply Hgrp; auto.
Qed.

(* ---- slicing a concatenation at its cumulative lengths returns the pieces ---- *)
Lemma slice_app_mid {X} (p g r : list X) :
  slice (p ++ g ++ r) (lenZ p) (lenZ p + lenZ g) = g.
Proof.
  unfold slice, lenZ.
  replace (Z.to_nat (Z.of_nat (length p) + Z.of_nat (length g) - Z.of_nat (length p))) with (length g) by lia.
  rewrite Nat2Z.id, skipn_app, skipn_all, Nat.sub_diag. simpl.
  rewrite firstn_app, firstn_all, Nat.sub_diag. simpl. apply app_nil_r.
Qed.

Lemma slices_concat {X} : forall (gs : list (list X)) (p : list X),
  slices (p ++ concat gs) (lenZ p) (cumsum (lenZ p) (map lenZ gs)) = gs.
Proof.
  induction gs as [|g gs IH]; intros p; simpl; auto.
  f_equal.
  - apply slice_app_mid.
  - rewrite <- lenZ_app, app_assoc. apply IH.
Qed.

Lemma slice_map {X Y} (g : X -> Y) l s e : slice (map g l) s e = map g (slice l s e).
Proof. unfold slice. rewrite skipn_map, firstn_map. reflexivity. Qed.
Lemma slices_map {X Y} (g : X -> Y) l : forall bs s, slices (map g l) s bs = map (map g) (slices l s bs).
Proof. induction bs as [|e bs IH]; intros s; simpl; auto. rewrite slice_map, IH. reflexivity. Qed.

(* ---- _sort_and_stride ---------------------------------------------------- *)
(* uz is ascending, NaN-free and contains every finite zone id of the cells
   (true of np.unique(zones[isfinite]) of the whole raster, hence also for any block of it) *)
Definition uz_ok {A} (key : A -> xv) (cells : list A) (uz : list xv) : Prop :=
  ascending uz /\ all_fin uz /\ forall a, In a cells -> xisfinite (key a) = true -> In (key a) uz.

Lemma kept_perm {A} (key : A -> xv) (cells : list A) :
  Permutation (kfinite key (ksort key cells)) (kfinite key cells).
Proof. apply Permutation_filter', ksort_perm. Qed.

Lemma sort_and_stride_spec {A} (key : A -> xv) (cells : list A) uz :
  uz_ok key cells uz ->
  let kept := fst (sort_and_stride key cells uz) in
  let breaks := snd (sort_and_stride key cells uz) in
  Permutation kept (kfinite key cells) /\
  breaks = cumsum 0 (map (fun u => lenZ (filter (keq key u) kept)) uz) /\
  slices kept 0 breaks = map (fun u => filter (keq key u) kept) uz.
Proof.
  intros (Hasc & Hfin & Hcov). unfold sort_and_stride. cbn [fst snd].
  set (kept := kfinite key (ksort key cells)).
  assert (Hperm : Permutation kept (kfinite key cells)) by apply kept_perm.
  assert (Hs : StronglySorted (kle key) kept).
  { unfold kept, kfinite. apply (StronglySorted_filter key). apply ksort_sorted. }
  assert (Hc : covered key kept uz).
  { unfold covered. rewrite Forall_forall. intros a Hin.
    pose proof (Permutation_in _ Hperm Hin) as Hin'. apply filter_In in Hin'.
    destruct Hin' as [Hin' Hf]. auto. }
  destruct (strides_go_groups key uz kept 0 Hs Hasc (all_fin_no_nan _ Hfin) Hc) as [H1 H2].
  split; [exact Hperm|]. split; [exact H1|].
  unfold strides. rewrite H1.
  pose proof (slices_concat (map (fun u => filter (keq key u) kept) uz) []) as H.
  rewrite map_map in H. simpl in H. rewrite <- H2 in H. exact H.
Qed.

(* "the i-th slice is exactly the multiset of cells of zone i" *)
Lemma keq_group_perm {A} (key : A -> xv) (cells : list A) u :
  xisfinite u = true ->
  Permutation (filter (keq key u) (kfinite key (ksort key cells))) (filter (keq key u) cells).
Proof.
  intros Hu. etransitivity; [apply Permutation_filter', kept_perm|].
  unfold kfinite. rewrite filter_filter_impl; auto.
  intros a _ Hk. unfold keq in Hk. apply xeqb_true in Hk. rewrite Hk. exact Hu.
Qed.

(* ---- unique_zones / select_ids ------------------------------------------ *)
Lemma unique_zones_In {A} (key : A -> xv) (cells : list A) u :
  In u (unique_zones key cells) <-> (xisfinite u = true /\ exists a, In a cells /\ key a = u).
Proof.
  unfold unique_zones.
  destruct (np_unique_spec (filter xisfinite (map key cells))) as (_ & _ & I).
  { apply all_fin_no_nan, filter_fin_all_fin. }
  rewrite I, filter_In, in_map_iff. split.
  - intros [(a & E & Hin) Hf]. split; auto. exists a; auto.
  - intros [Hf (a & Hin & E)]. split; auto. exists a; auto.
Qed.

Lemma unique_zones_fin {A} (key : A -> xv) (cells : list A) : all_fin (unique_zones key cells).
Proof.
  unfold all_fin. rewrite Forall_forall. intros u Hu. apply unique_zones_In in Hu. tauto.
Qed.

Lemma unique_zones_ok {A} (key : A -> xv) (cells : list A) : uz_ok key cells (unique_zones key cells).
Proof.
  split; [|split].
  - unfold unique_zones. apply np_unique_spec. apply all_fin_no_nan, filter_fin_all_fin.
  - apply unique_zones_fin.
  - intros a Hin Hf. apply unique_zones_In. split; auto. exists a; auto.
Qed.

Definition ids_ok (zone_ids : option (list xv)) : Prop :=
  match zone_ids with None => True | Some l => no_nan l end.
(* the ids the caller asked for *)
Definition requested (zone_ids : option (list xv)) (u : xv) : Prop :=
  match zone_ids with None => True | Some l => In u l end.

Lemma select_ids_spec uz zone_ids :
  ascending uz -> all_fin uz -> ids_ok zone_ids ->
  let ids := select_ids uz zone_ids in
  ascending ids /\ all_fin ids /\ (forall u, In u ids <-> In u uz /\ requested zone_ids u).
Proof.
  intros Ha Hf Hok. destruct zone_ids as [l|]; simpl in *.
  - destruct (np_unique_spec l Hok) as (N & S & I).
    split; [|split].
    + apply (StronglySorted_filter (fun x : xv => x)). exact S.
    + unfold all_fin. rewrite Forall_forall. intros u Hu. apply filter_In in Hu.
      destruct Hu as [_ Hm]. apply memx_In in Hm. destruct Hm as [Hm _].
      unfold all_fin in Hf. rewrite Forall_forall in Hf. auto.
    + intros u. rewrite filter_In, I. split.
      * intros [Hl Hm]. apply memx_In in Hm. tauto.
      * intros [Hu Hl]. split; auto. apply memx_In_fin; auto.
        unfold all_fin in Hf. rewrite Forall_forall in Hf. auto.
  - repeat split; auto; tauto.
Qed.

(* ---- _calc_stats / _stats_numpy ------------------------------------------ *)
Lemma Permutation_nil_cons' {X} (x : X) l : ~ Permutation [] (x :: l).
Proof. apply Permutation_nil_cons. Qed.

Lemma valid_vals_perm nodata l l' :
  Permutation l l' -> Permutation (valid_vals nodata l) (valid_vals nodata l').
Proof.
  intros P. unfold valid_vals, fin_vals. apply Permutation_flat_map, Permutation_filter', P.
Qed.

Section StatsSpec.
  Context {A T : Type}.
  Variables key value : A -> xv.
  Variable f : list Z -> T.
  Hypothesis f_perm : forall l l', Permutation l l' -> f l = f l'.

  (* the property's "cells whose zone equals the id and whose value is finite and
     different from nodata_values", in raster order *)
  Definition zone_vals (nodata : xv) (cells : list A) (u : xv) : list Z :=
    valid_vals nodata (map value (filter (keq key u) cells)).
  (* the statistic of zone u, NaN (None) when the zone has no valid cell *)
  Definition zone_stat (nodata : xv) (cells : list A) (u : xv) : option T :=
    match zone_vals nodata cells u with [] => None | zv => Some (f zv) end.

  Lemma reduce_perm nodata l l' : Permutation l l' -> reduce f nodata l = reduce f nodata l'.
  Proof.
    intros P. unfold reduce. pose proof (valid_vals_perm nodata _ _ P) as Q.
    destruct (valid_vals nodata l) as [|x r], (valid_vals nodata l') as [|x' r']; auto.
    - exfalso. eapply Permutation_nil_cons; eauto.
    - exfalso. apply Permutation_sym in Q. eapply Permutation_nil_cons; eauto.
    - f_equal. apply f_perm; auto.
  Qed.

  Lemma calc_stats_spec cells uz ids nodata kept breaks :
    uz_ok key cells uz -> sort_and_stride key cells uz = (kept, breaks) ->
    calc_stats f nodata (map value kept) breaks uz ids
    = map (fun u => if memx u ids then zone_stat nodata cells u else None) uz.
  Proof.
    intros Hok E. pose proof (sort_and_stride_spec key cells uz Hok) as H.
    rewrite E in H. cbn [fst snd] in H. destruct H as (P & B & S).
    unfold calc_stats. rewrite slices_map, S, map_map, combine_map_self, map_map.
    apply map_ext_in. intros u Hin. cbn [fst snd].
    destruct (memx u ids); auto.
    change (zone_stat nodata cells u) with (reduce f nodata (map value (filter (keq key u) cells))).
    apply reduce_perm, Permutation_map.
    assert (kept = kfinite key (ksort key cells)) as -> by (unfold sort_and_stride in E; congruence).
    apply keq_group_perm.
    destruct Hok as (_ & Hf & _). unfold all_fin in Hf. rewrite Forall_forall in Hf. auto.
  Qed.

  Theorem stats_numpy_spec cells zone_ids nodata :
    ids_ok zone_ids ->
    stats_numpy key value f cells zone_ids nodata
    = map (fun u => (u, zone_stat nodata cells u)) (select_ids (unique_zones key cells) zone_ids).
  Proof.
    intros Hids. unfold stats_numpy.
    pose proof (unique_zones_ok key cells) as Hok.
    set (uz := unique_zones key cells) in *.
    destruct Hok as (Ha & Hf & Hc).
    destruct (select_ids_spec uz zone_ids Ha Hf Hids) as (Sa & Sf & Si).
    set (ids := select_ids uz zone_ids) in *.
    destruct (sort_and_stride key cells uz) as [kept breaks] eqn:E.
    rewrite (calc_stats_spec cells uz ids nodata kept breaks (conj Ha (conj Hf Hc)) E).
    rewrite combine_map_self.
    rewrite (filter_map_comm (fun u => (u, if memx u ids then zone_stat nodata cells u else None))
                             (fun p => memx (fst p) ids)).
    cbn [fst].
    rewrite (filter_mem_ascending uz ids Ha Sa (all_fin_no_nan _ Sf) (all_fin_no_nan _ Hf)).
    2:{ intros x Hx. apply Si in Hx. tauto. }
    rewrite map_map. cbn [snd]. rewrite combine_map_self.
    apply map_ext_in. intros u Hu.
    assert (Hm : memx u ids = true).
    { apply memx_In_fin; auto. unfold all_fin in Sf. rewrite Forall_forall in Sf. auto. }
    rewrite Hm. reflexivity.
  Qed.
End StatsSpec.
