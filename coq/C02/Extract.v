Require Import Extraction ExtrOcamlBasic.
Require Import Base.Prelude Base.XVal C02.Model.
Extraction Language OCaml.
Extraction "model.ml" stats_df stats_df_orig stats_ra f_count f_sum f_min f_max f_mean f_var f_dsum f_ptp.
