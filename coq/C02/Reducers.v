(* C02/Reducers.v — the default statistics are permutation invariant (so the
   generic theorem applies to them), min/max are the least/greatest element, and
   the single-fraction variance equals the mean squared deviation. *)
Require Import Base.Prelude Base.XVal C02.Model C02.Sorting.
From Coq Require Import QArith Qfield.
Open Scope Z_scope.

Lemma f_count_perm l l' : Permutation l l' -> f_count l = f_count l'.
Proof. intros P. unfold f_count, lenZ. rewrite (Permutation_length P). reflexivity. Qed.

Lemma f_sum_perm l l' : Permutation l l' -> f_sum l = f_sum l'.
Proof. unfold f_sum. induction 1; simpl; lia. Qed.

Lemma omin_perm l l' : Permutation l l' -> omin l = omin l'.
Proof.
  induction 1 as [|x l l' P IH|x y l|l l' l'' P1 IH1 P2 IH2]; simpl; auto.
  - rewrite IH; auto.
  - destruct (omin l); f_equal; lia.
  - congruence.
Qed.
Lemma omax_perm l l' : Permutation l l' -> omax l = omax l'.
Proof.
  induction 1 as [|x l l' P IH|x y l|l l' l'' P1 IH1 P2 IH2]; simpl; auto.
  - rewrite IH; auto.
  - destruct (omax l); f_equal; lia.
  - congruence.
Qed.
Lemma f_min_perm l l' : Permutation l l' -> f_min l = f_min l'.
Proof. intros P. unfold f_min. rewrite (omin_perm _ _ P). reflexivity. Qed.
Lemma f_max_perm l l' : Permutation l l' -> f_max l = f_max l'.
Proof. intros P. unfold f_max. rewrite (omax_perm _ _ P). reflexivity. Qed.
Lemma f_sumsq_perm l l' : Permutation l l' -> f_sumsq l = f_sumsq l'.
Proof. intros P. unfold f_sumsq. apply f_sum_perm, Permutation_map, P. Qed.
Lemma f_mean_perm l l' : Permutation l l' -> f_mean l = f_mean l'.
Proof.
  intros P. unfold f_mean. rewrite (f_sum_perm _ _ P). unfold lenZ. rewrite (Permutation_length P). reflexivity.
Qed.
Lemma f_var_perm l l' : Permutation l l' -> f_var l = f_var l'.
Proof.
  intros P. unfold f_var. rewrite (f_sum_perm _ _ P), (f_sumsq_perm _ _ P).
  unfold lenZ. rewrite (Permutation_length P). reflexivity.
Qed.
Lemma f_dsum_perm l l' : Permutation l l' -> f_dsum l = f_dsum l'.
Proof. intros P. unfold f_dsum. rewrite (f_sum_perm _ _ P). reflexivity. Qed.
Lemma f_ptp_perm l l' : Permutation l l' -> f_ptp l = f_ptp l'.
Proof. intros P. unfold f_ptp. rewrite (f_max_perm _ _ P), (f_min_perm _ _ P). reflexivity. Qed.

(* min / max are what their names say *)
Lemma omin_spec l m : omin l = Some m <-> (In m l /\ forall x, In x l -> m <= x).
Proof.
  revert m. induction l as [|a l IH]; intros m; simpl.
  - split; [discriminate|intros [[] _]].
  - destruct (omin l) as [m'|] eqn:E.
    + specialize (IH m'). destruct IH as [IH _]. destruct (IH eq_refl) as [Hin Hle].
      split.
      * intros H. inversion H; subst. split.
        -- destruct (Z.min_spec a m') as [[_ ->]|[_ ->]]; auto.
        -- intros x [->|Hx]; [lia|]. specialize (Hle x Hx). lia.
      * intros [Hm Hall]. f_equal.
        pose proof (Hall a (or_introl eq_refl)). pose proof (Hall m' (or_intror Hin)).
        destruct Hm as [->|Hm]; [lia|]. specialize (Hle m Hm). lia.
    + destruct l as [|b l].
      * split.
        -- intros H; inversion H; subst. split; auto. intros x [->|[]]; lia.
        -- intros [[->|[]] _]. reflexivity.
      * simpl in E. destruct (omin l); discriminate.
Qed.
Lemma omax_spec l m : omax l = Some m <-> (In m l /\ forall x, In x l -> x <= m).
Proof.
  revert m. induction l as [|a l IH]; intros m; simpl.
  - split; [discriminate|intros [[] _]].
  - destruct (omax l) as [m'|] eqn:E.
    + specialize (IH m'). destruct IH as [IH _]. destruct (IH eq_refl) as [Hin Hle].
      split.
      * intros H. inversion H; subst. split.
        -- destruct (Z.max_spec a m') as [[_ ->]|[_ ->]]; auto.
        -- intros x [->|Hx]; [lia|]. specialize (Hle x Hx). lia.
      * intros [Hm Hall]. f_equal.
        pose proof (Hall a (or_introl eq_refl)). pose proof (Hall m' (or_intror Hin)).
        destruct Hm as [->|Hm]; [lia|]. specialize (Hle m Hm). lia.
    + destruct l as [|b l].
      * split.
        -- intros H; inversion H; subst. split; auto. intros x [->|[]]; lia.
        -- intros [[->|[]] _]. reflexivity.
      * simpl in E. destruct (omax l); discriminate.
Qed.
Lemma omin_nonempty l : l <> [] -> exists m, omin l = Some m.
Proof. destruct l as [|a l]; [congruence|]. intros _. simpl. destruct (omin l); eauto. Qed.
Lemma omax_nonempty l : l <> [] -> exists m, omax l = Some m.
Proof. destruct l as [|a l]; [congruence|]. intros _. simpl. destruct (omax l); eauto. Qed.

(* ---- variance: (n*sum(x^2) - sum(x)^2)/n^2  ==  mean((x - mean)^2) -------- *)
Definition qsum (l : list Q) : Q := fold_right Qplus 0%Q l.
Definition sq_dev_sum (mu : Q) (l : list Z) : Q :=
  qsum (map (fun x => (inject_Z x - mu) * (inject_Z x - mu))%Q l).

Lemma f_sum_cons x l : f_sum (x :: l) = x + f_sum l.
Proof. reflexivity. Qed.
Lemma f_sumsq_cons x l : f_sumsq (x :: l) = x * x + f_sumsq l.
Proof. reflexivity. Qed.

Lemma sq_dev_expand mu l :
  (sq_dev_sum mu l == inject_Z (f_sumsq l) - 2 * mu * inject_Z (f_sum l) + inject_Z (lenZ l) * mu * mu)%Q.
Proof.
  induction l as [|x l IH].
  - unfold sq_dev_sum, f_sumsq, f_sum, lenZ; simpl. ring.
  - unfold sq_dev_sum in *. cbn [map qsum fold_right]. rewrite IH.
    rewrite f_sumsq_cons, f_sum_cons, lenZ_cons.
    rewrite !inject_Z_plus, !inject_Z_mult. change (inject_Z 1) with 1%Q. ring.
Qed.

Lemma Qmake_div a b : 0 < b -> (Qmake a (Z.to_pos b) == inject_Z a / inject_Z b)%Q.
Proof.
  intros Hb. destruct b as [|p|p]; try lia.
  unfold Qeq, Qdiv, Qmult, Qinv, inject_Z. simpl. lia.
Qed.

Theorem f_mean_is_sum_over_n l : 0 < lenZ l ->
  (f_mean l == inject_Z (f_sum l) / inject_Z (lenZ l))%Q.
Proof. intros H. unfold f_mean. apply Qmake_div; auto. Qed.

Theorem f_var_is_mean_sq_dev l : 0 < lenZ l ->
  (f_var l == sq_dev_sum (f_mean l) l / inject_Z (lenZ l))%Q.
Proof.
  intros Hn. rewrite sq_dev_expand, (f_mean_is_sum_over_n l Hn).
  unfold f_var. rewrite Qmake_div by nia.
  unfold Z.sub. rewrite inject_Z_plus, inject_Z_opp, !inject_Z_mult.
  assert (Hq : ~ (inject_Z (lenZ l) == 0)%Q).
  { unfold Qeq, inject_Z; simpl. lia. }
  field. exact Hq.
Qed.
