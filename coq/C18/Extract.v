Require Import Extraction ExtrOcamlBasic.
Require Import Base.Prelude Base.XVal C18.Model.
Extraction Language OCaml.
Extraction "model.ml" trim_model trim_model_unfixed crop_model.
