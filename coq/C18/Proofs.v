(* C18/Proofs.v — lemmas about the directional scans, the window and the slice. *)
Require Import Base.Prelude Base.XVal C18.Model.

(* ---------- zdown ---------- *)
Lemma zdown_In hi n x : In x (zdown hi n) <-> hi - Z.of_nat n < x <= hi.
Proof.
  revert hi; induction n as [|n IH]; intros hi; simpl zdown.
  - simpl; lia.
  - simpl In. rewrite IH. lia.
Qed.

(* ---------- the scan loop ---------- *)
Section ScanFacts.
  Variable hit : Z -> bool.

  Lemma scan_loop_complete idxs cur : scan_loop hit idxs cur true = cur.
  Proof. destruct idxs; reflexivity. Qed.

  (* upward scan over [s, s+n): first index that hits *)
  Lemma scan_up_first n : forall s cur,
    (exists y, s <= y < s + Z.of_nat n /\ hit y = true) ->
    s <= scan_loop hit (ziota s n) cur false < s + Z.of_nat n /\
    hit (scan_loop hit (ziota s n) cur false) = true /\
    forall y, s <= y < scan_loop hit (ziota s n) cur false -> hit y = false.
  Proof.
    induction n as [|n IH]; intros s cur [y [Hy Hh]]; [lia|].
    cbn [ziota scan_loop].
    destruct (hit s) eqn:Hs.
    - rewrite scan_loop_complete. split; [lia|]. split; [exact Hs|]. intros; lia.
    - assert (Hex : exists y, s + 1 <= y < s + 1 + Z.of_nat n /\ hit y = true).
      { exists y; split; [|exact Hh]. assert (y <> s) by congruence. lia. }
      destruct (IH (s + 1) s Hex) as (Hr & Hhr & Hbefore).
      split; [lia|]. split; [exact Hhr|].
      intros y' Hy'. destruct (Z.eq_dec y' s) as [->|Hne]; [exact Hs|]. apply Hbefore; lia.
  Qed.

  (* nothing hits: the scan stops at the last index tried (or keeps cur when the range is empty) *)
  Lemma scan_up_none n : forall s cur,
    (forall y, s <= y < s + Z.of_nat n -> hit y = false) ->
    scan_loop hit (ziota s n) cur false = if (n =? 0)%nat then cur else s + Z.of_nat n - 1.
  Proof.
    induction n as [|n IH]; intros s cur Hall; [reflexivity|].
    cbn [ziota scan_loop]. rewrite (Hall s) by lia.
    rewrite IH by (intros; apply Hall; lia).
    destruct n; cbn [Nat.eqb]; lia.
  Qed.

  (* downward scan over (hi-n, hi]: last index that hits *)
  Lemma scan_down_first n : forall hi cur,
    (exists y, hi - Z.of_nat n < y <= hi /\ hit y = true) ->
    hi - Z.of_nat n < scan_loop hit (zdown hi n) cur false <= hi /\
    hit (scan_loop hit (zdown hi n) cur false) = true /\
    forall y, scan_loop hit (zdown hi n) cur false < y <= hi -> hit y = false.
  Proof.
    induction n as [|n IH]; intros hi cur [y [Hy Hh]]; [lia|].
    cbn [zdown scan_loop].
    destruct (hit hi) eqn:Hs.
    - rewrite scan_loop_complete. split; [lia|]. split; [exact Hs|]. intros; lia.
    - assert (Hex : exists y, hi - 1 - Z.of_nat n < y <= hi - 1 /\ hit y = true).
      { exists y; split; [|exact Hh]. assert (y <> hi) by congruence. lia. }
      destruct (IH (hi - 1) hi Hex) as (Hr & Hhr & Hafter).
      split; [lia|]. split; [exact Hhr|].
      intros y' Hy'. destruct (Z.eq_dec y' hi) as [->|Hne]; [exact Hs|]. apply Hafter; lia.
  Qed.

  Lemma scan_down_none n : forall hi cur,
    (forall y, hi - Z.of_nat n < y <= hi -> hit y = false) ->
    scan_loop hit (zdown hi n) cur false = if (n =? 0)%nat then cur else hi - Z.of_nat n + 1.
  Proof.
    induction n as [|n IH]; intros hi cur Hall; [reflexivity|].
    cbn [zdown scan_loop]. rewrite (Hall hi) by lia.
    rewrite IH by (intros; apply Hall; lia).
    destruct n; cbn [Nat.eqb]; lia.
  Qed.
End ScanFacts.

(* ---------- bounds ---------- *)
Section BoundsFacts.
  Context {T : Type}.
  Variable stop : T -> bool.
  Variable get : Z -> Z -> T.
  Variables rows cols : nat.

  (* a cell that stops a scan: trim — a cell whose value is not excluded; crop — a cell of a requested zone *)
  Definition kept (y x : Z) : Prop :=
    0 <= y < Z.of_nat rows /\ 0 <= x < Z.of_nat cols /\ stop (get y x) = true.

  Lemma row_hit_spec y : row_hit stop get cols y = true <-> exists x, 0 <= x < Z.of_nat cols /\ stop (get y x) = true.
  Proof.
    unfold row_hit. rewrite existsb_exists. split; intros [x [H1 H2]]; exists x; split; auto.
    - apply ziota_In in H1; lia.
    - apply ziota_In; lia.
  Qed.
  Lemma col_hit_spec x : col_hit stop get rows x = true <-> exists y, 0 <= y < Z.of_nat rows /\ stop (get y x) = true.
  Proof.
    unfold col_hit. rewrite existsb_exists. split; intros [y [H1 H2]]; exists y; split; auto.
    - apply ziota_In in H1; lia.
    - apply ziota_In; lia.
  Qed.

  Lemma row_hit_false y : row_hit stop get cols y = false -> forall x, 0 <= x < Z.of_nat cols -> stop (get y x) = false.
  Proof.
    intros H x Hx. destruct (stop (get y x)) eqn:E; [|reflexivity].
    assert (row_hit stop get cols y = true) by (apply row_hit_spec; eauto). congruence.
  Qed.
  Lemma col_hit_false x : col_hit stop get rows x = false -> forall y, 0 <= y < Z.of_nat rows -> stop (get y x) = false.
  Proof.
    intros H y Hy. destruct (stop (get y x)) eqn:E; [|reflexivity].
    assert (col_hit stop get rows x = true) by (apply col_hit_spec; eauto). congruence.
  Qed.

  Let t := b_top stop get rows cols.
  Let b := b_bottom stop get rows cols.
  Let l := b_left stop get rows cols.
  Let r := b_right stop get rows cols.

  (* each directional scan returns the first / last row / column that contains a kept cell *)
  Lemma top_spec : (exists y x, kept y x) ->
    0 <= t < Z.of_nat rows /\ (exists x, kept t x) /\ (forall y x, kept y x -> t <= y).
  Proof.
    intros (y0 & x0 & Hy0 & Hx0 & Hs0).
    assert (Hex : exists y, 0 <= y < 0 + Z.of_nat rows /\ row_hit stop get cols y = true).
    { exists y0; split; [lia|]. apply row_hit_spec; eauto. }
    destruct (scan_up_first (row_hit stop get cols) rows 0 0 Hex) as (Hr & Hh & Hb).
    fold (scan (row_hit stop get cols) (ziota 0 rows)) in Hr, Hh, Hb. fold (b_top stop get rows cols) in Hr, Hh, Hb. fold t in Hr, Hh, Hb.
    split; [lia|]. split.
    - apply row_hit_spec in Hh. destruct Hh as [x [Hx Hs]]. exists x. unfold kept. repeat split; auto; lia.
    - intros y x (Hy & Hx & Hs). destruct (Z_lt_le_dec y t) as [Hlt|]; [|lia].
      pose proof (row_hit_false y (Hb y ltac:(lia)) x Hx). congruence.
  Qed.

  Lemma bottom_spec : (exists y x, kept y x) ->
    0 <= b < Z.of_nat rows /\ (exists x, kept b x) /\ (forall y x, kept y x -> y <= b).
  Proof.
    intros (y0 & x0 & Hy0 & Hx0 & Hs0).
    assert (Hex : exists y, Z.of_nat rows - 1 - Z.of_nat rows < y <= Z.of_nat rows - 1 /\ row_hit stop get cols y = true).
    { exists y0; split; [lia|]. apply row_hit_spec; eauto. }
    destruct (scan_down_first (row_hit stop get cols) rows _ 0 Hex) as (Hr & Hh & Hb).
    fold (scan (row_hit stop get cols) (zdown (Z.of_nat rows - 1) rows)) in Hr, Hh, Hb.
    fold (b_bottom stop get rows cols) in Hr, Hh, Hb. fold b in Hr, Hh, Hb.
    split; [lia|]. split.
    - apply row_hit_spec in Hh. destruct Hh as [x [Hx Hs]]. exists x. unfold kept. repeat split; auto; lia.
    - intros y x (Hy & Hx & Hs). destruct (Z_lt_le_dec b y) as [Hlt|]; [|lia].
      pose proof (row_hit_false y (Hb y ltac:(lia)) x Hx). congruence.
  Qed.

  Lemma left_spec : (exists y x, kept y x) ->
    0 <= l < Z.of_nat cols /\ (exists y, kept y l) /\ (forall y x, kept y x -> l <= x).
  Proof.
    intros (y0 & x0 & Hy0 & Hx0 & Hs0).
    assert (Hex : exists x, 0 <= x < 0 + Z.of_nat cols /\ col_hit stop get rows x = true).
    { exists x0; split; [lia|]. apply col_hit_spec; eauto. }
    destruct (scan_up_first (col_hit stop get rows) cols 0 0 Hex) as (Hr & Hh & Hb).
    fold (scan (col_hit stop get rows) (ziota 0 cols)) in Hr, Hh, Hb. fold (b_left stop get rows cols) in Hr, Hh, Hb. fold l in Hr, Hh, Hb.
    split; [lia|]. split.
    - apply col_hit_spec in Hh. destruct Hh as [y [Hy Hs]]. exists y. unfold kept. repeat split; auto; lia.
    - intros y x (Hy & Hx & Hs). destruct (Z_lt_le_dec x l) as [Hlt|]; [|lia].
      pose proof (col_hit_false x (Hb x ltac:(lia)) y Hy). congruence.
  Qed.

  Lemma right_spec : (exists y x, kept y x) ->
    0 <= r < Z.of_nat cols /\ (exists y, kept y r) /\ (forall y x, kept y x -> x <= r).
  Proof.
    intros (y0 & x0 & Hy0 & Hx0 & Hs0).
    assert (Hex : exists x, Z.of_nat cols - 1 - Z.of_nat cols < x <= Z.of_nat cols - 1 /\ col_hit stop get rows x = true).
    { exists x0; split; [lia|]. apply col_hit_spec; eauto. }
    destruct (scan_down_first (col_hit stop get rows) cols _ 0 Hex) as (Hr & Hh & Hb).
    fold (scan (col_hit stop get rows) (zdown (Z.of_nat cols - 1) cols)) in Hr, Hh, Hb.
    fold (b_right stop get rows cols) in Hr, Hh, Hb. fold r in Hr, Hh, Hb.
    split; [lia|]. split.
    - apply col_hit_spec in Hh. destruct Hh as [y [Hy Hs]]. exists y. unfold kept. repeat split; auto; lia.
    - intros y x (Hy & Hx & Hs). destruct (Z_lt_le_dec r x) as [Hlt|]; [|lia].
      pose proof (col_hit_false x (Hb x ltac:(lia)) y Hy). congruence.
  Qed.

  Definition scans_statement : Prop :=
    (exists y x, kept y x) ->
    (0 <= t < Z.of_nat rows /\ (exists x, kept t x) /\ (forall y x, kept y x -> t <= y)) /\
    (0 <= b < Z.of_nat rows /\ (exists x, kept b x) /\ (forall y x, kept y x -> y <= b)) /\
    (0 <= l < Z.of_nat cols /\ (exists y, kept y l) /\ (forall y x, kept y x -> l <= x)) /\
    (0 <= r < Z.of_nat cols /\ (exists y, kept y r) /\ (forall y x, kept y x -> x <= r)).
  Lemma scans_spec : scans_statement.
  Proof. intros H. repeat split; try apply top_spec; try apply bottom_spec; try apply left_spec; try apply right_spec; auto. Qed.

  (* the window: contains every kept cell; each of its four border lines holds a kept cell (inside the
     window); hence it is the least window containing all kept cells *)
  Definition window_statement : Prop :=
    (exists y x, kept y x) ->
    0 <= t <= b /\ b < Z.of_nat rows /\ 0 <= l <= r /\ r < Z.of_nat cols /\
    (forall y x, kept y x -> t <= y <= b /\ l <= x <= r) /\
    (exists x, l <= x <= r /\ kept t x) /\ (exists x, l <= x <= r /\ kept b x) /\
    (exists y, t <= y <= b /\ kept y l) /\ (exists y, t <= y <= b /\ kept y r) /\
    (forall t' b' l' r', (forall y x, kept y x -> t' <= y <= b' /\ l' <= x <= r') ->
                         t' <= t /\ b <= b' /\ l' <= l /\ r <= r').
  Lemma window_minimal : window_statement.
  Proof.
    intros H.
    destruct (top_spec H) as (Ht & (xt & Hkt) & Htm).
    destruct (bottom_spec H) as (Hb & (xb & Hkb) & Hbm).
    destruct (left_spec H) as (Hl & (yl & Hkl) & Hlm).
    destruct (right_spec H) as (Hr & (yr & Hkr) & Hrm).
    assert (Hin : forall y x, kept y x -> t <= y <= b /\ l <= x <= r).
    { intros y x K. pose proof (Htm _ _ K). pose proof (Hbm _ _ K). pose proof (Hlm _ _ K). pose proof (Hrm _ _ K). lia. }
    pose proof (Hin _ _ Hkt). pose proof (Hin _ _ Hkb). pose proof (Hin _ _ Hkl). pose proof (Hin _ _ Hkr).
    split; [lia|]. split; [lia|]. split; [lia|]. split; [lia|]. split; [exact Hin|].
    split; [exists xt; split; [lia|exact Hkt]|]. split; [exists xb; split; [lia|exact Hkb]|].
    split; [exists yl; split; [lia|exact Hkl]|]. split; [exists yr; split; [lia|exact Hkr]|].
    intros t' b' l' r' Hc.
    pose proof (Hc _ _ Hkt). pose proof (Hc _ _ Hkb). pose proof (Hc _ _ Hkl). pose proof (Hc _ _ Hkr). lia.
  Qed.

  (* nothing kept (outside the property's premise; behaviour recorded): every scan runs to its last index *)
  Lemma nothing_kept : (forall y x, ~ kept y x) ->
    t = (if (rows =? 0)%nat then 0 else Z.of_nat rows - 1) /\ b = 0 /\
    l = (if (cols =? 0)%nat then 0 else Z.of_nat cols - 1) /\ r = 0.
  Proof.
    intros Hn.
    assert (Hr : forall y, 0 <= y < Z.of_nat rows -> row_hit stop get cols y = false).
    { intros y Hy. destruct (row_hit stop get cols y) eqn:E; [|reflexivity].
      apply row_hit_spec in E. destruct E as [x [Hx Hs]]. exfalso. apply (Hn y x). unfold kept; auto. }
    assert (Hc : forall x, 0 <= x < Z.of_nat cols -> col_hit stop get rows x = false).
    { intros x Hx. destruct (col_hit stop get rows x) eqn:E; [|reflexivity].
      apply col_hit_spec in E. destruct E as [y [Hy Hs]]. exfalso. apply (Hn y x). unfold kept; auto. }
    unfold t, b, l, r, b_top, b_bottom, b_left, b_right, scan.
    rewrite (scan_up_none _ rows 0 0) by (intros; apply Hr; lia).
    rewrite (scan_down_none _ rows _ 0) by (intros; apply Hr; lia).
    rewrite (scan_up_none _ cols 0 0) by (intros; apply Hc; lia).
    rewrite (scan_down_none _ cols _ 0) by (intros; apply Hc; lia).
    destruct rows, cols; cbn [Nat.eqb]; lia.
  Qed.
End BoundsFacts.

(* ---------- membership ---------- *)
Lemma nan_match_eq e v : nan_match e v = true <-> e = v.
Proof.
  unfold nan_match. split.
  - intros H. apply orb_true_iff in H. destruct H as [H|H].
    + apply xeqb_eq in H. tauto.
    + destruct e, v; simpl in H; congruence.
  - intros ->. destruct v; simpl; auto; apply orb_true_iff; left; apply Z.eqb_refl.
Qed.

Lemma trim_stop_spec excludes v : trim_stop excludes v = true <-> ~ In v excludes.
Proof.
  unfold trim_stop. rewrite negb_true_iff. split.
  - intros H Hin. assert (existsb (fun e => nan_match e v) excludes = true).
    { apply existsb_exists. exists v. split; [exact Hin|]. apply nan_match_eq; reflexivity. }
    congruence.
  - intros Hn. destruct (existsb (fun e => nan_match e v) excludes) eqn:E; [|reflexivity].
    apply existsb_exists in E. destruct E as [e [Hin Hm]]. apply nan_match_eq in Hm. subst. contradiction.
Qed.

Lemma crop_stop_spec ids v : crop_stop ids v = true <-> (In v ids /\ v <> XNaN).
Proof.
  unfold crop_stop, eq_match. rewrite existsb_exists. split.
  - intros [e [Hin Hm]]. apply xeqb_eq in Hm. destruct Hm as [-> Hn]. auto.
  - intros [Hin Hn]. exists v. split; [exact Hin|]. apply xeqb_eq; auto.
Qed.

(* the unfixed membership never excludes a NaN cell *)
Lemma trim_stop_unfixed_nan excludes : trim_stop_unfixed excludes XNaN = true.
Proof.
  unfold trim_stop_unfixed. rewrite negb_true_iff.
  induction excludes as [|e es IH]; [reflexivity|]. cbn [existsb]. rewrite IH.
  destruct e; reflexivity.
Qed.

(* ---------- slicing ---------- *)
Lemma nth_skipn_nat {A} (d : A) : forall n l i, nth i (skipn n l) d = nth (n + i) l d.
Proof.
  induction n as [|n IH]; intros l i; [reflexivity|].
  destruct l as [|a l]; [destruct i; reflexivity|]. cbn [skipn Nat.add nth]. apply IH.
Qed.
Lemma nth_firstn_nat {A} (d : A) : forall n l i, (i < n)%nat -> nth i (firstn n l) d = nth i l d.
Proof.
  induction n as [|n IH]; intros l i Hi; [lia|].
  destruct l as [|a l]; [destruct i; reflexivity|].
  destruct i as [|i]; [reflexivity|]. cbn [firstn nth]. apply IH. lia.
Qed.
Lemma In_skipn {A} (x : A) : forall n l, In x (skipn n l) -> In x l.
Proof.
  induction n as [|n IH]; intros l H; [exact H|].
  destruct l as [|a l]; [exact H|]. right. apply IH. exact H.
Qed.
Lemma In_firstn {A} (x : A) : forall n l, In x (firstn n l) -> In x l.
Proof.
  induction n as [|n IH]; intros l H; [destruct H|].
  destruct l as [|a l]; [destruct H|]. destruct H as [H|H]; [left; exact H|right; apply IH; exact H].
Qed.

Lemma nthZ_skipn {A} (d : A) l a i : 0 <= a -> 0 <= i -> nthZ d (skipn (Z.to_nat a) l) i = nthZ d l (a + i).
Proof.
  intros Ha Hi. unfold nthZ.
  destruct (i <? 0) eqn:E1; [lia|]. destruct (a + i <? 0) eqn:E2; [lia|].
  rewrite nth_skipn_nat. f_equal. lia.
Qed.

Lemma nthZ_firstn {A} (d : A) l n i : 0 <= i < Z.of_nat n -> nthZ d (firstn n l) i = nthZ d l i.
Proof.
  intros Hi. unfold nthZ. destruct (i <? 0) eqn:E1; [lia|].
  apply nth_firstn_nat. lia.
Qed.

Lemma zslice_nth {A} (d : A) a b l i : 0 <= a -> 0 <= i < b - a -> nthZ d (zslice a b l) i = nthZ d l (a + i).
Proof.
  intros Ha Hi. unfold zslice. rewrite nthZ_firstn by lia. apply nthZ_skipn; lia.
Qed.

Lemma zslice_len {A} a b (l : list A) : 0 <= a <= b -> b <= lenZ l -> lenZ (zslice a b l) = b - a.
Proof.
  intros Ha Hb. unfold zslice, lenZ in *. rewrite firstn_length, skipn_length. lia.
Qed.

(* general Python semantics (both ends clamped to the length, empty if stop <= start) *)
Lemma zslice_len_clamped {A} a b (l : list A) : 0 <= a -> 0 <= b ->
  lenZ (zslice a b l) = Z.max 0 (Z.min b (lenZ l) - Z.min a (lenZ l)).
Proof.
  intros Ha Hb. unfold zslice, lenZ in *. rewrite firstn_length, skipn_length. lia.
Qed.

Lemma slice2_cell t b l r data i j :
  0 <= t -> 0 <= l -> 0 <= i <= b - t -> 0 <= j <= r - l -> b < lenZ data ->
  cell (slice2 t b l r data) i j = cell data (t + i) (l + j).
Proof.
  intros Ht Hl Hi Hj Hb. unfold cell, slice2.
  rewrite nthZ_map with (da := []).
  - rewrite zslice_nth by lia. rewrite zslice_nth by lia. reflexivity.
  - rewrite zslice_len; lia.
Qed.

Lemma slice2_rows {A} t b l r (data : list (list A)) :
  0 <= t <= b + 1 -> b < lenZ data -> lenZ (slice2 t b l r data) = b - t + 1.
Proof. intros. unfold slice2. rewrite lenZ_map, zslice_len; lia. Qed.

Lemma slice2_cols {A} t b l r (data : list (list A)) row :
  0 <= l <= r + 1 -> In row (slice2 t b l r data) ->
  exists row0, In row0 data /\ row = zslice l (r + 1) row0.
Proof.
  intros Hl Hin. unfold slice2 in Hin. apply in_map_iff in Hin. destruct Hin as [row0 [<- Hin]].
  exists row0. split; [|reflexivity]. unfold zslice in Hin.
  apply In_firstn in Hin. eapply In_skipn; eauto.
Qed.

(* ---------- trim / crop end to end ---------- *)
Definition rect {A} (rows cols : nat) (data : list (list A)) : Prop :=
  length data = rows /\ forall row, In row data -> length row = cols.

(* what a window (t,b,l,r) with output raster [out] and coordinate vectors ys', xs' must satisfy
   w.r.t. the set of selected cells [sel] of the scanned raster and the sliced raster [src] *)
Definition window_result (rows cols : nat) (sel : Z -> Z -> Prop) (src : list (list xv)) (ys xs : list Z)
           (t b l r : Z) (out : list (list xv)) (ys' xs' : list Z) : Prop :=
  (* in range, non-empty *)
  0 <= t <= b /\ b < Z.of_nat rows /\ 0 <= l <= r /\ r < Z.of_nat cols /\
  (* contains every selected cell *)
  (forall y x, 0 <= y < Z.of_nat rows -> 0 <= x < Z.of_nat cols -> sel y x -> t <= y <= b /\ l <= x <= r) /\
  (* each border line of the window holds a selected cell *)
  (exists x, l <= x <= r /\ sel t x) /\ (exists x, l <= x <= r /\ sel b x) /\
  (exists y, t <= y <= b /\ sel y l) /\ (exists y, t <= y <= b /\ sel y r) /\
  (* contiguous slice: shape, cells and coordinates by position *)
  lenZ out = b - t + 1 /\ (forall row, In row out -> lenZ row = r - l + 1) /\
  (forall i j, 0 <= i <= b - t -> 0 <= j <= r - l -> cell out i j = cell src (t + i) (l + j)) /\
  lenZ ys' = b - t + 1 /\ (forall i, 0 <= i <= b - t -> nthZ 0 ys' i = nthZ 0 ys (t + i)) /\
  lenZ xs' = r - l + 1 /\ (forall j, 0 <= j <= r - l -> nthZ 0 xs' j = nthZ 0 xs (l + j)).

Lemma window_of_spec (stop : xv -> bool) (sel : Z -> Z -> Prop) rows cols scanned src ys xs :
  (forall y x, 0 <= y < Z.of_nat rows -> 0 <= x < Z.of_nat cols -> (stop (cell scanned y x) = true <-> sel y x)) ->
  rect rows cols src -> length ys = rows -> length xs = cols ->
  (exists y x, 0 <= y < Z.of_nat rows /\ 0 <= x < Z.of_nat cols /\ sel y x) ->
  forall t b l r out ys' xs',
    window_of (bounds stop rows cols scanned) src ys xs = (t, b, l, r, out, ys', xs') ->
    window_result rows cols sel src ys xs t b l r out ys' xs'.
Proof.
  intros Hsel [Hrows Hcols] Hys Hxs (y0 & x0 & Hy0 & Hx0 & Hs0) t b l r out ys' xs' E.
  unfold window_of, bounds in E. inversion E as [[Et Eb El Er Eo Ey Ex]]. clear E.
  assert (Hk : exists y x, kept stop (cell scanned) rows cols y x).
  { exists y0, x0. unfold kept. repeat split; try lia. apply Hsel; auto. }
  destruct (window_minimal stop (cell scanned) rows cols Hk)
    as (Htb & Hb & Hlr & Hr & Hin & (xt & Hxt & Kt) & (xb & Hxb & Kb) & (yl & Hyl & Kl) & (yr & Hyr & Kr) & _).
  rewrite Et, Eb, El, Er in *.
  assert (Hk2s : forall y x, kept stop (cell scanned) rows cols y x -> sel y x).
  { intros y x (H1 & H2 & H3). apply Hsel; auto. }
  unfold window_result.
  split; [lia|]. split; [lia|]. split; [lia|]. split; [lia|].
  split. { intros y x Hy Hx S. apply Hin. unfold kept. repeat split; try lia. apply Hsel; auto. }
  split; [exists xt; auto|]. split; [exists xb; auto|]. split; [exists yl; auto|]. split; [exists yr; auto|].
  assert (Hlen : lenZ src = Z.of_nat rows) by (unfold lenZ; lia).
  split. { apply slice2_rows; lia. }
  split. { intros row Hrow. apply slice2_cols in Hrow; [|lia]. destruct Hrow as [row0 [Hin0 ->]].
           rewrite zslice_len; try lia. apply Hcols in Hin0. unfold lenZ; lia. }
  split. { intros i j Hi Hj. apply slice2_cell; lia. }
  split. { rewrite zslice_len; unfold lenZ; lia. }
  split. { intros i Hi. apply zslice_nth; lia. }
  split. { rewrite zslice_len; unfold lenZ; lia. }
  intros j Hj. apply zslice_nth; lia.
Qed.

Lemma trim_model_spec excludes rows cols data ys xs :
  rect rows cols data -> length ys = rows -> length xs = cols ->
  (exists y x, 0 <= y < Z.of_nat rows /\ 0 <= x < Z.of_nat cols /\ ~ In (cell data y x) excludes) ->
  forall t b l r out ys' xs',
    trim_model excludes rows cols data ys xs = (t, b, l, r, out, ys', xs') ->
    window_result rows cols (fun y x => ~ In (cell data y x) excludes) data ys xs t b l r out ys' xs'.
Proof.
  intros Hr Hy Hx Hex. unfold trim_model. apply window_of_spec; auto.
  intros y x _ _. apply trim_stop_spec.
Qed.

Lemma crop_model_spec ids rows cols zones values ys xs :
  rect rows cols values -> length ys = rows -> length xs = cols ->
  (exists y x, 0 <= y < Z.of_nat rows /\ 0 <= x < Z.of_nat cols /\ (In (cell zones y x) ids /\ cell zones y x <> XNaN)) ->
  forall t b l r out ys' xs',
    crop_model ids rows cols zones values ys xs = (t, b, l, r, out, ys', xs') ->
    window_result rows cols (fun y x => In (cell zones y x) ids /\ cell zones y x <> XNaN) values ys xs t b l r out ys' xs'.
Proof.
  intros Hr Hy Hx Hex. unfold crop_model. apply window_of_spec; auto.
  intros y x _ _. apply crop_stop_spec.
Qed.

(* the unfixed _trim: a raster whose excluded cells are all NaN is never trimmed *)
Lemma trim_unfixed_keeps_nan_frame excludes rows cols data :
  (0 < rows)%nat -> (0 < cols)%nat ->
  (forall y x, 0 <= y < Z.of_nat rows -> 0 <= x < Z.of_nat cols -> cell data y x = XNaN) ->
  bounds (trim_stop_unfixed excludes) rows cols data = (0, Z.of_nat rows - 1, 0, Z.of_nat cols - 1).
Proof.
  intros Hr Hc Hall.
  assert (Hk : forall y x, 0 <= y < Z.of_nat rows -> 0 <= x < Z.of_nat cols ->
                           kept (trim_stop_unfixed excludes) (cell data) rows cols y x).
  { intros y x Hy Hx. unfold kept. repeat split; try lia. rewrite Hall by lia. apply trim_stop_unfixed_nan. }
  assert (Hex : exists y x, kept (trim_stop_unfixed excludes) (cell data) rows cols y x).
  { exists 0, 0. apply Hk; lia. }
  destruct (window_minimal _ _ _ _ Hex) as (Htb & Hb & Hlr & Hrr & Hin & _).
  pose proof (Hin 0 0 (Hk 0 0 ltac:(lia) ltac:(lia))).
  pose proof (Hin (Z.of_nat rows - 1) (Z.of_nat cols - 1) (Hk (Z.of_nat rows - 1) (Z.of_nat cols - 1) ltac:(lia) ltac:(lia))).
  unfold bounds. repeat f_equal; lia.
Qed.
