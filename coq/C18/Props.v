(* C18/Props.v — the property theorems claimed for C18 (trim and crop return the
   minimal window, cells and coordinates intact), nothing else.  The model is the
   code AFTER fixes/C18-trim-nan-exclusion.diff; C18_trim_nan_refuted records what
   the unfixed membership test does. *)
Require Import Base.Prelude Base.XVal C18.Model C18.Proofs C18.ProofsIdem.

(* Each directional scan of _trim/_crop (any cell type, any stop predicate, ANY shape) returns the
   first / last row / column containing a stopping ("kept") cell. *)
Theorem C18_scans_first_last : forall (T : Type) (stop : T -> bool) (get : Z -> Z -> T) (rows cols : nat),
  (exists y x, kept stop get rows cols y x) ->
  let t := b_top stop get rows cols in let b := b_bottom stop get rows cols in
  let l := b_left stop get rows cols in let r := b_right stop get rows cols in
  (0 <= t < Z.of_nat rows /\ (exists x, kept stop get rows cols t x) /\ (forall y x, kept stop get rows cols y x -> t <= y)) /\
  (0 <= b < Z.of_nat rows /\ (exists x, kept stop get rows cols b x) /\ (forall y x, kept stop get rows cols y x -> y <= b)) /\
  (0 <= l < Z.of_nat cols /\ (exists y, kept stop get rows cols y l) /\ (forall y x, kept stop get rows cols y x -> l <= x)) /\
  (0 <= r < Z.of_nat cols /\ (exists y, kept stop get rows cols y r) /\ (forall y x, kept stop get rows cols y x -> x <= r)).
Proof. exact (@scans_spec). Qed.
Print Assumptions C18_scans_first_last.

(* The window is minimal: every kept cell is inside, each of the four border lines contains a kept cell,
   and any window containing all kept cells contains this one. *)
Theorem C18_window_minimal : forall (T : Type) (stop : T -> bool) (get : Z -> Z -> T) (rows cols : nat),
  (exists y x, kept stop get rows cols y x) ->
  let t := b_top stop get rows cols in let b := b_bottom stop get rows cols in
  let l := b_left stop get rows cols in let r := b_right stop get rows cols in
  0 <= t <= b /\ b < Z.of_nat rows /\ 0 <= l <= r /\ r < Z.of_nat cols /\
  (forall y x, kept stop get rows cols y x -> t <= y <= b /\ l <= x <= r) /\
  (exists x, l <= x <= r /\ kept stop get rows cols t x) /\ (exists x, l <= x <= r /\ kept stop get rows cols b x) /\
  (exists y, t <= y <= b /\ kept stop get rows cols y l) /\ (exists y, t <= y <= b /\ kept stop get rows cols y r) /\
  (forall t' b' l' r', (forall y x, kept stop get rows cols y x -> t' <= y <= b' /\ l' <= x <= r') ->
                       t' <= t /\ b <= b' /\ l' <= l /\ r <= r').
Proof. exact (@window_minimal). Qed.
Print Assumptions C18_window_minimal.

(* fixed _trim: a cell stops the scan iff its value is not listed — NaN is excluded when listed *)
Theorem C18_trim_kept_iff_not_listed : forall excludes v, trim_stop excludes v = true <-> ~ In v excludes.
Proof. exact trim_stop_spec. Qed.
Print Assumptions C18_trim_kept_iff_not_listed.

(* _crop: a zones cell stops the scan iff its id is listed (a NaN id never matches) *)
Theorem C18_crop_selected_iff_listed : forall ids v, crop_stop ids v = true <-> (In v ids /\ v <> XNaN).
Proof. exact crop_stop_spec. Qed.
Print Assumptions C18_crop_selected_iff_listed.

(* trim end to end, any raster shape, any exclusion list (incl. NaN), some cell not excluded:
   minimal window of the not-excluded cells; shape, cells, y- and x-coordinates by position. *)
Theorem C18_trim_minimal_window_slice : forall excludes rows cols data ys xs,
  rect rows cols data -> length ys = rows -> length xs = cols ->
  (exists y x, 0 <= y < Z.of_nat rows /\ 0 <= x < Z.of_nat cols /\ ~ In (cell data y x) excludes) ->
  forall t b l r out ys' xs',
    trim_model excludes rows cols data ys xs = (t, b, l, r, out, ys', xs') ->
    window_result rows cols (fun y x => ~ In (cell data y x) excludes) data ys xs t b l r out ys' xs'.
Proof. exact trim_model_spec. Qed.
Print Assumptions C18_trim_minimal_window_slice.

(* crop end to end (values raster of the zones raster's shape): minimal window of the zones cells whose id is
   listed; the values raster's cells and coordinates by position. *)
Theorem C18_crop_minimal_window_slice : forall ids rows cols zones values ys xs,
  rect rows cols values -> length ys = rows -> length xs = cols ->
  (exists y x, 0 <= y < Z.of_nat rows /\ 0 <= x < Z.of_nat cols /\ (In (cell zones y x) ids /\ cell zones y x <> XNaN)) ->
  forall t b l r out ys' xs',
    crop_model ids rows cols zones values ys xs = (t, b, l, r, out, ys', xs') ->
    window_result rows cols (fun y x => In (cell zones y x) ids /\ cell zones y x <> XNaN) values ys xs t b l r out ys' xs'.
Proof. exact crop_model_spec. Qed.
Print Assumptions C18_crop_minimal_window_slice.

(* "smallest window" as a fixed point: trimming the trimmed raster (its own shape, cells, coordinates) finds the
   whole frame and slices nothing away — trim(trim(r)) = trim(r), any shape, any exclusion list incl. NaN. *)
Theorem C18_trim_idempotent : forall excludes rows cols data ys xs,
  rect rows cols data -> length ys = rows -> length xs = cols ->
  (exists y x, 0 <= y < Z.of_nat rows /\ 0 <= x < Z.of_nat cols /\ ~ In (cell data y x) excludes) ->
  forall t b l r out ys' xs',
    trim_model excludes rows cols data ys xs = (t, b, l, r, out, ys', xs') ->
    trim_model excludes (Z.to_nat (b - t + 1)) (Z.to_nat (r - l + 1)) out ys' xs' =
      (0, b - t, 0, r - l, out, ys', xs').
Proof. exact trim_idempotent. Qed.
Print Assumptions C18_trim_idempotent.

(* crop(zones, zones, ids) is a fixed point too: cropping the cropped zones raster by the same ids changes nothing *)
Theorem C18_crop_self_idempotent : forall ids rows cols zones ys xs,
  rect rows cols zones -> length ys = rows -> length xs = cols ->
  (exists y x, 0 <= y < Z.of_nat rows /\ 0 <= x < Z.of_nat cols /\ (In (cell zones y x) ids /\ cell zones y x <> XNaN)) ->
  forall t b l r out ys' xs',
    crop_model ids rows cols zones zones ys xs = (t, b, l, r, out, ys', xs') ->
    crop_model ids (Z.to_nat (b - t + 1)) (Z.to_nat (r - l + 1)) out out ys' xs' =
      (0, b - t, 0, r - l, out, ys', xs').
Proof. exact crop_self_idempotent. Qed.
Print Assumptions C18_crop_self_idempotent.

(* ... and with a separate values raster (zones of the same number of rows): cropping the window of zones together
   with the cropped values by the same ids finds the whole frame and returns the cropped values unchanged *)
Theorem C18_crop_idempotent : forall ids rows cols zones values ys xs,
  length zones = rows -> rect rows cols values -> length ys = rows -> length xs = cols ->
  (exists y x, 0 <= y < Z.of_nat rows /\ 0 <= x < Z.of_nat cols /\ (In (cell zones y x) ids /\ cell zones y x <> XNaN)) ->
  forall t b l r out ys' xs',
    crop_model ids rows cols zones values ys xs = (t, b, l, r, out, ys', xs') ->
    crop_model ids (Z.to_nat (b - t + 1)) (Z.to_nat (r - l + 1)) (slice2 t b l r zones) out ys' xs' =
      (0, b - t, 0, r - l, out, ys', xs').
Proof. exact crop_idempotent. Qed.
Print Assumptions C18_crop_idempotent.

(* outside the property's premise, recorded: when no cell is kept every scan runs to its last index *)
Theorem C18_nothing_kept_bounds : forall (T : Type) (stop : T -> bool) (get : Z -> Z -> T) (rows cols : nat),
  (forall y x, ~ kept stop get rows cols y x) ->
  b_top stop get rows cols = (if (rows =? 0)%nat then 0 else Z.of_nat rows - 1) /\ b_bottom stop get rows cols = 0 /\
  b_left stop get rows cols = (if (cols =? 0)%nat then 0 else Z.of_nat cols - 1) /\ b_right stop get rows cols = 0.
Proof. exact (@nothing_kept). Qed.
Print Assumptions C18_nothing_kept_bounds.

(* the defect fixed by fixes/C18-trim-nan-exclusion.diff: with `e == val` only, an all-NaN raster of ANY shape
   is returned whole whatever is listed ... *)
Theorem C18_trim_unfixed_never_trims_nan : forall excludes rows cols data,
  (0 < rows)%nat -> (0 < cols)%nat ->
  (forall y x, 0 <= y < Z.of_nat rows -> 0 <= x < Z.of_nat cols -> cell data y x = XNaN) ->
  bounds (trim_stop_unfixed excludes) rows cols data = (0, Z.of_nat rows - 1, 0, Z.of_nat cols - 1).
Proof. exact trim_unfixed_keeps_nan_frame. Qed.
Print Assumptions C18_trim_unfixed_never_trims_nan.

(* ... and the concrete witness of DESIGN.md §7 row 4: NaN-framed 3x3, default values=(nan,):
   unfixed keeps (3,3); the fixed model returns the 1x1 centre with its coordinates *)
Example C18_trim_nan_refuted :
  let data := [[XNaN; XNaN; XNaN]; [XNaN; XFin 1; XNaN]; [XNaN; XNaN; XNaN]] in
  trim_model_unfixed [XNaN] 3 3 data [10; 20; 30] [1; 2; 3] = (0, 2, 0, 2, data, [10; 20; 30], [1; 2; 3]) /\
  trim_model [XNaN] 3 3 data [10; 20; 30] [1; 2; 3] = (1, 1, 1, 1, [[XFin 1]], [20], [2]).
Proof. split; vm_compute; reflexivity. Qed.

(* non-vacuity: concrete rasters satisfy the hypotheses and the model computes the expected windows
   (kept cells on the top and right borders; exclusion list with NaN and a number; crop by two ids) *)
Example C18_nonvacuous_trim :
  let data := [[XFin 0; XNaN; XFin 0; XFin 5]; [XFin 0; XFin 4; XNaN; XFin 0]; [XNaN; XFin 0; XFin 0; XNaN]] in
  rect 3 4 data /\
  (exists y x, 0 <= y < 3 /\ 0 <= x < 4 /\ ~ In (cell data y x) [XFin 0; XNaN]) /\
  trim_model [XFin 0; XNaN] 3 4 data [7; 8; 9] [1; 2; 3; 4] =
    (0, 1, 1, 3, [[XNaN; XFin 0; XFin 5]; [XFin 4; XNaN; XFin 0]], [7; 8], [2; 3; 4]).
Proof.
  cbv zeta. split; [split; [reflexivity|]|split].
  - intros row [<-|[<-|[<-|[]]]]; reflexivity.
  - exists 0, 3. split; [lia|]. split; [lia|]. vm_compute. intros [H|[H|[]]]; discriminate.
  - vm_compute; reflexivity.
Qed.

Example C18_nonvacuous_crop :
  let zones := [[XFin 0; XFin 4; XFin 0; XFin 3]; [XFin 0; XFin 4; XFin 4; XFin 3]; [XFin 0; XFin 1; XFin 1; XFin 3];
                [XFin 0; XFin 1; XFin 1; XFin 3]; [XFin 0; XFin 0; XFin 0; XFin 0]] in
  rect 5 4 zones /\
  (exists y x, 0 <= y < 5 /\ 0 <= x < 4 /\ (In (cell zones y x) [XFin 1; XFin 3] /\ cell zones y x <> XNaN)) /\
  crop_model [XFin 1; XFin 3] 5 4 zones zones [0; 1; 2; 3; 4] [0; 1; 2; 3] =
    (0, 3, 1, 3, [[XFin 4; XFin 0; XFin 3]; [XFin 4; XFin 4; XFin 3]; [XFin 1; XFin 1; XFin 3]; [XFin 1; XFin 1; XFin 3]],
     [0; 1; 2; 3], [1; 2; 3]).
Proof.
  cbv zeta. split; [split; [reflexivity|]|split].
  - intros row [<-|[<-|[<-|[<-|[<-|[]]]]]]; reflexivity.
  - exists 0, 3. split; [lia|]. split; [lia|]. vm_compute. split; [right; left; reflexivity|discriminate].
  - vm_compute; reflexivity.
Qed.
