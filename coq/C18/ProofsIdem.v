(* C18/ProofsIdem.v — trim/crop windows are fixed points: scanning the returned window again
   finds the whole window (bounds (0, b-t, 0, r-l)) and slices nothing away.  Built on
   Proofs.window_minimal (uniqueness of the minimal window) and Proofs.window_result. *)
Require Import Base.Prelude Base.XVal C18.Model C18.Proofs.

(* the four bounds are determined by: each border line of the full frame holds a kept cell *)
Lemma bounds_full_frame {T} (stop : T -> bool) (get : Z -> Z -> T) (rows cols : nat) :
  (exists x, kept stop get rows cols 0 x) ->
  (exists x, kept stop get rows cols (Z.of_nat rows - 1) x) ->
  (exists y, kept stop get rows cols y 0) ->
  (exists y, kept stop get rows cols y (Z.of_nat cols - 1)) ->
  b_top stop get rows cols = 0 /\ b_bottom stop get rows cols = Z.of_nat rows - 1 /\
  b_left stop get rows cols = 0 /\ b_right stop get rows cols = Z.of_nat cols - 1.
Proof.
  intros (xt & Kt) (xb & Kb) (yl & Kl) (yr & Kr).
  assert (Hk : exists y x, kept stop get rows cols y x) by (exists 0, xt; exact Kt).
  destruct (window_minimal stop get rows cols Hk) as (Htb & Hb & Hlr & Hr & Hin & _).
  pose proof (Hin _ _ Kt). pose proof (Hin _ _ Kb). pose proof (Hin _ _ Kl). pose proof (Hin _ _ Kr).
  lia.
Qed.

Lemma zslice_all {A} (n : Z) (l : list A) : lenZ l = n -> zslice 0 n l = l.
Proof.
  intros H. unfold zslice. rewrite Z.sub_0_r. cbn [Z.to_nat skipn].
  apply firstn_all2. unfold lenZ in H. lia.
Qed.

Lemma slice2_all {A} (h w : Z) (data : list (list A)) :
  lenZ data = h -> (forall row, In row data -> lenZ row = w) ->
  slice2 0 (h - 1) 0 (w - 1) data = data.
Proof.
  intros Hh Hw. unfold slice2. replace (h - 1 + 1) with h by lia. replace (w - 1 + 1) with w by lia.
  rewrite (zslice_all h data Hh).
  rewrite <- (map_id data) at 2. apply map_ext_in. intros row Hin. apply zslice_all. apply Hw; exact Hin.
Qed.

(* scanning again — over any raster [scanned'] that agrees with the selection predicate at the window's
   positions — returns the full frame of a window_result and slices nothing away *)
Lemma window_fixed_point_gen (stop : xv -> bool) (sel : Z -> Z -> Prop) rows cols src ys xs t b l r out ys' xs' scanned' :
  (forall i j, 0 <= i <= b - t -> 0 <= j <= r - l -> (stop (cell scanned' i j) = true <-> sel (t + i) (l + j))) ->
  window_result rows cols sel src ys xs t b l r out ys' xs' ->
  window_of (bounds stop (Z.to_nat (b - t + 1)) (Z.to_nat (r - l + 1)) scanned') out ys' xs' =
    (0, b - t, 0, r - l, out, ys', xs').
Proof.
  intros Hsel W. unfold window_result in W.
  destruct W as (Htb & Hb & Hlr & Hr & _ & (xt & Hxt & St) & (xb & Hxb & Sb) & (yl & Hyl & Sl) & (yr & Hyr & Sr) &
                 Hlen & Hrow & _ & Hly & _ & Hlx & _).
  set (rows' := Z.to_nat (b - t + 1)). set (cols' := Z.to_nat (r - l + 1)).
  assert (Er : Z.of_nat rows' = b - t + 1) by (unfold rows'; lia).
  assert (Ec : Z.of_nat cols' = r - l + 1) by (unfold cols'; lia).
  assert (K : forall i j, 0 <= i <= b - t -> 0 <= j <= r - l -> sel (t + i) (l + j) ->
                          kept stop (cell scanned') rows' cols' i j).
  { intros i j Hi Hj S. unfold kept. split; [lia|]. split; [lia|]. apply Hsel; [lia|lia|exact S]. }
  destruct (bounds_full_frame stop (cell scanned') rows' cols') as (E1 & E2 & E3 & E4).
  - exists (xt - l). apply K; try lia. replace (t + 0) with t by lia. replace (l + (xt - l)) with xt by lia. exact St.
  - exists (xb - l). rewrite Er. apply K; try lia.
    replace (t + (b - t + 1 - 1)) with b by lia. replace (l + (xb - l)) with xb by lia. exact Sb.
  - exists (yl - t). apply K; try lia. replace (t + (yl - t)) with yl by lia. replace (l + 0) with l by lia. exact Sl.
  - exists (yr - t). rewrite Ec. apply K; try lia.
    replace (t + (yr - t)) with yr by lia. replace (l + (r - l + 1 - 1)) with r by lia. exact Sr.
  - unfold window_of, bounds. rewrite E1, E2, E3, E4, Er, Ec.
    replace (b - t + 1 - 1) with (b - t) by lia. replace (r - l + 1 - 1) with (r - l) by lia.
    pose proof (slice2_all (b - t + 1) (r - l + 1) out Hlen Hrow) as S2.
    replace (b - t + 1 - 1) with (b - t) in S2 by lia. replace (r - l + 1 - 1) with (r - l) in S2 by lia.
    rewrite S2. rewrite (zslice_all (b - t + 1) ys' Hly). rewrite (zslice_all (r - l + 1) xs' Hlx). reflexivity.
Qed.

(* the scanned raster is the result itself (trim; crop with zones = values) *)
Lemma window_fixed_point (stop : xv -> bool) (sel : Z -> Z -> Prop) rows cols src ys xs t b l r out ys' xs' :
  (forall y x, 0 <= y < Z.of_nat rows -> 0 <= x < Z.of_nat cols -> (stop (cell src y x) = true <-> sel y x)) ->
  window_result rows cols sel src ys xs t b l r out ys' xs' ->
  window_of (bounds stop (Z.to_nat (b - t + 1)) (Z.to_nat (r - l + 1)) out) out ys' xs' =
    (0, b - t, 0, r - l, out, ys', xs').
Proof.
  intros Hsel W. apply (window_fixed_point_gen stop sel rows cols src ys xs); [|exact W].
  destruct W as (Htb & Hb & Hlr & Hr & _ & _ & _ & _ & _ & _ & _ & Hcell & _).
  intros i j Hi Hj. rewrite Hcell by lia. apply Hsel; lia.
Qed.

(* trim(trim(r)) = trim(r): bounds are the whole frame; cells and both coordinate vectors unchanged *)
Lemma trim_idempotent excludes rows cols data ys xs :
  rect rows cols data -> length ys = rows -> length xs = cols ->
  (exists y x, 0 <= y < Z.of_nat rows /\ 0 <= x < Z.of_nat cols /\ ~ In (cell data y x) excludes) ->
  forall t b l r out ys' xs',
    trim_model excludes rows cols data ys xs = (t, b, l, r, out, ys', xs') ->
    trim_model excludes (Z.to_nat (b - t + 1)) (Z.to_nat (r - l + 1)) out ys' xs' =
      (0, b - t, 0, r - l, out, ys', xs').
Proof.
  intros Hr Hy Hx Hex t b l r out ys' xs' E.
  pose proof (trim_model_spec excludes rows cols data ys xs Hr Hy Hx Hex _ _ _ _ _ _ _ E) as W.
  unfold trim_model.
  apply (window_fixed_point (trim_stop excludes) (fun y x => ~ In (cell data y x) excludes) rows cols data ys xs); [|exact W].
  intros y x _ _. apply trim_stop_spec.
Qed.

(* crop of a raster by its own zone ids (zones = values): cropping the cropped zones again changes nothing *)
Lemma crop_self_idempotent ids rows cols zones ys xs :
  rect rows cols zones -> length ys = rows -> length xs = cols ->
  (exists y x, 0 <= y < Z.of_nat rows /\ 0 <= x < Z.of_nat cols /\ (In (cell zones y x) ids /\ cell zones y x <> XNaN)) ->
  forall t b l r out ys' xs',
    crop_model ids rows cols zones zones ys xs = (t, b, l, r, out, ys', xs') ->
    crop_model ids (Z.to_nat (b - t + 1)) (Z.to_nat (r - l + 1)) out out ys' xs' =
      (0, b - t, 0, r - l, out, ys', xs').
Proof.
  intros Hr Hy Hx Hex t b l r out ys' xs' E.
  pose proof (crop_model_spec ids rows cols zones zones ys xs Hr Hy Hx Hex _ _ _ _ _ _ _ E) as W.
  unfold crop_model.
  apply (window_fixed_point (crop_stop ids) (fun y x => In (cell zones y x) ids /\ cell zones y x <> XNaN)
                            rows cols zones ys xs); [|exact W].
  intros y x _ _. apply crop_stop_spec.
Qed.

(* crop with a separate values raster (same shape as zones): cropping the window of zones / the cropped values
   by the same ids again changes nothing *)
Lemma crop_idempotent ids rows cols zones values ys xs :
  length zones = rows -> rect rows cols values -> length ys = rows -> length xs = cols ->
  (exists y x, 0 <= y < Z.of_nat rows /\ 0 <= x < Z.of_nat cols /\ (In (cell zones y x) ids /\ cell zones y x <> XNaN)) ->
  forall t b l r out ys' xs',
    crop_model ids rows cols zones values ys xs = (t, b, l, r, out, ys', xs') ->
    crop_model ids (Z.to_nat (b - t + 1)) (Z.to_nat (r - l + 1)) (slice2 t b l r zones) out ys' xs' =
      (0, b - t, 0, r - l, out, ys', xs').
Proof.
  intros Hz Hr Hy Hx Hex t b l r out ys' xs' E.
  pose proof (crop_model_spec ids rows cols zones values ys xs Hr Hy Hx Hex _ _ _ _ _ _ _ E) as W.
  unfold crop_model.
  apply (window_fixed_point_gen (crop_stop ids) (fun y x => In (cell zones y x) ids /\ cell zones y x <> XNaN)
                                rows cols values ys xs); [|exact W].
  destruct W as (Htb & Hb & Hlr & Hrr & _).
  intros i j Hi Hj. rewrite slice2_cell by (unfold lenZ; lia). apply crop_stop_spec.
Qed.
