(* C18/Model.v — executable model of xrspatial/zonal.py: _trim, trim, _crop, crop.
   Definitions only.  The four directional scans with their scan_complete flag,
   the membership test of the inner `for e in excludes` loop, and the slice
   raster[top:bottom+1, left:right+1] (cells and both coordinate vectors by
   position).  _trim is modelled AFTER fixes/C18-trim-nan-exclusion.diff
   (membership `e == val or (e != e and val != val)`); the unfixed membership
   (`e == val` only) is kept as [eq_match] for the refutation witness. *)
Require Import Base.Prelude Base.XVal.

(* range(hi, hi - n, -1) = [hi; hi-1; ...] of length n; range(rows-1, -1, -1) = zdown (rows-1) rows *)
Fixpoint zdown (hi : Z) (n : nat) : list Z :=
  match n with O => [] | S k => hi :: zdown (hi - 1) k end.

Section Scan.
  Variable hit : Z -> bool.     (* "this row / column contains a cell that stops the scan" *)
  (*  cur = 0; scan_complete = False
      for y in idxs:
          if scan_complete: break
          cur = y
          <inner loop sets scan_complete when the line contains a stopping cell>      *)
  Fixpoint scan_loop (idxs : list Z) (cur : Z) (complete : bool) : Z :=
    match idxs with
    | [] => cur
    | y :: rest => if complete then cur else scan_loop rest y (hit y)
    end.
  Definition scan (idxs : list Z) : Z := scan_loop idxs 0 false.
End Scan.

Section Bounds.
  Context {T : Type}.
  Variable stop : T -> bool.      (* _trim: not is_nodata;  _crop: some v in values with v == val *)
  Variable get : Z -> Z -> T.     (* data[y, x] *)
  Variables rows cols : nat.      (* data.shape *)
  (* inner loops: for x in range(cols) / for y in range(rows), break at the first stopping cell *)
  Definition row_hit (y : Z) : bool := existsb (fun x => stop (get y x)) (ziota 0 cols).
  Definition col_hit (x : Z) : bool := existsb (fun y => stop (get y x)) (ziota 0 rows).
  Definition b_top    : Z := scan row_hit (ziota 0 rows).
  Definition b_bottom : Z := scan row_hit (zdown (Z.of_nat rows - 1) rows).
  Definition b_left   : Z := scan col_hit (ziota 0 cols).
  Definition b_right  : Z := scan col_hit (zdown (Z.of_nat cols - 1) cols).
End Bounds.

(* ---- membership tests ------------------------------------------------- *)
(* fixed _trim:  e == val or (e != e and val != val) *)
Definition nan_match (e v : xv) : bool := xeqb e v || (xisnan e && xisnan v).
(* _crop (and _trim before the fix):  e == val *)
Definition eq_match (e v : xv) : bool := xeqb e v.
(* for e in excludes: if <match>: is_nodata = True; break   ...   if not is_nodata: stop *)
Definition trim_stop (excludes : list xv) (v : xv) : bool := negb (existsb (fun e => nan_match e v) excludes).
Definition trim_stop_unfixed (excludes : list xv) (v : xv) : bool := negb (existsb (fun e => eq_match e v) excludes).
(* for v in values: if v == val: scan_complete = True; break *)
Definition crop_stop (values : list xv) (v : xv) : bool := existsb (fun e => eq_match e v) values.

(* ---- rasters as lists, slicing ---------------------------------------- *)
Definition cell (data : list (list xv)) (y x : Z) : xv := nthZ XNaN (nthZ [] data y) x.

(* l[a:b] for 0 <= a, 0 <= b (Python clamps both ends to len l; empty when b <= a) *)
Definition zslice {A} (a b : Z) (l : list A) : list A :=
  firstn (Z.to_nat (b - a)) (skipn (Z.to_nat a) l).
Definition slice2 {A} (t b l r : Z) (data : list (list A)) : list (list A) :=
  map (zslice l (r + 1)) (zslice t (b + 1) data).

Definition bounds (stop : xv -> bool) (rows cols : nat) (data : list (list xv)) : Z * Z * Z * Z :=
  (b_top stop (cell data) rows cols, b_bottom stop (cell data) rows cols,
   b_left stop (cell data) rows cols, b_right stop (cell data) rows cols).

(* result of trim/crop: bounds, sliced cells, sliced y- and x-coordinate vectors *)
Definition window_of {A C} (bd : Z * Z * Z * Z) (values : list (list A)) (ys xs : list C) :=
  let '(t, b, l, r) := bd in
  (bd, slice2 t b l r values, zslice t (b + 1) ys, zslice l (r + 1) xs).

(* trim(raster, values=excludes) *)
Definition trim_model (excludes : list xv) (rows cols : nat) (data : list (list xv)) (ys xs : list Z) :=
  window_of (bounds (trim_stop excludes) rows cols data) data ys xs.
Definition trim_model_unfixed (excludes : list xv) (rows cols : nat) (data : list (list xv)) (ys xs : list Z) :=
  window_of (bounds (trim_stop_unfixed excludes) rows cols data) data ys xs.
(* crop(zones, values, zones_ids): bounds from zones, slice of values (its own shape) *)
Definition crop_model (ids : list xv) (rows cols : nat) (zones : list (list xv))
           (values : list (list xv)) (ys xs : list Z) :=
  window_of (bounds (crop_stop ids) rows cols zones) values ys xs.
