(* C11/Bridge.v — the last conjunct of the obligations is the hypothesis of the state-machine theorem *)
Require Import Base.Prelude C11.Model C11.Generated C11.Spec.

Lemma obligations_infos : obligations = true -> forallb (fun q => fn_ok (snd q)) infos = true.
Proof.
  intros H. unfold obligations in H.
  repeat (apply andb_true_iff in H; destruct H as [H ?]). assumption.
Qed.
