(* C11/Props.v — the claimed theorems about the library state machine (all machines, all histories). *)
Require Import Base.Prelude C11.Model C11.Proofs.

(* For EVERY interpretation of the numerical code (sem), of the RNG (draw/advance/seed_of), of what closures
   capture (cap_of) and of what in-place writes would store (newval), and for EVERY per-function description
   [info] that satisfies the obligations (no function writes a module table or a mutable default, no jitted
   closure is kept between calls under an incomplete key, no kernel is parallel):
   the result of a call that does not draw unseeded random numbers is the same from ANY two states reachable
   from the fresh interpreter by ANY finite sequences of calls under ANY thread schedules. *)
Theorem C11_history_independent :
  forall sem draw advance seed_of cap_of pkey_of newval (info : Z -> fninfo),
    (forall f, fn_ok (info f) = true) ->
    forall s0 s s' c sched sched',
      cache s0 = [] ->
      Reachable sem draw advance seed_of cap_of pkey_of newval info s0 s ->
      Reachable sem draw advance seed_of cap_of pkey_of newval info s0 s' ->
      seeded (info (c_fn c)) = true ->
      snd (step sem draw advance seed_of cap_of pkey_of newval info s c sched) =
      snd (step sem draw advance seed_of cap_of pkey_of newval info s' c sched').
Proof. intros. eapply history_independent; eauto. Qed.
Print Assumptions C11_history_independent.

(* repeating a call / issuing it after any history gives what a fresh interpreter gives for it alone *)
Theorem C11_same_as_fresh :
  forall sem draw advance seed_of cap_of pkey_of newval (info : Z -> fninfo),
    (forall f, fn_ok (info f) = true) ->
    forall s0 s c sched sched',
      cache s0 = [] ->
      Reachable sem draw advance seed_of cap_of pkey_of newval info s0 s ->
      seeded (info (c_fn c)) = true ->
      snd (step sem draw advance seed_of cap_of pkey_of newval info s c sched) =
      snd (step sem draw advance seed_of cap_of pkey_of newval info s0 c sched').
Proof. intros. eapply same_as_fresh; eauto. Qed.
Print Assumptions C11_same_as_fresh.

(* seeded generators are functions of their arguments only: replacing the global RNG state by anything
   does not change the result *)
Theorem C11_seeded_generator_ignores_rng :
  forall sem draw advance seed_of cap_of pkey_of newval (info : Z -> fninfo),
    forall s0 s c sched r,
      cache s0 = [] ->
      Reachable sem draw advance seed_of cap_of pkey_of newval info s0 s ->
      rngm (info (c_fn c)) = SeedThenDraw ->
      snd (step sem draw advance seed_of cap_of pkey_of newval info s c sched) =
      snd (step sem draw advance seed_of cap_of pkey_of newval info (mkState (tbl s) (dflt s) r (cache s)) c sched).
Proof. intros. eapply seeded_generator_ignores_rng; eauto. Qed.
Print Assumptions C11_seeded_generator_ignores_rng.

(* ---- non-vacuity / necessity: each obligation is needed (concrete machines where dropping it breaks the
   conclusion).  sem exposes every input it is given; function 1 is the one under test. *)
Definition sem_ex (f a : Z) (t d : Z -> Z) (draws frozen sch : Z) : Z :=
  a + 10 * t 1 + 100 * d 1 + 1000 * draws + 10000 * frozen + 100000 * sch.
Definition s_init : state := mkState (fun _ => 0) (fun _ => 0) 5 [].
Definition mk (i : fninfo) := step sem_ex (fun r => r) (fun r => r + 1) (fun _ a => a) (fun _ a => a)
                                   (fun _ _ => 0) (fun _ a _ => a) (fun _ => i).

(* the obligations hold of the strict description and of the proximity-style one (closure re-created per call) *)
Example C11_nonvacuous : fn_ok strict_info = true /\ fn_ok (mkInfo [] [] SeedThenDraw PerCall false) = true /\
  seeded (mkInfo [] [] SeedThenDraw PerCall false) = true.
Proof. repeat split. Qed.

(* memoising the closure on an incomplete key (lru_cache keyed by the metric only): the second call with other
   captured values gets the first call's specialisation *)
Example C11_partial_key_refuted :
  let i := mkInfo [] [] NoRng (Cached false) false in
  snd (mk i (fst (mk i s_init (mkCall 1 3) 0)) (mkCall 1 4) 0) <> snd (mk i s_init (mkCall 1 4) 0).
Proof. vm_compute. discriminate. Qed.

(* a function that mutates a mutable default (excludes.append): later calls see it *)
Example C11_default_write_refuted :
  let i := mkInfo [] [1] NoRng NoClosure false in
  snd (mk i (fst (mk i s_init (mkCall 1 3) 0)) (mkCall 1 4) 0) <> snd (mk i s_init (mkCall 1 4) 0).
Proof. vm_compute. discriminate. Qed.

(* a function that writes a module table *)
Example C11_table_write_refuted :
  let i := mkInfo [1] [] NoRng NoClosure false in
  snd (mk i (fst (mk i s_init (mkCall 1 3) 0)) (mkCall 1 4) 0) <> snd (mk i s_init (mkCall 1 4) 0).
Proof. vm_compute. discriminate. Qed.

(* a parallel kernel: the result may depend on the schedule *)
Example C11_parallel_refuted :
  let i := mkInfo [] [] NoRng NoClosure true in
  snd (mk i s_init (mkCall 1 4) 1) <> snd (mk i s_init (mkCall 1 4) 2).
Proof. vm_compute. discriminate. Qed.

(* drawing without seeding (bump): repeating the call gives another result — excluded from the theorem's
   conclusion by [seeded] *)
Example C11_unseeded_refuted :
  let i := mkInfo [] [] DrawUnseeded NoClosure false in
  snd (mk i (fst (mk i s_init (mkCall 1 4) 0)) (mkCall 1 4) 0) <> snd (mk i s_init (mkCall 1 4) 0).
Proof. vm_compute. discriminate. Qed.

(* and the positive instance computes: seeded generator, closure per call, after a history *)
Example C11_positive_instance :
  let i := mkInfo [] [] SeedThenDraw PerCall false in
  snd (mk i (fst (mk i (fst (mk i s_init (mkCall 1 3) 7)) (mkCall 1 9) 8)) (mkCall 1 4) 9) = snd (mk i s_init (mkCall 1 4) 0).
Proof. vm_compute. reflexivity. Qed.
