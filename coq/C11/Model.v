(* C11/Model.v — the library as a state machine.  Executable definitions only.

   Hidden state a call could read or leave behind (everything the Python process keeps between calls):
     tbl   every module-level mutable object (dict/list/array tables; list GENERATED from the source)
     dflt  every mutable default argument object (list GENERATED from the source)
     rng   the global NumPy RNG
     cache the specialisations of jitted inner functions (closures) kept between calls, keyed by
           (function, key); a specialisation FREEZES the closure-captured values it was compiled with
   What a call does is described per function by an [fninfo] record GENERATED from the source:
     wr_tbl / wr_dflt   which tables / default objects the function may write in place
     rngm               NoRng | SeedThenDraw (np.random.seed(f(args)) before every draw) | DrawUnseeded
     jitm               NoClosure | PerCall (the jitted closure is re-created, hence re-compiled with the
                        current captured values, on every call) | Cached complete? (kept between calls and
                        looked up by a key that does / does not contain every captured value)
     par                some kernel reachable from it runs prange under parallel=True
   The observable result is an arbitrary function [sem] of: the arguments, the tables and defaults as the
   call sees them, the random draws it makes, the captured values its kernel was specialised with, and —
   for parallel kernels only — the thread schedule. *)
Require Import Base.Prelude.

Inductive rng_mode := NoRng | SeedThenDraw | DrawUnseeded.
Inductive jit_mode := NoClosure | PerCall | Cached (key_complete : bool).

Record fninfo := mkInfo {
  wr_tbl : list Z;
  wr_dflt : list Z;
  rngm : rng_mode;
  jitm : jit_mode;
  par : bool
}.

Definition strict_info : fninfo := mkInfo [] [] NoRng NoClosure false.

Record call := mkCall { c_fn : Z; c_args : Z }.

Record state := mkState {
  tbl : Z -> Z;
  dflt : Z -> Z;
  rng : Z;
  cache : list (Z * Z * Z)        (* (function, key, frozen captured values) *)
}.

Definition upd (m : Z -> Z) (k v : Z) : Z -> Z := fun k' => if Z.eqb k' k then v else m k'.

Fixpoint cache_lookup (f k : Z) (c : list (Z * Z * Z)) : option Z :=
  match c with
  | [] => None
  | (f', k', v) :: r => if Z.eqb f f' && Z.eqb k k' then Some v else cache_lookup f k r
  end.

Section Machine.
  (* external, uninterpreted: what the numerical code computes, the RNG, what is captured *)
  Variable sem : Z -> Z -> (Z -> Z) -> (Z -> Z) -> Z -> Z -> Z -> Z.   (* fn args tbl dflt draws frozen schedule *)
  Variable draw : Z -> Z.            (* RNG state -> the numbers drawn from it *)
  Variable advance : Z -> Z.         (* RNG state after drawing *)
  Variable seed_of : Z -> Z -> Z.    (* fn args -> the RNG state np.random.seed(..) installs *)
  Variable cap_of : Z -> Z -> Z.     (* fn args -> the values the jitted closure captures (targets, max_distance, metric, mode) *)
  Variable pkey_of : Z -> Z -> Z.    (* fn args -> an INCOMPLETE cache key (e.g. the metric only) *)
  Variable newval : Z -> Z -> Z -> Z. (* fn args slot -> what an in-place write leaves in a table / default *)
  Variable info : Z -> fninfo.

  Definition step (s : state) (c : call) (sched : Z) : state * Z :=
    let f := c_fn c in
    let a := c_args c in
    let i := info f in
    let draws := match rngm i with
                 | NoRng => 0 | SeedThenDraw => draw (seed_of f a) | DrawUnseeded => draw (rng s) end in
    let rng' := match rngm i with
                | NoRng => rng s | SeedThenDraw => advance (seed_of f a) | DrawUnseeded => advance (rng s) end in
    let '(frozen, cache') :=
      match jitm i with
      | NoClosure => (0, cache s)
      | PerCall => (cap_of f a, cache s)
      | Cached complete =>
          let k := if complete then cap_of f a else pkey_of f a in
          match cache_lookup f k (cache s) with
          | Some fz => (fz, cache s)                         (* reuse: the captured values of the FIRST call *)
          | None => (cap_of f a, (f, k, cap_of f a) :: cache s)
          end
      end in
    let res := sem f a (tbl s) (dflt s) draws frozen (if par i then sched else 0) in
    let tbl' := fold_left (fun m k => upd m k (newval f a k)) (wr_tbl i) (tbl s) in
    let dflt' := fold_left (fun m k => upd m k (newval f a k)) (wr_dflt i) (dflt s) in
    (mkState tbl' dflt' rng' cache', res).

  (* states the process can be in: the fresh interpreter, then any calls under any schedules *)
  Inductive Reachable (s0 : state) : state -> Prop :=
  | R_init : Reachable s0 s0
  | R_step : forall s c sched, Reachable s0 s -> Reachable s0 (fst (step s c sched)).

  Fixpoint run (s : state) (cs : list (call * Z)) : state * list Z :=
    match cs with
    | [] => (s, [])
    | (c, sched) :: r => let '(s', x) := step s c sched in let '(s'', xs) := run s' r in (s'', x :: xs)
    end.
End Machine.

(* the boolean obligations on one function's generated facts *)
Definition jit_ok (j : jit_mode) : bool := match j with Cached false => false | _ => true end.
Definition fn_ok (i : fninfo) : bool :=
  match wr_tbl i, wr_dflt i with [], [] => jit_ok (jitm i) && negb (par i) | _, _ => false end.
Definition seeded (i : fninfo) : bool := match rngm i with DrawUnseeded => false | _ => true end.

(* info function from a generated association list; functions not listed are strict *)
Fixpoint info_of (l : list (Z * fninfo)) (f : Z) : fninfo :=
  match l with [] => strict_info | (f', i) :: r => if Z.eqb f f' then i else info_of r f end.
