(* C11/PropsFacts.v — the claimed theorems about the facts regenerated from the checked tree. *)
Require Import Base.Prelude C11.Model C11.Proofs C11.Generated C11.Spec C11.Bridge.
Require Import String.
Local Open Scope string_scope.

(* module_writes = [], default_arg_writes = [], argument_writes = [], global_rebinds = [], func_attr_writes = [], cache_decorated = [],
   parallel_kernels = [], every prange user is jitted without parallel=True, every jitted closure is re-created
   per call, every global-RNG draw is preceded by np.random.seed(<seed parameter>) (except bump) *)
Theorem C11_generated_obligations : obligations = true.
Proof. vm_compute. reflexivity. Qed.
Print Assumptions C11_generated_obligations.

Theorem C11_unseeded_only_bump : unseeded_public = ["bump.bump"].
Proof. vm_compute. reflexivity. Qed.
Print Assumptions C11_unseeded_only_bump.

(* the inventory is not empty: the state components the theorem talks about exist in this tree *)
Theorem C11_inventory_nonempty :
  (0 < Z.of_nat (List.length module_tables) /\ 0 < Z.of_nat (List.length mutable_defaults) /\
   0 < Z.of_nat (List.length jit_closures) /\ 0 < Z.of_nat (List.length prange_users) /\
   0 < Z.of_nat (List.length rng_functions))%Z.
Proof. vm_compute. repeat split. Qed.
Print Assumptions C11_inventory_nonempty.



(* history independence for the library state machine instantiated with the generated per-function facts *)
Theorem C11_history_independent_tree :
  forall sem draw advance seed_of cap_of pkey_of newval,
    forall s0 s s' c sched sched',
      cache s0 = [] ->
      Reachable sem draw advance seed_of cap_of pkey_of newval info s0 s ->
      Reachable sem draw advance seed_of cap_of pkey_of newval info s0 s' ->
      seeded (info (c_fn c)) = true ->
      snd (step sem draw advance seed_of cap_of pkey_of newval info s c sched) =
      snd (step sem draw advance seed_of cap_of pkey_of newval info s' c sched').
Proof.
  intros. eapply history_independent; eauto.
  apply info_of_ok. exact (obligations_infos C11_generated_obligations).
Qed.
Print Assumptions C11_history_independent_tree.
