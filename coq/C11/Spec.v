(* C11/Spec.v — the obligations on the facts regenerated from the source (hand written). *)
Require Import Base.Prelude C11.Model C11.Generated.
Require Import String.
Local Open Scope string_scope.
Local Open Scope Z_scope.

Definition is_nil {A} (l : list A) : bool := match l with [] => true | _ => false end.

Definition infos : list (Z * fninfo) := map (fun q => match q with (i, _, inf) => (i, inf) end) public_infos.
Definition info : Z -> fninfo := info_of infos.

(* the only public function allowed to draw from the global RNG without seeding it from its arguments is
   bump (it has no seed parameter: random by design — recorded as a known finding of the dynamic check) *)
Definition unseeded_public : list string :=
  map (fun q => match q with (_, n, _) => n end)
      (filter (fun q => match q with (_, _, inf) => negb (seeded inf) end) public_infos).

Definition obligations : bool :=
  is_nil module_writes &&                                   (* no function modifies a module-level table *)
  is_nil default_arg_writes &&                              (* no function modifies a mutable default argument *)
  is_nil argument_writes &&                                 (* no raster function modifies an argument in place (C10's
                                                               verdict): the same objects passed again carry the same values *)
  is_nil global_rebinds &&                                  (* no global / nonlocal rebinding *)
  is_nil func_attr_writes &&                                (* no cache hidden in a function attribute *)
  is_nil cache_decorated &&                                 (* no memoising decorator *)
  is_nil parallel_kernels &&                                (* parallel_kernels = [] *)
  forallb (fun q => match q with (_, _, _, _, p) => negb p end) jit_aliases &&        (* ngjit is not parallel *)
  forallb (fun q => match q with (_, _, _, _, ok) => ok end) prange_users &&          (* every prange is sequential *)
  forallb (fun q => match q with (_, _, _, _, _, percall) => percall end) jit_closures && (* closures re-created per call *)
  forallb (fun q => match q with (_, _, mode, _) => Z.eqb mode 1 ||
                                   match q with (m, f, _, _) => String.eqb m "bump" && String.eqb f "bump" end end)
          rng_functions &&                                  (* generators reseed before every draw *)
  forallb (fun q => fn_ok (snd q)) infos.                   (* hence every public function's description is ok *)
