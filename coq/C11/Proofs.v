(* C11/Proofs.v — history independence of the state machine under the generated obligations. *)
Require Import Base.Prelude C11.Model.

Section Proofs.
  Variable sem : Z -> Z -> (Z -> Z) -> (Z -> Z) -> Z -> Z -> Z -> Z.
  Variable draw advance : Z -> Z.
  Variable seed_of cap_of pkey_of : Z -> Z -> Z.
  Variable newval : Z -> Z -> Z -> Z.
  Variable info : Z -> fninfo.
  Hypothesis all_ok : forall f, fn_ok (info f) = true.

  Notation step := (step sem draw advance seed_of cap_of pkey_of newval info).
  Notation Reachable := (Reachable sem draw advance seed_of cap_of pkey_of newval info).

  (* what every reachable state shares with the fresh interpreter *)
  Definition Inv (s0 s : state) : Prop :=
    tbl s = tbl s0 /\ dflt s = dflt s0 /\
    (forall f k fz, jitm (info f) = Cached true -> cache_lookup f k (cache s) = Some fz ->
        (exists a, k = cap_of f a) -> fz = k).

  Lemma fn_ok_inv i : fn_ok i = true -> wr_tbl i = [] /\ wr_dflt i = [] /\ jit_ok (jitm i) = true /\ par i = false.
  Proof.
    unfold fn_ok. destruct (wr_tbl i); [|discriminate]. destruct (wr_dflt i); [|discriminate].
    intros H. apply andb_true_iff in H as [H1 H2]. apply negb_true_iff in H2. auto.
  Qed.

  Lemma step_inv s0 s c sched : Inv s0 s -> Inv s0 (fst (step s c sched)).
  Proof.
    intros (Ht & Hd & Hc). unfold Model.step.
    destruct (fn_ok_inv _ (all_ok (c_fn c))) as (Hw & Hw' & Hj & Hp).
    rewrite Hw, Hw'. cbn [fold_left].
    destruct (jitm (info (c_fn c))) as [| |complete] eqn:Ej.
    - cbn [fst tbl dflt cache]. repeat split; auto.
    - cbn [fst tbl dflt cache]. repeat split; auto.
    - destruct complete; [|discriminate Hj].
      destruct (cache_lookup (c_fn c) (cap_of (c_fn c) (c_args c)) (cache s)) as [fz|] eqn:El.
      + cbn [fst tbl dflt cache]. repeat split; auto.
      + cbn [fst tbl dflt cache]. repeat split; auto.
        intros f k fz Hf Hl Hk. cbn [cache cache_lookup] in Hl.
        destruct (Z.eqb f (c_fn c) && Z.eqb k (cap_of (c_fn c) (c_args c))) eqn:E.
        * apply andb_true_iff in E as [_ E2]. apply Z.eqb_eq in E2.
          injection Hl as Hl. rewrite <- Hl. symmetry. exact E2.
        * eauto.
  Qed.

  Lemma reachable_inv s0 s : cache s0 = [] -> Reachable s0 s -> Inv s0 s.
  Proof.
    intros H0 Hr. induction Hr.
    - repeat split; auto. intros f k fz _ Hl. rewrite H0 in Hl. discriminate.
    - apply step_inv; assumption.
  Qed.

  (* the result of a call whose function does not draw unseeded random numbers is the same from any two
     states satisfying the invariant, under any two schedules *)
  Lemma result_independent s0 s s' c sched sched' :
    Inv s0 s -> Inv s0 s' -> seeded (info (c_fn c)) = true ->
    snd (step s c sched) = snd (step s' c sched').
  Proof.
    intros (Ht & Hd & Hc) (Ht' & Hd' & Hc') Hs. unfold Model.step.
    destruct (fn_ok_inv _ (all_ok (c_fn c))) as (Hw & Hw' & Hj & Hp).
    rewrite Hp, Ht, Hd, Ht', Hd'.
    assert (Hdraw : match rngm (info (c_fn c)) with
                    | NoRng => 0 | SeedThenDraw => draw (seed_of (c_fn c) (c_args c)) | DrawUnseeded => draw (rng s) end =
                    match rngm (info (c_fn c)) with
                    | NoRng => 0 | SeedThenDraw => draw (seed_of (c_fn c) (c_args c)) | DrawUnseeded => draw (rng s') end).
    { unfold seeded in Hs. destruct (rngm (info (c_fn c))); [reflexivity|reflexivity|discriminate]. }
    rewrite Hdraw.
    destruct (jitm (info (c_fn c))) as [| |complete] eqn:Ej.
    - reflexivity.
    - reflexivity.
    - destruct complete; [|discriminate Hj].
      assert (Hfz : forall st, (forall f k fz, jitm (info f) = Cached true -> cache_lookup f k (cache st) = Some fz ->
                                  (exists a, k = cap_of f a) -> fz = k) ->
                fst (match cache_lookup (c_fn c) (cap_of (c_fn c) (c_args c)) (cache st) with
                     | Some fz => (fz, cache st)
                     | None => (cap_of (c_fn c) (c_args c), (c_fn c, cap_of (c_fn c) (c_args c), cap_of (c_fn c) (c_args c)) :: cache st)
                     end) = cap_of (c_fn c) (c_args c)).
      { intros st H. destruct (cache_lookup (c_fn c) (cap_of (c_fn c) (c_args c)) (cache st)) as [fz|] eqn:El; [|reflexivity].
        cbn [fst]. eapply H; eauto. }
      pose proof (Hfz s Hc) as H1. pose proof (Hfz s' Hc') as H2.
      destruct (cache_lookup (c_fn c) (cap_of (c_fn c) (c_args c)) (cache s)) as [fz|];
      destruct (cache_lookup (c_fn c) (cap_of (c_fn c) (c_args c)) (cache s')) as [fz'|];
      cbn [fst] in H1, H2; cbn [snd]; subst; reflexivity.
  Qed.

  Theorem history_independent s0 s s' c sched sched' :
    cache s0 = [] -> Reachable s0 s -> Reachable s0 s' -> seeded (info (c_fn c)) = true ->
    snd (step s c sched) = snd (step s' c sched').
  Proof.
    intros H0 Hr Hr' Hs. apply (result_independent s0); auto using reachable_inv.
  Qed.

  (* in particular: repeating a call, and a call after any history, give what the fresh interpreter gives *)
  Corollary same_as_fresh s0 s c sched sched' :
    cache s0 = [] -> Reachable s0 s -> seeded (info (c_fn c)) = true ->
    snd (step s c sched) = snd (step s0 c sched').
  Proof. intros H0 Hr Hs. apply (history_independent s0); auto. constructor. Qed.

  (* seeded generators: the result is a function of the arguments (seed, shape, extent) only — it does not
     even depend on the RNG state the process is in *)
  Corollary seeded_generator_ignores_rng s0 s c sched r :
    cache s0 = [] -> Reachable s0 s -> rngm (info (c_fn c)) = SeedThenDraw ->
    snd (step s c sched) = snd (step (mkState (tbl s) (dflt s) r (cache s)) c sched).
  Proof.
    intros H0 Hr Hm. unfold Model.step. rewrite Hm. cbn [tbl dflt rng cache].
    destruct (jitm (info (c_fn c))) as [| |kc]; try reflexivity;
      destruct (cache_lookup _ _ _); reflexivity.
  Qed.
End Proofs.

(* from the generated association list to the hypothesis of the theorem *)
Lemma info_of_ok l : forallb (fun q => fn_ok (snd q)) l = true -> forall f, fn_ok (info_of l f) = true.
Proof.
  induction l as [|[f' i] l IH]; intros H f; cbn [info_of].
  - reflexivity.
  - cbn [forallb snd] in H. apply andb_true_iff in H as [H1 H2].
    destruct (Z.eqb f f'); [exact H1|apply IH; exact H2].
Qed.
