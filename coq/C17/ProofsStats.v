(* C17/ProofsStats.v — cell_stats statistics equal their definitions; every cell function is
   NaN-absorbing. *)
Require Import Base.Prelude Base.XVal C17.Model C17.ProofsCell.
From Coq Require Import QArith Permutation Sorted.
Open Scope Z_scope.

(* ---- NaN propagation through the folds ------------------------------- *)
Lemma xadd_nan_l b : xadd XNaN b = XNaN.
Proof. reflexivity. Qed.
Lemma xadd_nan_r a : xadd a XNaN = XNaN.
Proof. destruct a; reflexivity. Qed.

Lemma fold_xadd_nan l : fold_left xadd l XNaN = XNaN.
Proof. induction l; simpl; auto. Qed.
Lemma fold_xmax_nan l : fold_left xmax2 l XNaN = XNaN.
Proof. induction l; simpl; auto. Qed.
Lemma fold_xmin_nan l : fold_left xmin2 l XNaN = XNaN.
Proof. induction l; simpl; auto. Qed.

Lemma fold_xadd_has_nan l : forall a, In XNaN l -> fold_left xadd l a = XNaN.
Proof.
  induction l as [|x l IH]; intros a H; [destruct H|]. destruct H as [->|H]; simpl.
  - rewrite xadd_nan_r. apply fold_xadd_nan.
  - now apply IH.
Qed.
Lemma fold_xmax_has_nan l : forall a, In XNaN l -> fold_left xmax2 l a = XNaN.
Proof.
  induction l as [|x l IH]; intros a H; [destruct H|]. destruct H as [->|H]; simpl.
  - unfold xmax2 at 2. simpl. rewrite orb_true_r. apply fold_xmax_nan.
  - now apply IH.
Qed.
Lemma fold_xmin_has_nan l : forall a, In XNaN l -> fold_left xmin2 l a = XNaN.
Proof.
  induction l as [|x l IH]; intros a H; [destruct H|]. destruct H as [->|H]; simpl.
  - unfold xmin2 at 2. simpl. rewrite orb_true_r. apply fold_xmin_nan.
  - now apply IH.
Qed.

Lemma stat_sum_nan t : has_nan t = true -> stat_sum t = XNaN.
Proof. intros H. apply has_nan_true in H. now apply fold_xadd_has_nan. Qed.
Lemma stat_max_nan t : has_nan t = true -> stat_max t = XNaN.
Proof.
  intros H. apply has_nan_true in H. destruct t as [|x l]; [destruct H|]. simpl.
  destruct H as [->|H]; [apply fold_xmax_nan|now apply fold_xmax_has_nan].
Qed.
Lemma stat_min_nan t : has_nan t = true -> stat_min t = XNaN.
Proof.
  intros H. apply has_nan_true in H. destruct t as [|x l]; [destruct H|]. simpl.
  destruct H as [->|H]; [apply fold_xmin_nan|now apply fold_xmin_has_nan].
Qed.
Lemma stat_mean_nan t : has_nan t = true -> stat_mean t = QNaN.
Proof. intros H. unfold stat_mean. now rewrite stat_sum_nan. Qed.
Lemma stat_median_nan t : has_nan t = true -> stat_median t = QNaN.
Proof. intros H. unfold stat_median. now rewrite H. Qed.
Lemma stat_var_nan t : has_nan t = true -> stat_var t = QNaN.
Proof.
  intros H. unfold stat_var. replace (all_finite t) with false; [reflexivity|].
  symmetry. apply has_nan_true in H. unfold all_finite.
  apply not_true_is_false. intros Hall. rewrite forallb_forall in Hall. now specialize (Hall _ H).
Qed.

Lemma nan_absorbing_cells t : has_nan t = true ->
  (forall ref, lesser_cell ref t = XNaN /\ equal_cell ref t = XNaN /\ greater_cell ref t = XNaN) /\
  lowest_cell t = Some XNaN /\ highest_cell t = Some XNaN /\
  (forall ref, rank_cell ref t = Some XNaN /\ popularity_cell ref t = Some XNaN) /\
  stat_max t = XNaN /\ stat_min t = XNaN /\ stat_sum t = XNaN /\
  stat_mean t = QNaN /\ stat_median t = QNaN /\ stat_var t = QNaN.
Proof.
  intros H. repeat split;
    try (unfold lesser_cell, equal_cell, greater_cell, freq_cell, lowest_cell, highest_cell,
         position_cell, rank_cell, popularity_cell; rewrite H; reflexivity).
  - now apply stat_max_nan.
  - now apply stat_min_nan.
  - now apply stat_sum_nan.
  - now apply stat_mean_nan.
  - now apply stat_median_nan.
  - now apply stat_var_nan.
Qed.

(* ---- max / min ------------------------------------------------------- *)
Lemma xmax2_nonan a b : a <> XNaN -> b <> XNaN -> xmax2 a b = if xltb a b then b else a.
Proof. destruct a, b; try congruence; reflexivity. Qed.
Lemma xmin2_nonan a b : a <> XNaN -> b <> XNaN -> xmin2 a b = if xltb b a then b else a.
Proof. destruct a, b; try congruence; reflexivity. Qed.

Lemma fold_xmax_py l : forall m, m <> XNaN -> Forall (fun x => x <> XNaN) l ->
  fold_left xmax2 l m = fold_left (fun m y => if xltb m y then y else m) l m.
Proof.
  induction l as [|y l IH]; intros m Hm Hl; simpl; [reflexivity|].
  inversion Hl; subst. rewrite xmax2_nonan by assumption.
  apply IH; auto. destruct (xltb m y); auto.
Qed.
Lemma fold_xmin_py l : forall m, m <> XNaN -> Forall (fun x => x <> XNaN) l ->
  fold_left xmin2 l m = fold_left (fun m y => if xltb y m then y else m) l m.
Proof.
  induction l as [|y l IH]; intros m Hm Hl; simpl; [reflexivity|].
  inversion Hl; subst. rewrite xmin2_nonan by assumption.
  apply IH; auto. destruct (xltb y m); auto.
Qed.

Lemma stat_max_spec t : has_nan t = false -> t <> [] ->
  In (stat_max t) t /\ forall x, In x t -> xleb x (stat_max t) = true.
Proof.
  intros Hn Hne. apply has_nan_false in Hn.
  replace (stat_max t) with (pymax t); [now apply pymax_spec|].
  destruct t as [|x l]; [congruence|]. inversion Hn; subst. simpl. symmetry. now apply fold_xmax_py.
Qed.
Lemma stat_min_spec t : has_nan t = false -> t <> [] ->
  In (stat_min t) t /\ forall x, In x t -> xleb (stat_min t) x = true.
Proof.
  intros Hn Hne. apply has_nan_false in Hn.
  replace (stat_min t) with (pymin t); [now apply pymin_spec|].
  destruct t as [|x l]; [congruence|]. inversion Hn; subst. simpl. symmetry. now apply fold_xmin_py.
Qed.

(* ---- sum / mean / variance on finite tuples --------------------------- *)
Definition zsum (t : list xv) : Z := fold_left Z.add (map fin_z t) 0.

Lemma fold_xadd_fin l : forall a, forallb xisfinite l = true ->
  fold_left xadd l (XFin a) = XFin (fold_left Z.add (map fin_z l) a).
Proof.
  induction l as [|x l IH]; intros a H; simpl in *; [reflexivity|].
  apply andb_true_iff in H as [Hx Hl]. destruct x; try discriminate. simpl. now apply IH.
Qed.

Lemma stat_sum_spec t : all_finite t = true -> stat_sum t = XFin (zsum t).
Proof. intros H. unfold stat_sum, zsum. now apply fold_xadd_fin. Qed.

Lemma stat_mean_spec t : all_finite t = true -> t <> [] ->
  exists q, stat_mean t = QFin q /\ (q * inject_Z (lenZ t) == inject_Z (zsum t))%Q.
Proof.
  intros H Hne. unfold stat_mean. rewrite stat_sum_spec by assumption. simpl.
  eexists. split; [reflexivity|].
  assert (Hpos : 0 < lenZ t).
  { destruct t; [congruence|]. rewrite lenZ_cons. pose proof (lenZ_nonneg t). lia. }
  unfold Qeq, Qmult, inject_Z. simpl. rewrite Pos.mul_1_r, Z2Pos.id by exact Hpos. lia.
Qed.

Lemma stat_var_spec t : all_finite t = true -> t <> [] ->
  exists m v, stat_var t = QFin v /\
    (m * inject_Z (lenZ t) == inject_Z (zsum t))%Q /\
    (v == qsum (map (fun x => (inject_Z (fin_z x) - m) * (inject_Z (fin_z x) - m)) t) / inject_Z (lenZ t))%Q.
Proof.
  intros H Hne. unfold stat_var. rewrite H.
  assert (Hpos : 0 < lenZ t).
  { destruct t; [congruence|]. rewrite lenZ_cons. pose proof (lenZ_nonneg t). lia. }
  exists (Qmake (zsum t) (Z.to_pos (lenZ t))). eexists. split; [reflexivity|]. split.
  - unfold Qeq, Qmult, inject_Z, zsum. simpl. rewrite Pos.mul_1_r, Z2Pos.id by exact Hpos. lia.
  - rewrite Z2Pos.id by exact Hpos. reflexivity.
Qed.

(* ---- median ----------------------------------------------------------- *)
Lemma stat_median_spec t : has_nan t = false ->
  exists s, Permutation s t /\ StronglySorted xle s /\
    (Z.odd (lenZ t) = true -> stat_median t = qv_of_xv (nthZ XNaN s (lenZ t / 2))) /\
    (Z.odd (lenZ t) = false ->
       stat_median t = qdiv_n (xadd (nthZ XNaN s (lenZ t / 2 - 1)) (nthZ XNaN s (lenZ t / 2))) 2).
Proof.
  intros Hn. exists (isort t). split; [apply isort_perm|]. split.
  - apply isort_sorted. now apply has_nan_false.
  - unfold stat_median. rewrite Hn. split; intros ->; reflexivity.
Qed.
