(* C17/ProofsGlue.v — the flatten / lock-step / reshape glue of xrspatial.local is a per-cell map,
   for every shape r x c (r, c >= 1) and any number of layers. *)
Require Import Base.Prelude Base.XVal C17.Model.
Local Open Scope nat_scope.

(* a layer (or result) with r rows of c cells *)
Definition rect {A} (r c : nat) (L : list (list A)) : Prop :=
  length L = r /\ Forall (fun row => length row = c) L.

(* the r x c raster whose cell (y,x) is F y x *)
Definition grid {B} (r c : nat) (F : nat -> nat -> B) : list (list B) :=
  map (fun y => map (fun x => F y x) (seq 0 c)) (seq 0 r).

(* cell (y,x) of a layer *)
Definition cell {A} (dA : A) (L : list (list A)) (y x : nat) : A := nth x (nth y L []) dA.

Lemma nth_map_seq {B} (f : nat -> B) n i d : i < n -> nth i (map f (seq 0 n)) d = f i.
Proof.
  intros Hi. rewrite nth_indep with (d' := f 0) by (rewrite map_length, seq_length; exact Hi).
  rewrite map_nth, seq_nth by exact Hi. reflexivity.
Qed.

Lemma grid_rect {B} r c (F : nat -> nat -> B) : rect r c (grid r c F).
Proof.
  unfold rect, grid. split.
  - now rewrite map_length, seq_length.
  - apply Forall_forall. intros row Hin. apply in_map_iff in Hin as (y & <- & _).
    now rewrite map_length, seq_length.
Qed.

Lemma cell_grid {B} r c (F : nat -> nat -> B) d y x : y < r -> x < c -> cell d (grid r c F) y x = F y x.
Proof.
  intros Hy Hx. unfold cell, grid. rewrite nth_map_seq by exact Hy. now rewrite nth_map_seq.
Qed.

Lemma concat_rect_length {A} r c (L : list (list A)) : rect r c L -> length (concat L) = r * c.
Proof.
  revert r. induction L as [|row L IH]; intros r [Hl Hf]; simpl in *.
  - subst r. reflexivity.
  - inversion Hf as [|? ? Hrow Hrest]; subst. rewrite app_length, (IH (length L)); [lia|].
    split; auto.
Qed.

Lemma nth_concat_rect {A} (d : A) r c (L : list (list A)) y x :
  rect r c L -> y < r -> x < c -> nth (y * c + x) (concat L) d = cell d L y x.
Proof.
  revert r y. induction L as [|row L IH]; intros r y [Hl Hf] Hy Hx; simpl in *.
  - lia.
  - inversion Hf as [|? ? Hrow Hrest]; subst. destruct y as [|y].
    + simpl. unfold cell. simpl. apply app_nth1. lia.
    + unfold cell. simpl nth at 2. rewrite app_nth2 by (simpl; lia).
      replace (S y * length row + x - length row) with (y * length row + x) by (simpl; lia).
      apply (IH (length L)); [split; auto|lia|exact Hx].
Qed.

(* a flat list whose item y*c+x is F y x is the C-order flattening of grid F *)
Lemma flat_eq_grid {B} (d : B) r c (F : nat -> nat -> B) l :
  0 < c -> length l = r * c ->
  (forall y x, y < r -> x < c -> nth (y * c + x) l d = F y x) ->
  l = concat (grid r c F).
Proof.
  intros Hc Hlen Hnth.
  pose proof (grid_rect r c F) as HR.
  apply nth_ext with (d := d) (d' := d).
  - rewrite (concat_rect_length r c) by exact HR. exact Hlen.
  - intros i Hi. rewrite Hlen in Hi.
    assert (Hdm : i = (i / c) * c + i mod c) by (rewrite Nat.mul_comm; apply Nat.div_mod; lia).
    assert (Hx : i mod c < c) by (apply Nat.mod_upper_bound; lia).
    assert (Hy : i / c < r) by (apply Nat.div_lt_upper_bound; lia).
    rewrite Hdm. rewrite Hnth by assumption.
    rewrite (nth_concat_rect d r c) by assumption. now rewrite cell_grid.
Qed.

Lemma rect_as_grid {A} (d : A) r c (L : list (list A)) :
  0 < c -> rect r c L -> concat L = concat (grid r c (cell d L)).
Proof.
  intros Hc HR. apply flat_eq_grid with (d := d); auto.
  - now apply concat_rect_length.
  - intros. now apply nth_concat_rect with (r := r).
Qed.

(* ---- reshape ------------------------------------------------------- *)
Lemma chunk_concat {B} c (rows : list (list B)) fuel :
  0 < c -> Forall (fun row => length row = c) rows -> length rows <= fuel ->
  chunk fuel c (concat rows) = rows.
Proof.
  intros Hc. revert fuel. induction rows as [|row rows IH]; intros fuel Hf Hfuel.
  - destruct fuel; reflexivity.
  - inversion Hf as [|? ? Hrow Hrest]; subst. destruct fuel as [|fuel]; [simpl in Hfuel; lia|].
    simpl concat. simpl chunk.
    destruct (row ++ concat rows) as [|b l] eqn:E.
    + apply (f_equal (@length B)) in E. rewrite app_length in E. simpl in E. lia.
    + rewrite <- E. f_equal.
      * rewrite firstn_app, firstn_all, Nat.sub_diag. simpl. apply app_nil_r.
      * rewrite skipn_app, skipn_all, Nat.sub_diag. simpl. apply IH; auto. simpl in Hfuel. lia.
Qed.

Lemma reshape_concat_rect {B} r c (G : list (list B)) :
  0 < c -> rect r c G -> reshape c (concat G) = G.
Proof.
  intros Hc [Hl Hf]. unfold reshape. apply chunk_concat; auto.
  rewrite (concat_rect_length r c) by (split; auto). rewrite Hl. nia.
Qed.

(* ---- lock-step iteration ------------------------------------------- *)
Lemma lockstep_length {A} (dA : A) n flats : length (lockstep dA n flats) = n.
Proof. revert flats. induction n; intros; simpl; auto. Qed.

Lemma nth_lockstep {A} (dA : A) n : forall flats i d, i < n ->
  nth i (lockstep dA n flats) d = map (fun f => nth i f dA) flats.
Proof.
  induction n as [|n IH]; intros flats i d Hi; [lia|].
  simpl. destruct i as [|i].
  - apply map_ext. intros f. destruct f; reflexivity.
  - rewrite IH by lia. rewrite map_map. apply map_ext. intros f. destruct f; simpl; [destruct i|]; reflexivity.
Qed.

Section GlueSpec.
  Context {A B : Type}.
  Variable dA : A.
  Variables r c : nat.
  Variable layers : list (list (list A)).
  Hypothesis Hr : 0 < r.
  Hypothesis Hc : 0 < c.
  Hypothesis Hne : layers <> [].
  Hypothesis Hrect : Forall (rect r c) layers.

  (* the tuple of layer values at cell (y,x) *)
  Definition tuple_at (y x : nat) : list A := map (fun L => cell dA L y x) layers.

  Lemma ncols_rect : ncols layers = c.
  Proof.
    unfold ncols. destruct layers as [|L0 rest]; [congruence|]. simpl.
    inversion Hrect as [|? ? [Hl Hf] _]; subst. destruct L0 as [|row0 L0]; [simpl in Hr; lia|].
    simpl. now inversion Hf.
  Qed.

  Lemma iter_list_spec : iter_list dA layers = concat (grid r c tuple_at).
  Proof.
    unfold iter_list.
    assert (Hn : length (hd [] (map flatten layers)) = r * c).
    { destruct layers as [|L0 rest]; [congruence|]. simpl. inversion Hrect; subst.
      now apply concat_rect_length. }
    rewrite Hn. apply flat_eq_grid with (d := []); auto.
    - apply lockstep_length.
    - intros y x Hy Hx. rewrite nth_lockstep by nia.
      rewrite map_map. unfold tuple_at. apply map_ext_in. intros L HL.
      unfold flatten. apply nth_concat_rect with (r := r); auto.
      rewrite Forall_forall in Hrect. now apply Hrect.
  Qed.

  Lemma map_grid {X Y} (f : X -> Y) r' c' (F : nat -> nat -> X) :
    map (map f) (grid r' c' F) = grid r' c' (fun y x => f (F y x)).
  Proof.
    unfold grid. rewrite map_map. apply map_ext. intros y. now rewrite map_map.
  Qed.

  Theorem local_glue_spec (cellfun : list A -> B) :
    local_glue dA cellfun layers = grid r c (fun y x => cellfun (tuple_at y x)).
  Proof.
    unfold local_glue. rewrite ncols_rect, iter_list_spec, concat_map, map_grid.
    apply reshape_concat_rect with (r := r); auto. apply grid_rect.
  Qed.
End GlueSpec.

Lemma zip_with_length {A B R} (f : R -> list A -> B) rs ts :
  length (zip_with f rs ts) = Nat.min (length rs) (length ts).
Proof. revert ts. induction rs; intros [|t ts]; simpl; auto. Qed.

Lemma nth_zip_with {A B R} (f : R -> list A -> B) dr dt d : forall rs ts i,
  i < length rs -> i < length ts -> nth i (zip_with f rs ts) d = f (nth i rs dr) (nth i ts dt).
Proof.
  induction rs as [|r0 rs IH]; intros [|t ts] i H1 H2; simpl in *; try lia.
  destruct i; [reflexivity|]. apply IH; lia.
Qed.

Theorem local_glue_ref_spec {A R B} (dA : A) (dR : R) r c (cellfun : R -> list A -> B) ref layers :
  0 < r -> 0 < c -> layers <> [] -> Forall (rect r c) layers -> rect r c ref ->
  local_glue_ref dA cellfun ref layers
  = grid r c (fun y x => cellfun (cell dR ref y x) (tuple_at dA layers y x)).
Proof.
  intros Hr Hc Hne Hrect Href. unfold local_glue_ref.
  rewrite (ncols_rect r c layers) by assumption.
  rewrite (iter_list_spec dA r c layers) by assumption.
  pose proof (grid_rect r c (tuple_at dA layers)) as HG.
  rewrite (flat_eq_grid (cellfun dR []) r c
             (fun y x => cellfun (cell dR ref y x) (tuple_at dA layers y x))
             (zip_with cellfun (concat ref) (concat (grid r c (tuple_at dA layers))))); auto.
  - apply reshape_concat_rect with (r := r); auto. apply grid_rect.
  - rewrite zip_with_length, (concat_rect_length r c ref), (concat_rect_length r c _ HG) by auto. lia.
  - intros y x Hy Hx.
    rewrite nth_zip_with with (dr := dR) (dt := []).
    + rewrite (nth_concat_rect dR r c ref) by auto.
      rewrite (nth_concat_rect [] r c _ y x HG) by auto. now rewrite cell_grid.
    + rewrite (concat_rect_length r c ref) by auto. nia.
    + rewrite (concat_rect_length r c _ HG). nia.
Qed.
