(* C17/ProofsPopularity.v — what xrspatial.local.popularity computes per cell:
   D = the distinct layer values in ascending order;
   NaN if a layer is NaN or no value occurs twice (|D| = number of layers);
   the common value if all layers agree (|D| = 1, whatever the reference);
   otherwise the ref-th smallest DISTINCT value (NaN if ref > |D|).
   (The docstring calls this "the reference variable's nth most popular value"; the code does not
   rank by number of occurrences — see PARTIAL in harness/props/c17.py.) *)
Require Import Base.Prelude Base.XVal C17.Model C17.ProofsCell.
From Coq Require Import Permutation Sorted.
Open Scope Z_scope.

Definition xlt (a b : xv) : Prop := xltb a b = true.

Lemma dedup_sorted_in s : forall x, In x (dedup_sorted s) <-> In x s.
Proof.
  induction s as [|a r IH]; intros x; [reflexivity|].
  destruct r as [|b r'].
  - reflexivity.
  - change (dedup_sorted (a :: b :: r')) with (if xeqb a b then dedup_sorted (b :: r') else a :: dedup_sorted (b :: r')).
    destruct (xeqb a b) eqn:E.
    + rewrite IH. apply xeqb_eq in E as [-> _]. simpl. tauto.
    + cbn [In]. rewrite IH. reflexivity.
Qed.

Lemma dedup_sorted_length s : lenZ (dedup_sorted s) <= lenZ s.
Proof.
  induction s as [|a r IH]; [reflexivity|]. destruct r as [|b r'].
  - reflexivity.
  - change (dedup_sorted (a :: b :: r')) with (if xeqb a b then dedup_sorted (b :: r') else a :: dedup_sorted (b :: r')).
    destruct (xeqb a b); [|rewrite (lenZ_cons a (dedup_sorted (b :: r')))]; rewrite (lenZ_cons a (b :: r')); lia.
Qed.

Lemma dedup_sorted_strict s : Forall (fun y => y <> XNaN) s -> StronglySorted xle s ->
  StronglySorted xlt (dedup_sorted s).
Proof.
  intros Hn Hs. induction Hs as [|a r Hs IH Hall]; [constructor|].
  inversion Hn as [|? ? Ha Hr]; subst. specialize (IH Hr).
  destruct r as [|b r'].
  - repeat constructor.
  - change (dedup_sorted (a :: b :: r')) with (if xeqb a b then dedup_sorted (b :: r') else a :: dedup_sorted (b :: r')).
    destruct (xeqb a b) eqn:E; [exact IH|].
    constructor; [exact IH|]. apply Forall_forall. intros z Hz. apply (proj1 (dedup_sorted_in _ _)) in Hz.
    rewrite Forall_forall in Hall. pose proof (Hall z Hz) as Haz. unfold xle in Haz.
    apply xleb_neq_ltb; [exact Haz|]. intros ->.
    (* a = z with a <= b <= z: then b = a, contradicting a <> b *)
    assert (Hab : xleb z b = true) by (apply Hall; now left).
    assert (Hbz : xleb b z = true).
    { destruct Hz as [->|Hz]; [apply xleb_refl; now inversion Hr|].
      inversion Hs as [|? ? _ Hb]; subst. rewrite Forall_forall in Hb. now apply Hb. }
    assert (z = b) by now apply xleb_antisym. subst b.
    assert (xeqb z z = true) by (apply xeqb_eq; auto). congruence.
Qed.

Lemma popularity_spec ref t : has_nan t = false ->
  exists D, StronglySorted xlt D /\ (forall x, In x D <-> In x t) /\ lenZ D <= lenZ t /\
    (lenZ t <= lenZ D -> popularity_cell ref t = Some XNaN) /\
    (lenZ D < lenZ t -> lenZ D = 1 -> popularity_cell ref t = Some (nthZ XNaN D 0)) /\
    (lenZ D < lenZ t -> 1 < lenZ D -> 1 <= ref <= lenZ D ->
       popularity_cell ref t = Some (nthZ XNaN D (ref - 1))) /\
    (lenZ D < lenZ t -> 1 < lenZ D -> lenZ D < ref -> popularity_cell ref t = Some XNaN).
Proof.
  intros Hn. exists (dedup_sorted (isort t)).
  pose proof Hn as Hn'. apply has_nan_false in Hn'.
  assert (Hsn : Forall (fun y => y <> XNaN) (isort t))
    by (eapply Permutation_Forall; [symmetry; apply isort_perm|exact Hn']).
  split; [apply dedup_sorted_strict; [exact Hsn|now apply isort_sorted]|].
  split.
  { intros x. rewrite dedup_sorted_in. split; apply Permutation_in; [apply isort_perm|symmetry; apply isort_perm]. }
  split; [rewrite <- (isort_length t); apply dedup_sorted_length|].
  unfold popularity_cell. rewrite Hn. cbn [orb].
  set (D := dedup_sorted (isort t)).
  repeat split.
  - intros H. destruct (lenZ t <=? lenZ D) eqn:E; [reflexivity|lia].
  - intros H H1. destruct (lenZ t <=? lenZ D) eqn:E; [lia|]. rewrite H1. reflexivity.
  - intros H H1 Hr. destruct (lenZ t <=? lenZ D) eqn:E; [lia|].
    destruct (lenZ D =? 1) eqn:E1; [lia|]. destruct (lenZ D <=? ref - 1) eqn:E2; [lia|].
    unfold pyindex. destruct ((ref - 1 <? - lenZ D) || (lenZ D <=? ref - 1)) eqn:E3; [lia|].
    now rewrite nthWrap_nonneg by lia.
  - intros H H1 Hr. destruct (lenZ t <=? lenZ D) eqn:E; [lia|].
    destruct (lenZ D =? 1) eqn:E1; [lia|]. destruct (lenZ D <=? ref - 1) eqn:E2; [reflexivity|lia].
Qed.
