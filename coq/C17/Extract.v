Require Import Extraction ExtrOcamlBasic.
Require Import Base.Prelude Base.XVal C17.Model.
From Coq Require Import QArith.
Extraction Language OCaml.
Extraction "model.ml" cell_stats_x cell_stats_q stat_max stat_min stat_sum stat_mean stat_median stat_var
  lesser_raster equal_raster greater_raster lowest_raster highest_raster rank_raster popularity_raster
  combine_raster.
