(* C17/ProofsCell.v — the cell functions of xrspatial.local equal their definitions. *)
Require Import Base.Prelude Base.XVal C17.Model.
From Coq Require Import QArith Permutation Sorted.
Open Scope Z_scope.

(* ---- NaN-free tuples and order facts on xv -------------------------- *)
Lemma has_nan_false t : has_nan t = false <-> Forall (fun x => x <> XNaN) t.
Proof.
  unfold has_nan. induction t as [|x t IH]; simpl.
  - split; auto.
  - rewrite orb_false_iff, IH. split.
    + intros [Hx Ht]. constructor; auto. destruct x; simpl in Hx; congruence.
    + intros H. inversion H; subst. split; auto. destruct x; simpl; congruence.
Qed.

Lemma has_nan_true t : has_nan t = true <-> In XNaN t.
Proof.
  unfold has_nan. rewrite existsb_exists. split.
  - intros (x & Hin & Hx). destruct x; simpl in Hx; try discriminate. exact Hin.
  - intros H. exists XNaN. auto.
Qed.

Lemma xleb_antisym a b : xleb a b = true -> xleb b a = true -> a = b.
Proof. destruct a, b; simpl; try congruence. intros. f_equal. lia. Qed.

Lemma xltb_false_leb a b : a <> XNaN -> b <> XNaN -> xltb a b = false -> xleb b a = true.
Proof. intros Ha Hb H. rewrite xltb_not_leb in H by assumption. now apply negb_false_iff in H. Qed.

Lemma xltb_true_leb a b : xltb a b = true -> xleb a b = true.
Proof. destruct a, b; simpl; try congruence. lia. Qed.

Lemma xltb_true_neq a b : xltb a b = true -> a <> b.
Proof. destruct a, b; simpl; try congruence. intros H E. inversion E. lia. Qed.

Lemma xleb_neq_ltb a b : xleb a b = true -> a <> b -> xltb a b = true.
Proof.
  destruct a, b; simpl; try congruence. intros H E. apply Z.ltb_lt.
  assert (z <> z0) by congruence. lia.
Qed.

(* ---- frequencies ---------------------------------------------------- *)
Lemma count_if_filter p t : count_if p t = lenZ (filter p t).
Proof.
  induction t as [|x t IH]; simpl; [reflexivity|].
  destruct (p x); rewrite IH; [rewrite lenZ_cons|]; lia.
Qed.

Lemma trichotomy_counts ref x : ref <> XNaN -> x <> XNaN ->
  (if xgtb ref x then 1 else 0) + (if xeqb ref x then 1 else 0) + (if xltb ref x then 1 else 0) = 1.
Proof.
  unfold xgtb. destruct ref, x; simpl; try congruence; intros _ _; try reflexivity.
  destruct (z0 <? z) eqn:E1, (z =? z0) eqn:E2, (z <? z0) eqn:E3; lia.
Qed.

Lemma freq_sum_counts ref t : has_nan t = false -> ref <> XNaN ->
  count_if (xgtb ref) t + count_if (xeqb ref) t + count_if (xltb ref) t = lenZ t.
Proof.
  intros Hn Hr. apply has_nan_false in Hn. induction Hn as [|x t Hx Ht IH]; simpl.
  - reflexivity.
  - rewrite lenZ_cons. pose proof (trichotomy_counts ref x Hr Hx). lia.
Qed.

Lemma freq_spec ref t : has_nan t = false -> ref <> XNaN ->
  lesser_cell ref t = XFin (lenZ (filter (fun v => xltb v ref) t)) /\
  equal_cell ref t = XFin (lenZ (filter (fun v => xeqb ref v) t)) /\
  greater_cell ref t = XFin (lenZ (filter (fun v => xltb ref v) t)) /\
  lenZ (filter (fun v => xltb v ref) t) + lenZ (filter (fun v => xeqb ref v) t)
    + lenZ (filter (fun v => xltb ref v) t) = lenZ t.
Proof.
  intros Hn Hr. unfold lesser_cell, equal_cell, greater_cell, freq_cell. rewrite Hn.
  rewrite !count_if_filter. repeat split.
  rewrite <- !count_if_filter. apply (freq_sum_counts ref t Hn Hr).
Qed.

(* ---- lowest / highest position -------------------------------------- *)
Definition first_min (t : list xv) (k : Z) : Prop :=
  0 <= k < lenZ t /\
  (forall j, 0 <= j < lenZ t -> xleb (nthZ XNaN t k) (nthZ XNaN t j) = true) /\
  (forall j, 0 <= j < k -> xltb (nthZ XNaN t k) (nthZ XNaN t j) = true).
Definition first_max (t : list xv) (k : Z) : Prop :=
  0 <= k < lenZ t /\
  (forall j, 0 <= j < lenZ t -> xleb (nthZ XNaN t j) (nthZ XNaN t k) = true) /\
  (forall j, 0 <= j < k -> xltb (nthZ XNaN t j) (nthZ XNaN t k) = true).

Lemma fold_min_spec l : forall m, m <> XNaN -> Forall (fun x => x <> XNaN) l ->
  let r := fold_left (fun m y => if xltb y m then y else m) l m in
  (r = m \/ In r l) /\ xleb r m = true /\ (forall x, In x l -> xleb r x = true).
Proof.
  induction l as [|y l IH]; intros m Hm Hl; simpl.
  - split; [auto|]. split; [now apply xleb_refl|]. intros x [].
  - inversion Hl as [|? ? Hy Hl']; subst.
    destruct (xltb y m) eqn:E.
    + destruct (IH y Hy Hl') as (Hin & Hle & Hall). split; [|split].
      * destruct Hin as [->|Hin]; auto.
      * eapply xleb_trans; [exact Hle|]. now apply xltb_true_leb.
      * intros x [<-|Hx]; auto.
    + destruct (IH m Hm Hl') as (Hin & Hle & Hall). split; [|split].
      * destruct Hin as [->|Hin]; auto.
      * exact Hle.
      * intros x [<-|Hx]; auto. eapply xleb_trans; [exact Hle|]. now apply xltb_false_leb.
Qed.

Lemma fold_max_spec l : forall m, m <> XNaN -> Forall (fun x => x <> XNaN) l ->
  let r := fold_left (fun m y => if xltb m y then y else m) l m in
  (r = m \/ In r l) /\ xleb m r = true /\ (forall x, In x l -> xleb x r = true).
Proof.
  induction l as [|y l IH]; intros m Hm Hl; simpl.
  - split; [auto|]. split; [now apply xleb_refl|]. intros x [].
  - inversion Hl as [|? ? Hy Hl']; subst.
    destruct (xltb m y) eqn:E.
    + destruct (IH y Hy Hl') as (Hin & Hle & Hall). split; [|split].
      * destruct Hin as [->|Hin]; auto.
      * eapply xleb_trans; [|exact Hle]. now apply xltb_true_leb.
      * intros x [<-|Hx]; auto.
    + destruct (IH m Hm Hl') as (Hin & Hle & Hall). split; [|split].
      * destruct Hin as [->|Hin]; auto.
      * exact Hle.
      * intros x [<-|Hx]; auto. eapply xleb_trans; [|exact Hle]. now apply xltb_false_leb.
Qed.

Lemma pymin_spec t : t <> [] -> Forall (fun x => x <> XNaN) t ->
  In (pymin t) t /\ forall x, In x t -> xleb (pymin t) x = true.
Proof.
  destruct t as [|x0 l]; [congruence|]. intros _ Hl. inversion Hl as [|? ? H0 Hl']; subst.
  destruct (fold_min_spec l x0 H0 Hl') as (Hin & Hle & Hall). unfold pymin. split.
  - destruct Hin as [->|Hin]; [left|right]; auto.
  - intros x [<-|Hx]; auto.
Qed.

Lemma pymax_spec t : t <> [] -> Forall (fun x => x <> XNaN) t ->
  In (pymax t) t /\ forall x, In x t -> xleb x (pymax t) = true.
Proof.
  destruct t as [|x0 l]; [congruence|]. intros _ Hl. inversion Hl as [|? ? H0 Hl']; subst.
  destruct (fold_max_spec l x0 H0 Hl') as (Hin & Hle & Hall). unfold pymax. split.
  - destruct Hin as [->|Hin]; [left|right]; auto.
  - intros x [<-|Hx]; auto.
Qed.

Lemma index_of_spec v t : forall i, index_of v t = Some i ->
  0 <= i < lenZ t /\ xeqb (nthZ XNaN t i) v = true /\
  forall j, 0 <= j < i -> xeqb (nthZ XNaN t j) v = false.
Proof.
  induction t as [|x t IH]; intros i H; simpl in H; [discriminate|].
  destruct (xeqb x v) eqn:E.
  - inversion H; subst. rewrite lenZ_cons. pose proof (lenZ_nonneg t). split; [lia|]. split; [exact E|]. intros; lia.
  - destruct (index_of v t) as [i'|] eqn:E'; [|discriminate]. inversion H; subst.
    destruct (IH i' eq_refl) as (Hr & He & Hb). rewrite lenZ_cons. split; [lia|]. split.
    + rewrite nthZ_cons_S by lia. now replace (i' + 1 - 1) with i' by lia.
    + intros j Hj. destruct (Z.eq_dec j 0) as [->|Hj0]; [exact E|].
      rewrite nthZ_cons_S by lia. apply Hb. lia.
Qed.

Lemma index_of_exists v t : In v t -> v <> XNaN -> exists i, index_of v t = Some i.
Proof.
  induction t as [|x t IH]; intros Hin Hv; [destruct Hin|]. simpl.
  destruct (xeqb x v) eqn:E; [eauto|].
  destruct Hin as [->|Hin].
  - assert (xeqb v v = true) by (apply xeqb_eq; auto). congruence.
  - destruct (IH Hin Hv) as (i & ->). eauto.
Qed.

Lemma In_nthZ_ex {A} (d : A) l x : In x l -> exists i, 0 <= i < lenZ l /\ nthZ d l i = x.
Proof.
  intros H. destruct (In_nth l x d H) as (n & Hn & Hx). exists (Z.of_nat n). unfold lenZ, nthZ. split; [lia|].
  destruct (Z.of_nat n <? 0) eqn:E; [lia|]. now rewrite Nat2Z.id.
Qed.

Lemma Forall_nthZ {A} (P : A -> Prop) d l i : Forall P l -> 0 <= i < lenZ l -> P (nthZ d l i).
Proof. intros H Hi. rewrite Forall_forall in H. apply H. now apply nthZ_in. Qed.

Lemma lowest_spec t : has_nan t = false -> t <> [] ->
  exists k, lowest_cell t = Some (XFin (k + 1)) /\ first_min t k.
Proof.
  intros Hn Hne. unfold lowest_cell, position_cell. rewrite Hn.
  apply has_nan_false in Hn. destruct (pymin_spec t Hne Hn) as (Hin & Hall).
  assert (Hv : pymin t <> XNaN) by (rewrite Forall_forall in Hn; auto).
  destruct (index_of_exists _ _ Hin Hv) as (i & Hi). rewrite Hi. exists i. split; [reflexivity|].
  destruct (index_of_spec _ _ _ Hi) as (Hr & He & Hb).
  apply xeqb_eq in He as [He _]. unfold first_min. rewrite He. split; [exact Hr|]. split.
  - intros j Hj. apply Hall. now apply nthZ_in.
  - intros j Hj. apply xleb_neq_ltb.
    + apply Hall. apply nthZ_in. lia.
    + intros E. specialize (Hb j Hj). rewrite <- E in Hb.
      assert (xeqb (pymin t) (pymin t) = true) by (apply xeqb_eq; auto). congruence.
Qed.

Lemma highest_spec t : has_nan t = false -> t <> [] ->
  exists k, highest_cell t = Some (XFin (k + 1)) /\ first_max t k.
Proof.
  intros Hn Hne. unfold highest_cell, position_cell. rewrite Hn.
  apply has_nan_false in Hn. destruct (pymax_spec t Hne Hn) as (Hin & Hall).
  assert (Hv : pymax t <> XNaN) by (rewrite Forall_forall in Hn; auto).
  destruct (index_of_exists _ _ Hin Hv) as (i & Hi). rewrite Hi. exists i. split; [reflexivity|].
  destruct (index_of_spec _ _ _ Hi) as (Hr & He & Hb).
  apply xeqb_eq in He as [He _]. unfold first_max. rewrite He. split; [exact Hr|]. split.
  - intros j Hj. apply Hall. now apply nthZ_in.
  - intros j Hj. apply xleb_neq_ltb.
    + apply Hall. apply nthZ_in. lia.
    + intros E. specialize (Hb j Hj). rewrite E in Hb.
      assert (xeqb (pymax t) (pymax t) = true) by (apply xeqb_eq; auto). congruence.
Qed.

(* the position is unique: "first minimum" determines k *)
Lemma first_min_unique t k k' : first_min t k -> first_min t k' -> k = k'.
Proof.
  intros (Hk & Hle & Hlt) (Hk' & Hle' & Hlt').
  destruct (Z.lt_trichotomy k k') as [H|[H|H]]; auto.
  - specialize (Hlt' k ltac:(lia)). specialize (Hle k' ltac:(lia)).
    apply xltb_true_neq in Hlt' as Hne. pose proof (xltb_true_leb _ _ Hlt').
    exfalso. apply Hne. now apply xleb_antisym.
  - specialize (Hlt k' ltac:(lia)). specialize (Hle' k ltac:(lia)).
    apply xltb_true_neq in Hlt as Hne. pose proof (xltb_true_leb _ _ Hlt).
    exfalso. apply Hne. now apply xleb_antisym.
Qed.

Lemma first_max_unique t k k' : first_max t k -> first_max t k' -> k = k'.
Proof.
  intros (Hk & Hle & Hlt) (Hk' & Hle' & Hlt').
  destruct (Z.lt_trichotomy k k') as [H|[H|H]]; auto.
  - specialize (Hlt' k ltac:(lia)). specialize (Hle k' ltac:(lia)).
    apply xltb_true_neq in Hlt' as Hne. pose proof (xltb_true_leb _ _ Hlt').
    exfalso. apply Hne. now apply xleb_antisym.
  - specialize (Hlt k' ltac:(lia)). specialize (Hle' k ltac:(lia)).
    apply xltb_true_neq in Hlt as Hne. pose proof (xltb_true_leb _ _ Hlt).
    exfalso. apply Hne. now apply xleb_antisym.
Qed.

(* ---- sorting, rank, median ------------------------------------------- *)
Definition xle (a b : xv) : Prop := xleb a b = true.

Lemma insert_perm x l : Permutation (insert x l) (x :: l).
Proof.
  induction l as [|y l IH]; simpl; [reflexivity|].
  destruct (xleb x y); [reflexivity|]. rewrite IH. apply perm_swap.
Qed.

Lemma isort_perm l : Permutation (isort l) l.
Proof. induction l as [|x l IH]; simpl; [reflexivity|]. rewrite insert_perm. now constructor. Qed.

Lemma insert_sorted x l : x <> XNaN -> Forall (fun y => y <> XNaN) l ->
  Sorted xle l -> Sorted xle (insert x l).
Proof.
  intros Hx Hl Hs. induction Hs as [|y l Hs IH Hd]; simpl.
  - repeat constructor.
  - inversion Hl as [|? ? Hy Hl']; subst. destruct (xleb x y) eqn:E.
    + constructor; [constructor; auto|]. constructor. exact E.
    + constructor; [auto|].
      assert (Hyx : xle y x).
      { destruct (xleb_total x y Hx Hy) as [H|H]; [congruence|exact H]. }
      destruct l as [|z l]; simpl.
      * constructor. exact Hyx.
      * destruct (xleb x z); constructor; [exact Hyx|]. now inversion Hd.
Qed.

Lemma isort_sorted l : Forall (fun y => y <> XNaN) l -> StronglySorted xle (isort l).
Proof.
  intros Hl. apply Sorted_StronglySorted.
  - intros a b c. apply xleb_trans.
  - induction Hl as [|x l Hx Hl IH]; simpl; [constructor|].
    apply insert_sorted; auto.
    eapply Permutation_Forall; [symmetry; apply isort_perm|exact Hl].
Qed.

Lemma isort_length l : lenZ (isort l) = lenZ l.
Proof. unfold lenZ. now rewrite (Permutation_length (isort_perm l)). Qed.

Lemma rank_spec ref t : has_nan t = false -> 1 <= ref <= lenZ t ->
  exists s, Permutation s t /\ StronglySorted xle s /\
            rank_cell ref t = Some (nthZ XNaN s (ref - 1)).
Proof.
  intros Hn Hr. exists (isort t). split; [apply isort_perm|]. split.
  - apply isort_sorted. now apply has_nan_false.
  - unfold rank_cell, pyindex. rewrite Hn, isort_length. simpl orb.
    destruct (lenZ t <=? ref - 1) eqn:E1; [lia|].
    destruct (ref - 1 <? - lenZ t) eqn:E2; [lia|]. simpl.
    now rewrite nthWrap_nonneg by lia.
Qed.

