(* C17/Props.v — the property theorems claimed for C17, nothing else.
   Each is closed by [exact] of a lemma from Proofs*.v and followed by Print Assumptions. *)
Require Import Base.Prelude Base.XVal C17.Model C17.ProofsGlue C17.ProofsCell C17.ProofsStats C17.ProofsCombine C17.ProofsPopularity.
From Coq Require Import QArith Permutation Sorted.
Open Scope Z_scope.

(* The glue shared by cell_stats / lowest_position / highest_position (and, with the dictionary
   scan in place of the map, combine): for ANY shape r x c (r, c >= 1) and ANY non-empty list of
   r x c layers, flatten-in-C-order / iterate in lock-step / apply the cell function /
   reshape by the column count of the first layer  IS  the per-cell map
   out[y][x] = cellfun [L[y][x] for L in layers]. *)
Theorem C17_glue_is_per_cell_map :
  forall (A B : Type) (dA : A) (r c : nat) (layers : list (list (list A))) (cellfun : list A -> B),
  (0 < r)%nat -> (0 < c)%nat -> layers <> [] -> Forall (rect r c) layers ->
  local_glue dA cellfun layers = grid r c (fun y x => cellfun (map (fun L => cell dA L y x) layers)).
Proof. intros A B dA r c layers cellfun Hr Hc Hne Hrect. exact (local_glue_spec dA r c layers Hr Hc Hne Hrect cellfun). Qed.
Print Assumptions C17_glue_is_per_cell_map.

(* The same with a reference layer (frequencies, rank, popularity): the reference cell (y,x) is
   paired with the layer tuple of the SAME cell. *)
Theorem C17_glue_ref_is_per_cell_map :
  forall (A R B : Type) (dA : A) (dR : R) (r c : nat) (cellfun : R -> list A -> B) ref layers,
  (0 < r)%nat -> (0 < c)%nat -> layers <> [] -> Forall (rect r c) layers -> rect r c ref ->
  local_glue_ref dA cellfun ref layers
  = grid r c (fun y x => cellfun (cell dR ref y x) (map (fun L => cell dA L y x) layers)).
Proof. exact @local_glue_ref_spec. Qed.
Print Assumptions C17_glue_ref_is_per_cell_map.

(* lesser / equal / greater frequency = number of layers below / equal to / above the reference;
   the three sum to the layer count whenever no layer (and not the reference) is NaN *)
Theorem C17_frequency_counts_and_sum : forall ref t,
  has_nan t = false -> ref <> XNaN ->
  lesser_cell ref t = XFin (lenZ (filter (fun v => xltb v ref) t)) /\
  equal_cell ref t = XFin (lenZ (filter (fun v => xeqb ref v) t)) /\
  greater_cell ref t = XFin (lenZ (filter (fun v => xltb ref v) t)) /\
  lenZ (filter (fun v => xltb v ref) t) + lenZ (filter (fun v => xeqb ref v) t)
    + lenZ (filter (fun v => xltb ref v) t) = lenZ t.
Proof. exact freq_spec. Qed.
Print Assumptions C17_frequency_counts_and_sum.

(* lowest / highest position = 1-based index of the FIRST minimum / maximum *)
Theorem C17_lowest_position_first_min : forall t,
  has_nan t = false -> t <> [] ->
  exists k, lowest_cell t = Some (XFin (k + 1)) /\
    0 <= k < lenZ t /\
    (forall j, 0 <= j < lenZ t -> xleb (nthZ XNaN t k) (nthZ XNaN t j) = true) /\
    (forall j, 0 <= j < k -> xltb (nthZ XNaN t k) (nthZ XNaN t j) = true).
Proof. exact lowest_spec. Qed.
Print Assumptions C17_lowest_position_first_min.

Theorem C17_highest_position_first_max : forall t,
  has_nan t = false -> t <> [] ->
  exists k, highest_cell t = Some (XFin (k + 1)) /\
    0 <= k < lenZ t /\
    (forall j, 0 <= j < lenZ t -> xleb (nthZ XNaN t j) (nthZ XNaN t k) = true) /\
    (forall j, 0 <= j < k -> xltb (nthZ XNaN t j) (nthZ XNaN t k) = true).
Proof. exact highest_spec. Qed.
Print Assumptions C17_highest_position_first_max.

(* "first minimum" determines the index uniquely *)
Theorem C17_first_min_unique : forall t k k', first_min t k -> first_min t k' -> k = k'.
Proof. exact first_min_unique. Qed.
Print Assumptions C17_first_min_unique.

(* ... and so does "first maximum": highest_position is a function of the tuple, ties go to the earliest layer *)
Theorem C17_first_max_unique : forall t k k', first_max t k -> first_max t k' -> k = k'.
Proof. exact first_max_unique. Qed.
Print Assumptions C17_first_max_unique.

(* rank = the ref-th smallest layer value (1 <= ref <= number of layers): element ref-1 of the
   ascending permutation of the tuple *)
Theorem C17_rank_is_ref_th_smallest : forall ref t,
  has_nan t = false -> 1 <= ref <= lenZ t ->
  exists s, Permutation s t /\ StronglySorted (fun a b => xleb a b = true) s /\
            rank_cell ref t = Some (nthZ XNaN s (ref - 1)).
Proof. exact rank_spec. Qed.
Print Assumptions C17_rank_is_ref_th_smallest.

(* combine, on the row-major list of cell tuples ts (any length, any tuples) *)
Theorem C17_combine_ids : forall ts ids keys,
  combine_scan ts [] = (ids, keys) ->
  length ids = length ts /\ NoDup keys /\ Forall (fun k => has_nan k = false) keys /\
  (forall i, (i < length ts)%nat -> has_nan (nth i ts []) = true -> nth i ids XNaN = XNaN) /\
  (forall i, (i < length ts)%nat -> has_nan (nth i ts []) = false ->
     exists m, nth i ids XNaN = XFin m /\ 1 <= m <= lenZ keys /\ nthZ [] keys (m - 1) = nth i ts []) /\
  (forall i j, (i < length ts)%nat -> (j < length ts)%nat ->
     has_nan (nth i ts []) = false -> has_nan (nth j ts []) = false ->
     (nth i ids XNaN = nth j ids XNaN <-> nth i ts [] = nth j ts [])) /\
  (forall i m, (i < length ts)%nat -> nth i ids XNaN = XFin m -> 1 < m ->
     exists j, (j < i)%nat /\ nth j ids XNaN = XFin (m - 1)) /\
  (forall m, 1 <= m <= lenZ keys -> exists i, (i < length ts)%nat /\ nth i ids XNaN = XFin m).
Proof. exact combine_spec. Qed.
Print Assumptions C17_combine_ids.

(* ... and the raster combine returns is that scan applied to the tuples of the cells in
   row-major order, laid out per cell: out[y][x] = ids[y*c + x], tuple number y*c+x = tuple of (y,x) *)
Theorem C17_combine_raster_layout : forall (r c : nat) layers ids keys,
  (0 < r)%nat -> (0 < c)%nat -> layers <> [] -> Forall (rect r c) layers ->
  combine_scan (concat (grid r c (tuple_at XNaN layers))) [] = (ids, keys) ->
  combine_raster layers = (grid r c (fun y x => nth (y * c + x) ids XNaN), keys) /\
  length ids = (r * c)%nat /\
  (forall y x, (y < r)%nat -> (x < c)%nat ->
     nth (y * c + x) (concat (grid r c (tuple_at XNaN layers))) [] = tuple_at XNaN layers y x).
Proof. exact combine_raster_spec. Qed.
Print Assumptions C17_combine_raster_layout.

(* a NaN in any of the data layers makes the cell NaN — every cell function *)
Theorem C17_nan_absorbing : forall t, has_nan t = true ->
  (forall ref, lesser_cell ref t = XNaN /\ equal_cell ref t = XNaN /\ greater_cell ref t = XNaN) /\
  lowest_cell t = Some XNaN /\ highest_cell t = Some XNaN /\
  (forall ref, rank_cell ref t = Some XNaN /\ popularity_cell ref t = Some XNaN) /\
  stat_max t = XNaN /\ stat_min t = XNaN /\ stat_sum t = XNaN /\
  stat_mean t = QNaN /\ stat_median t = QNaN /\ stat_var t = QNaN.
Proof. exact nan_absorbing_cells. Qed.
Print Assumptions C17_nan_absorbing.

(* cell_stats: max/min are attained bounds; sum is the integer sum; mean * n = sum;
   variance = mean squared deviation; median = middle of the ascending permutation *)
Theorem C17_cell_stats_max_min : forall t, has_nan t = false -> t <> [] ->
  (In (stat_max t) t /\ forall x, In x t -> xleb x (stat_max t) = true) /\
  (In (stat_min t) t /\ forall x, In x t -> xleb (stat_min t) x = true).
Proof. intros t Hn Hne. split; [exact (stat_max_spec t Hn Hne)|exact (stat_min_spec t Hn Hne)]. Qed.
Print Assumptions C17_cell_stats_max_min.

Theorem C17_cell_stats_sum_mean_var : forall t, all_finite t = true -> t <> [] ->
  stat_sum t = XFin (zsum t) /\
  (exists q, stat_mean t = QFin q /\ (q * inject_Z (lenZ t) == inject_Z (zsum t))%Q) /\
  (exists m v, stat_var t = QFin v /\
     (m * inject_Z (lenZ t) == inject_Z (zsum t))%Q /\
     (v == qsum (map (fun x => (inject_Z (fin_z x) - m) * (inject_Z (fin_z x) - m)) t) / inject_Z (lenZ t))%Q).
Proof.
  intros t Hf Hne. split; [exact (stat_sum_spec t Hf)|].
  split; [exact (stat_mean_spec t Hf Hne)|exact (stat_var_spec t Hf Hne)].
Qed.
Print Assumptions C17_cell_stats_sum_mean_var.

Theorem C17_cell_stats_median : forall t, has_nan t = false ->
  exists s, Permutation s t /\ StronglySorted (fun a b => xleb a b = true) s /\
    (Z.odd (lenZ t) = true -> stat_median t = qv_of_xv (nthZ XNaN s (lenZ t / 2))) /\
    (Z.odd (lenZ t) = false ->
       stat_median t = qdiv_n (xadd (nthZ XNaN s (lenZ t / 2 - 1)) (nthZ XNaN s (lenZ t / 2))) 2).
Proof. exact stat_median_spec. Qed.
Print Assumptions C17_cell_stats_median.

(* popularity, as the code computes it: with D = the distinct layer values in strictly ascending
   order, the cell is NaN when no value occurs twice (|D| = number of layers), the common value when
   all layers agree (whatever the reference), otherwise the ref-th smallest distinct value for
   1 <= ref <= |D| and NaN for ref > |D|.  (Not a ranking by number of occurrences.) *)
Theorem C17_popularity_spec : forall ref t, has_nan t = false ->
  exists D, StronglySorted (fun a b => xltb a b = true) D /\ (forall x, In x D <-> In x t) /\ lenZ D <= lenZ t /\
    (lenZ t <= lenZ D -> popularity_cell ref t = Some XNaN) /\
    (lenZ D < lenZ t -> lenZ D = 1 -> popularity_cell ref t = Some (nthZ XNaN D 0)) /\
    (lenZ D < lenZ t -> 1 < lenZ D -> 1 <= ref <= lenZ D ->
       popularity_cell ref t = Some (nthZ XNaN D (ref - 1))) /\
    (lenZ D < lenZ t -> 1 < lenZ D -> lenZ D < ref -> popularity_cell ref t = Some XNaN).
Proof. exact popularity_spec. Qed.
Print Assumptions C17_popularity_spec.

Example C17_popularity_nonvacuous :
  has_nan [XFin 2; XFin 3; XFin 2; XFin 5] = false /\
  popularity_cell 1 [XFin 2; XFin 3; XFin 2; XFin 5] = Some (XFin 2) /\
  popularity_cell 3 [XFin 2; XFin 3; XFin 2; XFin 5] = Some (XFin 5) /\
  popularity_cell 4 [XFin 2; XFin 3; XFin 2; XFin 5] = Some XNaN /\
  popularity_cell 2 [XFin 7; XFin 7; XFin 7] = Some (XFin 7) /\
  popularity_cell 1 [XFin 1; XFin 2; XFin 3] = Some XNaN.
Proof. vm_compute. repeat split. Qed.

(* ---- non-vacuity and the defect witness -------------------------------- *)
Definition ex_a := [[XFin 0; XFin 1; XFin 2]; [XFin 3; XFin 4; XFin 5]].
Definition ex_b := [[XFin 0; XFin 10; XFin 20]; [XFin 30; XFin 40; XFin 50]].
Definition ex_c := [[XFin 3; XFin 10; XNaN]; [XFin 3; XFin 4; XFin 50]].
Definition ex_ref := [[XFin 1; XFin 2; XFin 1]; [XFin 3; XFin 1; XFin 2]].
Definition ex_refz := [[1; 2; 1]; [3; 1; 2]].

Example C17_nonvacuous_glue :
  (0 < 2)%nat /\ (0 < 3)%nat /\ [ex_a; ex_b; ex_c] <> [] /\ Forall (rect 2 3) [ex_a; ex_b; ex_c] /\ rect 2 3 ex_ref /\
  cell_stats_x stat_sum [ex_a; ex_b] = [[XFin 0; XFin 11; XFin 22]; [XFin 33; XFin 44; XFin 55]] /\
  lowest_raster [ex_a; ex_b; ex_c] = [[Some (XFin 1); Some (XFin 1); Some XNaN]; [Some (XFin 1); Some (XFin 1); Some (XFin 1)]] /\
  highest_raster [ex_a; ex_b; ex_c] = [[Some (XFin 3); Some (XFin 2); Some XNaN]; [Some (XFin 2); Some (XFin 2); Some (XFin 2)]] /\
  rank_raster ex_refz [ex_a; ex_b; ex_c] = [[Some (XFin 0); Some (XFin 10); Some XNaN]; [Some (XFin 30); Some (XFin 4); Some (XFin 50)]] /\
  lesser_raster ex_ref [ex_a; ex_b; ex_c] = [[XFin 2; XFin 1; XNaN]; [XFin 0; XFin 0; XFin 0]] /\
  combine_raster [ex_c; ex_c] = ([[XFin 1; XFin 2; XNaN]; [XFin 1; XFin 3; XFin 4]],
                                 [[XFin 3; XFin 3]; [XFin 10; XFin 10]; [XFin 4; XFin 4]; [XFin 50; XFin 50]]).
Proof.
  repeat split; try lia; try discriminate; try (repeat constructor; fail); vm_compute; reflexivity.
Qed.

Example C17_nonvacuous_cells :
  let t := [XFin 4; XFin 2; XFin 7; XFin 2] in
  has_nan t = false /\ all_finite t = true /\ t <> [] /\
  lowest_cell t = Some (XFin 2) /\ highest_cell t = Some (XFin 3) /\
  rank_cell 3 t = Some (XFin 4) /\ stat_mean t = QFin (15 # 4) /\ stat_median t = QFin (6 # 2) /\
  lesser_cell (XFin 4) t = XFin 2 /\ equal_cell (XFin 4) t = XFin 1 /\ greater_cell (XFin 4) t = XFin 1.
Proof. vm_compute. repeat split; discriminate. Qed.

(* the defect fixed by fixes/C17-nditer-c-order-single-layer.diff: with np.nditer's default
   order='K', Fortran-ordered layers are visited column-major and the result is NOT the per-cell map *)
Example C17_order_K_fortran_refuted :
  local_glue_orderK_F XNaN stat_sum [ex_a; ex_b] = [[XFin 0; XFin 33; XFin 11]; [XFin 44; XFin 22; XFin 55]] /\
  local_glue_orderK_F XNaN stat_sum [ex_a; ex_b]
    <> grid 2 3 (fun y x => stat_sum (map (fun L => cell XNaN L y x) [ex_a; ex_b])).
Proof. split; [vm_compute; reflexivity|vm_compute; discriminate]. Qed.
