(* C17/Model.v — executable model of xrspatial/local.py (with fixes/C17-nditer-c-order-single-layer.diff
   applied: the layers are visited in C order, one tuple per cell, also for a single layer).
   Every public function has the same three phases:
     1. iter_list = [tuple(layer values) for each cell, lock-step over the flattened layers]
        (ref_list = the reference layer flattened row by row, zip(ref_list, iter_list))
     2. out = [cell function of the tuple (and ref)]           -- `combine`: a dictionary scan instead
     3. np.reshape(out, (-1, raster[data_vars[0]].data.shape[1]))
   Values are Base.XVal.xv (NaN, -inf, finite integer after the harness' common power-of-two
   scaling, +inf); cell_stats mean/median/variance produce rationals.  Definitions only. *)
Require Import Base.Prelude Base.XVal.
From Coq Require Import QArith.
Open Scope Z_scope.

(* ------------------------------------------------------------------ *)
(* phases 1 and 3: flatten / lock-step / reshape                       *)
(* ------------------------------------------------------------------ *)
Section Glue.
  Context {A B : Type}.
  Variable dA : A.

  (* one layer flattened in C order (np.nditer(..., order='C'); the list comprehension
     `[item for arr in raster[ref_var].data for item in arr]` for the reference layer) *)
  Definition flatten (L : list (list A)) : list A := concat L.

  (* n steps of the lock-step iterator over the flattened layers: each step yields the
     tuple of the current heads and advances every operand *)
  Fixpoint lockstep (n : nat) (flats : list (list A)) : list (list A) :=
    match n with
    | O => []
    | S k => map (hd dA) flats :: lockstep k (map (@tl A) flats)
    end.

  Definition iter_list (layers : list (list (list A))) : list (list A) :=
    let flats := map flatten layers in
    lockstep (length (hd [] flats)) flats.

  (* np.reshape(out, (-1, c)): rows of c consecutive items *)
  Fixpoint chunk (fuel : nat) (c : nat) (l : list B) : list (list B) :=
    match fuel with
    | O => []
    | S f => match l with
             | [] => []
             | _ => firstn c l :: chunk f c (skipn c l)
             end
    end.
  Definition reshape (c : nat) (l : list B) : list (list B) := chunk (length l) c l.

  (* raster[data_vars[0]].data.shape[1] *)
  Definition ncols (layers : list (list (list A))) : nat := length (hd [] (hd [] layers)).

  (* functions without a reference layer *)
  Definition local_glue (cellfun : list A -> B) (layers : list (list (list A))) : list (list B) :=
    reshape (ncols layers) (map cellfun (iter_list layers)).

  (* zip(ref_list, iter_list) — stops at the shorter one *)
  Fixpoint zip_with {R} (f : R -> list A -> B) (rs : list R) (ts : list (list A)) : list B :=
    match rs, ts with
    | r :: rs', t :: ts' => f r t :: zip_with f rs' ts'
    | _, _ => []
    end.
End Glue.

Definition local_glue_ref {A R B} (dA : A) (cellfun : R -> list A -> B)
           (ref : list (list R)) (layers : list (list (list A))) : list (list B) :=
  reshape (ncols layers) (zip_with cellfun (concat ref) (iter_list dA layers)).

(* ------------------------------------------------------------------ *)
(* phase 2: the cell functions                                          *)
(* ------------------------------------------------------------------ *)
Definition has_nan (t : list xv) : bool := existsb xisnan t.     (* np.isnan(comb).any() *)

(* `count = 0; for item in comb: if p item: count += 1` *)
Fixpoint count_if (p : xv -> bool) (t : list xv) : Z :=
  match t with
  | [] => 0
  | x :: r => (if p x then 1 else 0) + count_if p r
  end.

Definition freq_cell (cmp : xv -> xv -> bool) (ref : xv) (t : list xv) : xv :=
  if has_nan t then XNaN else XFin (count_if (cmp ref) t).
Definition lesser_cell := freq_cell xgtb.      (* ref > item  *)
Definition equal_cell := freq_cell xeqb.       (* ref == item *)
Definition greater_cell := freq_cell xltb.     (* ref < item  *)

(* Python min()/max() of a tuple: keep the first extreme element (strict comparison replaces) *)
Definition pymin (t : list xv) : xv :=
  match t with [] => XNaN | x :: r => fold_left (fun m y => if xltb y m then y else m) r x end.
Definition pymax (t : list xv) : xv :=
  match t with [] => XNaN | x :: r => fold_left (fun m y => if xltb m y then y else m) r x end.
(* comb.index(v): position of the first item equal (==) to v; None = ValueError *)
Fixpoint index_of (v : xv) (t : list xv) : option Z :=
  match t with
  | [] => None
  | x :: r => if xeqb x v then Some 0
              else match index_of v r with Some i => Some (i + 1) | None => None end
  end.
Definition position_cell (pick : list xv -> xv) (t : list xv) : option xv :=
  if has_nan t then Some XNaN
  else match index_of (pick t) t with Some i => Some (XFin (i + 1)) | None => None end.
Definition lowest_cell := position_cell pymin.
Definition highest_cell := position_cell pymax.

(* list.sort() — stable insertion sort by <= (used on NaN-free tuples only: a tuple with a
   NaN gives NaN whatever the order) *)
Fixpoint insert (x : xv) (l : list xv) : list xv :=
  match l with
  | [] => [x]
  | y :: r => if xleb x y then x :: y :: r else y :: insert x r
  end.
Fixpoint isort (l : list xv) : list xv :=
  match l with [] => [] | x :: r => insert x (isort r) end.

(* Python list indexing s[i] with an int: wraps once, IndexError (None) outside [-len, len) *)
Definition pyindex (s : list xv) (i : Z) : option xv :=
  if (i <? - lenZ s) || (lenZ s <=? i) then None else Some (nthWrap XNaN s i).

(* rank:  comb_ref = ref - 1; comb.sort();
          if isnan(comb).any() or comb_ref >= len(comb): nan  else comb[comb_ref]  *)
Definition rank_cell (ref : Z) (t : list xv) : option xv :=
  let cr := ref - 1 in
  let s := isort t in
  if has_nan t || (lenZ t <=? cr) then Some XNaN else pyindex s cr.

(* sorted(Counter(comb).keys()): the distinct values, ascending *)
Fixpoint dedup_sorted (s : list xv) : list xv :=
  match s with
  | [] => []
  | x :: r => match r with
              | [] => [x]
              | y :: _ => if xeqb x y then dedup_sorted r else x :: dedup_sorted r
              end
  end.
Definition popularity_cell (ref : Z) (t : list xv) : option xv :=
  let cr := ref - 1 in
  let cc := dedup_sorted (isort t) in
  if has_nan t || (lenZ t <=? lenZ cc) then Some XNaN
  else if lenZ cc =? 1 then Some (nthZ XNaN cc 0)
  else if lenZ cc <=? cr then Some XNaN
  else pyindex cc cr.

(* ---- cell_stats ---------------------------------------------------- *)
(* IEEE addition on xv: NaN absorbing, inf + -inf = NaN *)
Definition xadd (a b : xv) : xv :=
  match a, b with
  | XNaN, _ | _, XNaN => XNaN
  | XPInf, XNInf | XNInf, XPInf => XNaN
  | XPInf, _ | _, XPInf => XPInf
  | XNInf, _ | _, XNInf => XNInf
  | XFin x, XFin y => XFin (x + y)
  end.
(* np.maximum / np.minimum: NaN propagating *)
Definition xmax2 (a b : xv) : xv :=
  if xisnan a || xisnan b then XNaN else if xltb a b then b else a.
Definition xmin2 (a b : xv) : xv :=
  if xisnan a || xisnan b then XNaN else if xltb b a then b else a.
Definition stat_max (t : list xv) : xv := match t with [] => XNaN | x :: r => fold_left xmax2 r x end.
Definition stat_min (t : list xv) : xv := match t with [] => XNaN | x :: r => fold_left xmin2 r x end.
Definition stat_sum (t : list xv) : xv := fold_left xadd t (XFin 0).

(* rational results *)
Inductive qv : Type := QNaN | QNInf | QFin (q : Q) | QPInf.
Definition qv_of_xv (a : xv) : qv :=
  match a with XNaN => QNaN | XNInf => QNInf | XPInf => QPInf | XFin z => QFin (inject_Z z) end.
(* a / n for a count n >= 1 *)
Definition qdiv_n (a : xv) (n : Z) : qv :=
  match a with
  | XNaN => QNaN | XNInf => QNInf | XPInf => QPInf
  | XFin z => QFin (Qmake z (Z.to_pos n))
  end.
Definition stat_mean (t : list xv) : qv := qdiv_n (stat_sum t) (lenZ t).
(* np.median: NaN if any NaN; middle of the sorted values, mean of the two middle ones
   for an even count *)
Definition stat_median (t : list xv) : qv :=
  if has_nan t then QNaN
  else let s := isort t in
       let n := lenZ t in
       if Z.odd n then qv_of_xv (nthZ XNaN s (n / 2))
       else qdiv_n (xadd (nthZ XNaN s (n / 2 - 1)) (nthZ XNaN s (n / 2))) 2.
(* np.std = sqrt(mean(|x - mean|^2)): the model gives the variance (the harness squares the
   implementation's value).  Any NaN or infinity among the values makes it NaN
   (inf - inf in x - mean). *)
Definition all_finite (t : list xv) : bool := forallb xisfinite t.
Definition fin_z (a : xv) : Z := match a with XFin z => z | _ => 0 end.
Definition qsum (l : list Q) : Q := fold_left Qplus l (0#1)%Q.
Definition stat_var (t : list xv) : qv :=
  if all_finite t then
    let n := Z.to_pos (lenZ t) in
    let m := Qmake (fold_left Z.add (map fin_z t) 0) n in
    QFin (qsum (map (fun x => let d := (inject_Z (fin_z x) - m)%Q in (d * d)%Q) t) / inject_Z (Zpos n))%Q
  else QNaN.

(* ---- combine ------------------------------------------------------- *)
(* tuple equality as the dictionary sees it: element-wise == (NaN-free tuples only) *)
Fixpoint tuple_eqb (a b : list xv) : bool :=
  match a, b with
  | [], [] => true
  | x :: a', y :: b' => xeqb x y && tuple_eqb a' b'
  | _, _ => false
  end.
(* position of a tuple among the keys in insertion order (unique_comb: tuple -> position + 1) *)
Fixpoint find_key (t : list xv) (keys : list (list xv)) : option Z :=
  match keys with
  | [] => None
  | k :: r => if tuple_eqb k t then Some 0
              else match find_key t r with Some i => Some (i + 1) | None => None end
  end.
(* the scan: `value` is always len(unique_comb) + 1.  The implementation writes a placeholder 0
   for an already seen tuple and replaces it by unique_comb[comb] in a second pass; the
   dictionary is append-only, so that is the entry found here. *)
Fixpoint combine_scan (ts : list (list xv)) (keys : list (list xv)) : list xv * list (list xv) :=
  match ts with
  | [] => ([], keys)
  | t :: rest =>
    if has_nan t then
      let (ids, ks) := combine_scan rest keys in (XNaN :: ids, ks)
    else match find_key t keys with
         | Some i => let (ids, ks) := combine_scan rest keys in (XFin (i + 1) :: ids, ks)
         | None => let (ids, ks) := combine_scan rest (keys ++ [t]) in
                   (XFin (lenZ keys + 1) :: ids, ks)
         end
  end.
(* result raster and attrs['key'] (entry number i, 0-based, is the tuple of id i+1) *)
Definition combine_raster (layers : list (list (list xv))) : list (list xv) * list (list xv) :=
  let (ids, keys) := combine_scan (iter_list XNaN layers) [] in
  (reshape (ncols layers) ids, keys).

(* ---- whole-raster entry points (extracted) -------------------------- *)
Definition cell_stats_x (f : list xv -> xv) := local_glue XNaN f.
Definition cell_stats_q (f : list xv -> qv) := local_glue XNaN f.
Definition lesser_raster := local_glue_ref XNaN lesser_cell.
Definition equal_raster := local_glue_ref XNaN equal_cell.
Definition greater_raster := local_glue_ref XNaN greater_cell.
Definition lowest_raster := local_glue XNaN lowest_cell.
Definition highest_raster := local_glue XNaN highest_cell.
Definition rank_raster := local_glue_ref XNaN rank_cell.
Definition popularity_raster := local_glue_ref XNaN popularity_cell.

(* ---- the behaviour BEFORE the fix (for the refutation witness only) ---- *)
(* np.nditer's default order='K' follows memory order: when every layer is Fortran-ordered the
   cells are visited column by column, while the reshape (and the reference list) stay row-major *)
Definition flatten_F {A} (dA : A) (L : list (list A)) : list A :=
  concat (lockstep dA (length (hd [] L)) L).
Definition local_glue_orderK_F {A B} (dA : A) (cellfun : list A -> B) (layers : list (list (list A))) :=
  let flats := map (flatten_F dA) layers in
  reshape (ncols layers) (map cellfun (lockstep dA (length (hd [] flats)) flats)).
