(* C17/ProofsCombine.v — the dictionary scan of xrspatial.local.combine: ids are equal exactly
   for equal tuples, are numbered from 1 in first-occurrence order (restricted growth), and the
   key list (attrs['key']) inverts them. *)
Require Import Base.Prelude Base.XVal C17.Model C17.ProofsCell.
Open Scope Z_scope.

Definition nonan (t : list xv) : Prop := has_nan t = false.

Lemma tuple_eqb_true a : forall b, tuple_eqb a b = true -> a = b.
Proof.
  induction a as [|x a IH]; intros [|y b] H; simpl in H; try discriminate; auto.
  apply andb_true_iff in H as [H1 H2]. apply xeqb_eq in H1 as [-> _]. f_equal. now apply IH.
Qed.

Lemma tuple_eqb_refl a : nonan a -> tuple_eqb a a = true.
Proof.
  unfold nonan. intros H. apply has_nan_false in H. induction H as [|x a Hx Ha IH]; simpl; auto.
  rewrite IH, andb_true_r. apply xeqb_eq. auto.
Qed.

Lemma find_key_some t keys : forall i, find_key t keys = Some i ->
  0 <= i < lenZ keys /\ nthZ [] keys i = t.
Proof.
  induction keys as [|k keys IH]; intros i H; simpl in H; [discriminate|].
  destruct (tuple_eqb k t) eqn:E.
  - inversion H; subst. apply tuple_eqb_true in E. rewrite lenZ_cons. pose proof (lenZ_nonneg keys).
    split; [lia|]. now rewrite nthZ_cons_0.
  - destruct (find_key t keys) as [i'|]; [|discriminate]. inversion H; subst.
    destruct (IH i' eq_refl) as [Hr Hn]. rewrite lenZ_cons. split; [lia|].
    rewrite nthZ_cons_S by lia. now replace (i' + 1 - 1) with i' by lia.
Qed.

Lemma find_key_none t keys : Forall nonan keys -> find_key t keys = None -> ~ In t keys.
Proof.
  induction keys as [|k keys IH]; intros Hk H; simpl in *; [tauto|].
  inversion Hk as [|? ? Hk0 Hk']; subst.
  destruct (tuple_eqb k t) eqn:E; [discriminate|].
  destruct (find_key t keys) eqn:E'; [discriminate|].
  intros [->|Hin].
  - rewrite tuple_eqb_refl in E by assumption. discriminate.
  - now apply IH.
Qed.

Lemma nthZ_app_l {A} (d : A) l l' i : 0 <= i < lenZ l -> nthZ d (l ++ l') i = nthZ d l i.
Proof.
  unfold nthZ, lenZ. intros H. destruct (i <? 0); [reflexivity|]. apply app_nth1. lia.
Qed.

Lemma nthZ_app_last {A} (d : A) l x : nthZ d (l ++ [x]) (lenZ l) = x.
Proof.
  unfold nthZ, lenZ. destruct (Z.of_nat (length l) <? 0) eqn:E; [lia|].
  rewrite Nat2Z.id, app_nth2, Nat.sub_diag by lia. reflexivity.
Qed.

Lemma NoDup_snoc {A} (l : list A) x : NoDup l -> ~ In x l -> NoDup (l ++ [x]).
Proof.
  induction 1 as [|y l Hy Hl IH]; simpl; intros Hx.
  - constructor; [intros []|constructor].
  - constructor.
    + rewrite in_app_iff. simpl. intros [H|[H|[]]]; [tauto|]. subst. tauto.
    + apply IH. tauto.
Qed.

(* what the scan guarantees, started from an arbitrary dictionary keys0 *)
Lemma combine_scan_spec ts : forall keys0 ids keys,
  combine_scan ts keys0 = (ids, keys) -> NoDup keys0 -> Forall nonan keys0 ->
  length ids = length ts /\
  (exists ext, keys = keys0 ++ ext) /\ NoDup keys /\ Forall nonan keys /\
  (forall i, (i < length ts)%nat -> has_nan (nth i ts []) = true -> nth i ids XNaN = XNaN) /\
  (forall i, (i < length ts)%nat -> has_nan (nth i ts []) = false ->
     exists k, nth i ids XNaN = XFin (k + 1) /\ 0 <= k < lenZ keys /\ nthZ [] keys k = nth i ts [] /\
               (lenZ keys0 <= k -> k = lenZ keys0 \/ exists j, (j < i)%nat /\ nth j ids XNaN = XFin k)) /\
  (forall k, lenZ keys0 <= k < lenZ keys -> exists i, (i < length ts)%nat /\ nth i ids XNaN = XFin (k + 1)).
Proof.
  induction ts as [|t ts IH]; intros keys0 ids keys H Hnd Hnn; simpl in H.
  - inversion H; subst. split; [reflexivity|]. split; [exists []; now rewrite app_nil_r|].
    split; [assumption|]. split; [assumption|]. repeat split; intros; simpl in *; lia.
  - destruct (has_nan t) eqn:Et.
    + (* NaN cell *)
      destruct (combine_scan ts keys0) as [ids' ks'] eqn:Es. inversion H; subst.
      destruct (IH keys0 ids' keys Es Hnd Hnn) as (Hlen & Hext & Hnd' & Hnn' & Hnan & Hid & Hused).
      split; [simpl; congruence|]. split; [assumption|]. split; [assumption|]. split; [assumption|].
      split; [|split].
      * intros [|i] Hi Hn; simpl in *; [reflexivity|]. apply Hnan; [lia|assumption].
      * intros [|i] Hi Hn; simpl in *; [congruence|].
        destruct (Hid i ltac:(lia) Hn) as (k & Hk1 & Hk2 & Hk3 & Hk4). exists k. repeat split; auto; try lia.
        intros Hge. destruct (Hk4 Hge) as [->|(j & Hj & Hjv)]; [now left|right]. exists (S j). split; [lia|exact Hjv].
      * intros k Hk. destruct (Hused k Hk) as (i & Hi & Hiv). exists (S i). split; [simpl; lia|exact Hiv].
    + destruct (find_key t keys0) as [i0|] eqn:Ef.
      * (* already in the dictionary *)
        destruct (combine_scan ts keys0) as [ids' ks'] eqn:Es. inversion H; subst.
        destruct (IH keys0 ids' keys Es Hnd Hnn) as (Hlen & Hext & Hnd' & Hnn' & Hnan & Hid & Hused).
        destruct (find_key_some _ _ _ Ef) as (Hi0 & Hi0v).
        split; [simpl; congruence|]. split; [assumption|]. split; [assumption|]. split; [assumption|].
        split; [|split].
        -- intros [|i] Hi Hn; simpl in *; [congruence|]. apply Hnan; [lia|assumption].
        -- intros [|i] Hi Hn; simpl in *.
           ++ exists i0. destruct Hext as (ext & ->). rewrite lenZ_app. pose proof (lenZ_nonneg ext).
              split; [reflexivity|]. split; [lia|]. split; [now rewrite nthZ_app_l by lia|]. intros; lia.
           ++ destruct (Hid i ltac:(lia) Hn) as (k & Hk1 & Hk2 & Hk3 & Hk4). exists k. repeat split; auto; try lia.
              intros Hge. destruct (Hk4 Hge) as [->|(j & Hj & Hjv)]; [now left|right]. exists (S j). split; [lia|exact Hjv].
        -- intros k Hk. destruct (Hused k Hk) as (i & Hi & Hiv). exists (S i). split; [simpl; lia|exact Hiv].
      * (* a new tuple: gets id len(keys0) + 1 *)
        destruct (combine_scan ts (keys0 ++ [t])) as [ids' ks'] eqn:Es. inversion H; subst.
        assert (Hnd1 : NoDup (keys0 ++ [t])).
        { apply NoDup_snoc; [exact Hnd|]. now apply find_key_none. }
        assert (Hnn1 : Forall nonan (keys0 ++ [t])).
        { apply Forall_app. split; [assumption|]. constructor; [exact Et|constructor]. }
        destruct (IH (keys0 ++ [t]) ids' keys Es Hnd1 Hnn1) as (Hlen & Hext & Hnd' & Hnn' & Hnan & Hid & Hused).
        rewrite lenZ_app in Hid, Hused. change (lenZ [t]) with 1 in Hid, Hused.
        destruct Hext as (ext & Hext).
        split; [simpl; congruence|]. split; [exists ([t] ++ ext); now rewrite app_assoc|].
        split; [assumption|]. split; [assumption|]. split; [|split].
        -- intros [|i] Hi Hn; simpl in *; [congruence|]. apply Hnan; [lia|assumption].
        -- intros [|i] Hi Hn; simpl in *.
           ++ exists (lenZ keys0). subst keys. rewrite !lenZ_app. change (lenZ [t]) with 1.
              pose proof (lenZ_nonneg ext). pose proof (lenZ_nonneg keys0).
              split; [reflexivity|]. split; [lia|]. split.
              ** rewrite nthZ_app_l by (rewrite lenZ_app; change (lenZ [t]) with 1; lia). apply nthZ_app_last.
              ** intros _. now left.
           ++ destruct (Hid i ltac:(lia) Hn) as (k & Hk1 & Hk2 & Hk3 & Hk4). exists k. repeat split; auto; try lia.
              intros Hge. destruct (Z.eq_dec k (lenZ keys0)) as [->|Hne]; [now left|right].
              destruct (Hk4 ltac:(lia)) as [->|(j & Hj & Hjv)].
              ** exists O. split; [lia|reflexivity].
              ** exists (S j). split; [lia|exact Hjv].
        -- intros k Hk. destruct (Z.eq_dec k (lenZ keys0)) as [->|Hne].
           ++ exists O. split; [simpl; lia|reflexivity].
           ++ destruct (Hused k ltac:(lia)) as (i & Hi & Hiv). exists (S i). split; [simpl; lia|exact Hiv].
Qed.

Lemma NoDup_nthZ_inj {A} (d : A) l i j :
  NoDup l -> 0 <= i < lenZ l -> 0 <= j < lenZ l -> nthZ d l i = nthZ d l j -> i = j.
Proof.
  unfold nthZ, lenZ. intros Hnd Hi Hj H.
  destruct (i <? 0) eqn:Ei; [lia|]. destruct (j <? 0) eqn:Ej; [lia|].
  rewrite NoDup_nth in Hnd. specialize (Hnd (Z.to_nat i) (Z.to_nat j) ltac:(lia) ltac:(lia) H). lia.
Qed.

(* the statement for a whole scan (started with the empty dictionary) *)
Theorem combine_spec ts ids keys :
  combine_scan ts [] = (ids, keys) ->
  length ids = length ts /\ NoDup keys /\ Forall nonan keys /\
  (* NaN in any layer -> NaN *)
  (forall i, (i < length ts)%nat -> has_nan (nth i ts []) = true -> nth i ids XNaN = XNaN) /\
  (* ids are positive integers and attrs['key'] maps the id back to the cell's tuple *)
  (forall i, (i < length ts)%nat -> has_nan (nth i ts []) = false ->
     exists m, nth i ids XNaN = XFin m /\ 1 <= m <= lenZ keys /\ nthZ [] keys (m - 1) = nth i ts []) /\
  (* same id exactly for equal tuples *)
  (forall i j, (i < length ts)%nat -> (j < length ts)%nat ->
     has_nan (nth i ts []) = false -> has_nan (nth j ts []) = false ->
     (nth i ids XNaN = nth j ids XNaN <-> nth i ts [] = nth j ts [])) /\
  (* numbered from 1 in first-occurrence order: id 1 or the previous id occurred earlier *)
  (forall i m, (i < length ts)%nat -> nth i ids XNaN = XFin m -> 1 < m ->
     exists j, (j < i)%nat /\ nth j ids XNaN = XFin (m - 1)) /\
  (* every key belongs to some cell *)
  (forall m, 1 <= m <= lenZ keys -> exists i, (i < length ts)%nat /\ nth i ids XNaN = XFin m).
Proof.
  intros H.
  destruct (combine_scan_spec ts [] ids keys H (NoDup_nil _) (Forall_nil _))
    as (Hlen & _ & Hnd & Hnn & Hnan & Hid & Hused).
  change (lenZ (@nil (list xv))) with 0 in *.
  split; [assumption|]. split; [assumption|]. split; [assumption|]. split; [assumption|].
  split; [|split; [|split]].
  - intros i Hi Hn. destruct (Hid i Hi Hn) as (k & Hk1 & Hk2 & Hk3 & _). exists (k + 1).
    split; [assumption|]. split; [lia|]. now replace (k + 1 - 1) with k by lia.
  - intros i j Hi Hj Hni Hnj.
    destruct (Hid i Hi Hni) as (k & Hk1 & Hk2 & Hk3 & _).
    destruct (Hid j Hj Hnj) as (k' & Hk1' & Hk2' & Hk3' & _).
    rewrite Hk1, Hk1'. split.
    + intros E. inversion E. assert (k = k') by lia. subst k'. congruence.
    + intros E. rewrite <- Hk3, <- Hk3' in E.
      apply NoDup_nthZ_inj in E; auto. now subst.
  - intros i m Hi Hm Hgt.
    destruct (has_nan (nth i ts [])) eqn:En.
    + rewrite (Hnan i Hi En) in Hm. discriminate.
    + destruct (Hid i Hi En) as (k & Hk1 & Hk2 & Hk3 & Hk4). rewrite Hk1 in Hm. inversion Hm; subst m.
      destruct (Hk4 ltac:(lia)) as [->|(j & Hj & Hjv)]; [lia|].
      exists j. split; [exact Hj|]. now replace (k + 1 - 1) with k by lia.
  - intros m Hm. destruct (Hused (m - 1) ltac:(lia)) as (i & Hi & Hiv). exists i. split; [exact Hi|].
    now replace (m - 1 + 1) with m in Hiv by lia.
Qed.

(* ---- combine on a raster: scan of the row-major tuples, reshaped ---------- *)
Require Import C17.ProofsGlue.

Theorem combine_raster_spec (r c : nat) layers ids keys :
  (0 < r)%nat -> (0 < c)%nat -> layers <> [] -> Forall (rect r c) layers ->
  combine_scan (concat (grid r c (tuple_at XNaN layers))) [] = (ids, keys) ->
  combine_raster layers = (grid r c (fun y x => nth (y * c + x) ids XNaN), keys) /\
  length ids = (r * c)%nat /\
  (forall y x, (y < r)%nat -> (x < c)%nat ->
     nth (y * c + x) (concat (grid r c (tuple_at XNaN layers))) [] = tuple_at XNaN layers y x).
Proof.
  intros Hr Hc Hne Hrect Hs.
  pose proof (grid_rect r c (tuple_at XNaN layers)) as HG.
  destruct (combine_spec _ _ _ Hs) as (Hlen & _).
  rewrite (concat_rect_length r c _ HG) in Hlen.
  split; [|split].
  - unfold combine_raster. rewrite (iter_list_spec XNaN r c layers) by assumption. rewrite Hs.
    rewrite (ncols_rect r c layers) by assumption. f_equal.
    rewrite (flat_eq_grid XNaN r c (fun y x => nth (y * c + x) ids XNaN) ids) at 1; auto.
    apply reshape_concat_rect with (r := r); auto. apply grid_rect.
  - exact Hlen.
  - intros y x Hy Hx. rewrite (nth_concat_rect [] r c _ y x HG) by assumption. now apply cell_grid.
Qed.
