(* C03/ProofsXtab.v — Dask crosstab of ANY partition into blocks = NumPy crosstab of the whole. *)
Require Import Base.Prelude Base.XVal.
Require Import C03.GeneratedC02Model C03.GeneratedC02Sorting C03.GeneratedC02Proofs C03.GeneratedC02Reducers.
Require Import C03.GeneratedC04Model C03.GeneratedC04Proofs C03.Model C03.Proofs.
Open Scope Z_scope.

Section DaskXtab.
  Context {A : Type}.
  Variables key value : A -> xv.
  Variable nodata : xv.

  Lemma tot_app (c1 c2 : list A) u :
    tot key value nodata (c1 ++ c2) u = tot key value nodata c1 u + tot key value nodata c2 u.
  Proof. unfold tot, zvals. rewrite filter_app, map_app, filter_app, lenZ_app. reflexivity. Qed.
  Lemma cnt_app (c1 c2 : list A) u c :
    cnt key value nodata (c1 ++ c2) u c = cnt key value nodata c1 u c + cnt key value nodata c2 u c.
  Proof. unfold cnt, zvals. rewrite filter_app, map_app, !filter_app, lenZ_app. reflexivity. Qed.

  Definition row_of (cids : list xv) (cells : list A) (u : xv) : Z * list Z :=
    (tot key value nodata cells u, map (cnt key value nodata cells u) cids).

  Lemma add_rows_app cids c1 c2 u :
    add_rows (row_of cids c1 u) (row_of cids c2 u) = row_of cids (c1 ++ c2) u.
  Proof.
    unfold add_rows, row_of. cbn [fst snd]. rewrite zipw_map, tot_app. f_equal.
    apply map_ext. intros c. symmetry. apply cnt_app.
  Qed.

  Lemma fold_rows cids u : forall (bs : list (list A)) acc,
    fold_left add_rows (map (fun b => row_of cids b u) bs) (row_of cids acc u) = row_of cids (acc ++ concat bs) u.
  Proof.
    induction bs as [|b bs IH]; intros acc; cbn [map fold_left concat].
    - rewrite app_nil_r. reflexivity.
    - rewrite add_rows_app, IH, app_assoc. reflexivity.
  Qed.

  Lemma fold_tabs {B} (g : B -> xv -> Z * list Z) (zids : list xv) : forall (bs : list B) (h : xv -> Z * list Z),
    fold_left add_tabs (map (fun b => map (g b) zids) bs) (map h zids)
    = map (fun u => fold_left add_rows (map (fun b => g b u) bs) (h u)) zids.
  Proof.
    induction bs as [|b bs IH]; intros h; cbn [map fold_left]; [reflexivity|].
    unfold add_tabs at 2. rewrite zipw_map. apply (IH (fun u => add_rows (h u) (g b u))).
  Qed.

  Lemma block_ctab_spec (blocks : list (list A)) zone_ids cat_ids b :
    ids_ok zone_ids -> In b blocks ->
    let cells := concat blocks in
    let uz := unique_zones key cells in
    let ucats := unique_cats nodata (map value cells) in
    let cids := select_cats ucats cat_ids in
    let zids := select_ids uz zone_ids in
    block_ctab key value uz zids ucats cids nodata b = map (row_of cids b) zids.
  Proof.
    intros Hids Hb cells uz ucats cids zids.
    destruct (unique_zones_ok key cells) as (Ha & Hf & Hc).
    destruct (unique_cats_spec nodata (map value cells)) as (Ca & Cf & Ci).
    destruct (select_ids_spec uz zone_ids Ha Hf Hids) as (Sa & Sf & Si).
    unfold block_ctab.
    rewrite (zone_loop_2d_spec key value nodata b uz zids ucats cids); auto.
    - rewrite map_map. cbn [fst snd]. apply map_ext. intros u. unfold row_of. f_equal.
      apply map_ext_in. intros c Hcin.
      destruct (select_cats_In ucats cat_ids c (all_fin_no_nan _ Cf) Hcin) as (H1 & H2 & H3).
      apply lookup_map; auto. apply filter_In. split; auto.
    - apply block_uz_ok; auto.
    - intros u Hu. apply Si in Hu. tauto.
    - apply all_fin_no_nan; auto.
    - intros a Hin Hv. apply Ci. split; auto. apply in_map. apply in_concat. exists b; auto.
  Qed.

  Theorem dask_crosstab_eq_numpy (blocks : list (list A)) zone_ids cat_ids :
    ids_ok zone_ids -> blocks <> [] ->
    dask_crosstab key value blocks zone_ids cat_ids nodata
    = crosstab_2d key value (concat blocks) zone_ids cat_ids nodata.
  Proof.
    intros Hids Hne. rewrite (crosstab_2d_spec key value nodata (concat blocks) zone_ids cat_ids Hids).
    unfold dask_crosstab.
    set (cells := concat blocks).
    set (uz := unique_zones key cells).
    set (ucats := unique_cats nodata (map value cells)).
    set (cids := select_cats ucats cat_ids).
    set (zids := select_ids uz zone_ids).
    assert (Hmap : map (block_ctab key value uz zids ucats cids nodata) blocks
                   = map (fun b => map (row_of cids b) zids) blocks).
    { apply map_ext_in. intros b Hb. apply (block_ctab_spec blocks zone_ids cat_ids b Hids Hb). }
    rewrite Hmap. destruct blocks as [|b0 bs]; [congruence|]. cbn [map].
    rewrite (fold_tabs (row_of cids) zids bs (row_of cids b0)).
    rewrite combine_map_self. apply map_ext. intros u. f_equal.
    rewrite fold_rows. reflexivity.
  Qed.
End DaskXtab.

(* ---- the NumPy tables do not depend on the order of the cells, so "the whole
   raster" may be taken in row-major order while the blocks are taken block by block ---- *)
Lemma ascending_ext (L1 L2 : list xv) :
  ascending L1 -> ascending L2 -> no_nan L1 -> no_nan L2 -> (forall x, In x L1 <-> In x L2) -> L1 = L2.
Proof.
  intros A1 A2 N1 N2 I.
  transitivity (filter (fun u => memx u L1) L2).
  - symmetry. apply filter_mem_ascending; auto. intros x Hx; apply I; auto.
  - apply filter_all. rewrite Forall_forall. intros x Hx.
    apply memx_In_nn; [|apply I; auto]. unfold no_nan in N2. rewrite Forall_forall in N2. auto.
Qed.

Section PermInvariance.
  Context {A : Type}.
  Variables key value : A -> xv.

  Lemma unique_zones_perm (c1 c2 : list A) : Permutation c1 c2 -> unique_zones key c1 = unique_zones key c2.
  Proof.
    intros P.
    destruct (unique_zones_ok key c1) as (A1 & F1 & _). destruct (unique_zones_ok key c2) as (A2 & F2 & _).
    apply ascending_ext; auto using all_fin_no_nan.
    intros x. rewrite !unique_zones_In. split; intros [Hf (a & Hin & E)]; split; auto; exists a; split; auto.
    - eapply Permutation_in; eauto.
    - eapply Permutation_in; [apply Permutation_sym|]; eauto.
  Qed.

  Lemma unique_cats_perm nodata (c1 c2 : list A) :
    Permutation c1 c2 -> unique_cats nodata (map value c1) = unique_cats nodata (map value c2).
  Proof.
    intros P.
    destruct (unique_cats_spec nodata (map value c1)) as (A1 & F1 & I1).
    destruct (unique_cats_spec nodata (map value c2)) as (A2 & F2 & I2).
    apply ascending_ext; auto using all_fin_no_nan.
    intros x. rewrite I1, I2. split; intros [Hin Hv]; split; auto.
    - eapply Permutation_in; [apply Permutation_map|]; eauto.
    - eapply Permutation_in; [apply Permutation_map, Permutation_sym|]; eauto.
  Qed.

  Theorem stats_numpy_perm {T} (f : list Z -> T) (c1 c2 : list A) zone_ids nodata :
    (forall l l', Permutation l l' -> f l = f l') -> ids_ok zone_ids -> Permutation c1 c2 ->
    stats_numpy key value f c1 zone_ids nodata = stats_numpy key value f c2 zone_ids nodata.
  Proof.
    intros Hp Hok P. rewrite !(stats_numpy_spec key value f Hp _ zone_ids nodata Hok).
    rewrite (unique_zones_perm c1 c2 P). apply map_ext. intros u. f_equal.
    change (reduce f nodata (map value (filter (keq key u) c1)) = reduce f nodata (map value (filter (keq key u) c2))).
    apply reduce_perm; auto. apply Permutation_map, Permutation_filter', P.
  Qed.

  Theorem crosstab_2d_perm (c1 c2 : list A) zone_ids cat_ids nodata :
    ids_ok zone_ids -> Permutation c1 c2 ->
    crosstab_2d key value c1 zone_ids cat_ids nodata = crosstab_2d key value c2 zone_ids cat_ids nodata.
  Proof.
    intros Hok P. rewrite !(crosstab_2d_spec key value nodata _ zone_ids cat_ids Hok).
    rewrite (unique_zones_perm c1 c2 P), (unique_cats_perm nodata c1 c2 P).
    assert (PZ : forall u, Permutation (zvals key value nodata c1 u) (zvals key value nodata c2 u)).
    { intros u. unfold zvals. apply Permutation_filter', Permutation_map, Permutation_filter', P. }
    apply map_ext. intros u. f_equal. f_equal.
    - unfold tot, lenZ. rewrite (Permutation_length (PZ u)). reflexivity.
    - apply map_ext. intros c. unfold cnt. apply perm_filter_len, PZ.
  Qed.
End PermInvariance.
