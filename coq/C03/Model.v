(* C03/Model.v — executable model of the Dask paths of xrspatial/zonal.py:
   _stats_dask_numpy (per-block partial aggregates of _DASK_BLOCK_STATS computed by
   the C02 model of _sort_and_stride/_calc_stats with the GLOBAL unique_zones,
   stacked, combined over the block axis by _DASK_STATS, then _dask_mean/_dask_var)
   and _crosstab_dask_numpy (_single_chunk_crosstab per block, dicts summed key-wise
   in _crosstab_df_dask).  A chunking is ANY list of blocks (lists of cells).
   Definitions only.  Follows the source AFTER fixes/C03-empty-zone-nan.diff (and the
   C02/C04 patches); the unpatched nansum is kept as [nansum_orig]. *)
Require Import Base.Prelude Base.XVal C03.GeneratedC02Model C03.GeneratedC04Model.
From Coq Require Import QArith.
Open Scope Z_scope.

Definition zipw {X Y W} (h : X -> Y -> W) (l1 : list X) (l2 : list Y) : list W :=
  map (fun p => h (fst p) (snd p)) (combine l1 l2).

(* NaN-skipping binary combiner: np.nanmax / np.nanmin / (patched) nansum of two entries *)
Definition omerge (op : Z -> Z -> Z) (a b : option Z) : option Z :=
  match a, b with
  | None, x => x
  | x, None => x
  | Some x, Some y => Some (op x y)
  end.
(* np.nan<op>(stacked, axis=0): an all-NaN column stays NaN *)
Definition combine_blocks (op : Z -> Z -> Z) (n : nat) (partials : list (list (option Z))) : list (option Z) :=
  fold_right (zipw (omerge op)) (repeat None n) partials.
(* the unpatched np.nansum(axis=0): an all-NaN column becomes 0 *)
Definition nansum_orig (n : nat) (partials : list (list (option Z))) : list (option Z) :=
  map (fun o => match o with None => Some 0 | x => x end) (combine_blocks Z.add n partials).

(* _dask_mean(sums, counts) = sums / counts *)
Definition dask_mean (s n : option Z) : option Q :=
  match s, n with Some s, Some n => Some (Qmake s (Z.to_pos n)) | _, _ => None end.
(* _dask_var(sum_squares, squared_sum, n) = (sum_squares - squared_sum/n) / n *)
Definition dvar (ss s n : Z) : Q := ((inject_Z ss - inject_Z (s * s) / inject_Z n) / inject_Z n)%Q.
Definition dask_var (ss s n : option Z) : option Q :=
  match ss, s, n with Some ss, Some s, Some n => Some (dvar ss s n) | _, _, _ => None end.

Record drow : Type := { d_max : option Z; d_min : option Z; d_sum : option Z; d_count : option Z;
                        d_sumsq : option Z; d_mean : option Q; d_var : option Q }.

Section DaskStats.
  Context {A : Type}.
  Variables key value : A -> xv.

  (* _single_stats_func on one block: _sort_and_stride(block) + _calc_stats with the global unique_zones *)
  Definition block_partial (f : list Z -> Z) (uz ids : list xv) (nodata : xv) (block : list A) : list (option Z) :=
    let '(kept, breaks) := sort_and_stride key block uz in
    calc_stats f nodata (map value kept) breaks uz ids.

  Definition raw_ids (uz : list xv) (zone_ids : option (list xv)) : list xv :=
    match zone_ids with None => uz | Some l => l end.       (* passed on as given *)

  (* one basis statistic: per-block partials, stacked, combined, zipped with the zone column,
     rows filtered by  `row['zone'] in zone_ids`  when zone_ids is given *)
  Definition dask_col (op : Z -> Z -> Z) (f : list Z -> Z) (blocks : list (list A))
             (zone_ids : option (list xv)) (nodata : xv) : list (xv * option Z) :=
    let uz := unique_zones key (concat blocks) in
    let ids := raw_ids uz zone_ids in
    let col := combine_blocks op (length uz) (map (block_partial f uz ids nodata) blocks) in
    filter (fun r => memx (fst r) ids) (combine uz col).

  Definition dask_stats (blocks : list (list A)) (zone_ids : option (list xv)) (nodata : xv) : list (xv * drow) :=
    let uz := unique_zones key (concat blocks) in
    let ids := raw_ids uz zone_ids in
    let comb op f := combine_blocks op (length uz) (map (block_partial f uz ids nodata) blocks) in
    let maxs := comb Z.max f_max in
    let mins := comb Z.min f_min in
    let sums := comb Z.add f_sum in
    let counts := comb Z.add f_count in
    let sumsqs := comb Z.add f_sumsq in
    let rows := map (fun i => (nth i uz XNaN,
                       {| d_max := nth i maxs None; d_min := nth i mins None; d_sum := nth i sums None;
                          d_count := nth i counts None; d_sumsq := nth i sumsqs None;
                          d_mean := dask_mean (nth i sums None) (nth i counts None);
                          d_var := dask_var (nth i sumsqs None) (nth i sums None) (nth i counts None) |}))
                    (seq 0 (length uz)) in
    filter (fun r => memx (fst r) ids) rows.

  (* the unpatched sum/count columns, for the refutation witness *)
  Definition dask_col_orig (f : list Z -> Z) (blocks : list (list A)) (zone_ids : option (list xv)) (nodata : xv)
    : list (xv * option Z) :=
    let uz := unique_zones key (concat blocks) in
    let ids := raw_ids uz zone_ids in
    let col := nansum_orig (length uz) (map (block_partial f uz ids nodata) blocks) in
    filter (fun r => memx (fst r) ids) (combine uz col).

  (* ---- _crosstab_dask_numpy, 2-D ---- *)
  (* _single_chunk_crosstab: per selected zone (total, [count per selected cat]) *)
  Definition block_ctab (uz zids ucats cids : list xv) (nodata : xv) (block : list A) : list (Z * list Z) :=
    map (fun tc => (fst tc, map (fun c => lookup 0 c (snd tc)) cids))
        (zone_loop_2d key value cat_counts block uz zids ucats cids nodata).
  (* result[k] += crosstab_by_block[i][k]  for every key k (total and each category), element-wise over zones *)
  Definition add_rows (r1 r2 : Z * list Z) : Z * list Z := (fst r1 + fst r2, zipw Z.add (snd r1) (snd r2)).
  Definition add_tabs (t1 t2 : list (Z * list Z)) : list (Z * list Z) := zipw add_rows t1 t2.
  Definition dask_crosstab (blocks : list (list A)) (zone_ids cat_ids : option (list xv)) (nodata : xv) : ctab :=
    let cells := concat blocks in
    let uz := unique_zones key cells in
    let ucats := unique_cats nodata (map value cells) in
    let cids := select_cats ucats cat_ids in
    let zids := select_ids uz zone_ids in
    match map (block_ctab uz zids ucats cids nodata) blocks with
    | [] => []
    | t :: ts => combine zids (fold_left add_tabs ts t)
    end.
End DaskStats.

Definition dstats := dask_stats (A := cell) fst snd.
Definition dsum_orig := dask_col_orig (A := cell) fst snd f_sum.
Definition dxtab := dask_crosstab (A := cell) fst snd.
