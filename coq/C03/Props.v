(* C03/Props.v — the property theorems claimed for C03 (zonal tables do not depend
   on Dask chunking), nothing else.  A chunking is ANY list of blocks whose
   concatenation is a permutation of the raster's cells (zones and values paired
   cell-wise: after validate_arrays' / crosstab's rechunk the blocks of `values`
   are cut exactly like the blocks of `zones`). *)
Require Import Base.Prelude Base.XVal.
Require Import C03.GeneratedC02Model C03.GeneratedC02Sorting C03.GeneratedC02Proofs C03.GeneratedC02Reducers.
Require Import C03.GeneratedC04Model C03.GeneratedC04Proofs C03.Model C03.Proofs C03.ProofsXtab.
From Coq Require Import QArith.
Open Scope Z_scope.

(* combine lemmas: max / min / sum / count / sum-of-squares of ANY list of parts,
   combined NaN-skipping (a part without valid cell contributes NaN = None), equal the
   statistic of the concatenation *)
Theorem C03_combine : forall parts : list (list Z),
  fold_right (omerge Z.max) None (map (ostat f_max) parts) = ostat f_max (concat parts) /\
  fold_right (omerge Z.min) None (map (ostat f_min) parts) = ostat f_min (concat parts) /\
  fold_right (omerge Z.add) None (map (ostat f_sum) parts) = ostat f_sum (concat parts) /\
  fold_right (omerge Z.add) None (map (ostat f_count) parts) = ostat f_count (concat parts) /\
  fold_right (omerge Z.add) None (map (ostat f_sumsq) parts) = ostat f_sumsq (concat parts).
Proof.
  intros parts. repeat split; apply ostat_concat.
  - exact hom_max. - exact hom_min. - exact hom_sum. - exact hom_count. - exact hom_sumsq.
Qed.
Print Assumptions C03_combine.

(* variance identity: the Dask formula (sum_squares - sum^2/n)/n is the mean squared
   deviation from the mean (the NumPy z.var()) *)
Theorem C03_dask_var_eq : forall l : list Z, 0 < lenZ l ->
  (dvar (f_sumsq l) (f_sum l) (lenZ l) == sq_dev_sum (f_mean l) l / inject_Z (lenZ l))%Q.
Proof. intros l Hn. rewrite dvar_eq_f_var by exact Hn. apply f_var_is_mean_sq_dev; exact Hn. Qed.
Print Assumptions C03_dask_var_eq.

Definition oQeq (a b : option Q) : Prop :=
  match a, b with Some x, Some y => (x == y)%Q | None, None => True | _, _ => False end.

(* THE STATS THEOREM: for every raster `cells`, every chunking `blocks` of it, every
   NaN-free zone_ids and nodata, the computed Dask table has the same rows (zone ids,
   ascending) as the NumPy table and equal max / min / sum / count / mean columns
   (exactly), and an equal var column (as rationals); a selected zone without valid
   cell is NaN in every column on both sides (after fixes/C03-empty-zone-nan.diff). *)
Theorem C03_dask_stats_eq_numpy : forall (A : Type) (key value : A -> xv)
    (cells : list A) (blocks : list (list A)) (zone_ids : option (list xv)) (nodata : xv),
  Permutation (concat blocks) cells -> ids_ok zone_ids ->
  let d := dask_stats key value blocks zone_ids nodata in
  map (fun r => (fst r, d_max (snd r))) d = stats_numpy key value f_max cells zone_ids nodata /\
  map (fun r => (fst r, d_min (snd r))) d = stats_numpy key value f_min cells zone_ids nodata /\
  map (fun r => (fst r, d_sum (snd r))) d = stats_numpy key value f_sum cells zone_ids nodata /\
  map (fun r => (fst r, d_count (snd r))) d = stats_numpy key value f_count cells zone_ids nodata /\
  map (fun r => (fst r, d_mean (snd r))) d = stats_numpy key value f_mean cells zone_ids nodata /\
  Forall2 (fun r n => fst r = fst n /\ oQeq (d_var (snd r)) (snd n)) d
          (stats_numpy key value f_var cells zone_ids nodata).
Proof.
  intros A key value cells blocks zone_ids nodata P Hok d.
  assert (Ed : d = map (fun u => (u, drow_spec (zone_vals key value nodata (concat blocks) u)))
                       (select_ids (unique_zones key (concat blocks)) zone_ids)).
  { apply dask_stats_spec; auto. }
  assert (N : forall T (f : list Z -> T), (forall l l', Permutation l l' -> f l = f l') ->
              stats_numpy key value f cells zone_ids nodata
              = map (fun u => (u, zone_stat key value f nodata (concat blocks) u))
                    (select_ids (unique_zones key (concat blocks)) zone_ids)).
  { intros T f Hp. rewrite <- (stats_numpy_perm key value f (concat blocks) cells zone_ids nodata Hp Hok P).
    apply stats_numpy_spec; auto. }
  rewrite Ed.
  rewrite (N _ f_max f_max_perm), (N _ f_min f_min_perm), (N _ f_sum f_sum_perm),
          (N _ f_count f_count_perm), (N _ f_mean f_mean_perm), (N _ f_var f_var_perm).
  rewrite !map_map. cbn [fst snd drow_spec d_max d_min d_sum d_count d_mean d_var].
  split; [|split; [|split; [|split; [|split]]]].
  - apply map_ext; intros u; f_equal; symmetry; apply zone_stat_ostat.
  - apply map_ext; intros u; f_equal; symmetry; apply zone_stat_ostat.
  - apply map_ext; intros u; f_equal; symmetry; apply zone_stat_ostat.
  - apply map_ext; intros u; f_equal; symmetry; apply zone_stat_ostat.
  - apply map_ext; intros u; f_equal. unfold zone_stat, ostat.
    destruct (zone_vals key value nodata (concat blocks) u); reflexivity.
  - clear Ed N. induction (select_ids (unique_zones key (concat blocks)) zone_ids) as [|u L IH];
      cbn [map]; constructor; auto.
    cbn [fst snd]. split; auto. unfold zone_stat, ostat.
    destruct (zone_vals key value nodata (concat blocks) u) as [|x l] eqn:E; simpl; auto.
    apply dvar_eq_f_var. rewrite lenZ_cons. pose proof (lenZ_nonneg l). lia.
Qed.
Print Assumptions C03_dask_stats_eq_numpy.

(* THE CROSSTAB THEOREM (2-D values, count; percentage is the same function of the
   table on both sides): for every raster, every chunking into >= 1 block, every
   zone/category selection, the summed per-block tables equal the NumPy table *)
Theorem C03_dask_crosstab_eq_numpy : forall (A : Type) (key value : A -> xv)
    (cells : list A) (blocks : list (list A)) (zone_ids cat_ids : option (list xv)) (nodata : xv),
  Permutation (concat blocks) cells -> ids_ok zone_ids -> blocks <> [] ->
  dask_crosstab key value blocks zone_ids cat_ids nodata = crosstab_2d key value cells zone_ids cat_ids nodata /\
  percentages (dask_crosstab key value blocks zone_ids cat_ids nodata)
  = percentages (crosstab_2d key value cells zone_ids cat_ids nodata).
Proof.
  intros A key value cells blocks zone_ids cat_ids nodata P Hok Hne.
  assert (E : dask_crosstab key value blocks zone_ids cat_ids nodata
              = crosstab_2d key value cells zone_ids cat_ids nodata).
  { rewrite (dask_crosstab_eq_numpy key value nodata blocks zone_ids cat_ids Hok Hne).
    apply crosstab_2d_perm; auto. }
  split; [exact E|]. rewrite E. reflexivity.
Qed.
Print Assumptions C03_dask_crosstab_eq_numpy.

(* ---- non-vacuity / regression witnesses ---- *)
(* zone 1 split over three blocks, absent from one; zone 2's only cells are NaN / nodata *)
Definition ex_blocks : list (list cell) :=
  [[(XFin 1, XFin 4); (XFin 2, XNaN); (XNaN, XFin 7)];
   [(XFin 3, XFin 5); (XFin 3, XFin (-2))];
   [(XFin 1, XFin 6); (XFin 2, XFin 9); (XFin 1, XFin 1); (XNInf, XFin 8)]].
Example C03_nonvacuous :
  map (fun r => (fst r, (d_count (snd r), d_sum (snd r), d_min (snd r), d_max (snd r), d_sumsq (snd r))))
      (dstats ex_blocks None (XFin 9))
  = [(XFin 1, (Some 3, Some 11, Some 1, Some 6, Some 53)); (XFin 2, (None, None, None, None, None));
     (XFin 3, (Some 2, Some 3, Some (-2), Some 5, Some 29))] /\
  map fst (dstats ex_blocks (Some [XFin 3; XFin 1; XFin 8]) (XFin 9)) = [XFin 1; XFin 3] /\
  dxtab ex_blocks (Some [XFin 3; XFin 1]) (Some [XFin 6; XFin 4]) (XFin 9)
  = [(XFin 1, (3, [1; 1])); (XFin 3, (2, [0; 0]))].
Proof. repeat split; vm_compute; reflexivity. Qed.

(* the unpatched np.nansum combiner: a selected zone without any valid cell gets sum 0
   where the NumPy backend gives NaN (fixed by fixes/C03-empty-zone-nan.diff) *)
Example C03_dask_empty_zone_refuted :
  dsum_orig ex_blocks None (XFin 9) = [(XFin 1, Some 11); (XFin 2, Some 0); (XFin 3, Some 3)] /\
  stats_df f_sum (concat ex_blocks) None (XFin 9) = [(XFin 1, Some 11); (XFin 2, None); (XFin 3, Some 3)].
Proof. split; vm_compute; reflexivity. Qed.
