Require Import Extraction ExtrOcamlBasic.
Require Import Base.Prelude Base.XVal C03.GeneratedC02Model C03.GeneratedC04Model C03.Model.
Extraction Language OCaml.
Extraction "model.ml" dstats dsum_orig dxtab percentages.
