(* C03/Proofs.v — combine lemmas and: Dask stats of ANY partition into blocks = NumPy stats of the whole. *)
Require Import Base.Prelude Base.XVal.
Require Import C03.GeneratedC02Model C03.GeneratedC02Sorting C03.GeneratedC02Proofs C03.GeneratedC02Reducers.
Require Import C03.GeneratedC04Model C03.GeneratedC04Proofs C03.Model.
From Coq Require Import QArith Qfield.
Open Scope Z_scope.

(* ---- combine lemmas: statistic of a concatenation from the statistics of the parts ---- *)
Definition ostat (f : list Z -> Z) (l : list Z) : option Z := match l with [] => None | _ => Some (f l) end.

Lemma omax_app l1 l2 : omax (l1 ++ l2) = omerge Z.max (omax l1) (omax l2).
Proof.
  induction l1 as [|x l1 IH]; simpl.
  - destruct (omax l2); reflexivity.
  - rewrite IH. destruct (omax l1), (omax l2); simpl; f_equal; lia.
Qed.
Lemma omin_app l1 l2 : omin (l1 ++ l2) = omerge Z.min (omin l1) (omin l2).
Proof.
  induction l1 as [|x l1 IH]; simpl.
  - destruct (omin l2); reflexivity.
  - rewrite IH. destruct (omin l1), (omin l2); simpl; f_equal; lia.
Qed.
Lemma f_sum_app l1 l2 : f_sum (l1 ++ l2) = f_sum l1 + f_sum l2.
Proof. unfold f_sum. induction l1; simpl; lia. Qed.
Lemma f_count_app l1 l2 : f_count (l1 ++ l2) = f_count l1 + f_count l2.
Proof. unfold f_count. apply lenZ_app. Qed.
Lemma f_sumsq_app l1 l2 : f_sumsq (l1 ++ l2) = f_sumsq l1 + f_sumsq l2.
Proof. unfold f_sumsq. rewrite map_app. apply f_sum_app. Qed.

(* f is a homomorphism from non-empty lists with ++ to (Z, op) *)
Definition hom (op : Z -> Z -> Z) (f : list Z -> Z) : Prop :=
  forall l1 l2, l1 <> [] -> l2 <> [] -> f (l1 ++ l2) = op (f l1) (f l2).

Lemma omax_f_max l : l <> [] -> omax l = Some (f_max l).
Proof. intros H. destruct (omax_nonempty l H) as (m & E). unfold f_max. rewrite E. reflexivity. Qed.
Lemma omin_f_min l : l <> [] -> omin l = Some (f_min l).
Proof. intros H. destruct (omin_nonempty l H) as (m & E). unfold f_min. rewrite E. reflexivity. Qed.

Lemma hom_max : hom Z.max f_max.
Proof.
  intros l1 l2 H1 H2. pose proof (omax_app l1 l2) as H.
  rewrite (omax_f_max l1 H1), (omax_f_max l2 H2), omax_f_max in H.
  - simpl in H. congruence.
  - destruct l1; [congruence|discriminate].
Qed.
Lemma hom_min : hom Z.min f_min.
Proof.
  intros l1 l2 H1 H2. pose proof (omin_app l1 l2) as H.
  rewrite (omin_f_min l1 H1), (omin_f_min l2 H2), omin_f_min in H.
  - simpl in H. congruence.
  - destruct l1; [congruence|discriminate].
Qed.
Lemma hom_sum : hom Z.add f_sum.
Proof. intros l1 l2 _ _. apply f_sum_app. Qed.
Lemma hom_count : hom Z.add f_count.
Proof. intros l1 l2 _ _. apply f_count_app. Qed.
Lemma hom_sumsq : hom Z.add f_sumsq.
Proof. intros l1 l2 _ _. apply f_sumsq_app. Qed.

Lemma ostat_app op f l1 l2 : hom op f -> ostat f (l1 ++ l2) = omerge op (ostat f l1) (ostat f l2).
Proof.
  intros H. destruct l1 as [|x l1]; [destruct l2; reflexivity|].
  destruct l2 as [|y l2].
  - rewrite app_nil_r. reflexivity.
  - simpl. f_equal. apply (H (x :: l1) (y :: l2)); discriminate.
Qed.

(* over ANY list of blocks: combining the per-block statistics gives the statistic of the whole *)
Lemma ostat_concat op f (parts : list (list Z)) : hom op f ->
  fold_right (omerge op) None (map (ostat f) parts) = ostat f (concat parts).
Proof.
  intros H. induction parts as [|p parts IH]; [reflexivity|].
  cbn [map fold_right concat]. rewrite IH. symmetry. apply ostat_app; auto.
Qed.

(* ---- element-wise combination over the block axis ---- *)
Lemma zipw_map {U X Y W} (h : X -> Y -> W) (a : U -> X) (b : U -> Y) L :
  zipw h (map a L) (map b L) = map (fun u => h (a u) (b u)) L.
Proof. unfold zipw. induction L; simpl; f_equal; auto. Qed.
Lemma repeat_map {U X} (x : X) (L : list U) : repeat x (length L) = map (fun _ => x) L.
Proof. induction L; simpl; f_equal; auto. Qed.

Lemma combine_blocks_map {B} op (g : B -> xv -> option Z) (uz : list xv) (blocks : list B) :
  combine_blocks op (length uz) (map (fun b => map (g b) uz) blocks)
  = map (fun u => fold_right (omerge op) None (map (fun b => g b u) blocks)) uz.
Proof.
  unfold combine_blocks. induction blocks as [|b blocks IH]; cbn [map fold_right].
  - apply repeat_map.
  - rewrite IH. apply zipw_map.
Qed.

(* ---- zone values distribute over the blocks ---- *)
Section DaskProofs.
  Context {A : Type}.
  Variables key value : A -> xv.

  Lemma zone_vals_app nodata (c1 c2 : list A) u :
    zone_vals key value nodata (c1 ++ c2) u = zone_vals key value nodata c1 u ++ zone_vals key value nodata c2 u.
  Proof.
    unfold zone_vals, valid_vals, fin_vals. rewrite filter_app, map_app, filter_app, flat_map_app. reflexivity.
  Qed.
  Lemma zone_vals_concat nodata (blocks : list (list A)) u :
    zone_vals key value nodata (concat blocks) u = concat (map (fun b => zone_vals key value nodata b u) blocks).
  Proof.
    induction blocks as [|b blocks IH]; [reflexivity|]. cbn [concat map]. rewrite zone_vals_app, IH. reflexivity.
  Qed.

  Lemma block_uz_ok (blocks : list (list A)) b :
    In b blocks -> uz_ok key b (unique_zones key (concat blocks)).
  Proof.
    intros Hb. destruct (unique_zones_ok key (concat blocks)) as (Ha & Hf & Hc).
    split; [exact Ha|]. split; [exact Hf|]. intros a Hin Hfin. apply Hc; auto.
    apply in_concat. exists b; auto.
  Qed.

  Lemma zone_stat_ostat (f : list Z -> Z) nodata cells u :
    zone_stat key value f nodata cells u = ostat f (zone_vals key value nodata cells u).
  Proof. unfold zone_stat, ostat. destruct (zone_vals key value nodata cells u); reflexivity. Qed.

  (* rows selected by the raw request list = the NumPy selection *)
  Lemma raw_filter_select uz zone_ids :
    ascending uz -> all_fin uz -> ids_ok zone_ids ->
    filter (fun u => memx u (raw_ids uz zone_ids)) uz = select_ids uz zone_ids.
  Proof.
    intros Ha Hf Hok. destruct (select_ids_spec uz zone_ids Ha Hf Hok) as (Sa & Sf & Si).
    rewrite <- (filter_mem_ascending uz (select_ids uz zone_ids) Ha Sa (all_fin_no_nan _ Sf) (all_fin_no_nan _ Hf)).
    2:{ intros x Hx. apply Si in Hx. tauto. }
    apply filter_ext_in. intros u Hu.
    assert (Hfu : xisfinite u = true). { unfold all_fin in Hf. rewrite Forall_forall in Hf. auto. }
    destruct zone_ids as [l|]; cbn [raw_ids].
    - destruct (memx u l) eqn:E1, (memx u (select_ids uz (Some l))) eqn:E2; auto.
      + apply memx_In_fin in E1; auto.
        assert (In u (select_ids uz (Some l))) by (apply Si; split; auto).
        apply (memx_In_fin u _ Hfu) in H. congruence.
      + apply memx_In_fin in E2; auto. apply Si in E2. destruct E2 as [_ E2]. simpl in E2.
        apply (memx_In_fin u _ Hfu) in E2. congruence.
    - reflexivity.
  Qed.

  (* THE column theorem: for any homomorphic, permutation-invariant block statistic *)
  Theorem dask_col_eq_numpy op (f : list Z -> Z) (blocks : list (list A)) zone_ids nodata :
    hom op f -> (forall l l', Permutation l l' -> f l = f l') -> ids_ok zone_ids ->
    dask_col key value op f blocks zone_ids nodata
    = stats_numpy key value f (concat blocks) zone_ids nodata.
  Proof.
    intros Hh Hp Hok. rewrite (stats_numpy_spec key value f Hp (concat blocks) zone_ids nodata Hok).
    unfold dask_col.
    destruct (unique_zones_ok key (concat blocks)) as (Ha & Hf & Hc).
    set (uz := unique_zones key (concat blocks)) in *.
    set (ids := raw_ids uz zone_ids).
    assert (Hpart : map (block_partial key value f uz ids nodata) blocks
                    = map (fun b => map (fun u => if memx u ids then zone_stat key value f nodata b u else None) uz) blocks).
    { apply map_ext_in. intros b Hb. unfold block_partial.
      destruct (sort_and_stride key b uz) as [kept breaks] eqn:E.
      apply (calc_stats_spec key value f Hp b uz ids nodata kept breaks); auto.
      apply block_uz_ok; auto. }
    rewrite Hpart.
    rewrite (combine_blocks_map op (fun b u => if memx u ids then zone_stat key value f nodata b u else None) uz blocks).
    rewrite combine_map_self.
    rewrite (filter_map_comm (fun u => (u, fold_right (omerge op) None
               (map (fun b => if memx u ids then zone_stat key value f nodata b u else None) blocks)))
             (fun r => memx (fst r) ids)).
    cbn [fst]. unfold ids. rewrite (raw_filter_select uz zone_ids Ha Hf Hok). fold ids.
    apply map_ext_in. intros u Hu. f_equal.
    assert (Hm : memx u ids = true).
    { rewrite <- (raw_filter_select uz zone_ids Ha Hf Hok) in Hu. apply filter_In in Hu. tauto. }
    rewrite Hm. rewrite zone_stat_ostat, zone_vals_concat, <- (ostat_concat op f _ Hh), map_map.
    f_equal. apply map_ext. intros b. apply zone_stat_ostat.
  Qed.
End DaskProofs.

(* ---- variance identity: the Dask formula equals the single-fraction variance ---- *)
Lemma dvar_eq_f_var l : 0 < lenZ l -> (dvar (f_sumsq l) (f_sum l) (lenZ l) == f_var l)%Q.
Proof.
  intros Hn. unfold dvar, f_var. rewrite Qmake_div by nia.
  unfold Z.sub. rewrite inject_Z_plus, inject_Z_opp, !inject_Z_mult.
  assert (Hq : ~ (inject_Z (lenZ l) == 0)%Q). { unfold Qeq, inject_Z; simpl. lia. }
  field. exact Hq.
Qed.

(* ---- the whole Dask table ---- *)
Definition drow_spec (l : list Z) : drow :=
  {| d_max := ostat f_max l; d_min := ostat f_min l; d_sum := ostat f_sum l; d_count := ostat f_count l;
     d_sumsq := ostat f_sumsq l;
     d_mean := dask_mean (ostat f_sum l) (ostat f_count l);
     d_var := dask_var (ostat f_sumsq l) (ostat f_sum l) (ostat f_count l) |}.

Lemma seq_map_nth {U W} (d : U) (h : U -> W) L :
  map (fun i => h (nth i L d)) (seq 0 (length L)) = map h L.
Proof.
  induction L as [|a L IH]; [reflexivity|].
  cbn [length]. rewrite <- cons_seq, <- seq_shift. cbn [map nth]. f_equal.
  rewrite map_map. exact IH.
Qed.

Lemma nth_map_in {U W} (g : U -> W) (d : U) (d' : W) L i :
  (i < length L)%nat -> nth i (map g L) d' = g (nth i L d).
Proof.
  intros Hi. rewrite (nth_indep _ d' (g d)) by (rewrite map_length; exact Hi). apply map_nth.
Qed.

Section DaskTable.
  Context {A : Type}.
  Variables key value : A -> xv.

  Lemma dask_column op (f : list Z -> Z) (blocks : list (list A)) ids nodata :
    hom op f -> (forall l l', Permutation l l' -> f l = f l') ->
    let uz := unique_zones key (concat blocks) in
    combine_blocks op (length uz) (map (block_partial key value f uz ids nodata) blocks)
    = map (fun u => if memx u ids then ostat f (zone_vals key value nodata (concat blocks) u) else None) uz.
  Proof.
    intros Hh Hp uz.
    assert (Hpart : map (block_partial key value f uz ids nodata) blocks
                    = map (fun b => map (fun u => if memx u ids then zone_stat key value f nodata b u else None) uz) blocks).
    { apply map_ext_in. intros b Hb. unfold block_partial.
      destruct (sort_and_stride key b uz) as [kept breaks] eqn:E.
      apply (calc_stats_spec key value f Hp b uz ids nodata kept breaks); auto.
      apply block_uz_ok; auto. }
    rewrite Hpart.
    rewrite (combine_blocks_map op (fun b u => if memx u ids then zone_stat key value f nodata b u else None) uz blocks).
    apply map_ext. intros u. destruct (memx u ids).
    - rewrite zone_vals_concat, <- (ostat_concat op f _ Hh), map_map.
      f_equal. apply map_ext. intros b. apply zone_stat_ostat.
    - clear. induction blocks; simpl; auto.
  Qed.

  Theorem dask_stats_spec (blocks : list (list A)) zone_ids nodata :
    ids_ok zone_ids ->
    dask_stats key value blocks zone_ids nodata
    = map (fun u => (u, drow_spec (zone_vals key value nodata (concat blocks) u)))
          (select_ids (unique_zones key (concat blocks)) zone_ids).
  Proof.
    intros Hok. unfold dask_stats.
    destruct (unique_zones_ok key (concat blocks)) as (Ha & Hf & Hc).
    rewrite (dask_column Z.max f_max blocks _ nodata hom_max f_max_perm).
    rewrite (dask_column Z.min f_min blocks _ nodata hom_min f_min_perm).
    rewrite (dask_column Z.add f_sum blocks _ nodata hom_sum f_sum_perm).
    rewrite (dask_column Z.add f_count blocks _ nodata hom_count f_count_perm).
    rewrite (dask_column Z.add f_sumsq blocks _ nodata hom_sumsq f_sumsq_perm).
    set (uz := unique_zones key (concat blocks)) in *.
    set (ids := raw_ids uz zone_ids).
    set (R := fun u : xv => (u, if memx u ids then drow_spec (zone_vals key value nodata (concat blocks) u)
                             else drow_spec [])).
    transitivity (filter (fun r : xv * drow => memx (fst r) ids) (map R uz)).
    - f_equal. rewrite <- (seq_map_nth XNaN R uz). apply map_ext_in. intros i Hi.
      apply in_seq in Hi. destruct Hi as [_ Hi]. cbn [plus] in Hi.
      rewrite !(nth_map_in _ XNaN None uz i Hi). unfold R.
      destruct (memx (nth i uz XNaN) ids); reflexivity.
    - rewrite (filter_map_comm R (fun r => memx (fst r) ids)).
      rewrite (filter_ext (fun a => memx (fst (R a)) ids) (fun u => memx u (raw_ids uz zone_ids)))
        by (intros a; reflexivity).
      rewrite (raw_filter_select uz zone_ids Ha Hf Hok).
      apply map_ext_in. intros u Hu.
      assert (Hm : memx u ids = true).
      { unfold ids. rewrite <- (raw_filter_select uz zone_ids Ha Hf Hok) in Hu. apply filter_In in Hu. tauto. }
      unfold R. rewrite Hm. reflexivity.
  Qed.
End DaskTable.
