(* C13/Model.v — executable model of xrspatial/multispectral.py (NumPy backend):
   the per-cell kernels _arvi_cpu, _evi_cpu, _gci_cpu, _normalized_ratio_cpu,
   _savi_cpu, _sipi_cpu, _ebbi_cpu, _normalize_data_cpu, the public wrappers'
   argument order and guards, and _true_color_numpy.  Written ONCE over [Arith]
   with Numba's promotion spelled out:  float32 op float32 stays float32 (s-ops);
   anything touching a Python literal / float argument is float64 (d-ops after
   [widen]); a store into the float32 output array is [narrow].
   Definitions only. *)
Require Import Base.Prelude.
From Coq Require Import QArith PrimFloat SpecFloat.
Require Import C13.Arith.
Close Scope Q_scope.
Open Scope Z_scope.

Section Kernels.
  Variable A : Arith.
  Notation S := (T32 A).
  Notation D := (T64 A).
  Let zeroD : D := dofZ A 0.
  (* `x != 0.0` : true for NaN *)
  Definition dnz (x : D) : bool := negb (deqb A x zeroD).

  (* _normalized_ratio_cpu:  numerator = val1 - val2; denominator = val1 + val2
     if denominator == 0.0: continue   else out = numerator / denominator   (all float32) *)
  Definition nd_cell (v1 v2 : S) : S :=
    let num := ssub A v1 v2 in
    let den := sadd A v1 v2 in
    if deqb A (widen A den) zeroD then snan A else sdiv A num den.

  (* _arvi_cpu: numerator = nir - (2.0*red) + blue; denominator = nir + (2.0*red) + blue *)
  Definition arvi_cell (nir red blue : S) : S :=
    let two_red := dmul A (dofZ A 2) (widen A red) in
    let num := dadd A (dsub A (widen A nir) two_red) (widen A blue) in
    let den := dadd A (dadd A (widen A nir) two_red) (widen A blue) in
    if dnz den then narrow A (ddiv A num den) else snan A.

  (* _evi_cpu: numerator = nir - red  (float32)
               denominator = nir + c1*red - c2*blue + soil_factor  (float64)
               out = gain * (numerator / denominator) *)
  Definition evi_cell (c1 c2 soil gain : D) (nir red blue : S) : S :=
    let num := ssub A nir red in
    let den := dadd A (dsub A (dadd A (widen A nir) (dmul A c1 (widen A red)))
                              (dmul A c2 (widen A blue))) soil in
    if dnz den then narrow A (dmul A gain (ddiv A (widen A num) den)) else snan A.

  (* _gci_cpu: if green != 0: out = nir / green - 1    (float32 division, then float64 - 1) *)
  Definition gci_cell (nir green : S) : S :=
    if dnz (widen A green)
    then narrow A (dsub A (widen A (sdiv A nir green)) (dofZ A 1))
    else snan A.

  (* _savi_cpu: numerator = nir - red; soma = nir + red + soil_factor
                denominator = soma * (1.0 + soil_factor) *)
  Definition savi_cell (soil : D) (nir red : S) : S :=
    let num := ssub A nir red in
    let soma := dadd A (widen A (sadd A nir red)) soil in
    let den := dmul A soma (dadd A (dofZ A 1) soil) in
    if dnz den then narrow A (ddiv A (widen A num) den) else snan A.

  (* _sipi_cpu: numerator = nir - blue; denominator = nir - red   (all float32) *)
  Definition sipi_cell (nir red blue : S) : S :=
    let num := ssub A nir blue in
    let den := ssub A nir red in
    if dnz (widen A den) then sdiv A num den else snan A.

  (* _ebbi_cpu: numerator = swir - red; denominator = 10 * np.sqrt(swir + tir) *)
  Definition ebbi_cell (red swir tir : S) : S :=
    let num := ssub A swir red in
    let den := dmul A (dofZ A 10) (widen A (ssqrt A (sadd A swir tir))) in
    if dnz den then narrow A (ddiv A (widen A num) den) else snan A.

  (* ---- public wrappers: argument order onto the shared kernel ---- *)
  Definition ndvi_cell (nir red : S) : S := nd_cell nir red.
  Definition nbr_cell (nir swir2 : S) : S := nd_cell nir swir2.
  Definition nbr2_cell (swir1 swir2 : S) : S := nd_cell swir1 swir2.
  Definition ndmi_cell (nir swir1 : S) : S := nd_cell nir swir1.

  (* savi:  if not -1.0 <= soil_factor <= 1.0: raise ValueError *)
  Definition savi_ok (soil : D) : bool :=
    dleb A (dofZ A (-1)) soil && dleb A soil (dofZ A 1).
  (* evi:   if soil_factor > 1.0 or soil_factor < -1.0: raise;  if gain < 0: raise
     (a NaN soil_factor or gain passes these guards) *)
  Definition evi_ok (soil gain : D) : bool :=
    negb (dltb A (dofZ A 1) soil || dltb A soil (dofZ A (-1))) && negb (dltb A gain zeroD).

  (* ---- true_color ---- *)
  Variable expD : D -> D.           (* libm exp, supplied by the driver *)

  (* np.nanmin / np.nanmax of the float32 band: NaN cells skipped, NaN if none left *)
  Definition nan_fold (better : S -> S -> bool) (l : list S) : S :=
    fold_left (fun acc v => if sisnan A v then acc
                            else if sisnan A acc then v
                            else if better v acc then v else acc) l (snan A).
  Definition nanmin (l : list S) : S := nan_fold (sltb A) l.
  Definition nanmax (l : list S) : S := nan_fold (fun v acc => sltb A acc v) l.

  (* _normalize_data_cpu, one cell (range_val != 0 checked by the caller) *)
  Definition normalize_cell (min_val range_val : S) (c th : D) (val : S) : S :=
    let norm := sdiv A (ssub A val min_val) range_val in
    let sig := ddiv A (dofZ A 1) (dadd A (dofZ A 1) (expD (dmul A c (dsub A th (widen A norm))))) in
    narrow A (dmul A sig (dofZ A 255)).
  Definition normalize_band (c th : D) (band : list (list S)) : list (list S) :=
    let flat := concat band in
    let mn := nanmin flat in
    let mx := nanmax flat in
    let rng := ssub A mx mn in
    if dnz (widen A rng) then map (map (normalize_cell mn rng c th)) band
    else map (map (fun _ => snan A)) band.
  (* .astype(np.uint8) of the float32 result: truncation; NaN -> 0 (what the cast gives here) *)
  Definition to_u8 (v : S) : Z :=
    match strunc A v with Some z => z mod 256 | None => 0 end.

  (* alpha = np.where(isnan(r) | (r <= nodata), 0, 255) evaluated on the ORIGINAL dtype of r:
     a float32 raster compares against float32(nodata), anything else in float64 *)
  Definition alpha32 (nodata : D) (r : S) : Z :=
    if sisnan A r || sleb A r (narrow A nodata) then 0 else 255.
  Definition alpha64 (nodata : D) (r : D) : Z :=
    if disnan A r || dleb A r nodata then 0 else 255.
End Kernels.

(* ---- rasters: row-major lists of rows; the kernels are applied cell by cell ---- *)
Fixpoint zip2 {X Y Z' : Type} (f : X -> Y -> Z') (a : list X) (b : list Y) : list Z' :=
  match a, b with
  | x :: a', y :: b' => f x y :: zip2 f a' b'
  | _, _ => []
  end.
Definition grid2 {X Y Z' : Type} (f : X -> Y -> Z') (a : list (list X)) (b : list (list Y)) :=
  zip2 (zip2 f) a b.
Definition grid3 {X Y W Z' : Type} (f : X -> Y -> W -> Z')
    (a : list (list X)) (b : list (list Y)) (c : list (list W)) :=
  zip2 (fun ab cr => zip2 (fun p w => f (fst p) (snd p) w) ab cr) (grid2 pair a b) c.

(* ------------------------------------------------------------------ *)
(* float instance: what the driver runs                                *)
(* ------------------------------------------------------------------ *)
(* a raster cell as it arrives: an integer (integer dtypes) or a double (float32/float64 dtypes) *)
Inductive cellv : Type := CI (z : Z) | CF (f : float).
(* `.astype('f4')` *)
Definition cast32 (c : cellv) : spec_float :=
  match c with CI z => b32_of_Z z | CF f => b32_of_f64 f end.
Definition cast64 (c : cellv) : float :=
  match c with CI z => Z_to_float z | CF f => f end.
Definition castg (g : list (list cellv)) := map (map cast32) g.

Definition F := FloatArith.
(* widen a float32 result for printing (exact) *)
Definition out64 (g : list (list spec_float)) : list (list float) := map (map f64_of_b32) g.
Definition f_ndvi nir red := out64 (grid2 (ndvi_cell F) (castg nir) (castg red)).
Definition f_nbr nir swir2 := out64 (grid2 (nbr_cell F) (castg nir) (castg swir2)).
Definition f_nbr2 swir1 swir2 := out64 (grid2 (nbr2_cell F) (castg swir1) (castg swir2)).
Definition f_ndmi nir swir1 := out64 (grid2 (ndmi_cell F) (castg nir) (castg swir1)).
Definition f_gci nir green := out64 (grid2 (gci_cell F) (castg nir) (castg green)).
Definition f_arvi nir red blue := out64 (grid3 (arvi_cell F) (castg nir) (castg red) (castg blue)).
Definition f_sipi nir red blue := out64 (grid3 (sipi_cell F) (castg nir) (castg red) (castg blue)).
Definition f_ebbi red swir tir := out64 (grid3 (ebbi_cell F) (castg red) (castg swir) (castg tir)).
(* None = ValueError *)
Definition f_savi (soil : float) nir red :=
  if savi_ok F soil then Some (out64 (grid2 (savi_cell F soil) (castg nir) (castg red))) else None.
Definition f_evi (c1 c2 soil gain : float) nir red blue :=
  if evi_ok F soil gain
  then Some (out64 (grid3 (evi_cell F c1 c2 soil gain) (castg nir) (castg red) (castg blue))) else None.

(* true_color: (R, G, B, A) planes of uint8; [is32] = the red raster's dtype is float32 *)
Definition f_true_color (expf : float -> float) (is32 : bool) (nodata c th : float)
    (r g b : list (list cellv)) :=
  let chan band := map (map (to_u8 F)) (normalize_band F expf c th (castg band)) in
  let alpha := if is32 then map (map (fun v => alpha32 F nodata (cast32 v))) r
               else map (map (fun v => alpha64 F nodata (cast64 v))) r in
  (chan r, chan g, chan b, alpha).
