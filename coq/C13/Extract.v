Require Import Extraction ExtrOcamlBasic ExtrOCamlFloats ExtrOCamlInt63.
Require Import Base.Prelude C13.Arith C13.Model.
Extraction Language OCaml.
Extraction "model.ml" f_ndvi f_nbr f_nbr2 f_ndmi f_gci f_arvi f_sipi f_ebbi f_savi f_evi f_true_color.
