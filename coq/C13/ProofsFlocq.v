(* C13/ProofsFlocq.v — float32-level RANGE of the normalised difference at the float instance, via Flocq:
   SpecFloat operations at any (prec, emax) are Flocq's Bplus/Bminus/Bdiv (round to nearest even), whose
   real-number semantics give |fl(a-b)| <= fl(a+b), and rounding is monotone with 1 representable.
   Uses the Reals axioms of the standard library (see Print Assumptions). *)
From Coq Require Import ZArith Reals Lra Lia SpecFloat Bool PrimFloat.
From Flocq Require Import Core BinarySingleNaN.
Open Scope R_scope.

Section Range.
  Variables prec emax : Z.
  Context (Hp : Prec_gt_0 prec) (Hm : Prec_lt_emax prec emax).
  Notation bf := (binary_float prec emax).
  Notation rnd := (round radix2 (fexp prec emax) ZnearestE).
  Let Hv : Valid_exp (fexp prec emax) := fexp_correct prec emax Hp.

  Lemma rnd_le x y : x <= y -> rnd x <= rnd y.
  Proof. apply round_le; auto with typeclass_instances. Qed.
  Lemma rnd_B2R (x : bf) : rnd (B2R x) = B2R x.
  Proof. apply round_generic; auto with typeclass_instances. apply generic_format_B2R. Qed.
  Lemma rnd_0 : rnd 0 = 0.
  Proof. apply round_0; auto with typeclass_instances. Qed.
  Lemma rnd_1 : rnd 1 = 1.
  Proof.
    rewrite <- (Bone_correct prec emax Hp Hm). apply rnd_B2R.
  Qed.

  Lemma nd_range_B (x y : bf) :
    is_finite x = true -> is_finite y = true -> 0 <= B2R x -> 0 <= B2R y ->
    let den := Bplus mode_NE x y in
    let num := Bminus mode_NE x y in
    (is_finite den = true -> B2R den <> 0) ->
    let q := Bdiv mode_NE num den in
    is_finite q = true /\ -1 <= B2R q <= 1.
  Proof.
    intros Fx Fy Px Py den num Hden q.
    pose proof (abs_B2R_lt_emax prec emax x) as Ax. pose proof (abs_B2R_lt_emax prec emax y) as Ay.
    rewrite Rabs_pos_eq in Ax, Ay by assumption.
    (* numerator never overflows *)
    assert (Nle : rnd (B2R x - B2R y) <= B2R x).
    { rewrite <- (rnd_B2R x) at 2. apply rnd_le. lra. }
    assert (Nge : - B2R y <= rnd (B2R x - B2R y)).
    { rewrite <- (rnd_B2R y) at 1. rewrite <- round_NE_opp. apply rnd_le. lra. }
    pose proof (Bminus_correct prec emax Hp Hm mode_NE x y Fx Fy) as HN. cbn [round_mode] in HN.
    rewrite Rlt_bool_true in HN by (apply Rabs_lt; lra).
    destruct HN as (RN & FN & _). fold num in RN, FN.
    pose proof (Bplus_correct prec emax Hp Hm mode_NE x y Fx Fy) as HD. cbn [round_mode] in HD.
    assert (Dge : 0 <= rnd (B2R x + B2R y)) by (rewrite <- rnd_0; apply rnd_le; lra).
    assert (ND1 : rnd (B2R x - B2R y) <= rnd (B2R x + B2R y)) by (apply rnd_le; lra).
    assert (ND2 : - rnd (B2R x + B2R y) <= rnd (B2R x - B2R y))
      by (rewrite <- round_NE_opp; apply rnd_le; lra).
    destruct (Rlt_bool (Rabs (rnd (B2R x + B2R y))) (bpow radix2 emax)) eqn:OV.
    - destruct HD as (RD & FD & _). fold den in RD, FD.
      specialize (Hden FD).
      assert (Dpos : 0 < B2R den) by (rewrite RD in *; lra).
      assert (Q1 : -1 <= rnd (B2R num / B2R den) <= 1).
      { assert (Rm1 : rnd (Ropp 1) = Ropp 1) by (rewrite round_NE_opp, rnd_1; reflexivity).
        replace (-1) with (Ropp 1) by lra.
        assert (Z1 : -1 <= B2R num / B2R den <= 1).
        { split.
          - apply Rmult_le_reg_r with (B2R den); [exact Dpos|]. unfold Rdiv. rewrite Rmult_assoc, Rinv_l by lra. rewrite RN, RD. lra.
          - apply Rmult_le_reg_r with (B2R den); [exact Dpos|]. unfold Rdiv. rewrite Rmult_assoc, Rinv_l by lra. rewrite RN, RD. lra. }
        split; [rewrite <- Rm1|rewrite <- rnd_1]; apply rnd_le; lra. }
      pose proof (Bdiv_correct prec emax Hp Hm mode_NE num den Hden) as HQ. cbn [round_mode] in HQ.
      rewrite Rlt_bool_true in HQ.
      + destruct HQ as (RQ & FQ & _). fold q in RQ, FQ. rewrite FQ, RQ. split; [exact FN|exact Q1].
      + apply Rle_lt_trans with 1; [apply Rabs_le; lra|].
        apply (bpow_lt radix2 0 emax). unfold Prec_lt_emax, Prec_gt_0 in *. lia.
    - (* the sum overflowed: den = +inf, the quotient is a zero *)
      destruct HD as (OD & SD). fold den in OD. unfold binary_overflow in OD. cbn [overflow_to_inf] in OD.
      unfold q. destruct den as [sd|sd| |sd md ed Bd]; try discriminate OD.
      destruct num as [sn|sn| |sn mn en Bn]; try discriminate FN; cbn; split; try reflexivity; lra.
  Qed.
End Range.

(* ---- SpecFloat operations = Flocq operations (any format; same proofs as Flocq's PrimFloat.v at binary64) ---- *)
Section Bridge.
  Variables prec emax : Z.
  Context (Hp : Prec_gt_0 prec) (Hm : Prec_lt_emax prec emax).
  Notation bf := (binary_float prec emax).

  Lemma rne_equiv s m l : round_nearest_even m l = choice_mode mode_NE s m l.
  Proof.
    case l; [reflexivity|intro c]. case c; [ | reflexivity..].
    now simpl; unfold Round.cond_incr; case Z.even.
  Qed.
  Lemma bra_equiv sx mx ex lx :
    SpecFloat.binary_round_aux prec emax sx mx ex lx = binary_round_aux prec emax mode_NE sx mx ex lx.
  Proof.
    unfold SpecFloat.binary_round_aux, binary_round_aux.
    set (mrse' := shr_fexp _ _ _ _ _). case mrse'; intros mrs' e'; simpl.
    now rewrite (rne_equiv sx).
  Qed.
  Lemma br_equiv s m e :
    SpecFloat.binary_round prec emax s m e = binary_round prec emax mode_NE s m e.
  Proof.
    unfold SpecFloat.binary_round, binary_round, shl_align_fexp.
    set (mez := shl_align _ _ _); case mez as [mz ez]. apply bra_equiv.
  Qed.
  Lemma bn_equiv m e szero :
    SpecFloat.binary_normalize prec emax m e szero = B2SF (binary_normalize prec emax Hp Hm mode_NE m e szero).
  Proof.
    case m as [ | p | p].
    - now simpl.
    - simpl; rewrite B2SF_SF2B; apply br_equiv.
    - simpl; rewrite B2SF_SF2B; apply br_equiv.
  Qed.

  Lemma SFadd_B (x y : bf) : SFadd prec emax (B2SF x) (B2SF y) = B2SF (Bplus mode_NE x y).
  Proof.
    case x as [sx|sx| |sx mx ex Bx]; case y as [sy|sy| |sy my ey By];
      [now (trivial || simpl; case Bool.eqb).. | ].
    apply bn_equiv.
  Qed.
  Lemma SFsub_B (x y : bf) : SFsub prec emax (B2SF x) (B2SF y) = B2SF (Bminus mode_NE x y).
  Proof.
    case x as [sx|sx| |sx mx ex Bx]; case y as [sy|sy| |sy my ey By];
      [now (trivial || simpl; case Bool.eqb).. | ].
    simpl. unfold Zminus. rewrite <- cond_Zopp_negb. apply bn_equiv.
  Qed.
  Lemma SFdiv_B (x y : bf) : SFdiv prec emax (B2SF x) (B2SF y) = B2SF (Bdiv mode_NE x y).
  Proof.
    case x as [sx|sx| |sx mx ex Bx]; case y as [sy|sy| |sy my ey By];
      [now (trivial || simpl; case Bool.eqb).. | ].
    simpl. rewrite B2SF_SF2B.
    set (melz := SFdiv_core_binary _ _ _ _ _ _). case melz as [[mz ez] lz]. apply bra_equiv.
  Qed.

  (* the range statement on SpecFloat values *)
  Lemma nd_range_SF (a b : spec_float) :
    valid_binary prec emax a = true -> valid_binary prec emax b = true ->
    is_finite_SF a = true -> is_finite_SF b = true ->
    0 <= SF2R radix2 a -> 0 <= SF2R radix2 b ->
    let den := SFadd prec emax a b in
    (is_finite_SF den = true -> SF2R radix2 den <> 0) ->
    let q := SFdiv prec emax (SFsub prec emax a b) den in
    is_finite_SF q = true /\ -1 <= SF2R radix2 q <= 1.
  Proof.
    intros Va Vb Fa Fb Pa Pb den Hden q.
    set (x := SF2B a Va). set (y := SF2B b Vb).
    assert (Ea : a = B2SF x) by (unfold x; now rewrite B2SF_SF2B).
    assert (Eb : b = B2SF y) by (unfold y; now rewrite B2SF_SF2B).
    unfold q, den in *. rewrite Ea, Eb in *. rewrite SFadd_B, SFsub_B in *. rewrite SFdiv_B.
    rewrite is_finite_SF_B2SF in *. rewrite SF2R_B2SF in *.
    apply (nd_range_B prec emax Hp Hm x y Fa Fb Pa Pb Hden).
  Qed.
End Bridge.

(* ---- the float32 normalised-difference kernel ---- *)
Require Import Base.Prelude C13.Arith C13.Model.
Open Scope R_scope.

Lemma Hp32 : Prec_gt_0 24. Proof. reflexivity. Qed.
Lemma Hm32 : Prec_lt_emax 24 128. Proof. reflexivity. Qed.

(* the kernel's guard `denominator == 0.0` (a float64 comparison after widening) fires on both zeros *)
Lemma guard_zero s : PrimFloat.eqb (f64_of_b32 (S754_zero s)) (Z_to_float 0) = true.
Proof. destruct s; reflexivity. Qed.

Lemma SF2R_finite_nonzero s m e : SF2R radix2 (S754_finite s m e) <> 0.
Proof.
  cbn [SF2R]. intros H. apply (eq_0_F2R radix2) in H. destruct s; discriminate H.
Qed.

(* non-negative finite float32 bands: the stored cell is NaN (zero denominator) or a FINITE float32 in [-1, 1] *)
Lemma nd_float_range (a b : spec_float) :
  valid_binary 24 128 a = true -> valid_binary 24 128 b = true ->
  is_finite_SF a = true -> is_finite_SF b = true ->
  0 <= SF2R radix2 a -> 0 <= SF2R radix2 b ->
  nd_cell FloatArith a b = S754_nan \/
  (is_finite_SF (nd_cell FloatArith a b) = true /\ -1 <= SF2R radix2 (nd_cell FloatArith a b) <= 1).
Proof.
  intros Va Vb Fa Fb Pa Pb. unfold nd_cell. cbn [FloatArith sadd ssub sdiv snan widen deqb dofZ].
  change prec32 with 24%Z. change emax32 with 128%Z.
  destruct (PrimFloat.eqb (f64_of_b32 (SFadd 24 128 a b)) (Z_to_float 0)) eqn:G; [left; reflexivity|].
  right. apply (nd_range_SF 24 128 Hp32 Hm32 a b Va Vb Fa Fb Pa Pb).
  intros Fd. destruct (SFadd 24 128 a b) as [s|s| |s m e]; try discriminate Fd.
  - rewrite guard_zero in G. discriminate G.
  - apply SF2R_finite_nonzero.
Qed.
