(* C13/PropsFlocq.v — the float32-level RANGE theorem (uses Flocq, hence the Reals axioms of the standard library). *)
From Coq Require Import ZArith Reals SpecFloat.
From Flocq Require Import Core BinarySingleNaN.
Require Import C13.Arith C13.Model C13.ProofsFlocq.
Open Scope R_scope.

(* at the FLOAT instance (what is executed): for non-negative finite float32 bands the stored normalised difference is
   NaN (zero denominator) or a FINITE float32 in [-1, 1] — never +-inf, even when a + b overflows to +inf
   (then the quotient is 0).  valid_binary = the value is a canonical binary32 number (every cast result is) *)
Theorem C13_nd_float_range : forall a b : spec_float,
  valid_binary 24 128 a = true -> valid_binary 24 128 b = true ->
  is_finite_SF a = true -> is_finite_SF b = true ->
  0 <= SF2R radix2 a -> 0 <= SF2R radix2 b ->
  nd_cell FloatArith a b = S754_nan \/
  (is_finite_SF (nd_cell FloatArith a b) = true /\ -1 <= SF2R radix2 (nd_cell FloatArith a b) <= 1).
Proof. exact nd_float_range. Qed.
Print Assumptions C13_nd_float_range.

(* non-vacuity: 3 and 1, and the largest float32 with itself (a + b overflows, the index is 0) *)
Example C13_float_range_examples :
  let big := S754_finite false 16777215 104 in
  valid_binary 24 128 (b32_of_Z 3) = true /\ is_finite_SF (b32_of_Z 3) = true /\
  valid_binary 24 128 big = true /\ is_finite_SF big = true /\
  SFadd 24 128 big big = S754_infinity false /\
  nd_cell FloatArith big big = S754_zero false /\
  nd_cell FloatArith (S754_zero false) (S754_zero true) = S754_nan.
Proof. repeat split; vm_compute; reflexivity. Qed.
