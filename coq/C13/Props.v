(* C13/Props.v — the property theorems claimed for C13, nothing else.
   E = the exact instance (option Q, None = NaN); the first two theorems hold for
   EVERY arithmetic instance, in particular the float32/float64 one that is executed. *)
Require Import Base.Prelude.
From Coq Require Import QArith PrimFloat SpecFloat.
Require Import C13.Arith C13.Model C13.Proofs C13.ProofsFloat.
Close Scope Q_scope.
Open Scope Z_scope.

(* zero denominator => NaN (never a division by zero, hence never +-inf from it): for every
   instance, whenever the denominator the kernel computed compares equal to 0.0 the stored
   cell is NaN; otherwise the cell is exactly the one division the kernel performs *)
Theorem C13_zero_denominator_nan : forall (A : Arith),
  (forall v1 v2, deqb A (widen A (sadd A v1 v2)) (dofZ A 0) = true -> nd_cell A v1 v2 = snan A) /\
  (forall v1 v2, deqb A (widen A (sadd A v1 v2)) (dofZ A 0) = false ->
                 nd_cell A v1 v2 = sdiv A (ssub A v1 v2) (sadd A v1 v2)) /\
  (forall nir red blue,
     deqb A (dadd A (dadd A (widen A nir) (dmul A (dofZ A 2) (widen A red))) (widen A blue)) (dofZ A 0) = true ->
     arvi_cell A nir red blue = snan A) /\
  (forall c1 c2 soil gain nir red blue,
     deqb A (dadd A (dsub A (dadd A (widen A nir) (dmul A c1 (widen A red))) (dmul A c2 (widen A blue))) soil) (dofZ A 0) = true ->
     evi_cell A c1 c2 soil gain nir red blue = snan A) /\
  (forall nir green, deqb A (widen A green) (dofZ A 0) = true -> gci_cell A nir green = snan A) /\
  (forall soil nir red,
     deqb A (dmul A (dadd A (widen A (sadd A nir red)) soil) (dadd A (dofZ A 1) soil)) (dofZ A 0) = true ->
     savi_cell A soil nir red = snan A) /\
  (forall nir red blue, deqb A (widen A (ssub A nir red)) (dofZ A 0) = true -> sipi_cell A nir red blue = snan A) /\
  (forall red swir tir,
     deqb A (dmul A (dofZ A 10) (widen A (ssqrt A (sadd A swir tir)))) (dofZ A 0) = true ->
     ebbi_cell A red swir tir = snan A).
Proof.
  intros A. repeat split.
  - apply nd_zero_den. - apply nd_nonzero_den. - apply arvi_zero_den. - apply evi_zero_den.
  - apply gci_zero_den. - apply savi_zero_den. - apply sipi_zero_den. - apply ebbi_zero_den.
Qed.
Print Assumptions C13_zero_denominator_nan.

(* every raster size: the index rasters are cell-wise maps of the kernel (2- and 3-band), defined
   exactly on the cells all bands have *)
Theorem C13_cellwise : forall (A : Arith),
  (forall (f : T32 A -> T32 A -> T32 A) a b y x,
     cell (grid2 f a b) y x =
     match cell a y x, cell b y x with Some u, Some v => Some (f u v) | _, _ => None end) /\
  (forall (f : T32 A -> T32 A -> T32 A -> T32 A) a b c y x,
     cell (grid3 f a b c) y x =
     match cell a y x, cell b y x with
     | Some u, Some v => match cell c y x with Some w => Some (f u v w) | None => None end
     | _, _ => None
     end).
Proof. intros A; split; intros; [apply grid2_cell|apply grid3_cell]. Qed.
Print Assumptions C13_cellwise.

Open Scope Q_scope.

(* each kernel IS its band formula (exact instance): NaN iff the denominator is zero, else the quotient *)
Theorem C13_formulas : forall (qsqrt : Q -> Q),
  let E := ExactArith qsqrt in
  (forall a b, idx_spec (a + b) ((a - b) / (a + b)) (nd_cell E (Some a) (Some b))) /\
  (forall n r b, idx_spec (n + 2 * r + b) ((n - 2 * r + b) / (n + 2 * r + b)) (arvi_cell E (Some n) (Some r) (Some b))) /\
  (forall c1 c2 L G n r b,
     idx_spec (n + c1 * r - c2 * b + L) (G * ((n - r) / (n + c1 * r - c2 * b + L)))
              (evi_cell E (Some c1) (Some c2) (Some L) (Some G) (Some n) (Some r) (Some b))) /\
  (forall n g, idx_spec g (n / g - 1) (gci_cell E (Some n) (Some g))) /\
  (forall L n r, idx_spec ((n + r + L) * (1 + L)) ((n - r) / ((n + r + L) * (1 + L))) (savi_cell E (Some L) (Some n) (Some r))) /\
  (forall n r b, idx_spec (n - r) ((n - b) / (n - r)) (sipi_cell E (Some n) (Some r) (Some b))) /\
  (forall r s t,
     (s + t < 0 -> ebbi_cell E (Some r) (Some s) (Some t) = None) /\
     (0 <= s + t -> idx_spec (10 * qsqrt (s + t)) ((s - r) / (10 * qsqrt (s + t))) (ebbi_cell E (Some r) (Some s) (Some t)))).
Proof.
  intros qsqrt E.
  exact (conj (nd_formula qsqrt) (conj (arvi_formula qsqrt) (conj (evi_formula qsqrt) (conj (gci_formula qsqrt)
        (conj (savi_formula qsqrt) (conj (sipi_formula qsqrt) (ebbi_formula qsqrt))))))).
Qed.
Print Assumptions C13_formulas.

(* wrapper -> kernel band order: ndvi(nir, red), nbr(nir, swir2), nbr2(swir1, swir2), ndmi(nir, swir1) *)
Theorem C13_wrapper_order : forall (qsqrt : Q -> Q) x y,
  let E := ExactArith qsqrt in
  idx_spec (x + y) ((x - y) / (x + y)) (ndvi_cell E (Some x) (Some y)) /\
  idx_spec (x + y) ((x - y) / (x + y)) (nbr_cell E (Some x) (Some y)) /\
  idx_spec (x + y) ((x - y) / (x + y)) (nbr2_cell E (Some x) (Some y)) /\
  idx_spec (x + y) ((x - y) / (x + y)) (ndmi_cell E (Some x) (Some y)).
Proof.
  intros qsqrt x y E.
  exact (conj (nd_formula qsqrt x y) (conj (nd_formula qsqrt x y) (conj (nd_formula qsqrt x y) (nd_formula qsqrt x y)))).
Qed.
Print Assumptions C13_wrapper_order.

(* NaN bands propagate: any NaN band cell makes the index NaN, whatever the other bands and parameters *)
Theorem C13_nan_propagates : forall (qsqrt : Q -> Q),
  let E := ExactArith qsqrt in
  (forall a, nd_cell E None a = None /\ nd_cell E a None = None) /\
  (forall a, gci_cell E None a = None /\ gci_cell E a None = None) /\
  (forall a b, sipi_cell E None a b = None /\ sipi_cell E a None b = None /\ sipi_cell E a b None = None) /\
  (forall a b, arvi_cell E None a b = None /\ arvi_cell E a None b = None /\ arvi_cell E a b None = None) /\
  (forall L a, savi_cell E L None a = None /\ savi_cell E L a None = None) /\
  (forall c1 c2 L G a b, evi_cell E c1 c2 L G None a b = None /\ evi_cell E c1 c2 L G a None b = None /\
                         evi_cell E c1 c2 L G a b None = None) /\
  (forall a b, ebbi_cell E None a b = None /\ ebbi_cell E a None b = None /\ ebbi_cell E a b None = None).
Proof.
  intros qsqrt E. repeat split;
    first [ apply nd_nan_l | apply nd_nan_r | apply gci_nan_l | apply gci_nan_r
          | apply sipi_nan_1 | apply sipi_nan_2 | apply sipi_nan_3
          | apply arvi_nan_1 | apply arvi_nan_2 | apply arvi_nan_3
          | apply savi_nan_1 | apply savi_nan_2
          | apply evi_nan_1 | apply evi_nan_2 | apply evi_nan_3
          | apply ebbi_nan_1 | apply ebbi_nan_2 | apply ebbi_nan_3 ].
Qed.
Print Assumptions C13_nan_propagates.

(* normalised differences of non-negative bands lie in [-1, 1] (or are NaN) *)
Theorem C13_nd_range : forall (qsqrt : Q -> Q) a b, 0 <= a -> 0 <= b ->
  nd_cell (ExactArith qsqrt) (Some a) (Some b) = None \/
  exists q, nd_cell (ExactArith qsqrt) (Some a) (Some b) = Some q /\ -1 <= q <= 1.
Proof. exact nd_range. Qed.
Print Assumptions C13_nd_range.

(* swapping the two bands negates the index (NaN stays NaN) *)
Theorem C13_nd_antisym : forall (qsqrt : Q -> Q) a b,
  oeq (nd_cell (ExactArith qsqrt) (Some b) (Some a)) (oopp (nd_cell (ExactArith qsqrt) (Some a) (Some b))).
Proof. exact nd_antisym. Qed.
Print Assumptions C13_nd_antisym.

(* scaling both bands by the same non-zero factor (in particular a power of two) changes nothing *)
Theorem C13_nd_scale : forall (qsqrt : Q -> Q) s a b, ~ s == 0 ->
  oeq (nd_cell (ExactArith qsqrt) (Some (s * a)) (Some (s * b))) (nd_cell (ExactArith qsqrt) (Some a) (Some b)).
Proof. exact nd_scale. Qed.
Print Assumptions C13_nd_scale.

(* savi with soil_factor 0 is ndvi *)
Theorem C13_savi_zero_is_ndvi : forall (qsqrt : Q -> Q) n r,
  oeq (savi_cell (ExactArith qsqrt) (Some 0) (Some n) (Some r)) (ndvi_cell (ExactArith qsqrt) (Some n) (Some r)).
Proof. exact savi_zero_is_ndvi. Qed.
Print Assumptions C13_savi_zero_is_ndvi.

(* parameter guards: savi accepts exactly soil_factor in [-1,1] (NaN rejected);
   evi accepts exactly soil_factor in [-1,1] and gain >= 0 *)
Theorem C13_param_guards : forall (qsqrt : Q -> Q),
  let E := ExactArith qsqrt in
  (forall q, savi_ok E (Some q) = true <-> -1 <= q <= 1) /\ savi_ok E None = false /\
  (forall L G, evi_ok E (Some L) (Some G) = true <-> (-1 <= L <= 1 /\ 0 <= G)).
Proof. intros qsqrt E. split; [apply savi_ok_exact|split; [reflexivity|apply evi_ok_exact]]. Qed.
Print Assumptions C13_param_guards.

(* true_color alpha: always 0 or 255 (every instance); 0 exactly where red is NaN or <= nodata *)
Theorem C13_alpha_rule :
  (forall (A : Arith) nodata r, (alpha32 A nodata r = 0%Z \/ alpha32 A nodata r = 255%Z) /\
                                (alpha32 A nodata r = 0%Z <-> (sisnan A r = true \/ sleb A r (narrow A nodata) = true))) /\
  (forall (A : Arith) nodata r, (alpha64 A nodata r = 0%Z \/ alpha64 A nodata r = 255%Z) /\
                                (alpha64 A nodata r = 0%Z <-> (disnan A r = true \/ dleb A r nodata = true))) /\
  (forall (qsqrt : Q -> Q) nodata r,
     (alpha64 (ExactArith qsqrt) (Some nodata) r = 0%Z <-> (r = None \/ exists q, r = Some q /\ q <= nodata)) /\
     (alpha32 (ExactArith qsqrt) (Some nodata) r = 0%Z <-> (r = None \/ exists q, r = Some q /\ q <= nodata))).
Proof.
  repeat split; try apply alpha32_two; try apply alpha64_two; try apply alpha32_zero; try apply alpha64_zero;
    try apply alpha64_exact; try apply alpha32_exact.
Qed.
Print Assumptions C13_alpha_rule.

(* ---------------- float32 level: the executed instance ---------------- *)
Close Scope Q_scope.
Open Scope Z_scope.

(* band swap at the FLOAT instance: for ALL binary32 band values (finite, +-inf, NaN) the swapped index is the negated
   index bit for bit, except that a zero result may carry the other sign (0.0 == -0.0): round-to-nearest-even ignores
   the sign, float addition is commutative, the zero-denominator guard sees the identical sum *)
Theorem C13_nd_float_antisym : forall a b : spec_float,
  sf_eqv (nd_cell FloatArith b a) (SFopp (nd_cell FloatArith a b)).
Proof. exact nd_float_antisym. Qed.
Print Assumptions C13_nd_float_antisym.

(* power-of-two scaling at the FLOAT instance, part 1 (unconditional): the float32 quotient of two numbers does not
   change, bit for bit, when both are scaled by 2^k *)
Theorem C13_float_div_scale : forall k n d : _,
  SFdiv prec32 emax32 (sf_scale k n) (sf_scale k d) = SFdiv prec32 emax32 n d.
Proof. intros k n d. apply SFdiv_scale. Qed.
Print Assumptions C13_float_div_scale.

(* part 2 (partial): the kernel is invariant when the float32 sum and difference of the scaled bands are the scaled
   sum and difference — which is what "no overflow / underflow occurs" means — and widening a non-zero finite
   float32 gives a non-zero double (premise about PrimFloat, not discharged) *)
Theorem C13_nd_float_scale_partial : forall (a b : spec_float) (k : Z),
  SFadd prec32 emax32 (sf_scale k a) (sf_scale k b) = sf_scale k (SFadd prec32 emax32 a b) ->
  SFsub prec32 emax32 (sf_scale k a) (sf_scale k b) = sf_scale k (SFsub prec32 emax32 a b) ->
  (forall s m e, PrimFloat.eqb (f64_of_b32 (S754_finite s m e)) (Z_to_float 0) = false) ->
  nd_cell FloatArith (sf_scale k a) (sf_scale k b) = nd_cell FloatArith a b.
Proof. intros a b k. apply nd_float_scale_cond. Qed.
Print Assumptions C13_nd_float_scale_partial.

(* UNCLAIMED full statement: scaling invariance from conditions on the values only (all of a, b, a+b, a-b and their
   scalings are valid normal binary32 numbers or zero) *)
Definition sf_normal_or_zero (x : spec_float) : Prop :=
  match x with
  | S754_zero _ => True
  | S754_finite _ m _ => Zpos (digits2_pos m) = prec32
  | _ => False
  end.
Definition C13_nd_float_scale_full_statement : Prop := forall (a b : spec_float) (k : Z),
  valid_binary prec32 emax32 a = true -> valid_binary prec32 emax32 b = true ->
  valid_binary prec32 emax32 (sf_scale k a) = true -> valid_binary prec32 emax32 (sf_scale k b) = true ->
  sf_normal_or_zero a -> sf_normal_or_zero b ->
  sf_normal_or_zero (SFadd prec32 emax32 a b) -> sf_normal_or_zero (SFsub prec32 emax32 a b) ->
  valid_binary prec32 emax32 (sf_scale k (SFadd prec32 emax32 a b)) = true ->
  valid_binary prec32 emax32 (sf_scale k (SFsub prec32 emax32 a b)) = true ->
  nd_cell FloatArith (sf_scale k a) (sf_scale k b) = nd_cell FloatArith a b.

(* concrete float32 evaluations: 3 and 1 (mantissas 3*2^22 and 2^23) swapped, scaled by 2^5 and by 2^-120 (no underflow:
   the premises of the partial theorem hold there, checked by computation) *)
Example C13_float_level_examples :
  let a := b32_of_Z 3 in let b := b32_of_Z 1 in
  nd_cell FloatArith a b = b32_of_f64 0.5%float /\
  nd_cell FloatArith b a = SFopp (nd_cell FloatArith a b) /\
  nd_cell FloatArith a a = S754_zero false /\ SFopp (nd_cell FloatArith a a) = S754_zero true /\
  SFadd prec32 emax32 (sf_scale 5 a) (sf_scale 5 b) = sf_scale 5 (SFadd prec32 emax32 a b) /\
  SFsub prec32 emax32 (sf_scale 5 a) (sf_scale 5 b) = sf_scale 5 (SFsub prec32 emax32 a b) /\
  nd_cell FloatArith (sf_scale 5 a) (sf_scale 5 b) = nd_cell FloatArith a b /\
  nd_cell FloatArith (sf_scale (-120) a) (sf_scale (-120) b) = nd_cell FloatArith a b /\
  valid_binary prec32 emax32 (sf_scale (-120) a) = true.
Proof. repeat split; vm_compute; reflexivity. Qed.

Open Scope Q_scope.

(* ---------------- non-vacuity and concrete evaluations ---------------- *)
Definition q0 (x : Q) : Q := x.   (* any function will do as the abstract sqrt for these examples *)

(* exact instance on concrete bands: ndvi(3,1) = 1/2, ndvi(0,0) = NaN, ndvi(2,-2) = NaN, swap negates *)
Example C13_exact_examples :
  nd_cell (ExactArith q0) (Some 3) (Some 1) = Some ((3 - 1) / (3 + 1)) /\
  (3 - 1) / (3 + 1) == 1 # 2 /\
  nd_cell (ExactArith q0) (Some 0) (Some 0) = None /\
  nd_cell (ExactArith q0) (Some 2) (Some (-2)) = None /\
  nd_cell (ExactArith q0) (Some 1) (Some 3) = Some ((1 - 3) / (1 + 3)) /\
  savi_ok (ExactArith q0) (Some (3 # 2)) = false /\ savi_ok (ExactArith q0) (Some (-1)) = true /\
  alpha64 (ExactArith q0) (Some 1) (Some 1) = 0%Z /\ alpha64 (ExactArith q0) (Some 1) (Some (3 # 2)) = 255%Z.
Proof. repeat split; reflexivity. Qed.

(* the code's SAVI is NOT the published Huete form (NIR-Red)/(NIR+Red+L)*(1+L): nir 3, red 1, L 1 *)
Example C13_savi_published_refuted :
  exists q, savi_cell (ExactArith q0) (Some 1) (Some 3) (Some 1) = Some q /\ q == 1 # 5 /\
            ~ q == (3 - 1) / (3 + 1 + 1) * (1 + 1).
Proof. eexists; split; [reflexivity|]. split; [reflexivity|]. intros H; discriminate H. Qed.

(* float instance (what is extracted and compared bit for bit with the Numba kernels):
   ndvi(3,1) = 0.5, zero denominator and NaN band -> NaN, 2^24+1 is rounded by the float32 cast *)
Example C13_float_examples :
  f_ndvi [[CI 3; CI 0; CF nan; CI 16777217]] [[CI 1; CI 0; CF 1%float; CI 1]]
  = [[0.5%float; nan; nan; 0x1.fffffep-1%float]] /\
  f_savi 2%float [[CI 3]] [[CI 1]] = None /\
  f_savi 1%float [[CI 3]] [[CI 1]] = Some [[0x1.99999ap-3%float]].
Proof. repeat split; vm_compute; reflexivity. Qed.
