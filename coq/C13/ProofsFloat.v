(* C13/ProofsFloat.v — float32-level facts about the normalised-difference kernel at the
   FLOAT instance (SpecFloat binary32 operations), proved structurally on SpecFloat:
   round-to-nearest-even does not look at the sign, + is commutative, negating the numerator
   negates the quotient.  Axiom-free; holds for ALL binary32 values incl. NaN and infinities. *)
Require Import Base.Prelude.
From Coq Require Import PrimFloat SpecFloat.
Require Import C13.Arith C13.Model.
Open Scope Z_scope.

(* equal, except possibly for the sign of a zero (0.0 == -0.0) *)
Definition sf_eqv (x y : spec_float) : Prop :=
  x = y \/ (exists s s', x = S754_zero s /\ y = S754_zero s').

Section B32.
  Variables prec emax : Z.

  Lemma opp_round_aux s m e l :
    SFopp (binary_round_aux prec emax s m e l) = binary_round_aux prec emax (negb s) m e l.
  Proof.
    unfold binary_round_aux.
    destruct (shr_fexp prec emax m e l) as [mrs' e'].
    destruct (shr_fexp prec emax (round_nearest_even (shr_m mrs') (loc_of_shr_record mrs')) e' loc_Exact) as [mrs'' e''].
    destruct (shr_m mrs''); try reflexivity.
    destruct (Zle_bool e'' (emax - prec)); reflexivity.
  Qed.

  Lemma opp_round s m e :
    SFopp (binary_round prec emax s m e) = binary_round prec emax (negb s) m e.
  Proof.
    unfold binary_round.
    destruct (shl_align m e (fexp prec emax (Z.pos (digits2_pos m) + e))) as [mz ez].
    apply opp_round_aux.
  Qed.

  Lemma opp_normalize m e : m <> 0 ->
    SFopp (binary_normalize prec emax m e false) = binary_normalize prec emax (- m) e false.
  Proof.
    intros H. destruct m as [|p|p]; [congruence| |]; cbn [binary_normalize Z.opp]; apply opp_round.
  Qed.

  Lemma normalize_zero e : binary_normalize prec emax 0 e false = S754_zero false.
  Proof. reflexivity. Qed.

  Lemma SFadd_comm x y : SFadd prec emax x y = SFadd prec emax y x.
  Proof.
    destruct x as [sx|sx| |sx mx ex]; destruct y as [sy|sy| |sy my ey]; try reflexivity.
    - cbn. destruct sx, sy; reflexivity.
    - cbn. destruct sx, sy; reflexivity.
    - cbn [SFadd]. rewrite (Z.min_comm ey ex). f_equal. apply Z.add_comm.
  Qed.

  Lemma SFsub_swap x y : sf_eqv (SFsub prec emax y x) (SFopp (SFsub prec emax x y)).
  Proof.
    destruct x as [sx|sx| |sx mx ex]; destruct y as [sy|sy| |sy my ey];
      try (left; reflexivity); try (left; cbn; rewrite Bool.negb_involutive; reflexivity).
    - right. cbn. destruct sx, sy; cbn; do 2 eexists; split; reflexivity.
    - left. cbn. destruct sx, sy; reflexivity.
    - cbn [SFsub]. rewrite (Z.min_comm ey ex).
      set (ez := Z.min ex ey).
      set (A := cond_Zopp sx (Z.pos (fst (shl_align mx ex ez)))).
      set (B := cond_Zopp sy (Z.pos (fst (shl_align my ey ez)))).
      destruct (Z.eq_dec (A - B) 0) as [E0|NE].
      + right. replace (B - A) with 0 by lia. rewrite E0. cbn. do 2 eexists; split; reflexivity.
      + left. rewrite (opp_normalize (A - B) ez NE). f_equal. lia.
  Qed.

  Lemma SFdiv_opp n d : SFdiv prec emax (SFopp n) d = SFopp (SFdiv prec emax n d).
  Proof.
    destruct n as [sn|sn| |sn mn en]; destruct d as [sd|sd| |sd md ed]; try reflexivity;
      try (cbn; destruct sn, sd; reflexivity).
    cbn [SFopp SFdiv].
    destruct (SFdiv_core_binary prec emax (Z.pos mn) en (Z.pos md) ed) as [[mz ez] lz].
    rewrite opp_round_aux. f_equal. destruct sn, sd; reflexivity.
  Qed.

  Lemma SFdiv_zero_num s s' d : sf_eqv (SFdiv prec emax (S754_zero s) d) (SFopp (SFdiv prec emax (S754_zero s') d)).
  Proof.
    destruct d as [sd|sd| |sd md ed]; try (left; reflexivity);
      right; cbn; do 2 eexists; split; reflexivity.
  Qed.

  Lemma SFopp_eqv x y : sf_eqv x y -> sf_eqv (SFopp x) (SFopp y).
  Proof.
    intros [->|(s & s' & -> & ->)]; [left; reflexivity|right; cbn; do 2 eexists; split; reflexivity].
  Qed.
End B32.

(* swapping the two bands negates the float32 index: for ALL binary32 band values (finite, infinite, NaN),
   exactly, except that a zero result may differ in its sign (0.0 == -0.0) *)
Lemma nd_float_antisym (a b : spec_float) :
  sf_eqv (nd_cell FloatArith b a) (SFopp (nd_cell FloatArith a b)).
Proof.
  unfold nd_cell. cbn [FloatArith sadd ssub sdiv snan widen deqb dofZ].
  rewrite (SFadd_comm prec32 emax32 b a).
  destruct (PrimFloat.eqb (f64_of_b32 (SFadd prec32 emax32 a b)) (Z_to_float 0)).
  - left; reflexivity.
  - destruct (SFsub_swap prec32 emax32 a b) as [E|(s & s' & E1 & E2)].
    + rewrite E. left. apply SFdiv_opp.
    + assert (Z : exists s0, SFsub prec32 emax32 a b = S754_zero s0).
      { destruct (SFsub prec32 emax32 a b); try discriminate. eexists; reflexivity. }
      destruct Z as (s0 & E0). rewrite E1, E0. apply SFdiv_zero_num.
Qed.

(* ---- scaling both bands by a power of two ---- *)
(* x * 2^k on the representation: same mantissa, exponent shifted (zeros, infinities, NaN unchanged) *)
Definition sf_scale (k : Z) (x : spec_float) : spec_float :=
  match x with S754_finite s m e => S754_finite s m (e + k) | _ => x end.

Lemma SFdiv_core_shift prec emax m1 e1 m2 e2 k :
  SFdiv_core_binary prec emax m1 (e1 + k) m2 (e2 + k) = SFdiv_core_binary prec emax m1 e1 m2 e2.
Proof.
  unfold SFdiv_core_binary.
  replace (Zdigits2 m1 + (e1 + k) - (Zdigits2 m2 + (e2 + k))) with (Zdigits2 m1 + e1 - (Zdigits2 m2 + e2)) by lia.
  replace (e1 + k - (e2 + k)) with (e1 - e2) by lia. reflexivity.
Qed.

(* the float32 quotient of two numbers is unchanged, bit for bit, when both are scaled by 2^k — unconditionally *)
Lemma SFdiv_scale prec emax k n d :
  SFdiv prec emax (sf_scale k n) (sf_scale k d) = SFdiv prec emax n d.
Proof.
  destruct n as [sn|sn| |sn mn en]; destruct d as [sd|sd| |sd md ed]; try reflexivity.
  cbn [sf_scale SFdiv]. rewrite SFdiv_core_shift. reflexivity.
Qed.

(* scaling invariance of the kernel when the sum and the difference scale exactly (= no overflow / underflow occurs
   in them) and the zero-denominator guard sees the same thing *)
Lemma nd_float_scale_cond (a b : spec_float) (k : Z) :
  let a' := sf_scale k a in let b' := sf_scale k b in
  SFadd prec32 emax32 a' b' = sf_scale k (SFadd prec32 emax32 a b) ->
  SFsub prec32 emax32 a' b' = sf_scale k (SFsub prec32 emax32 a b) ->
  (forall s m e, PrimFloat.eqb (f64_of_b32 (S754_finite s m e)) (Z_to_float 0) = false) ->
  nd_cell FloatArith a' b' = nd_cell FloatArith a b.
Proof.
  intros a' b' Hadd Hsub Hw. unfold nd_cell. cbn [FloatArith sadd ssub sdiv snan widen deqb dofZ].
  rewrite Hadd, Hsub, SFdiv_scale.
  destruct (SFadd prec32 emax32 a b) as [s|s| |s m e]; try reflexivity.
  cbn [sf_scale]. rewrite !Hw. reflexivity.
Qed.
