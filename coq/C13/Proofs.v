(* C13/Proofs.v — lemmas about the spectral-index kernels.
   Part 1: structural facts valid for EVERY Arith instance (so also the float one).
   Part 2: the exact instance (option Q): formulas, NaN propagation, algebra. *)
Require Import Base.Prelude.
From Coq Require Import QArith Qfield Lqa.
Require Import C13.Arith C13.Model.
Close Scope Q_scope.
Open Scope Z_scope.

(* ------------------------------------------------------------------ *)
(* Part 1: every instance                                              *)
(* ------------------------------------------------------------------ *)
Section Generic.
  Variable A : Arith.
  Let z0 := dofZ A 0.

  Lemma nd_zero_den v1 v2 :
    deqb A (widen A (sadd A v1 v2)) z0 = true -> nd_cell A v1 v2 = snan A.
  Proof. unfold nd_cell, z0; intros H; rewrite H; reflexivity. Qed.

  Lemma nd_nonzero_den v1 v2 :
    deqb A (widen A (sadd A v1 v2)) z0 = false ->
    nd_cell A v1 v2 = sdiv A (ssub A v1 v2) (sadd A v1 v2).
  Proof. unfold nd_cell, z0; intros H; rewrite H; reflexivity. Qed.

  Lemma arvi_zero_den nir red blue :
    deqb A (dadd A (dadd A (widen A nir) (dmul A (dofZ A 2) (widen A red))) (widen A blue)) z0 = true ->
    arvi_cell A nir red blue = snan A.
  Proof. unfold arvi_cell, dnz, z0; intros H; rewrite H; reflexivity. Qed.

  Lemma evi_zero_den c1 c2 soil gain nir red blue :
    deqb A (dadd A (dsub A (dadd A (widen A nir) (dmul A c1 (widen A red))) (dmul A c2 (widen A blue))) soil) z0 = true ->
    evi_cell A c1 c2 soil gain nir red blue = snan A.
  Proof. unfold evi_cell, dnz, z0; intros H; rewrite H; reflexivity. Qed.

  Lemma gci_zero_den nir green :
    deqb A (widen A green) z0 = true -> gci_cell A nir green = snan A.
  Proof. unfold gci_cell, dnz, z0; intros H; rewrite H; reflexivity. Qed.

  Lemma savi_zero_den soil nir red :
    deqb A (dmul A (dadd A (widen A (sadd A nir red)) soil) (dadd A (dofZ A 1) soil)) z0 = true ->
    savi_cell A soil nir red = snan A.
  Proof. unfold savi_cell, dnz, z0; intros H; rewrite H; reflexivity. Qed.

  Lemma sipi_zero_den nir red blue :
    deqb A (widen A (ssub A nir red)) z0 = true -> sipi_cell A nir red blue = snan A.
  Proof. unfold sipi_cell, dnz, z0; intros H; rewrite H; reflexivity. Qed.

  Lemma ebbi_zero_den red swir tir :
    deqb A (dmul A (dofZ A 10) (widen A (ssqrt A (sadd A swir tir)))) z0 = true ->
    ebbi_cell A red swir tir = snan A.
  Proof. unfold ebbi_cell, dnz, z0; intros H; rewrite H; reflexivity. Qed.

  (* the only division a kernel executes has a divisor that did NOT compare equal to zero *)
  Lemma sipi_nonzero_den nir red blue :
    deqb A (widen A (ssub A nir red)) z0 = false ->
    sipi_cell A nir red blue = sdiv A (ssub A nir blue) (ssub A nir red).
  Proof. unfold sipi_cell, dnz, z0; intros H; rewrite H; reflexivity. Qed.

  Lemma alpha32_two nodata r : alpha32 A nodata r = 0 \/ alpha32 A nodata r = 255.
  Proof. unfold alpha32; destruct (sisnan A r || sleb A r (narrow A nodata)); auto. Qed.
  Lemma alpha64_two nodata r : alpha64 A nodata r = 0 \/ alpha64 A nodata r = 255.
  Proof. unfold alpha64; destruct (disnan A r || dleb A r nodata); auto. Qed.
  Lemma alpha32_zero nodata r :
    alpha32 A nodata r = 0 <-> (sisnan A r = true \/ sleb A r (narrow A nodata) = true).
  Proof.
    unfold alpha32. destruct (sisnan A r); destruct (sleb A r (narrow A nodata)); cbn; split; intros H; auto;
      try discriminate; destruct H; discriminate.
  Qed.
  Lemma alpha64_zero nodata r :
    alpha64 A nodata r = 0 <-> (disnan A r = true \/ dleb A r nodata = true).
  Proof.
    unfold alpha64. destruct (disnan A r); destruct (dleb A r nodata); cbn; split; intros H; auto;
      try discriminate; destruct H; discriminate.
  Qed.
End Generic.

(* ---- rasters of any size: the raster functions are cell-wise maps ---- *)
Definition cell {X} (g : list (list X)) (y x : nat) : option X :=
  match nth_error g y with Some r => nth_error r x | None => None end.

Lemma zip2_nth {X Y W} (f : X -> Y -> W) a b i :
  nth_error (zip2 f a b) i =
  match nth_error a i, nth_error b i with Some x, Some y => Some (f x y) | _, _ => None end.
Proof.
  revert b i; induction a as [|x a IH]; intros b i.
  - destruct i; reflexivity.
  - destruct b as [|y b].
    + destruct i; cbn; [reflexivity|]. destruct (nth_error a i); reflexivity.
    + destruct i; cbn; [reflexivity|apply IH].
Qed.

Lemma grid2_cell {X Y W} (f : X -> Y -> W) a b y x :
  cell (grid2 f a b) y x =
  match cell a y x, cell b y x with Some u, Some v => Some (f u v) | _, _ => None end.
Proof.
  unfold cell, grid2. rewrite zip2_nth.
  destruct (nth_error a y) as [ra|]; [|reflexivity].
  destruct (nth_error b y) as [rb|].
  - apply zip2_nth.
  - destruct (nth_error ra x); reflexivity.
Qed.

Lemma grid3_cell {X Y V W} (f : X -> Y -> V -> W) a b c y x :
  cell (grid3 f a b c) y x =
  match cell a y x, cell b y x with
  | Some u, Some v => match cell c y x with Some w => Some (f u v w) | None => None end
  | _, _ => None
  end.
Proof.
  change (grid3 f a b c) with (grid2 (fun p w => f (fst p) (snd p) w) (grid2 pair a b) c).
  rewrite grid2_cell, grid2_cell.
    destruct (cell a y x); [|reflexivity]. destruct (cell b y x); [|reflexivity].
    destruct (cell c y x); reflexivity.
Qed.

(* ------------------------------------------------------------------ *)
(* Part 2: the exact instance                                          *)
(* ------------------------------------------------------------------ *)
Open Scope Q_scope.

Definition oeq (a b : oq) : Prop :=
  match a, b with Some x, Some y => x == y | None, None => True | _, _ => False end.
Definition oopp (a : oq) : oq := olift1 Qopp a.

(* [out] is NaN when [den] is zero and the rational [val] otherwise *)
Definition idx_spec (den val : Q) (out : oq) : Prop :=
  (den == 0 -> out = None) /\ (~ den == 0 -> exists q, out = Some q /\ q == val).

Lemma Qeq_bool_true x y : Qeq_bool x y = true <-> x == y.
Proof. apply Qeq_bool_iff. Qed.
Lemma Qeq_bool_false x y : Qeq_bool x y = false <-> ~ x == y.
Proof.
  split; intros H.
  - intros E. apply Qeq_bool_iff in E. congruence.
  - destruct (Qeq_bool x y) eqn:E; [|reflexivity]. apply Qeq_bool_iff in E. contradiction.
Qed.
Lemma Qle_bool_true x y : Qle_bool x y = true <-> x <= y.
Proof. apply Qle_bool_iff. Qed.
Lemma Qle_bool_false x y : Qle_bool x y = false <-> y < x.
Proof.
  split; intros H.
  - apply Qnot_le_lt. intros E. apply Qle_bool_iff in E. congruence.
  - destruct (Qle_bool x y) eqn:E; [|reflexivity]. apply Qle_bool_iff in E. apply Qlt_not_le in H. contradiction.
Qed.
Lemma Qlt_bool_true x y : Qlt_bool x y = true <-> x < y.
Proof.
  unfold Qlt_bool. destruct (Qle_bool y x) eqn:E; cbn.
  - apply Qle_bool_true in E. split; [discriminate|]. intros H. apply Qlt_not_le in H. contradiction.
  - apply Qle_bool_false in E. tauto.
Qed.

(* generic shape of a guarded division in the exact instance *)
Lemma guarded_div_spec (num den : Q) :
  idx_spec den (num / den)
    (if negb (Qeq_bool den 0) then odiv (Some num) (Some den) else None).
Proof.
  unfold idx_spec, odiv. destruct (Qeq_bool den 0) eqn:E; cbn.
  - apply Qeq_bool_true in E. split; [reflexivity|]. intros H; contradiction.
  - apply Qeq_bool_false in E. split; [intros H; contradiction|].
    intros _. eexists; split; [reflexivity|reflexivity].
Qed.

Section ExactFacts.
  Variable qsqrt : Q -> Q.
  Notation E := (ExactArith qsqrt).

  (* ---- the kernels are the band formulas ---- *)
  Lemma nd_formula a b :
    idx_spec (a + b) ((a - b) / (a + b)) (nd_cell E (Some a) (Some b)).
  Proof.
    unfold idx_spec, nd_cell; cbn. unfold odiv.
    destruct (Qeq_bool (a + b) (inject_Z 0)) eqn:E0; cbn.
    - apply Qeq_bool_true in E0. split; [reflexivity|]. intros H. elim H. exact E0.
    - apply Qeq_bool_false in E0. split; [intros H; elim E0; exact H|].
      intros _. change (Qeq_bool (a + b) 0) with (Qeq_bool (a + b) (inject_Z 0)).
      apply Qeq_bool_false in E0. rewrite E0. eexists; split; reflexivity.
  Qed.

  Lemma sipi_formula n r b :
    idx_spec (n - r) ((n - b) / (n - r)) (sipi_cell E (Some n) (Some r) (Some b)).
  Proof.
    unfold sipi_cell, dnz. cbn -[odiv]. apply (guarded_div_spec (n - b) (n - r)).
  Qed.

  Lemma arvi_formula n r b :
    idx_spec (n + 2 * r + b) ((n - 2 * r + b) / (n + 2 * r + b)) (arvi_cell E (Some n) (Some r) (Some b)).
  Proof.
    unfold arvi_cell, dnz. cbn -[odiv]. apply (guarded_div_spec (n - 2 * r + b) (n + 2 * r + b)).
  Qed.

  Lemma gci_formula n g :
    idx_spec g (n / g - 1) (gci_cell E (Some n) (Some g)).
  Proof.
    unfold gci_cell, dnz, idx_spec; cbn. change (inject_Z 0) with 0. change (inject_Z 1) with 1.
    destruct (Qeq_bool g 0) eqn:E0; cbn.
    - apply Qeq_bool_true in E0. split; [reflexivity|]. intros H; contradiction.
    - apply Qeq_bool_false in E0. split; [intros H; contradiction|]. intros _.
      eexists; split; reflexivity.
  Qed.

  Lemma savi_formula L n r :
    idx_spec ((n + r + L) * (1 + L)) ((n - r) / ((n + r + L) * (1 + L)))
             (savi_cell E (Some L) (Some n) (Some r)).
  Proof.
    unfold savi_cell, dnz. cbn -[odiv]. apply (guarded_div_spec (n - r) ((n + r + L) * (1 + L))).
  Qed.

  Lemma evi_formula c1 c2 L G n r b :
    idx_spec (n + c1 * r - c2 * b + L) (G * ((n - r) / (n + c1 * r - c2 * b + L)))
             (evi_cell E (Some c1) (Some c2) (Some L) (Some G) (Some n) (Some r) (Some b)).
  Proof.
    unfold evi_cell, dnz, idx_spec; cbn. change (inject_Z 0) with 0.
    destruct (Qeq_bool (n + c1 * r - c2 * b + L) 0) eqn:E0; cbn.
    - apply Qeq_bool_true in E0. split; [reflexivity|]. intros H; contradiction.
    - apply Qeq_bool_false in E0. split; [intros H; contradiction|]. intros _.
      eexists; split; reflexivity.
  Qed.

  (* EBBI: NaN when swir + tir is negative (sqrt) or when 10*sqrt(swir+tir) is zero *)
  Lemma ebbi_formula r s t :
    (s + t < 0 -> ebbi_cell E (Some r) (Some s) (Some t) = None) /\
    (0 <= s + t ->
     idx_spec (10 * qsqrt (s + t)) ((s - r) / (10 * qsqrt (s + t))) (ebbi_cell E (Some r) (Some s) (Some t))).
  Proof.
    unfold ebbi_cell, dnz; cbn -[odiv]. split; intros H.
    - apply Qle_bool_false in H. rewrite H. reflexivity.
    - apply Qle_bool_true in H. rewrite H. cbn -[odiv].
      apply (guarded_div_spec (s - r) (10 * qsqrt (s + t))).
  Qed.

  (* ---- NaN bands propagate ---- *)
  Ltac nanprop :=
    repeat match goal with
           | x : T32 _ |- _ => destruct x as [?|]
           | x : T64 _ |- _ => destruct x as [?|]
           end;
    unfold nd_cell, gci_cell, sipi_cell, arvi_cell, savi_cell, evi_cell, ebbi_cell, dnz; cbn;
    repeat match goal with |- context [if ?c then _ else _] => destruct c; cbn end;
    reflexivity.
  Lemma nd_nan_l b : nd_cell E None b = None. Proof. nanprop. Qed.
  Lemma nd_nan_r a : nd_cell E a None = None. Proof. nanprop. Qed.
  Lemma gci_nan_l g : gci_cell E None g = None. Proof. nanprop. Qed.
  Lemma gci_nan_r n : gci_cell E n None = None. Proof. nanprop. Qed.
  Lemma sipi_nan_1 r b : sipi_cell E None r b = None. Proof. nanprop. Qed.
  Lemma sipi_nan_2 n b : sipi_cell E n None b = None. Proof. nanprop. Qed.
  Lemma sipi_nan_3 n r : sipi_cell E n r None = None. Proof. nanprop. Qed.
  Lemma arvi_nan_1 r b : arvi_cell E None r b = None. Proof. nanprop. Qed.
  Lemma arvi_nan_2 n b : arvi_cell E n None b = None. Proof. nanprop. Qed.
  Lemma arvi_nan_3 n r : arvi_cell E n r None = None. Proof. nanprop. Qed.
  Lemma savi_nan_1 L r : savi_cell E L None r = None. Proof. nanprop. Qed.
  Lemma savi_nan_2 L n : savi_cell E L n None = None. Proof. nanprop. Qed.
  Lemma evi_nan_1 c1 c2 L G r b : evi_cell E c1 c2 L G None r b = None. Proof. nanprop. Qed.
  Lemma evi_nan_2 c1 c2 L G n b : evi_cell E c1 c2 L G n None b = None. Proof. nanprop. Qed.
  Lemma evi_nan_3 c1 c2 L G n r : evi_cell E c1 c2 L G n r None = None. Proof. nanprop. Qed.
  Lemma ebbi_nan_1 s t : ebbi_cell E None s t = None. Proof. nanprop. Qed.
  Lemma ebbi_nan_2 r t : ebbi_cell E r None t = None. Proof. nanprop. Qed.
  Lemma ebbi_nan_3 r s : ebbi_cell E r s None = None. Proof. nanprop. Qed.

  (* ---- normalised difference: range, antisymmetry, scaling ---- *)
  Lemma nd_value a b : ~ a + b == 0 -> nd_cell E (Some a) (Some b) = Some ((a - b) / (a + b)).
  Proof.
    intros H. unfold nd_cell; cbn. unfold odiv. change (inject_Z 0) with 0.
    apply Qeq_bool_false in H. rewrite H. reflexivity.
  Qed.
  Lemma nd_none a b : a + b == 0 -> nd_cell E (Some a) (Some b) = None.
  Proof.
    intros H. unfold nd_cell; cbn. change (inject_Z 0) with 0.
    apply Qeq_bool_true in H. rewrite H. reflexivity.
  Qed.

  Lemma nd_range a b : 0 <= a -> 0 <= b ->
    nd_cell E (Some a) (Some b) = None \/
    exists q, nd_cell E (Some a) (Some b) = Some q /\ -1 <= q <= 1.
  Proof.
    intros Ha Hb. destruct (Qeq_dec (a + b) 0) as [Z|NZ].
    - left. apply nd_none; exact Z.
    - right. rewrite (nd_value a b NZ). eexists; split; [reflexivity|].
      assert (P : 0 < a + b).
      { destruct (Qlt_le_dec 0 (a + b)) as [L|L]; [exact L|]. elim NZ. lra. }
      split.
      + apply Qle_shift_div_l; [exact P|]. lra.
      + apply Qle_shift_div_r; [exact P|]. lra.
  Qed.

  Lemma nd_antisym a b : oeq (nd_cell E (Some b) (Some a)) (oopp (nd_cell E (Some a) (Some b))).
  Proof.
    destruct (Qeq_dec (a + b) 0) as [Z|NZ].
    - rewrite (nd_none a b Z). rewrite (nd_none b a); [exact I|]. lra.
    - rewrite (nd_value a b NZ). rewrite (nd_value b a); [|intros H; apply NZ; lra].
      cbn. field. repeat split; intros H; apply NZ; lra.
  Qed.

  Lemma nd_scale s a b : ~ s == 0 ->
    oeq (nd_cell E (Some (s * a)) (Some (s * b))) (nd_cell E (Some a) (Some b)).
  Proof.
    intros Hs. destruct (Qeq_dec (a + b) 0) as [Z|NZ].
    - rewrite (nd_none a b Z). rewrite nd_none; [exact I|].
      setoid_replace (s * a + s * b) with (s * (a + b)) by ring. rewrite Z. ring.
    - assert (NZ' : ~ s * a + s * b == 0).
      { intros H. setoid_replace (s * a + s * b) with (s * (a + b)) in H by ring.
        apply Qmult_integral in H. tauto. }
      rewrite (nd_value a b NZ), (nd_value _ _ NZ'). cbn. field.
      repeat split; try exact NZ; try exact Hs.
      intros H. apply NZ'. rewrite <- H. ring.
  Qed.

  (* docstring: "When set to zero, savi will return the same as ndvi" *)
  Lemma savi_zero_is_ndvi n r :
    oeq (savi_cell E (Some 0) (Some n) (Some r)) (ndvi_cell E (Some n) (Some r)).
  Proof.
    unfold ndvi_cell. destruct (savi_formula 0 n r) as [Hz Hn].
    destruct (Qeq_dec (n + r) 0) as [Z|NZ].
    - rewrite (nd_none n r Z). rewrite Hz; [exact I|]. lra.
    - rewrite (nd_value n r NZ). destruct Hn as (q & Hq & Hv).
      + intros H. apply NZ. lra.
      + rewrite Hq. cbn. rewrite Hv. field. repeat split; intros H; apply NZ; lra.
  Qed.

  (* ---- parameter guards ---- *)
  Lemma savi_ok_exact q : savi_ok E (Some q) = true <-> -1 <= q <= 1.
  Proof.
    unfold savi_ok; cbn. change (inject_Z (-1)) with (-1). change (inject_Z 1) with 1.
    rewrite andb_true_iff, !Qle_bool_true. tauto.
  Qed.
  Lemma savi_ok_nan : savi_ok E None = false. Proof. reflexivity. Qed.

  Lemma evi_ok_exact L G : evi_ok E (Some L) (Some G) = true <-> (-1 <= L <= 1 /\ 0 <= G).
  Proof.
    unfold evi_ok; cbn. change (inject_Z (-1)) with (-1). change (inject_Z 1) with 1. change (inject_Z 0) with 0.
    rewrite andb_true_iff, !negb_true_iff, orb_false_iff.
    unfold Qlt_bool. rewrite !negb_false_iff, !Qle_bool_true. tauto.
  Qed.

  (* ---- alpha ---- *)
  Lemma alpha64_exact nodata r :
    alpha64 E (Some nodata) r = 0%Z <-> (r = None \/ exists q, r = Some q /\ q <= nodata).
  Proof.
    rewrite alpha64_zero. destruct r as [q|]; cbn.
    - rewrite Qle_bool_true. split.
      + intros [H|H]; [discriminate|]. right. eexists; split; [reflexivity|exact H].
      + intros [H|(q' & H1 & H2)]; [discriminate|]. inversion H1; subst. right; exact H2.
    - split; intros _; left; reflexivity.
  Qed.
  Lemma alpha32_exact nodata r :
    alpha32 E (Some nodata) r = 0%Z <-> (r = None \/ exists q, r = Some q /\ q <= nodata).
  Proof. apply alpha64_exact. Qed.
End ExactFacts.
