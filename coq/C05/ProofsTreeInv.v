(* C05/ProofsTreeInv.v — the tree invariant (representation + distinct ids + valid
   cached maxima) and its preservation by the two rotations. *)
Require Import Base.Prelude.
Require Import C05.Tree C05.ProofsTreeBase C05.ProofsTreeRot.
Require Import Permutation.

Lemma NoDup_app_iff {A} (l1 l2 : list A) :
  NoDup (l1 ++ l2) <-> NoDup l1 /\ NoDup l2 /\ (forall z, In z l1 -> ~ In z l2).
Proof.
  induction l1 as [|a l1 IH]; simpl.
  - split; [intros H; repeat split; auto; constructor | tauto].
  - rewrite !NoDup_cons_iff, IH, in_app_iff. split.
    + intros (Ha & H1 & H2 & H3). repeat split; auto; try tauto.
      intros z [->|Hz]; [tauto|auto].
    + intros ((Ha & H1) & H2 & H3). split; [|split; [exact H1|split; [exact H2|]]].
      * intros [H|H]; [tauto|]. apply (H3 a); auto.
      * intros z Hz. apply H3. auto.
Qed.

Section Inv.
  Context {K G N : Type}.
  Variable ggt : G -> G -> bool.
  Variable nmin : N -> G.
  Variable smallest : G.
  Notation heap := (@heap K G N).
  Notation left_rotate := (@left_rotate K G N ggt nmin).
  Notation right_rotate := (@right_rotate K G N ggt nmin).
  Notation hmin := (@hmin K G N nmin).
  Notation rval := (@rval G ggt).

  (* a <= b *)
  Definition gle (a b : G) : Prop := ggt a b = false.
  Hypothesis ggt_asym : forall a b, ggt a b = true -> ggt b a = false.
  Hypothesis gle_trans : forall a b c, gle a b -> gle b c -> gle a c.

  Lemma gle_refl a : gle a a.
  Proof. unfold gle. destruct (ggt a a) eqn:E; [|reflexivity]. now rewrite (ggt_asym _ _ E) in E. Qed.

  (* m is the maximum of hm over the non-empty id list l *)
  Definition MaxV (hm : Z -> G) (m : G) (l : list Z) : Prop :=
    (forall j, In j l -> gle (hm j) m) /\ (exists j, In j l /\ gle m (hm j)).
  (* value cached for a possibly empty subtree *)
  Definition SubV (hm : Z -> G) (m : G) (l : list Z) : Prop :=
    (l = [] /\ m = smallest) \/ MaxV hm m l.

  Lemma rval_ge a b o : gle a (rval a b o) /\ gle b (rval a b o) /\ gle o (rval a b o).
  Proof.
    unfold ProofsTreeRot.rval. destruct (ggt a b) eqn:E1.
    - destruct (ggt a o) eqn:E2.
      + repeat split; [apply gle_refl|apply ggt_asym; exact E1|apply ggt_asym; exact E2].
      + repeat split; [exact E2| |apply gle_refl].
        apply gle_trans with a; [apply ggt_asym; exact E1|exact E2].
    - destruct (ggt b o) eqn:E2.
      + repeat split; [exact E1|apply gle_refl|apply ggt_asym; exact E2].
      + repeat split; [|exact E2|apply gle_refl]. apply gle_trans with b; [exact E1|exact E2].
  Qed.
  Lemma rval_in a b o : rval a b o = a \/ rval a b o = b \/ rval a b o = o.
  Proof. unfold ProofsTreeRot.rval. destruct (ggt a b); [destruct (ggt a o)|destruct (ggt b o)]; auto. Qed.

  Lemma rval_MaxV hm ma mb l i r :
    SubV hm ma l -> SubV hm mb r -> gle smallest (hm i) ->
    MaxV hm (rval ma mb (hm i)) (l ++ i :: r).
  Proof.
    intros Hl Hr Hs. destruct (rval_ge ma mb (hm i)) as (Ga & Gb & Go). split.
    - intros j Hj. apply in_app_or in Hj. destruct Hj as [Hj|[<-|Hj]].
      + destruct Hl as [[-> _]|[U _]]; [contradiction|]. eapply gle_trans; [apply U; exact Hj|exact Ga].
      + exact Go.
      + destruct Hr as [[-> _]|[U _]]; [contradiction|]. eapply gle_trans; [apply U; exact Hj|exact Gb].
    - destruct (rval_in ma mb (hm i)) as [E|[E|E]]; rewrite E.
      + destruct Hl as [[_ ->]|[_ (j & Hj & Aj)]].
        * exists i. split; [apply in_or_app; right; now left|exact Hs].
        * exists j. split; [apply in_or_app; now left|exact Aj].
      + destruct Hr as [[_ ->]|[_ (j & Hj & Aj)]].
        * exists i. split; [apply in_or_app; right; now left|exact Hs].
        * exists j. split; [apply in_or_app; right; now right|exact Aj].
      + exists i. split; [apply in_or_app; right; now left|apply gle_refl].
  Qed.

  Fixpoint MaxOK (h : heap) (s : shape) : Prop :=
    match s with
    | L => True
    | Nd l i r => MaxOK h l /\ MaxOK h r /\ MaxV (hmin h) (hmax h i) (ids (Nd l i r))
    end.
  Fixpoint MaxOKC (h : heap) (c : ctx) (l : list Z) : Prop :=
    match c with
    | Top => True
    | CL c' i r => MaxOK h r /\ MaxV (hmin h) (hmax h i) (l ++ i :: ids r) /\ MaxOKC h c' (l ++ i :: ids r)
    | CR c' l0 i => MaxOK h l0 /\ MaxV (hmin h) (hmax h i) (ids l0 ++ i :: l) /\ MaxOKC h c' (ids l0 ++ i :: l)
    end.

  Lemma MaxOK_plug h c : forall s, MaxOK h (plug c s) <-> MaxOK h s /\ MaxOKC h c (ids s).
  Proof.
    induction c as [|c IH i r|c IH l i]; intros s; simpl.
    - tauto.
    - rewrite IH. simpl. tauto.
    - rewrite IH. simpl. tauto.
  Qed.

  Lemma MaxV_ext hm hm' m l : (forall j, In j l -> hm' j = hm j) -> MaxV hm m l -> MaxV hm' m l.
  Proof.
    intros E [U (j & Hj & A)]. split.
    - intros k Hk. rewrite E by exact Hk. apply U; exact Hk.
    - exists j. split; [exact Hj|]. rewrite E by exact Hj. exact A.
  Qed.

  Lemma MaxOK_ext h h' : forall s,
    (forall j, In j (ids s) -> hmax h' j = hmax h j /\ hval h' j = hval h j) -> MaxOK h s -> MaxOK h' s.
  Proof.
    induction s as [|l IHl i r IHr]; simpl; intros E H; [exact I|].
    destruct H as (Hl & Hr & Hm). split; [|split].
    - apply IHl; auto. intros j Hj. apply E. apply in_or_app; now left.
    - apply IHr; auto. intros j Hj. apply E. apply in_or_app; right; now right.
    - destruct (E i) as [-> _]; [apply in_or_app; right; now left|].
      eapply MaxV_ext; [|exact Hm]. intros j Hj. unfold Tree.hmin. now destruct (E j Hj) as [_ ->].
  Qed.

  Lemma MaxOKC_ext h h' : forall c l,
    (forall j, hval h' j = hval h j) ->
    (forall j, In j (cids c) -> hmax h' j = hmax h j) -> MaxOKC h c l -> MaxOKC h' c l.
  Proof.
    induction c as [|c IH i r|c IH l0 i]; simpl; intros l Ev Em H; [exact I| |].
    - destruct H as (Hr & Hm & HC). split; [|split].
      + eapply MaxOK_ext; [|exact Hr]. intros j Hj. split; [apply Em; right; apply in_or_app; now left|apply Ev].
      + rewrite Em by now left. eapply MaxV_ext; [|exact Hm]. intros j _. unfold Tree.hmin. now rewrite Ev.
      + apply IH; auto. intros j Hj. apply Em. right. apply in_or_app. now right.
    - destruct H as (Hr & Hm & HC). split; [|split].
      + eapply MaxOK_ext; [|exact Hr]. intros j Hj. split; [apply Em; right; apply in_or_app; now left|apply Ev].
      + rewrite Em by now left. eapply MaxV_ext; [|exact Hm]. intros j _. unfold Tree.hmin. now rewrite Ev.
      + apply IH; auto. intros j Hj. apply Em. right. apply in_or_app. now right.
  Qed.

  (* what the cached maximum at the pointer to a well-formed subtree is *)
  Lemma sub_max h p par s :
    Rep h p par s -> MaxOK h s -> hmax h NIL = smallest -> SubV (hmin h) (hmax h p) (ids s).
  Proof.
    destruct s as [|l i r]; simpl.
    - intros -> _ E. left. auto.
    - intros (-> & _) (_ & _ & Hm) _. right. exact Hm.
  Qed.

  (* ---- the invariant ---- *)
  Definition TInv (h : heap) (root : Z) (s : shape) : Prop :=
    Rep h root NIL s /\ NoDup (ids s) /\ MaxOK h s /\ hmax h NIL = smallest /\
    (forall j, In j (ids s) -> gle smallest (hmin h j)).

  Definition same_kvc (h h' : heap) : Prop :=
    forall j, hkey h' j = hkey h j /\ hval h' j = hval h j /\ hred h' j = hred h j.

  Lemma NoDup_mid {T} (l1 l2 l3 : list T) :
    NoDup (l1 ++ l2 ++ l3) -> NoDup l2 /\ NoDup (l1 ++ l3) /\ (forall z, In z l2 -> ~ In z (l1 ++ l3)).
  Proof.
    intros H. assert (H' : NoDup (l2 ++ l1 ++ l3)).
    { eapply Permutation_NoDup; [|exact H]. apply Permutation_app_swap_app. }
    apply NoDup_app_iff in H'. exact H'.
  Qed.

  Lemma cpar_cases (h : heap) c p root : RepC h c p root -> cpar c = NIL \/ (In (cpar c) (cids c) /\ cpar c <> NIL).
  Proof. destruct c; simpl; [auto| |]; intros (Hi & _); right; split; auto. Qed.

  (* the subtree at p gets a new parent; its other links are untouched *)
  Lemma Rep_reparent (h h' : heap) p par par' s :
    Rep h p par s -> NoDup (ids s) ->
    (forall j, In j (ids s) -> j <> p -> same_ptrs h h' j) ->
    (p <> NIL -> hleft h' p = hleft h p /\ hright h' p = hright h p /\ hparent h' p = par') ->
    Rep h' p par' s.
  Proof.
    destruct s as [|l i r]; simpl; [auto|].
    intros (-> & Hi & Hp & Hl & Hr) HN Hs Hq. destruct (Hq Hi) as (E1 & E2 & E3).
    apply NoDup_app_iff in HN. destruct HN as (N1 & N2 & N3). apply NoDup_cons_iff in N2. destruct N2 as [N2 N4].
    rewrite E1, E2. repeat split; auto.
    - eapply Rep_ext; [|exact Hl]. intros j Hj. apply Hs; [apply in_or_app; now left|].
      intros ->. apply (N3 i Hj). now left.
    - eapply Rep_ext; [|exact Hr]. intros j Hj. apply Hs; [apply in_or_app; right; now right|].
      intros ->. contradiction.
  Qed.

  Lemma lrot_inv (h : heap) root x h' root' c a r :
    TInv h root (plug c (Nd a x r)) ->
    left_rotate h root x = Some (h', root') ->
    exists b y d, r = Nd b y d /\ y = hright h x /\
      TInv h' root' (plug c (Nd (Nd a x b) y d)) /\ same_kvc h h' /\ hparent h' x = y /\
      hmax h' NIL = hmax h NIL.
  Proof.
    intros (HR & HN & HM & HNil & HS) Hrot.
    apply Rep_plug in HR. destruct HR as (p & HC & Hx). simpl in Hx.
    destruct Hx as (-> & Hxn & Hxp & Ha & Hr).
    destruct r as [|b y d].
    { simpl in Hr. unfold Tree.left_rotate in Hrot. rewrite Hr in Hrot.
      rewrite Z.eqb_refl, orb_true_r in Hrot. discriminate. }
    simpl in Hr. destruct Hr as (Ey & Hyn & Hyp & Hb & Hd).
    exists b, y, d. split; [reflexivity|]. split; [auto|].
    pose proof HN as HN0. rewrite ids_plug in HN. simpl in HN.
    apply NoDup_mid in HN. destruct HN as (NI & NC & DC).
    assert (DC' : forall z, In z (ids a ++ x :: ids b ++ y :: ids d) -> ~ In z (cids c)).
    { intros z Hz Hc. apply (DC z Hz). apply in_or_app. apply cids_in. exact Hc. }
    apply NoDup_app_iff in NI. destruct NI as (Na & NI & Dax).
    apply NoDup_cons_iff in NI. destruct NI as (Nx & NI).
    apply NoDup_app_iff in NI. destruct NI as (Nb & NI & Dby).
    apply NoDup_cons_iff in NI. destruct NI as (Ny & Nd').
    assert (Hxy : x <> y). { intros ->. apply Nx. apply in_or_app. right. now left. }
    pose proof (Rep_root _ _ _ _ Hb) as Ryl. pose proof (Rep_root _ _ _ _ Hd) as Ryr.
    pose proof (Rep_root _ _ _ _ Ha) as Rxl.
    pose proof (cpar_cases _ _ _ _ HC) as Rxp.
    pose proof (Rep_NIL_notin _ _ _ _ Ha) as NNa. pose proof (Rep_NIL_notin _ _ _ _ Hb) as NNb.
    pose proof (Rep_NIL_notin _ _ _ _ Hd) as NNd.
    assert (Ix : In x (ids a ++ x :: ids b ++ y :: ids d)) by (apply in_or_app; right; now left).
    assert (Iy : In y (ids a ++ x :: ids b ++ y :: ids d)).
    { apply in_or_app; right; right. apply in_or_app; right; now left. }
    assert (Ib : forall z, In z (ids b) -> In z (ids a ++ x :: ids b ++ y :: ids d)).
    { intros z Hz. apply in_or_app; right; right. apply in_or_app; now left. }
    assert (Id : forall z, In z (ids d) -> In z (ids a ++ x :: ids b ++ y :: ids d)).
    { intros z Hz. apply in_or_app; right; right. apply in_or_app; right; now right. }
    assert (Ia : forall z, In z (ids a) -> In z (ids a ++ x :: ids b ++ y :: ids d)).
    { intros z Hz. apply in_or_app; now left. }
    (* the facts about the rotated heap *)
    subst y.
    destruct (lrot_facts ggt nmin h root x h' root' Hrot) as
        (_ & _ & Froot & Fxl & Fxr & Fxp & Fyl & Fyr & Fyp & Fb & Fp & Foth & Fkv & Fmax & Fmx & Fmy).
    { auto. }
    { destruct Ryl as [E|E]; [rewrite E; auto|]. intros E'. rewrite E' in E. apply Nx. apply in_or_app. now left. }
    { destruct Ryl as [E|E]; [rewrite E; auto|]. intros E'. rewrite E' in E. apply (Dby _ E). now left. }
    { destruct Ryr as [E|E]; [rewrite E; auto|]. intros E'. rewrite E' in E. apply Nx. apply in_or_app. right. now right. }
    { rewrite Hxp. destruct Rxp as [E|[E E']]; [rewrite E; auto|]. intros E2. rewrite E2 in E. exact (DC' _ Ix E). }
    { rewrite Hxp. destruct Rxp as [E|[E E']]; [rewrite E; auto|]. intros E2. rewrite E2 in E. exact (DC' _ Iy E). }
    { rewrite Hxp. intros E. destruct Rxp as [E1|[E1 E2]]; [exact E1|]. exfalso.
      destruct Ryl as [E3|E3]; [congruence|]. rewrite E in E3. exact (DC' _ (Ib _ E3) E1). }
    set (y := hright h x) in *. set (yl := hleft h y) in *.
    (* links of untouched nodes *)
    assert (Fsub : forall z, z <> NIL -> In z (ids a) \/ (In z (ids b) /\ z <> yl) \/ In z (ids d) \/
                                       (In z (cids c) /\ z <> cpar c) -> same_ptrs h h' z).
    { intros z Hzn Hz. apply Foth.
      - intros ->. destruct Hz as [Hz|[[Hz _]|[Hz|[Hz _]]]].
        + apply (Dax _ Hz). now left.
        + apply Nx. apply in_or_app. now left.
        + apply Nx. apply in_or_app. right. now right.
        + exact (DC' _ Ix Hz).
      - intros ->. destruct Hz as [Hz|[[Hz _]|[Hz|[Hz _]]]].
        + apply (Dax _ Hz). right. apply in_or_app. right. now left.
        + apply (Dby _ Hz). now left.
        + contradiction.
        + exact (DC' _ Iy Hz).
      - intros ->. destruct Ryl as [E|E]; [congruence|]. destruct Hz as [Hz|[[_ Hz]|[Hz|[Hz _]]]].
        + apply (Dax _ Hz). right. apply in_or_app. now left.
        + congruence.
        + apply (Dby _ E). now right.
        + exact (DC' _ (Ib _ E) Hz).
      - rewrite Hxp. intros ->. destruct Rxp as [E|[E E']]; [congruence|]. destruct Hz as [Hz|[[Hz _]|[Hz|[_ Hz]]]].
        + exact (DC' _ (Ia _ Hz) E).
        + exact (DC' _ (Ib _ Hz) E).
        + exact (DC' _ (Id _ Hz) E).
        + congruence. }
    assert (Hids : ids (plug c (Nd (Nd a x b) y d)) = ids (plug c (Nd a x (Nd b y d)))).
    { rewrite !ids_plug. f_equal. simpl. repeat (rewrite <- app_assoc; simpl). reflexivity. }
    assert (NCc : NoDup (cids c)).
    { eapply Permutation_NoDup; [symmetry; apply cids_perm|exact NC]. }
    pose proof (RepC_NIL_notin _ _ _ _ HC) as NNc.
    split; [|split; [exact Fkv|split; [exact Fxp|]]].
    2:{ apply Fmax; auto. }
    assert (Hhm : forall j, hmin h' j = hmin h j).
    { intros j. unfold Tree.hmin. destruct (Fkv j) as (_ & -> & _). reflexivity. }
    apply MaxOK_plug in HM. destruct HM as (HMs & HMc). simpl in HMs.
    destruct HMs as (HMa & (HMb & HMd & _) & _).
    assert (Sx : gle smallest (hmin h x)).
    { apply HS. rewrite ids_plug. apply in_or_app; right. apply in_or_app; left. exact Ix. }
    assert (Sy : gle smallest (hmin h y)).
    { apply HS. rewrite ids_plug. apply in_or_app; right. apply in_or_app; left. exact Iy. }
    assert (Mx : MaxV (hmin h) (hmax h' x) (ids a ++ x :: ids b)).
    { rewrite Fmx. apply rval_MaxV; [eapply sub_max; eauto|eapply sub_max; eauto|exact Sx]. }
    assert (My : MaxV (hmin h) (hmax h' y) ((ids a ++ x :: ids b) ++ y :: ids d)).
    { rewrite Fmy. apply rval_MaxV; [right; rewrite <- Fmx; exact Mx|eapply sub_max; eauto|exact Sy]. }
    unfold TInv. split; [|split; [|split; [|split]]].
    - (* representation *)
      apply Rep_plug. exists y. split.
      + eapply RepC_swap; [exact HC| |].
        * intros j Hj Hne. apply Fsub; [|right; right; right; auto]. intros ->. contradiction.
        * destruct c as [|c i r0|c l0 i]; simpl in *.
          -- rewrite Froot, Hxp. reflexivity.
          -- destruct HC as (Hi & Hil & Hip & Hr0 & HC). apply NoDup_cons_iff in NCc. destruct NCc as [NCi _].
             destruct (Fp ltac:(rewrite Hxp; exact Hi)) as (G1 & G2 & _). rewrite Hxp in G1, G2.
             destruct (G2 Hil) as (G3 & G4). rewrite Froot, Hxp.
             destruct (Z.eqb_spec i NIL); [contradiction|]. repeat split; auto.
             ++ intros Hc. apply NCi. apply in_or_app. now left.
             ++ intros Hc. apply NCi. apply in_or_app. now right.
          -- destruct HC as (Hi & Hil & Hip & Hr0 & HC). apply NoDup_cons_iff in NCc. destruct NCc as [NCi _].
             destruct (Fp ltac:(rewrite Hxp; exact Hi)) as (G1 & _ & G2). rewrite Hxp in G1, G2.
             assert (Hne : hleft h i <> x).
             { destruct (Rep_root _ _ _ _ Hr0) as [E|E]; [congruence|]. intros E'. rewrite E' in E.
               apply (DC' _ Ix). right. apply in_or_app. now left. }
             destruct (G2 Hne) as (G3 & G4). rewrite Froot, Hxp.
             destruct (Z.eqb_spec i NIL); [contradiction|]. repeat split; auto.
             ++ intros Hc. apply NCi. apply in_or_app. now left.
             ++ intros Hc. apply NCi. apply in_or_app. now right.
      + simpl. rewrite Fyl, Fyr, Fyp, Fxl, Fxr, Fxp. repeat split; auto.
        * eapply Rep_ext; [|exact Ha]. intros j Hj. apply Fsub; [intros ->; contradiction|auto].
        * eapply Rep_reparent; [exact Hb|exact Nb| |].
          -- intros j Hj Hne. apply Fsub; [intros ->; contradiction|auto].
          -- intros Hn. destruct (Fb Hn) as (G1 & G2 & G3). auto.
        * eapply Rep_ext; [|exact Hd]. intros j Hj. apply Fsub; [intros ->; contradiction|auto].
    - rewrite Hids. exact HN0.
    - apply MaxOK_plug. split.
      + simpl. split; [split; [|split]|split].
        * eapply MaxOK_ext; [|exact HMa]. intros j Hj. split; [|apply Fkv]. apply Fmax.
          -- intros ->. apply (Dax _ Hj). now left.
          -- intros ->. apply (Dax _ Hj). right. apply in_or_app. right. now left.
        * eapply MaxOK_ext; [|exact HMb]. intros j Hj. split; [|apply Fkv]. apply Fmax.
          -- intros ->. apply Nx. apply in_or_app. now left.
          -- intros ->. apply (Dby _ Hj). now left.
        * eapply MaxV_ext; [|exact Mx]. intros j _. apply Hhm.
        * eapply MaxOK_ext; [|exact HMd]. intros j Hj. split; [|apply Fkv]. apply Fmax.
          -- intros ->. apply Nx. apply in_or_app. right. now right.
          -- intros ->. contradiction.
        * eapply MaxV_ext; [|exact My]. intros j _. apply Hhm.
      + replace (ids (Nd (Nd a x b) y d)) with (ids (Nd a x (Nd b y d)))
          by (simpl; rewrite <- !app_assoc; reflexivity).
        eapply MaxOKC_ext; [| |exact HMc].
        * intros j. apply Fkv.
        * intros j Hj. apply Fmax; intros ->; [exact (DC' _ Ix Hj)|exact (DC' _ Iy Hj)].
    - rewrite Fmax; auto.
    - intros j Hj. rewrite Hids in Hj. rewrite Hhm. apply HS. exact Hj.
  Qed.


  Lemma rrot_inv (h : heap) root y h' root' c l d :
    TInv h root (plug c (Nd l y d)) ->
    right_rotate h root y = Some (h', root') ->
    exists a x b, l = Nd a x b /\ x = hleft h y /\
      TInv h' root' (plug c (Nd a x (Nd b y d))) /\ same_kvc h h' /\ hparent h' y = x /\
      hmax h' NIL = hmax h NIL.
  Proof.
    intros (HR & HN & HM & HNil & HS) Hrot.
    apply Rep_plug in HR. destruct HR as (p & HC & Hy). simpl in Hy.
    destruct Hy as (-> & Hyn & Hyp & Hl & Hd).
    destruct l as [|a x b].
    { simpl in Hl. unfold Tree.right_rotate in Hrot. rewrite Hl in Hrot.
      rewrite Z.eqb_refl, orb_true_r in Hrot. discriminate. }
    simpl in Hl. destruct Hl as (Ex & Hxn & Hxp & Ha & Hb).
    exists a, x, b. split; [reflexivity|]. split; [auto|].
    assert (Hids : ids (plug c (Nd a x (Nd b y d))) = ids (plug c (Nd (Nd a x b) y d))).
    { rewrite !ids_plug. f_equal. simpl. repeat (rewrite <- app_assoc; simpl). reflexivity. }
    pose proof HN as HN0. rewrite <- Hids in HN. rewrite ids_plug in HN. simpl in HN.
    apply NoDup_mid in HN. destruct HN as (NI & NC & DC).
    assert (DC' : forall z, In z (ids a ++ x :: ids b ++ y :: ids d) -> ~ In z (cids c)).
    { intros z Hz Hc. apply (DC z Hz). apply in_or_app. apply cids_in. exact Hc. }
    apply NoDup_app_iff in NI. destruct NI as (Na & NI & Dax).
    apply NoDup_cons_iff in NI. destruct NI as (Nx & NI).
    apply NoDup_app_iff in NI. destruct NI as (Nb & NI & Dby).
    apply NoDup_cons_iff in NI. destruct NI as (Ny & Nd').
    assert (Hxy : x <> y). { intros ->. apply Nx. apply in_or_app. right. now left. }
    pose proof (Rep_root _ _ _ _ Hb) as Rxr. pose proof (Rep_root _ _ _ _ Hd) as Ryr.
    pose proof (Rep_root _ _ _ _ Ha) as Rxl.
    pose proof (cpar_cases _ _ _ _ HC) as Ryp.
    pose proof (Rep_NIL_notin _ _ _ _ Ha) as NNa. pose proof (Rep_NIL_notin _ _ _ _ Hb) as NNb.
    pose proof (Rep_NIL_notin _ _ _ _ Hd) as NNd.
    assert (Ix : In x (ids a ++ x :: ids b ++ y :: ids d)) by (apply in_or_app; right; now left).
    assert (Iy : In y (ids a ++ x :: ids b ++ y :: ids d)).
    { apply in_or_app; right; right. apply in_or_app; right; now left. }
    assert (Ib : forall z, In z (ids b) -> In z (ids a ++ x :: ids b ++ y :: ids d)).
    { intros z Hz. apply in_or_app; right; right. apply in_or_app; now left. }
    assert (Id : forall z, In z (ids d) -> In z (ids a ++ x :: ids b ++ y :: ids d)).
    { intros z Hz. apply in_or_app; right; right. apply in_or_app; right; now right. }
    assert (Ia : forall z, In z (ids a) -> In z (ids a ++ x :: ids b ++ y :: ids d)).
    { intros z Hz. apply in_or_app; now left. }
    subst x.
    destruct (rrot_facts ggt nmin h root y h' root' Hrot) as
        (_ & _ & Froot & Fyr & Fyl & Fyp & Fxr & Fxl & Fxp & Fb & Fp & Foth & Fkv & Fmax & Fmy & Fmx).
    { auto. }
    { destruct Rxr as [E|E]; [rewrite E; auto|]. intros E'. rewrite E' in E. apply (Dby _ E). now left. }
    { destruct Rxr as [E|E]; [rewrite E; auto|]. intros E'. rewrite E' in E. apply Nx. apply in_or_app. now left. }
    { destruct Rxl as [E|E]; [rewrite E; auto|]. intros E'. rewrite E' in E. apply (Dax _ E). right.
      apply in_or_app. right. now left. }
    { rewrite Hyp. destruct Ryp as [E|[E E']]; [rewrite E; auto|]. intros E2. rewrite E2 in E. exact (DC' _ Iy E). }
    { rewrite Hyp. destruct Ryp as [E|[E E']]; [rewrite E; auto|]. intros E2. rewrite E2 in E. exact (DC' _ Ix E). }
    { rewrite Hyp. intros E. destruct Ryp as [E1|[E1 E2]]; [exact E1|]. exfalso.
      destruct Rxr as [E3|E3]; [congruence|]. rewrite E in E3. exact (DC' _ (Ib _ E3) E1). }
    set (x := hleft h y) in *. set (xr := hright h x) in *.
    assert (Fsub : forall z, z <> NIL -> In z (ids a) \/ (In z (ids b) /\ z <> xr) \/ In z (ids d) \/
                                       (In z (cids c) /\ z <> cpar c) -> same_ptrs h h' z).
    { intros z Hzn Hz. apply Foth.
      - intros ->. destruct Hz as [Hz|[[Hz _]|[Hz|[Hz _]]]].
        + apply (Dax _ Hz). right. apply in_or_app. right. now left.
        + apply (Dby _ Hz). now left.
        + contradiction.
        + exact (DC' _ Iy Hz).
      - intros ->. destruct Hz as [Hz|[[Hz _]|[Hz|[Hz _]]]].
        + apply (Dax _ Hz). now left.
        + apply Nx. apply in_or_app. now left.
        + apply Nx. apply in_or_app. right. now right.
        + exact (DC' _ Ix Hz).
      - intros ->. destruct Rxr as [E|E]; [congruence|]. destruct Hz as [Hz|[[_ Hz]|[Hz|[Hz _]]]].
        + apply (Dax _ Hz). right. apply in_or_app. now left.
        + congruence.
        + apply (Dby _ E). now right.
        + exact (DC' _ (Ib _ E) Hz).
      - rewrite Hyp. intros ->. destruct Ryp as [E|[E E']]; [congruence|]. destruct Hz as [Hz|[[Hz _]|[Hz|[_ Hz]]]].
        + exact (DC' _ (Ia _ Hz) E).
        + exact (DC' _ (Ib _ Hz) E).
        + exact (DC' _ (Id _ Hz) E).
        + congruence. }
    assert (NCc : NoDup (cids c)).
    { eapply Permutation_NoDup; [symmetry; apply cids_perm|exact NC]. }
    pose proof (RepC_NIL_notin _ _ _ _ HC) as NNc.
    split; [|split; [exact Fkv|split; [exact Fyp|]]].
    2:{ apply Fmax; auto. }
    assert (Hhm : forall j, hmin h' j = hmin h j).
    { intros j. unfold Tree.hmin. destruct (Fkv j) as (_ & -> & _). reflexivity. }
    apply MaxOK_plug in HM. destruct HM as (HMs & HMc). simpl in HMs.
    destruct HMs as ((HMa & HMb & _) & HMd & _).
    assert (Sx : gle smallest (hmin h x)).
    { apply HS. rewrite <- Hids, ids_plug. apply in_or_app; right. apply in_or_app; left. exact Ix. }
    assert (Sy : gle smallest (hmin h y)).
    { apply HS. rewrite <- Hids, ids_plug. apply in_or_app; right. apply in_or_app; left. exact Iy. }
    assert (My : MaxV (hmin h) (hmax h' y) (ids b ++ y :: ids d)).
    { rewrite Fmy. apply rval_MaxV; [eapply sub_max; eauto|eapply sub_max; eauto|exact Sy]. }
    assert (Mx : MaxV (hmin h) (hmax h' x) (ids a ++ x :: ids b ++ y :: ids d)).
    { rewrite Fmx. apply rval_MaxV; [eapply sub_max; eauto|right; rewrite <- Fmy; exact My|exact Sx]. }
    unfold TInv. split; [|split; [|split; [|split]]].
    - apply Rep_plug. exists x. split.
      + eapply RepC_swap; [exact HC| |].
        * intros j Hj Hne. apply Fsub; [|right; right; right; auto]. intros ->. contradiction.
        * destruct c as [|c i r0|c l0 i]; simpl in *.
          -- rewrite Froot, Hyp. reflexivity.
          -- destruct HC as (Hi & Hil & Hip & Hr0 & HC). apply NoDup_cons_iff in NCc. destruct NCc as [NCi _].
             destruct (Fp ltac:(rewrite Hyp; exact Hi)) as (G1 & G2 & _). rewrite Hyp in G1, G2.
             destruct (G2 Hil) as (G3 & G4). rewrite Froot, Hyp.
             destruct (Z.eqb_spec i NIL); [contradiction|]. repeat split; auto.
             ++ intros Hc. apply NCi. apply in_or_app. now left.
             ++ intros Hc. apply NCi. apply in_or_app. now right.
          -- destruct HC as (Hi & Hil & Hip & Hr0 & HC). apply NoDup_cons_iff in NCc. destruct NCc as [NCi _].
             destruct (Fp ltac:(rewrite Hyp; exact Hi)) as (G1 & _ & G2). rewrite Hyp in G1, G2.
             assert (Hne : hleft h i <> y).
             { destruct (Rep_root _ _ _ _ Hr0) as [E|E]; [congruence|]. intros E'. rewrite E' in E.
               apply (DC' _ Iy). right. apply in_or_app. now left. }
             destruct (G2 Hne) as (G3 & G4). rewrite Froot, Hyp.
             destruct (Z.eqb_spec i NIL); [contradiction|]. repeat split; auto.
             ++ intros Hc. apply NCi. apply in_or_app. now left.
             ++ intros Hc. apply NCi. apply in_or_app. now right.
      + simpl. rewrite Fxl, Fxr, Fxp, Fyl, Fyr, Fyp. repeat split; auto.
        * eapply Rep_ext; [|exact Ha]. intros j Hj. apply Fsub; [intros ->; contradiction|auto].
        * eapply Rep_reparent; [exact Hb|exact Nb| |].
          -- intros j Hj Hne. apply Fsub; [intros ->; contradiction|auto].
          -- intros Hn. destruct (Fb Hn) as (G1 & G2 & G3). auto.
        * eapply Rep_ext; [|exact Hd]. intros j Hj. apply Fsub; [intros ->; contradiction|auto].
    - rewrite Hids. exact HN0.
    - apply MaxOK_plug. split.
      + simpl. split; [|split; [split; [|split]|]].
        * eapply MaxOK_ext; [|exact HMa]. intros j Hj. split; [|apply Fkv]. apply Fmax.
          -- intros ->. apply (Dax _ Hj). right. apply in_or_app. right. now left.
          -- intros ->. apply (Dax _ Hj). now left.
        * eapply MaxOK_ext; [|exact HMb]. intros j Hj. split; [|apply Fkv]. apply Fmax.
          -- intros ->. apply (Dby _ Hj). now left.
          -- intros ->. apply Nx. apply in_or_app. now left.
        * eapply MaxOK_ext; [|exact HMd]. intros j Hj. split; [|apply Fkv]. apply Fmax.
          -- intros ->. contradiction.
          -- intros ->. apply Nx. apply in_or_app. right. now right.
        * eapply MaxV_ext; [|exact My]. intros j _. apply Hhm.
        * eapply MaxV_ext; [|exact Mx]. intros j _. apply Hhm.
      + replace (ids (Nd a x (Nd b y d))) with (ids (Nd (Nd a x b) y d))
          by (simpl; rewrite <- !app_assoc; reflexivity).
        eapply MaxOKC_ext; [| |exact HMc].
        * intros j. apply Fkv.
        * intros j Hj. apply Fmax; intros ->; [exact (DC' _ Iy Hj)|exact (DC' _ Ix Hj)].
    - rewrite Fmax; auto.
    - intros j Hj. rewrite Hids in Hj. rewrite Hhm. apply HS. exact Hj.
  Qed.
End Inv.
