(* C05/ProofsTreeDelMax.v — _delete_from_tree (fixed code, e4337e3) preserves the FULL tree
   invariant: after unlinking y every ancestor is recomputed, after the successor copy every
   ancestor of z is recomputed, and _rb_delete_fixup keeps the cached maxima valid. *)
Require Import Base.Prelude.
Require Import C05.Sweep C05.Tree C05.ProofsTreeBase C05.ProofsTreeRot C05.ProofsTreeInv C05.ProofsTreeFix
        C05.ProofsTreeIns C05.ProofsTreeQry C05.ProofsTreeStruct C05.ProofsTreeDel.
Require Import Permutation Sorted.

Section DelMax.
  Context {K G N : Type}.
  Variable ggt : G -> G -> bool.
  Variable nmin : N -> G.
  Variable smallest : G.
  Notation heap := (@heap K G N).
  Notation hmin := (@hmin K G N nmin).
  Notation left_rotate := (@left_rotate K G N ggt nmin).
  Notation right_rotate := (@right_rotate K G N ggt nmin).
  Notation dfix := (@dfix K G N ggt nmin).
  Notation dfix_step := (@dfix_step K G N ggt nmin).
  Notation TInv := (@TInv K G N ggt nmin smallest).
  Notation Good := (@Good K G N ggt nmin smallest).
  Notation MaxV := (@MaxV G ggt).
  Notation SubV := (@SubV G ggt smallest).
  Notation MaxOK := (@MaxOK K G N ggt nmin).
  Notation MaxOKC := (@MaxOKC K G N ggt nmin).
  Notation SGood := (@SGood K G N).
  Notation same_kv := (@ProofsTreeStruct.same_kv K G N).
  Notation same_but_max := (@same_but_max K G N).
  Notation recompute := (@recompute K G N ggt nmin).
  Notation refresh := (@refresh K G N ggt nmin).
  Notation del_up1 := (@del_up1 K G N ggt nmin).
  Hypothesis ggt_asym : forall a b, ggt a b = true -> ggt b a = false.
  Hypothesis gle_trans : forall a b c, gle ggt a b -> gle ggt b c -> gle ggt a c.

  Lemma Good_SGood h root l : Good h root l -> SGood h root l.
  Proof. intros (s & (HR & HN & _) & E). exists s. split; [split; assumption|exact E]. Qed.

  (* ---- Good-level wrappers of the structural facts ---- *)
  Lemma parent_in_g h root l x : Good h root l -> In x l -> x <> root -> In (hparent h x) l.
  Proof. intros HG. apply (parent_in _ _ _ _ (Good_SGood _ _ _ HG)). Qed.
  Lemma child_cases_g h root l x : Good h root l -> In x l -> x <> root ->
    (hleft h (hparent h x) = x /\ hright h (hparent h x) <> x) \/
    (hright h (hparent h x) = x /\ hleft h (hparent h x) <> x).
  Proof. intros HG. apply (child_cases _ _ _ _ (Good_SGood _ _ _ HG)). Qed.
  Lemma child_in_g h root l x : Good h root l -> In x l ->
    (hleft h x = NIL \/ In (hleft h x) l) /\ (hright h x = NIL \/ In (hright h x) l).
  Proof. intros HG. apply (child_in _ _ _ _ (Good_SGood _ _ _ HG)). Qed.
  Lemma children_distinct_g h root l x : Good h root l -> In x l -> hleft h x <> NIL -> hleft h x <> hright h x.
  Proof. intros HG. apply (children_distinct _ _ _ _ (Good_SGood _ _ _ HG)). Qed.
  Lemma sroot_in_g h root l : Good h root l -> l <> [] -> In root l.
  Proof. intros HG. apply (sroot_in _ _ _ (Good_SGood _ _ _ HG)). Qed.
  Lemma sparent_closed_g h root l x : Good h root l -> In x l -> hparent h x = NIL \/ In (hparent h x) l.
  Proof. intros HG. apply (sparent_closed _ _ _ _ (Good_SGood _ _ _ HG)). Qed.
  Lemma nil_notin_g (h : heap) root l : Good h root l -> ~ In NIL l.
  Proof. intros HG. apply (nil_notin _ _ _ (Good_SGood _ _ _ HG)). Qed.
  Lemma Good_set_red_ h root l i c : Good h root l -> Good (set_red h i c) root l.
  Proof. apply Good_set_red. Qed.

  Lemma lrot_good_full h root l x h' root' :
    Good h root l -> In x l -> left_rotate h root x = Some (h', root') ->
    Good h' root' l /\ same_kvc h h' /\
    root' = (if hparent h x =? NIL then hright h x else root) /\
    x <> NIL /\ hright h x <> NIL /\ In (hright h x) l.
  Proof.
    intros HG Hx Hr. destruct (lrot_good ggt nmin smallest ggt_asym gle_trans _ _ _ _ _ _ HG Hx Hr) as (A & _).
    destruct (lrot_sgood ggt nmin _ _ _ _ _ _ (Good_SGood _ _ _ HG) Hx Hr) as (_ & B). split; assumption.
  Qed.
  Lemma rrot_good_full h root l y h' root' :
    Good h root l -> In y l -> right_rotate h root y = Some (h', root') ->
    Good h' root' l /\ same_kvc h h' /\
    root' = (if hparent h y =? NIL then hleft h y else root) /\
    y <> NIL /\ hleft h y <> NIL /\ In (hleft h y) l.
  Proof.
    intros HG Hy Hr. destruct (rrot_good ggt nmin smallest ggt_asym gle_trans _ _ _ _ _ _ HG Hy Hr) as (A & _).
    destruct (rrot_sgood ggt nmin _ _ _ _ _ _ (Good_SGood _ _ _ HG) Hy Hr) as (_ & B). split; assumption.
  Qed.

  Notation lrot_guard := (@lrot_guard K G N ggt nmin).
  Notation rrot_guard := (@rrot_guard K G N ggt nmin).

  Definition DStG (h : heap) (root : Z) (l : list Z) (x : Z) : Prop :=
    Good h root l /\ l <> [] /\ In x l /\ hred h NIL = false.

  Lemma dfix_step_ok_g h root l x h1 root1 x1 :
    DStG h root l x -> x <> root ->
    dfix_step h root x = Some (h1, root1, x1) ->
    DStG h1 root1 l x1 /\ same_kv h h1.
  Proof.
    intros (HG & Hne & Hx & HB) Hxr Hstep.
    pose proof (nil_notin_g _ _ _ HG) as HNn.
    assert (Hxn : x <> NIL) by (intros ->; contradiction).
    pose proof (parent_in_g _ _ _ _ HG Hx Hxr) as Hxp.
    pose proof (child_cases_g _ _ _ _ HG Hx Hxr) as Hcc.
    unfold Tree.dfix_step in Hstep.
    set (xp := hparent h x) in *.
    assert (Hxpn : xp <> NIL) by (intros E; rewrite E in Hxp; contradiction).
    destruct (Z.eqb_spec x (hleft h xp)) as [Exl|Exl].
    - (* x is the left child *)
      set (w := hright h xp) in *.
      (* stage A *)
      assert (StA : forall hA rA wA,
                (if hred h w
                 then match left_rotate (set_red (set_red h w false) xp true) root xp with
                      | Some (h0, root0) => Some (h0, root0, hright h0 xp) | None => None end
                 else Some (h, root, w)) = Some (hA, rA, wA) ->
                Good hA rA l /\ hred hA NIL = false /\ same_kv h hA /\ x <> rA /\ (wA = NIL \/ In wA l)).
      { intros hA rA wA HA. destruct (hred h w) eqn:Ew.
        - destruct (left_rotate _ root xp) as [[h0 r0]|] eqn:Hr; [|discriminate]. injection HA as <- <- <-.
          assert (G0 : Good (set_red (set_red h w false) xp true) root l) by (repeat apply Good_set_red_; exact HG).
          destruct (lrot_good_full _ _ _ _ _ _ G0 Hxp Hr) as (G1 & KV & Er & _ & _ & _).
          split; [exact G1|]. split.
          { destruct (KV NIL) as (_ & _ & ->). repeat apply nil_black_set_red; auto. }
          split.
          { eapply skv_trans; [|apply skvc_kv; exact KV]. eapply skv_trans; apply set_red_skv. }
          split.
          { rewrite Er. autorewrite with heap. destruct (hparent h xp =? NIL); [|exact Hxr].
            fold w. rewrite Exl. apply (children_distinct_g _ _ _ _ HG Hxp). rewrite <- Exl. exact Hxn. }
          destruct (child_in_g _ _ _ _ G1 Hxp) as (_ & C). exact C.
        - injection HA as <- <- <-. split; [exact HG|]. split; [exact HB|]. split; [apply skv_refl|].
          split; [exact Hxr|]. destruct (child_in_g _ _ _ _ HG Hxp) as (_ & C). exact C. }
      destruct (if hred h w then _ else _) as [[[hA rA] wA]|] eqn:HA; [|discriminate].
      destruct (StA hA rA wA eq_refl) as (GA & BA & KA & XA & WA). clear StA HA.
      pose proof (parent_in_g _ _ _ _ GA Hx XA) as HxpA.
      destruct (Z.eqb_spec wA NIL) as [EwA|EwA].
      { injection Hstep as <- <- <-. split; [|exact KA]. split; [exact GA|]. split; [exact Hne|]. split; [exact HxpA|exact BA]. }
      destruct WA as [WA|WA]; [contradiction|].
      destruct (negb (hred hA (hleft hA wA)) && negb (hred hA (hright hA wA))) eqn:Enb.
      { injection Hstep as <- <- <-. split.
        - split; [apply Good_set_red_; exact GA|]. split; [exact Hne|]. split.
          + autorewrite with heap. exact HxpA.
          + apply nil_black_set_red; auto.
        - eapply skv_trans; [exact KA|apply set_red_skv]. }
      (* stage D *)
      assert (StD : forall hD rD wD,
                (if negb (hred hA (hright hA wA))
                 then match right_rotate (set_red (set_red hA (hleft hA wA) false) wA true) rA wA with
                      | Some (h0, root0) => Some (h0, root0, hright h0 (hparent h0 x)) | None => None end
                 else Some (hA, rA, wA)) = Some (hD, rD, wD) ->
                Good hD rD l /\ hred hD NIL = false /\ same_kv h hD /\ (wD <> NIL \/ wD = hright hD (hparent hD x))).
      { intros hD rD wD HD. destruct (negb (hred hA (hright hA wA))).
        - destruct (right_rotate _ rA wA) as [[h0 r0]|] eqn:Hr; [|discriminate]. injection HD as <- <- <-.
          assert (G0 : Good (set_red (set_red hA (hleft hA wA) false) wA true) rA l) by (repeat apply Good_set_red_; exact GA).
          destruct (rrot_good_full _ _ _ _ _ _ G0 WA Hr) as (G1 & KV & _).
          split; [exact G1|]. split.
          { destruct (KV NIL) as (_ & _ & ->). repeat apply nil_black_set_red; auto. }
          split; [|now right].
          eapply skv_trans; [exact KA|]. eapply skv_trans; [|apply skvc_kv; exact KV]. eapply skv_trans; apply set_red_skv.
        - injection HD as <- <- <-. split; [exact GA|]. split; [exact BA|]. split; [exact KA|now left]. }
      destruct (if negb (hred hA (hright hA wA)) then _ else _) as [[[hD rD] wD]|] eqn:HD; [|discriminate].
      destruct (StD hD rD wD eq_refl) as (GD & BD & KD & WD). clear StD HD.
      (* stage E *)
      destruct (left_rotate _ rD (hparent hD x)) as [[h4 r4]|] eqn:Hr; [|discriminate]. injection Hstep as <- <- <-.
      destruct (lrot_guard _ _ _ _ Hr) as (Gx & Gy).
      assert (HxpD : In (hparent hD x) l).
      { destruct (sparent_closed_g _ _ _ _ GD Hx) as [E|E]; [contradiction|exact E]. }
      assert (GE : Good (set_red (set_red (set_red hD wD (hred hD (hparent hD x))) (hparent hD x) false) (hright hD wD) false) rD l)
        by (repeat apply Good_set_red_; exact GD).
      destruct (lrot_good_full _ _ _ _ _ _ GE HxpD Hr) as (G4 & KV & _).
      assert (HwD : wD <> NIL).
      { destruct WD as [E|E]; [exact E|]. rewrite E. revert Gy. autorewrite with heap. auto. }
      split.
      + split; [exact G4|]. split; [exact Hne|]. split; [apply (sroot_in_g _ _ _ G4 Hne)|].
        destruct (KV NIL) as (_ & _ & ->). repeat apply nil_black_set_red; auto.
      + eapply skv_trans; [exact KD|]. eapply skv_trans; [|apply skvc_kv; exact KV].
        eapply skv_trans; [eapply skv_trans|]; apply set_red_skv.
    - (* x is the right child *)
      destruct Hcc as [[E _]|[Exr Exl']]; [fold xp in E; congruence|]. fold xp in Exr, Exl'.
      set (w := hleft h xp) in *.
      assert (StA : forall hA rA wA,
                (if hred h w
                 then match right_rotate (set_red (set_red h w false) xp true) root xp with
                      | Some (h0, root0) => Some (h0, root0, hleft h0 xp) | None => None end
                 else Some (h, root, w)) = Some (hA, rA, wA) ->
                Good hA rA l /\ hred hA NIL = false /\ same_kv h hA /\ x <> rA /\ (wA = NIL \/ In wA l)).
      { intros hA rA wA HA. destruct (hred h w) eqn:Ew.
        - destruct (right_rotate _ root xp) as [[h0 r0]|] eqn:Hr; [|discriminate]. injection HA as <- <- <-.
          assert (G0 : Good (set_red (set_red h w false) xp true) root l) by (repeat apply Good_set_red_; exact HG).
          destruct (rrot_good_full _ _ _ _ _ _ G0 Hxp Hr) as (G1 & KV & Er & _ & _ & _).
          split; [exact G1|]. split.
          { destruct (KV NIL) as (_ & _ & ->). repeat apply nil_black_set_red; auto. }
          split.
          { eapply skv_trans; [|apply skvc_kv; exact KV]. eapply skv_trans; apply set_red_skv. }
          split.
          { rewrite Er. autorewrite with heap. destruct (hparent h xp =? NIL); [|exact Hxr].
            fold w. intros E. apply Exl'. symmetry. exact E. }
          destruct (child_in_g _ _ _ _ G1 Hxp) as (C & _). exact C.
        - injection HA as <- <- <-. split; [exact HG|]. split; [exact HB|]. split; [apply skv_refl|].
          split; [exact Hxr|]. destruct (child_in_g _ _ _ _ HG Hxp) as (C & _). exact C. }
      destruct (if hred h w then _ else _) as [[[hA rA] wA]|] eqn:HA; [|discriminate].
      destruct (StA hA rA wA eq_refl) as (GA & BA & KA & XA & WA). clear StA HA.
      pose proof (parent_in_g _ _ _ _ GA Hx XA) as HxpA.
      destruct (Z.eqb_spec wA NIL) as [EwA|EwA].
      { injection Hstep as <- <- <-. split; [|exact KA]. split; [exact GA|]. split; [exact Hne|]. split; [exact Hxp|exact BA]. }
      destruct WA as [WA|WA]; [contradiction|].
      destruct (negb (hred hA (hright hA wA)) && negb (hred hA (hleft hA wA))) eqn:Enb.
      { injection Hstep as <- <- <-. split.
        - split; [apply Good_set_red_; exact GA|]. split; [exact Hne|]. split; [exact HxpA|].
          apply nil_black_set_red; auto.
        - eapply skv_trans; [exact KA|apply set_red_skv]. }
      assert (StD : forall hD rD wD,
                (if negb (hred hA (hleft hA wA))
                 then match left_rotate (set_red (set_red hA (hright hA wA) false) wA true) rA wA with
                      | Some (h0, root0) => Some (h0, root0, hleft h0 (hparent hA x)) | None => None end
                 else Some (hA, rA, wA)) = Some (hD, rD, wD) ->
                Good hD rD l /\ hred hD NIL = false /\ same_kv h hD /\ (wD <> NIL \/ wD = hleft hD (hparent hA x))).
      { intros hD rD wD HD. destruct (negb (hred hA (hleft hA wA))).
        - destruct (left_rotate _ rA wA) as [[h0 r0]|] eqn:Hr; [|discriminate]. injection HD as <- <- <-.
          assert (G0 : Good (set_red (set_red hA (hright hA wA) false) wA true) rA l) by (repeat apply Good_set_red_; exact GA).
          destruct (lrot_good_full _ _ _ _ _ _ G0 WA Hr) as (G1 & KV & _).
          split; [exact G1|]. split.
          { destruct (KV NIL) as (_ & _ & ->). repeat apply nil_black_set_red; auto. }
          split; [|now right].
          eapply skv_trans; [exact KA|]. eapply skv_trans; [|apply skvc_kv; exact KV]. eapply skv_trans; apply set_red_skv.
        - injection HD as <- <- <-. split; [exact GA|]. split; [exact BA|]. split; [exact KA|now left]. }
      destruct (if negb (hred hA (hleft hA wA)) then _ else _) as [[[hD rD] wD]|] eqn:HD; [|discriminate].
      destruct (StD hD rD wD eq_refl) as (GD & BD & KD & WD). clear StD HD.
      destruct (right_rotate _ rD (hparent hA x)) as [[h4 r4]|] eqn:Hr; [|discriminate]. injection Hstep as <- <- <-.
      destruct (rrot_guard _ _ _ _ Hr) as (Gx & Gy).
      set (hE := set_red (set_red hD wD (hred hD (hparent hA x))) (hparent hA x) false) in *.
      assert (GE : Good (set_red hE (hleft hE wD) false) rD l)
        by (unfold hE; repeat apply Good_set_red_; exact GD).
      destruct (rrot_good_full _ _ _ _ _ _ GE HxpA Hr) as (G4 & KV & _).
      assert (HwD : wD <> NIL).
      { destruct WD as [E|E]; [exact E|]. rewrite E. revert Gy. unfold hE. autorewrite with heap. auto. }
      split.
      + split; [exact G4|]. split; [exact Hne|]. split; [apply (sroot_in_g _ _ _ G4 Hne)|].
        destruct (KV NIL) as (_ & _ & ->). unfold hE. repeat apply nil_black_set_red; auto.
      + eapply skv_trans; [exact KD|]. eapply skv_trans; [|apply skvc_kv; exact KV].
        unfold hE. eapply skv_trans; [eapply skv_trans|]; apply set_red_skv.
  Qed.

  Lemma dfix_ok_g : forall fuel h root l x h' root',
    DStG h root l x -> dfix fuel h root x = Some (h', root') ->
    Good h' root' l /\ same_kv h h' /\ hred h' NIL = false.
  Proof.
    induction fuel as [|f IH]; intros h root l x h' root' HS H; simpl in H.
    - destruct (negb (x =? root) && negb (hred h x)); [discriminate|]. injection H as <- <-.
      destruct HS as (HG & _ & Hx & HB). split; [apply Good_set_red_; exact HG|]. split; [apply set_red_skv|].
      apply nil_black_set_red; auto.
    - destruct (negb (x =? root) && negb (hred h x)) eqn:E.
      + apply andb_true_iff in E. destruct E as [E _]. apply negb_true_iff in E. apply Z.eqb_neq in E.
        destruct (dfix_step h root x) as [[[h1 r1] x1]|] eqn:Hs; [|discriminate].
        destruct (dfix_step_ok_g _ _ _ _ _ _ _ HS E Hs) as (HS1 & KV1).
        destruct (IH _ _ _ _ _ _ HS1 H) as (A & B & C). split; [exact A|]. split; [eapply skv_trans; eauto|exact C].
      + injection H as <- <-.
        destruct HS as (HG & _ & Hx & HB). split; [apply Good_set_red_; exact HG|]. split; [apply set_red_skv|].
        apply nil_black_set_red; auto.
  Qed.


  (* ---- recomputing a node from its children ---- *)
  Definition rval2 (l r own : G) : G :=
    let m := if ggt l r then l else r in if ggt own m then own else m.

  Lemma recompute_facts (h : heap) i :
    same_but_max h (recompute h i) /\
    (forall j, j <> i -> hmax (recompute h i) j = hmax h j) /\
    hmax (recompute h i) i = rval2 (hmax h (hleft h i)) (hmax h (hright h i)) (hmin h i).
  Proof.
    split; [apply recompute_sbm|]. unfold Tree.recompute, rval2.
    set (m := if ggt (hmax h (hleft h i)) (hmax h (hright h i)) then hmax h (hleft h i) else hmax h (hright h i)).
    assert (E1 : Tree.hmin nmin (set_max h i m) i = hmin h i) by (unfold Tree.hmin; now autorewrite with heap).
    assert (E2 : hmax (set_max h i m) i = m) by (autorewrite with heap; now rewrite Z.eqb_refl).
    rewrite E1, E2. split.
    - intros j Hj. destruct (ggt (hmin h i) m); autorewrite with heap;
        destruct (Z.eqb_spec i j); try congruence; reflexivity.
    - destruct (ggt (hmin h i) m); autorewrite with heap; rewrite ?Z.eqb_refl; reflexivity.
  Qed.

  Lemma rval2_MaxV hm ma mb l i r :
    SubV hm ma l -> SubV hm mb r -> gle ggt smallest (hm i) ->
    MaxV hm (rval2 ma mb (hm i)) (l ++ i :: r).
  Proof.
    intros Hl Hr Hs. unfold rval2.
    set (m := if ggt ma mb then ma else mb).
    assert (Ga : gle ggt ma m /\ gle ggt mb m).
    { unfold m. destruct (ggt ma mb) eqn:E; split;
        [apply (gle_refl ggt ggt_asym)|apply ggt_asym; exact E|exact E|apply (gle_refl ggt ggt_asym)]. }
    destruct Ga as [Ga Gb].
    assert (Gf : gle ggt m (if ggt (hm i) m then hm i else m) /\ gle ggt (hm i) (if ggt (hm i) m then hm i else m)).
    { destruct (ggt (hm i) m) eqn:E; split;
        [apply ggt_asym; exact E|apply (gle_refl ggt ggt_asym)|apply (gle_refl ggt ggt_asym)|exact E]. }
    destruct Gf as [Gm Go]. split.
    - intros j Hj. apply in_app_or in Hj. destruct Hj as [Hj|[<-|Hj]].
      + destruct Hl as [[-> _]|[U _]]; [contradiction|].
        eapply gle_trans; [apply U; exact Hj|]. eapply gle_trans; [exact Ga|exact Gm].
      + exact Go.
      + destruct Hr as [[-> _]|[U _]]; [contradiction|].
        eapply gle_trans; [apply U; exact Hj|]. eapply gle_trans; [exact Gb|exact Gm].
    - destruct (ggt (hm i) m).
      + exists i. split; [apply in_or_app; right; now left|apply (gle_refl ggt ggt_asym)].
      + unfold m. destruct (ggt ma mb).
        * destruct Hl as [[_ ->]|[_ (j & Hj & Aj)]].
          -- exists i. split; [apply in_or_app; right; now left|exact Hs].
          -- exists j. split; [apply in_or_app; now left|exact Aj].
        * destruct Hr as [[_ ->]|[_ (j & Hj & Aj)]].
          -- exists i. split; [apply in_or_app; right; now left|exact Hs].
          -- exists j. split; [apply in_or_app; right; now right|exact Aj].
  Qed.

  (* sibling subtrees of a context *)
  Fixpoint SibOK (h : heap) (c : ctx) : Prop :=
    match c with
    | Top => True
    | CL c' _ r => MaxOK h r /\ SibOK h c'
    | CR c' l _ => MaxOK h l /\ SibOK h c'
    end.
  Lemma MaxOKC_SibOK h : forall c l, MaxOKC h c l -> SibOK h c.
  Proof. induction c; simpl; intros l0 H; [exact I| |]; destruct H as (A & _ & C); split; eauto. Qed.
  Lemma SibOK_ext h h' : forall c,
    (forall j, In j (cids c) -> hmax h' j = hmax h j /\ hval h' j = hval h j) -> SibOK h c -> SibOK h' c.
  Proof.
    induction c as [|c IH i r|c IH l i]; simpl; intros E H; [exact I| |]; destruct H as (A & B); split.
    - eapply MaxOK_ext; [|exact A]. intros j Hj. apply E. right. apply in_or_app. now left.
    - apply IH; auto. intros j Hj. apply E. right. apply in_or_app. now right.
    - eapply MaxOK_ext; [|exact A]. intros j Hj. apply E. right. apply in_or_app. now left.
    - apply IH; auto. intros j Hj. apply E. right. apply in_or_app. now right.
  Qed.

  (* the upward loop of the fixed code: every ancestor is recomputed *)
  Lemma del_up1_ok root : forall fuel (h : heap) c s p cur h',
    RepC h c p root -> Rep h p (cpar c) s -> NoDup (ids (plug c s)) ->
    MaxOK h s -> SibOK h c -> hmax h NIL = smallest ->
    (forall j, In j (ids (plug c s)) -> gle ggt smallest (hmin h j)) ->
    hparent h cur = cpar c ->
    del_up1 fuel h cur = Some h' ->
    MaxOK h' (plug c s) /\ same_but_max h h' /\ hmax h' NIL = smallest.
  Proof.
    induction fuel as [|f IH]; intros h c s p cur h' HC HR HN HM HSib HNil HS Hp H; simpl in H; rewrite Hp in H.
    - destruct c as [|c1 i r|c1 l0 i]; simpl in H, HC.
      + injection H as <-. split; [exact HM|]. split; [apply sbm_refl|exact HNil].
      + destruct HC as (Hi & _). destruct (Z.eqb_spec i NIL); [contradiction|discriminate].
      + destruct HC as (Hi & _). destruct (Z.eqb_spec i NIL); [contradiction|discriminate].
    - destruct c as [|c1 i r|c1 l0 i]; simpl in H.
      + injection H as <-. split; [exact HM|]. split; [apply sbm_refl|exact HNil].
      + simpl in HC. destruct HC as (Hi & Hil & Hip & Hr & HC1). destruct (Z.eqb_spec i NIL); [contradiction|].
        simpl in HSib. destruct HSib as (Mr & Sib1).
        pose proof HN as HN0. simpl in HN. rewrite ids_plug in HN. simpl in HN.
        apply NoDup_mid in HN. destruct HN as (NI & NC & DC).
        apply NoDup_app_iff in NI. destruct NI as (Ns & NI & Dsi). apply NoDup_cons_iff in NI. destruct NI as (Nir & Nr).
        assert (NCi : ~ In i (cids c1)).
        { intros Hc. apply (DC i); [apply in_or_app; right; now left|]. apply in_or_app. apply cids_in. exact Hc. }
        destruct (recompute_facts h i) as (S1 & X1 & Xi). set (h1 := recompute h i) in *.
        assert (Hhm : forall j, hmin h1 j = hmin h j).
        { intros j. unfold Tree.hmin. destruct (S1 j) as (_ & _ & -> & _). reflexivity. }
        assert (Ii : In i (ids (plug (CL c1 i r) s))).
        { simpl. rewrite ids_plug. apply in_or_app; right. apply in_or_app; left. simpl. apply in_or_app; right; now left. }
        assert (Ms1 : MaxOK h1 s).
        { eapply MaxOK_ext; [|exact HM]. intros j Hj. destruct (S1 j) as (_ & _ & E & _). split; [|exact E].
          apply X1. intros ->. apply (Dsi _ Hj). now left. }
        assert (Mr1 : MaxOK h1 r).
        { eapply MaxOK_ext; [|exact Mr]. intros j Hj. destruct (S1 j) as (_ & _ & E & _). split; [|exact E].
          apply X1. intros ->. contradiction. }
        assert (Mi1 : MaxV (hmin h1) (hmax h1 i) (ids s ++ i :: ids r)).
        { eapply MaxV_ext; [intros j _; apply Hhm|]. rewrite Xi. apply rval2_MaxV.
          - rewrite Hil. eapply sub_max; eauto.
          - eapply sub_max; eauto.
          - apply HS. exact Ii. }
        assert (HC1' : RepC h1 c1 i root).
        { eapply RepC_ext; [|exact HC1]. intros j _. destruct (S1 j) as (E & _). exact E. }
        assert (HR1 : Rep h1 i (cpar c1) (Nd s i r)).
        { eapply Rep_ext; [intros j _; destruct (S1 j) as (E & _); exact E|].
          simpl. repeat split; auto. rewrite Hil. exact HR. }
        destruct (IH h1 c1 (Nd s i r) i i h' HC1' HR1 HN0) as (A & B & C); auto.
        * simpl. split; [exact Ms1|split; [exact Mr1|exact Mi1]].
        * eapply SibOK_ext; [|exact Sib1]. intros j Hj. destruct (S1 j) as (_ & _ & E & _). split; [|exact E].
          apply X1. intros ->. contradiction.
        * rewrite X1; [exact HNil|congruence].
        * intros j Hj. rewrite Hhm. apply HS. exact Hj.
        * destruct (S1 i) as ((_ & _ & E) & _). rewrite E. exact Hip.
        * split; [exact A|]. split; [eapply sbm_trans; eauto|exact C].
      + simpl in HC. destruct HC as (Hi & Hil & Hip & Hr & HC1). destruct (Z.eqb_spec i NIL); [contradiction|].
        simpl in HSib. destruct HSib as (Mr & Sib1).
        pose proof HN as HN0. simpl in HN. rewrite ids_plug in HN. simpl in HN.
        apply NoDup_mid in HN. destruct HN as (NI & NC & DC).
        apply NoDup_app_iff in NI. destruct NI as (Nl & NI & Dli). apply NoDup_cons_iff in NI. destruct NI as (Nis & Ns).
        assert (NCi : ~ In i (cids c1)).
        { intros Hc. apply (DC i); [apply in_or_app; right; now left|]. apply in_or_app. apply cids_in. exact Hc. }
        destruct (recompute_facts h i) as (S1 & X1 & Xi). set (h1 := recompute h i) in *.
        assert (Hhm : forall j, hmin h1 j = hmin h j).
        { intros j. unfold Tree.hmin. destruct (S1 j) as (_ & _ & -> & _). reflexivity. }
        assert (Ii : In i (ids (plug (CR c1 l0 i) s))).
        { simpl. rewrite ids_plug. apply in_or_app; right. apply in_or_app; left. simpl. apply in_or_app; right; now left. }
        assert (Ms1 : MaxOK h1 s).
        { eapply MaxOK_ext; [|exact HM]. intros j Hj. destruct (S1 j) as (_ & _ & E & _). split; [|exact E].
          apply X1. intros ->. contradiction. }
        assert (Mr1 : MaxOK h1 l0).
        { eapply MaxOK_ext; [|exact Mr]. intros j Hj. destruct (S1 j) as (_ & _ & E & _). split; [|exact E].
          apply X1. intros ->. apply (Dli _ Hj). now left. }
        assert (Mi1 : MaxV (hmin h1) (hmax h1 i) (ids l0 ++ i :: ids s)).
        { eapply MaxV_ext; [intros j _; apply Hhm|]. rewrite Xi. apply rval2_MaxV.
          - eapply sub_max; eauto.
          - rewrite Hil. eapply sub_max; eauto.
          - apply HS. exact Ii. }
        assert (HC1' : RepC h1 c1 i root).
        { eapply RepC_ext; [|exact HC1]. intros j _. destruct (S1 j) as (E & _). exact E. }
        assert (HR1 : Rep h1 i (cpar c1) (Nd l0 i s)).
        { eapply Rep_ext; [intros j _; destruct (S1 j) as (E & _); exact E|].
          simpl. repeat split; auto. rewrite Hil. exact HR. }
        destruct (IH h1 c1 (Nd l0 i s) i i h' HC1' HR1 HN0) as (A & B & C); auto.
        * simpl. split; [exact Mr1|split; [exact Ms1|exact Mi1]].
        * eapply SibOK_ext; [|exact Sib1]. intros j Hj. destruct (S1 j) as (_ & _ & E & _). split; [|exact E].
          apply X1. intros ->. contradiction.
        * rewrite X1; [exact HNil|congruence].
        * intros j Hj. rewrite Hhm. apply HS. exact Hj.
        * destruct (S1 i) as ((_ & _ & E) & _). rewrite E. exact Hip.
        * split; [exact A|]. split; [eapply sbm_trans; eauto|exact C].
  Qed.

  Notation rval_MaxV_ := (@rval_MaxV G ggt smallest ggt_asym gle_trans).
  Notation sub_max_ := (@sub_max K G N ggt nmin smallest).

  Lemma Good_set_max_off h root l i m : Good h root l -> ~ In i l -> i <> NIL -> Good (set_max h i m) root l.
  Proof.
    intros (s & (HR & HN & HM & HNil & HS) & <-) Hi Hn. exists s. split; [|reflexivity].
    assert (Hm : forall j, j <> i -> hmax (set_max h i m) j = hmax h j).
    { intros j Hj. autorewrite with heap. destruct (Z.eqb_spec i j); [congruence|reflexivity]. }
    split; [|split; [exact HN|split; [|split]]].
    - eapply Rep_ext; [|exact HR]. intros j _. unfold same_ptrs. now autorewrite with heap.
    - eapply MaxOK_ext; [|exact HM]. intros j Hj. split; [|now autorewrite with heap]. apply Hm. intros ->. contradiction.
    - rewrite Hm; [exact HNil|congruence].
    - intros j Hj. unfold Tree.hmin. autorewrite with heap. apply HS. exact Hj.
  Qed.

  Lemma Good_refresh h root l i : Good h root l -> i <> NIL ->
    Good (refresh h i (hmax h (hleft h i)) (hmax h (hright h i))) root l.
  Proof.
    intros HG Hn. destruct (in_dec Z.eq_dec i l) as [Hi|Hi]; [|unfold Tree.refresh; apply Good_set_max_off; auto].
    destruct HG as (s & (HR & HN & HM & HNil & HS) & <-). destruct (find_node _ _ Hi) as (c & a & b & ->).
    exists (plug c (Nd a i b)). split; [|reflexivity].
    pose proof HR as HR0. apply Rep_plug in HR0. destruct HR0 as (p & HC & Hp). simpl in Hp.
    destruct Hp as (-> & _ & Hip & Ha & Hb).
    pose proof HN as HN0. rewrite ids_plug in HN0. simpl in HN0. apply NoDup_mid in HN0. destruct HN0 as (NI & _ & DC).
    apply NoDup_app_iff in NI. destruct NI as (_ & NI & Dai). apply NoDup_cons_iff in NI. destruct NI as (Nib & _).
    assert (Ii : In i (ids a ++ i :: ids b)) by (apply in_or_app; right; now left).
    apply MaxOK_plug in HM. destruct HM as (HMs & HMc). simpl in HMs. destruct HMs as (HMa & HMb & _).
    unfold Tree.refresh.
    set (m := if ggt (if ggt (hmax h (hleft h i)) (hmax h (hright h i)) then hmax h (hleft h i) else hmax h (hright h i)) (hmin h i)
              then (if ggt (hmax h (hleft h i)) (hmax h (hright h i)) then hmax h (hleft h i) else hmax h (hright h i))
              else hmin h i).
    assert (Hm : forall j, j <> i -> hmax (set_max h i m) j = hmax h j).
    { intros j Hj. autorewrite with heap. destruct (Z.eqb_spec i j); [congruence|reflexivity]. }
    split; [|split; [exact HN|split; [|split]]].
    - eapply Rep_ext; [|exact HR]. intros j _. unfold same_ptrs. now autorewrite with heap.
    - apply MaxOK_plug. split.
      + simpl. split; [|split].
        * eapply MaxOK_ext; [|exact HMa]. intros j Hj. split; [|now autorewrite with heap]. apply Hm.
          intros ->. apply (Dai _ Hj). now left.
        * eapply MaxOK_ext; [|exact HMb]. intros j Hj. split; [|now autorewrite with heap]. apply Hm.
          intros ->. contradiction.
        * autorewrite with heap. rewrite Z.eqb_refl.
          eapply MaxV_ext; [intros j _; unfold Tree.hmin; now autorewrite with heap|].
          apply (rval_MaxV_ (hmin h) (hmax h (hleft h i)) (hmax h (hright h i)) (ids a) i (ids b)).
          -- eapply sub_max_; eauto.
          -- eapply sub_max_; eauto.
          -- apply HS. rewrite ids_plug. apply in_or_app; right. apply in_or_app; left. exact Ii.
      + eapply MaxOKC_ext; [| |exact HMc].
        * intros j. now autorewrite with heap.
        * intros j Hj. apply Hm. intros ->. apply (DC i Ii). apply in_or_app. apply cids_in. exact Hj.
    - rewrite Hm; [exact HNil|congruence].
    - intros j Hj. unfold Tree.hmin. autorewrite with heap. apply HS. exact Hj.
  Qed.

  (* the successor copy: z takes (k, v), is refreshed, and every ancestor is recomputed *)
  Lemma copy_up_ok fuel (h : heap) root l z k v h6 :
    Good h root l -> In z l -> gle ggt smallest (nmin v) ->
    del_up1 fuel (refresh (set_kv h z k v) z (hmax (set_kv h z k v) (hleft (set_kv h z k v) z))
                          (hmax (set_kv h z k v) (hright (set_kv h z k v) z))) z = Some h6 ->
    Good h6 root l.
  Proof.
    intros (s & (HR & HN & HM & HNil & HS) & <-) Hz Hv H. destruct (find_node _ _ Hz) as (c & a & b & ->).
    pose proof HR as HR0. apply Rep_plug in HR0. destruct HR0 as (p & HC & Hp). simpl in Hp.
    destruct Hp as (-> & Hzn & Hzp & Ha & Hb).
    pose proof HN as HN0. rewrite ids_plug in HN0. simpl in HN0. apply NoDup_mid in HN0. destruct HN0 as (NI & _ & DC).
    apply NoDup_app_iff in NI. destruct NI as (_ & NI & Daz). apply NoDup_cons_iff in NI. destruct NI as (Nzb & _).
    assert (Iz : In z (ids a ++ z :: ids b)) by (apply in_or_app; right; now left).
    apply MaxOK_plug in HM. destruct HM as (HMs & HMc). simpl in HMs. destruct HMs as (HMa & HMb & _).
    set (h4 := set_kv h z k v) in *.
    assert (P4 : forall j, same_ptrs h h4 j /\ hmax h4 j = hmax h j /\ hred h4 j = hred h j).
    { intros j. unfold same_ptrs, h4. repeat split; now autorewrite with heap. }
    assert (V4 : forall j, j <> z -> hval h4 j = hval h j).
    { intros j Hj. unfold h4. autorewrite with heap. destruct (Z.eqb_spec z j); [congruence|reflexivity]. }
    assert (V4z : hval h4 z = v). { unfold h4. autorewrite with heap. now rewrite Z.eqb_refl. }
    assert (E4l : hleft h4 z = hleft h z) by (destruct (P4 z) as ((A & _) & _); exact A).
    assert (E4r : hright h4 z = hright h z) by (destruct (P4 z) as ((_ & A & _) & _); exact A).
    unfold Tree.refresh in H.
    set (m := if ggt (if ggt (hmax h4 (hleft h4 z)) (hmax h4 (hright h4 z)) then hmax h4 (hleft h4 z) else hmax h4 (hright h4 z))
                     (Tree.hmin nmin h4 z)
              then (if ggt (hmax h4 (hleft h4 z)) (hmax h4 (hright h4 z)) then hmax h4 (hleft h4 z) else hmax h4 (hright h4 z))
              else Tree.hmin nmin h4 z) in *.
    set (h5 := set_max h4 z m) in *.
    assert (P5 : forall j, same_ptrs h h5 j).
    { intros j. destruct (P4 j) as ((A & B & C) & _). unfold same_ptrs, h5. autorewrite with heap. auto. }
    assert (M5 : forall j, j <> z -> hmax h5 j = hmax h j).
    { intros j Hj. unfold h5. autorewrite with heap. destruct (Z.eqb_spec z j); [congruence|]. apply P4. }
    assert (V5 : forall j, hval h5 j = hval h4 j) by (intros j; unfold h5; now autorewrite with heap).
    assert (Ma4 : MaxOK h4 a).
    { eapply MaxOK_ext; [|exact HMa]. intros j Hj. split; [apply P4|apply V4]. intros ->. apply (Daz _ Hj). now left. }
    assert (Mb4 : MaxOK h4 b).
    { eapply MaxOK_ext; [|exact HMb]. intros j Hj. split; [apply P4|apply V4]. intros ->. contradiction. }
    assert (Ra4 : Rep h4 (hleft h4 z) z a).
    { rewrite E4l. eapply Rep_ext; [|exact Ha]. intros j _. apply P4. }
    assert (Rb4 : Rep h4 (hright h4 z) z b).
    { rewrite E4r. eapply Rep_ext; [|exact Hb]. intros j _. apply P4. }
    assert (N4 : hmax h4 NIL = smallest) by (destruct (P4 NIL) as (_ & -> & _); exact HNil).
    assert (Mz : MaxV (Tree.hmin nmin h4) m (ids a ++ z :: ids b)).
    { unfold m. apply (rval_MaxV_ (Tree.hmin nmin h4) (hmax h4 (hleft h4 z)) (hmax h4 (hright h4 z)) (ids a) z (ids b)).
      - eapply sub_max_; eauto.
      - eapply sub_max_; eauto.
      - unfold Tree.hmin. rewrite V4z. exact Hv. }
    destruct (del_up1_ok root fuel h5 c (Nd a z b) z z h6) as (A & B & C); auto.
    - eapply RepC_ext; [|exact HC]. intros j _. apply P5.
    - eapply Rep_ext; [intros j _; apply P5|]. simpl. repeat split; auto.
    - simpl. split; [|split].
      + eapply MaxOK_ext; [|exact Ma4]. intros j Hj. split; [|apply V5]. rewrite M5; [symmetry; apply P4|].
        intros ->. apply (Daz _ Hj). now left.
      + eapply MaxOK_ext; [|exact Mb4]. intros j Hj. split; [|apply V5]. rewrite M5; [symmetry; apply P4|].
        intros ->. contradiction.
      + unfold h5 at 2. autorewrite with heap. rewrite Z.eqb_refl.
        eapply MaxV_ext; [|exact Mz]. intros j _. unfold Tree.hmin. now rewrite V5.
    - eapply SibOK_ext; [|eapply MaxOKC_SibOK; exact HMc]. intros j Hj.
      assert (Hjz : j <> z). { intros ->. apply (DC z Iz). apply in_or_app. apply cids_in. exact Hj. }
      split; [apply M5; exact Hjz|rewrite V5; apply V4; exact Hjz].
    - rewrite M5; [exact HNil|congruence].
    - intros j Hj. unfold Tree.hmin. rewrite V5. destruct (Z.eq_dec j z) as [->|Hjz]; [rewrite V4z; exact Hv|].
      rewrite V4 by exact Hjz. apply HS. exact Hj.
    - destruct (P5 z) as (_ & _ & E). rewrite E. exact Hzp.
    - exists (plug c (Nd a z b)). split; [|reflexivity].
      split; [|split; [exact HN|split; [exact A|split; [exact C|]]]].
      + eapply Rep_ext; [|exact HR]. intros j _. destruct (B j) as ((B1 & B2 & B3) & _). destruct (P5 j) as (Q1 & Q2 & Q3).
        unfold same_ptrs. repeat split; congruence.
      + intros j Hj. unfold Tree.hmin. destruct (B j) as (_ & _ & -> & _). rewrite V5.
        destruct (Z.eq_dec j z) as [->|Hjz]; [rewrite V4z; exact Hv|]. rewrite V4 by exact Hjz. apply HS. exact Hj.
  Qed.

  Notation del_body_ := (@del_body K G N ggt nmin).
  Notation del_body_ok_ := (@del_body_ok K G N ggt nmin).

  Lemma del_body_good fuel (h : heap) root z y cy ly ry h' root' :
    Rep h root NIL (plug cy (Nd ly y ry)) -> NoDup (ids (plug cy (Nd ly y ry))) -> (ly = L \/ ry = L) ->
    MaxOK h (plug cy (Nd ly y ry)) -> hmax h NIL = smallest ->
    (forall j, In j (ids (plug cy (Nd ly y ry))) -> gle ggt smallest (hmin h j)) ->
    hred h NIL = false -> In z (ids (plug cy (Nd ly y ry))) ->
    del_body_ fuel h root z y = Some (DOk (mkTree h' root') y) ->
    Good h' root' (cbefore cy ++ (ids ly ++ ids ry) ++ cafter cy).
  Proof.
    intros HR HN Hone HM HNil HS HB Hz H. unfold del_body in H.
    destruct (splice_ok h root cy ly y ry HR HN Hone) as (R1 & N1 & I1 & X1 & KV1 & Py).
    set (x := if negb (hleft h y =? NIL) then hleft h y else hright h y) in *.
    set (sx := match ly with L => ry | _ => ly end) in *.
    set (h1 := fst (fst (splice h root y x))) in *.
    set (root1 := snd (fst (splice h root y x))) in *.
    set (to_fix := snd (splice h root y x)) in *.
    set (l' := cbefore cy ++ (ids ly ++ ids ry) ++ cafter cy) in *.
    assert (Hsub : forall j, In j l' -> In j (ids (plug cy (Nd ly y ry)))).
    { intros j Hj. rewrite ids_plug. unfold l' in Hj. apply in_app_or in Hj. apply in_or_app.
      destruct Hj as [Hj|Hj]; [now left|right]. apply in_app_or in Hj. apply in_or_app.
      destruct Hj as [Hj|Hj]; [left|now right]. simpl. apply in_app_or in Hj. apply in_or_app.
      destruct Hj as [Hj|Hj]; [now left|right; now right]. }
    assert (Hyin : In y (ids (plug cy (Nd ly y ry)))).
    { rewrite ids_plug. apply in_or_app; right. apply in_or_app; left. simpl. apply in_or_app; right; now left. }
    assert (Hypar : hparent h y = cpar cy).
    { apply Rep_plug in HR. destruct HR as (p & _ & Hp). simpl in Hp. tauto. }
    pose proof R1 as R1'. apply Rep_plug in R1'. destruct R1' as (p1 & HC1 & Hp1).
    apply MaxOK_plug in HM. destruct HM as (HMs & HMc).
    assert (HMsx : MaxOK h sx).
    { unfold sx. simpl in HMs. destruct HMs as (A & B & _). destruct ly; assumption. }
    assert (E1 : forall j, hmax h1 j = hmax h j /\ hval h1 j = hval h j).
    { intros j. destruct (KV1 j) as (_ & A & B & _). auto. }
    destruct (del_up1 fuel h1 y) as [h2|] eqn:H2; [|discriminate].
    destruct (del_up1_ok root1 fuel h1 cy sx p1 y h2 HC1 Hp1 N1) as (M2 & S2 & N2); auto.
    { eapply MaxOK_ext; [|exact HMsx]. intros j _. apply E1. }
    { eapply SibOK_ext; [|eapply MaxOKC_SibOK; exact HMc]. intros j _. apply E1. }
    { destruct (E1 NIL) as (-> & _). exact HNil. }
    { intros j Hj. unfold Tree.hmin. destruct (E1 j) as (_ & ->). apply HS. apply Hsub. rewrite <- I1. exact Hj. }
    { rewrite Py. exact Hypar. }
    assert (V2 : forall j, hval h2 j = hval h j /\ hred h2 j = hred h j /\ hkey h2 j = hkey h j).
    { intros j. destruct (S2 j) as (_ & A & B & C). destruct (KV1 j) as (A1 & B1 & _ & C1). repeat split; congruence. }
    assert (G2 : Good h2 root1 l').
    { exists (plug cy sx). split; [|exact I1]. split; [|split; [exact N1|split; [exact M2|split; [exact N2|]]]].
      - eapply Rep_ext; [|exact R1]. intros j _. destruct (S2 j) as (E & _). exact E.
      - intros j Hj. unfold Tree.hmin. destruct (V2 j) as (-> & _). apply HS. apply Hsub. rewrite <- I1. exact Hj. }
    destruct (Z.eqb_spec to_fix NIL) as [|Htf]; [discriminate|].
    pose proof (Good_refresh h2 root1 l' to_fix G2 Htf) as G3.
    set (h3 := refresh h2 to_fix (hmax h2 (hleft h2 to_fix)) (hmax h2 (hright h2 to_fix))) in *.
    assert (V3 : forall j, hval h3 j = hval h j /\ hred h3 j = hred h j /\ hkey h3 j = hkey h j).
    { intros j. destruct (refresh_sbm ggt nmin h2 to_fix (hmax h2 (hleft h2 to_fix)) (hmax h2 (hright h2 to_fix)) j) as (_ & A & B & C).
      fold h3 in A, B, C. destruct (V2 j) as (A2 & B2 & C2). repeat split; congruence. }
    assert (St6 : forall h6,
              (if negb (y =? z) then
                 let zgrad := Tree.hmin nmin h3 z in
                 let h4 := set_kv h3 z (hkey h3 y) (hval h3 y) in
                 let h5 := refresh h4 z (hmax h4 (hleft h4 z)) (hmax h4 (hright h4 z)) in
                 del_up2 ggt nmin fuel h5 z
               else Some h3) = Some h6 ->
              Good h6 root1 l' /\ (forall j, hred h6 j = hred h j)).
    { intros h6 H6. destruct (Z.eqb_spec y z) as [Eyz|Eyz]; simpl in H6.
      - injection H6 as <-. split; [exact G3|]. intros j. apply V3.
      - unfold del_up2 in H6. split.
        + eapply (copy_up_ok fuel h3 root1 l' z (hkey h3 y) (hval h3 y) h6 G3); [| |exact H6].
          * assert (Hzi := Hz). rewrite ids_plug in Hzi. unfold l'. apply in_app_or in Hzi. apply in_or_app.
            destruct Hzi as [Hzi|Hzi]; [now left|right]. apply in_app_or in Hzi. apply in_or_app.
            destruct Hzi as [Hzi|Hzi]; [left|now right]. simpl in Hzi. apply in_app_or in Hzi. apply in_or_app.
            destruct Hzi as [Hzi|[Hzi|Hzi]]; [now left|congruence|now right].
          * destruct (V3 y) as (-> & _). apply HS. exact Hyin.
        + intros j. pose proof (del_up1_sbm ggt nmin _ _ _ _ H6 j) as (_ & _ & _ & A). rewrite A.
          unfold Tree.refresh. autorewrite with heap. apply V3. }
    destruct (if negb (y =? z) then _ else _) as [h6|] eqn:H6; [|discriminate].
    destruct (St6 h6 eq_refl) as (G6 & C6). clear St6 H6.
    destruct (negb (hred h6 y) && negb (x =? NIL)) eqn:Ef.
    - apply andb_true_iff in Ef. destruct Ef as [_ Ef]. apply negb_true_iff in Ef. apply Z.eqb_neq in Ef.
      destruct (dfix fuel h6 root1 x) as [[h7 root7]|] eqn:H7; [|discriminate]. injection H as <- <-.
      assert (Hxin : In x l').
      { destruct X1 as [E|E]; [contradiction|]. rewrite <- I1, ids_plug. apply in_or_app; right. apply in_or_app; now left. }
      assert (D6 : DStG h6 root1 l' x).
      { split; [exact G6|]. split; [intros E; rewrite E in Hxin; contradiction|]. split; [exact Hxin|rewrite C6; exact HB]. }
      destruct (dfix_ok_g fuel h6 root1 _ x h7 root7 D6 H7) as (G7 & _). exact G7.
    - injection H as <- <-. exact G6.
  Qed.

  Variable klt : K -> K -> bool.
  Notation t_delete := (@t_delete K G N klt ggt nmin).
  Hypothesis klt_trans : forall a b c, klt a b = true -> klt b c = true -> klt a c = true.
  Hypothesis klt_negtrans : forall a b c, klt a c = true -> klt a b = true \/ klt b c = true.
  Notation KSorted := (@KSorted K G N klt).
  Notation tabs := (@tabs K G N).

  Theorem t_delete_ok_g fuel (t : @tree K G N) key res l :
    Good (th t) (troot t) l -> KSorted (th t) l -> hred (th t) NIL = false ->
    t_delete fuel t key = Some res ->
    (res = DNotFound /\ del_key klt key (tabs (th t) l) = None) \/
    (exists h' root' d l', res = DOk (mkTree h' root') d /\
       Good h' root' l' /\ KSorted h' l' /\
       del_key klt key (tabs (th t) l) = Some (tabs h' l') /\
       Permutation l (d :: l') /\ hred h' NIL = false).
  Proof.
    destruct t as [h root]. simpl. intros (s & (HR & HN & HM & HNil & HS) & <-) HK HB H.
    rewrite (t_delete_unfold ggt nmin klt) in H. simpl in H.
    destruct (search klt fuel h root key) as [z|] eqn:Hs; [|discriminate].
    destruct (search_ok klt klt_trans h key root fuel Top root s z eq_refl HR HK
                (fun j (H : In j []) => match H with end) (fun j (H : In j []) => match H with end) Hs)
      as [(-> & c' & Ec & Hlo & Hhi)|(c & a & b & Ec & HC & HRz & Hlo & Hhi & E1 & E2)].
    - (* absent *)
      simpl in H. injection H as <-. left. split; [reflexivity|]. apply (del_key_none klt).
      simpl in Ec. subst s. rewrite ids_plug. simpl. intros e He.
      unfold ProofsTreeIns.tabs in He. apply in_map_iff in He. destruct He as (j & <- & Hj). simpl. unfold keq.
      apply in_app_or in Hj. destruct Hj as [Hj|Hj].
      + rewrite (Hlo j Hj). now rewrite andb_false_r.
      + rewrite (Hhi j Hj). reflexivity.
    - (* present *)
      right. simpl in Ec. subst s.
      assert (Hzn : z <> NIL) by (simpl in HRz; tauto).
      destruct (Z.eqb_spec z NIL); [contradiction|].
      pose proof HRz as HRz0. simpl in HRz. destruct HRz as (_ & _ & Hzp & Ha & Hb).
      (* the abstract side *)
      assert (Hsort := HK). rewrite ids_plug in Hsort. simpl in Hsort.
      apply SSorted_app_iff in Hsort. destruct Hsort as (_ & Hsort & _).
      apply SSorted_app_iff in Hsort. destruct Hsort as (Hsort & _ & _).
      apply SSorted_app_iff in Hsort. destruct Hsort as (_ & _ & Hak).
      set (L1 := cbefore c ++ ids a). set (L2 := ids b ++ cafter c).
      assert (El : ids (plug c (Nd a z b)) = L1 ++ z :: L2).
      { rewrite ids_plug. unfold L1, L2. simpl. rewrite <- !app_assoc. reflexivity. }
      assert (Habs : del_key klt key (tabs h (ids (plug c (Nd a z b)))) = Some (tabs h L1 ++ tabs h L2)).
      { rewrite El, tabs_app. simpl. apply (del_key_app klt).
        - intros e He. unfold ProofsTreeIns.tabs in He. apply in_map_iff in He. destruct He as (j & <- & Hj). simpl.
          unfold keq. unfold L1 in Hj. apply in_app_or in Hj. destruct Hj as [Hj|Hj].
          + rewrite (Hlo j Hj). now rewrite andb_false_r.
          + destruct (klt_negtrans _ key _ (Hak j z Hj ltac:(now left))) as [X|X]; [|congruence].
            rewrite X. now rewrite andb_false_r.
        - simpl. unfold keq. now rewrite E1, E2. }
      assert (HKr : KSorted h (L1 ++ L2)). { apply (KSorted_remove klt h L1 z L2). rewrite <- El. exact HK. }
      (* final packaging from a result of del_body *)
      assert (Fin : forall h' root' d l',
                Good h' root' l' -> hred h' NIL = false ->
                tabs h' l' = tabs h L1 ++ tabs h L2 -> Permutation (ids (plug c (Nd a z b))) (d :: l') ->
                exists h'0 root'0 d0 l'0, DOk (mkTree h' root') d = DOk (mkTree h'0 root'0) d0 /\
                  Good h'0 root'0 l'0 /\ KSorted h'0 l'0 /\
                  del_key klt key (tabs h (ids (plug c (Nd a z b)))) = Some (tabs h'0 l'0) /\
                  Permutation (ids (plug c (Nd a z b))) (d0 :: l'0) /\ hred h'0 NIL = false).
      { intros h' root' d l' G' B' T' P'. exists h', root', d, l'. split; [reflexivity|]. split; [exact G'|].
        split.
        - eapply (KSorted_of_keys klt); [|exact HKr].
          rewrite <- tabs_app in T'. unfold ProofsTreeIns.tabs in T'.
          apply (f_equal (map fst)) in T'. rewrite !map_map in T'. simpl in T'. exact T'.
        - split; [rewrite Habs, T'; reflexivity|]. split; assumption. }
      destruct ((hleft h z =? NIL) || (hright h z =? NIL)) eqn:Eone.
      + (* y = z *)
        destruct (Z.eqb_spec z NIL); [contradiction|].
        assert (Hone : a = L \/ b = L).
        { apply orb_true_iff in Eone. destruct Eone as [E|E]; apply Z.eqb_eq in E.
          - left. exact (Rep_root_L _ _ _ _ Ha E).
          - right. exact (Rep_root_L _ _ _ _ Hb E). }
        destruct (del_body_ok_ fuel h root z z c a b res HR HN Hone HB H) as (h' & root' & -> & G' & B' & KV' & _).
        assert (Hzin : In z (ids (plug c (Nd a z b)))) by (rewrite El; apply in_or_app; right; now left).
        pose proof (del_body_good fuel h root z z c a b h' root' HR HN Hone HM HNil HS HB Hzin H) as GG'.
        apply (Fin h' root' z (cbefore c ++ (ids a ++ ids b) ++ cafter c) GG' B').
        * unfold L1, L2. rewrite <- tabs_app, <- !app_assoc.
          apply tabs_ext. intros j _. apply KV'. now right.
        * rewrite El. symmetry.
          replace (cbefore c ++ (ids a ++ ids b) ++ cafter c) with (L1 ++ L2)
            by (unfold L1, L2; rewrite <- !app_assoc; reflexivity).
          apply Permutation_middle.
      + (* y = minimum of the right subtree *)
        apply orb_false_iff in Eone. destruct Eone as [Eal Ebr]. apply Z.eqb_neq in Eal, Ebr.
        destruct (tree_minimum fuel h (hright h z)) as [y|] eqn:Hm; [|discriminate].
        destruct b as [|b1 p b2]; [simpl in Hb; contradiction|].
        assert (Ep : hright h z = p) by (simpl in Hb; tauto). rewrite Ep in *.
        assert (HCz : RepC h (CR c a z) p root). { simpl. repeat split; auto. }
        destruct (tree_minimum_ok h root fuel (CR c a z) p b1 b2 y HCz Hb Hm) as (cy & ry & Epl & HCy & HRy & Ebef & Eaft).
        assert (Hyn : y <> NIL) by (simpl in HRy; tauto).
        destruct (Z.eqb_spec y NIL); [contradiction|].
        cbn [cafter] in Eaft. cbn [cbefore] in Ebef.
        simpl in Epl.
        assert (Hzin : In z (ids (plug cy (Nd L y ry)))) by (rewrite Epl, El; apply in_or_app; right; now left).
        rewrite <- Epl in HR, HN, HM, HS.
        destruct (del_body_ok_ fuel h root z y cy L ry res HR HN (or_introl eq_refl) HB H)
          as (h' & root' & -> & G' & B' & KV' & KZ').
        pose proof (del_body_good fuel h root z y cy L ry h' root' HR HN (or_introl eq_refl) HM HNil HS HB Hzin H) as GG'.
        cbn [ids app] in GG'.
        cbn [ids app] in G'.
        (* y is not z, and z is not among the other ids *)
        assert (HN' := HN). rewrite Epl in HN'. rewrite El in HN'.
        assert (Hyin : In y L2). { unfold L2. rewrite <- Eaft. now left. }
        assert (Hyz : y <> z).
        { intros ->. apply NoDup_remove_2 in HN'. apply HN'. apply in_or_app. now right. }
        assert (Hznot : ~ In z (L1 ++ L2)). { apply NoDup_remove_2 in HN'. exact HN'. }
        set (S := ids ry ++ cafter cy) in *.
        assert (EL2 : L2 = y :: S). { unfold L2, S. rewrite <- Eaft. reflexivity. }
        assert (El' : cbefore cy ++ S = L1 ++ z :: S).
        { rewrite Ebef. unfold L1. rewrite <- !app_assoc. reflexivity. }
        rewrite El' in G', GG'.
        destruct (KZ' Hyz) as (Kz & Vz).
        apply (Fin h' root' y (L1 ++ z :: S) GG' B').
        * rewrite EL2. rewrite tabs_app. simpl. rewrite Kz, Vz. f_equal; [|f_equal]; apply tabs_ext; intros j Hj; apply KV'; left;
            intros ->; apply Hznot; rewrite EL2; apply in_or_app; [now left|right; now right].
        * rewrite El, EL2.
          replace (L1 ++ z :: y :: S) with ((L1 ++ [z]) ++ y :: S) by (rewrite <- app_assoc; reflexivity).
          replace (L1 ++ z :: S) with ((L1 ++ [z]) ++ S) by (rewrite <- app_assoc; reflexivity).
          symmetry. apply Permutation_middle.
  Qed.
End DelMax.
