(* C05/ProofsTreeFix.v — the whole _rb_insert_fixup loop (recolourings and rotations,
   any number of iterations) preserves the tree invariant, the in-order id sequence
   and every key / payload. *)
Require Import Base.Prelude.
Require Import C05.Tree C05.ProofsTreeBase C05.ProofsTreeRot C05.ProofsTreeInv.
Require Import Permutation.

Section Fix.
  Context {K G N : Type}.
  Variable ggt : G -> G -> bool.
  Variable nmin : N -> G.
  Variable smallest : G.
  Notation heap := (@heap K G N).
  Notation left_rotate := (@left_rotate K G N ggt nmin).
  Notation right_rotate := (@right_rotate K G N ggt nmin).
  Notation ifix := (@ifix K G N ggt nmin).
  Notation ifix_step := (@ifix_step K G N ggt nmin).
  Notation TInv := (@TInv K G N ggt nmin smallest).
  Hypothesis ggt_asym : forall a b, ggt a b = true -> ggt b a = false.
  Hypothesis gle_trans : forall a b c, gle ggt a b -> gle ggt b c -> gle ggt a c.

  (* the tree is well formed and its in-order id sequence is l *)
  Definition Good (h : heap) (root : Z) (l : list Z) : Prop := exists s, TInv h root s /\ ids s = l.
  Definition same_kv (h h' : heap) : Prop := forall j, hkey h' j = hkey h j /\ hval h' j = hval h j.

  Lemma same_kv_refl h : same_kv h h. Proof. intros j; auto. Qed.
  Lemma same_kv_trans h1 h2 h3 : same_kv h1 h2 -> same_kv h2 h3 -> same_kv h1 h3.
  Proof. intros A B j. destruct (A j) as [A1 A2], (B j) as [B1 B2]. split; congruence. Qed.
  Lemma same_kvc_kv h h' : same_kvc h h' -> same_kv h h'.
  Proof. intros A j. destruct (A j) as (A1 & A2 & _). auto. Qed.

  Lemma Good_set_red h root l i c : Good h root l -> Good (set_red h i c) root l.
  Proof.
    intros (s & (HR & HN & HM & HNil & HS) & <-). exists s. split; [|reflexivity].
    unfold ProofsTreeInv.TInv. split; [|split; [|split; [|split]]].
    - eapply Rep_ext; [|exact HR]. intros j _. unfold same_ptrs. now autorewrite with heap.
    - exact HN.
    - eapply MaxOK_ext; [|exact HM]. intros j _. now autorewrite with heap.
    - now autorewrite with heap.
    - intros j Hj. unfold Tree.hmin. autorewrite with heap. apply HS. exact Hj.
  Qed.

  Lemma set_red_kv h i c : same_kv h (set_red h i c).
  Proof. intros j. now autorewrite with heap. Qed.

  Lemma hred_NIL_set_red (h : heap) i c : hred h NIL = false -> (c = false \/ i <> NIL) ->
    hred (set_red h i c) NIL = false.
  Proof.
    intros H Hc. autorewrite with heap. destruct (Z.eqb_spec i NIL); [|exact H].
    destruct Hc; [assumption|contradiction].
  Qed.

  Lemma parent_closed h root l z : Good h root l -> In z l -> hparent h z = NIL \/ In (hparent h z) l.
  Proof.
    intros (s & (HR & _) & <-) Hz. destruct (find_node _ _ Hz) as (c & a & b & ->).
    apply Rep_plug in HR. destruct HR as (p & HC & Hx). simpl in Hx. destruct Hx as (-> & _ & Hp & _).
    rewrite Hp. destruct (cpar_cases _ _ _ _ HC) as [E|[E _]]; [now left|right].
    rewrite ids_plug. apply cids_in in E.
    destruct E as [E|E]; apply in_or_app; [now left|right; apply in_or_app; now right].
  Qed.

  Lemma lrot_good h root l x h' root' :
    Good h root l -> In x l -> left_rotate h root x = Some (h', root') ->
    Good h' root' l /\ same_kvc h h' /\ hparent h' x = hright h x /\ In (hright h x) l /\ x <> NIL.
  Proof.
    intros (s & HT & <-) Hx Hrot. destruct (find_node _ _ Hx) as (c & a & r & ->).
    destruct (lrot_inv ggt nmin smallest ggt_asym gle_trans _ _ _ _ _ _ _ _ HT Hrot)
      as (b & y & d & -> & Ey & HT' & Hkv & Hp & _).
    assert (Hids : ids (plug c (Nd (Nd a x b) y d)) = ids (plug c (Nd a x (Nd b y d)))).
    { rewrite !ids_plug. f_equal. simpl. repeat (rewrite <- app_assoc; simpl). reflexivity. }
    split; [exists (plug c (Nd (Nd a x b) y d)); split; [exact HT'|exact Hids]|].
    split; [exact Hkv|]. split; [congruence|]. split.
    - rewrite <- Ey, ids_plug. apply in_or_app; right. apply in_or_app; left. simpl.
      apply in_or_app; right; right. apply in_or_app; right; now left.
    - unfold Tree.left_rotate in Hrot. destruct (x =? NIL) eqn:E; [discriminate|]. now apply Z.eqb_neq in E.
  Qed.

  Lemma rrot_good h root l y h' root' :
    Good h root l -> In y l -> right_rotate h root y = Some (h', root') ->
    Good h' root' l /\ same_kvc h h' /\ hparent h' y = hleft h y /\ In (hleft h y) l /\ y <> NIL.
  Proof.
    intros (s & HT & <-) Hy Hrot. destruct (find_node _ _ Hy) as (c & l0 & d & ->).
    destruct (rrot_inv ggt nmin smallest ggt_asym gle_trans _ _ _ _ _ _ _ _ HT Hrot)
      as (a & x & b & -> & Ex & HT' & Hkv & Hp & _).
    assert (Hids : ids (plug c (Nd a x (Nd b y d))) = ids (plug c (Nd (Nd a x b) y d))).
    { rewrite !ids_plug. f_equal. simpl. repeat (rewrite <- app_assoc; simpl). reflexivity. }
    split; [exists (plug c (Nd a x (Nd b y d))); split; [exact HT'|exact Hids]|].
    split; [exact Hkv|]. split; [congruence|]. split.
    - rewrite <- Ex, ids_plug. apply in_or_app; right. apply in_or_app; left. simpl.
      apply in_or_app; left. apply in_or_app; right; now left.
    - unfold Tree.right_rotate in Hrot. destruct (y =? NIL) eqn:E; [discriminate|]. now apply Z.eqb_neq in E.
  Qed.

  (* the root's cached maximum bounds every node's min3 *)
  Lemma Good_root_upper h root l j : Good h root l -> In j l -> gle ggt (hmin nmin h j) (hmax h root).
  Proof.
    intros (s & (HR & _ & HM & _) & <-) Hj. destruct s as [|a i b]; [contradiction|].
    simpl in HR. destruct HR as (-> & _). simpl in HM. destruct HM as (_ & _ & (U & _)). apply U. exact Hj.
  Qed.

  (* state of the fix-up loop *)
  Definition FixSt (h : heap) (root : Z) (l : list Z) (z : Z) : Prop :=
    Good h root l /\ In z l /\ hred h NIL = false.

  Lemma ifix_step_ok h root l z h1 root1 z1 :
    FixSt h root l z -> hred h (hparent h z) = true ->
    ifix_step h root z (hparent h z) = Some (h1, root1, z1) ->
    FixSt h1 root1 l z1 /\ same_kv h h1.
  Proof.
    intros (HG & Hz & HNb) Hred Hstep.
    assert (Hzp : In (hparent h z) l).
    { destruct (parent_closed _ _ _ _ HG Hz) as [E|E]; [rewrite E in Hred; congruence|exact E]. }
    unfold Tree.ifix_step in Hstep.
    set (zp := hparent h z) in *. set (zpp := hparent h zp) in *.
    destruct (Z.eqb_spec zpp NIL) as [|Hzppn]; [discriminate|].
    assert (Hzpp : In zpp l).
    { destruct (parent_closed _ _ _ _ HG Hzp) as [E|E]; [contradiction|exact E]. }
    assert (Case1 : forall y, FixSt (set_red (set_red (set_red h zp false) y false) zpp true) root l zpp /\
                              same_kv h (set_red (set_red (set_red h zp false) y false) zpp true)).
    { intros y. split; [split; [|split]|].
      - repeat apply Good_set_red. exact HG.
      - exact Hzpp.
      - repeat apply hred_NIL_set_red; auto.
      - eapply same_kv_trans; [eapply same_kv_trans|]; apply set_red_kv. }
    (* the common tail: recolour and rotate at the grandparent *)
    assert (TailR : forall h2 r2 z2, Good h2 r2 l -> In z2 l -> hred h2 NIL = false -> same_kv h h2 ->
              In (hparent h2 z2) l -> 
              match right_rotate (set_red (set_red h2 (hparent h2 z2) false) (hparent h2 (hparent h2 z2)) true) r2
                                 (hparent h2 (hparent h2 z2)) with
              | Some (h3, r3) => Some (h3, r3, z2) | None => None end = Some (h1, root1, z1) ->
              FixSt h1 root1 l z1 /\ same_kv h h1).
    { intros h2 r2 z2 G2 Z2 B2 KV2 P2 Hm.
      destruct (right_rotate _ r2 _) as [[h3 r3]|] eqn:Hr; [|discriminate]. injection Hm as <- <- <-.
      assert (G2' : Good (set_red (set_red h2 (hparent h2 z2) false) (hparent h2 (hparent h2 z2)) true) r2 l)
        by (repeat apply Good_set_red; exact G2).
      assert (Hg : hparent h2 (hparent h2 z2) <> NIL).
      { unfold Tree.right_rotate in Hr. destruct (hparent h2 (hparent h2 z2) =? NIL) eqn:E; [discriminate|].
        now apply Z.eqb_neq in E. }
      assert (Hin : In (hparent h2 (hparent h2 z2)) l).
      { destruct (parent_closed _ _ _ _ G2 P2) as [E|E]; [contradiction|exact E]. }
      destruct (rrot_good _ _ _ _ _ _ G2' Hin Hr) as (G3 & KV3 & _).
      split; [split; [exact G3|split; [exact Z2|]]|].
      - destruct (KV3 NIL) as (_ & _ & ->). repeat apply hred_NIL_set_red; auto.
      - eapply same_kv_trans; [exact KV2|]. eapply same_kv_trans; [|apply same_kvc_kv; exact KV3].
        eapply same_kv_trans; apply set_red_kv. }
    assert (TailL : forall h2 r2 z2, Good h2 r2 l -> In z2 l -> hred h2 NIL = false -> same_kv h h2 ->
              In (hparent h2 z2) l -> 
              match left_rotate (set_red (set_red h2 (hparent h2 z2) false) (hparent h2 (hparent h2 z2)) true) r2
                                 (hparent h2 (hparent h2 z2)) with
              | Some (h3, r3) => Some (h3, r3, z2) | None => None end = Some (h1, root1, z1) ->
              FixSt h1 root1 l z1 /\ same_kv h h1).
    { intros h2 r2 z2 G2 Z2 B2 KV2 P2 Hm.
      destruct (left_rotate _ r2 _) as [[h3 r3]|] eqn:Hr; [|discriminate]. injection Hm as <- <- <-.
      assert (G2' : Good (set_red (set_red h2 (hparent h2 z2) false) (hparent h2 (hparent h2 z2)) true) r2 l)
        by (repeat apply Good_set_red; exact G2).
      assert (Hg : hparent h2 (hparent h2 z2) <> NIL).
      { unfold Tree.left_rotate in Hr. destruct (hparent h2 (hparent h2 z2) =? NIL) eqn:E; [discriminate|].
        now apply Z.eqb_neq in E. }
      assert (Hin : In (hparent h2 (hparent h2 z2)) l).
      { destruct (parent_closed _ _ _ _ G2 P2) as [E|E]; [contradiction|exact E]. }
      destruct (lrot_good _ _ _ _ _ _ G2' Hin Hr) as (G3 & KV3 & _).
      split; [split; [exact G3|split; [exact Z2|]]|].
      - destruct (KV3 NIL) as (_ & _ & ->). repeat apply hred_NIL_set_red; auto.
      - eapply same_kv_trans; [exact KV2|]. eapply same_kv_trans; [|apply same_kvc_kv; exact KV3].
        eapply same_kv_trans; apply set_red_kv. }
    destruct (zp =? hleft h zpp).
    - destruct (hred h (hright h zpp)).
      + injection Hstep as <- <- <-. apply Case1.
      + destruct (Z.eqb_spec z (hright h zp)) as [Ez|Ez].
        * destruct (left_rotate h root zp) as [[h2 r2]|] eqn:Hr; [|discriminate].
          destruct (lrot_good _ _ _ _ _ _ HG Hzp Hr) as (G2 & KV2 & P2 & I2 & _).
          apply (TailR h2 r2 zp); auto.
          -- destruct (KV2 NIL) as (_ & _ & ->). exact HNb.
          -- apply same_kvc_kv; exact KV2.
          -- rewrite P2. exact I2.
        * apply (TailR h root z); auto. apply same_kv_refl.
    - destruct (hred h (hleft h zpp)).
      + injection Hstep as <- <- <-. apply Case1.
      + destruct (Z.eqb_spec z (hleft h zp)) as [Ez|Ez].
        * destruct (right_rotate h root zp) as [[h2 r2]|] eqn:Hr; [|discriminate].
          destruct (rrot_good _ _ _ _ _ _ HG Hzp Hr) as (G2 & KV2 & P2 & I2 & _).
          apply (TailL h2 r2 zp); auto.
          -- destruct (KV2 NIL) as (_ & _ & ->). exact HNb.
          -- apply same_kvc_kv; exact KV2.
          -- rewrite P2. exact I2.
        * apply (TailL h root z); auto. apply same_kv_refl.
  Qed.

  Lemma ifix_ok : forall fuel h root l z h' root',
    FixSt h root l z -> ifix fuel h root z = Some (h', root') ->
    Good h' root' l /\ same_kv h h' /\ hred h' NIL = false /\ hred h' root' = false.
  Proof.
    induction fuel as [|f IH]; intros h root l z h' root' HS H; simpl in H.
    - destruct (hred h (hparent h z)) eqn:E; simpl in H; [discriminate|]. injection H as <- <-.
      destruct HS as (HG & _ & HB). split; [apply Good_set_red; exact HG|]. split; [apply set_red_kv|].
      split; [apply hred_NIL_set_red; auto|]. autorewrite with heap. now rewrite Z.eqb_refl.
    - destruct (hred h (hparent h z)) eqn:E; simpl in H.
      + destruct (ifix_step h root z (hparent h z)) as [[[h1 r1] z1]|] eqn:Hs; [|discriminate].
        destruct (ifix_step_ok _ _ _ _ _ _ _ HS E Hs) as (HS1 & KV1).
        destruct (IH _ _ _ _ _ _ HS1 H) as (A & B & C & D).
        split; [exact A|]. split; [eapply same_kv_trans; eauto|]. auto.
      + injection H as <- <-.
        destruct HS as (HG & _ & HB). split; [apply Good_set_red; exact HG|]. split; [apply set_red_kv|].
        split; [apply hred_NIL_set_red; auto|]. autorewrite with heap. now rewrite Z.eqb_refl.
  Qed.
End Fix.
