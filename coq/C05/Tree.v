(* C05/Tree.v — executable model of the array-encoded red-black tree of
   xrspatial/viewshed.py (lines 93-732) AS IT IS WRITTEN: the status structure of
   the radial sweep.  Definitions only.

   The two NumPy arrays tree_vals[num_nodes, 8] / tree_nodes[num_nodes, 4] are one
   finite map from node id (Z) to a node record (key, the payload = three gradients
   and three bearings, the cached maximum TN_MAX_GRAD_ID, colour, left / right /
   parent ids).  NIL_ID = -1 is an ordinary row of the arrays (Numba wraps the
   negative index to the last row): it is an ordinary entry of the map here, so
   the code's READS of NIL's colour / cached maximum and its WRITES to NIL's
   parent field (rotations, line 581 of _delete_from_tree) are modelled as they
   happen.  NIL's left/right/parent are initialised to num_nodes
   (_create_status_struct); dereferencing that value is an out-of-bounds read in
   the jitted code, so the model stops with None at the places where the code
   would do it (guards marked OOB).  Every while loop takes explicit fuel and
   returns None when it runs out.

   Gradient comparisons: ggt a b is "a > b" (and "b < a"), geq is "==" (used only by the
   pre-fix loops del_up*_prefix), nmin is
   _find_value_min_value, ncontrib n ang is the closed-span test check_me together
   with the interpolated gradient of phase 2 of _find_max_value_within_key. *)
Require Import Base.Prelude.
Require Import FMapPositive.

Definition NIL : Z := -1.

(* injective encoding of node ids into the keys of the positive map *)
Definition zkey (z : Z) : positive :=
  match z with Z0 => xH | Zpos p => xO p | Zneg p => xI p end.

Section Tree.
  Context {A K G N : Type}.
  Variable klt : K -> K -> bool.          (* <  on keys (squared distances) *)
  Variable ggt : G -> G -> bool.          (* >  on gradients *)
  Variable geq : G -> G -> bool.          (* == on gradients *)
  Variable nmin : N -> G.                 (* _find_value_min_value *)
  Variable ncontrib : N -> A -> option G. (* check_me + interpolated gradient *)
  Variable smallest : G.                  (* SMALLEST_GRAD *)

  Record tnode := mkT {
    t_key : K; t_val : N; t_max : G; t_red : bool;
    t_left : Z; t_right : Z; t_parent : Z }.

  Record heap := mkH { hmap : PositiveMap.t tnode; hdef : tnode }.
  Definition hget (h : heap) (i : Z) : tnode :=
    match PositiveMap.find (zkey i) (hmap h) with Some n => n | None => hdef h end.
  Definition hset (h : heap) (i : Z) (n : tnode) : heap :=
    mkH (PositiveMap.add (zkey i) n (hmap h)) (hdef h).

  Definition set_max (h : heap) (i : Z) (g : G) : heap :=
    let n := hget h i in hset h i (mkT (t_key n) (t_val n) g (t_red n) (t_left n) (t_right n) (t_parent n)).
  Definition set_red (h : heap) (i : Z) (c : bool) : heap :=
    let n := hget h i in hset h i (mkT (t_key n) (t_val n) (t_max n) c (t_left n) (t_right n) (t_parent n)).
  Definition set_left (h : heap) (i : Z) (p : Z) : heap :=
    let n := hget h i in hset h i (mkT (t_key n) (t_val n) (t_max n) (t_red n) p (t_right n) (t_parent n)).
  Definition set_right (h : heap) (i : Z) (p : Z) : heap :=
    let n := hget h i in hset h i (mkT (t_key n) (t_val n) (t_max n) (t_red n) (t_left n) p (t_parent n)).
  Definition set_parent (h : heap) (i : Z) (p : Z) : heap :=
    let n := hget h i in hset h i (mkT (t_key n) (t_val n) (t_max n) (t_red n) (t_left n) (t_right n) p).
  Definition set_kv (h : heap) (i : Z) (k : K) (v : N) : heap :=
    let n := hget h i in hset h i (mkT k v (t_max n) (t_red n) (t_left n) (t_right n) (t_parent n)).

  Definition hkey h i := t_key (hget h i).
  Definition hval h i := t_val (hget h i).
  Definition hmax h i := t_max (hget h i).
  Definition hred h i := t_red (hget h i).
  Definition hleft h i := t_left (hget h i).
  Definition hright h i := t_right (hget h i).
  Definition hparent h i := t_parent (hget h i).
  Definition hmin h i := nmin (hval h i).          (* _find_value_min_value(tree_vals, i) *)

  (* the root pointer travels with the arrays *)
  Record tree := mkTree { th : heap; troot : Z }.

  (* _create_status_struct: node 0 = dummy root (BLACK), last row = NIL (BLACK) whose
     links are num_nodes *)
  Definition tree_create (k0 : K) (v0 : N) (num_nodes : Z) : tree :=
    let d := mkT k0 v0 smallest false NIL NIL NIL in
    let h := mkH (PositiveMap.empty tnode) d in
    let h := hset h 0 d in
    let h := hset h NIL (mkT k0 v0 smallest false num_nodes num_nodes num_nodes) in
    mkTree h 0.

  (* "if a > b: tmp = a else: tmp = b" followed by "if tmp > own: max = tmp else: max = own"
     (rotations, "fix augmentation for x", "to_fix = z" in delete) *)
  Definition refresh (h : heap) (i : Z) (a b : G) : heap :=
    let tmp := if ggt a b then a else b in
    let own := hmin h i in
    set_max h i (if ggt tmp own then tmp else own).

  (* "if left > right: max = left else: max = right; if own > max: max = own"
     (the two upward loops of delete) *)
  Definition recompute (h : heap) (i : Z) : heap :=
    let l := hmax h (hleft h i) in
    let r := hmax h (hright h i) in
    let h := set_max h i (if ggt l r then l else r) in
    let own := hmin h i in
    if ggt own (hmax h i) then set_max h i own else h.

  (* _left_rotate(tree_vals, tree_nodes, root, x) *)
  Definition left_rotate (h : heap) (root x : Z) : option (heap * Z) :=
    let y := hright h x in
    if (x =? NIL) || (y =? NIL) then None            (* OOB: y_left = NIL's left = num_nodes *)
    else
      let x_left := hleft h x in
      let y_left := hleft h y in
      let h := refresh h x (hmax h x_left) (hmax h y_left) in
      let y_right := hright h y in
      let h := refresh h y (hmax h x) (hmax h y_right) in
      let h := set_right h x (hleft h y) in
      let y_left := hleft h y in
      let h := set_parent h y_left x in
      let h := set_parent h y (hparent h x) in
      let hr :=
        if hparent h x =? NIL then (h, y)
        else
          let xp := hparent h x in
          if x =? hleft h xp then (set_left h xp y, root) else (set_right h xp y, root) in
      let h := fst hr in
      let h := set_left h y x in
      let h := set_parent h x y in
      Some (h, snd hr).

  (* _right_rotate(tree_vals, tree_nodes, root, y) *)
  Definition right_rotate (h : heap) (root y : Z) : option (heap * Z) :=
    let x := hleft h y in
    if (y =? NIL) || (x =? NIL) then None            (* OOB *)
    else
      let x_right := hright h x in
      let y_right := hright h y in
      let h := refresh h y (hmax h x_right) (hmax h y_right) in
      let x_left := hleft h x in
      let h := refresh h x (hmax h x_left) (hmax h y) in
      let h := set_left h y (hright h x) in
      let x_right := hright h x in
      let h := set_parent h x_right y in
      let h := set_parent h x (hparent h y) in
      let hr :=
        if hparent h y =? NIL then (h, x)
        else
          let yp := hparent h y in
          if hleft h yp =? y then (set_left h yp x, root) else (set_right h yp x, root) in
      let h := fst hr in
      let h := set_right h x y in
      let h := set_parent h y x in
      Some (h, snd hr).

  (* one iteration of the while loop of _rb_insert_fixup (z_parent is RED) *)
  Definition ifix_step (h : heap) (root z zp : Z) : option (heap * Z * Z) :=
    let zpp := hparent h zp in
    if zpp =? NIL then None                           (* OOB: uncle = NIL's child = num_nodes *)
    else
      let n1 := hparent h z in
      let n2 := hleft h zpp in
      if n1 =? n2 then
        let y := hright h zpp in
        if hred h y then
          Some (set_red (set_red (set_red h zp false) y false) zpp true, root, zpp)
        else
          match (if z =? hright h zp
                 then match left_rotate h root zp with
                      | Some (h', r') => Some (h', r', zp) | None => None end
                 else Some (h, root, z)) with
          | None => None
          | Some (h, root, z) =>
            let zp := hparent h z in
            let zpp := hparent h zp in
            let h := set_red h zp false in
            let h := set_red h zpp true in
            match right_rotate h root zpp with
            | Some (h, root) => Some (h, root, z) | None => None end
          end
      else
        let y := hleft h zpp in
        if hred h y then
          Some (set_red (set_red (set_red h zp false) y false) zpp true, root, zpp)
        else
          match (if z =? hleft h zp
                 then match right_rotate h root zp with
                      | Some (h', r') => Some (h', r', zp) | None => None end
                 else Some (h, root, z)) with
          | None => None
          | Some (h, root, z) =>
            let zp := hparent h z in
            let zpp := hparent h zp in
            let h := set_red h zp false in
            let h := set_red h zpp true in
            match left_rotate h root zpp with
            | Some (h, root) => Some (h, root, z) | None => None end
          end.

  (* _rb_insert_fixup *)
  Fixpoint ifix (fuel : nat) (h : heap) (root z : Z) : option (heap * Z) :=
    let zp := hparent h z in
    if negb (hred h zp) then Some (set_red h root false, root)
    else match fuel with
         | O => None
         | S f => match ifix_step h root z zp with
                  | None => None
                  | Some (h, root, z) => ifix f h root z
                  end
         end.

  (* the descent of _insert_into_tree *)
  Definition ins_next (h : heap) (k : K) (cur : Z) : Z :=
    if klt k (hkey h cur) then hleft h cur else hright h cur.
  Fixpoint descend (fuel : nat) (h : heap) (k : K) (cur next : Z) : option Z :=
    if next =? NIL then Some cur
    else match fuel with
         | O => None
         | S f => descend f h k next (ins_next h k next)
         end.

  (* "update augmented maxGradient": the upward loop of _insert_into_tree *)
  Fixpoint ins_up (fuel : nat) (h : heap) (next : Z) : option heap :=
    if hparent h next =? NIL then Some h
    else match fuel with
         | O => None
         | S f =>
           let np := hparent h next in
           let h := if ggt (hmax h next) (hmax h np) then set_max h np (hmax h next) else h in
           if ggt (hmax h np) (hmax h next) then Some h else ins_up f h np
         end.

  (* _insert_into_tree(tree_vals, tree_nodes, root, node_id, value) *)
  Definition t_insert (fuel : nat) (t : tree) (id : Z) (k : K) (v : N) : option tree :=
    let h := th t in
    let root := troot t in
    match descend fuel h k root (ins_next h k root) with
    | None => None
    | Some cur =>
      (* _create_tree_nodes(..., node_id, value, RB_RED); parent = cur *)
      let h := hset h id (mkT k v smallest true NIL NIL NIL) in
      let h := set_parent h id cur in
      let h := if klt k (hkey h cur) then set_left h cur id else set_right h cur id in
      let h := set_max h id (hmin h id) in
      match ins_up fuel h id with
      | None => None
      | Some h =>
        match ifix fuel h root id with
        | None => None
        | Some (h, root) => Some (mkTree h root)
        end
      end
    end.

  (* _search_for_node *)
  Fixpoint search (fuel : nat) (h : heap) (cur : Z) (key : K) : option Z :=
    if cur =? NIL then Some cur
    else
      let kc := hkey h cur in
      if negb (klt key kc || klt kc key) then Some cur
      else match fuel with
           | O => None
           | S f => search f h (if klt key kc then hleft h cur else hright h cur) key
           end.

  (* phase 1 of _find_max_value_within_key: walk from the key node to the root *)
  Fixpoint q_up (fuel : nat) (h : heap) (cur : Z) (mx : G) : option G :=
    if hparent h cur =? NIL then Some mx
    else match fuel with
         | O => None
         | S f =>
           let cp := hparent h cur in
           let mx :=
             if cur =? hright h cp then
               let tmp := hmax h (hleft h cp) in
               let mx := if ggt tmp mx then tmp else mx in
               let mv := hmin h cp in
               if ggt mv mx then mv else mx
             else mx in
           q_up f h cp mx
         end.

  (* "get next smaller key" *)
  Fixpoint go_right (fuel : nat) (h : heap) (cur : Z) : option Z :=
    if hright h cur =? NIL then Some cur
    else match fuel with O => None | S f => go_right f h (hright h cur) end.
  Fixpoint climb_left (fuel : nat) (h : heap) (last cur : Z) : option Z :=
    if negb (cur =? NIL) && (last =? hleft h cur)
    then match fuel with O => None | S f => climb_left f h cur (hparent h cur) end
    else Some cur.
  Definition pred_step (fuel : nat) (h : heap) (cur : Z) : option Z :=
    if negb (hleft h cur =? NIL) then go_right fuel h (hleft h cur)
    else climb_left fuel h cur (hparent h cur).

  Inductive qres := QVal (g : G) | QTooLarge.   (* ValueError("current dist too large ") *)

  (* phase 2: "traverse all nodes with smaller distance" *)
  Fixpoint q_walk (fuel fuel2 : nat) (h : heap) (key_node : Z) (max_key : K) (ang : A) (grad : G)
           (cur : Z) (mx : G) : option qres :=
    if cur =? NIL then Some (QVal mx)
    else match fuel with
         | O => None
         | S f =>
           if klt max_key (hkey h cur) then Some QTooLarge
           else
             let continue mx :=
               match pred_step fuel2 h cur with
               | None => None
               | Some nx => q_walk f fuel2 h key_node max_key ang grad nx mx
               end in
             match ncontrib (hval h cur) ang with
             | Some cg =>
               if negb (cur =? key_node) then
                 let mx := if ggt cg mx then cg else mx in
                 if ggt mx grad then Some (QVal mx) else continue mx
               else continue mx
             | None => continue mx
             end
         end.

  (* _max_grad_in_status_struct / _find_max_value_within_key *)
  Definition t_query (fuel : nat) (t : tree) (max_key : K) (ang : A) (grad : G) : option qres :=
    let h := th t in
    let root := troot t in
    if root =? NIL then Some (QVal smallest)
    else
      match search fuel h root max_key with
      | None => None
      | Some key_node =>
        if key_node =? NIL then Some (QVal smallest)
        else
          match q_up fuel h key_node smallest with
          | None => None
          | Some mx =>
            if ggt mx grad then Some (QVal mx)
            else q_walk (S fuel) fuel h key_node max_key ang grad key_node smallest
          end
      end.

  (* _tree_minimum *)
  Fixpoint tree_minimum (fuel : nat) (h : heap) (x : Z) : option Z :=
    if hleft h x =? NIL then Some x
    else match fuel with O => None | S f => tree_minimum f h (hleft h x) end.

  (* "fix augmentation for removing y" (fixed code, commit e4337e3): EVERY ancestor of y is
     recomputed from its children and its own gradients *)
  Fixpoint del_up1 (fuel : nat) (h : heap) (cur : Z) : option heap :=
    if hparent h cur =? NIL then Some h
    else match fuel with
         | O => None
         | S f => let cp := hparent h cur in del_up1 f (recompute h cp) cp
         end.

  (* the loop after the successor copy (fixed code): every ancestor of z is recomputed *)
  Definition del_up2 := del_up1.

  (* ---- the loops as they were BEFORE the fix e4337e3 (kept only to state what was wrong:
     they stop / skip on equality tests that assume exact ancestors) ---- *)
  Fixpoint del_up1_prefix (fuel : nat) (h : heap) (ymin : G) (cur : Z) : option heap :=
    if hparent h cur =? NIL then Some h
    else match fuel with
         | O => None
         | S f =>
           let cp := hparent h cur in
           if geq (hmax h cp) ymin then del_up1_prefix f (recompute h cp) ymin cp
           else Some h
         end.

  Fixpoint del_up2_prefix (fuel : nat) (h : heap) (zgrad : G) (x z : Z) : option heap :=
    if hparent h z =? NIL then Some h
    else match fuel with
         | O => None
         | S f =>
           let zp := hparent h z in
           let h :=
             if geq (hmax h zp) zgrad then
               let zpl := hleft h zp in
               let xp := hparent h x in
               let xpr := hright h xp in
               if negb (geq (hmin h zp) zgrad) &&
                  negb (geq (hmax h zpl) zgrad && geq (hmax h xpr) zgrad)
               then recompute h zp else h
             else
               if ggt (hmax h z) (hmax h zp) then set_max h zp (hmax h z) else h in
           del_up2_prefix f h zgrad x zp
         end.

  (* one iteration of the while loop of _rb_delete_fixup (x != root, x BLACK) *)
  Definition dfix_step (h : heap) (root x : Z) : option (heap * Z * Z) :=
    let xp := hparent h x in
    if x =? hleft h xp then
      let w := hright h xp in
      match (if hred h w then
               let h := set_red h w false in
               let h := set_red h xp true in
               match left_rotate h root xp with
               | Some (h, root) => Some (h, root, hright h xp) | None => None end
             else Some (h, root, w)) with
      | None => None
      | Some (h, root, w) =>
        if w =? NIL then Some (h, root, hparent h x)
        else
          let wl := hleft h w in
          let wr := hright h w in
          if negb (hred h wl) && negb (hred h wr) then
            let h := set_red h w true in
            Some (h, root, hparent h x)
          else
            match (if negb (hred h wr) then
                     let h := set_red h wl false in
                     let h := set_red h w true in
                     match right_rotate h root w with
                     | Some (h, root) => Some (h, root, hright h (hparent h x)) | None => None end
                   else Some (h, root, w)) with
            | None => None
            | Some (h, root, w) =>
              let xp := hparent h x in
              let wr := hright h w in
              let h := set_red h w (hred h xp) in
              let h := set_red h xp false in
              let h := set_red h wr false in
              match left_rotate h root xp with
              | Some (h, root) => Some (h, root, root) | None => None end
            end
      end
    else
      let w := hleft h xp in
      match (if hred h w then
               let h := set_red h w false in
               let h := set_red h xp true in
               match right_rotate h root xp with
               | Some (h, root) => Some (h, root, hleft h xp) | None => None end
             else Some (h, root, w)) with
      | None => None
      | Some (h, root, w) =>
        if w =? NIL then Some (h, root, xp)
        else
          let wl := hleft h w in
          let wr := hright h w in
          let xp := hparent h x in
          if negb (hred h wr) && negb (hred h wl) then
            let h := set_red h w true in
            Some (h, root, xp)
          else
            match (if negb (hred h wl) then
                     let h := set_red h wr false in
                     let h := set_red h w true in
                     match left_rotate h root w with
                     | Some (h, root) => Some (h, root, hleft h xp) | None => None end
                   else Some (h, root, w)) with
            | None => None
            | Some (h, root, w) =>
              let h := set_red h w (hred h xp) in
              let h := set_red h xp false in
              let wl := hleft h w in
              let h := set_red h wl false in
              match right_rotate h root xp with
              | Some (h, root) => Some (h, root, root) | None => None end
            end
      end.

  (* _rb_delete_fixup *)
  Fixpoint dfix (fuel : nat) (h : heap) (root x : Z) : option (heap * Z) :=
    if negb (x =? root) && negb (hred h x) then
      match fuel with
      | O => None
      | S f => match dfix_step h root x with
               | None => None
               | Some (h, root, x) => dfix f h root x
               end
      end
    else Some (set_red h x false, root).

  Inductive dres :=
  | DOk (t : tree) (deleted : Z)
  | DNotFound                (* ValueError("node not found") *)
  | DNoSucc.                 (* ValueError("successor not found") *)

  (* _delete_from_tree(tree_vals, tree_nodes, root, key), generic in the two maximum-repair
     loops (up1 fuel h ymin y; up2 fuel h zgrad x z) *)
  Definition t_delete_gen (up1 : nat -> heap -> G -> Z -> option heap)
             (up2 : nat -> heap -> G -> Z -> Z -> option heap)
             (fuel : nat) (t : tree) (key : K) : option dres :=
    let h := th t in
    let root := troot t in
    match search fuel h root key with
    | None => None
    | Some z =>
      if z =? NIL then Some DNotFound
      else
        (* _tree_successor is only reached with a right child: _tree_minimum(right) *)
        match (if (hleft h z =? NIL) || (hright h z =? NIL) then Some z
               else tree_minimum fuel h (hright h z)) with
        | None => None
        | Some y =>
          if y =? NIL then Some DNoSucc
          else
            let x := if negb (hleft h y =? NIL) then hleft h y else hright h y in
            let h := set_parent h x (hparent h y) in
            let hrf :=
              if hparent h y =? NIL then (h, x, x)
              else
                let yp := hparent h y in
                if y =? hleft h yp then (set_left h yp x, root, yp)
                else (set_right h yp x, root, yp) in
            let h := fst (fst hrf) in
            let root := snd (fst hrf) in
            let to_fix := snd hrf in
            match up1 fuel h (hmin h y) y with
            | None => None
            | Some h =>
              if to_fix =? NIL then None      (* OOB: to_fix_left = NIL's left = num_nodes *)
              else
                let h := refresh h to_fix (hmax h (hleft h to_fix)) (hmax h (hright h to_fix)) in
                match (if negb (y =? z) then
                         let zgrad := hmin h z in
                         let h := set_kv h z (hkey h y) (hval h y) in
                         let h := refresh h z (hmax h (hleft h z)) (hmax h (hright h z)) in
                         up2 fuel h zgrad x z
                       else Some h) with
                | None => None
                | Some h =>
                  if negb (hred h y) && negb (x =? NIL) then
                    match dfix fuel h root x with
                    | None => None
                    | Some (h, root) => Some (DOk (mkTree h root) y)
                    end
                  else Some (DOk (mkTree h root) y)
                end
            end
        end
    end.

  (* the code as it is (fixed) *)
  Definition t_delete : nat -> tree -> K -> option dres :=
    t_delete_gen (fun fuel h _ y => del_up1 fuel h y) (fun fuel h _ _ z => del_up2 fuel h z).
  (* the code before the fix *)
  Definition t_delete_prefix : nat -> tree -> K -> option dres :=
    t_delete_gen del_up1_prefix del_up2_prefix.

  (* ---- the tree driven with operation sequences, as the harness drives the real
     functions: ids come from the idle stack of _viewshed_cpu_sweep (_pop / _push) ---- *)
  Inductive cop := CI (k : K) (v : N) | CD (k : K) | CQ (k : K) (a : A) (g : G).
  Inductive cres :=
  | RIns (root : Z)                 (* inserted; new root *)
  | RDel (root deleted : Z)         (* deleted; new root, freed row *)
  | RNotFound                       (* ValueError *)
  | RQry (g : G)                    (* value returned by _max_grad_in_status_struct *)
  | RQErr                           (* ValueError("current dist too large ") *)
  | RStop.                          (* fuel / OOB guard / idle stack empty: outside the model *)

  Record cstate := mkC { c_tree : tree; c_idle : list Z; c_live : nat }.

  Definition c_fuel (s : cstate) : nat := 2 * c_live s + 8.

  Definition c_init (k0 : K) (v0 : N) (num_nodes : Z) : cstate :=
    (* idle[i] = num_nodes - i, top of stack at index num_nodes - 2: pops 2, 3, ... *)
    mkC (tree_create k0 v0 num_nodes) (ziota 2 (Z.to_nat (num_nodes - 2))) 1.

  Definition c_step_gen (del : nat -> tree -> K -> option dres) (s : cstate) (o : cop) : cres * cstate :=
    match o with
    | CI k v =>
      match c_idle s with
      | [] => (RStop, s)
      | id :: idle =>
        match t_insert (c_fuel s) (c_tree s) id k v with
        | None => (RStop, s)
        | Some t => (RIns (troot t), mkC t idle (S (c_live s)))
        end
      end
    | CD k =>
      match del (c_fuel s) (c_tree s) k with
      | None => (RStop, s)
      | Some DNotFound => (RNotFound, s)
      | Some DNoSucc => (RNotFound, s)
      | Some (DOk t d) => (RDel (troot t) d, mkC t (d :: c_idle s) (pred (c_live s)))
      end
    | CQ k a g =>
      match t_query (c_fuel s) (c_tree s) k a g with
      | None => (RStop, s)
      | Some (QVal m) => (RQry m, s)
      | Some QTooLarge => (RQErr, s)
      end
    end.

  Definition c_step := c_step_gen t_delete.
  Definition c_step_prefix := c_step_gen t_delete_prefix.

  Fixpoint c_run (s : cstate) (ops : list cop) : list cres :=
    match ops with
    | [] => []
    | o :: r => let (res, s') := c_step s o in res :: c_run s' r
    end.
End Tree.
