(* C05/Proofs.v — the status invariant of the radial sweep and
   sweep = O(n^2) reference, over abstract bearing / key / gradient types. *)
Require Import Base.Prelude C05.Sweep.
Require Import Permutation Sorted.

(* ---- small list facts ---- *)
Lemma existsb_ext_in {T} (f g : T -> bool) l :
  (forall x, In x l -> f x = g x) -> existsb f l = existsb g l.
Proof.
  induction l as [|a l IH]; intros H; simpl; [reflexivity|].
  rewrite (H a) by (left; reflexivity). rewrite IH; [reflexivity|].
  intros x Hx; apply H; right; exact Hx.
Qed.

Lemma bool_eq_iff (a b : bool) : (a = true <-> b = true) -> a = b.
Proof. destruct a, b; intros [H1 H2]; try reflexivity; [symmetry; now apply H1 | now apply H2]. Qed.

Lemma NoDup_app_disjoint {T} (l1 l2 : list T) x :
  NoDup (l1 ++ l2) -> In x l1 -> In x l2 -> False.
Proof.
  induction l1 as [|a l1 IH]; simpl; intros Hnd H1 H2; [contradiction|].
  inversion Hnd as [|? ? Hna Hnd']; subst.
  destruct H1 as [-> | H1].
  - apply Hna, in_or_app; right; exact H2.
  - eapply IH; eauto.
Qed.

Section SweepProofs.
  Context {A K G N V : Type}.
  Variable alt : A -> A -> bool.
  Variable klt : K -> K -> bool.
  Variable ggt : G -> G -> bool.
  Variable nmin : N -> G.
  Variable ncontrib : N -> A -> option G.

  Local Notation cellT := (@cell A K G N V).
  Local Notation eventT := (@event A K G N V).
  Local Notation statusT := (@status K N).
  Local Notation keq := (keq klt).
  Local Notation ev_ltb := (ev_ltb alt).

  (* ------------------------------------------------------------------ *)
  (* event tags: (type number, cell id) identify an event                *)
  Definition etag (e : eventT) : Z * Z := (tnum (fst e), cid (snd e)).
  Definition tag_eqb (t1 t2 : Z * Z) : bool := (fst t1 =? fst t2) && (snd t1 =? snd t2).
  Definition memt (t : Z * Z) (P : list eventT) : bool := existsb (fun e => tag_eqb t (etag e)) P.

  Lemma tag_eqb_eq t1 t2 : tag_eqb t1 t2 = true <-> t1 = t2.
  Proof.
    destruct t1 as [a b], t2 as [c d]; unfold tag_eqb; simpl.
    rewrite andb_true_iff, !Z.eqb_eq. split; [intros [-> ->]; reflexivity | intros H; inversion H; auto].
  Qed.

  Lemma memt_true t P : memt t P = true <-> exists e, In e P /\ etag e = t.
  Proof.
    unfold memt; rewrite existsb_exists. split; intros [e [H1 H2]]; exists e; split; auto.
    - symmetry; now apply tag_eqb_eq.
    - apply tag_eqb_eq; now symmetry.
  Qed.

  Lemma memt_app t P Q : memt t (P ++ Q) = memt t P || memt t Q.
  Proof. unfold memt; apply existsb_app. Qed.

  Lemma memt_snoc t P e : memt t (P ++ [e]) = memt t P || tag_eqb t (etag e).
  Proof. rewrite memt_app; unfold memt at 2; simpl; now rewrite orb_false_r. Qed.

  (* ------------------------------------------------------------------ *)
  (* the generated events                                                *)
  Lemma in_events_of (cs : list cellT) e :
    In e (events_of cs) <-> exists c, In c cs /\ (e = (Enter, c) \/ e = (Centre, c) \/ e = (Exit, c)).
  Proof.
    unfold events_of; rewrite in_flat_map. split; intros [c [Hc H]]; exists c; split; auto.
    - simpl in H; intuition.
    - simpl; intuition.
  Qed.

  Lemma events_tags_cid (cs : list cellT) t :
    In t (map etag (events_of cs)) -> In (snd t) (map cid cs).
  Proof.
    rewrite in_map_iff. intros [e [Hte He]]. subst t. apply in_events_of in He.
    destruct He as [c [Hc H]]. apply in_map_iff. exists c; split; auto.
    destruct H as [-> | [-> | ->]]; reflexivity.
  Qed.

  Lemma events_tags_nodup (cs : list cellT) :
    NoDup (map cid cs) -> NoDup (map etag (events_of cs)).
  Proof.
    induction cs as [|c cs IH]; simpl; intros Hnd; [constructor|].
    inversion Hnd as [|? ? Hn Hnd']; subst.
    assert (Hnot : forall t, snd t = cid c -> ~ In t (map etag (events_of cs))).
    { intros t Ht Hin. apply events_tags_cid in Hin. rewrite Ht in Hin. contradiction. }
    unfold etag at 1 2 3; simpl.
    constructor.
    { simpl. intros [H|[H|H]]; try discriminate. revert H; apply Hnot; reflexivity. }
    constructor.
    { simpl. intros [H|H]; try discriminate. revert H; apply Hnot; reflexivity. }
    constructor.
    { apply Hnot; reflexivity. }
    apply IH; assumption.
  Qed.

  Lemma cell_by_cid (cs : list cellT) c c' :
    NoDup (map cid cs) -> In c cs -> In c' cs -> cid c = cid c' -> c = c'.
  Proof.
    induction cs as [|a cs IH]; simpl; intros Hnd H1 H2 He; [contradiction|].
    inversion Hnd as [|? ? Hn Hnd']; subst.
    destruct H1 as [-> | H1], H2 as [-> | H2]; auto.
    - exfalso; apply Hn. rewrite He. now apply in_map.
    - exfalso; apply Hn. rewrite <- He. now apply in_map.
  Qed.

  (* ------------------------------------------------------------------ *)
  (* a sorted event list: no inversion w.r.t. the strict lexicographic key *)
  Definition noinv (L : list eventT) : Prop :=
    StronglySorted (fun x y => ev_ltb y x = false) L.

  Lemma noinv_split P e R :
    noinv (P ++ e :: R) ->
    (forall x, In x P -> ev_ltb e x = false) /\ (forall y, In y R -> ev_ltb y e = false).
  Proof.
    unfold noinv. induction P as [|p P IH]; simpl; intros H.
    - apply StronglySorted_inv in H. destruct H as [_ HF]. split; [intros x []|].
      intros y Hy. rewrite Forall_forall in HF. now apply HF.
    - apply StronglySorted_inv in H. destruct H as [HS HF].
      destruct (IH HS) as [H1 H2]. split; auto.
      intros x [<- | Hx]; auto.
      rewrite Forall_forall in HF. apply HF. apply in_or_app; right; left; reflexivity.
  Qed.

  (* where an event e' sits relative to the event e being processed *)
  Lemma position P e R e' :
    NoDup (map etag (P ++ e :: R)) -> noinv (P ++ e :: R) ->
    In e' (P ++ e :: R) -> etag e' <> etag e ->
    (memt (etag e') P = true /\ ev_ltb e e' = false) \/
    (memt (etag e') P = false /\ ev_ltb e' e = false).
  Proof.
    intros Hnd Hni Hin Hne.
    destruct (noinv_split _ _ _ Hni) as [HP HR].
    apply in_app_or in Hin. destruct Hin as [Hin|[-> | Hin]].
    - left; split; [apply memt_true; exists e'; auto | now apply HP].
    - contradiction.
    - right; split; [|now apply HR].
      destruct (memt (etag e') P) eqn:Hm; [|reflexivity]. exfalso.
      apply memt_true in Hm. destruct Hm as [x [Hx Hxt]].
      rewrite map_app in Hnd. eapply (NoDup_app_disjoint _ _ (etag e') Hnd).
      + rewrite <- Hxt. now apply in_map.
      + simpl; right. now apply in_map.
  Qed.

  Lemma not_in_prefix P e R :
    NoDup (map etag (P ++ e :: R)) -> memt (etag e) P = false.
  Proof.
    intros Hnd. destruct (memt (etag e) P) eqn:Hm; [|reflexivity]. exfalso.
    apply memt_true in Hm. destruct Hm as [x [Hx Hxt]].
    rewrite map_app in Hnd. eapply (NoDup_app_disjoint _ _ (etag e) Hnd).
    - rewrite <- Hxt. now apply in_map.
    - simpl; left; reflexivity.
  Qed.

  (* ------------------------------------------------------------------ *)
  (* status structure                                                    *)
  Fixpoint nodupkey (st : statusT) : Prop :=
    match st with [] => True | kn :: st' => has_key klt (fst kn) st' = false /\ nodupkey st' end.

  Lemma keq_sym a b : keq a b = keq b a.
  Proof. unfold Sweep.keq. apply andb_comm. Qed.

  Lemma has_key_false k (st : statusT) :
    has_key klt k st = false <-> forall x, In x st -> keq k (fst x) = false.
  Proof.
    unfold has_key. split.
    - intros H x Hx. destruct (keq k (fst x)) eqn:E; [|reflexivity].
      assert (existsb (fun kn => keq k (fst kn)) st = true) by (apply existsb_exists; exists x; auto).
      congruence.
    - intros H. destruct (existsb _ st) eqn:E; [|reflexivity].
      apply existsb_exists in E. destruct E as [x [Hx Hk]]. rewrite (H x Hx) in Hk. discriminate.
  Qed.

  Lemma del_key_spec (st : statusT) k n :
    nodupkey st -> In (k, n) st -> klt k k = false ->
    exists st', del_key klt k st = Some st' /\ nodupkey st' /\
                forall x, In x st' <-> (In x st /\ keq k (fst x) = false).
  Proof.
    intros Hnd Hin Hirr.
    assert (Hkk : keq k k = true) by (unfold Sweep.keq; rewrite Hirr; reflexivity).
    induction st as [|kn st IH]; [contradiction|].
    destruct Hnd as [Hhk Hnd]. simpl.
    destruct Hin as [-> | Hin].
    - simpl. rewrite Hkk. exists st. split; [reflexivity|]. split; [assumption|].
      intros x. split.
      + intros Hx. split; [right; assumption|]. simpl in Hhk.
        now apply (proj1 (has_key_false k st) Hhk).
      + intros [[<- | Hx] Hf]; [simpl in Hf; congruence | assumption].
    - assert (Hf : keq k (fst kn) = false).
      { rewrite keq_sym. apply (proj1 (has_key_false (fst kn) st) Hhk (k, n) Hin). }
      rewrite Hf. destruct (IH Hnd Hin) as [st' [Hd [Hnd' Hmem]]].
      rewrite Hd. exists (kn :: st'). split; [reflexivity|]. split.
      + split; [|assumption]. apply has_key_false. intros x Hx.
        apply Hmem in Hx. destruct Hx as [Hx _].
        now apply (proj1 (has_key_false (fst kn) st) Hhk).
      + intros x. simpl. rewrite Hmem. split.
        * intros [<- | [Hx Hk]]; auto.
        * intros [[<- | Hx] Hk]; auto.
  Qed.

  (* an existsb over the status = an existsb over the cells that are active *)
  Lemma existsb_status (cells : list cellT) (st : statusT) (f : cellT -> option N) (p : K -> N -> bool) :
    (forall k n, In (k, n) st <-> exists c, In c cells /\ k = ckey c /\ f c = Some n) ->
    existsb (fun kn => p (fst kn) (snd kn)) st =
    existsb (fun c => match f c with Some n => p (ckey c) n | None => false end) cells.
  Proof.
    intros H. apply bool_eq_iff. rewrite !existsb_exists. split.
    - intros [[k n] [Hin Hp]]. apply H in Hin. destruct Hin as [c [Hc [-> Hf]]].
      exists c. split; auto. rewrite Hf. exact Hp.
    - intros [c [Hc Hp]]. destruct (f c) as [n|] eqn:Hf; [|discriminate].
      exists (ckey c, n). split; auto. apply H. exists c; auto.
  Qed.
End SweepProofs.

(* ====================================================================== *)
Section Invariant.
  Context {A K G N V : Type}.
  Variable alt : A -> A -> bool.
  Variable klt : K -> K -> bool.
  Variable ggt : G -> G -> bool.
  Variable nmin : N -> G.
  Variable ncontrib : N -> A -> option G.

  Local Notation cellT := (@cell A K G N V).
  Local Notation eventT := (@event A K G N V).
  Local Notation statusT := (@status K N).
  Local Notation keq := (keq klt).
  Local Notation ev_ltb := (ev_ltb alt).
  Local Notation spans := (spans alt).
  Local Notation act_node := (act_node alt).

  Variable cells : list cellT.
  Hypothesis cells_nodup : NoDup (map cid cells).
  Hypothesis klt_irrefl : forall k, klt k k = false.
  (* entering bearing < exiting bearing exactly for the cells that do not
     start on the sweep line *)
  Hypothesis wf_span : forall c, In c cells -> alt (c_ea c) (c_xa c) = negb (cinit c).
  Variable L : list eventT.
  Hypothesis L_perm : Permutation L (events_of cells).
  Hypothesis L_noinv : noinv alt L.

  Lemma L_tags : NoDup (map etag L).
  Proof.
    eapply Permutation_NoDup; [apply Permutation_map, Permutation_sym, L_perm|].
    apply events_tags_nodup, cells_nodup.
  Qed.

  Lemma in_L t c : In c cells -> In (t, c) L.
  Proof.
    intros Hc. eapply Permutation_in; [apply Permutation_sym, L_perm|].
    apply in_events_of. exists c. split; auto. destruct t; auto.
  Qed.

  Lemma L_cell e : In e L -> In (snd e) cells.
  Proof.
    intros He. eapply Permutation_in in He; [|apply L_perm].
    apply in_events_of in He. destruct He as [c [Hc [-> | [-> | ->]]]]; exact Hc.
  Qed.

  (* lexicographic comparison of the event kinds that matter *)
  Lemma ltb_enter_exit (c c' : cellT) : ev_ltb (Enter, c) (Exit, c') = alt (c_ea c) (c_xa c').
  Proof. unfold Sweep.ev_ltb, eang; simpl. now rewrite andb_false_r, orb_false_r. Qed.
  Lemma ltb_exit_enter (c c' : cellT) :
    ev_ltb (Exit, c) (Enter, c') = alt (c_xa c) (c_ea c') || negb (alt (c_ea c') (c_xa c)).
  Proof. unfold Sweep.ev_ltb, eang; simpl. now rewrite andb_true_r. Qed.
  Lemma ltb_enter_centre (c c' : cellT) : ev_ltb (Enter, c) (Centre, c') = alt (c_ea c) (c_ca c').
  Proof. unfold Sweep.ev_ltb, eang; simpl. now rewrite andb_false_r, orb_false_r. Qed.
  Lemma ltb_centre_enter (c c' : cellT) :
    ev_ltb (Centre, c) (Enter, c') = alt (c_ca c) (c_ea c') || negb (alt (c_ea c') (c_ca c)).
  Proof. unfold Sweep.ev_ltb, eang; simpl. now rewrite andb_true_r. Qed.
  Lemma ltb_centre_exit (c c' : cellT) : ev_ltb (Centre, c) (Exit, c') = alt (c_ca c) (c_xa c').
  Proof. unfold Sweep.ev_ltb, eang; simpl. now rewrite andb_false_r, orb_false_r. Qed.
  Lemma ltb_exit_centre (c c' : cellT) :
    ev_ltb (Exit, c) (Centre, c') = alt (c_xa c) (c_ca c') || negb (alt (c_ca c') (c_xa c)).
  Proof. unfold Sweep.ev_ltb, eang; simpl. now rewrite andb_true_r. Qed.

  (* which node of c is in the status after the events of P *)
  Definition act (P : list eventT) (c : cellT) : option N :=
    if cinit c then
      if negb (memt (-1, cid c) P) then Some (cnode0 c)
      else if memt (1, cid c) P then Some (cnode c) else None
    else if memt (1, cid c) P && negb (memt (-1, cid c) P) then Some (cnode c) else None.

  Lemma act_snoc_other P (e : eventT) c' :
    tnum (fst e) = 0 \/ cid (snd e) <> cid c' -> act (P ++ [e]) c' = act P c'.
  Proof.
    intros H. unfold act. rewrite !memt_snoc.
    assert (H1 : tag_eqb (1, cid c') (etag e) = false).
    { unfold tag_eqb, etag; simpl. destruct H as [H|H]; [rewrite H; reflexivity|].
      apply andb_false_intro2. apply Z.eqb_neq. congruence. }
    assert (H2 : tag_eqb (-1, cid c') (etag e) = false).
    { unfold tag_eqb, etag; simpl. destruct H as [H|H]; [rewrite H; reflexivity|].
      apply andb_false_intro2. apply Z.eqb_neq. congruence. }
    rewrite H1, H2, !orb_false_r. reflexivity.
  Qed.

  Lemma memt0_snoc P (e : eventT) i :
    tnum (fst e) <> 0 -> memt (0, i) (P ++ [e]) = memt (0, i) P.
  Proof.
    intros H. rewrite memt_snoc. unfold tag_eqb, etag; cbn [fst snd].
    replace (0 =? tnum (fst e)) with false by (symmetry; apply Z.eqb_neq; congruence).
    rewrite andb_false_l. apply orb_false_r.
  Qed.

  (* ---- positions of a cell's own events ---- *)
  Lemma at_exit P c R :
    L = P ++ (Exit, c) :: R -> In c cells ->
    memt (-1, cid c) P = false /\ memt (1, cid c) P = negb (cinit c).
  Proof.
    intros HL Hc. pose proof L_tags as Ht. pose proof L_noinv as Hn. rewrite HL in Ht, Hn.
    split; [exact (not_in_prefix P (Exit, c) R Ht)|].
    assert (Hin : In (Enter, c) (P ++ (Exit, c) :: R)) by (rewrite <- HL; now apply in_L).
    destruct (position alt P (Exit, c) R (Enter, c) Ht Hn Hin) as [[Hm Hl]|[Hm Hl]].
    { unfold etag; simpl; congruence. }
    - change (etag (Enter, c)) with (1, cid c) in Hm. rewrite Hm.
      rewrite ltb_exit_enter, (wf_span c Hc) in Hl.
      destruct (cinit c); [|reflexivity]. simpl in Hl. rewrite orb_true_r in Hl. discriminate.
    - change (etag (Enter, c)) with (1, cid c) in Hm. rewrite Hm.
      rewrite ltb_enter_exit, (wf_span c Hc) in Hl.
      destruct (cinit c); [reflexivity|discriminate].
  Qed.

  Lemma at_enter P c R :
    L = P ++ (Enter, c) :: R -> In c cells ->
    memt (1, cid c) P = false /\ memt (-1, cid c) P = cinit c.
  Proof.
    intros HL Hc. pose proof L_tags as Ht. pose proof L_noinv as Hn. rewrite HL in Ht, Hn.
    split; [exact (not_in_prefix P (Enter, c) R Ht)|].
    assert (Hin : In (Exit, c) (P ++ (Enter, c) :: R)) by (rewrite <- HL; now apply in_L).
    destruct (position alt P (Enter, c) R (Exit, c) Ht Hn Hin) as [[Hm Hl]|[Hm Hl]].
    { unfold etag; simpl; congruence. }
    - change (etag (Exit, c)) with (-1, cid c) in Hm. rewrite Hm.
      rewrite ltb_enter_exit, (wf_span c Hc) in Hl.
      destruct (cinit c); [reflexivity|discriminate].
    - change (etag (Exit, c)) with (-1, cid c) in Hm. rewrite Hm.
      rewrite ltb_exit_enter, (wf_span c Hc) in Hl.
      destruct (cinit c); [|reflexivity]. simpl in Hl. rewrite orb_true_r in Hl. discriminate.
  Qed.

  (* ---- at a CENTER event the active set is the set of open spans ---- *)
  Lemma at_centre P c R c' :
    L = P ++ (Centre, c) :: R -> In c' cells ->
    memt (1, cid c') P = alt (c_ea c') (c_ca c) /\
    memt (-1, cid c') P = negb (alt (c_ca c) (c_xa c')).
  Proof.
    intros HL Hc'. pose proof L_tags as Ht. pose proof L_noinv as Hn. rewrite HL in Ht, Hn.
    split.
    - assert (Hin : In (Enter, c') (P ++ (Centre, c) :: R)) by (rewrite <- HL; now apply in_L).
      destruct (position alt P (Centre, c) R (Enter, c') Ht Hn Hin) as [[Hm Hl]|[Hm Hl]].
      { unfold etag; simpl; congruence. }
      + change (etag (Enter, c')) with (1, cid c') in Hm. rewrite Hm.
        rewrite ltb_centre_enter in Hl. apply orb_false_elim in Hl. destruct Hl as [_ Hl].
        now destruct (alt (c_ea c') (c_ca c)).
      + change (etag (Enter, c')) with (1, cid c') in Hm. rewrite Hm.
        rewrite ltb_enter_centre in Hl. now rewrite Hl.
    - assert (Hin : In (Exit, c') (P ++ (Centre, c) :: R)) by (rewrite <- HL; now apply in_L).
      destruct (position alt P (Centre, c) R (Exit, c') Ht Hn Hin) as [[Hm Hl]|[Hm Hl]].
      { unfold etag; simpl; congruence. }
      + change (etag (Exit, c')) with (-1, cid c') in Hm. rewrite Hm.
        rewrite ltb_centre_exit in Hl. now rewrite Hl.
      + change (etag (Exit, c')) with (-1, cid c') in Hm. rewrite Hm.
        rewrite ltb_exit_centre in Hl. apply orb_false_elim in Hl. destruct Hl as [_ Hl].
        now destruct (alt (c_ca c) (c_xa c')).
  Qed.

  Lemma act_at_centre P c R c' :
    L = P ++ (Centre, c) :: R -> In c' cells ->
    act P c' = if spans c' (c_ca c) then Some (act_node c' (c_ca c)) else None.
  Proof.
    intros HL Hc'. destruct (at_centre P c R c' HL Hc') as [H1 H2].
    unfold act, Sweep.spans, Sweep.act_node. rewrite H1, H2.
    destruct (cinit c'), (alt (c_ca c) (c_xa c')), (alt (c_ea c') (c_ca c)); reflexivity.
  Qed.

  (* ---- the status invariant ---- *)
  Definition Inv (P : list eventT) (st : statusT) : Prop :=
    nodupkey klt st /\
    (forall k n, In (k, n) st <-> exists c, In c cells /\ k = ckey c /\ act P c = Some n) /\
    (forall c1 c2 n1 n2, In c1 cells -> In c2 cells -> act P c1 = Some n1 -> act P c2 = Some n2 ->
        cid c1 <> cid c2 -> keq (ckey c1) (ckey c2) = false).

  Lemma cid_dec c c' : In c cells -> In c' cells -> c = c' \/ cid c <> cid c'.
  Proof.
    intros H1 H2. destruct (Z.eq_dec (cid c) (cid c')) as [E|E]; [left|right; exact E].
    eapply cell_by_cid; eauto.
  Qed.

  Lemma tag_eqb_refl t : tag_eqb t t = true.
  Proof. now apply tag_eqb_eq. Qed.
  Lemma tag_eqb_fst a b i j : a <> b -> tag_eqb (a, i) (b, j) = false.
  Proof. intros H. unfold tag_eqb; cbn [fst snd]. apply andb_false_intro1. now apply Z.eqb_neq. Qed.

  Lemma step_enter P (e : eventT) c R st st' :
    e = (Enter, c) -> L = P ++ e :: R -> In c cells -> Inv P st ->
    st_insert klt (ckey c) (cnode c) st = inr st' -> Inv (P ++ [e]) st'.
  Proof.
    intros He HL Hc [Hnd [Hmem Hinj]] Hins. pose proof HL as HL0. rewrite He in HL.
    unfold st_insert in Hins. destruct (has_key klt (ckey c) st) eqn:Hhk; [discriminate|].
    inversion Hins; subst st'; clear Hins.
    destruct (at_enter P c R HL Hc) as [Hm1 Hm2].
    assert (HactP : act P c = None).
    { unfold act. rewrite Hm1, Hm2. destruct (cinit c); reflexivity. }
    assert (HactP' : act (P ++ [e]) c = Some (cnode c)).
    { unfold act. rewrite !memt_snoc, Hm1, Hm2. rewrite He.
      change (etag (Enter, c)) with (1, cid c).
      rewrite tag_eqb_refl, (tag_eqb_fst (-1) 1) by discriminate.
      destruct (cinit c); reflexivity. }
    assert (Hoth : forall c', cid c <> cid c' -> act (P ++ [e]) c' = act P c').
    { intros c' Hne. apply act_snoc_other. right. rewrite He. exact Hne. }
    split; [|split].
    - split; [exact Hhk|exact Hnd].
    - intros k n. split.
      + intros [Heq|Hin].
        * inversion Heq; subst. exists c. auto.
        * apply Hmem in Hin. destruct Hin as [c' [Hc' [-> Ha]]].
          exists c'. split; auto. split; auto.
          destruct (cid_dec c c' Hc Hc') as [<-|Hne]; [congruence|].
          now rewrite Hoth.
      + intros [c' [Hc' [-> Ha]]].
        destruct (cid_dec c c' Hc Hc') as [<-|Hne].
        * rewrite HactP' in Ha. inversion Ha. left; reflexivity.
        * right. apply Hmem. exists c'. rewrite <- (Hoth c' Hne). auto.
    - intros c1 c2 n1 n2 H1 H2 Ha1 Ha2 Hne.
      destruct (cid_dec c c1 Hc H1) as [<-|Hn1], (cid_dec c c2 Hc H2) as [<-|Hn2].
      + congruence.
      + rewrite (Hoth c2 Hn2) in Ha2.
        assert (Hin : In (ckey c2, n2) st) by (apply Hmem; exists c2; auto).
        exact (proj1 (has_key_false klt (ckey c) st) Hhk _ Hin).
      + rewrite (Hoth c1 Hn1) in Ha1.
        assert (Hin : In (ckey c1, n1) st) by (apply Hmem; exists c1; auto).
        rewrite keq_sym. exact (proj1 (has_key_false klt (ckey c) st) Hhk _ Hin).
      + rewrite (Hoth c1 Hn1) in Ha1. rewrite (Hoth c2 Hn2) in Ha2. eapply Hinj; eauto.
  Qed.

  Lemma step_exit P (e : eventT) c R st st' :
    e = (Exit, c) -> L = P ++ e :: R -> In c cells -> Inv P st ->
    del_key klt (ckey c) st = Some st' -> Inv (P ++ [e]) st'.
  Proof.
    intros He HL Hc [Hnd [Hmem Hinj]] Hdel. rewrite He in HL.
    destruct (at_exit P c R HL Hc) as [Hm1 Hm2].
    assert (HactP : exists n, act P c = Some n).
    { unfold act. rewrite Hm1, Hm2. destruct (cinit c); simpl; eauto. }
    destruct HactP as [n HactP].
    assert (HactP' : act (P ++ [e]) c = None).
    { unfold act. rewrite !memt_snoc, Hm1, Hm2. rewrite He.
      change (etag (Exit, c)) with (-1, cid c).
      rewrite tag_eqb_refl, (tag_eqb_fst 1 (-1)) by discriminate.
      destruct (cinit c); reflexivity. }
    assert (Hoth : forall c', cid c <> cid c' -> act (P ++ [e]) c' = act P c').
    { intros c' Hne. apply act_snoc_other. right. rewrite He. exact Hne. }
    assert (Hin : In (ckey c, n) st) by (apply Hmem; exists c; auto).
    destruct (del_key_spec klt st (ckey c) n Hnd Hin (klt_irrefl _)) as [st2 [Hd [Hnd2 Hmem2]]].
    rewrite Hd in Hdel. inversion Hdel; subst st2; clear Hdel.
    assert (Hkk : keq (ckey c) (ckey c) = true).
    { unfold Sweep.keq. rewrite klt_irrefl. reflexivity. }
    split; [exact Hnd2|split].
    - intros k n'. rewrite Hmem2. cbn [fst]. split.
      + intros [Hi Hk]. apply Hmem in Hi. destruct Hi as [c' [Hc' [-> Ha]]].
        exists c'. split; auto. split; auto.
        destruct (cid_dec c c' Hc Hc') as [<-|Hne]; [congruence|].
        now rewrite Hoth.
      + intros [c' [Hc' [-> Ha]]].
        destruct (cid_dec c c' Hc Hc') as [<-|Hne]; [congruence|].
        rewrite (Hoth c' Hne) in Ha. split.
        * apply Hmem. exists c'. auto.
        * eapply Hinj; eauto.
    - intros c1 c2 n1 n2 H1 H2 Ha1 Ha2 Hne.
      destruct (cid_dec c c1 Hc H1) as [<-|Hn1]; [congruence|].
      destruct (cid_dec c c2 Hc H2) as [<-|Hn2]; [congruence|].
      rewrite (Hoth c1 Hn1) in Ha1. rewrite (Hoth c2 Hn2) in Ha2. eapply Hinj; eauto.
  Qed.

  Lemma step_centre_inv P (e : eventT) c st : e = (Centre, c) -> Inv P st -> Inv (P ++ [e]) st.
  Proof.
    intros He [Hnd [Hmem Hinj]].
    assert (Hsame : forall c', act (P ++ [e]) c' = act P c').
    { intros c'. apply act_snoc_other. left. rewrite He. reflexivity. }
    split; [exact Hnd|split].
    - intros k n. rewrite Hmem. split; intros [c' [H1 [H2 H3]]]; exists c'; rewrite Hsame in *; auto.
    - intros c1 c2 n1 n2 H1 H2. rewrite !Hsame. now apply Hinj.
  Qed.

  (* the two-phase query at a CENTER event = the reference decision *)
  Lemma query_eq_spec P c R st :
    L = P ++ (Centre, c) :: R -> Inv P st ->
    visible_q klt ggt nmin ncontrib st (ckey c) (c_ca c) (cgrad c) =
    spec_visible_full alt klt ggt nmin ncontrib cells c.
  Proof.
    intros HL [_ [Hmem _]].
    set (f := fun c' : cellT => if spans c' (c_ca c) then Some (act_node c' (c_ca c)) else None).
    assert (Hmem' : forall k n, In (k, n) st <-> exists c', In c' cells /\ k = ckey c' /\ f c' = Some n).
    { intros k n. rewrite Hmem. split; intros [c' [H1 [H2 H3]]]; exists c'; split; auto; split; auto.
      - unfold f. now rewrite <- (act_at_centre P c R c' HL H1).
      - unfold f in H3. now rewrite (act_at_centre P c R c' HL H1). }
    unfold visible_q, spec_visible_full, has_key, blocked_q.
    rewrite (existsb_status cells st f (fun k _ => keq (ckey c) k) Hmem').
    rewrite (existsb_status cells st f
               (fun k n => klt k (ckey c) && (ggt (nmin n) (cgrad c) || hit ggt ncontrib (cgrad c) (c_ca c) n)) Hmem').
    assert (E1 : existsb (fun c0 : cellT => match f c0 with Some _ => keq (ckey c) (ckey c0) | None => false end) cells =
                 existsb (fun c' : cellT => spans c' (c_ca c) && keq (ckey c) (ckey c')) cells).
    { apply existsb_ext_in. intros x _. unfold f. destruct (spans x (c_ca c)); reflexivity. }
    rewrite E1.
    match goal with |- (if ?b then negb ?x else true) = (if ?b then negb ?y else true) =>
      replace x with y; [reflexivity|] end.
    apply existsb_ext_in. intros x _. unfold f. destruct (spans x (c_ca c)); reflexivity.
  Qed.

  (* ---- the output ---- *)
  Definition OutInv (P : list eventT) (out : list (Z * V)) : Prop :=
    forall i v, In (i, v) out <->
      exists c, In c cells /\ memt (0, cid c) P = true /\ i = cid c /\ v = cout c /\
                spec_visible_full alt klt ggt nmin ncontrib cells c = true.

  Lemma run_inv R : forall P st out res,
    L = P ++ R -> Inv P st -> OutInv P out ->
    run klt ggt nmin ncontrib st out R = inr res -> OutInv L res.
  Proof.
    induction R as [|e R IH]; intros P st out res HL HI HO Hrun.
    - simpl in Hrun. inversion Hrun; subst res. rewrite app_nil_r in HL. rewrite HL. exact HO.
    - assert (Hc : In (snd e) cells).
      { apply L_cell. rewrite HL. apply in_or_app; right; left; reflexivity. }
      assert (HL' : L = (P ++ [e]) ++ R) by (rewrite <- app_assoc; exact HL).
      remember (snd e) as c eqn:Hce.
      destruct (fst e) eqn:Ht.
      + assert (He : e = (Exit, c)) by (destruct e; simpl in *; subst; reflexivity).
        assert (Hrun' := Hrun). rewrite He in Hrun'. simpl in Hrun'.
        destruct (del_key klt (ckey c) st) as [st'|] eqn:Hd; [|discriminate].
        apply (IH (P ++ [e]) st' out res HL'); [eapply step_exit; eauto| |exact Hrun'].
        intros i v. rewrite (HO i v).
        split; intros [c' H]; exists c'; rewrite memt0_snoc in * by (rewrite Ht; discriminate); exact H.
      + assert (He : e = (Centre, c)) by (destruct e; simpl in *; subst; reflexivity).
        assert (Hrun' := Hrun). rewrite He in Hrun'. simpl in Hrun'.
        assert (HLc : L = P ++ (Centre, c) :: R) by (rewrite <- He; exact HL).
        rewrite (query_eq_spec P c R st HLc HI) in Hrun'.
        refine (IH (P ++ [e]) st _ res HL' (step_centre_inv P e c st He HI) _ Hrun').
        assert (Hme : forall c', In c' cells ->
                   memt (0, cid c') (P ++ [e]) = true -> memt (0, cid c') P = true \/ c' = c).
        { intros c' Hc' Hm. rewrite memt_snoc in Hm. apply orb_true_iff in Hm.
          destruct Hm as [Hm|Hm]; [left; exact Hm|right].
          rewrite He in Hm. apply tag_eqb_eq in Hm. unfold etag in Hm; simpl in Hm.
          inversion Hm. eapply cell_by_cid; eauto. }
        assert (Hmc : memt (0, cid c) (P ++ [e]) = true).
        { rewrite memt_snoc, He. change (etag (Centre, c)) with (0, cid c).
          rewrite tag_eqb_refl. apply orb_true_r. }
        intros i v.
        destruct (spec_visible_full alt klt ggt nmin ncontrib cells c) eqn:Hsv.
        * split.
          -- intros [Heq|Hin].
             ++ inversion Heq; subst i v. exists c. auto.
             ++ apply HO in Hin. destruct Hin as [c' [H1 [H2 H3]]]. exists c'. split; auto. split; auto.
                rewrite memt_snoc, H2. reflexivity.
          -- intros [c' [H1 [H2 [H3 [H4 H5]]]]].
             destruct (Hme c' H1 H2) as [Hm| ->].
             ++ right. apply HO. exists c'. auto.
             ++ left. subst; reflexivity.
        * split.
          -- intros Hin. apply HO in Hin. destruct Hin as [c' [H1 [H2 H3]]]. exists c'. split; auto. split; auto.
             rewrite memt_snoc, H2. reflexivity.
          -- intros [c' [H1 [H2 [H3 [H4 H5]]]]].
             destruct (Hme c' H1 H2) as [Hm| ->].
             ++ apply HO. exists c'. auto.
             ++ congruence.
      + assert (He : e = (Enter, c)) by (destruct e; simpl in *; subst; reflexivity).
        assert (Hrun' := Hrun). rewrite He in Hrun'. simpl in Hrun'.
        destruct (st_insert klt (ckey c) (cnode c) st) as [err|st'] eqn:Hd; [discriminate|].
        apply (IH (P ++ [e]) st' out res HL'); [eapply step_enter; eauto| |exact Hrun'].
        intros i v. rewrite (HO i v).
        split; intros [c' H]; exists c'; rewrite memt0_snoc in * by (rewrite Ht; discriminate); exact H.
  Qed.

  (* ---- cells placed in the status before the sweep ---- *)
  Definition InitInv (ds : list cellT) (st : statusT) : Prop :=
    nodupkey klt st /\
    (forall k n, In (k, n) st <-> exists c, In c ds /\ cinit c = true /\ k = ckey c /\ n = cnode0 c) /\
    (forall c1 c2, In c1 ds -> In c2 ds -> cinit c1 = true -> cinit c2 = true ->
        cid c1 <> cid c2 -> keq (ckey c1) (ckey c2) = false).

  Lemma init_inv cs : forall ds st st0,
    InitInv ds st -> init_status klt cs st = inr st0 -> InitInv (ds ++ cs) st0.
  Proof.
    induction cs as [|c cs IH]; intros ds st st0 HI Hrun.
    - simpl in Hrun. inversion Hrun; subst. now rewrite app_nil_r.
    - simpl in Hrun. replace (ds ++ c :: cs) with ((ds ++ [c]) ++ cs) by (rewrite <- app_assoc; reflexivity).
      destruct HI as [Hnd [Hmem Hinj]].
      destruct (cinit c) eqn:Hci.
      + unfold st_insert in Hrun. destruct (has_key klt (ckey c) st) eqn:Hhk; [discriminate|].
        apply (IH (ds ++ [c]) ((ckey c, cnode0 c) :: st) st0); [|exact Hrun].
        split; [|split].
        * split; [exact Hhk|exact Hnd].
        * intros k n. split.
          -- intros [Heq|Hin].
             ++ inversion Heq; subst. exists c. split; [apply in_or_app; right; left; reflexivity|auto].
             ++ apply Hmem in Hin. destruct Hin as [c' [H1 H2]]. exists c'. split; [apply in_or_app; left; exact H1|exact H2].
          -- intros [c' [H1 [H2 [-> ->]]]]. apply in_app_or in H1. destruct H1 as [H1|[<-|[]]].
             ++ right. apply Hmem. exists c'. auto.
             ++ left. reflexivity.
        * intros c1 c2 H1 H2 Hi1 Hi2 Hne.
          apply in_app_or in H1. apply in_app_or in H2.
          destruct H1 as [H1|[<-|[]]], H2 as [H2|[<-|[]]].
          -- now apply Hinj.
          -- rewrite keq_sym.
             assert (Hin : In (ckey c1, cnode0 c1) st) by (apply Hmem; exists c1; auto).
             exact (proj1 (has_key_false klt (ckey c) st) Hhk _ Hin).
          -- assert (Hin : In (ckey c2, cnode0 c2) st) by (apply Hmem; exists c2; auto).
             exact (proj1 (has_key_false klt (ckey c) st) Hhk _ Hin).
          -- congruence.
      + apply (IH (ds ++ [c]) st st0); [|exact Hrun].
        split; [exact Hnd|split].
        * intros k n. rewrite Hmem. split; intros [c' [H1 H2]]; exists c'; split; auto.
          -- apply in_or_app; left; exact H1.
          -- apply in_app_or in H1. destruct H1 as [H1|[<-|[]]]; [exact H1|]. destruct H2 as [H2 _]. congruence.
        * intros c1 c2 H1 H2 Hi1 Hi2 Hne.
          apply in_app_or in H1. apply in_app_or in H2.
          destruct H1 as [H1|[<-|[]]]; [|congruence]. destruct H2 as [H2|[<-|[]]]; [|congruence].
          now apply Hinj.
  Qed.

  Lemma act_nil c : act [] c = if cinit c then Some (cnode0 c) else None.
  Proof. unfold act. simpl. destruct (cinit c); reflexivity. Qed.

  Lemma init_Inv st0 : init_status klt cells [] = inr st0 -> Inv [] st0.
  Proof.
    intros H. pose proof (init_inv cells [] [] st0) as HI. simpl in HI.
    destruct HI as [Hnd [Hmem Hinj]]; [|exact H|].
    { split; [exact I|split].
      - intros k n. split; [intros []|intros [c [[] _]]].
      - intros c1 c2 []. }
    split; [exact Hnd|split].
    - intros k n. rewrite Hmem. split; intros [c [H1 H2]]; exists c; split; auto; rewrite act_nil in *.
      + destruct H2 as [-> [-> ->]]. auto.
      + destruct H2 as [-> H2]. destruct (cinit c); [|discriminate]. inversion H2. auto.
    - intros c1 c2 n1 n2 H1 H2 Ha1 Ha2 Hne. rewrite act_nil in Ha1, Ha2.
      apply Hinj; auto.
      + destruct (cinit c1); [reflexivity|discriminate].
      + destruct (cinit c2); [reflexivity|discriminate].
  Qed.

  (* ---- the status invariant as a statement about prefixes ---- *)
  Lemma status_after_inv P2 : forall P1 st st' R,
    L = P1 ++ P2 ++ R -> Inv P1 st -> status_after klt st P2 = inr st' -> Inv (P1 ++ P2) st'.
  Proof.
    induction P2 as [|e P2 IH]; intros P1 st st' R HL HI Hrun.
    - simpl in Hrun. inversion Hrun; subst. now rewrite app_nil_r.
    - assert (Hc : In (snd e) cells).
      { apply L_cell. rewrite HL. apply in_or_app; right; left; reflexivity. }
      assert (HL' : L = (P1 ++ [e]) ++ P2 ++ R) by (rewrite <- app_assoc; exact HL).
      replace (P1 ++ e :: P2) with ((P1 ++ [e]) ++ P2) by (rewrite <- app_assoc; reflexivity).
      assert (HL0 : L = P1 ++ e :: (P2 ++ R)) by exact HL.
      remember (snd e) as c eqn:Hce.
      destruct (fst e) eqn:Ht.
      + assert (He : e = (Exit, c)) by (destruct e; simpl in *; subst; reflexivity).
        assert (Hrun' := Hrun). rewrite He in Hrun'. simpl in Hrun'.
        destruct (del_key klt (ckey c) st) as [st2|] eqn:Hd; [|discriminate].
        apply (IH (P1 ++ [e]) st2 st' R HL'); [eapply step_exit; eauto|exact Hrun'].
      + assert (He : e = (Centre, c)) by (destruct e; simpl in *; subst; reflexivity).
        assert (Hrun' := Hrun). rewrite He in Hrun'. simpl in Hrun'.
        apply (IH (P1 ++ [e]) st st' R HL'); [eapply step_centre_inv; eauto|exact Hrun'].
      + assert (He : e = (Enter, c)) by (destruct e; simpl in *; subst; reflexivity).
        assert (Hrun' := Hrun). rewrite He in Hrun'. simpl in Hrun'.
        destruct (st_insert klt (ckey c) (cnode c) st) as [err|st2] eqn:Hd; [discriminate|].
        apply (IH (P1 ++ [e]) st2 st' R HL'); [eapply step_enter; eauto|exact Hrun'].
  Qed.

  Lemma tnum_inj t t' : tnum t = tnum t' -> t = t'.
  Proof. destruct t, t'; simpl; intros H; try reflexivity; discriminate. Qed.

  Lemma memt_In P R t c :
    L = P ++ R -> In c cells -> (memt (tnum t, cid c) P = true <-> In (t, c) P).
  Proof.
    intros HL Hc. rewrite memt_true. split.
    - intros [e [He Ht]]. destruct e as [t' c']. unfold etag in Ht; simpl in Ht. inversion Ht as [[H1 H2]].
      apply tnum_inj in H1. subst t'.
      assert (Hc' : In c' cells).
      { change c' with (snd (t, c')). apply L_cell. rewrite HL. apply in_or_app; left; exact He. }
      assert (c' = c) by (eapply cell_by_cid; eauto). subst c'. exact He.
    - intros H. exists (t, c). split; [exact H|reflexivity].
  Qed.

  Theorem status_invariant P R st0 st :
    L = P ++ R -> init_status klt cells [] = inr st0 -> status_after klt st0 P = inr st ->
    forall k n, In (k, n) st <->
      exists c, In c cells /\ k = ckey c /\
        ((cinit c = true /\ ~ In (Exit, c) P /\ n = cnode0 c) \/
         (cinit c = true /\ In (Exit, c) P /\ In (Enter, c) P /\ n = cnode c) \/
         (cinit c = false /\ In (Enter, c) P /\ ~ In (Exit, c) P /\ n = cnode c)).
  Proof.
    intros HL Hi Hrun k n.
    assert (HI : Inv P st).
    { apply (status_after_inv P [] st0 st R); [exact HL|now apply init_Inv|exact Hrun]. }
    destruct HI as [_ [Hmem _]]. rewrite Hmem.
    split; intros [c [Hc [Hk H]]]; exists c; split; auto; split; auto.
    - pose proof (memt_In P R Enter c HL Hc) as HE. pose proof (memt_In P R Exit c HL Hc) as HX.
      simpl in HE, HX. unfold act in H.
      destruct (cinit c), (memt (-1, cid c) P) eqn:EX, (memt (1, cid c) P) eqn:EE; simpl in H;
        try discriminate; inversion H; subst n.
      + right; left. repeat split; auto; [now apply HX|now apply HE].
      + left. repeat split; auto. intros Hin. apply HX in Hin. discriminate.
      + left. repeat split; auto. intros Hin. apply HX in Hin. discriminate.
      + right; right. repeat split; auto; [now apply HE|]. intros Hin. apply HX in Hin. discriminate.
    - pose proof (memt_In P R Enter c HL Hc) as HE. pose proof (memt_In P R Exit c HL Hc) as HX.
      simpl in HE, HX. unfold act.
      destruct H as [[Hi1 [Hx ->]]|[[Hi1 [Hx [He ->]]]|[Hi1 [He [Hx ->]]]]]; rewrite Hi1.
      + destruct (memt (-1, cid c) P) eqn:EX; [exfalso; apply Hx, HX; reflexivity|reflexivity].
      + rewrite (proj2 HX Hx), (proj2 HE He). reflexivity.
      + rewrite (proj2 HE He). destruct (memt (-1, cid c) P) eqn:EX; [exfalso; apply Hx, HX; reflexivity|reflexivity].
  Qed.

  (* ---- sweep = reference, as sets of (cell, value) ---- *)
  Theorem sweep_sorted_spec_full out :
    sweep_sorted klt ggt nmin ncontrib cells L = inr out ->
    forall i v, In (i, v) out <-> In (i, v) (viewshed_spec_full alt klt ggt nmin ncontrib cells).
  Proof.
    unfold sweep_sorted. intros H.
    destruct (init_status klt cells []) as [err|st0] eqn:Hi; [discriminate|].
    assert (HO : OutInv L out).
    { apply (run_inv L [] st0 [] out); [reflexivity|now apply init_Inv| |exact H].
      intros i v. split; [intros []|]. intros [c [_ [Hm _]]]. discriminate. }
    intros i v. rewrite (HO i v). unfold viewshed_spec_full.
    rewrite in_map_iff. split.
    - intros [c [H1 [H2 [-> [-> H5]]]]]. exists c. split; [reflexivity|]. apply filter_In. auto.
    - intros [c [Heq Hf]]. apply filter_In in Hf. destruct Hf as [H1 H2]. inversion Heq; subst.
      exists c. split; auto. split; auto.
      apply memt_true. exists (Centre, c). split; [now apply in_L|reflexivity].
  Qed.
End Invariant.

(* ====================================================================== *)
(* the model's stable insertion sort yields an inversion-free permutation
   when < on the bearings that occur is a strict weak order *)
Section SortProofs.
  Context {A K G N V : Type}.
  Variable alt : A -> A -> bool.
  Local Notation eventT := (@event A K G N V).
  Local Notation ev_ltb := (ev_ltb alt).

  Variable okA : A -> Prop.
  Hypothesis alt_asym : forall a b, okA a -> okA b -> alt a b = true -> alt b a = false.
  Hypothesis alt_negtrans : forall a b c, okA a -> okA b -> okA c ->
      alt a b = false -> alt b c = false -> alt a c = false.

  Definition okE (e : eventT) : Prop := okA (eang e).

  Lemma ev_ltb_asym x y : okE x -> okE y -> ev_ltb y x = true -> ev_ltb x y = false.
  Proof.
    unfold okE, Sweep.ev_ltb. intros Hx Hy.
    pose proof (alt_asym _ _ Hx Hy) as A1. pose proof (alt_asym _ _ Hy Hx) as A2.
    destruct (alt (eang y) (eang x)), (alt (eang x) (eang y)); simpl; intros H;
      try reflexivity; try discriminate;
      try (specialize (A1 eq_refl)); try (specialize (A2 eq_refl)); try discriminate.
    destruct (Z.ltb_spec (tnum (fst y)) (tnum (fst x))); [|discriminate].
    destruct (Z.ltb_spec (tnum (fst x)) (tnum (fst y))); [lia|reflexivity].
  Qed.

  Lemma ev_ltb_negtrans x y z : okE x -> okE y -> okE z ->
    ev_ltb y x = false -> ev_ltb z y = false -> ev_ltb z x = false.
  Proof.
    unfold okE, Sweep.ev_ltb. intros Hx Hy Hz.
    pose proof (alt_negtrans _ _ _ Hz Hy Hx) as N1.
    pose proof (alt_negtrans _ _ _ Hx Hz Hy) as N2.
    pose proof (alt_negtrans _ _ _ Hy Hx Hz) as N3.
    destruct (alt (eang y) (eang x)), (alt (eang x) (eang y)),
             (alt (eang z) (eang y)), (alt (eang y) (eang z)),
             (alt (eang z) (eang x)), (alt (eang x) (eang z)); simpl; intros H1 H2;
      try reflexivity; try discriminate;
      try (specialize (N1 eq_refl eq_refl)); try (specialize (N2 eq_refl eq_refl));
      try (specialize (N3 eq_refl eq_refl)); try discriminate.
    destruct (Z.ltb_spec (tnum (fst y)) (tnum (fst x))); [discriminate|].
    destruct (Z.ltb_spec (tnum (fst z)) (tnum (fst y))); [discriminate|].
    destruct (Z.ltb_spec (tnum (fst z)) (tnum (fst x))); [lia|reflexivity].
  Qed.

  Lemma ev_ins_perm (x : eventT) l : Permutation (ev_ins alt x l) (x :: l).
  Proof.
    induction l as [|y l IH]; simpl; [apply Permutation_refl|].
    destruct (ev_ltb y x); [|apply Permutation_refl].
    eapply Permutation_trans; [apply perm_skip, IH|apply perm_swap].
  Qed.

  Lemma ev_sort_perm (l : list eventT) : Permutation (ev_sort alt l) l.
  Proof.
    induction l as [|x l IH]; simpl; [constructor|].
    eapply Permutation_trans; [apply ev_ins_perm|now apply perm_skip].
  Qed.

  Lemma ev_ins_noinv (x : eventT) l :
    okE x -> Forall okE l -> noinv alt l -> noinv alt (ev_ins alt x l).
  Proof.
    unfold noinv. intros Hx. induction l as [|y l IH]; intros Hok Hs; simpl.
    - constructor; constructor.
    - inversion Hok as [|? ? Hy Hok']; subst.
      apply StronglySorted_inv in Hs. destruct Hs as [Hs HF].
      destruct (ev_ltb y x) eqn:E.
      + constructor; [now apply IH|].
        eapply Permutation_Forall; [apply Permutation_sym, ev_ins_perm|].
        constructor; [now apply ev_ltb_asym|exact HF].
      + constructor; [constructor; assumption|].
        constructor; [exact E|].
        rewrite Forall_forall in *. intros z Hz.
        apply (ev_ltb_negtrans x y z); auto.
  Qed.

  Lemma ev_sort_noinv (l : list eventT) : Forall okE l -> noinv alt (ev_sort alt l).
  Proof.
    induction l as [|x l IH]; intros Hok; simpl; [constructor|].
    inversion Hok; subst. apply ev_ins_noinv; auto.
    eapply Permutation_Forall; [apply Permutation_sym, ev_sort_perm|assumption].
  Qed.
End SortProofs.

(* ====================================================================== *)
Section Final.
  Context {A K G N V : Type}.
  Variable alt : A -> A -> bool.
  Variable klt : K -> K -> bool.
  Variable ggt : G -> G -> bool.
  Variable nmin : N -> G.
  Variable ncontrib : N -> A -> option G.
  Local Notation cellT := (@cell A K G N V).
  Local Notation spans := (spans alt).
  Local Notation act_node := (act_node alt).

  Variable cells : list cellT.
  Hypothesis cells_nodup : NoDup (map cid cells).
  Hypothesis klt_irrefl : forall k, klt k k = false.
  Hypothesis wf_span : forall c, In c cells -> alt (c_ea c) (c_xa c) = negb (cinit c).

  Variable okA : A -> Prop.
  Hypothesis alt_asym : forall a b, okA a -> okA b -> alt a b = true -> alt b a = false.
  Hypothesis alt_negtrans : forall a b c, okA a -> okA b -> okA c ->
      alt a b = false -> alt b c = false -> alt a c = false.
  Hypothesis bearings_ok : forall c, In c cells -> okA (c_ea c) /\ okA (c_ca c) /\ okA (c_xa c).

  Lemma events_ok : Forall (okE okA) (events_of cells).
  Proof.
    apply Forall_forall. intros e He. apply in_events_of in He.
    destruct He as [c [Hc He]]. destruct (bearings_ok c Hc) as [H1 [H2 H3]].
    destruct He as [-> | [-> | ->]]; unfold okE, eang; simpl; assumption.
  Qed.

  Theorem sweep_spec_full out :
    viewshed_sweep alt klt ggt nmin ncontrib cells = inr out ->
    forall i v, In (i, v) out <-> In (i, v) (viewshed_spec_full alt klt ggt nmin ncontrib cells).
  Proof.
    unfold viewshed_sweep. intros H.
    exact (sweep_sorted_spec_full alt klt ggt nmin ncontrib cells cells_nodup klt_irrefl wf_span
             (ev_sort alt (events_of cells)) (ev_sort_perm alt _)
             (ev_sort_noinv alt okA alt_asym alt_negtrans _ events_ok) out H).
  Qed.

  (* ---- from the full reference to the property's statement ---- *)
  Hypothesis own_span : forall c, In c cells -> spans c (c_ca c) = true.
  Hypothesis phase1_sound : forall c c', In c cells -> In c' cells ->
      spans c' (c_ca c) = true -> klt (ckey c') (ckey c) = true ->
      ggt (nmin (act_node c' (c_ca c))) (cgrad c) = true ->
      hit ggt ncontrib (cgrad c) (c_ca c) (act_node c' (c_ca c)) = true.

  Lemma spec_full_eq_clean c : In c cells ->
    spec_visible_full alt klt ggt nmin ncontrib cells c = spec_visible alt klt ggt ncontrib cells c.
  Proof.
    intros Hc. unfold spec_visible_full, spec_visible.
    assert (Hown : existsb (fun c' : cellT => spans c' (c_ca c) && keq klt (ckey c) (ckey c')) cells = true).
    { apply existsb_exists. exists c. split; auto. rewrite (own_span c Hc).
      unfold keq. rewrite klt_irrefl. reflexivity. }
    rewrite Hown. f_equal. apply existsb_ext_in. intros x Hx.
    destruct (spans x (c_ca c)) eqn:Hs; [|reflexivity].
    destruct (klt (ckey x) (ckey c)) eqn:Hk; [|reflexivity].
    destruct (ggt (nmin (act_node x (c_ca c))) (cgrad c)) eqn:Hg; [|reflexivity].
    rewrite (phase1_sound c x Hc Hx Hs Hk Hg). reflexivity.
  Qed.

  Lemma spec_lists_eq :
    viewshed_spec_full alt klt ggt nmin ncontrib cells = viewshed_spec alt klt ggt ncontrib cells.
  Proof.
    unfold viewshed_spec_full, viewshed_spec. f_equal.
    apply filter_ext_in. intros c Hc. now apply spec_full_eq_clean.
  Qed.

  Theorem sweep_spec out :
    viewshed_sweep alt klt ggt nmin ncontrib cells = inr out ->
    forall i v, In (i, v) out <-> In (i, v) (viewshed_spec alt klt ggt ncontrib cells).
  Proof. intros H i v. rewrite <- spec_lists_eq. now apply sweep_spec_full. Qed.

  (* cell-level reading: the sweep writes cout c for exactly the cells the
     property calls visible, and nothing for the others *)
  Theorem sweep_cell_visible out :
    viewshed_sweep alt klt ggt nmin ncontrib cells = inr out ->
    forall c, In c cells ->
      (forall v, In (cid c, v) out <-> (v = cout c /\ spec_visible alt klt ggt ncontrib cells c = true)).
  Proof.
    intros H c Hc v. rewrite (sweep_spec out H). unfold viewshed_spec.
    rewrite in_map_iff. split.
    - intros [c' [Heq Hf]]. apply filter_In in Hf. destruct Hf as [H1 H2].
      inversion Heq as [[Hid Hv]]. assert (c' = c) by (eapply cell_by_cid; eauto). subst c'. auto.
    - intros [-> Hs]. exists c. split; auto. apply filter_In. auto.
  Qed.

  (* grid-level reading through [lookup] (what to_grid consults) *)
  Lemma lookup_some (l : list (Z * V)) i v : lookup i l = Some v -> In (i, v) l.
  Proof.
    induction l as [|[j w] l IH]; simpl; [discriminate|].
    destruct (i =? j) eqn:E; [|auto].
    intros H; inversion H; subst. apply Z.eqb_eq in E. subst. left; reflexivity.
  Qed.
  Lemma lookup_none (l : list (Z * V)) i : lookup i l = None -> forall v, ~ In (i, v) l.
  Proof.
    induction l as [|[j w] l IH]; simpl; [intros _ v []|].
    destruct (i =? j) eqn:E; [discriminate|].
    intros H v [Heq|Hin]; [inversion Heq; subst; rewrite Z.eqb_refl in E; discriminate|].
    exact (IH H v Hin).
  Qed.

  Theorem sweep_lookup out :
    viewshed_sweep alt klt ggt nmin ncontrib cells = inr out ->
    forall c, In c cells ->
      lookup (cid c) out = if spec_visible alt klt ggt ncontrib cells c then Some (cout c) else None.
  Proof.
    intros H c Hc. pose proof (sweep_cell_visible out H c Hc) as Hv.
    destruct (lookup (cid c) out) as [v|] eqn:El.
    - apply lookup_some in El. apply Hv in El. destruct El as [-> ->]. reflexivity.
    - destruct (spec_visible alt klt ggt ncontrib cells c) eqn:Es; [|reflexivity].
      exfalso. apply (lookup_none out (cid c) El (cout c)). apply Hv. auto.
  Qed.
End Final.
