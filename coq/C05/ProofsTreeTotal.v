(* C05/ProofsTreeTotal.v — fuel sufficiency (termination) of the read-only loops: with
   fuel >= the number of nodes of a well-formed tree the query never runs out of fuel
   and never stops (the query has no out-of-bounds guard). *)
Require Import Base.Prelude.
Require Import C05.Sweep C05.Tree C05.ProofsTreeBase C05.ProofsTreeRot C05.ProofsTreeInv C05.ProofsTreeFix
        C05.ProofsTreeIns C05.ProofsTreeQry C05.ProofsTreeStruct.
Require Import Permutation.

Fixpoint clen (c : ctx) : nat :=
  match c with Top => O | CL c' _ _ => S (clen c') | CR c' _ _ => S (clen c') end.

Lemma clen_le c : (clen c <= length (cids c))%nat.
Proof. induction c; simpl; [lia| |]; rewrite app_length; lia. Qed.

Lemma cids_len c : length (cids c) = (length (cbefore c) + length (cafter c))%nat.
Proof.
  induction c; simpl; [reflexivity| |]; rewrite !app_length; simpl; rewrite ?app_length; simpl; lia.
Qed.

Section Total.
  Context {A K G N : Type}.
  Variable klt : K -> K -> bool.
  Variable ggt : G -> G -> bool.
  Variable nmin : N -> G.
  Variable ncontrib : N -> A -> option G.
  Variable smallest : G.
  Notation heap := (@heap K G N).

  Lemma search_total (h : heap) (k : K) : forall fuel p par s,
    Rep h p par s -> (length (ids s) <= fuel)%nat -> search klt fuel h p k <> None.
  Proof.
    induction fuel as [|f IH]; intros p par s HR Hf; simpl.
    - destruct s; [simpl in HR; subst; simpl; discriminate|].
      simpl in Hf. rewrite app_length in Hf. simpl in Hf. lia.
    - destruct (Z.eqb_spec p NIL); [discriminate|].
      destruct (negb _); [discriminate|].
      destruct s as [|l i r]; [simpl in HR; contradiction|]. simpl in HR. destruct HR as (-> & _ & _ & Hl & Hr).
      simpl in Hf. rewrite app_length in Hf. simpl in Hf.
      destruct (klt k (hkey h i)); [eapply IH; [exact Hl|lia]|eapply IH; [exact Hr|lia]].
  Qed.

  Lemma q_up_total (h : heap) root : forall fuel c cur mx,
    RepC h c cur root -> hparent h cur = cpar c -> (clen c <= fuel)%nat ->
    q_up ggt nmin fuel h cur mx <> None.
  Proof.
    induction fuel as [|f IH]; intros c cur mx HC Hp Hf; simpl; rewrite Hp.
    - destruct c; simpl in *; [discriminate|lia|lia].
    - destruct c as [|c1 i r|c1 l0 i]; simpl in *; [discriminate| |];
        destruct HC as (Hi & _ & Hip & _ & HC1); destruct (Z.eqb_spec i NIL); try contradiction;
        eapply IH; [exact HC1|exact Hip|lia|exact HC1|exact Hip|lia].
  Qed.

  Lemma go_right_total (h : heap) : forall fuel p par s,
    Rep h p par s -> s <> L -> (length (ids s) <= S fuel)%nat -> go_right fuel h p <> None.
  Proof.
    induction fuel as [|f IH]; intros p par s HR Hs Hf; simpl;
      destruct s as [|l i r]; try congruence; simpl in HR; destruct HR as (-> & _ & _ & Hl & Hr);
      simpl in Hf; rewrite app_length in Hf; simpl in Hf.
    - destruct (Z.eqb_spec (hright h i) NIL) as [E|E]; [discriminate|].
      destruct r; [simpl in Hr; contradiction|]. simpl in Hf. rewrite app_length in Hf. simpl in Hf. lia.
    - destruct (Z.eqb_spec (hright h i) NIL) as [E|E]; [discriminate|].
      eapply IH; [exact Hr| |lia]. intros ->. simpl in Hr. contradiction.
  Qed.

  Lemma climb_left_total (h : heap) root : forall fuel c last,
    RepC h c last root -> (clen c <= fuel)%nat -> climb_left fuel h last (cpar c) <> None.
  Proof.
    induction fuel as [|f IH]; intros c last HC Hf.
    - destruct c; simpl in *; [discriminate|lia|lia].
    - destruct c as [|c1 i r|c1 l0 i]; simpl in *; [discriminate| |].
      + destruct HC as (Hi & Hil & Hip & _ & HC1). destruct (Z.eqb_spec i NIL); [contradiction|].
        destruct (last =? hleft h i); simpl; [|discriminate]. rewrite Hip. eapply IH; [exact HC1|lia].
      + destruct HC as (Hi & Hil & Hip & _ & HC1). destruct (Z.eqb_spec i NIL); [contradiction|].
        destruct (last =? hleft h i); simpl; [|discriminate]. rewrite Hip. eapply IH; [exact HC1|lia].
  Qed.

  Lemma pred_step_total (h : heap) root fuel c x a b :
    RepC h c x root -> Rep h x (cpar c) (Nd a x b) ->
    (length (ids (plug c (Nd a x b))) <= fuel)%nat ->
    pred_step fuel h x <> None.
  Proof.
    intros HC HR Hf. unfold pred_step. pose proof HR as HR0. simpl in HR. destruct HR as (_ & _ & Hp & Hl & Hr).
    rewrite ids_plug in Hf. rewrite !app_length in Hf. simpl in Hf. rewrite app_length in Hf. simpl in Hf.
    destruct (Z.eqb_spec (hleft h x) NIL) as [E|E]; simpl.
    - rewrite Hp. eapply climb_left_total; [exact HC|]. pose proof (clen_le c). rewrite cids_len in H. lia.
    - eapply go_right_total; [exact Hl| |lia]. intros ->. simpl in Hl. contradiction.
  Qed.

  Lemma q_walk_total (h : heap) root kn k a g fuel2 : forall fuel c x a0 b mx,
    RepC h c x root -> Rep h x (cpar c) (Nd a0 x b) ->
    NoDup (ids (plug c (Nd a0 x b))) ->
    (length (ids (plug c (Nd a0 x b))) <= fuel2)%nat ->
    (S (length (cbefore c ++ ids a0)) <= fuel)%nat ->
    q_walk klt ggt ncontrib fuel fuel2 h kn k a g x mx <> None.
  Proof.
    induction fuel as [|f IH]; intros c x a0 b mx HC HR HN Hf2 Hf; [lia|].
    pose proof HR as HR0. simpl in HR. destruct HR as (_ & Hx & _).
    cbn [q_walk]. destruct (Z.eqb_spec x NIL); [contradiction|].
    destruct (klt k (hkey h x)); [discriminate|].
    assert (Step : forall mx', match pred_step fuel2 h x with
                               | Some nx => q_walk klt ggt ncontrib f fuel2 h kn k a g nx mx'
                               | None => None end <> None).
    { intros mx'. destruct (pred_step fuel2 h x) as [nx|] eqn:Hp.
      - destruct (pred_step_ok h root fuel2 c x a0 b nx HC HR0 HN Hp)
          as [(E1 & E2)|(c2 & a2 & b2 & E1 & E2 & E3 & E4)].
        + subst nx. destruct f; simpl; discriminate.
        + eapply IH; [exact E2|exact E3|rewrite E1; exact HN|rewrite E1; exact Hf2|].
          rewrite E4, app_length in Hf. simpl in Hf. lia.
      - exfalso. exact (pred_step_total h root fuel2 c x a0 b HC HR0 Hf2 Hp). }
    destruct (ncontrib (hval h x) a) as [cg|]; [|apply Step].
    destruct (negb (x =? kn)); [|apply Step].
    destruct (ggt _ g); [discriminate|apply Step].
  Qed.

  (* the query always returns when the fuel covers the node count *)
  Theorem t_query_total fuel (t : @tree K G N) l k a g :
    SGood (th t) (troot t) l -> (length l <= fuel)%nat ->
    t_query klt ggt nmin ncontrib smallest fuel t k a g <> None.
  Proof.
    destruct t as [h root]. simpl. intros (s & (HR & HN) & <-) Hf. unfold t_query. cbn [th troot].
    destruct (root =? NIL); [discriminate|].
    destruct (search klt fuel h root k) as [kn|] eqn:Hs; [|exfalso; exact (search_total h k fuel root NIL s HR Hf Hs)].
    destruct (Z.eqb_spec kn NIL) as [|Hkn]; [discriminate|].
    (* the key node is a node of the tree *)
    assert (Hin : In kn (ids s)).
    { clear Hf. revert Hs. generalize fuel. clear -HR Hkn.
      assert (Gen : forall f p par s0, Rep h p par s0 -> (forall j, In j (ids s0) -> In j (ids s)) ->
                                  search klt f h p k = Some kn -> In kn (ids s)).
      { induction f as [|f IH]; intros p par s0 HR0 Hsub H; simpl in H.
        - destruct (Z.eqb_spec p NIL); [congruence|]. destruct (negb _); [|discriminate]. injection H as <-.
          destruct (Rep_root _ _ _ _ HR0) as [E|E]; [contradiction|apply Hsub; exact E].
        - destruct (Z.eqb_spec p NIL); [congruence|]. destruct (negb _).
          + injection H as <-. destruct (Rep_root _ _ _ _ HR0) as [E|E]; [contradiction|apply Hsub; exact E].
          + destruct s0 as [|l0 i r0]; [simpl in HR0; contradiction|]. simpl in HR0.
            destruct HR0 as (-> & _ & _ & Hl & Hr).
            destruct (klt k (hkey h i)); [eapply IH; [exact Hl| |exact H]|eapply IH; [exact Hr| |exact H]];
              intros j Hj; apply Hsub; simpl; apply in_or_app; [now left|right; now right]. }
      intros f Hs. eapply Gen; [exact HR|auto|exact Hs]. }
    destruct (find_node _ _ Hin) as (c & a0 & b & ->).
    pose proof HR as HR0. apply Rep_plug in HR0. destruct HR0 as (p & HC & Hp). pose proof Hp as Hp0. simpl in Hp.
    destruct Hp as (-> & _ & Hpar & _).
    destruct (q_up ggt nmin fuel h kn smallest) as [m1|] eqn:Hu.
    2:{ exfalso. eapply (q_up_total h root fuel c kn smallest HC Hpar); [|exact Hu].
        pose proof (clen_le c). rewrite cids_len in H. rewrite ids_plug, !app_length in Hf. lia. }
    destruct (ggt m1 g); [discriminate|].
    apply (q_walk_total h root kn k a g fuel (S fuel) c kn a0 b smallest HC Hp0 HN Hf).
    rewrite ids_plug, !app_length in Hf. simpl in Hf. rewrite app_length in *. simpl in Hf. lia.
  Qed.
End Total.
