(* C05/ProofsTreeDel.v — _delete_from_tree on the concrete tree, structural part:
   _rb_delete_fixup (any number of iterations) keeps the links / parent pointers /
   in-order id sequence / keys / payloads. *)
Require Import Base.Prelude.
Require Import C05.Sweep C05.Tree C05.ProofsTreeBase C05.ProofsTreeRot C05.ProofsTreeInv C05.ProofsTreeFix
        C05.ProofsTreeIns C05.ProofsTreeQry C05.ProofsTreeStruct.
Require Import Permutation Sorted.

Section Del.
  Context {K G N : Type}.
  Variable ggt : G -> G -> bool.
  Variable nmin : N -> G.
  Notation heap := (@heap K G N).
  Notation left_rotate := (@left_rotate K G N ggt nmin).
  Notation right_rotate := (@right_rotate K G N ggt nmin).
  Notation dfix := (@dfix K G N ggt nmin).
  Notation dfix_step := (@dfix_step K G N ggt nmin).
  Notation SGood := (@SGood K G N).
  Notation same_kv := (@same_kv K G N).

  Lemma nil_notin (h : heap) root l : SGood h root l -> ~ In NIL l.
  Proof. intros (s & (HR & _) & <-). exact (Rep_NIL_notin _ _ _ _ HR). Qed.

  Lemma lrot_guard (h : heap) r x res : left_rotate h r x = Some res -> x <> NIL /\ hright h x <> NIL.
  Proof.
    unfold Tree.left_rotate. destruct (x =? NIL) eqn:E1; [discriminate|].
    destruct (hright h x =? NIL) eqn:E2; [discriminate|]. intros _. split; now apply Z.eqb_neq.
  Qed.
  Lemma rrot_guard (h : heap) r y res : right_rotate h r y = Some res -> y <> NIL /\ hleft h y <> NIL.
  Proof.
    unfold Tree.right_rotate. destruct (y =? NIL) eqn:E1; [discriminate|].
    destruct (hleft h y =? NIL) eqn:E2; [discriminate|]. intros _. split; now apply Z.eqb_neq.
  Qed.

  Definition DSt (h : heap) (root : Z) (l : list Z) (x : Z) : Prop :=
    SGood h root l /\ l <> [] /\ In x l /\ hred h NIL = false.

  Lemma dfix_step_ok h root l x h1 root1 x1 :
    DSt h root l x -> x <> root ->
    dfix_step h root x = Some (h1, root1, x1) ->
    DSt h1 root1 l x1 /\ same_kv h h1.
  Proof.
    intros (HG & Hne & Hx & HB) Hxr Hstep.
    pose proof (nil_notin _ _ _ HG) as HNn.
    assert (Hxn : x <> NIL) by (intros ->; contradiction).
    pose proof (parent_in _ _ _ _ HG Hx Hxr) as Hxp.
    pose proof (child_cases _ _ _ _ HG Hx Hxr) as Hcc.
    unfold Tree.dfix_step in Hstep.
    set (xp := hparent h x) in *.
    assert (Hxpn : xp <> NIL) by (intros E; rewrite E in Hxp; contradiction).
    destruct (Z.eqb_spec x (hleft h xp)) as [Exl|Exl].
    - (* x is the left child *)
      set (w := hright h xp) in *.
      (* stage A *)
      assert (StA : forall hA rA wA,
                (if hred h w
                 then match left_rotate (set_red (set_red h w false) xp true) root xp with
                      | Some (h0, root0) => Some (h0, root0, hright h0 xp) | None => None end
                 else Some (h, root, w)) = Some (hA, rA, wA) ->
                SGood hA rA l /\ hred hA NIL = false /\ same_kv h hA /\ x <> rA /\ (wA = NIL \/ In wA l)).
      { intros hA rA wA HA. destruct (hred h w) eqn:Ew.
        - destruct (left_rotate _ root xp) as [[h0 r0]|] eqn:Hr; [|discriminate]. injection HA as <- <- <-.
          assert (G0 : SGood (set_red (set_red h w false) xp true) root l) by (repeat apply SGood_set_red; exact HG).
          destruct (lrot_sgood _ _ _ _ _ _ _ _ G0 Hxp Hr) as (G1 & KV & Er & _ & _ & _).
          split; [exact G1|]. split.
          { destruct (KV NIL) as (_ & _ & ->). repeat apply nil_black_set_red; auto. }
          split.
          { eapply skv_trans; [|apply skvc_kv; exact KV]. eapply skv_trans; apply set_red_skv. }
          split.
          { rewrite Er. autorewrite with heap. destruct (hparent h xp =? NIL); [|exact Hxr].
            fold w. rewrite Exl. apply (children_distinct _ _ _ _ HG Hxp). rewrite <- Exl. exact Hxn. }
          destruct (child_in _ _ _ _ G1 Hxp) as (_ & C). exact C.
        - injection HA as <- <- <-. split; [exact HG|]. split; [exact HB|]. split; [apply skv_refl|].
          split; [exact Hxr|]. destruct (child_in _ _ _ _ HG Hxp) as (_ & C). exact C. }
      destruct (if hred h w then _ else _) as [[[hA rA] wA]|] eqn:HA; [|discriminate].
      destruct (StA hA rA wA eq_refl) as (GA & BA & KA & XA & WA). clear StA HA.
      pose proof (parent_in _ _ _ _ GA Hx XA) as HxpA.
      destruct (Z.eqb_spec wA NIL) as [EwA|EwA].
      { injection Hstep as <- <- <-. split; [|exact KA]. split; [exact GA|]. split; [exact Hne|]. split; [exact HxpA|exact BA]. }
      destruct WA as [WA|WA]; [contradiction|].
      destruct (negb (hred hA (hleft hA wA)) && negb (hred hA (hright hA wA))) eqn:Enb.
      { injection Hstep as <- <- <-. split.
        - split; [apply SGood_set_red; exact GA|]. split; [exact Hne|]. split.
          + autorewrite with heap. exact HxpA.
          + apply nil_black_set_red; auto.
        - eapply skv_trans; [exact KA|apply set_red_skv]. }
      (* stage D *)
      assert (StD : forall hD rD wD,
                (if negb (hred hA (hright hA wA))
                 then match right_rotate (set_red (set_red hA (hleft hA wA) false) wA true) rA wA with
                      | Some (h0, root0) => Some (h0, root0, hright h0 (hparent h0 x)) | None => None end
                 else Some (hA, rA, wA)) = Some (hD, rD, wD) ->
                SGood hD rD l /\ hred hD NIL = false /\ same_kv h hD /\ (wD <> NIL \/ wD = hright hD (hparent hD x))).
      { intros hD rD wD HD. destruct (negb (hred hA (hright hA wA))).
        - destruct (right_rotate _ rA wA) as [[h0 r0]|] eqn:Hr; [|discriminate]. injection HD as <- <- <-.
          assert (G0 : SGood (set_red (set_red hA (hleft hA wA) false) wA true) rA l) by (repeat apply SGood_set_red; exact GA).
          destruct (rrot_sgood _ _ _ _ _ _ _ _ G0 WA Hr) as (G1 & KV & _).
          split; [exact G1|]. split.
          { destruct (KV NIL) as (_ & _ & ->). repeat apply nil_black_set_red; auto. }
          split; [|now right].
          eapply skv_trans; [exact KA|]. eapply skv_trans; [|apply skvc_kv; exact KV]. eapply skv_trans; apply set_red_skv.
        - injection HD as <- <- <-. split; [exact GA|]. split; [exact BA|]. split; [exact KA|now left]. }
      destruct (if negb (hred hA (hright hA wA)) then _ else _) as [[[hD rD] wD]|] eqn:HD; [|discriminate].
      destruct (StD hD rD wD eq_refl) as (GD & BD & KD & WD). clear StD HD.
      (* stage E *)
      destruct (left_rotate _ rD (hparent hD x)) as [[h4 r4]|] eqn:Hr; [|discriminate]. injection Hstep as <- <- <-.
      destruct (lrot_guard _ _ _ _ Hr) as (Gx & Gy).
      assert (HxpD : In (hparent hD x) l).
      { destruct (sparent_closed _ _ _ _ GD Hx) as [E|E]; [contradiction|exact E]. }
      assert (GE : SGood (set_red (set_red (set_red hD wD (hred hD (hparent hD x))) (hparent hD x) false) (hright hD wD) false) rD l)
        by (repeat apply SGood_set_red; exact GD).
      destruct (lrot_sgood _ _ _ _ _ _ _ _ GE HxpD Hr) as (G4 & KV & _).
      assert (HwD : wD <> NIL).
      { destruct WD as [E|E]; [exact E|]. rewrite E. revert Gy. autorewrite with heap. auto. }
      split.
      + split; [exact G4|]. split; [exact Hne|]. split; [apply (sroot_in _ _ _ G4 Hne)|].
        destruct (KV NIL) as (_ & _ & ->). repeat apply nil_black_set_red; auto.
      + eapply skv_trans; [exact KD|]. eapply skv_trans; [|apply skvc_kv; exact KV].
        eapply skv_trans; [eapply skv_trans|]; apply set_red_skv.
    - (* x is the right child *)
      destruct Hcc as [[E _]|[Exr Exl']]; [fold xp in E; congruence|]. fold xp in Exr, Exl'.
      set (w := hleft h xp) in *.
      assert (StA : forall hA rA wA,
                (if hred h w
                 then match right_rotate (set_red (set_red h w false) xp true) root xp with
                      | Some (h0, root0) => Some (h0, root0, hleft h0 xp) | None => None end
                 else Some (h, root, w)) = Some (hA, rA, wA) ->
                SGood hA rA l /\ hred hA NIL = false /\ same_kv h hA /\ x <> rA /\ (wA = NIL \/ In wA l)).
      { intros hA rA wA HA. destruct (hred h w) eqn:Ew.
        - destruct (right_rotate _ root xp) as [[h0 r0]|] eqn:Hr; [|discriminate]. injection HA as <- <- <-.
          assert (G0 : SGood (set_red (set_red h w false) xp true) root l) by (repeat apply SGood_set_red; exact HG).
          destruct (rrot_sgood _ _ _ _ _ _ _ _ G0 Hxp Hr) as (G1 & KV & Er & _ & _ & _).
          split; [exact G1|]. split.
          { destruct (KV NIL) as (_ & _ & ->). repeat apply nil_black_set_red; auto. }
          split.
          { eapply skv_trans; [|apply skvc_kv; exact KV]. eapply skv_trans; apply set_red_skv. }
          split.
          { rewrite Er. autorewrite with heap. destruct (hparent h xp =? NIL); [|exact Hxr].
            fold w. intros E. apply Exl'. symmetry. exact E. }
          destruct (child_in _ _ _ _ G1 Hxp) as (C & _). exact C.
        - injection HA as <- <- <-. split; [exact HG|]. split; [exact HB|]. split; [apply skv_refl|].
          split; [exact Hxr|]. destruct (child_in _ _ _ _ HG Hxp) as (C & _). exact C. }
      destruct (if hred h w then _ else _) as [[[hA rA] wA]|] eqn:HA; [|discriminate].
      destruct (StA hA rA wA eq_refl) as (GA & BA & KA & XA & WA). clear StA HA.
      pose proof (parent_in _ _ _ _ GA Hx XA) as HxpA.
      destruct (Z.eqb_spec wA NIL) as [EwA|EwA].
      { injection Hstep as <- <- <-. split; [|exact KA]. split; [exact GA|]. split; [exact Hne|]. split; [exact Hxp|exact BA]. }
      destruct WA as [WA|WA]; [contradiction|].
      destruct (negb (hred hA (hright hA wA)) && negb (hred hA (hleft hA wA))) eqn:Enb.
      { injection Hstep as <- <- <-. split.
        - split; [apply SGood_set_red; exact GA|]. split; [exact Hne|]. split; [exact HxpA|].
          apply nil_black_set_red; auto.
        - eapply skv_trans; [exact KA|apply set_red_skv]. }
      assert (StD : forall hD rD wD,
                (if negb (hred hA (hleft hA wA))
                 then match left_rotate (set_red (set_red hA (hright hA wA) false) wA true) rA wA with
                      | Some (h0, root0) => Some (h0, root0, hleft h0 (hparent hA x)) | None => None end
                 else Some (hA, rA, wA)) = Some (hD, rD, wD) ->
                SGood hD rD l /\ hred hD NIL = false /\ same_kv h hD /\ (wD <> NIL \/ wD = hleft hD (hparent hA x))).
      { intros hD rD wD HD. destruct (negb (hred hA (hleft hA wA))).
        - destruct (left_rotate _ rA wA) as [[h0 r0]|] eqn:Hr; [|discriminate]. injection HD as <- <- <-.
          assert (G0 : SGood (set_red (set_red hA (hright hA wA) false) wA true) rA l) by (repeat apply SGood_set_red; exact GA).
          destruct (lrot_sgood _ _ _ _ _ _ _ _ G0 WA Hr) as (G1 & KV & _).
          split; [exact G1|]. split.
          { destruct (KV NIL) as (_ & _ & ->). repeat apply nil_black_set_red; auto. }
          split; [|now right].
          eapply skv_trans; [exact KA|]. eapply skv_trans; [|apply skvc_kv; exact KV]. eapply skv_trans; apply set_red_skv.
        - injection HD as <- <- <-. split; [exact GA|]. split; [exact BA|]. split; [exact KA|now left]. }
      destruct (if negb (hred hA (hleft hA wA)) then _ else _) as [[[hD rD] wD]|] eqn:HD; [|discriminate].
      destruct (StD hD rD wD eq_refl) as (GD & BD & KD & WD). clear StD HD.
      destruct (right_rotate _ rD (hparent hA x)) as [[h4 r4]|] eqn:Hr; [|discriminate]. injection Hstep as <- <- <-.
      destruct (rrot_guard _ _ _ _ Hr) as (Gx & Gy).
      set (hE := set_red (set_red hD wD (hred hD (hparent hA x))) (hparent hA x) false) in *.
      assert (GE : SGood (set_red hE (hleft hE wD) false) rD l)
        by (unfold hE; repeat apply SGood_set_red; exact GD).
      destruct (rrot_sgood _ _ _ _ _ _ _ _ GE HxpA Hr) as (G4 & KV & _).
      assert (HwD : wD <> NIL).
      { destruct WD as [E|E]; [exact E|]. rewrite E. revert Gy. unfold hE. autorewrite with heap. auto. }
      split.
      + split; [exact G4|]. split; [exact Hne|]. split; [apply (sroot_in _ _ _ G4 Hne)|].
        destruct (KV NIL) as (_ & _ & ->). unfold hE. repeat apply nil_black_set_red; auto.
      + eapply skv_trans; [exact KD|]. eapply skv_trans; [|apply skvc_kv; exact KV].
        unfold hE. eapply skv_trans; [eapply skv_trans|]; apply set_red_skv.
  Qed.

  Lemma dfix_ok : forall fuel h root l x h' root',
    DSt h root l x -> dfix fuel h root x = Some (h', root') ->
    SGood h' root' l /\ same_kv h h' /\ hred h' NIL = false.
  Proof.
    induction fuel as [|f IH]; intros h root l x h' root' HS H; simpl in H.
    - destruct (negb (x =? root) && negb (hred h x)); [discriminate|]. injection H as <- <-.
      destruct HS as (HG & _ & Hx & HB). split; [apply SGood_set_red; exact HG|]. split; [apply set_red_skv|].
      apply nil_black_set_red; auto.
    - destruct (negb (x =? root) && negb (hred h x)) eqn:E.
      + apply andb_true_iff in E. destruct E as [E _]. apply negb_true_iff in E. apply Z.eqb_neq in E.
        destruct (dfix_step h root x) as [[[h1 r1] x1]|] eqn:Hs; [|discriminate].
        destruct (dfix_step_ok _ _ _ _ _ _ _ HS E Hs) as (HS1 & KV1).
        destruct (IH _ _ _ _ _ _ HS1 H) as (A & B & C). split; [exact A|]. split; [eapply skv_trans; eauto|exact C].
      + injection H as <- <-.
        destruct HS as (HG & _ & Hx & HB). split; [apply SGood_set_red; exact HG|]. split; [apply set_red_skv|].
        apply nil_black_set_red; auto.
  Qed.

  (* ---- _tree_minimum: the leftmost node of a subtree ---- *)
  Lemma tree_minimum_ok (h : heap) root : forall fuel c p a b y,
    RepC h c p root -> Rep h p (cpar c) (Nd a p b) ->
    tree_minimum fuel h p = Some y ->
    exists c2 b2, plug c2 (Nd L y b2) = plug c (Nd a p b) /\ RepC h c2 y root /\
                  Rep h y (cpar c2) (Nd L y b2) /\ cbefore c2 = cbefore c /\
                  y :: ids b2 ++ cafter c2 = ids (Nd a p b) ++ cafter c.
  Proof.
    induction fuel as [|f IH]; intros c p a b y HC HR H; simpl in H.
    - pose proof HR as HR0. simpl in HR. destruct HR as (_ & Hp & Hpp & Hl & Hr).
      destruct (Z.eqb_spec (hleft h p) NIL) as [E|E]; [|discriminate]. injection H as <-.
      rewrite (Rep_root_L _ _ _ _ Hl E) in *. exists c, b. repeat split; auto.
    - pose proof HR as HR0. simpl in HR. destruct HR as (_ & Hp & Hpp & Hl & Hr).
      destruct (Z.eqb_spec (hleft h p) NIL) as [E|E].
      + injection H as <-. rewrite (Rep_root_L _ _ _ _ Hl E) in *. exists c, b. repeat split; auto.
      + destruct a as [|a' p' b']; [simpl in Hl; contradiction|].
        assert (Ep : hleft h p = p') by (simpl in Hl; tauto).
        rewrite Ep in *.
        destruct (IH (CL c p b) p' a' b' y) as (c2 & b2 & E1 & E2 & E3 & E4 & E5); auto.
        { simpl. repeat split; auto. }
        exists c2, b2. split; [exact E1|]. split; [exact E2|]. split; [exact E3|]. split; [exact E4|].
        rewrite E5. simpl. rewrite <- !app_assoc. reflexivity.
  Qed.

  (* ---- unlinking y (lines 575-595 of viewshed.py) ---- *)
  Definition splice (h : heap) (root y x : Z) : heap * Z * Z :=
    let h := set_parent h x (hparent h y) in
    if hparent h y =? NIL then (h, x, x)
    else
      let yp := hparent h y in
      if y =? hleft h yp then (set_left h yp x, root, yp)
      else (set_right h yp x, root, yp).

  Lemma splice_facts (h : heap) root y x :
    x <> y -> (hparent h y = x -> x = NIL) ->
    let h1 := fst (fst (splice h root y x)) in
    let yp := hparent h y in
    snd (fst (splice h root y x)) = (if yp =? NIL then x else root) /\
    snd (splice h root y x) = (if yp =? NIL then x else yp) /\
    (forall j, hkey h1 j = hkey h j /\ hval h1 j = hval h j /\ hmax h1 j = hmax h j /\ hred h1 j = hred h j) /\
    (forall j, j <> x -> j <> yp -> same_ptrs h h1 j) /\
    (x <> NIL -> hparent h1 x = yp /\ hleft h1 x = hleft h x /\ hright h1 x = hright h x) /\
    (yp <> NIL -> hparent h1 yp = hparent h yp /\
       (hleft h yp = y -> hleft h1 yp = x /\ hright h1 yp = hright h yp) /\
       (hleft h yp <> y -> hright h1 yp = x /\ hleft h1 yp = hleft h yp)).
  Proof.
    intros Hxy Hxp h1 yp. subst h1. unfold splice.
    assert (E1 : hparent (set_parent h x (hparent h y)) y = yp). { unfold yp. hs. reflexivity. }
    rewrite E1.
    assert (E2 : hleft (set_parent h x (hparent h y)) yp = hleft h yp). { hs. reflexivity. }
    rewrite E2. fold yp.
    destruct (Z.eqb_spec yp NIL) as [Ey|Ey]; cbn [fst snd].
    - split; [reflexivity|]. split; [reflexivity|]. split; [intros j; repeat split; hs; reflexivity|].
      split; [intros j J1 J2; unfold same_ptrs; repeat split; hs; reflexivity|].
      split; [intros Hn; repeat split; hs; reflexivity|]. intros Hn; contradiction.
    - assert (Hne : x <> yp) by (intros E; apply Ey; rewrite <- E; apply Hxp; unfold yp in E; auto).
      destruct (Z.eqb_spec y (hleft h yp)) as [El|El]; cbn [fst snd].
      + split; [reflexivity|]. split; [reflexivity|]. split; [intros j; repeat split; hs; reflexivity|].
        split; [intros j J1 J2; unfold same_ptrs; repeat split; hs; reflexivity|].
        split; [intros Hn; repeat split; hs; reflexivity|]. intros _.
        split; [hs; reflexivity|]. split; [intros _; split; hs; reflexivity|]. intros Hc. congruence.
      + split; [reflexivity|]. split; [reflexivity|]. split; [intros j; repeat split; hs; reflexivity|].
        split; [intros j J1 J2; unfold same_ptrs; repeat split; hs; reflexivity|].
        split; [intros Hn; repeat split; hs; reflexivity|]. intros _.
        split; [hs; reflexivity|]. split; [intros Hc; congruence|]. intros _; split; hs; reflexivity.
  Qed.

  Lemma splice_ok (h : heap) root cy ly y ry :
    Rep h root NIL (plug cy (Nd ly y ry)) -> NoDup (ids (plug cy (Nd ly y ry))) -> (ly = L \/ ry = L) ->
    let x := if negb (hleft h y =? NIL) then hleft h y else hright h y in
    let sx := match ly with L => ry | _ => ly end in
    let h1 := fst (fst (splice h root y x)) in
    let root1 := snd (fst (splice h root y x)) in
    Rep h1 root1 NIL (plug cy sx) /\ NoDup (ids (plug cy sx)) /\
    ids (plug cy sx) = cbefore cy ++ (ids ly ++ ids ry) ++ cafter cy /\
    (x = NIL \/ In x (ids sx)) /\
    (forall j, hkey h1 j = hkey h j /\ hval h1 j = hval h j /\ hmax h1 j = hmax h j /\ hred h1 j = hred h j) /\
    hparent h1 y = hparent h y.
  Proof.
    intros HR HN Hone x sx h1 root1.
    apply Rep_plug in HR. destruct HR as (p & HC & Hy). pose proof Hy as Hy0. simpl in Hy.
    destruct Hy as (-> & Hyn & Hyp & Hl & Hr).
    assert (Hx : Rep h x y sx /\ ids sx = ids ly ++ ids ry).
    { subst x sx. destruct ly as [|l1 i1 r1].
      - simpl in Hl. rewrite Hl. simpl. split; [exact Hr|reflexivity].
      - destruct Hone as [E|E]; [discriminate|]. subst ry.
        assert (E : hleft h y = i1) by (simpl in Hl; tauto).
        destruct (Z.eqb_spec (hleft h y) NIL) as [E2|E2]; [simpl in Hl; destruct Hl as (? & ? & _); congruence|].
        simpl negb. cbv iota. split; [exact Hl|]. simpl. now rewrite app_nil_r. }
    destruct Hx as (Hx & Hsx).
    pose proof HN as HN0. rewrite ids_plug in HN. simpl in HN.
    apply NoDup_mid in HN. destruct HN as (NI & NC & DC).
    assert (DC' : forall z, In z (ids ly ++ y :: ids ry) -> ~ In z (cids cy)).
    { intros z Hz Hc. apply (DC z Hz). apply in_or_app. apply cids_in. exact Hc. }
    assert (NCc : NoDup (cids cy)). { eapply Permutation_NoDup; [symmetry; apply cids_perm|exact NC]. }
    assert (Nsx : NoDup (ids sx) /\ ~ In y (ids sx)).
    { rewrite Hsx. apply NoDup_remove. exact NI. }
    destruct Nsx as (Nsx & Nysx).
    assert (Isx : forall z, In z (ids sx) -> In z (ids ly ++ y :: ids ry)).
    { intros z Hz. rewrite Hsx in Hz. apply in_app_or in Hz. apply in_or_app. destruct Hz; [now left|right; now right]. }
    pose proof (Rep_root _ _ _ _ Hx) as Rx.
    pose proof (cpar_cases _ _ _ _ HC) as Ryp.
    pose proof (RepC_NIL_notin _ _ _ _ HC) as NNc.
    pose proof (Rep_NIL_notin _ _ _ _ Hx) as NNx.
    assert (Hxy : x <> y). { destruct Rx as [E|E]; [congruence|]. intros E'. rewrite E' in E. contradiction. }
    assert (Hxp : hparent h y = x -> x = NIL).
    { intros E. destruct Rx as [E1|E1]; [exact E1|]. exfalso. rewrite Hyp in E.
      destruct Ryp as [E2|[E2 _]]; [rewrite <- E, E2 in E1; contradiction|].
      rewrite E in E2. exact (DC' _ (Isx _ E1) E2). }
    destruct (splice_facts h root y x Hxy Hxp) as (Froot & _ & Fkv & Foth & Fx & Fp).
    fold h1 in Froot, Fkv, Foth, Fx, Fp. fold root1 in Froot. rewrite Hyp in *.
    assert (Hyp1 : hparent h1 y = cpar cy).
    { destruct (Foth y) as (_ & _ & E); [auto| |congruence].
      destruct Ryp as [E|[E _]]; [congruence|]. intros E'. rewrite <- E' in E.
      apply (DC' y); [apply in_or_app; right; now left|exact E]. }
    split; [|split; [|split; [|split; [exact Rx|split; [exact Fkv|exact Hyp1]]]]].
    - apply Rep_plug. exists x. split.
      + eapply RepC_swap; [exact HC| |].
        * intros j Hj Hne. apply Foth; [|exact Hne]. intros ->. destruct Rx as [E|E]; [rewrite E in Hj; contradiction|].
          exact (DC' _ (Isx _ E) Hj).
        * destruct cy as [|c i r0|c l0 i]; simpl in *.
          -- exact Froot.
          -- destruct HC as (Hi & Hil & Hip & Hr0 & HC). apply NoDup_cons_iff in NCc. destruct NCc as [NCi _].
             destruct (Fp Hi) as (G1 & G2 & _). destruct (G2 Hil) as (G3 & G4).
             rewrite Froot. destruct (Z.eqb_spec i NIL); [contradiction|]. repeat split; auto.
             ++ intros Hc. apply NCi. apply in_or_app. now left.
             ++ intros Hc. apply NCi. apply in_or_app. now right.
          -- destruct HC as (Hi & Hil & Hip & Hr0 & HC). apply NoDup_cons_iff in NCc. destruct NCc as [NCi _].
             destruct (Fp Hi) as (G1 & _ & G2).
             assert (Hne : hleft h i <> y).
             { destruct (Rep_root _ _ _ _ Hr0) as [E|E]; [congruence|]. intros E'. rewrite E' in E.
               apply (DC' y); [apply in_or_app; right; now left|]. right. apply in_or_app. now left. }
             destruct (G2 Hne) as (G3 & G4).
             rewrite Froot. destruct (Z.eqb_spec i NIL); [contradiction|]. repeat split; auto.
             ++ intros Hc. apply NCi. apply in_or_app. now left.
             ++ intros Hc. apply NCi. apply in_or_app. now right.
      + eapply Rep_reparent; [exact Hx|exact Nsx| |].
        * intros j Hj Hne. apply Foth; [exact Hne|]. intros ->.
          destruct Ryp as [E|[E _]]; [rewrite E in Hj; contradiction|]. exact (DC' _ (Isx _ Hj) E).
        * intros Hn. destruct (Fx Hn) as (G1 & G2 & G3). auto.
    - rewrite ids_plug, Hsx. rewrite ids_plug in HN0. simpl in HN0.
      rewrite <- app_assoc in HN0. rewrite app_assoc in HN0. apply NoDup_remove_1 in HN0.
      rewrite <- !app_assoc in *. exact HN0.
    - rewrite ids_plug, Hsx. reflexivity.
  Qed.

  (* ---- the maximum-repair loops only write cached maxima ---- *)
  Notation same_but_max := (@same_but_max K G N).
  Notation recompute := (@recompute K G N ggt nmin).
  Notation refresh := (@refresh K G N ggt nmin).

  Lemma recompute_sbm (h : heap) i : same_but_max h (recompute h i).
  Proof.
    unfold Tree.recompute. destruct (ggt _ _).
    - eapply sbm_trans; apply sbm_set_max.
    - apply sbm_set_max.
  Qed.
  Lemma refresh_sbm (h : heap) i a b : same_but_max h (refresh h i a b).
  Proof. unfold Tree.refresh. apply sbm_set_max. Qed.

  Lemma del_up1_sbm : forall fuel (h : heap) cur h',
    del_up1 ggt nmin fuel h cur = Some h' -> same_but_max h h'.
  Proof.
    induction fuel as [|f IH]; intros h cur h' H; simpl in H.
    - destruct (hparent h cur =? NIL); [|discriminate]. injection H as <-. apply sbm_refl.
    - destruct (hparent h cur =? NIL); [injection H as <-; apply sbm_refl|].
      eapply sbm_trans; [apply recompute_sbm|]. eapply IH. exact H.
  Qed.

  Variable klt : K -> K -> bool.
  Notation t_delete := (@t_delete K G N klt ggt nmin).
  Notation hmin := (@hmin K G N nmin).

  Definition del_body (fuel : nat) (h : heap) (root z y : Z) : option (@dres K G N) :=
    let x := if negb (hleft h y =? NIL) then hleft h y else hright h y in
    let sp := splice h root y x in
    let h1 := fst (fst sp) in
    let root1 := snd (fst sp) in
    let to_fix := snd sp in
    match del_up1 ggt nmin fuel h1 y with
    | None => None
    | Some h2 =>
      if to_fix =? NIL then None
      else
        let h3 := refresh h2 to_fix (hmax h2 (hleft h2 to_fix)) (hmax h2 (hright h2 to_fix)) in
        match (if negb (y =? z) then
                 let zgrad := hmin h3 z in
                 let h4 := set_kv h3 z (hkey h3 y) (hval h3 y) in
                 let h5 := refresh h4 z (hmax h4 (hleft h4 z)) (hmax h4 (hright h4 z)) in
                 del_up2 ggt nmin fuel h5 z
               else Some h3) with
        | None => None
        | Some h6 =>
          if negb (hred h6 y) && negb (x =? NIL) then
            match dfix fuel h6 root1 x with
            | None => None
            | Some (h7, root7) => Some (DOk (mkTree h7 root7) y)
            end
          else Some (DOk (mkTree h6 root1) y)
        end
    end.

  Lemma t_delete_unfold fuel (t : @tree K G N) key :
    t_delete fuel t key =
    match search klt fuel (th t) (troot t) key with
    | None => None
    | Some z =>
      if z =? NIL then Some DNotFound
      else match (if (hleft (th t) z =? NIL) || (hright (th t) z =? NIL) then Some z
                  else tree_minimum fuel (th t) (hright (th t) z)) with
           | None => None
           | Some y => if y =? NIL then Some DNoSucc else del_body fuel (th t) (troot t) z y
           end
    end.
  Proof. reflexivity. Qed.

  Lemma sbm_ptrs (h h' : heap) : same_but_max h h' -> forall j, same_ptrs h h' j.
  Proof. intros S j. destruct (S j) as (E & _). exact E. Qed.

  Lemma del_body_ok fuel (h : heap) root z y cy ly ry res :
    Rep h root NIL (plug cy (Nd ly y ry)) -> NoDup (ids (plug cy (Nd ly y ry))) -> (ly = L \/ ry = L) ->
    hred h NIL = false ->
    del_body fuel h root z y = Some res ->
    exists h' root', res = DOk (mkTree h' root') y /\
      SGood h' root' (cbefore cy ++ (ids ly ++ ids ry) ++ cafter cy) /\ hred h' NIL = false /\
      (forall j, j <> z \/ y = z -> hkey h' j = hkey h j /\ hval h' j = hval h j) /\
      (y <> z -> hkey h' z = hkey h y /\ hval h' z = hval h y).
  Proof.
    intros HR HN Hone HB H. unfold del_body in H.
    destruct (splice_ok h root cy ly y ry HR HN Hone) as (R1 & N1 & I1 & X1 & KV1 & _).
    set (x := if negb (hleft h y =? NIL) then hleft h y else hright h y) in *.
    set (sx := match ly with L => ry | _ => ly end) in *.
    set (h1 := fst (fst (splice h root y x))) in *.
    set (root1 := snd (fst (splice h root y x))) in *.
    set (to_fix := snd (splice h root y x)) in *.
    assert (G1 : SGood h1 root1 (cbefore cy ++ (ids ly ++ ids ry) ++ cafter cy)).
    { exists (plug cy sx). split; [split; assumption|exact I1]. }
    destruct (del_up1 ggt nmin fuel h1 y) as [h2|] eqn:H2; [|discriminate].
    pose proof (del_up1_sbm _ _ _ _ H2) as S2.
    destruct (to_fix =? NIL); [discriminate|].
    set (h3 := refresh h2 to_fix (hmax h2 (hleft h2 to_fix)) (hmax h2 (hright h2 to_fix))) in *.
    assert (S3 : same_but_max h1 h3). { eapply sbm_trans; [exact S2|apply refresh_sbm]. }
    assert (K13 : forall j, hkey h3 j = hkey h j /\ hval h3 j = hval h j /\ hred h3 j = hred h j).
    { intros j. destruct (S3 j) as (_ & A & B & C). destruct (KV1 j) as (A1 & B1 & _ & C1).
      repeat split; congruence. }
    (* the optional successor copy *)
    assert (St6 : forall h6,
              (if negb (y =? z) then
                 let zgrad := hmin h3 z in
                 let h4 := set_kv h3 z (hkey h3 y) (hval h3 y) in
                 let h5 := refresh h4 z (hmax h4 (hleft h4 z)) (hmax h4 (hright h4 z)) in
                 del_up2 ggt nmin fuel h5 z
               else Some h3) = Some h6 ->
              (forall j, same_ptrs h1 h6 j) /\ (forall j, hred h6 j = hred h j) /\
              (forall j, j <> z \/ y = z -> hkey h6 j = hkey h j /\ hval h6 j = hval h j) /\
              (y <> z -> hkey h6 z = hkey h y /\ hval h6 z = hval h y)).
    { intros h6 H6. destruct (Z.eqb_spec y z) as [Eyz|Eyz]; simpl in H6.
      - injection H6 as <-. split; [apply sbm_ptrs; exact S3|]. split; [intros j; apply K13|].
        split; [intros j _; destruct (K13 j) as (A & B & _); auto|]. intros Hc. contradiction.
      - set (h4 := set_kv h3 z (hkey h3 y) (hval h3 y)) in *.
        set (h5 := refresh h4 z (hmax h4 (hleft h4 z)) (hmax h4 (hright h4 z))) in *.
        pose proof (del_up1_sbm _ _ _ _ H6) as S6.
        assert (S56 : same_but_max h4 h6). { eapply sbm_trans; [apply refresh_sbm|exact S6]. }
        split; [|split; [|split]].
        + intros j. destruct (S56 j) as ((A & B & C) & _). destruct (S3 j) as ((A3 & B3 & C3) & _).
          unfold same_ptrs, h4 in *. autorewrite with heap in A, B, C. repeat split; congruence.
        + intros j. destruct (S56 j) as (_ & _ & _ & A). rewrite A. unfold h4. autorewrite with heap. apply K13.
        + intros j [Hj|Hj]; [|contradiction]. destruct (S56 j) as (_ & A & B & _). rewrite A, B. unfold h4.
          autorewrite with heap. destruct (Z.eqb_spec z j); [congruence|]. destruct (K13 j) as (A1 & B1 & _). auto.
        + intros _. destruct (S56 z) as (_ & A & B & _). rewrite A, B. unfold h4. autorewrite with heap.
          rewrite Z.eqb_refl. destruct (K13 y) as (A1 & B1 & _). auto. }
    destruct (if negb (y =? z) then _ else _) as [h6|] eqn:H6; [|discriminate].
    destruct (St6 h6 eq_refl) as (P6 & C6 & KV6 & KZ6). clear St6 H6.
    assert (G6 : SGood h6 root1 (cbefore cy ++ (ids ly ++ ids ry) ++ cafter cy)).
    { eapply SGood_ext; [exact P6|exact G1]. }
    assert (B6 : hred h6 NIL = false) by (rewrite C6; exact HB).
    destruct (negb (hred h6 y) && negb (x =? NIL)) eqn:Ef.
    - apply andb_true_iff in Ef. destruct Ef as [_ Ef]. apply negb_true_iff in Ef. apply Z.eqb_neq in Ef.
      destruct (dfix fuel h6 root1 x) as [[h7 root7]|] eqn:H7; [|discriminate]. injection H as <-.
      assert (Hxin : In x (cbefore cy ++ (ids ly ++ ids ry) ++ cafter cy)).
      { destruct X1 as [E|E]; [contradiction|]. rewrite <- I1, ids_plug. apply in_or_app; right. apply in_or_app; now left. }
      assert (D6 : DSt h6 root1 (cbefore cy ++ (ids ly ++ ids ry) ++ cafter cy) x).
      { split; [exact G6|]. split; [intros E; rewrite E in Hxin; contradiction|]. split; [exact Hxin|exact B6]. }
      destruct (dfix_ok fuel h6 root1 _ x h7 root7 D6 H7) as (G7 & KV7 & B7).
      exists h7, root7. split; [reflexivity|]. split; [exact G7|]. split; [exact B7|]. split.
      + intros j Hj. destruct (KV7 j) as (-> & ->). apply KV6. exact Hj.
      + intros Hj. destruct (KV7 z) as (-> & ->). apply KZ6. exact Hj.
    - injection H as <-. exists h6, root1. split; [reflexivity|]. split; [exact G6|]. split; [exact B6|].
      split; assumption.
  Qed.

  Hypothesis klt_trans : forall a b c, klt a b = true -> klt b c = true -> klt a c = true.
  Hypothesis klt_negtrans : forall a b c, klt a c = true -> klt a b = true \/ klt b c = true.
  Notation KSorted := (@KSorted K G N klt).
  Notation tabs := (@tabs K G N).

  Lemma del_key_none (k : K) (st : list (K * N)) :
    (forall e, In e st -> keq klt k (fst e) = false) -> del_key klt k st = None.
  Proof.
    induction st as [|e st IH]; simpl; intros H; [reflexivity|].
    rewrite (H e) by now left. rewrite IH; [reflexivity|]. intros e' He. apply H. now right.
  Qed.
  Lemma del_key_app (k : K) (s1 : list (K * N)) e s2 :
    (forall e', In e' s1 -> keq klt k (fst e') = false) -> keq klt k (fst e) = true ->
    del_key klt k (s1 ++ e :: s2) = Some (s1 ++ s2).
  Proof.
    induction s1 as [|e1 s1 IH]; simpl; intros H He.
    - now rewrite He.
    - rewrite (H e1) by now left. rewrite IH; auto.
  Qed.

  Lemma tabs_app (h : heap) l1 l2 : tabs h (l1 ++ l2) = tabs h l1 ++ tabs h l2.
  Proof. unfold ProofsTreeIns.tabs. apply map_app. Qed.

  Lemma KSorted_of_keys (h h' : heap) l l' :
    map (hkey h') l' = map (hkey h) l -> KSorted h l -> KSorted h' l'.
  Proof.
    unfold ProofsTreeIns.KSorted. revert l'. induction l as [|x l IH]; intros l' E H.
    - destruct l'; [constructor|discriminate].
    - destruct l' as [|x' l']; [discriminate|]. simpl in E. injection E as E1 E2.
      inversion H as [|? ? H1 H2]; subst. constructor; [apply IH; assumption|].
      rewrite Forall_forall in *. intros j' Hj'. rewrite E1.
      assert (Hin : In (hkey h' j') (map (hkey h) l)) by (rewrite <- E2; apply in_map; exact Hj').
      apply in_map_iff in Hin. destruct Hin as (j & Ej & Hj). rewrite <- Ej. apply H2. exact Hj.
  Qed.

  Lemma KSorted_remove (h : heap) l1 z l2 : KSorted h (l1 ++ z :: l2) -> KSorted h (l1 ++ l2).
  Proof.
    unfold ProofsTreeIns.KSorted. intros H. apply SSorted_app_iff in H. destruct H as (A & B & C).
    apply SSorted_app_iff. split; [exact A|]. split; [inversion B; assumption|].
    intros a b Ha Hb. apply C; [exact Ha|now right].
  Qed.

  (* _delete_from_tree refines the abstract del_key (structure and abstraction) *)
  Theorem t_delete_ok fuel (t : @tree K G N) key res l :
    SGood (th t) (troot t) l -> KSorted (th t) l -> hred (th t) NIL = false ->
    t_delete fuel t key = Some res ->
    (res = DNotFound /\ del_key klt key (tabs (th t) l) = None) \/
    (exists h' root' d l', res = DOk (mkTree h' root') d /\
       SGood h' root' l' /\ KSorted h' l' /\
       del_key klt key (tabs (th t) l) = Some (tabs h' l') /\
       Permutation l (d :: l') /\ hred h' NIL = false).
  Proof.
    destruct t as [h root]. simpl. intros (s & (HR & HN) & <-) HK HB H.
    rewrite t_delete_unfold in H. simpl in H.
    destruct (search klt fuel h root key) as [z|] eqn:Hs; [|discriminate].
    destruct (search_ok klt klt_trans h key root fuel Top root s z eq_refl HR HK
                (fun j (H : In j []) => match H with end) (fun j (H : In j []) => match H with end) Hs)
      as [(-> & c' & Ec & Hlo & Hhi)|(c & a & b & Ec & HC & HRz & Hlo & Hhi & E1 & E2)].
    - (* absent *)
      simpl in H. injection H as <-. left. split; [reflexivity|]. apply del_key_none.
      simpl in Ec. subst s. rewrite ids_plug. simpl. intros e He.
      unfold ProofsTreeIns.tabs in He. apply in_map_iff in He. destruct He as (j & <- & Hj). simpl. unfold keq.
      apply in_app_or in Hj. destruct Hj as [Hj|Hj].
      + rewrite (Hlo j Hj). now rewrite andb_false_r.
      + rewrite (Hhi j Hj). reflexivity.
    - (* present *)
      right. simpl in Ec. subst s.
      assert (Hzn : z <> NIL) by (simpl in HRz; tauto).
      destruct (Z.eqb_spec z NIL); [contradiction|].
      pose proof HRz as HRz0. simpl in HRz. destruct HRz as (_ & _ & Hzp & Ha & Hb).
      (* the abstract side *)
      assert (Hsort := HK). rewrite ids_plug in Hsort. simpl in Hsort.
      apply SSorted_app_iff in Hsort. destruct Hsort as (_ & Hsort & _).
      apply SSorted_app_iff in Hsort. destruct Hsort as (Hsort & _ & _).
      apply SSorted_app_iff in Hsort. destruct Hsort as (_ & _ & Hak).
      set (L1 := cbefore c ++ ids a). set (L2 := ids b ++ cafter c).
      assert (El : ids (plug c (Nd a z b)) = L1 ++ z :: L2).
      { rewrite ids_plug. unfold L1, L2. simpl. rewrite <- !app_assoc. reflexivity. }
      assert (Habs : del_key klt key (tabs h (ids (plug c (Nd a z b)))) = Some (tabs h L1 ++ tabs h L2)).
      { rewrite El, tabs_app. simpl. apply del_key_app.
        - intros e He. unfold ProofsTreeIns.tabs in He. apply in_map_iff in He. destruct He as (j & <- & Hj). simpl.
          unfold keq. unfold L1 in Hj. apply in_app_or in Hj. destruct Hj as [Hj|Hj].
          + rewrite (Hlo j Hj). now rewrite andb_false_r.
          + destruct (klt_negtrans _ key _ (Hak j z Hj ltac:(now left))) as [X|X]; [|congruence].
            rewrite X. now rewrite andb_false_r.
        - simpl. unfold keq. now rewrite E1, E2. }
      assert (HKr : KSorted h (L1 ++ L2)). { apply (KSorted_remove h L1 z L2). rewrite <- El. exact HK. }
      (* final packaging from a result of del_body *)
      assert (Fin : forall h' root' d l',
                SGood h' root' l' -> hred h' NIL = false ->
                tabs h' l' = tabs h L1 ++ tabs h L2 -> Permutation (ids (plug c (Nd a z b))) (d :: l') ->
                exists h'0 root'0 d0 l'0, DOk (mkTree h' root') d = DOk (mkTree h'0 root'0) d0 /\
                  SGood h'0 root'0 l'0 /\ KSorted h'0 l'0 /\
                  del_key klt key (tabs h (ids (plug c (Nd a z b)))) = Some (tabs h'0 l'0) /\
                  Permutation (ids (plug c (Nd a z b))) (d0 :: l'0) /\ hred h'0 NIL = false).
      { intros h' root' d l' G' B' T' P'. exists h', root', d, l'. split; [reflexivity|]. split; [exact G'|].
        split.
        - eapply KSorted_of_keys; [|exact HKr].
          rewrite <- tabs_app in T'. unfold ProofsTreeIns.tabs in T'.
          apply (f_equal (map fst)) in T'. rewrite !map_map in T'. simpl in T'. exact T'.
        - split; [rewrite Habs, T'; reflexivity|]. split; assumption. }
      destruct ((hleft h z =? NIL) || (hright h z =? NIL)) eqn:Eone.
      + (* y = z *)
        destruct (Z.eqb_spec z NIL); [contradiction|].
        assert (Hone : a = L \/ b = L).
        { apply orb_true_iff in Eone. destruct Eone as [E|E]; apply Z.eqb_eq in E.
          - left. exact (Rep_root_L _ _ _ _ Ha E).
          - right. exact (Rep_root_L _ _ _ _ Hb E). }
        destruct (del_body_ok fuel h root z z c a b res HR HN Hone HB H) as (h' & root' & -> & G' & B' & KV' & _).
        apply (Fin h' root' z (cbefore c ++ (ids a ++ ids b) ++ cafter c) G' B').
        * unfold L1, L2. rewrite <- tabs_app, <- !app_assoc.
          apply tabs_ext. intros j _. apply KV'. now right.
        * rewrite El. symmetry.
          replace (cbefore c ++ (ids a ++ ids b) ++ cafter c) with (L1 ++ L2)
            by (unfold L1, L2; rewrite <- !app_assoc; reflexivity).
          apply Permutation_middle.
      + (* y = minimum of the right subtree *)
        apply orb_false_iff in Eone. destruct Eone as [Eal Ebr]. apply Z.eqb_neq in Eal, Ebr.
        destruct (tree_minimum fuel h (hright h z)) as [y|] eqn:Hm; [|discriminate].
        destruct b as [|b1 p b2]; [simpl in Hb; contradiction|].
        assert (Ep : hright h z = p) by (simpl in Hb; tauto). rewrite Ep in *.
        assert (HCz : RepC h (CR c a z) p root). { simpl. repeat split; auto. }
        destruct (tree_minimum_ok h root fuel (CR c a z) p b1 b2 y HCz Hb Hm) as (cy & ry & Epl & HCy & HRy & Ebef & Eaft).
        assert (Hyn : y <> NIL) by (simpl in HRy; tauto).
        destruct (Z.eqb_spec y NIL); [contradiction|].
        cbn [cafter] in Eaft. cbn [cbefore] in Ebef.
        simpl in Epl. rewrite <- Epl in HR, HN.
        destruct (del_body_ok fuel h root z y cy L ry res HR HN (or_introl eq_refl) HB H)
          as (h' & root' & -> & G' & B' & KV' & KZ').
        cbn [ids app] in G'.
        (* y is not z, and z is not among the other ids *)
        assert (HN' := HN). rewrite Epl in HN'. rewrite El in HN'.
        assert (Hyin : In y L2). { unfold L2. rewrite <- Eaft. now left. }
        assert (Hyz : y <> z).
        { intros ->. apply NoDup_remove_2 in HN'. apply HN'. apply in_or_app. now right. }
        assert (Hznot : ~ In z (L1 ++ L2)). { apply NoDup_remove_2 in HN'. exact HN'. }
        set (S := ids ry ++ cafter cy) in *.
        assert (EL2 : L2 = y :: S). { unfold L2, S. rewrite <- Eaft. reflexivity. }
        assert (El' : cbefore cy ++ S = L1 ++ z :: S).
        { rewrite Ebef. unfold L1. rewrite <- !app_assoc. reflexivity. }
        rewrite El' in G'.
        destruct (KZ' Hyz) as (Kz & Vz).
        apply (Fin h' root' y (L1 ++ z :: S) G' B').
        * rewrite EL2. rewrite tabs_app. simpl. rewrite Kz, Vz. f_equal; [|f_equal]; apply tabs_ext; intros j Hj; apply KV'; left;
            intros ->; apply Hznot; rewrite EL2; apply in_or_app; [now left|right; now right].
        * rewrite El, EL2.
          replace (L1 ++ z :: y :: S) with ((L1 ++ [z]) ++ y :: S) by (rewrite <- app_assoc; reflexivity).
          replace (L1 ++ z :: S) with ((L1 ++ [z]) ++ S) by (rewrite <- app_assoc; reflexivity).
          symmetry. apply Permutation_middle.
  Qed.
End Del.
