Require Import Extraction ExtrOcamlBasic ExtrOCamlFloats.
Require Import Base.Prelude C05.Sweep C05.Model.
Extraction Language OCaml.
Extraction "model.ml" viewshed_model tree_run.
