Require Import Extraction ExtrOcamlBasic ExtrOCamlFloats.
Require Import Base.Prelude C05.Sweep C05.Model C05.Tree C05.TreeFloat.
Extraction Language OCaml.
Extraction "model.ml" viewshed_model tree_run fc_init fc_step fc_row.
