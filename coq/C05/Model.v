(* C05/Model.v — executable float (binary64) model of xrspatial/viewshed.py:
   the wrapper _viewshed_cpu (observer lookup, resolutions, target_elev > 0),
   _init_event_list (_calc_event_pos / _calculate_event_row_col /
   _calc_event_elev / _calculate_angle), the status nodes built by
   _viewshed_cpu_sweep (_calc_event_grad / _calc_dist_n_grad, the +-2pi
   normalisation), the phase-2 interpolation of _find_max_value_within_key and
   _get_vertical_ang, instantiating the abstract sweep of Sweep.v.
   libm's atan is a Section variable supplied by the OCaml driver.
   Definitions only. *)
Require Import Base.Prelude.
Require Import PrimFloat.
Require Import C05.Sweep.

Open Scope float_scope.

Definition PI : float := 0x1.921fb54442d18p+1.
Definition fisnan (x : float) : bool := negb (x =? x).
Definition fgt (x y : float) : bool := y <? x.

(* int -> float64 (exact for the small indices used here) *)
Fixpoint P2f (p : positive) : float :=
  match p with xH => 1 | xO q => 2 * P2f q | xI q => 2 * P2f q + 1 end.
Definition Z2f (z : Z) : float :=
  match z with Z0 => 0 | Zpos p => P2f p | Zneg p => - (P2f p) end.

(* status node: gradients and (normalised) bearings of enter / centre / exit *)
Record fnode := mkNode { ng0 : float; ng1 : float; ng2 : float;
                         na0 : float; na1 : float; na2 : float }.

(* _find_value_min_value *)
Definition fmin3 (n : fnode) : float :=
  let m := if ng1 n <? ng0 n then ng1 n else ng0 n in
  if ng2 n <? m then ng2 n else m.

(* phase 2 of _find_max_value_within_key for one node *)
Definition fcontrib (n : fnode) (ang : float) : option float :=
  if (na0 n <=? ang) && (ang <=? na2 n) then
    if ang <? na1 n then
      Some (ng1 n + (ng0 n - ng1 n) * (na1 n - ang) / (na1 n - na0 n))
    else if na1 n <? ang then
      Some (ng1 n + (ng2 n - ng1 n) * (ang - na1 n) / (na2 n - na1 n))
    else Some (ng1 n)
  else None.

Definition fcell := @cell float float float fnode float.

(* ---- the abstract status structure driven directly (op sequences), used by the
   harness to compare the real _insert_into_tree / _delete_from_tree /
   _max_grad_in_status_struct against it ---- *)
Inductive tree_op :=
| TIns (k : float) (n : fnode)
| TDel (k : float)
| TQry (k a g : float).
(* result codes: insert 10 ok / 11 duplicate key; delete 20 ok / 21 not found;
   query 1 visible / 0 hidden.  A refused operation leaves the status unchanged. *)
Fixpoint tree_run (st : @status float fnode) (ops : list tree_op) : list Z :=
  match ops with
  | [] => []
  | TIns k n :: r =>
    match st_insert ltb k n st with
    | inl _ => 11%Z :: tree_run st r
    | inr st' => 10%Z :: tree_run st' r
    end
  | TDel k :: r =>
    match del_key ltb k st with
    | None => 21%Z :: tree_run st r
    | Some st' => 20%Z :: tree_run st' r
    end
  | TQry k a g :: r =>
    (if visible_q ltb fgt fmin3 fcontrib st k a g then 1%Z else 0%Z) :: tree_run st r
  end.

Section FloatModel.
  Variable atan : float -> float.

  (* quadrant of cell (r,c) relative to the observer, as the chain of
     if/elif in _calc_event_pos and _calculate_event_row_col; result = the
     offsets (dy, dx) in {-1,+1} of the entering / exiting corner *)
  Definition corner_off (enter : bool) (r c vr vc : Z) : Z * Z :=
    if (r <? vr)%Z && (c <? vc)%Z then (if enter then (-1, 1) else (1, -1))%Z
    else if (r <? vr)%Z && (c =? vc)%Z then (if enter then (1, 1) else (1, -1))%Z
    else if (r <? vr)%Z && (vc <? c)%Z then (if enter then (1, 1) else (-1, -1))%Z
    else if (r =? vr)%Z && (vc <? c)%Z then (if enter then (1, -1) else (-1, -1))%Z
    else if (vr <? r)%Z && (vc <? c)%Z then (if enter then (1, -1) else (-1, 1))%Z
    else if (vr <? r)%Z && (c =? vc)%Z then (if enter then (-1, -1) else (-1, 1))%Z
    else if (vr <? r)%Z && (c <? vc)%Z then (if enter then (-1, -1) else (1, 1))%Z
    else if (r =? vr)%Z && (c <? vc)%Z then (if enter then (-1, 1) else (1, 1))%Z
    else (0, 0)%Z.

  (* _calc_event_pos: (y, x) = (row +- 0.5, col +- 0.5) *)
  Definition corner_pos (enter : bool) (r c vr vc : Z) : float * float :=
    let '(dy, dx) := corner_off enter r c vr vc in
    (Z2f r + Z2f dy * 0.5, Z2f c + Z2f dx * 0.5).

  (* _calculate_angle(event_x, event_y, viewpoint_x, viewpoint_y) *)
  Definition bearing (ex ey vx vy : float) : float :=
    if (vx =? ex) && (ey <? vy) then PI / 2
    else if (vx =? ex) && (vy <? ey) then PI * 3 / 2
    else if (ex =? vx) && (ey =? vy) then 0
    else if (vy =? ey) && (vx <? ex) then 0
    else if (ex <? vx) && (vy =? ey) then PI
    else
      let ang := atan (abs (ey - vy) / abs (ex - vx)) in
      if (vx <? ex) && (ey <? vy) then ang
      else if (ex <? vx) && (ey <? vy) then PI - ang
      else if (ex <? vx) && (vy <? ey) then PI + ang
      else if (vx <? ex) && (vy <? ey) then PI * 2 - ang
      else 0.

  (* _calc_dist_n_grad / _calc_event_grad *)
  Definition dist2 (r c vr vc ew ns : float) : float :=
    let dx := (c - vc) * ew in
    let dy := (r - vr) * ns in
    dx * dx + dy * dy.
  Definition gradient (r c elev vr vc ve ew ns : float) : float :=
    let diff := elev - ve in
    let d := dist2 r c vr vc ew ns in
    if d =? 0 then (if 0 <? diff then PI / 2 else if diff <? 0 then - PI / 2 else 0)
    else atan (diff / sqrt d).

  (* _get_vertical_ang *)
  Definition vert_ang (ve d elev : float) : float :=
    let diff := ve - elev in
    if diff =? 0 then 90
    else if 0 <? diff then atan (sqrt d / diff) * 180 / PI
    else atan (abs diff / sqrt d) * 180 / PI + 90.

  Definition gget (g : list (list float)) (r c : Z) : float := nthZ 0 (nthZ [] g r) c.

  (* _calc_event_elev: mean of the four cells around the corner when the
     diagonal neighbour is inside the raster and none is NaN *)
  Definition corner_elev (enter : bool) (g : list (list float)) (nr nc r c vr vc : Z) : float :=
    let '(dy, dx) := corner_off enter r c vr vc in
    let r1 := (r + dy)%Z in let c1 := (c + dx)%Z in
    if (0 <=? r1)%Z && (r1 <? nr)%Z && (0 <=? c1)%Z && (c1 <? nc)%Z then
      let e1 := gget g r1 c1 in let e2 := gget g r1 c in
      let e3 := gget g r c1 in let e4 := gget g r c in
      if fisnan e1 || fisnan e2 || fisnan e3 || fisnan e4 then gget g r c
      else (e1 + e2 + e3 + e4) / 4
    else gget g r c.

  Definition mk_cell (g : list (list float)) (nr nc vr vc : Z) (ve tgt ew ns : float) (r c : Z) : fcell :=
    let fvr := Z2f vr in let fvc := Z2f vc in
    let '(ey, ex) := corner_pos true r c vr vc in
    let '(xy, xx) := corner_pos false r c vr vc in
    let ea := bearing ex ey fvc fvr in
    let ca := bearing (Z2f c) (Z2f r) fvc fvr in
    let xa := bearing xx xy fvc fvr in
    let e0 := corner_elev true g nr nc r c vr vc in
    let e1 := gget g r c in
    let e2 := corner_elev false g nr nc r c vr vc in
    let g0 := gradient ey ex e0 fvr fvc ve ew ns in
    let fr := Z2f (r - vr) in let fc := Z2f (c - vc) in     (* int subtraction first *)
    let g1 := gradient fr fc e1 0 0 ve ew ns in
    let g2 := gradient xy xx e2 fvr fvc ve ew ns in
    let key := dist2 fr fc 0 0 ew ns in
    (* node built before the sweep: if ang0 > ang1: ang0 -= 2 pi *)
    let n0 := if ca <? ea then mkNode g0 g1 g2 (ea - 2 * PI) ca xa else mkNode g0 g1 g2 ea ca xa in
    (* node built at the ENTERING event *)
    let n := if ea <? PI then
               (if ca <? ea then mkNode g0 g1 g2 (ea - 2 * PI) ca xa else mkNode g0 g1 g2 ea ca xa)
             else
               (if ca <? ea then mkNode g0 g1 g2 ea (ca + 2 * PI) (xa + 2 * PI) else mkNode g0 g1 g2 ea ca xa) in
    mkCell
      (r * nc + c)%Z ea ca xa key n0 n
      (gradient fr fc (e1 + tgt) 0 0 ve ew ns)
      (vert_ang ve key (e1 + tgt))
      ((r =? vr)%Z && (vc <? c)%Z && negb (fisnan e1)).

  Definition all_cells (g : list (list float)) (nr nc vr vc : Z) (ve tgt ew ns : float) : list fcell :=
    flat_map (fun r =>
      flat_map (fun c => if (r =? vr)%Z && (c =? vc)%Z then []
                         else [mk_cell g nr nc vr vc ve tgt ew ns r c])
               (ziota 0 (Z.to_nat nc)))
      (ziota 0 (Z.to_nat nr)).

  Definition fsweep := @viewshed_sweep float float float fnode float ltb ltb fgt fmin3 fcontrib.
  Definition fspec := @viewshed_spec float float float fnode float ltb ltb fgt fcontrib.
  Definition fspec_full := @viewshed_spec_full float float float fnode float ltb ltb fgt fmin3 fcontrib.

  (* the decidable premises of C05_sweep_eq_spec / C05_float_instance, evaluated on the
     generated cells (reported by the driver for every case):
     NaN-free bearings, wf_span, own_span, phase1_sound *)
  Definition premises_ok (cells : list fcell) : bool :=
    forallb (fun c => negb (fisnan (c_ea c)) && negb (fisnan (c_ca c)) && negb (fisnan (c_xa c))) cells &&
    forallb (fun c => Bool.eqb (c_ea c <? c_xa c) (negb (cinit c))) cells &&
    forallb (fun c => spans ltb c (c_ca c)) cells &&
    forallb (fun c => forallb (fun c' =>
        implb (spans ltb c' (c_ca c) && (ckey c' <? ckey c) &&
               fgt (fmin3 (act_node ltb c' (c_ca c))) (cgrad c))
              (hit fgt fcontrib (cgrad c) (c_ca c) (act_node ltb c' (c_ca c)))) cells) cells.

  (* visibility grid: 180 at the observer, the vertical angle where visible, -1 elsewhere *)
  Definition to_grid (nr nc vr vc : Z) (vis : list (Z * float)) : list (list float) :=
    map (fun r => map (fun c =>
        if (r =? vr)%Z && (c =? vc)%Z then 180
        else match lookup (r * nc + c)%Z vis with Some v => v | None => -1 end)
      (ziota 0 (Z.to_nat nc))) (ziota 0 (Z.to_nat nr)).

  (* ---- wrapper: _viewshed_cpu ---- *)
  (* raster.sel(method='nearest'): minimal |coord - x|, ties -> larger coordinate *)
  Definition nearest (coords : list float) (x : float) : float :=
    fold_left (fun best c =>
      let dc := abs (c - x) in let db := abs (best - x) in
      if (dc <? db) || ((dc =? db) && (best <? c)) then c else best)
      (tl coords) (hd 0 coords).
  (* np.where(coords == v)[0][0] *)
  Fixpoint index_of (coords : list float) (v : float) (i : Z) : Z :=
    match coords with [] => i | c :: cs => if c =? v then i else index_of cs v (i + 1)%Z end.
  Definition fmin_list (l : list float) : float :=
    fold_left (fun m c => if c <? m then c else m) (tl l) (hd 0 l).
  Definition fmax_list (l : list float) : float :=
    fold_left (fun m c => if m <? c then c else m) (tl l) (hd 0 l).

  Inductive vs_result :=
  | VsRange                                    (* ValueError: x / y outside the raster *)
  | VsErr (e : sweep_err)                      (* outside the modelled domain *)
  | VsOk (grid : list (list float)) (spec_grid : list (list float)) (spec_full_grid : list (list float))
         (premises : bool).

  Definition viewshed_model (g : list (list float)) (xs ys : list float)
             (x y obs_elev target_elev : float) : vs_result :=
    let nr := lenZ ys in let nc := lenZ xs in
    if negb ((fmin_list xs <=? x) && (x <=? fmax_list xs)) then VsRange
    else if negb ((fmin_list ys <=? y) && (y <=? fmax_list ys)) then VsRange
    else
      let vc := index_of xs (nearest xs x) 0 in
      let vr := index_of ys (nearest ys y) 0 in
      let ve := gget g vr vc + obs_elev in
      let tgt := if 0 <? target_elev then target_elev else 0 in
      let ew := (nthZ 0 xs (nc - 1) - nthZ 0 xs 0) / Z2f (nc - 1) in
      let ns := (nthZ 0 ys (nr - 1) - nthZ 0 ys 0) / Z2f (nr - 1) in
      let cells := all_cells g nr nc vr vc ve tgt ew ns in
      match fsweep cells with
      | inl e => VsErr e
      | inr vis => VsOk (to_grid nr nc vr vc vis)
                        (to_grid nr nc vr vc (fspec cells))
                        (to_grid nr nc vr vc (fspec_full cells))
                        (premises_ok cells)
      end.
End FloatModel.
