(* C05/ProofsTreeSeq.v — the per-operation theorems composed over arbitrary operation
   sequences: starting from _create_status_struct, after every insert / delete the
   in-order abstraction of the concrete tree is a permutation of the dummy root entry
   followed by the abstract status structure of Sweep.v, and every query agrees with
   visible_q (conditional on the model returning: RStop = out of fuel / out-of-bounds
   guard / idle stack empty). *)
Require Import Base.Prelude.
Require Import C05.Sweep C05.Tree C05.ProofsTreeBase C05.ProofsTreeRot C05.ProofsTreeInv C05.ProofsTreeFix
        C05.ProofsTreeIns C05.ProofsTreeQry C05.ProofsTreeStruct C05.ProofsTreeDel C05.ProofsTreeDelMax.
Require Import Permutation Sorted.

Lemma existsb_perm {T} (f : T -> bool) l1 l2 : Permutation l1 l2 -> existsb f l1 = existsb f l2.
Proof.
  induction 1; simpl; try congruence.
  - destruct (f y), (f x); reflexivity.
Qed.

Section Seq.
  Context {A K G N : Type}.
  Variable klt : K -> K -> bool.
  Variable ggt : G -> G -> bool.
  Variable nmin : N -> G.
  Variable ncontrib : N -> A -> option G.
  Variable smallest : G.
  Variable k0 : K.
  Variable v0 : N.
  Notation heap := (@heap K G N).
  Notation Good := (@Good K G N ggt nmin smallest).
  Notation KSorted := (@KSorted K G N klt).
  Notation tabs := (@tabs K G N).
  Notation status := (@status K N).
  Hypothesis ggt_asym : forall a b, ggt a b = true -> ggt b a = false.
  Hypothesis gle_trans : forall a b c, gle ggt a b -> gle ggt b c -> gle ggt a c.
  Hypothesis klt_trans : forall a b c, klt a b = true -> klt b c = true -> klt a c = true.
  Hypothesis klt_irrefl : forall a, klt a a = false.
  Hypothesis klt_negtrans : forall a b c, klt a c = true -> klt a b = true \/ klt b c = true.

  (* ---- the abstract operations do not depend on the order of the list ---- *)
  Lemma visible_q_perm (s1 s2 : status) k a g :
    Permutation s1 s2 ->
    visible_q klt ggt nmin ncontrib s1 k a g = visible_q klt ggt nmin ncontrib s2 k a g.
  Proof.
    intros P. unfold visible_q, has_key, blocked_q. now rewrite !(existsb_perm _ _ _ P).
  Qed.

  Lemma del_key_spec (k : K) : forall (st r : status),
    del_key klt k st = Some r -> exists e, In e st /\ keq klt k (fst e) = true /\ Permutation st (e :: r).
  Proof.
    induction st as [|e st IH]; simpl; intros r H; [discriminate|].
    destruct (keq klt k (fst e)) eqn:E.
    - injection H as <-. exists e. auto.
    - destruct (del_key klt k st) as [r'|] eqn:D; [|discriminate]. injection H as <-.
      destruct (IH r' eq_refl) as (e' & He' & Ke' & P). exists e'. split; [now right|]. split; [exact Ke'|].
      rewrite P. apply perm_swap.
  Qed.

  Lemma del_key_none_iff (k : K) (st : status) :
    del_key klt k st = None <-> (forall e, In e st -> keq klt k (fst e) = false).
  Proof.
    induction st as [|e st IH]; simpl.
    - split; [intros _ e []|reflexivity].
    - destruct (keq klt k (fst e)) eqn:E.
      + split; [discriminate|]. intros H. rewrite (H e) in E by now left. discriminate.
      + destruct (del_key klt k st) as [r|].
        * split; [discriminate|]. intros H.
          assert (X : Some r = None) by (apply IH; intros e' He'; apply H; now right). discriminate.
        * split; [|reflexivity]. intros _ e' [<-|He']; [exact E|]. apply IH; auto.
  Qed.

  (* keys pairwise distinct: at most one entry matches a key *)
  Definition UniqueKeys (st : status) : Prop :=
    forall k e e', In e st -> In e' st -> keq klt k (fst e) = true -> keq klt k (fst e') = true -> e = e'.

  Lemma del_key_perm (k : K) (s1 s2 r1 : status) :
    UniqueKeys s1 -> Permutation s1 s2 -> del_key klt k s1 = Some r1 ->
    exists r2, del_key klt k s2 = Some r2 /\ Permutation r1 r2.
  Proof.
    intros U P H1. destruct (del_key_spec k s1 r1 H1) as (e & He & Ke & P1).
    destruct (del_key klt k s2) as [r2|] eqn:H2.
    - exists r2. split; [reflexivity|]. destruct (del_key_spec k s2 r2 H2) as (e' & He' & Ke' & P2).
      assert (E : e = e'). { apply (U k); auto. eapply Permutation_in; [symmetry; exact P|exact He']. }
      subst e'. apply (Permutation_cons_inv (a := e)). rewrite <- P1, <- P2. exact P.
    - exfalso. rewrite del_key_none_iff in H2. rewrite (H2 e) in Ke; [discriminate|].
      eapply Permutation_in; [exact P|exact He].
  Qed.

  Lemma UniqueKeys_sorted (h : heap) l : KSorted h l -> UniqueKeys (tabs h l).
  Proof.
    unfold ProofsTreeIns.KSorted, ProofsTreeIns.tabs. intros HS k e e' He He' Ke Ke'.
    apply in_map_iff in He, He'. destruct He as (i & <- & Hi), He' as (j & <- & Hj). simpl in *.
    assert (Hij : i = j); [|now subst].
    apply In_nth_error in Hi, Hj. destruct Hi as (n & Hn), Hj as (m & Hm).
    unfold keq in Ke, Ke'. apply andb_true_iff in Ke, Ke'. destruct Ke as [K1 K2], Ke' as [K3 K4].
    apply negb_true_iff in K1, K2, K3, K4.
    assert (Lt : forall a b x y, (a < b)%nat -> nth_error l a = Some x -> nth_error l b = Some y ->
                                 klt (hkey h x) (hkey h y) = true).
    { clear -HS. induction l as [|z l IH]; intros a b x y Hab Ha Hb; [destruct a; discriminate|].
      inversion HS as [|? ? H1 H2]; subst. rewrite Forall_forall in H2.
      destruct a as [|a]; simpl in Ha.
      - injection Ha as ->. destruct b as [|b]; [lia|]. simpl in Hb. apply H2. eapply nth_error_In; eauto.
      - destruct b as [|b]; [lia|]. simpl in Hb. apply (IH H1 a b x y); [lia|exact Ha|exact Hb]. }
    destruct (Nat.lt_trichotomy n m) as [Hlt|[->|Hlt]].
    - pose proof (Lt _ _ _ _ Hlt Hn Hm) as X. destruct (klt_negtrans _ k _ X); congruence.
    - congruence.
    - pose proof (Lt _ _ _ _ Hlt Hm Hn) as X. destruct (klt_negtrans _ k _ X); congruence.
  Qed.

  Lemma UniqueKeys_perm s1 s2 : Permutation s1 s2 -> UniqueKeys s1 -> UniqueKeys s2.
  Proof.
    intros P U k e e' He He' Ke Ke'. apply (U k); auto; eapply Permutation_in; try (symmetry; exact P); assumption.
  Qed.

  (* ---- the dummy root entry (key k0 below every real key, min3 = SMALLEST_GRAD, never hit) ---- *)
  Hypothesis dummy_lo : gle ggt smallest (nmin v0).
  Hypothesis dummy_hi : gle ggt (nmin v0) smallest.
  Hypothesis dummy_nohit : forall a g, gle ggt smallest g -> hit ggt ncontrib g a v0 = false.
  (* phase-1 premise of the query, for every payload *)
  Hypothesis phase1 : forall n a g, ggt (nmin n) g = true -> hit ggt ncontrib g a n = true.

  Lemma keq_dummy k : klt k0 k = true -> keq klt k k0 = false.
  Proof. intros H. unfold keq. rewrite H. now rewrite andb_false_r. Qed.

  Lemma visible_dummy (st : status) k a g :
    klt k0 k = true -> gle ggt smallest g ->
    visible_q klt ggt nmin ncontrib ((k0, v0) :: st) k a g = visible_q klt ggt nmin ncontrib st k a g.
  Proof.
    intros Hk Hg. unfold visible_q, has_key, blocked_q. simpl. rewrite (keq_dummy k Hk), Hk. simpl.
    assert (E : ggt (nmin v0) g = false) by (apply (gle_trans _ smallest); assumption).
    rewrite E, (dummy_nohit a g Hg). reflexivity.
  Qed.

  Lemma del_key_dummy (st : status) k :
    klt k0 k = true ->
    del_key klt k ((k0, v0) :: st) = match del_key klt k st with Some r => Some ((k0, v0) :: r) | None => None end.
  Proof. intros Hk. simpl. now rewrite (keq_dummy k Hk). Qed.

  Notation cstate := (@cstate K G N).
  Notation c_step := (@c_step A K G N klt ggt nmin ncontrib smallest).

  Definition Rinv (cs : cstate) (st : status) : Prop :=
    exists l, Good (th (c_tree cs)) (troot (c_tree cs)) l /\ KSorted (th (c_tree cs)) l /\
      hred (th (c_tree cs)) NIL = false /\
      Permutation (tabs (th (c_tree cs)) l) ((k0, v0) :: st) /\
      (forall e, In e st -> klt k0 (fst e) = true /\ gle ggt smallest (nmin (snd e))) /\
      NoDup (c_idle cs) /\ (forall id, In id (c_idle cs) -> id <> NIL /\ ~ In id l).

  Lemma tabs_nonempty (h : heap) l e (st : status) : Permutation (tabs h l) (e :: st) -> l <> [].
  Proof. intros P ->. simpl in P. apply Permutation_nil in P. discriminate. Qed.

  Lemma step_insert cs st k v res cs' :
    Rinv cs st -> klt k0 k = true -> gle ggt smallest (nmin v) -> has_key klt k st = false ->
    c_step cs (CI k v) = (res, cs') ->
    res = RStop \/ ((exists root, res = RIns root) /\ Rinv cs' ((k, v) :: st)).
  Proof.
    intros (l & HG & HK & HB & HP & Hst & Hnd & Hid) Hk Hv Hdup H.
    unfold Tree.c_step, c_step_gen in H. destruct (c_idle cs) as [|id idle] eqn:Ei; [injection H as <- <-; now left|].
    destruct (t_insert klt ggt nmin smallest (c_fuel cs) (c_tree cs) id k v) as [t'|] eqn:Ht;
      [|injection H as <- <-; now left].
    injection H as <- <-. right. split; [eexists; reflexivity|].
    destruct (Hid id) as (Hidn & Hidl); [now left|].
    assert (Hdup' : has_key klt k (tabs (th (c_tree cs)) l) = false).
    { unfold has_key. rewrite (existsb_perm _ _ _ HP). simpl. rewrite (keq_dummy k Hk). exact Hdup. }
    destruct (t_insert_refines klt ggt nmin smallest ggt_asym gle_trans klt_trans _ _ _ _ _ _ _
                HG HK (tabs_nonempty _ _ _ _ HP) HB Hidn Hidl Hdup' Hv Ht)
      as (l1 & l2 & El & G' & K' & _ & _ & P' & B1 & _).
    exists (l1 ++ id :: l2). simpl. split; [exact G'|]. split; [exact K'|]. split; [exact B1|]. split.
    { rewrite P', HP. apply perm_swap. }
    split.
    { intros e [<-|He]; [simpl; auto|apply Hst; exact He]. }
    apply NoDup_cons_iff in Hnd. destruct Hnd as (Nid & Nidle). split; [exact Nidle|].
    intros id' Hid'. destruct (Hid id') as (A1 & A2); [now right|]. split; [exact A1|].
    rewrite El in A2. intros Hc. apply in_app_or in Hc. destruct Hc as [Hc|[Hc|Hc]].
    - apply A2. apply in_or_app. now left.
    - subst id'. contradiction.
    - apply A2. apply in_or_app. now right.
  Qed.

  Lemma step_delete cs st k res cs' :
    Rinv cs st -> klt k0 k = true ->
    c_step cs (CD k) = (res, cs') ->
    res = RStop \/ (del_key klt k st = None /\ res = RNotFound /\ cs' = cs) \/
    (exists st' root d, del_key klt k st = Some st' /\ res = RDel root d /\ Rinv cs' st').
  Proof.
    intros (l & HG & HK & HB & HP & Hst & Hnd & Hid) Hk H.
    unfold Tree.c_step, c_step_gen in H.
    destruct (t_delete klt ggt nmin (c_fuel cs) (c_tree cs) k) as [r|] eqn:Hd; [|injection H as <- <-; now left].
    destruct (t_delete_ok_g ggt nmin smallest ggt_asym gle_trans klt klt_trans klt_negtrans _ _ _ _ _ HG HK HB Hd)
      as [(-> & Dn)|(h' & root' & d & l' & -> & G' & K' & Dk & Pl & B')].
    - injection H as <- <-. right. left. split; [|auto].
      rewrite del_key_none_iff in Dn |- *. intros e He. apply Dn.
      eapply Permutation_in; [symmetry; exact HP|]. now right.
    - injection H as <- <-. right. right.
      destruct (del_key_perm k _ _ _ (UniqueKeys_sorted _ _ HK) HP Dk) as (r2 & D2 & P2).
      rewrite (del_key_dummy st k Hk) in D2. destruct (del_key klt k st) as [st'|] eqn:Ds; [|discriminate].
      injection D2 as <-. exists st', root', d. split; [reflexivity|]. split; [reflexivity|].
      destruct (del_key_spec k st st' Ds) as (e & He & _ & Pst).
      assert (Hdl : In d l) by (eapply Permutation_in; [symmetry; exact Pl|now left]).
      assert (Hsubl : forall j, In j l' -> In j l) by (intros j Hj; eapply Permutation_in; [symmetry; exact Pl|now right]).
      assert (HNl : NoDup l) by (destruct HG as (s & (_ & Nd0 & _) & <-); exact Nd0).
      assert (Hdl' : ~ In d l').
      { eapply Permutation_NoDup in HNl; [|exact Pl]. apply NoDup_cons_iff in HNl. tauto. }
      exists l'. simpl. split; [exact G'|]. split; [exact K'|]. split; [exact B'|]. split; [exact P2|]. split.
      { intros e' He'. apply Hst. eapply Permutation_in; [symmetry; exact Pst|now right]. }
      split.
      { constructor; [|exact Hnd]. intros Hc. destruct (Hid d Hc) as (_ & X). contradiction. }
      intros id [<-|Hi].
      + split; [|exact Hdl']. intros ->. destruct HG as (s & (HR & _) & <-). exact (Rep_NIL_notin _ _ _ _ HR Hdl).
      + destruct (Hid id Hi) as (A1 & A2). split; [exact A1|]. intros Hc. apply A2. apply Hsubl. exact Hc.
  Qed.

  Lemma step_query cs st k a g res cs' :
    Rinv cs st -> klt k0 k = true -> gle ggt smallest g ->
    c_step cs (CQ k a g) = (res, cs') ->
    cs' = cs /\ (res = RStop \/ exists m, res = RQry m /\
                 negb (ggt m g) = visible_q klt ggt nmin ncontrib st k a g).
  Proof.
    intros (l & HG & HK & HB & HP & Hst & Hnd & Hid) Hk Hg H.
    unfold Tree.c_step, c_step_gen in H.
    destruct (t_query klt ggt nmin ncontrib smallest (c_fuel cs) (c_tree cs) k a g) as [r|] eqn:Hq;
      [|injection H as <- <-; auto].
    destruct (t_query_ok klt ggt nmin ncontrib smallest ggt_asym gle_trans klt_trans klt_irrefl klt_negtrans
                _ _ _ _ _ _ _ HG HK (tabs_nonempty _ _ _ _ HP) Hg (fun j _ _ Hj => phase1 _ a g Hj) Hq)
      as (m & -> & Em).
    injection H as <- <-. split; [reflexivity|]. right. exists m. split; [reflexivity|].
    rewrite Em, (visible_q_perm _ _ k a g HP). apply visible_dummy; assumption.
  Qed.

  (* ---- the initial state ---- *)
  Lemma Rinv_init n : Rinv (c_init smallest k0 v0 n) [].
  Proof.
    unfold c_init, tree_create. exists [0]. cbn [c_tree c_idle th troot].
    set (d := mkT k0 v0 smallest false NIL NIL NIL).
    set (h := hset (hset (mkH (FMapPositive.PositiveMap.empty tnode) d) 0 d) NIL (mkT k0 v0 smallest false n n n)).
    assert (F0 : hkey h 0 = k0 /\ hval h 0 = v0 /\ hmax h 0 = smallest /\ hleft h 0 = NIL /\ hright h 0 = NIL /\
                 hparent h 0 = NIL).
    { unfold h. repeat split; autorewrite with heap; reflexivity. }
    assert (FN : hmax h NIL = smallest /\ hred h NIL = false).
    { unfold h. split; autorewrite with heap; reflexivity. }
    destruct F0 as (Fk & Fv & Fm & Fl & Fr & Fp). destruct FN as (Nm & Nr).
    split.
    { exists (Nd L 0 L). split; [|reflexivity].
      split; [simpl; repeat split; auto; discriminate|]. split; [simpl; repeat constructor; simpl; tauto|].
      split; [|split; [exact Nm|]].
      - simpl. repeat split; trivial.
        + intros j [<-|[]]. unfold Tree.hmin. rewrite Fv, Fm. exact dummy_hi.
        + exists 0. split; [now left|]. unfold Tree.hmin. rewrite Fv, Fm. exact dummy_lo.
      - intros j [<-|[]]. unfold Tree.hmin. rewrite Fv. exact dummy_lo. }
    split; [repeat constructor|]. split; [exact Nr|]. split.
    { unfold ProofsTreeIns.tabs. simpl. rewrite Fk, Fv. apply Permutation_refl. }
    split; [intros e []|]. split.
    { generalize (Z.to_nat (n - 2)). generalize 2. intros s0 m. revert s0. induction m; intros s0; simpl; constructor; auto.
      rewrite ziota_In. lia. }
    intros id Hid. apply ziota_In in Hid. split; [unfold NIL; lia|]. intros [E|[]]. lia.
  Qed.

  (* ---- operation sequences ---- *)
  Definition op_ok (o : @cop A K G N) : Prop :=
    match o with
    | CI k v => klt k0 k = true /\ gle ggt smallest (nmin v)
    | CD k => klt k0 k = true
    | CQ k a g => klt k0 k = true /\ gle ggt smallest g
    end.

  (* RStop = the model stopped (fuel, out-of-bounds guard, idle stack empty): nothing is claimed from
     there on; an insert of a key the abstract structure already holds is outside its domain *)
  Fixpoint refines (cs : cstate) (st : status) (ops : list (@cop A K G N)) : Prop :=
    match ops with
    | [] => True
    | o :: r =>
      let res := fst (c_step cs o) in
      let cs' := snd (c_step cs o) in
      res = RStop \/
      match o with
      | CI k v => has_key klt k st = true \/
                  ((exists root, res = RIns root) /\ refines cs' ((k, v) :: st) r)
      | CD k => match del_key klt k st with
                | None => res = RNotFound /\ refines cs' st r
                | Some st' => (exists root d, res = RDel root d) /\ refines cs' st' r
                end
      | CQ k a g => (exists m, res = RQry m /\
                                negb (ggt m g) = visible_q klt ggt nmin ncontrib st k a g) /\
                    refines cs' st r
      end
    end.

  Theorem refines_all : forall ops cs st, Rinv cs st -> Forall op_ok ops -> refines cs st ops.
  Proof.
    induction ops as [|o r IH]; intros cs st HI Hok; [exact I|].
    inversion Hok as [|? ? Ho Hr]; subst. cbn [refines].
    destruct (c_step cs o) as [res cs'] eqn:E. cbn [fst snd].
    destruct o as [k v|k|k a g]; simpl in Ho.
    - destruct Ho as [Hk Hv]. destruct (has_key klt k st) eqn:Hd; [right; now left|].
      destruct (step_insert _ _ _ _ _ _ HI Hk Hv Hd E) as [->|(Hres & HI')]; [now left|].
      right. right. split; [exact Hres|]. apply IH; assumption.
    - destruct (step_delete _ _ _ _ _ HI Ho E) as [->|[(Dn & -> & ->)|(st' & root & d & Ds & -> & HI')]]; [now left| |].
      + right. rewrite Dn. split; [reflexivity|]. apply IH; assumption.
      + right. rewrite Ds. split; [eauto|]. apply IH; assumption.
    - destruct Ho as [Hk Hg]. destruct (step_query _ _ _ _ _ _ _ HI Hk Hg E) as (-> & [->|Hm]); [now left|].
      right. split; [exact Hm|]. apply IH; assumption.
  Qed.

  Corollary refines_from_empty n ops : Forall op_ok ops -> refines (c_init smallest k0 v0 n) [] ops.
  Proof. intros H. apply refines_all; [apply Rinv_init|exact H]. Qed.
End Seq.
