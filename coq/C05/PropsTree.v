(* C05/PropsTree.v — claimed theorems about the CONCRETE red-black tree model of
   Tree.v (the array-encoded status structure of viewshed.py as it is written).

   Vocabulary (ProofsTreeBase / ProofsTreeInv / ProofsTreeFix):
     Rep h p par s     the node array h encodes the binary-tree shape s at pointer p,
                       every node's parent field is right (NIL = -1 for leaves)
     TInv h root s     Rep h root NIL s, the ids of s are distinct, every node's cached
                       maximum is the maximum of min(g0,g1,g2) over its subtree
                       (upper bound and attained, MaxOK), NIL's cached maximum is
                       SMALLEST_GRAD, and SMALLEST_GRAD <= every node's min3
     Good h root l     exists s, TInv h root s /\ the in-order id sequence of s is l
   gle a b := ggt a b = false.  The order premises say that > on gradients is a
   strict weak order (true for binary64 off NaN). *)
Require Import Base.Prelude C05.Sweep C05.Tree C05.ProofsTreeBase C05.ProofsTreeRot
        C05.ProofsTreeInv C05.ProofsTreeFix C05.ProofsTreeIns C05.ProofsTreeQry C05.ProofsTreeStruct
        C05.ProofsTreeDel C05.ProofsTreeDelMax C05.ProofsTreeSeq C05.ProofsTreeWeak C05.ProofsTreeTotal C05.TreeBounded.
Require Import Permutation.
Open Scope Z_scope.

(* (T1) _left_rotate at any node x of a well-formed tree (it must have a right child,
   otherwise the model stops: out-of-bounds read in the code) yields a well-formed
   tree with the SAME in-order id sequence, valid cached maxima (the two refreshed
   ones included), and leaves every key, payload and colour untouched. *)
Theorem C05_tree_left_rotate_preserves :
  forall (K G N : Type) (ggt : G -> G -> bool) (nmin : N -> G) (smallest : G),
    (forall a b, ggt a b = true -> ggt b a = false) ->
    (forall a b c, gle ggt a b -> gle ggt b c -> gle ggt a c) ->
    forall (h : @heap K G N) root l x h' root',
      Good ggt nmin smallest h root l -> In x l ->
      left_rotate ggt nmin h root x = Some (h', root') ->
      Good ggt nmin smallest h' root' l /\
      (forall j, hkey h' j = hkey h j /\ hval h' j = hval h j /\ hred h' j = hred h j).
Proof.
  intros K G N ggt nmin smallest Ha Ht h root l x h' root' HG Hx Hr.
  destruct (lrot_good ggt nmin smallest Ha Ht _ _ _ _ _ _ HG Hx Hr) as (A & B & _). split; assumption.
Qed.
Print Assumptions C05_tree_left_rotate_preserves.

(* (T2) the same for _right_rotate *)
Theorem C05_tree_right_rotate_preserves :
  forall (K G N : Type) (ggt : G -> G -> bool) (nmin : N -> G) (smallest : G),
    (forall a b, ggt a b = true -> ggt b a = false) ->
    (forall a b c, gle ggt a b -> gle ggt b c -> gle ggt a c) ->
    forall (h : @heap K G N) root l y h' root',
      Good ggt nmin smallest h root l -> In y l ->
      right_rotate ggt nmin h root y = Some (h', root') ->
      Good ggt nmin smallest h' root' l /\
      (forall j, hkey h' j = hkey h j /\ hval h' j = hval h j /\ hred h' j = hred h j).
Proof.
  intros K G N ggt nmin smallest Ha Ht h root l y h' root' HG Hy Hr.
  destruct (rrot_good ggt nmin smallest Ha Ht _ _ _ _ _ _ HG Hy Hr) as (A & B & _). split; assumption.
Qed.
Print Assumptions C05_tree_right_rotate_preserves.

(* (T3) the whole _rb_insert_fixup loop, started at any node z of a well-formed tree
   whose NIL row is BLACK, for ANY amount of fuel: if it returns (no out-of-bounds
   guard hit, fuel not exhausted) the tree is well formed with the same in-order id
   sequence, valid cached maxima, the same keys and payloads, a BLACK NIL row and a
   BLACK root. *)
Theorem C05_tree_insert_fixup_preserves :
  forall (K G N : Type) (ggt : G -> G -> bool) (nmin : N -> G) (smallest : G),
    (forall a b, ggt a b = true -> ggt b a = false) ->
    (forall a b c, gle ggt a b -> gle ggt b c -> gle ggt a c) ->
    forall fuel (h : @heap K G N) root l z h' root',
      Good ggt nmin smallest h root l -> In z l -> hred h NIL = false ->
      ifix ggt nmin fuel h root z = Some (h', root') ->
      Good ggt nmin smallest h' root' l /\
      (forall j, hkey h' j = hkey h j /\ hval h' j = hval h j) /\
      hred h' NIL = false /\ hred h' root' = false.
Proof.
  intros K G N ggt nmin smallest Ha Ht fuel h root l z h' root' HG Hz Hb Hf.
  exact (ifix_ok ggt nmin smallest Ha Ht fuel h root l z h' root' (conj HG (conj Hz Hb)) Hf).
Qed.
Print Assumptions C05_tree_insert_fixup_preserves.

(* (T5) _insert_into_tree refines the abstract insert.  tabs h l = the (key, payload)
   pairs along the in-order id sequence l (the abstraction function); KSorted = the
   keys along l are strictly increasing (binary-search-tree order).  For ANY fuel: if
   the model returns a tree (no out-of-bounds guard, fuel not exhausted), then the new
   tree is well formed (links, parent pointers, distinct ids, EVERY cached maximum
   valid — the upward propagation loop and the fix-up included), its in-order
   sequence is the old one with the new row at the sorted position, its abstraction
   is the old abstraction with (k, v) inserted there — a permutation of what
   st_insert of Sweep.v returns —, NIL and the root are BLACK. *)
Theorem C05_tree_insert_refines :
  forall (K G N : Type) (klt : K -> K -> bool) (ggt : G -> G -> bool) (nmin : N -> G) (smallest : G),
    (forall a b, ggt a b = true -> ggt b a = false) ->
    (forall a b c, gle ggt a b -> gle ggt b c -> gle ggt a c) ->
    (forall a b c, klt a b = true -> klt b c = true -> klt a c = true) ->
    forall fuel (t : @tree K G N) id k v t' l,
      Good ggt nmin smallest (th t) (troot t) l -> KSorted klt (th t) l -> l <> [] ->
      hred (th t) NIL = false ->
      id <> NIL -> ~ In id l ->
      has_key klt k (tabs (th t) l) = false ->
      gle ggt smallest (nmin v) ->
      t_insert klt ggt nmin smallest fuel t id k v = Some t' ->
      exists l1 l2, l = l1 ++ l2 /\
        Good ggt nmin smallest (th t') (troot t') (l1 ++ id :: l2) /\
        KSorted klt (th t') (l1 ++ id :: l2) /\
        tabs (th t') (l1 ++ id :: l2) = tabs (th t) l1 ++ (k, v) :: tabs (th t) l2 /\
        st_insert klt k v (tabs (th t) l) = inr ((k, v) :: tabs (th t) l) /\
        Permutation (tabs (th t') (l1 ++ id :: l2)) ((k, v) :: tabs (th t) l) /\
        hred (th t') NIL = false /\ hred (th t') (troot t') = false.
Proof.
  intros K G N klt ggt nmin smallest H1 H2 H3 fuel t id k v t' l.
  exact (t_insert_refines klt ggt nmin smallest H1 H2 H3 fuel t id k v t' l).
Qed.
Print Assumptions C05_tree_insert_refines.

(* (T6) _max_grad_in_status_struct / _find_max_value_within_key on a well-formed,
   key-sorted, non-empty tree, for ANY fuel: if the model returns, it returns a
   maximum m (never the "current dist too large" error) and "m <= g" (not m > g) is
   exactly the abstract two-phase decision visible_q of Sweep.v on the abstraction.
   Premises: SMALLEST_GRAD <= g; < on keys is a strict weak order; and the
   phase-1 shortcut premise (the code consults cached maxima only on the left of the
   search path): a nearer node whose min3 exceeds g also has its interpolated
   gradient exceed g. *)
Theorem C05_tree_query_refines :
  forall (A K G N : Type) (klt : K -> K -> bool) (ggt : G -> G -> bool) (nmin : N -> G)
         (ncontrib : N -> A -> option G) (smallest : G),
    (forall a b, ggt a b = true -> ggt b a = false) ->
    (forall a b c, gle ggt a b -> gle ggt b c -> gle ggt a c) ->
    (forall a b c, klt a b = true -> klt b c = true -> klt a c = true) ->
    (forall a, klt a a = false) ->
    (forall a b c, klt a c = true -> klt a b = true \/ klt b c = true) ->
    forall fuel (t : @tree K G N) l k a g r,
      Good ggt nmin smallest (th t) (troot t) l -> KSorted klt (th t) l -> l <> [] ->
      gle ggt smallest g ->
      (forall j, In j l -> klt (hkey (th t) j) k = true -> ggt (hmin nmin (th t) j) g = true ->
                 hit ggt ncontrib g a (hval (th t) j) = true) ->
      t_query klt ggt nmin ncontrib smallest fuel t k a g = Some r ->
      exists m, r = QVal m /\
        negb (ggt m g) = visible_q klt ggt nmin ncontrib (tabs (th t) l) k a g.
Proof.
  intros A K G N klt ggt nmin ncontrib smallest H1 H2 H3 H4 H5 fuel t l k a g r.
  exact (t_query_ok klt ggt nmin ncontrib smallest H1 H2 H3 H4 H5 fuel t l k a g r).
Qed.
Print Assumptions C05_tree_query_refines.

(* (T7) the whole _rb_delete_fixup loop (four cases on each side, any number of
   iterations, any fuel), structure only: SGood h root l = the links and parent
   pointers encode a binary tree with distinct ids whose in-order sequence is l.
   If the loop returns, the in-order sequence, all keys and payloads are unchanged
   and NIL is still BLACK. *)
Theorem C05_tree_delete_fixup_preserves :
  forall (K G N : Type) (ggt : G -> G -> bool) (nmin : N -> G)
         fuel (h : @heap K G N) root l x h' root',
    SGood h root l -> l <> [] -> In x l -> hred h NIL = false ->
    dfix ggt nmin fuel h root x = Some (h', root') ->
    SGood h' root' l /\ (forall j, hkey h' j = hkey h j /\ hval h' j = hval h j) /\ hred h' NIL = false.
Proof.
  intros K G N ggt nmin fuel h root l x h' root' HG Hne Hx HB Hf.
  exact (dfix_ok ggt nmin fuel h root l x h' root' (conj HG (conj Hne (conj Hx HB))) Hf).
Qed.
Print Assumptions C05_tree_delete_fixup_preserves.

(* (T8s) structure-only version of T8 (premise SGood instead of Good; it also holds for the
   pre-fix loops): _delete_from_tree refines the abstract del_key of Sweep.v (links, in-order
   sequence, keys, payloads — the successor copy included).  On a well-formed key-sorted tree, for ANY
   fuel: if the model returns, then either it reports "node not found" and the abstract
   del_key finds no such key, or it returns a well-formed key-sorted tree whose
   abstraction is exactly what del_key returns, frees a row d that was in the tree and
   is not any more (the id sequences differ by d), and NIL is still BLACK.  The
   "successor not found" error never occurs. *)
Theorem C05_tree_delete_refines_structure :
  forall (K G N : Type) (klt : K -> K -> bool) (ggt : G -> G -> bool) (nmin : N -> G),
    (forall a b c, klt a b = true -> klt b c = true -> klt a c = true) ->
    (forall a b c, klt a c = true -> klt a b = true \/ klt b c = true) ->
    forall fuel (t : @tree K G N) key res l,
      SGood (th t) (troot t) l -> KSorted klt (th t) l -> hred (th t) NIL = false ->
      t_delete klt ggt nmin fuel t key = Some res ->
      (res = DNotFound /\ del_key klt key (tabs (th t) l) = None) \/
      (exists h' root' d l', res = DOk (mkTree h' root') d /\
         SGood h' root' l' /\ KSorted klt h' l' /\
         del_key klt key (tabs (th t) l) = Some (tabs h' l') /\
         Permutation l (d :: l') /\ hred h' NIL = false).
Proof.
  intros K G N klt ggt nmin H1 H2 fuel t key res l.
  exact (t_delete_ok ggt nmin klt H1 H2 fuel t key res l).
Qed.
Print Assumptions C05_tree_delete_refines_structure.

(* (T8) _delete_from_tree (fixed code, e4337e3: both repair loops recompute every ancestor)
   preserves the FULL invariant Good — links, parent pointers, distinct ids AND every
   cached maximum = maximum of min3 over its subtree (unlinking, the upward recomputation,
   the successor copy, _rb_delete_fixup) — and refines del_key on the abstraction. *)
Theorem C05_tree_delete_refines :
  forall (K G N : Type) (klt : K -> K -> bool) (ggt : G -> G -> bool) (nmin : N -> G) (smallest : G),
    (forall a b, ggt a b = true -> ggt b a = false) ->
    (forall a b c, gle ggt a b -> gle ggt b c -> gle ggt a c) ->
    (forall a b c, klt a b = true -> klt b c = true -> klt a c = true) ->
    (forall a b c, klt a c = true -> klt a b = true \/ klt b c = true) ->
    forall fuel (t : @tree K G N) key res l,
      Good ggt nmin smallest (th t) (troot t) l -> KSorted klt (th t) l -> hred (th t) NIL = false ->
      t_delete klt ggt nmin fuel t key = Some res ->
      (res = DNotFound /\ del_key klt key (tabs (th t) l) = None) \/
      (exists h' root' d l', res = DOk (mkTree h' root') d /\
         Good ggt nmin smallest h' root' l' /\ KSorted klt h' l' /\
         del_key klt key (tabs (th t) l) = Some (tabs h' l') /\
         Permutation l (d :: l') /\ hred h' NIL = false).
Proof.
  intros K G N klt ggt nmin smallest H1 H2 H3 H4 fuel t key res l.
  exact (t_delete_ok_g ggt nmin smallest H1 H2 klt H3 H4 fuel t key res l).
Qed.
Print Assumptions C05_tree_delete_refines.

(* (T13) THE REFINEMENT over operation sequences.  Start from _create_status_struct
   (c_init: dummy root with key k0, payload v0; idle stack 2, 3, ..); drive the concrete tree
   with ANY sequence of inserts / deletes / queries whose keys lie above k0 and whose
   gradients are >= SMALLEST_GRAD.  Then, as long as the model returns (RStop = out of
   fuel / out-of-bounds guard / idle stack empty: nothing claimed afterwards; fuel
   sufficiency of insert / delete is not proved) and no key is inserted twice:
     - every insert succeeds and the abstract status gains (k, v);
     - every delete answers "not found" exactly when del_key finds nothing, otherwise it
       succeeds and the abstract status becomes del_key's result;
     - every query returns a maximum m with (not m > g) = visible_q of the abstract status.
   Behind it (Rinv): after every prefix the tree satisfies the full invariant Good, its keys
   are sorted, its in-order abstraction is a permutation of the dummy entry followed by the
   abstract status, and the idle rows are fresh.
   Premises: strict weak orders; the dummy's min3 equals SMALLEST_GRAD and it is never
   hit; the phase-1 premise of the query for every payload. *)
Theorem C05_rbtree_refines_status :
  forall (A K G N : Type) (klt : K -> K -> bool) (ggt : G -> G -> bool) (nmin : N -> G)
         (ncontrib : N -> A -> option G) (smallest : G) (k0 : K) (v0 : N),
    (forall a b, ggt a b = true -> ggt b a = false) ->
    (forall a b c, gle ggt a b -> gle ggt b c -> gle ggt a c) ->
    (forall a b c, klt a b = true -> klt b c = true -> klt a c = true) ->
    (forall a, klt a a = false) ->
    (forall a b c, klt a c = true -> klt a b = true \/ klt b c = true) ->
    gle ggt smallest (nmin v0) -> gle ggt (nmin v0) smallest ->
    (forall a g, gle ggt smallest g -> hit ggt ncontrib g a v0 = false) ->
    (forall n a g, ggt (nmin n) g = true -> hit ggt ncontrib g a n = true) ->
    forall (num_nodes : Z) (ops : list (@cop A K G N)),
      Forall (op_ok klt ggt nmin smallest k0) ops ->
      refines klt ggt nmin ncontrib smallest (c_init smallest k0 v0 num_nodes) [] ops.
Proof.
  intros A K G N klt ggt nmin ncontrib smallest k0 v0 H1 H2 H3 H4 H5 D1 D2 D3 P1 n ops Hok.
  exact (refines_from_empty klt ggt nmin ncontrib smallest k0 v0 H1 H2 H3 H4 H5 D1 D2 D3 P1 n ops Hok).
Qed.
Print Assumptions C05_rbtree_refines_status.

(* ---- the ONE-SIDED cached-maximum invariant.  WGood h root l: links / parent
   pointers / distinct ids as in Good, and every cached maximum is SMALLEST_GRAD or is
   <= the min3 of some node of its subtree ("never too high"); NIL caches
   SMALLEST_GRAD.  It follows from Good, it is what the query needs, and — unlike
   Good — it is what the states reached after deletes satisfy in practice. *)

(* (T9) Good implies WGood; both rotations and the whole insert fix-up preserve WGood,
   the in-order sequence, keys and payloads. *)
Theorem C05_tree_weak_invariant_rotations :
  forall (K G N : Type) (ggt : G -> G -> bool) (nmin : N -> G) (smallest : G),
    (forall a b, ggt a b = true -> ggt b a = false) ->
    (forall a b c, gle ggt a b -> gle ggt b c -> gle ggt a c) ->
    (forall (h : @heap K G N) root l, Good ggt nmin smallest h root l -> WGood ggt nmin smallest h root l) /\
    (forall (h : @heap K G N) root l x h' root',
        WGood ggt nmin smallest h root l -> In x l -> left_rotate ggt nmin h root x = Some (h', root') ->
        WGood ggt nmin smallest h' root' l /\ same_kvc h h') /\
    (forall (h : @heap K G N) root l y h' root',
        WGood ggt nmin smallest h root l -> In y l -> right_rotate ggt nmin h root y = Some (h', root') ->
        WGood ggt nmin smallest h' root' l /\ same_kvc h h') /\
    (forall fuel (h : @heap K G N) root l z h' root',
        WGood ggt nmin smallest h root l -> In z l -> hred h NIL = false ->
        ifix ggt nmin fuel h root z = Some (h', root') ->
        WGood ggt nmin smallest h' root' l /\
        (forall j, hkey h' j = hkey h j /\ hval h' j = hval h j) /\
        hred h' NIL = false /\ hred h' root' = false).
Proof.
  intros K G N ggt nmin smallest Ha Ht. split; [|split; [|split]].
  - intros h root l. apply Good_WGood.
  - intros h root l x h' root' HG Hx Hr.
    destruct (lrot_wgood ggt nmin smallest Ha _ _ _ _ _ _ HG Hx Hr) as (A & B & _). split; assumption.
  - intros h root l y h' root' HG Hy Hr.
    destruct (rrot_wgood ggt nmin smallest Ha _ _ _ _ _ _ HG Hy Hr) as (A & B & _). split; assumption.
  - intros fuel h root l z h' root' HG Hz Hb Hf.
    exact (ifix_ok_w ggt nmin smallest Ha fuel h root l z h' root' (conj HG (conj Hz Hb)) Hf).
Qed.
Print Assumptions C05_tree_weak_invariant_rotations.

(* (T10) _insert_into_tree preserves WGood and refines st_insert (as T5, without the
   premise SMALLEST_GRAD <= min3 of the new node). *)
Theorem C05_tree_insert_refines_weak :
  forall (K G N : Type) (klt : K -> K -> bool) (ggt : G -> G -> bool) (nmin : N -> G) (smallest : G),
    (forall a b, ggt a b = true -> ggt b a = false) ->
    (forall a b c, klt a b = true -> klt b c = true -> klt a c = true) ->
    forall fuel (t : @tree K G N) id k v t' l,
      WGood ggt nmin smallest (th t) (troot t) l -> KSorted klt (th t) l -> l <> [] ->
      hred (th t) NIL = false ->
      id <> NIL -> ~ In id l ->
      has_key klt k (tabs (th t) l) = false ->
      t_insert klt ggt nmin smallest fuel t id k v = Some t' ->
      exists l1 l2, l = l1 ++ l2 /\
        WGood ggt nmin smallest (th t') (troot t') (l1 ++ id :: l2) /\
        KSorted klt (th t') (l1 ++ id :: l2) /\
        tabs (th t') (l1 ++ id :: l2) = tabs (th t) l1 ++ (k, v) :: tabs (th t) l2 /\
        st_insert klt k v (tabs (th t) l) = inr ((k, v) :: tabs (th t) l) /\
        Permutation (tabs (th t') (l1 ++ id :: l2)) ((k, v) :: tabs (th t) l) /\
        hred (th t') NIL = false /\ hred (th t') (troot t') = false.
Proof.
  intros K G N klt ggt nmin smallest H1 H3 fuel t id k v t' l.
  exact (t_insert_refines_w ggt nmin smallest H1 klt H3 fuel t id k v t' l).
Qed.
Print Assumptions C05_tree_insert_refines_weak.

(* (T11) the query under the ONE-SIDED invariant: as T6 with WGood in place of Good
   (the phase-1 premise is the same: it is stated for every nearer node). *)
Theorem C05_tree_query_refines_weak :
  forall (A K G N : Type) (klt : K -> K -> bool) (ggt : G -> G -> bool) (nmin : N -> G)
         (ncontrib : N -> A -> option G) (smallest : G),
    (forall a b, ggt a b = true -> ggt b a = false) ->
    (forall a b c, gle ggt a b -> gle ggt b c -> gle ggt a c) ->
    (forall a b c, klt a b = true -> klt b c = true -> klt a c = true) ->
    (forall a, klt a a = false) ->
    (forall a b c, klt a c = true -> klt a b = true \/ klt b c = true) ->
    forall fuel (t : @tree K G N) l k a g r,
      WGood ggt nmin smallest (th t) (troot t) l -> KSorted klt (th t) l -> l <> [] ->
      gle ggt smallest g ->
      (forall j, In j l -> klt (hkey (th t) j) k = true -> ggt (hmin nmin (th t) j) g = true ->
                 hit ggt ncontrib g a (hval (th t) j) = true) ->
      t_query klt ggt nmin ncontrib smallest fuel t k a g = Some r ->
      exists m, r = QVal m /\
        negb (ggt m g) = visible_q klt ggt nmin ncontrib (tabs (th t) l) k a g.
Proof.
  intros A K G N klt ggt nmin ncontrib smallest H1 H2 H3 H4 H5 fuel t l k a g r.
  exact (t_query_ok_w ggt nmin smallest H1 H2 klt H3 ncontrib H4 H5 fuel t l k a g r).
Qed.
Print Assumptions C05_tree_query_refines_weak.

(* (T12) fuel sufficiency of the query: on any well-formed tree, with fuel at least the
   number of nodes the query returns (it never runs out of fuel; it has no
   out-of-bounds guard).  Together with T6 / T11: total correctness of the query. *)
Theorem C05_tree_query_total :
  forall (A K G N : Type) (klt : K -> K -> bool) (ggt : G -> G -> bool) (nmin : N -> G)
         (ncontrib : N -> A -> option G) (smallest : G)
         fuel (t : @tree K G N) l k a g,
    SGood (th t) (troot t) l -> (length l <= fuel)%nat ->
    t_query klt ggt nmin ncontrib smallest fuel t k a g <> None.
Proof.
  intros A K G N klt ggt nmin ncontrib smallest fuel t l k a g.
  exact (t_query_total klt ggt nmin ncontrib smallest fuel t l k a g).
Qed.
Print Assumptions C05_tree_query_total.

(* (T4) BOUNDED (vm_compute): on the exact integer instance (keys, gradients in Z, a
   node's payload = its constant gradient, SMALLEST_GRAD = -100, 64 rows), for EVERY
   sequence of at most 6 insert / delete operations with keys in 1..5 and gradients in
   {0, 1}, after every prefix: the in-order (key, payload) sequence of the concrete
   tree is the dummy root followed by the abstract status structure sorted by key, all
   14 queries (keys 1..6, gradients -1, 0) return a maximum whose comparison with the
   gradient is the abstract visible_q, inserts / deletes succeed exactly when the
   abstract structure accepts them (the run stops at the first refused operation). *)
Theorem C05_bounded_tree_refines_small :
  forall ops : list zop,
    (length ops <= 6)%nat ->
    Forall (fun o => match o with
                     | ZI k v => 1 <= k <= 5 /\ 0 <= v <= 1
                     | ZD k => 1 <= k <= 5
                     end) ops ->
    refines_run zc_init [] ops = true.
Proof. exact bounded_refines. Qed.
Print Assumptions C05_bounded_tree_refines_small.

(* ---- UNCLAIMED: the TOTAL version of (T13) on the integer instance: the model never stops
   (fuel 2*live+8 suffices for insert / delete and no out-of-bounds guard fires), so that the
   boolean run refines_run is true for every sequence (any length, any keys above the dummy
   root's, any gradients above SMALLEST_GRAD, enough rows).  What is claimed is (T13)
   (conditional on the model returning), (T12) (the query never stops) and (T4) (bounded). *)
Definition tree_refines_status_full_statement : Prop :=
  forall (n : Z) (ops : list zop),
    Z.of_nat (length ops) + 3 <= n ->
    Forall (fun o => match o with ZI k v => 1 <= k /\ zsmall < v | ZD k => 1 <= k end) ops ->
    refines_run (c_init zsmall 0 zsmall n) [] ops = true.

(* ---- non-vacuity: the tree holding the dummy root (row 0, key 0) and one node
   (row 2, key 1, gradient 1) is Good with in-order ids [0; 2]; _left_rotate at the
   root succeeds (premises of T1), and the fix-up started at the new node returns
   (premises of T3). *)
Definition ex_state : @cstate Z Z Z := snd (zc_step zc_init (CI 1 1)).
Definition ex_heap := th (c_tree ex_state).

Example C05_tree_nonvacuous :
  Good zgt' (fun n : Z => n) zsmall ex_heap (troot (c_tree ex_state)) [0; 2] /\
  hred ex_heap NIL = false /\
  (exists r, left_rotate zgt' (fun n : Z => n) ex_heap 0 0 = Some r) /\
  (exists r, ifix zgt' (fun n : Z => n) 5 ex_heap 0 2 = Some r) /\
  (forall a b, zgt' a b = true -> zgt' b a = false) /\
  (forall a b c, gle zgt' a b -> gle zgt' b c -> gle zgt' a c).
Proof.
  split.
  { exists (Nd L 0 (Nd L 2 L)). split; [|reflexivity].
    unfold TInv. split; [|split; [|split; [|split]]].
    - simpl. repeat split; try reflexivity; try discriminate.
    - simpl. repeat constructor; simpl; intuition discriminate.
    - simpl. repeat split; trivial.
      + intros j [<-|[]]. vm_compute. reflexivity.
      + exists 2. split; [now left|vm_compute; reflexivity].
      + intros j [<-|[<-|[]]]; vm_compute; reflexivity.
      + exists 2. split; [right; now left|vm_compute; reflexivity].
    - reflexivity.
    - intros j [<-|[<-|[]]]; vm_compute; reflexivity. }
  split; [reflexivity|].
  split; [eexists; vm_compute; reflexivity|].
  split; [eexists; vm_compute; reflexivity|].
  split.
  - intros a b H. unfold zgt' in *. lia.
  - intros a b c H1 H2. unfold gle, zgt' in *. lia.
Qed.

(* the premises of T5 / T6 / T8 / T12 are satisfiable on ex_state (dummy root + key 1) and
   the three operations return: insert of key 2 at a fresh row, the query for key 1, the
   deletion of key 1 *)
Example C05_tree_ops_nonvacuous :
  KSorted Z.ltb ex_heap [0; 2] /\
  SGood ex_heap (troot (c_tree ex_state)) [0; 2] /\
  has_key Z.ltb 2 (tabs ex_heap [0; 2]) = false /\
  (exists t', t_insert Z.ltb zgt' (fun n : Z => n) zsmall 8 (c_tree ex_state) 3 2 0 = Some t') /\
  (exists m, t_query Z.ltb zgt' (fun n : Z => n) zcon zsmall 8 (c_tree ex_state) 1 tt 0 = Some (QVal m)) /\
  (exists t' d, t_delete Z.ltb zgt' (fun n : Z => n) 8 (c_tree ex_state) 1 = Some (DOk t' d)) /\
  (forall a b c, Z.ltb a b = true -> Z.ltb b c = true -> Z.ltb a c = true) /\
  (forall a, Z.ltb a a = false) /\
  (forall a b c, Z.ltb a c = true -> Z.ltb a b = true \/ Z.ltb b c = true).
Proof.
  split.
  { unfold KSorted. repeat constructor. }
  split.
  { exists (Nd L 0 (Nd L 2 L)). split; [|reflexivity]. split.
    - simpl. repeat split; try reflexivity; try discriminate.
    - simpl. repeat constructor; simpl; intuition discriminate. }
  split; [reflexivity|].
  split; [eexists; vm_compute; reflexivity|].
  split; [eexists; vm_compute; reflexivity|].
  split; [eexists; eexists; vm_compute; reflexivity|].
  split; [intros a b c H1 H2; apply Z.ltb_lt in H1, H2; apply Z.ltb_lt; lia|].
  split; [intros a; apply Z.ltb_irrefl|].
  intros a b c H. apply Z.ltb_lt in H. destruct (Z.ltb_spec a b); [now left|right; apply Z.ltb_lt; lia].
Qed.

(* ---- the behaviour BEFORE the fix e4337e3 (loops del_up1_prefix / del_up2_prefix of
   Tree.v), kept as documentation of the defect.  zc_step_prefix runs the pre-fix delete. *)
Definition cop_of (o : zop) : @cop unit Z Z Z := match o with ZI k v => CI k v | ZD k => CD k end.
Definition prefix_state (ops : list zop) : @cstate Z Z Z :=
  fold_left (fun s o => snd (zc_step_prefix s (cop_of o))) ops zc_init.
Definition fixed_state (ops : list zop) : @cstate Z Z Z :=
  fold_left (fun s o => snd (zc_step s (cop_of o))) ops zc_init.
Definition abs_state (ops : list zop) : zstatus :=
  fold_left (fun st o =>
    match o with
    | ZI k v => match st_insert Z.ltb k v st with inr st' => st' | inl _ => st end
    | ZD k => match del_key Z.ltb k st with Some st' => st' | None => st end
    end) ops [].

(* (a) pre-fix, the cached maxima could end up too LOW: after insert 6 (gradient 1), 1 (0),
   5 (0), 3 (0), 2 (1), delete 2, delete 5 the root (row 3, key 1) cached 0 although its
   right child (row 4, key 6) has min3 = 1: the invariant Good failed.  With the fixed
   loops the same sequence leaves the root with the cached maximum 1. *)
Definition stale_ops : list zop := [ZI 6 1; ZI 1 0; ZI 5 0; ZI 3 0; ZI 2 1; ZD 2; ZD 5].

Example C05_tree_delete_max_not_preserved :
  let h := th (c_tree (prefix_state stale_ops)) in
  let root := troot (c_tree (prefix_state stale_ops)) in
  root = 3 /\ c_abs (prefix_state stale_ops) = [(0, zsmall); (1, 0); (3, 0); (6, 1)] /\
  hmax h 3 = 0 /\ hright h 3 = 4 /\ hval h 4 = 1 /\
  ~ Good zgt' (fun n : Z => n) zsmall h root [0; 3; 5; 4] /\
  hmax (th (c_tree (fixed_state stale_ops))) (troot (c_tree (fixed_state stale_ops))) = 1.
Proof.
  cbv zeta. split; [vm_compute; reflexivity|]. split; [vm_compute; reflexivity|].
  split; [vm_compute; reflexivity|]. split; [vm_compute; reflexivity|]. split; [vm_compute; reflexivity|].
  split; [|vm_compute; reflexivity].
  intros HG.
  assert (H4 : In 4 [0; 3; 5; 4]) by (simpl; tauto).
  pose proof (Good_root_upper zgt' (fun n : Z => n) zsmall _ _ _ 4 HG H4) as X.
  vm_compute in X. discriminate.
Qed.

(* (b) pre-fix, a cached maximum could also end up too HIGH, and the query was then wrong:
   after these 45 inserts / deletes (keys 1..16, gradients 0..4) the abstraction agrees, but
   the pre-fix query for key 16 at gradient 2 returned the maximum 3 (hidden) although no
   nearer live node has a gradient above 2 (visible_q = true).  Same input, same answer on
   the jitted code before e4337e3 (harness/props/c05.py STALE_MAX_SEQ).  The fixed loops
   return 2 (visible). *)
Definition refuting_ops : list zop :=
  [ZI 2 2; ZI 8 4; ZI 12 4; ZI 13 2; ZI 9 3; ZD 12; ZI 5 1; ZI 10 2; ZD 2; ZI 12 1; ZD 8; ZI 6 3; ZI 8 2; ZD 9;
   ZI 9 1; ZD 10; ZD 13; ZD 6; ZI 16 3; ZD 9; ZI 9 2; ZD 12; ZI 13 2; ZD 8; ZI 7 4; ZI 6 3; ZI 10 1; ZI 8 1; ZD 6;
   ZD 10; ZD 5; ZI 11 3; ZI 15 0; ZI 12 2; ZD 9; ZI 3 3; ZD 7; ZI 5 4; ZD 3; ZI 14 1; ZD 13; ZI 13 3; ZD 11; ZD 13;
   ZD 5].

Example C05_tree_refines_refuted :
  c_abs (prefix_state refuting_ops) = (0, zsmall) :: sort_status (abs_state refuting_ops) /\
  sort_status (abs_state refuting_ops) = [(8, 1); (12, 2); (14, 1); (15, 0); (16, 3)] /\
  fst (zc_step_prefix (prefix_state refuting_ops) (CQ 16 tt 2)) = RQry 3 /\
  visible_q Z.ltb zgt' (fun n => n) zcon (abs_state refuting_ops) 16 tt 2 = true /\
  fst (zc_step (fixed_state refuting_ops) (CQ 16 tt 2)) = RQry 2.
Proof. vm_compute. repeat split; reflexivity. Qed.

(* the premises of (T13) hold on the integer instance, and on a concrete sequence the model
   never stops, so that the conclusion is not the trivial disjunct *)
Example C05_rbtree_refines_nonvacuous :
  gle zgt' zsmall zsmall /\
  (forall (a : unit) g, gle zgt' zsmall g -> hit zgt' zcon g a zsmall = false) /\
  (forall n (a : unit) g, zgt' n g = true -> hit zgt' zcon g a n = true) /\
  Forall (op_ok Z.ltb zgt' (fun n : Z => n) zsmall 0)
         [CI 3 1; CI 1 0; CI 2 2; CQ 3 tt 1; CD 1; CQ 3 tt 1; CD 2; CQ 3 tt 1; CD 7] /\
  c_run Z.ltb zgt' (fun n : Z => n) zcon zsmall zc_init
        [CI 3 1; CI 1 0; CI 2 2; CQ 3 tt 1; CD 1; CQ 3 tt 1; CD 2; CQ 3 tt 1; CD 7] =
    [RIns 0; RIns 3; RIns 3; RQry 2; RDel 3 4; RQry 2; RDel 3 2; RQry zsmall; RNotFound].
Proof.
  split; [reflexivity|]. split.
  { intros a g H. unfold hit, zcon, gle, zgt' in *. exact H. }
  split. { intros n a g H. unfold hit, zcon. exact H. }
  split. { repeat constructor; unfold gle, zgt', zsmall; simpl; reflexivity. }
  vm_compute. reflexivity.
Qed.

(* the bounded run is not trivially true: it inspects states with five live nodes *)
Example C05_bounded_nonvacuous :
  refines_run zc_init [] [ZI 1 0; ZI 2 1; ZI 3 0; ZI 4 1; ZI 5 0; ZD 2] = true /\
  c_abs (snd (zc_step (snd (zc_step (snd (zc_step zc_init (CI 1 0))) (CI 2 1))) (CI 3 0))) =
    [(0, zsmall); (1, 0); (2, 1); (3, 0)].
Proof. split; vm_compute; reflexivity. Qed.
