(* C05/PropsTree.v — claimed theorems about the CONCRETE red-black tree model of
   Tree.v (the array-encoded status structure of viewshed.py as it is written).

   Vocabulary (ProofsTreeBase / ProofsTreeInv / ProofsTreeFix):
     Rep h p par s     the node array h encodes the binary-tree shape s at pointer p,
                       every node's parent field is right (NIL = -1 for leaves)
     TInv h root s     Rep h root NIL s, the ids of s are distinct, every node's cached
                       maximum is the maximum of min(g0,g1,g2) over its subtree
                       (upper bound and attained, MaxOK), NIL's cached maximum is
                       SMALLEST_GRAD, and SMALLEST_GRAD <= every node's min3
     Good h root l     exists s, TInv h root s /\ the in-order id sequence of s is l
   gle a b := ggt a b = false.  The order premises say that > on gradients is a
   strict weak order (true for binary64 off NaN). *)
Require Import Base.Prelude C05.Sweep C05.Tree C05.ProofsTreeBase C05.ProofsTreeRot
        C05.ProofsTreeInv C05.ProofsTreeFix C05.TreeBounded.
Open Scope Z_scope.

(* (T1) _left_rotate at any node x of a well-formed tree (it must have a right child,
   otherwise the model stops: out-of-bounds read in the code) yields a well-formed
   tree with the SAME in-order id sequence, valid cached maxima (the two refreshed
   ones included), and leaves every key, payload and colour untouched. *)
Theorem C05_tree_left_rotate_preserves :
  forall (K G N : Type) (ggt : G -> G -> bool) (nmin : N -> G) (smallest : G),
    (forall a b, ggt a b = true -> ggt b a = false) ->
    (forall a b c, gle ggt a b -> gle ggt b c -> gle ggt a c) ->
    forall (h : @heap K G N) root l x h' root',
      Good ggt nmin smallest h root l -> In x l ->
      left_rotate ggt nmin h root x = Some (h', root') ->
      Good ggt nmin smallest h' root' l /\
      (forall j, hkey h' j = hkey h j /\ hval h' j = hval h j /\ hred h' j = hred h j).
Proof.
  intros K G N ggt nmin smallest Ha Ht h root l x h' root' HG Hx Hr.
  destruct (lrot_good ggt nmin smallest Ha Ht _ _ _ _ _ _ HG Hx Hr) as (A & B & _). split; assumption.
Qed.
Print Assumptions C05_tree_left_rotate_preserves.

(* (T2) the same for _right_rotate *)
Theorem C05_tree_right_rotate_preserves :
  forall (K G N : Type) (ggt : G -> G -> bool) (nmin : N -> G) (smallest : G),
    (forall a b, ggt a b = true -> ggt b a = false) ->
    (forall a b c, gle ggt a b -> gle ggt b c -> gle ggt a c) ->
    forall (h : @heap K G N) root l y h' root',
      Good ggt nmin smallest h root l -> In y l ->
      right_rotate ggt nmin h root y = Some (h', root') ->
      Good ggt nmin smallest h' root' l /\
      (forall j, hkey h' j = hkey h j /\ hval h' j = hval h j /\ hred h' j = hred h j).
Proof.
  intros K G N ggt nmin smallest Ha Ht h root l y h' root' HG Hy Hr.
  destruct (rrot_good ggt nmin smallest Ha Ht _ _ _ _ _ _ HG Hy Hr) as (A & B & _). split; assumption.
Qed.
Print Assumptions C05_tree_right_rotate_preserves.

(* (T3) the whole _rb_insert_fixup loop, started at any node z of a well-formed tree
   whose NIL row is BLACK, for ANY amount of fuel: if it returns (no out-of-bounds
   guard hit, fuel not exhausted) the tree is well formed with the same in-order id
   sequence, valid cached maxima, the same keys and payloads, a BLACK NIL row and a
   BLACK root. *)
Theorem C05_tree_insert_fixup_preserves :
  forall (K G N : Type) (ggt : G -> G -> bool) (nmin : N -> G) (smallest : G),
    (forall a b, ggt a b = true -> ggt b a = false) ->
    (forall a b c, gle ggt a b -> gle ggt b c -> gle ggt a c) ->
    forall fuel (h : @heap K G N) root l z h' root',
      Good ggt nmin smallest h root l -> In z l -> hred h NIL = false ->
      ifix ggt nmin fuel h root z = Some (h', root') ->
      Good ggt nmin smallest h' root' l /\
      (forall j, hkey h' j = hkey h j /\ hval h' j = hval h j) /\
      hred h' NIL = false /\ hred h' root' = false.
Proof.
  intros K G N ggt nmin smallest Ha Ht fuel h root l z h' root' HG Hz Hb Hf.
  exact (ifix_ok ggt nmin smallest Ha Ht fuel h root l z h' root' (conj HG (conj Hz Hb)) Hf).
Qed.
Print Assumptions C05_tree_insert_fixup_preserves.

(* (T4) BOUNDED (vm_compute): on the exact integer instance (keys, gradients in Z, a
   node's payload = its constant gradient, SMALLEST_GRAD = -100, 64 rows), for EVERY
   sequence of at most 6 insert / delete operations with keys in 1..5 and gradients in
   {0, 1}, after every prefix: the in-order (key, payload) sequence of the concrete
   tree is the dummy root followed by the abstract status structure sorted by key, all
   14 queries (keys 1..6, gradients -1, 0) return a maximum whose comparison with the
   gradient is the abstract visible_q, inserts / deletes succeed exactly when the
   abstract structure accepts them (the run stops at the first refused operation). *)
Theorem C05_bounded_tree_refines_small :
  forall ops : list zop,
    (length ops <= 6)%nat ->
    Forall (fun o => match o with
                     | ZI k v => 1 <= k <= 5 /\ 0 <= v <= 1
                     | ZD k => 1 <= k <= 5
                     end) ops ->
    refines_run zc_init [] ops = true.
Proof. exact bounded_refines. Qed.
Print Assumptions C05_bounded_tree_refines_small.

(* ---- UNCLAIMED: the full refinement statement for the concrete tree: the bound of
   (T4) removed (any number of operations, any keys above the dummy root's, any
   gradients above SMALLEST_GRAD, enough rows).  Covered by (T4) on its domain and by
   the correspondence runs; the proved parts are (T1)-(T3). *)
Definition tree_refines_status_full_statement : Prop :=
  forall (n : Z) (ops : list zop),
    Z.of_nat (length ops) + 3 <= n ->
    Forall (fun o => match o with ZI k v => 1 <= k /\ zsmall < v | ZD k => 1 <= k end) ops ->
    refines_run (c_init zsmall 0 zsmall n) [] ops = true.

(* ---- non-vacuity: the tree holding the dummy root (row 0, key 0) and one node
   (row 2, key 1, gradient 1) is Good with in-order ids [0; 2]; _left_rotate at the
   root succeeds (premises of T1), and the fix-up started at the new node returns
   (premises of T3). *)
Definition ex_state : @cstate Z Z Z := snd (zc_step zc_init (CI 1 1)).
Definition ex_heap := th (c_tree ex_state).

Example C05_tree_nonvacuous :
  Good zgt' (fun n : Z => n) zsmall ex_heap (troot (c_tree ex_state)) [0; 2] /\
  hred ex_heap NIL = false /\
  (exists r, left_rotate zgt' (fun n : Z => n) ex_heap 0 0 = Some r) /\
  (exists r, ifix zgt' (fun n : Z => n) 5 ex_heap 0 2 = Some r) /\
  (forall a b, zgt' a b = true -> zgt' b a = false) /\
  (forall a b c, gle zgt' a b -> gle zgt' b c -> gle zgt' a c).
Proof.
  split.
  { exists (Nd L 0 (Nd L 2 L)). split; [|reflexivity].
    unfold TInv. split; [|split; [|split; [|split]]].
    - simpl. repeat split; try reflexivity; try discriminate.
    - simpl. repeat constructor; simpl; intuition discriminate.
    - simpl. repeat split; trivial.
      + intros j [<-|[]]. vm_compute. reflexivity.
      + exists 2. split; [now left|vm_compute; reflexivity].
      + intros j [<-|[<-|[]]]; vm_compute; reflexivity.
      + exists 2. split; [right; now left|vm_compute; reflexivity].
    - reflexivity.
    - intros j [<-|[<-|[]]]; vm_compute; reflexivity. }
  split; [reflexivity|].
  split; [eexists; vm_compute; reflexivity|].
  split; [eexists; vm_compute; reflexivity|].
  split.
  - intros a b H. unfold zgt' in *. lia.
  - intros a b c H1 H2. unfold gle, zgt' in *. lia.
Qed.

(* the bounded run is not trivially true: it inspects states with five live nodes *)
Example C05_bounded_nonvacuous :
  refines_run zc_init [] [ZI 1 0; ZI 2 1; ZI 3 0; ZI 4 1; ZI 5 0; ZD 2] = true /\
  c_abs (snd (zc_step (snd (zc_step (snd (zc_step zc_init (CI 1 0))) (CI 2 1))) (CI 3 0))) =
    [(0, zsmall); (1, 0); (2, 1); (3, 0)].
Proof. split; vm_compute; reflexivity. Qed.
