(* C05/ProofsTreeRot.v — the rotations of Tree.v: pointwise description of the heap
   they produce, then: a rotation at a node of a well-formed tree yields a
   well-formed tree with the same in-order id sequence, the same keys / payloads /
   colours, and valid cached maxima. *)
Require Import Base.Prelude.
Require Import C05.Tree C05.ProofsTreeBase.
Require Import Permutation.

Ltac zeq :=
  repeat match goal with
  | |- context [?a =? ?b] =>
    first [ rewrite (proj2 (Z.eqb_eq a b)) by (try assumption; try reflexivity; try congruence; lia)
          | rewrite (proj2 (Z.eqb_neq a b)) by (try assumption; try congruence; lia) ]
  end.
Ltac hs := repeat (autorewrite with heap; zeq; cbn [fst snd]).
Ltac casez := match goal with |- context [?a =? ?b] => destruct (Z.eqb_spec a b) end.
Ltac hfin := intros; hs; repeat (casez; hs); try reflexivity; try congruence.

Section Rot.
  Context {K G N : Type}.
  Variable ggt : G -> G -> bool.
  Variable nmin : N -> G.
  Notation heap := (@heap K G N).
  Notation left_rotate := (@left_rotate K G N ggt nmin).
  Notation right_rotate := (@right_rotate K G N ggt nmin).
  Notation hmin := (@hmin K G N nmin).

  Definition rval (a b own : G) : G :=
    let tmp := if ggt a b then a else b in if ggt tmp own then tmp else own.

  Lemma hmin_set_max (h : heap) i v j : hmin (set_max h i v) j = hmin h j.
  Proof. unfold hmin. now autorewrite with heap. Qed.
  Lemma hmin_set_red (h : heap) i v j : hmin (set_red h i v) j = hmin h j.
  Proof. unfold hmin. now autorewrite with heap. Qed.
  Lemma hmin_set_left (h : heap) i v j : hmin (set_left h i v) j = hmin h j.
  Proof. unfold hmin. now autorewrite with heap. Qed.
  Lemma hmin_set_right (h : heap) i v j : hmin (set_right h i v) j = hmin h j.
  Proof. unfold hmin. now autorewrite with heap. Qed.
  Lemma hmin_set_parent (h : heap) i v j : hmin (set_parent h i v) j = hmin h j.
  Proof. unfold hmin. now autorewrite with heap. Qed.
  Hint Rewrite hmin_set_max hmin_set_red hmin_set_left hmin_set_right hmin_set_parent : heap.

  Lemma lrot_facts (h : heap) root x h' root' :
    left_rotate h root x = Some (h', root') ->
    hright h x <> x -> hleft h (hright h x) <> x -> hleft h (hright h x) <> hright h x ->
    hparent h x <> x -> hparent h x <> hright h x ->
    (hleft h (hright h x) = hparent h x -> hparent h x = NIL) ->
    x <> NIL /\ hright h x <> NIL /\
    root' = (if hparent h x =? NIL then hright h x else root) /\
    hleft h' x = hleft h x /\ hright h' x = hleft h (hright h x) /\ hparent h' x = hright h x /\
    hleft h' (hright h x) = x /\ hright h' (hright h x) = hright h (hright h x) /\
    hparent h' (hright h x) = hparent h x /\
    (hleft h (hright h x) <> NIL ->
       hparent h' (hleft h (hright h x)) = x /\
       hleft h' (hleft h (hright h x)) = hleft h (hleft h (hright h x)) /\
       hright h' (hleft h (hright h x)) = hright h (hleft h (hright h x))) /\
    (hparent h x <> NIL ->
       hparent h' (hparent h x) = hparent h (hparent h x) /\
       (hleft h (hparent h x) = x ->
          hleft h' (hparent h x) = hright h x /\ hright h' (hparent h x) = hright h (hparent h x)) /\
       (hleft h (hparent h x) <> x ->
          hright h' (hparent h x) = hright h x /\ hleft h' (hparent h x) = hleft h (hparent h x))) /\
    (forall j, j <> x -> j <> hright h x -> j <> hleft h (hright h x) -> j <> hparent h x -> same_ptrs h h' j) /\
    (forall j, hkey h' j = hkey h j /\ hval h' j = hval h j /\ hred h' j = hred h j) /\
    (forall j, j <> x -> j <> hright h x -> hmax h' j = hmax h j) /\
    hmax h' x = rval (hmax h (hleft h x)) (hmax h (hleft h (hright h x))) (hmin h x) /\
    hmax h' (hright h x) =
      rval (rval (hmax h (hleft h x)) (hmax h (hleft h (hright h x))) (hmin h x))
           (hmax h (hright h (hright h x))) (hmin h (hright h x)).
  Proof.
    unfold left_rotate. intros H N1 N2 N3 N4 N5 N6.
    destruct (x =? NIL) eqn:Ex; [discriminate|]. destruct (hright h x =? NIL) eqn:Ey; [discriminate|].
    apply Z.eqb_neq in Ex, Ey. cbn [orb] in H.
    injection H as <- <-. unfold refresh.
    split; [exact Ex|]. split; [exact Ey|].
    assert (Hroot : forall (hh : heap), snd (if hparent h x =? NIL then (hh, hright h x)
                 else if x =? hleft h (hparent h x) then (set_left hh (hparent h x) (hright h x), root)
                      else (set_right hh (hparent h x) (hright h x), root)) =
                 (if hparent h x =? NIL then hright h x else root)).
    { intros hh. destruct (hparent h x =? NIL); [reflexivity|]. destruct (x =? hleft h (hparent h x)); reflexivity. }
    split. { hs. apply Hroot. }
    Time split. { hfin. }
    Time split. { hfin. }
    Time split. { hfin. }
    Time split. { hfin. }
    Time split. { hfin. }
    Time split. { hfin. }
    Time split. { intros Hn. repeat split; hfin. }
    Time split. { intros Hn. split; [hfin|]. split; intros Hl; split; hfin. }
    Time split. { intros j J1 J2 J3 J4. unfold same_ptrs. repeat split; hfin. }
    Time split. { intros j. repeat split; hfin. }
    Time split. { intros j J1 J2. hfin. }
    unfold rval. split; hfin.
  Qed.
End Rot.
