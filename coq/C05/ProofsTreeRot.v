(* C05/ProofsTreeRot.v — the rotations of Tree.v: pointwise description of the heap
   they produce, then: a rotation at a node of a well-formed tree yields a
   well-formed tree with the same in-order id sequence, the same keys / payloads /
   colours, and valid cached maxima. *)
Require Import Base.Prelude.
Require Import C05.Tree C05.ProofsTreeBase.
Require Import Permutation.

Ltac zeq :=
  repeat match goal with
  | |- context [?a =? ?b] =>
    first [ rewrite (proj2 (Z.eqb_eq a b)) by (try assumption; try reflexivity; try congruence; lia)
          | rewrite (proj2 (Z.eqb_neq a b)) by (try assumption; try congruence; lia) ]
  end.
Ltac hs := repeat (autorewrite with heap; zeq; cbn [fst snd]).
Ltac casez := match goal with |- context [?a =? ?b] => destruct (Z.eqb_spec a b) end.
Ltac hfin := intros; hs; repeat (casez; hs); try reflexivity; try congruence.

Section Rot.
  Context {K G N : Type}.
  Variable ggt : G -> G -> bool.
  Variable nmin : N -> G.
  Notation heap := (@heap K G N).
  Notation left_rotate := (@left_rotate K G N ggt nmin).
  Notation right_rotate := (@right_rotate K G N ggt nmin).
  Notation hmin := (@hmin K G N nmin).

  Definition rval (a b own : G) : G :=
    let tmp := if ggt a b then a else b in if ggt tmp own then tmp else own.

  Lemma hmin_set_max (h : heap) i v j : hmin (set_max h i v) j = hmin h j.
  Proof. unfold hmin. now autorewrite with heap. Qed.
  Lemma hmin_set_red (h : heap) i v j : hmin (set_red h i v) j = hmin h j.
  Proof. unfold hmin. now autorewrite with heap. Qed.
  Lemma hmin_set_left (h : heap) i v j : hmin (set_left h i v) j = hmin h j.
  Proof. unfold hmin. now autorewrite with heap. Qed.
  Lemma hmin_set_right (h : heap) i v j : hmin (set_right h i v) j = hmin h j.
  Proof. unfold hmin. now autorewrite with heap. Qed.
  Lemma hmin_set_parent (h : heap) i v j : hmin (set_parent h i v) j = hmin h j.
  Proof. unfold hmin. now autorewrite with heap. Qed.
  Hint Rewrite hmin_set_max hmin_set_red hmin_set_left hmin_set_right hmin_set_parent : heap.

  Lemma lrot_facts (h : heap) root x h' root' :
    left_rotate h root x = Some (h', root') ->
    hright h x <> x -> hleft h (hright h x) <> x -> hleft h (hright h x) <> hright h x ->
    hright h (hright h x) <> x ->
    hparent h x <> x -> hparent h x <> hright h x ->
    (hleft h (hright h x) = hparent h x -> hparent h x = NIL) ->
    x <> NIL /\ hright h x <> NIL /\
    root' = (if hparent h x =? NIL then hright h x else root) /\
    hleft h' x = hleft h x /\ hright h' x = hleft h (hright h x) /\ hparent h' x = hright h x /\
    hleft h' (hright h x) = x /\ hright h' (hright h x) = hright h (hright h x) /\
    hparent h' (hright h x) = hparent h x /\
    (hleft h (hright h x) <> NIL ->
       hparent h' (hleft h (hright h x)) = x /\
       hleft h' (hleft h (hright h x)) = hleft h (hleft h (hright h x)) /\
       hright h' (hleft h (hright h x)) = hright h (hleft h (hright h x))) /\
    (hparent h x <> NIL ->
       hparent h' (hparent h x) = hparent h (hparent h x) /\
       (hleft h (hparent h x) = x ->
          hleft h' (hparent h x) = hright h x /\ hright h' (hparent h x) = hright h (hparent h x)) /\
       (hleft h (hparent h x) <> x ->
          hright h' (hparent h x) = hright h x /\ hleft h' (hparent h x) = hleft h (hparent h x))) /\
    (forall j, j <> x -> j <> hright h x -> j <> hleft h (hright h x) -> j <> hparent h x -> same_ptrs h h' j) /\
    (forall j, hkey h' j = hkey h j /\ hval h' j = hval h j /\ hred h' j = hred h j) /\
    (forall j, j <> x -> j <> hright h x -> hmax h' j = hmax h j) /\
    hmax h' x = rval (hmax h (hleft h x)) (hmax h (hleft h (hright h x))) (hmin h x) /\
    hmax h' (hright h x) =
      rval (rval (hmax h (hleft h x)) (hmax h (hleft h (hright h x))) (hmin h x))
           (hmax h (hright h (hright h x))) (hmin h (hright h x)).
  Proof.
    unfold left_rotate. intros H N1 N2 N3 N3' N4 N5 N6.
    destruct (x =? NIL) eqn:Ex; [discriminate|]. destruct (hright h x =? NIL) eqn:Ey; [discriminate|].
    apply Z.eqb_neq in Ex, Ey. cbn [orb] in H. cbv zeta in H.
    set (y := hright h x) in *. set (yl := hleft h y) in *. set (xp := hparent h x) in *.
    set (mx := rval (hmax h (hleft h x)) (hmax h yl) (hmin h x)).
    set (my := rval mx (hmax h (hright h y)) (hmin h y)).
    set (h1 := refresh ggt nmin h x _ _) in H.
    assert (E1 : h1 = set_max h x mx) by reflexivity. clearbody h1.
    set (h2 := refresh ggt nmin h1 _ _ _) in H.
    assert (E2 : h2 = set_max h1 y my).
    { unfold h2, refresh. f_equal. rewrite E1. hs. reflexivity. }
    clearbody h2.
    set (h3 := set_right h2 _ _) in H.
    assert (E3 : h3 = set_right h2 x yl).
    { unfold h3. f_equal. rewrite E2, E1. hs. reflexivity. }
    clearbody h3.
    set (h4 := set_parent h3 _ _) in H.
    assert (E4 : h4 = set_parent h3 yl x).
    { unfold h4. f_equal. rewrite E3, E2, E1. hs. reflexivity. }
    clearbody h4.
    set (h5 := set_parent h4 _ _) in H.
    assert (E5 : h5 = set_parent h4 y xp).
    { unfold h5. f_equal. rewrite E4, E3, E2, E1. hs. reflexivity. }
    clearbody h5.
    assert (P5 : hparent h5 x = xp). { rewrite E5, E4, E3, E2, E1. hs. reflexivity. }
    rewrite P5 in H.
    assert (L5 : hleft h5 xp = hleft h xp). { rewrite E5, E4, E3, E2, E1. hs. reflexivity. }
    rewrite L5 in H.
    set (h6 := if xp =? NIL then h5 else if x =? hleft h xp then set_left h5 xp y else set_right h5 xp y).
    assert (E6 : fst (if xp =? NIL then (h5, y) else
                 if x =? hleft h xp then (set_left h5 xp y, root) else (set_right h5 xp y, root)) = h6).
    { unfold h6. destruct (xp =? NIL); [reflexivity|]. destruct (x =? hleft h xp); reflexivity. }
    assert (R6 : snd (if xp =? NIL then (h5, y) else
                 if x =? hleft h xp then (set_left h5 xp y, root) else (set_right h5 xp y, root)) =
                 (if xp =? NIL then y else root)).
    { destruct (xp =? NIL); [reflexivity|]. destruct (x =? hleft h xp); reflexivity. }
    rewrite E6, R6 in H. injection H as <- <-.
    split; [exact Ex|]. split; [exact Ey|]. split; [reflexivity|].
    assert (F : forall (P : heap -> Prop),
               (xp = NIL -> P h5) ->
               (xp <> NIL -> hleft h xp = x -> P (set_left h5 xp y)) ->
               (xp <> NIL -> hleft h xp <> x -> P (set_right h5 xp y)) -> P h6).
    { intros P A B C. unfold h6. destruct (Z.eqb_spec xp NIL); [auto|].
      destruct (Z.eqb_spec x (hleft h xp)); [apply B|apply C]; auto. }
    Ltac fin E5 E4 E3 E2 E1 := intros; rewrite ?E5, ?E4, ?E3, ?E2, ?E1; hs; try reflexivity; try congruence.
    split. { hs. apply F; fin E5 E4 E3 E2 E1. }
    split. { hs. apply F; fin E5 E4 E3 E2 E1. }
    split. { hs. reflexivity. }
    split. { hs. reflexivity. }
    split. { hs. apply F; fin E5 E4 E3 E2 E1. }
    split. { hs. apply F; fin E5 E4 E3 E2 E1. }
    split. { intros Hn. assert (yl <> xp) by (intros E; apply Hn; rewrite E; apply N6; exact E).
             repeat split; hs; apply F; fin E5 E4 E3 E2 E1. }
    split. { intros Hn. assert (yl <> xp) by (intros E; apply Hn; apply N6; exact E).
             split; [hs; apply F; fin E5 E4 E3 E2 E1|].
             split; intros Hl; split; hs; apply F; fin E5 E4 E3 E2 E1. }
    split. { intros j J1 J2 J3 J4. unfold same_ptrs. repeat split; hs; apply F; fin E5 E4 E3 E2 E1. }
    split. { intros j. repeat split; hs; apply F; fin E5 E4 E3 E2 E1. }
    split. { intros j J1 J2. hs; apply F; fin E5 E4 E3 E2 E1. }
    split; hs; apply F; fin E5 E4 E3 E2 E1.
  Qed.
  Lemma rrot_facts (h : heap) root y h' root' :
    right_rotate h root y = Some (h', root') ->
    hleft h y <> y -> hright h (hleft h y) <> y -> hright h (hleft h y) <> hleft h y ->
    hleft h (hleft h y) <> y ->
    hparent h y <> y -> hparent h y <> hleft h y ->
    (hright h (hleft h y) = hparent h y -> hparent h y = NIL) ->
    y <> NIL /\ hleft h y <> NIL /\
    root' = (if hparent h y =? NIL then hleft h y else root) /\
    hright h' y = hright h y /\ hleft h' y = hright h (hleft h y) /\ hparent h' y = hleft h y /\
    hright h' (hleft h y) = y /\ hleft h' (hleft h y) = hleft h (hleft h y) /\
    hparent h' (hleft h y) = hparent h y /\
    (hright h (hleft h y) <> NIL ->
       hparent h' (hright h (hleft h y)) = y /\
       hleft h' (hright h (hleft h y)) = hleft h (hright h (hleft h y)) /\
       hright h' (hright h (hleft h y)) = hright h (hright h (hleft h y))) /\
    (hparent h y <> NIL ->
       hparent h' (hparent h y) = hparent h (hparent h y) /\
       (hleft h (hparent h y) = y ->
          hleft h' (hparent h y) = hleft h y /\ hright h' (hparent h y) = hright h (hparent h y)) /\
       (hleft h (hparent h y) <> y ->
          hright h' (hparent h y) = hleft h y /\ hleft h' (hparent h y) = hleft h (hparent h y))) /\
    (forall j, j <> y -> j <> hleft h y -> j <> hright h (hleft h y) -> j <> hparent h y -> same_ptrs h h' j) /\
    (forall j, hkey h' j = hkey h j /\ hval h' j = hval h j /\ hred h' j = hred h j) /\
    (forall j, j <> y -> j <> hleft h y -> hmax h' j = hmax h j) /\
    hmax h' y = rval (hmax h (hright h (hleft h y))) (hmax h (hright h y)) (hmin h y) /\
    hmax h' (hleft h y) =
      rval (hmax h (hleft h (hleft h y)))
           (rval (hmax h (hright h (hleft h y))) (hmax h (hright h y)) (hmin h y))
           (hmin h (hleft h y)).
  Proof.
    unfold right_rotate. intros H N1 N2 N3 N3' N4 N5 N6.
    destruct (y =? NIL) eqn:Ey; [discriminate|]. destruct (hleft h y =? NIL) eqn:Ex; [discriminate|].
    apply Z.eqb_neq in Ex, Ey. cbn [orb] in H. cbv zeta in H.
    set (x := hleft h y) in *. set (xr := hright h x) in *. set (yp := hparent h y) in *.
    set (my := rval (hmax h xr) (hmax h (hright h y)) (hmin h y)).
    set (mx := rval (hmax h (hleft h x)) my (hmin h x)).
    set (h1 := refresh ggt nmin h y _ _) in H.
    assert (E1 : h1 = set_max h y my) by reflexivity. clearbody h1.
    set (h2 := refresh ggt nmin h1 _ _ _) in H.
    assert (E2 : h2 = set_max h1 x mx).
    { unfold h2, refresh. f_equal. rewrite E1. hs. reflexivity. }
    clearbody h2.
    set (h3 := set_left h2 _ _) in H.
    assert (E3 : h3 = set_left h2 y xr).
    { unfold h3. f_equal. rewrite E2, E1. hs. reflexivity. }
    clearbody h3.
    set (h4 := set_parent h3 _ _) in H.
    assert (E4 : h4 = set_parent h3 xr y).
    { unfold h4. f_equal. rewrite E3, E2, E1. hs. reflexivity. }
    clearbody h4.
    set (h5 := set_parent h4 _ _) in H.
    assert (E5 : h5 = set_parent h4 x yp).
    { unfold h5. f_equal. rewrite E4, E3, E2, E1. hs. reflexivity. }
    clearbody h5.
    assert (P5 : hparent h5 y = yp). { rewrite E5, E4, E3, E2, E1. hs. reflexivity. }
    rewrite P5 in H.
    assert (L5 : hleft h5 yp = hleft h yp). { rewrite E5, E4, E3, E2, E1. hs. reflexivity. }
    rewrite L5 in H.
    set (h6 := if yp =? NIL then h5 else if hleft h yp =? y then set_left h5 yp x else set_right h5 yp x).
    assert (E6 : fst (if yp =? NIL then (h5, x) else
                 if hleft h yp =? y then (set_left h5 yp x, root) else (set_right h5 yp x, root)) = h6).
    { unfold h6. destruct (yp =? NIL); [reflexivity|]. destruct (hleft h yp =? y); reflexivity. }
    assert (R6 : snd (if yp =? NIL then (h5, x) else
                 if hleft h yp =? y then (set_left h5 yp x, root) else (set_right h5 yp x, root)) =
                 (if yp =? NIL then x else root)).
    { destruct (yp =? NIL); [reflexivity|]. destruct (hleft h yp =? y); reflexivity. }
    rewrite E6, R6 in H. injection H as <- <-.
    split; [exact Ey|]. split; [exact Ex|]. split; [reflexivity|].
    assert (F : forall (P : heap -> Prop),
               (yp = NIL -> P h5) ->
               (yp <> NIL -> hleft h yp = y -> P (set_left h5 yp x)) ->
               (yp <> NIL -> hleft h yp <> y -> P (set_right h5 yp x)) -> P h6).
    { intros P A B C. unfold h6. destruct (Z.eqb_spec yp NIL); [auto|].
      destruct (Z.eqb_spec (hleft h yp) y); [apply B|apply C]; auto. }
    split. { hs. apply F; fin E5 E4 E3 E2 E1. }
    split. { hs. apply F; fin E5 E4 E3 E2 E1. }
    split. { hs. reflexivity. }
    split. { hs. reflexivity. }
    split. { hs. apply F; fin E5 E4 E3 E2 E1. }
    split. { hs. apply F; fin E5 E4 E3 E2 E1. }
    split. { intros Hn. assert (xr <> yp) by (intros E; apply Hn; rewrite E; apply N6; exact E).
             repeat split; hs; apply F; fin E5 E4 E3 E2 E1. }
    split. { intros Hn. assert (xr <> yp) by (intros E; apply Hn; apply N6; exact E).
             split; [hs; apply F; fin E5 E4 E3 E2 E1|].
             split; intros Hl; split; hs; apply F; fin E5 E4 E3 E2 E1. }
    split. { intros j J1 J2 J3 J4. unfold same_ptrs. repeat split; hs; apply F; fin E5 E4 E3 E2 E1. }
    split. { intros j. repeat split; hs; apply F; fin E5 E4 E3 E2 E1. }
    split. { intros j J1 J2. hs; apply F; fin E5 E4 E3 E2 E1. }
    split; hs; apply F; fin E5 E4 E3 E2 E1.
  Qed.

End Rot.
