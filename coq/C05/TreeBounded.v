(* C05/TreeBounded.v — bounded-exhaustive comparison of the concrete red-black tree
   model (Tree.v) with the abstract status structure (Sweep.v) on an exact integer
   instance: keys, gradients = Z; a node's payload is its (constant) gradient, so
   min3 = interpolated gradient = the payload.  Definitions, the soundness of the
   depth-first exploration, and the vm_compute run. *)
Require Import Base.Prelude.
Require Import C05.Sweep C05.Tree.

Definition zgt' (a b : Z) : bool := b <? a.
Definition zsmall : Z := -100.
Definition zcon (n : Z) (a : unit) : option Z := Some n.

Definition zc_step := @c_step unit Z Z Z Z.ltb zgt' (fun n => n) zcon zsmall.
(* the same with the delete loops as they were before the fix e4337e3 *)
Definition zc_step_prefix := @c_step_prefix unit Z Z Z Z.ltb zgt' Z.eqb (fun n => n) zcon zsmall.
Definition zc_init : @cstate Z Z Z := c_init zsmall 0 zsmall 64.
Definition zstatus := @status Z Z.

(* operations of the bounded domain *)
Inductive zop := ZI (k v : Z) | ZD (k : Z).

Definition bkeys : list Z := [1; 2; 3; 4; 5].
Definition bvals : list Z := [0; 1].
Definition bqueries : list (Z * Z) :=
  flat_map (fun k => map (fun g => (k, g)) [-1; 0]) (bkeys ++ [6]).
Definition alphabet : list zop :=
  flat_map (fun k => map (fun v => ZI k v) bvals) bkeys ++ map ZD bkeys.

(* in-order ids of the concrete tree (links followed from the root) *)
Fixpoint inord (fuel : nat) (h : @heap Z Z Z) (p : Z) : list Z :=
  if p =? NIL then []
  else match fuel with
       | O => []
       | S f => inord f h (hleft h p) ++ p :: inord f h (hright h p)
       end.
Definition c_abs (s : @cstate Z Z Z) : list (Z * Z) :=
  let h := th (c_tree s) in
  map (fun i => (hkey h i, hval h i)) (inord (c_fuel s) h (troot (c_tree s))).

Fixpoint ins_sorted (kn : Z * Z) (l : list (Z * Z)) : list (Z * Z) :=
  match l with
  | [] => [kn]
  | x :: r => if fst kn <? fst x then kn :: l else x :: ins_sorted kn r
  end.
Definition sort_status (st : zstatus) : list (Z * Z) := fold_right ins_sorted [] st.

Fixpoint eq_kn (a b : list (Z * Z)) : bool :=
  match a, b with
  | [], [] => true
  | (k, n) :: a', (k', n') :: b' => (k =? k') && (n =? n') && eq_kn a' b'
  | _, _ => false
  end.

(* the state check: the in-order (key, payload) sequence of the concrete tree is the
   dummy root followed by the abstract status sorted by key, and every query of the
   domain gets the abstract answer (visible = not (max > g)) *)
Definition state_ok (cs : @cstate Z Z Z) (st : zstatus) : bool :=
  eq_kn (c_abs cs) ((0, zsmall) :: sort_status st) &&
  forallb (fun kg =>
    match fst (zc_step cs (CQ (fst kg) tt (snd kg))) with
    | RQry m => Bool.eqb (negb (zgt' m (snd kg)))
                         (visible_q Z.ltb zgt' (fun n => n) zcon st (fst kg) tt (snd kg))
    | _ => false
    end) bqueries.

(* one update on both sides; None = the abstract structure refuses the operation
   (duplicate key / absent key: the sequence leaves the modelled domain) — the
   concrete tree must then refuse an absent key too *)
Definition both_step (cs : @cstate Z Z Z) (st : zstatus) (o : zop)
  : bool * option (@cstate Z Z Z * zstatus) :=
  match o with
  | ZI k v =>
    match st_insert Z.ltb k v st with
    | inl _ => (true, None)
    | inr st' =>
      match zc_step cs (CI k v) with
      | (RIns _, cs') => (true, Some (cs', st'))
      | _ => (false, None)
      end
    end
  | ZD k =>
    match del_key Z.ltb k st with
    | None => (match fst (zc_step cs (CD k)) with RNotFound => true | _ => false end, None)
    | Some st' =>
      match zc_step cs (CD k) with
      | (RDel _ _, cs') => (true, Some (cs', st'))
      | _ => (false, None)
      end
    end
  end.

(* the sequential checker: the statement of the bounded theorem *)
Fixpoint refines_run (cs : @cstate Z Z Z) (st : zstatus) (ops : list zop) : bool :=
  state_ok cs st &&
  match ops with
  | [] => true
  | o :: r =>
    match both_step cs st o with
    | (ok, None) => ok
    | (ok, Some (cs', st')) => ok && refines_run cs' st' r
    end
  end.

(* depth-first exploration of every sequence over the alphabet *)
Fixpoint explore (d : nat) (cs : @cstate Z Z Z) (st : zstatus) : bool :=
  state_ok cs st &&
  match d with
  | O => true
  | S d' =>
    forallb (fun o =>
      match both_step cs st o with
      | (ok, None) => ok
      | (ok, Some (cs', st')) => ok && explore d' cs' st'
      end) alphabet
  end.

Lemma explore_sound d : forall cs st, explore d cs st = true ->
  forall ops, (length ops <= d)%nat -> Forall (fun o => In o alphabet) ops ->
  refines_run cs st ops = true.
Proof.
  induction d as [|d IH]; intros cs st H ops Hl Hin.
  - destruct ops; [|simpl in Hl; lia]. cbn [explore refines_run] in *. exact H.
  - cbn [explore] in H. apply andb_true_iff in H. destruct H as [Hs Hf].
    destruct ops as [|o r]; cbn [refines_run]; rewrite Hs; [reflexivity|]. cbn [andb].
    inversion Hin as [|? ? Ho Hr]; subst.
    rewrite forallb_forall in Hf. specialize (Hf o Ho).
    destruct (both_step cs st o) as [ok [[cs' st']|]]; [|exact Hf].
    apply andb_true_iff in Hf. destruct Hf as [-> Hf]. simpl.
    apply IH; auto. simpl in Hl. lia.
Qed.

Definition BOUND : nat := 6.

Lemma explore_small : explore BOUND zc_init [] = true.
Proof. vm_cast_no_check (eq_refl true). Qed.

Lemma in_alphabet o :
  match o with
  | ZI k v => 1 <= k <= 5 /\ 0 <= v <= 1
  | ZD k => 1 <= k <= 5
  end -> In o alphabet.
Proof.
  destruct o as [k v|k]; intros H.
  - assert (Hk : k = 1 \/ k = 2 \/ k = 3 \/ k = 4 \/ k = 5) by lia.
    assert (Hv : v = 0 \/ v = 1) by lia.
    destruct Hk as [->|[->|[->|[->| ->]]]]; destruct Hv as [->| ->]; vm_compute; tauto.
  - assert (Hk : k = 1 \/ k = 2 \/ k = 3 \/ k = 4 \/ k = 5) by lia.
    destruct Hk as [->|[->|[->|[->| ->]]]]; vm_compute; tauto.
Qed.

Lemma bounded_refines : forall ops : list zop,
  (length ops <= 6)%nat ->
  Forall (fun o => match o with
                   | ZI k v => 1 <= k <= 5 /\ 0 <= v <= 1
                   | ZD k => 1 <= k <= 5
                   end) ops ->
  refines_run zc_init [] ops = true.
Proof.
  intros ops Hl Hd. apply (explore_sound BOUND); [apply explore_small|exact Hl|].
  eapply Forall_impl; [|exact Hd]. intros o. apply in_alphabet.
Qed.
