(* C05/ProofsTreeBase.v — the heap laws of Tree.v, tree shapes, the representation
   predicate Rep (the node array encodes a binary tree with consistent parent
   pointers), one-hole contexts (zippers) and the frame lemmas. *)
Require Import Base.Prelude.
Require Import FMapPositive.
Require Import C05.Tree.
Require Import Permutation.

Lemma zkey_inj a b : zkey a = zkey b -> a = b.
Proof. destruct a, b; simpl; intros H; try discriminate; try reflexivity; inversion H; reflexivity. Qed.

Section Heap.
  Context {K G N : Type}.
  Notation heap := (@heap K G N).
  Notation tnode := (@tnode K G N).

  Lemma hget_hset (h : heap) i n j : hget (hset h i n) j = if i =? j then n else hget h j.
  Proof.
    unfold hget, hset; simpl.
    destruct (Z.eqb_spec i j) as [->|Hne].
    - now rewrite PositiveMap.gss.
    - rewrite PositiveMap.gso; [reflexivity|]. intros E. apply zkey_inj in E. congruence.
  Qed.

  Ltac acc_set :=
    unfold hkey, hval, hmax, hred, hleft, hright, hparent, set_max, set_red, set_left, set_right, set_parent, set_kv;
    rewrite hget_hset;
    match goal with |- context [?i =? ?j] => destruct (Z.eqb_spec i j) as [->|] end; reflexivity.

  Lemma hkey_set_max (h : heap) i v j : hkey (set_max h i v) j = hkey h j.
  Proof. acc_set. Qed.
  Lemma hval_set_max (h : heap) i v j : hval (set_max h i v) j = hval h j.
  Proof. acc_set. Qed.
  Lemma hmax_set_max (h : heap) i v j : hmax (set_max h i v) j = if i =? j then v else hmax h j.
  Proof. acc_set. Qed.
  Lemma hred_set_max (h : heap) i v j : hred (set_max h i v) j = hred h j.
  Proof. acc_set. Qed.
  Lemma hleft_set_max (h : heap) i v j : hleft (set_max h i v) j = hleft h j.
  Proof. acc_set. Qed.
  Lemma hright_set_max (h : heap) i v j : hright (set_max h i v) j = hright h j.
  Proof. acc_set. Qed.
  Lemma hparent_set_max (h : heap) i v j : hparent (set_max h i v) j = hparent h j.
  Proof. acc_set. Qed.
  Lemma hkey_set_red (h : heap) i v j : hkey (set_red h i v) j = hkey h j.
  Proof. acc_set. Qed.
  Lemma hval_set_red (h : heap) i v j : hval (set_red h i v) j = hval h j.
  Proof. acc_set. Qed.
  Lemma hmax_set_red (h : heap) i v j : hmax (set_red h i v) j = hmax h j.
  Proof. acc_set. Qed.
  Lemma hred_set_red (h : heap) i v j : hred (set_red h i v) j = if i =? j then v else hred h j.
  Proof. acc_set. Qed.
  Lemma hleft_set_red (h : heap) i v j : hleft (set_red h i v) j = hleft h j.
  Proof. acc_set. Qed.
  Lemma hright_set_red (h : heap) i v j : hright (set_red h i v) j = hright h j.
  Proof. acc_set. Qed.
  Lemma hparent_set_red (h : heap) i v j : hparent (set_red h i v) j = hparent h j.
  Proof. acc_set. Qed.
  Lemma hkey_set_left (h : heap) i v j : hkey (set_left h i v) j = hkey h j.
  Proof. acc_set. Qed.
  Lemma hval_set_left (h : heap) i v j : hval (set_left h i v) j = hval h j.
  Proof. acc_set. Qed.
  Lemma hmax_set_left (h : heap) i v j : hmax (set_left h i v) j = hmax h j.
  Proof. acc_set. Qed.
  Lemma hred_set_left (h : heap) i v j : hred (set_left h i v) j = hred h j.
  Proof. acc_set. Qed.
  Lemma hleft_set_left (h : heap) i v j : hleft (set_left h i v) j = if i =? j then v else hleft h j.
  Proof. acc_set. Qed.
  Lemma hright_set_left (h : heap) i v j : hright (set_left h i v) j = hright h j.
  Proof. acc_set. Qed.
  Lemma hparent_set_left (h : heap) i v j : hparent (set_left h i v) j = hparent h j.
  Proof. acc_set. Qed.
  Lemma hkey_set_right (h : heap) i v j : hkey (set_right h i v) j = hkey h j.
  Proof. acc_set. Qed.
  Lemma hval_set_right (h : heap) i v j : hval (set_right h i v) j = hval h j.
  Proof. acc_set. Qed.
  Lemma hmax_set_right (h : heap) i v j : hmax (set_right h i v) j = hmax h j.
  Proof. acc_set. Qed.
  Lemma hred_set_right (h : heap) i v j : hred (set_right h i v) j = hred h j.
  Proof. acc_set. Qed.
  Lemma hleft_set_right (h : heap) i v j : hleft (set_right h i v) j = hleft h j.
  Proof. acc_set. Qed.
  Lemma hright_set_right (h : heap) i v j : hright (set_right h i v) j = if i =? j then v else hright h j.
  Proof. acc_set. Qed.
  Lemma hparent_set_right (h : heap) i v j : hparent (set_right h i v) j = hparent h j.
  Proof. acc_set. Qed.
  Lemma hkey_set_parent (h : heap) i v j : hkey (set_parent h i v) j = hkey h j.
  Proof. acc_set. Qed.
  Lemma hval_set_parent (h : heap) i v j : hval (set_parent h i v) j = hval h j.
  Proof. acc_set. Qed.
  Lemma hmax_set_parent (h : heap) i v j : hmax (set_parent h i v) j = hmax h j.
  Proof. acc_set. Qed.
  Lemma hred_set_parent (h : heap) i v j : hred (set_parent h i v) j = hred h j.
  Proof. acc_set. Qed.
  Lemma hleft_set_parent (h : heap) i v j : hleft (set_parent h i v) j = hleft h j.
  Proof. acc_set. Qed.
  Lemma hright_set_parent (h : heap) i v j : hright (set_parent h i v) j = hright h j.
  Proof. acc_set. Qed.
  Lemma hparent_set_parent (h : heap) i v j : hparent (set_parent h i v) j = if i =? j then v else hparent h j.
  Proof. acc_set. Qed.
  Lemma hkey_set_kv (h : heap) i k v j : hkey (set_kv h i k v) j = if i =? j then k else hkey h j.
  Proof. acc_set. Qed.
  Lemma hval_set_kv (h : heap) i k v j : hval (set_kv h i k v) j = if i =? j then v else hval h j.
  Proof. acc_set. Qed.
  Lemma hmax_set_kv (h : heap) i k v j : hmax (set_kv h i k v) j = hmax h j.
  Proof. acc_set. Qed.
  Lemma hred_set_kv (h : heap) i k v j : hred (set_kv h i k v) j = hred h j.
  Proof. acc_set. Qed.
  Lemma hleft_set_kv (h : heap) i k v j : hleft (set_kv h i k v) j = hleft h j.
  Proof. acc_set. Qed.
  Lemma hright_set_kv (h : heap) i k v j : hright (set_kv h i k v) j = hright h j.
  Proof. acc_set. Qed.
  Lemma hparent_set_kv (h : heap) i k v j : hparent (set_kv h i k v) j = hparent h j.
  Proof. acc_set. Qed.
  Lemma hkey_hset (h : heap) i n j : hkey (hset h i n) j = if i =? j then t_key n else hkey h j.
  Proof. acc_set. Qed.
  Lemma hval_hset (h : heap) i n j : hval (hset h i n) j = if i =? j then t_val n else hval h j.
  Proof. acc_set. Qed.
  Lemma hmax_hset (h : heap) i n j : hmax (hset h i n) j = if i =? j then t_max n else hmax h j.
  Proof. acc_set. Qed.
  Lemma hred_hset (h : heap) i n j : hred (hset h i n) j = if i =? j then t_red n else hred h j.
  Proof. acc_set. Qed.
  Lemma hleft_hset (h : heap) i n j : hleft (hset h i n) j = if i =? j then t_left n else hleft h j.
  Proof. acc_set. Qed.
  Lemma hright_hset (h : heap) i n j : hright (hset h i n) j = if i =? j then t_right n else hright h j.
  Proof. acc_set. Qed.
  Lemma hparent_hset (h : heap) i n j : hparent (hset h i n) j = if i =? j then t_parent n else hparent h j.
  Proof. acc_set. Qed.
End Heap.

#[global] Hint Rewrite @hkey_set_max @hval_set_max @hmax_set_max @hred_set_max @hleft_set_max @hright_set_max @hparent_set_max @hkey_set_red @hval_set_red @hmax_set_red @hred_set_red @hleft_set_red @hright_set_red @hparent_set_red @hkey_set_left @hval_set_left @hmax_set_left @hred_set_left @hleft_set_left @hright_set_left @hparent_set_left @hkey_set_right @hval_set_right @hmax_set_right @hred_set_right @hleft_set_right @hright_set_right @hparent_set_right @hkey_set_parent @hval_set_parent @hmax_set_parent @hred_set_parent @hleft_set_parent @hright_set_parent @hparent_set_parent @hkey_set_kv @hkey_hset @hval_set_kv @hval_hset @hmax_set_kv @hmax_hset @hred_set_kv @hred_hset @hleft_set_kv @hleft_hset @hright_set_kv @hright_hset @hparent_set_kv @hparent_hset : heap.

(* ---- shapes ---- *)
Inductive shape := L | Nd (l : shape) (i : Z) (r : shape).
Fixpoint ids (s : shape) : list Z :=
  match s with L => [] | Nd l i r => ids l ++ i :: ids r end.

Inductive ctx := Top | CL (c : ctx) (i : Z) (r : shape) | CR (c : ctx) (l : shape) (i : Z).
Fixpoint plug (c : ctx) (s : shape) : shape :=
  match c with
  | Top => s
  | CL c' i r => plug c' (Nd s i r)
  | CR c' l i => plug c' (Nd l i s)
  end.
Definition cpar (c : ctx) : Z := match c with Top => NIL | CL _ i _ => i | CR _ _ i => i end.
Fixpoint cbefore (c : ctx) : list Z :=
  match c with Top => [] | CL c' _ _ => cbefore c' | CR c' l i => cbefore c' ++ ids l ++ [i] end.
Fixpoint cafter (c : ctx) : list Z :=
  match c with Top => [] | CL c' i r => i :: ids r ++ cafter c' | CR c' _ _ => cafter c' end.
(* o is the outer part *)
Fixpoint capp (o c : ctx) : ctx :=
  match c with
  | Top => o
  | CL c' i r => CL (capp o c') i r
  | CR c' l i => CR (capp o c') l i
  end.

Lemma plug_capp o c s : plug (capp o c) s = plug o (plug c s).
Proof. revert s; induction c; intros s; simpl; auto. Qed.

Lemma ids_plug c s : ids (plug c s) = cbefore c ++ ids s ++ cafter c.
Proof.
  revert s; induction c as [|c IH i r|c IH l i]; intros s; simpl.
  - now rewrite app_nil_r.
  - rewrite IH. simpl. now rewrite <- !app_assoc.
  - rewrite IH. simpl. rewrite <- !app_assoc. simpl. reflexivity.
Qed.

Lemma find_node x s : In x (ids s) -> exists c a b, s = plug c (Nd a x b).
Proof.
  induction s as [|l IHl i r IHr]; simpl; intros H; [contradiction|].
  apply in_app_or in H. destruct H as [H|[H|H]].
  - destruct (IHl H) as (c & a & b & ->). exists (capp (CL Top i r) c), a, b.
    now rewrite plug_capp.
  - subst. exists Top, l, r. reflexivity.
  - destruct (IHr H) as (c & a & b & ->). exists (capp (CR Top l i) c), a, b.
    now rewrite plug_capp.
Qed.

Section Rep.
  Context {K G N : Type}.
  Notation heap := (@heap K G N).

  Fixpoint Rep (h : heap) (p par : Z) (s : shape) : Prop :=
    match s with
    | L => p = NIL
    | Nd l i r => p = i /\ i <> NIL /\ hparent h i = par /\
                  Rep h (hleft h i) i l /\ Rep h (hright h i) i r
    end.

  Fixpoint RepC (h : heap) (c : ctx) (p root : Z) : Prop :=
    match c with
    | Top => root = p
    | CL c' i r => i <> NIL /\ hleft h i = p /\ hparent h i = cpar c' /\
                   Rep h (hright h i) i r /\ RepC h c' i root
    | CR c' l i => i <> NIL /\ hright h i = p /\ hparent h i = cpar c' /\
                   Rep h (hleft h i) i l /\ RepC h c' i root
    end.

  Lemma Rep_plug h c : forall s root,
    Rep h root NIL (plug c s) <-> exists p, RepC h c p root /\ Rep h p (cpar c) s.
  Proof.
    induction c as [|c IH i r|c IH l i]; intros s root; simpl.
    - split; [intros H; exists root; auto | intros (p & <- & H); exact H].
    - rewrite IH. simpl. split.
      + intros (p & HC & -> & Hi & Hp & Hl & Hr). exists (hleft h i). tauto.
      + intros (p & (Hi & Hl & Hp & Hr & HC) & Hs). exists i. subst p. tauto.
    - rewrite IH. simpl. split.
      + intros (p & HC & -> & Hi & Hp & Hl & Hr). exists (hright h i). tauto.
      + intros (p & (Hi & Hr & Hp & Hl & HC) & Hs). exists i. subst p. tauto.
  Qed.

  Lemma Rep_NIL_notin h p par s : Rep h p par s -> ~ In NIL (ids s).
  Proof.
    revert p par; induction s as [|l IHl i r IHr]; simpl; intros p par H; [tauto|].
    destruct H as (_ & Hi & _ & Hl & Hr). intros HI. apply in_app_or in HI.
    destruct HI as [HI|[HI|HI]]; [eapply IHl; eauto|congruence|eapply IHr; eauto].
  Qed.

  Lemma Rep_root h p par s : Rep h p par s -> p = NIL \/ In p (ids s).
  Proof. destruct s; simpl; [auto|]. intros (-> & _). right. apply in_or_app. right. now left. Qed.

  Lemma Rep_root_L h p par s : Rep h p par s -> p = NIL -> s = L.
  Proof. destruct s; simpl; [auto|]. intros (-> & Hi & _) E. congruence. Qed.

  (* same links on the ids of the shape: same representation *)
  Definition same_ptrs (h h' : heap) (j : Z) : Prop :=
    hleft h' j = hleft h j /\ hright h' j = hright h j /\ hparent h' j = hparent h j.

  Lemma Rep_ext h h' : forall s p par,
    (forall j, In j (ids s) -> same_ptrs h h' j) -> Rep h p par s -> Rep h' p par s.
  Proof.
    induction s as [|l IHl i r IHr]; simpl; intros p par Hs H; [exact H|].
    destruct H as (-> & Hi & Hp & Hl & Hr).
    destruct (Hs i) as (E1 & E2 & E3); [apply in_or_app; right; now left|].
    rewrite E1, E2, E3. repeat split; auto.
    - apply IHl; auto. intros j Hj. apply Hs. apply in_or_app. now left.
    - apply IHr; auto. intros j Hj. apply Hs. apply in_or_app. right. now right.
  Qed.

  Fixpoint cids (c : ctx) : list Z :=
    match c with Top => [] | CL c' i r => i :: ids r ++ cids c' | CR c' l i => i :: ids l ++ cids c' end.

  Lemma RepC_ext h h' : forall c p root,
    (forall j, In j (cids c) -> same_ptrs h h' j) -> RepC h c p root -> RepC h' c p root.
  Proof.
    induction c as [|c IH i r|c IH l i]; simpl; intros p root Hs H; [exact H| |].
    - destruct H as (Hi & Hl & Hp & Hr & HC).
      destruct (Hs i) as (E1 & E2 & E3); [now left|]. rewrite E1, E2, E3. repeat split; auto.
      + eapply Rep_ext; [|exact Hr]. intros j Hj. apply Hs. right. apply in_or_app. now left.
      + apply IH; auto. intros j Hj. apply Hs. right. apply in_or_app. now right.
    - destruct H as (Hi & Hl & Hp & Hr & HC).
      destruct (Hs i) as (E1 & E2 & E3); [now left|]. rewrite E1, E2, E3. repeat split; auto.
      + eapply Rep_ext; [|exact Hr]. intros j Hj. apply Hs. right. apply in_or_app. now left.
      + apply IH; auto. intros j Hj. apply Hs. right. apply in_or_app. now right.
  Qed.

  (* re-pointing the hole: the innermost frame's link to the hole (or the root
     pointer) becomes p'; everything else in the context keeps its links *)
  Lemma RepC_swap h h' c p p' root root' :
    RepC h c p root ->
    (forall j, In j (cids c) -> j <> cpar c -> same_ptrs h h' j) ->
    match c with
    | Top => root' = p'
    | CL c' i r => root' = root /\ hleft h' i = p' /\ hright h' i = hright h i /\ hparent h' i = hparent h i /\
                   ~ In i (ids r) /\ ~ In i (cids c')
    | CR c' l i => root' = root /\ hright h' i = p' /\ hleft h' i = hleft h i /\ hparent h' i = hparent h i /\
                   ~ In i (ids l) /\ ~ In i (cids c')
    end ->
    RepC h' c p' root'.
  Proof.
    intros HC Hs Hm. destruct c as [|c i r|c l i]; simpl in *.
    - exact Hm.
    - destruct HC as (Hi & Hl & Hp & Hr & HC). destruct Hm as (-> & E1 & E2 & E3 & N1 & N2).
      rewrite E1, E2, E3. repeat split; auto.
      + eapply Rep_ext; [|exact Hr]. intros j Hj. apply Hs; [right; apply in_or_app; now left|].
        intros ->. contradiction.
      + eapply RepC_ext; [|exact HC]. intros j Hj. apply Hs; [right; apply in_or_app; now right|].
        intros ->. contradiction.
    - destruct HC as (Hi & Hl & Hp & Hr & HC). destruct Hm as (-> & E1 & E2 & E3 & N1 & N2).
      rewrite E1, E2, E3. repeat split; auto.
      + eapply Rep_ext; [|exact Hr]. intros j Hj. apply Hs; [right; apply in_or_app; now left|].
        intros ->. contradiction.
      + eapply RepC_ext; [|exact HC]. intros j Hj. apply Hs; [right; apply in_or_app; now right|].
        intros ->. contradiction.
  Qed.

  Lemma cids_perm c : Permutation (cids c) (cbefore c ++ cafter c).
  Proof.
    induction c as [|c IH i r|c IH l i]; simpl.
    - constructor.
    - rewrite IH. rewrite (Permutation_app_comm (cbefore c) (i :: ids r ++ cafter c)). simpl.
      constructor. rewrite <- app_assoc. apply Permutation_app_head. apply Permutation_app_comm.
    - rewrite IH. rewrite <- !app_assoc. simpl.
      change (i :: ids l ++ cbefore c ++ cafter c) with ((i :: ids l) ++ cbefore c ++ cafter c).
      rewrite (Permutation_app_comm (i :: ids l) (cbefore c ++ cafter c)).
      rewrite <- app_assoc. apply Permutation_app_head.
      rewrite (Permutation_app_comm (cafter c) (i :: ids l)).
      change (ids l ++ i :: cafter c) with (ids l ++ [i] ++ cafter c).
      rewrite !app_assoc. apply Permutation_app_tail. apply Permutation_cons_append.
  Qed.

  Lemma cids_in c j : In j (cids c) <-> In j (cbefore c) \/ In j (cafter c).
  Proof.
    split.
    - intros H. apply in_app_or. eapply Permutation_in; [apply cids_perm|exact H].
    - intros H. eapply Permutation_in; [symmetry; apply cids_perm|]. apply in_or_app. exact H.
  Qed.

  Lemma RepC_NIL_notin h c p root : RepC h c p root -> ~ In NIL (cids c).
  Proof.
    revert p; induction c as [|c IH i r|c IH l i]; simpl; intros p H; [tauto| |];
      destruct H as (Hi & _ & _ & Hr & HC); intros [E|E]; try congruence;
      apply in_app_or in E; destruct E as [E|E];
      solve [exact (Rep_NIL_notin _ _ _ _ Hr E) | exact (IH _ HC E)].
  Qed.

  (* the context's own node is in the context, not NIL *)
  Lemma cpar_in h c p root : RepC h c p root -> c <> Top -> In (cpar c) (cids c) /\ cpar c <> NIL.
  Proof. destruct c; simpl; [congruence| |]; intros (Hi & _) _; split; auto. Qed.
End Rep.
