(* C05/Sweep.v — the radial sweep of xrspatial/viewshed.py over ABSTRACT
   angle / key / gradient / node types, with the status structure as the
   abstract finite map (list of (key, node)) the array-encoded red-black tree
   implements, and the O(n^2) reference [viewshed_spec] of the same model.
   Definitions only.  The float instance (event generation, bearings,
   gradients, interpolation, vertical angle) is Model.v. *)
Require Import Base.Prelude.

(* event types, in the numeric order np.lexsort sees them *)
Inductive ety := Exit | Centre | Enter.
Definition tnum (t : ety) : Z := match t with Exit => -1 | Centre => 0 | Enter => 1 end.

Inductive sweep_err := EDupKey | ENotFound.

Section Sweep.
  Context {A K G N V : Type}.
  Variable alt : A -> A -> bool.          (* <  on bearings *)
  Variable klt : K -> K -> bool.          (* <  on squared distances (tree keys) *)
  Variable ggt : G -> G -> bool.          (* >  on gradients *)
  Variable nmin : N -> G.                 (* min(g0,g1,g2) of a status node *)
  Variable ncontrib : N -> A -> option G. (* phase-2 value of a node at a bearing:
                                             None when the closed-span test fails *)

  (* everything the sweep needs to know about one non-observer cell *)
  Record cell := mkCell {
    cid : Z;            (* row * ncols + col *)
    c_ea : A;           (* bearing of the ENTERING event *)
    c_ca : A;           (* bearing of the CENTER event *)
    c_xa : A;           (* bearing of the EXITING event *)
    ckey : K;           (* squared distance to the observer *)
    cnode0 : N;         (* node inserted BEFORE the sweep (cells on the sweep line) *)
    cnode : N;          (* node inserted at the ENTERING event *)
    cgrad : G;          (* gradient of the cell centre (with target_elev) *)
    cout : V;           (* value written when visible (vertical angle) *)
    cinit : bool        (* starts on the sweep line: row = vp_row, col > vp_col *)
  }.

  Definition event := (ety * cell)%type.
  Definition eang (e : event) : A :=
    match fst e with Enter => c_ea (snd e) | Centre => c_ca (snd e) | Exit => c_xa (snd e) end.

  (* _init_event_list: three events per cell, in this order *)
  Definition events_of (cs : list cell) : list event :=
    flat_map (fun c => [(Enter, c); (Centre, c); (Exit, c)]) cs.

  (* np.lexsort((type, ang)): strictly-before on the key (ang, type) *)
  Definition ev_ltb (e1 e2 : event) : bool :=
    alt (eang e1) (eang e2) ||
    (negb (alt (eang e2) (eang e1)) && (tnum (fst e1) <? tnum (fst e2))).

  (* stable insertion sort: x goes in front of the first y that is not < x *)
  Fixpoint ev_ins (x : event) (l : list event) : list event :=
    match l with
    | [] => [x]
    | y :: l' => if ev_ltb y x then y :: ev_ins x l' else x :: l
    end.
  Fixpoint ev_sort (l : list event) : list event :=
    match l with [] => [] | x :: l' => ev_ins x (ev_sort l') end.

  (* ---- abstract status structure ---- *)
  Definition status := list (K * N).
  (* _compare(a, b) == 0 *)
  Definition keq (a b : K) : bool := negb (klt a b) && negb (klt b a).
  Definition has_key (k : K) (st : status) : bool := existsb (fun kn => keq k (fst kn)) st.

  (* _insert_into_tree; the model refuses a key that is already present
     (the tree would accept it; out of the modelled domain) *)
  Definition st_insert (k : K) (n : N) (st : status) : sweep_err + status :=
    if has_key k st then inl EDupKey else inr ((k, n) :: st).

  (* _delete_from_tree: ValueError("node not found") when absent *)
  Fixpoint del_key (k : K) (st : status) : option status :=
    match st with
    | [] => None
    | kn :: st' =>
      if keq k (fst kn) then Some st'
      else match del_key k st' with Some r => Some (kn :: r) | None => None end
    end.

  (* _find_max_value_within_key, as a decision:
       own key absent                       -> SMALLEST_GRAD  -> visible
       phase 1: a nearer node has min3 > g  -> returns max > g -> not visible
       phase 2: a nearer node's exact interpolated gradient > g -> not visible *)
  Definition hit (g : G) (a : A) (n : N) : bool :=
    match ncontrib n a with Some v => ggt v g | None => false end.
  Definition blocked_q (st : status) (k : K) (a : A) (g : G) : bool :=
    existsb (fun kn => klt (fst kn) k && (ggt (nmin (snd kn)) g || hit g a (snd kn))) st.
  Definition visible_q (st : status) (k : K) (a : A) (g : G) : bool :=
    if has_key k st then negb (blocked_q st k a g) else true.

  (* _viewshed_cpu_sweep main loop *)
  Fixpoint run (st : status) (out : list (Z * V)) (l : list event) : sweep_err + list (Z * V) :=
    match l with
    | [] => inr out
    | (Enter, c) :: l' =>
      match st_insert (ckey c) (cnode c) st with
      | inl e => inl e
      | inr st' => run st' out l'
      end
    | (Exit, c) :: l' =>
      match del_key (ckey c) st with
      | None => inl ENotFound
      | Some st' => run st' out l'
      end
    | (Centre, c) :: l' =>
      run st (if visible_q st (ckey c) (c_ca c) (cgrad c) then (cid c, cout c) :: out else out) l'
    end.

  (* the status structure after a prefix of the sorted events (the state part of [run]) *)
  Fixpoint status_after (st : status) (l : list event) : sweep_err + status :=
    match l with
    | [] => inr st
    | (Enter, c) :: l' =>
      match st_insert (ckey c) (cnode c) st with
      | inl e => inl e
      | inr st' => status_after st' l'
      end
    | (Exit, c) :: l' =>
      match del_key (ckey c) st with
      | None => inl ENotFound
      | Some st' => status_after st' l'
      end
    | (Centre, _) :: l' => status_after st l'
    end.

  (* cells initially on the sweep line are inserted first, in column order *)
  Fixpoint init_status (cs : list cell) (st : status) : sweep_err + status :=
    match cs with
    | [] => inr st
    | c :: cs' =>
      if cinit c then
        match st_insert (ckey c) (cnode0 c) st with
        | inl e => inl e
        | inr st' => init_status cs' st'
        end
      else init_status cs' st
    end.

  Definition sweep_sorted (cells : list cell) (sorted : list event) : sweep_err + list (Z * V) :=
    match init_status cells [] with
    | inl e => inl e
    | inr st0 => run st0 [] sorted
    end.

  Definition viewshed_sweep (cells : list cell) : sweep_err + list (Z * V) :=
    sweep_sorted cells (ev_sort (events_of cells)).

  (* ---- the O(n^2) reference of the same model ---- *)
  (* OPEN bearing span of c' (raw event bearings; cells that start on the sweep
     line wrap around 0 = 2 pi) *)
  Definition spans (c' : cell) (a : A) : bool :=
    if cinit c' then alt a (c_xa c') || alt (c_ea c') a
    else alt (c_ea c') a && alt a (c_xa c').
  (* which normalisation of c' is in the status at bearing a *)
  Definition act_node (c' : cell) (a : A) : N :=
    if cinit c' && alt a (c_xa c') then cnode0 c' else cnode c'.

  (* exactly what the sweep computes (including the own-key lookup and the
     phase-1 shortcut) *)
  Definition spec_visible_full (cells : list cell) (c : cell) : bool :=
    let a := c_ca c in let k := ckey c in let g := cgrad c in
    if existsb (fun c' => spans c' a && keq k (ckey c')) cells then
      negb (existsb (fun c' => spans c' a && (klt (ckey c') k &&
               (ggt (nmin (act_node c' a)) g || hit g a (act_node c' a)))) cells)
    else true.

  (* the property: no strictly nearer cell whose open span contains the bearing
     has an interpolated gradient greater than the cell's own *)
  Definition spec_visible (cells : list cell) (c : cell) : bool :=
    negb (existsb (fun c' => spans c' (c_ca c) && (klt (ckey c') (ckey c) &&
             hit (cgrad c) (c_ca c) (act_node c' (c_ca c)))) cells).

  Definition viewshed_spec (cells : list cell) : list (Z * V) :=
    map (fun c => (cid c, cout c)) (filter (spec_visible cells) cells).
  Definition viewshed_spec_full (cells : list cell) : list (Z * V) :=
    map (fun c => (cid c, cout c)) (filter (spec_visible_full cells) cells).

  (* reading a cell of the visibility grid out of the list of visible cells *)
  Fixpoint lookup (i : Z) (l : list (Z * V)) : option V :=
    match l with [] => None | (j, v) :: l' => if i =? j then Some v else lookup i l' end.
End Sweep.
