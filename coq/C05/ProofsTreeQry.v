(* C05/ProofsTreeQry.v — _find_max_value_within_key on the concrete tree: the search,
   phase 1 (cached maxima along the path to the root), phase 2 (reverse in-order
   walk over the predecessors through parent pointers), and the agreement of the
   returned maximum with the abstract two-phase query visible_q of Sweep.v. *)
Require Import Base.Prelude.
Require Import C05.Sweep C05.Tree C05.ProofsTreeBase C05.ProofsTreeRot C05.ProofsTreeInv C05.ProofsTreeFix
        C05.ProofsTreeIns.
Require Import Permutation Sorted.

Section Qry.
  Context {A K G N : Type}.
  Variable klt : K -> K -> bool.
  Variable ggt : G -> G -> bool.
  Variable nmin : N -> G.
  Variable ncontrib : N -> A -> option G.
  Variable smallest : G.
  Notation heap := (@heap K G N).
  Notation hmin := (@hmin K G N nmin).
  Notation TInv := (@TInv K G N ggt nmin smallest).
  Notation Good := (@Good K G N ggt nmin smallest).
  Notation MaxV := (@MaxV G ggt).
  Notation SubV := (@SubV G ggt smallest).
  Notation MaxOK := (@MaxOK K G N ggt nmin).
  Notation MaxOKC := (@MaxOKC K G N ggt nmin).
  Notation KSorted := (@KSorted K G N klt).
  Notation lo_ok := (@lo_ok K G N klt).
  Notation hi_ok := (@hi_ok K G N klt).
  Hypothesis ggt_asym : forall a b, ggt a b = true -> ggt b a = false.
  Hypothesis gle_trans : forall a b c, gle ggt a b -> gle ggt b c -> gle ggt a c.
  Hypothesis klt_trans : forall a b c, klt a b = true -> klt b c = true -> klt a c = true.

  (* ---- _search_for_node ---- *)
  Lemma search_ok (h : heap) (k : K) root : forall fuel c p s kn,
    RepC h c p root -> Rep h p (cpar c) s -> KSorted h (ids (plug c s)) ->
    lo_ok h k (cbefore c) -> hi_ok h k (cafter c) ->
    search klt fuel h p k = Some kn ->
    (kn = NIL /\ exists c', plug c' L = plug c s /\ lo_ok h k (cbefore c') /\ hi_ok h k (cafter c')) \/
    (exists c' a b, plug c' (Nd a kn b) = plug c s /\ RepC h c' kn root /\ Rep h kn (cpar c') (Nd a kn b) /\
       lo_ok h k (cbefore c') /\ hi_ok h k (cafter c') /\
       klt k (hkey h kn) = false /\ klt (hkey h kn) k = false).
  Proof.
    induction fuel as [|f IH]; intros c p s kn HC HR HK Hlo Hhi H; simpl in H.
    - destruct (Z.eqb_spec p NIL) as [->|Hp].
      + injection H as <-. left. split; [reflexivity|]. exists c. rewrite (Rep_root_L _ _ _ _ HR eq_refl). auto.
      + destruct (klt k (hkey h p) || klt (hkey h p) k) eqn:E; simpl in H; [discriminate|].
        injection H as <-. right. destruct s as [|a i b]; [simpl in HR; contradiction|].
        pose proof HR as HR0. simpl in HR. destruct HR as (-> & _).
        apply orb_false_iff in E. destruct E as [E1 E2]. exists c, a, b.
        split; [reflexivity|]. split; [exact HC|]. split; [exact HR0|]. auto.
    - destruct (Z.eqb_spec p NIL) as [->|Hp].
      + injection H as <-. left. split; [reflexivity|]. exists c. rewrite (Rep_root_L _ _ _ _ HR eq_refl). auto.
      + destruct s as [|a i b]; [simpl in HR; contradiction|].
        pose proof HR as HR0. simpl in HR. destruct HR as (-> & Hi & Hpar & Hl & Hr).
        destruct (klt k (hkey h i) || klt (hkey h i) k) eqn:E; simpl in H.
        2:{ injection H as <-. right. apply orb_false_iff in E. destruct E as [E1 E2].
            exists c, a, b. split; [reflexivity|]. split; [exact HC|]. split; [exact HR0|]. auto. }
        pose proof HK as HK0. rewrite ids_plug in HK. simpl in HK.
        apply SSorted_app_iff in HK. destruct HK as (_ & HK & _).
        apply SSorted_app_iff in HK. destruct HK as (HK & _ & _).
        apply SSorted_app_iff in HK. destruct HK as (_ & HK & Hli).
        inversion HK as [|? ? _ Hir]; subst. rewrite Forall_forall in Hir.
        destruct (klt k (hkey h i)) eqn:Ek.
        * apply (IH (CL c i b) (hleft h i) a kn) in H; auto.
          -- simpl. repeat split; auto.
          -- simpl. intros j [<-|Hj]; [exact Ek|]. apply in_app_or in Hj. destruct Hj as [Hj|Hj].
             ++ eapply klt_trans; [exact Ek|apply Hir; exact Hj].
             ++ apply Hhi; exact Hj.
        * simpl in E. apply (IH (CR c a i) (hright h i) b kn) in H; auto.
          -- simpl. repeat split; auto.
          -- simpl. intros j Hj. apply in_app_or in Hj. destruct Hj as [Hj|Hj]; [apply Hlo; exact Hj|].
             apply in_app_or in Hj. destruct Hj as [Hj|[<-|[]]]; [|exact E].
             eapply klt_trans; [apply Hli; [exact Hj|now left]|exact E].
  Qed.

  (* ---- phase 1 ---- *)
  Lemma SubV_join hm m1 m2 (L1 L2 L : list Z) :
    SubV hm m1 L1 -> SubV hm m2 L2 ->
    (forall j, In j L1 \/ In j L2 -> gle ggt smallest (hm j)) ->
    (forall j, In j L <-> In j L1 \/ In j L2) ->
    SubV hm (if ggt m1 m2 then m1 else m2) L.
  Proof.
    intros H1 H2 Hs Hm.
    destruct H1 as [[-> ->]|M1], H2 as [[-> ->]|M2].
    - left. split; [|destruct (ggt smallest smallest); reflexivity].
      destruct L as [|x L]; [reflexivity|]. exfalso. destruct (proj1 (Hm x)) as [[]|[]]. now left.
    - right. destruct (ggt smallest m2) eqn:E.
      + exfalso. destruct M2 as (U & (w & Hw & _)).
        assert (X : gle ggt smallest m2). { eapply gle_trans; [apply Hs; right; exact Hw|]. apply U. exact Hw. }
        unfold gle in X. congruence.
      + eapply MaxV_members; [|exact M2]. intros j. rewrite Hm. simpl. tauto.
    - right. destruct (ggt m1 smallest) eqn:E.
      + eapply MaxV_members; [|exact M1]. intros j. rewrite Hm. simpl. tauto.
      + destruct M1 as (U & (w & Hw & Aw)). split.
        * intros j Hj. apply Hm in Hj. destruct Hj as [Hj|[]]. eapply gle_trans; [apply U; exact Hj|exact E].
        * exists w. split; [apply Hm; now left|apply Hs; now left].
    - right. eapply (MaxV_up ggt ggt_asym gle_trans); [exact M1|exact M2|exact Hm].
  Qed.

  Lemma SubV_single hm i : SubV hm (hm i) [i].
  Proof.
    right. split.
    - intros j [<-|[]]. apply (gle_refl ggt ggt_asym).
    - exists i. split; [now left|apply (gle_refl ggt ggt_asym)].
  Qed.

  Lemma q_up_ok (h : heap) root : forall fuel c cur mx L0 lh m,
    RepC h c cur root -> cur <> NIL -> hparent h cur = cpar c ->
    NoDup (cids c) -> ~ In cur (cids c) ->
    MaxOKC h c lh -> hmax h NIL = smallest ->
    (forall j, In j (cids c) \/ In j L0 -> gle ggt smallest (hmin h j)) ->
    SubV (hmin h) mx L0 ->
    q_up ggt nmin fuel h cur mx = Some m ->
    exists L, SubV (hmin h) m L /\ (forall j, In j L <-> In j (cbefore c) \/ In j L0).
  Proof.
    induction fuel as [|f IH]; intros c cur mx L0 lh m HC Hcn Hp HN Hnc HM HNil HS Hmx H; simpl in H; rewrite Hp in H.
    - destruct c as [|c1 i r|c1 l0 i]; simpl in H, HC.
      + injection H as <-. exists L0. split; [exact Hmx|]. intros j. simpl. tauto.
      + destruct HC as (Hi & _). destruct (Z.eqb_spec i NIL); [contradiction|discriminate].
      + destruct HC as (Hi & _). destruct (Z.eqb_spec i NIL); [contradiction|discriminate].
    - destruct c as [|c1 i r|c1 l0 i]; simpl in H, HC.
      + injection H as <-. exists L0. split; [exact Hmx|]. intros j. simpl. tauto.
      + destruct HC as (Hi & Hil & Hip & Hr & HC1). destruct (Z.eqb_spec i NIL); [contradiction|].
        simpl in HN. apply NoDup_cons_iff in HN. destruct HN as (Ni & HN).
        apply NoDup_app_iff in HN. destruct HN as (Nr & Nc1 & Drc).
        assert (Hne : cur <> hright h i).
        { destruct (Rep_root _ _ _ _ Hr) as [E|E]; [congruence|]. intros E'. apply Hnc. simpl. right.
          apply in_or_app. left. rewrite E'. exact E. }
        destruct (Z.eqb_spec cur (hright h i)); [contradiction|].
        simpl in HM. destruct HM as (_ & _ & HM1).
        destruct (IH c1 i mx L0 (lh ++ i :: ids r) m HC1 Hi Hip Nc1) as (L' & A' & B); auto.
        * intros Hc. apply Ni. apply in_or_app. now right.
        * intros j [Hj|Hj]; apply HS; [left; simpl; right; apply in_or_app; now right|now right].
        * exists L'. split; [exact A'|]. intros j. rewrite B. simpl. tauto.
      + destruct HC as (Hi & Hil & Hip & Hr & HC1). destruct (Z.eqb_spec i NIL); [contradiction|].
        simpl in HN. apply NoDup_cons_iff in HN. destruct HN as (Ni & HN).
        apply NoDup_app_iff in HN. destruct HN as (Nr & Nc1 & Drc).
        rewrite Hil, Z.eqb_refl in H.
        simpl in HM. destruct HM as (Ml0 & _ & HM1).
        pose proof (sub_max ggt nmin smallest h _ _ _ Hr Ml0 HNil) as Sl.
        set (mx1 := if ggt (hmax h (hleft h i)) mx then hmax h (hleft h i) else mx) in *.
        set (mx2 := if ggt (hmin h i) mx1 then hmin h i else mx1) in *.
        assert (S1 : SubV (hmin h) mx1 (ids l0 ++ L0)).
        { apply (SubV_join (hmin h) _ _ (ids l0) L0); auto.
          - intros j [Hj|Hj]; apply HS; [left; simpl; right; apply in_or_app; now left|now right].
          - intros j. apply in_app_iff. }
        assert (S2 : SubV (hmin h) mx2 (i :: ids l0 ++ L0)).
        { apply (SubV_join (hmin h) _ _ [i] (ids l0 ++ L0)); auto.
          - apply SubV_single.
          - intros j [[<-|[]]|Hj]; apply HS; [left; simpl; now left|].
            apply in_app_or in Hj. destruct Hj as [Hj|Hj]; [left; simpl; right; apply in_or_app; now left|now right].
          - intros j. simpl. tauto. }
        destruct (IH c1 i mx2 (i :: ids l0 ++ L0) (ids l0 ++ i :: lh) m HC1 Hi Hip Nc1) as (L' & A' & B); auto.
        * intros Hc. apply Ni. apply in_or_app. now right.
        * intros j [Hj|Hj]; apply HS.
          -- left. simpl. right. apply in_or_app. now right.
          -- destruct Hj as [<-|Hj]; [left; simpl; now left|]. apply in_app_or in Hj.
             destruct Hj as [Hj|Hj]; [left; simpl; right; apply in_or_app; now left|now right].
        * exists L'. split; [exact A'|]. intros j. rewrite B. simpl. rewrite !in_app_iff. simpl. tauto.
  Qed.

  (* ---- phase 2: stepping to the in-order predecessor through the links ---- *)
  Lemma go_right_ok (h : heap) root : forall fuel c p a b nx,
    RepC h c p root -> Rep h p (cpar c) (Nd a p b) ->
    go_right fuel h p = Some nx ->
    exists c2 a2, plug c2 (Nd a2 nx L) = plug c (Nd a p b) /\ RepC h c2 nx root /\
                  Rep h nx (cpar c2) (Nd a2 nx L) /\
                  cbefore c2 ++ ids a2 ++ [nx] = cbefore c ++ ids (Nd a p b).
  Proof.
    induction fuel as [|f IH]; intros c p a b nx HC HR H; simpl in H.
    - pose proof HR as HR0. simpl in HR. destruct HR as (_ & Hp & Hpp & Hl & Hr).
      destruct (Z.eqb_spec (hright h p) NIL) as [E|E]; [|discriminate]. injection H as <-.
      rewrite (Rep_root_L _ _ _ _ Hr E) in *. exists c, a. repeat split; auto.
    - pose proof HR as HR0. simpl in HR. destruct HR as (_ & Hp & Hpp & Hl & Hr).
      destruct (Z.eqb_spec (hright h p) NIL) as [E|E].
      + injection H as <-. rewrite (Rep_root_L _ _ _ _ Hr E) in *. exists c, a. repeat split; auto.
      + destruct b as [|a' p' b']; [simpl in Hr; contradiction|].
        assert (Ep : hright h p = p') by (simpl in Hr; tauto).
        rewrite Ep in *.
        destruct (IH (CR c a p) p' a' b' nx) as (c2 & a2 & E1 & E2 & E3 & E4); auto.
        { simpl. repeat split; auto. }
        exists c2, a2. split; [exact E1|]. split; [exact E2|]. split; [exact E3|].
        rewrite E4. simpl. rewrite <- !app_assoc. reflexivity.
  Qed.

  Lemma climb_left_ok (h : heap) root : forall fuel c last s nx,
    RepC h c last root -> Rep h last (cpar c) s -> last <> NIL ->
    NoDup (ids (plug c s)) ->
    climb_left fuel h last (cpar c) = Some nx ->
    (nx = NIL /\ cbefore c = []) \/
    (exists c2 a2 b2, plug c2 (Nd a2 nx b2) = plug c s /\ RepC h c2 nx root /\
                      Rep h nx (cpar c2) (Nd a2 nx b2) /\ cbefore c = cbefore c2 ++ ids a2 ++ [nx]).
  Proof.
    induction fuel as [|f IH]; intros c last s nx HC HR Hl HN H.
    - destruct c as [|c1 i r|c1 l0 i]; simpl in H, HC.
      + injection H as <-. left. auto.
      + destruct HC as (Hi & Hil & _). destruct (Z.eqb_spec i NIL); [contradiction|].
        rewrite Hil, Z.eqb_refl in H. simpl in H. discriminate.
      + destruct HC as (Hi & Hir & Hip & Hr & HC1). destruct (Z.eqb_spec i NIL); [contradiction|].
        assert (Hne : last <> hleft h i).
        { destruct (Rep_root _ _ _ _ Hr) as [E|E]; [congruence|]. intros E'. rewrite <- E' in E.
          simpl in HN. rewrite ids_plug in HN. simpl in HN. apply NoDup_mid in HN. destruct HN as (HN & _).
          apply NoDup_app_iff in HN. destruct HN as (_ & _ & D). apply (D _ E). right.
          destruct (Rep_root _ _ _ _ HR) as [E2|E2]; [contradiction|exact E2]. }
        destruct (Z.eqb_spec last (hleft h i)); [contradiction|]. simpl in H. injection H as <-.
        right. exists c1, l0, s. split; [reflexivity|]. split; [exact HC1|]. split; [|reflexivity].
        simpl. repeat split; auto. rewrite Hir. exact HR.
    - destruct c as [|c1 i r|c1 l0 i]; simpl in H, HC.
      + injection H as <-. left. auto.
      + destruct HC as (Hi & Hil & Hip & Hr & HC1). destruct (Z.eqb_spec i NIL); [contradiction|].
        rewrite Hil, Z.eqb_refl in H. simpl in H. rewrite Hip in H.
        assert (HRi : Rep h i (cpar c1) (Nd s i r)).
        { simpl. repeat split; auto. rewrite Hil. exact HR. }
        destruct (IH c1 i (Nd s i r) nx HC1 HRi Hi HN H) as [(E1 & E2)|(c2 & a2 & b2 & E1 & E2 & E3 & E4)].
        * left. auto.
        * right. exists c2, a2, b2. split; [exact E1|]. split; [exact E2|]. split; [exact E3|exact E4].
      + destruct HC as (Hi & Hir & Hip & Hr & HC1). destruct (Z.eqb_spec i NIL); [contradiction|].
        assert (Hne : last <> hleft h i).
        { destruct (Rep_root _ _ _ _ Hr) as [E|E]; [congruence|]. intros E'. rewrite <- E' in E.
          simpl in HN. rewrite ids_plug in HN. simpl in HN. apply NoDup_mid in HN. destruct HN as (HN & _).
          apply NoDup_app_iff in HN. destruct HN as (_ & _ & D). apply (D _ E). right.
          destruct (Rep_root _ _ _ _ HR) as [E2|E2]; [contradiction|exact E2]. }
        destruct (Z.eqb_spec last (hleft h i)); [contradiction|]. simpl in H. injection H as <-.
        right. exists c1, l0, s. split; [reflexivity|]. split; [exact HC1|]. split; [|reflexivity].
        simpl. repeat split; auto. rewrite Hir. exact HR.
  Qed.

  Lemma pred_step_ok (h : heap) root fuel c x a b nx :
    RepC h c x root -> Rep h x (cpar c) (Nd a x b) ->
    NoDup (ids (plug c (Nd a x b))) ->
    pred_step fuel h x = Some nx ->
    (nx = NIL /\ cbefore c ++ ids a = []) \/
    (exists c2 a2 b2, plug c2 (Nd a2 nx b2) = plug c (Nd a x b) /\ RepC h c2 nx root /\
                      Rep h nx (cpar c2) (Nd a2 nx b2) /\
                      cbefore c ++ ids a = (cbefore c2 ++ ids a2) ++ [nx]).
  Proof.
    intros HC HR HN H. unfold pred_step in H.
    pose proof HR as HR0. simpl in HR. destruct HR as (_ & Hx & Hxp & Hl & Hr).
    destruct (Z.eqb_spec (hleft h x) NIL) as [E|E]; simpl in H.
    - rewrite (Rep_root_L _ _ _ _ Hl E) in *. rewrite Hxp in H.
      destruct (climb_left_ok h root fuel c x (Nd L x b) nx HC HR0 Hx HN H)
        as [(E1 & E2)|(c2 & a2 & b2 & E1 & E2 & E3 & E4)].
      + left. simpl. rewrite E2. auto.
      + right. exists c2, a2, b2. split; [exact E1|]. split; [exact E2|]. split; [exact E3|].
        cbn [ids]. rewrite app_nil_r, E4. apply app_assoc.
    - destruct a as [|a1 p b1]; [simpl in Hl; contradiction|].
      assert (Ep : hleft h x = p) by (simpl in Hl; tauto). rewrite Ep in *.
      destruct (go_right_ok h root fuel (CL c x b) p a1 b1 nx) as (c2 & a2 & E1 & E2 & E3 & E4); auto.
      { simpl. repeat split; auto. }
      right. exists c2, a2, L. split; [exact E1|]. split; [exact E2|]. split; [exact E3|].
      simpl in E4. simpl. rewrite <- E4. apply app_assoc.
  Qed.

  (* the walk over an explicit id list *)
  Fixpoint walk (h : heap) (kn : Z) (k : K) (a : A) (g : G) (l : list Z) (mx : G) : @qres G :=
    match l with
    | [] => QVal mx
    | x :: r =>
      if klt k (hkey h x) then QTooLarge
      else match ncontrib (hval h x) a with
           | Some cg =>
             if negb (x =? kn) then
               let mx' := if ggt cg mx then cg else mx in
               if ggt mx' g then QVal mx' else walk h kn k a g r mx'
             else walk h kn k a g r mx
           | None => walk h kn k a g r mx
           end
    end.

  Lemma q_walk_eq (h : heap) root kn k a g fuel2 : forall fuel c x a0 b mx r,
    RepC h c x root -> Rep h x (cpar c) (Nd a0 x b) ->
    NoDup (ids (plug c (Nd a0 x b))) ->
    q_walk klt ggt ncontrib fuel fuel2 h kn k a g x mx = Some r ->
    r = walk h kn k a g (x :: rev (cbefore c ++ ids a0)) mx.
  Proof.
    induction fuel as [|f IH]; intros c x a0 b mx r HC HR HN H.
    - simpl in H. pose proof HR as HR0. simpl in HR. destruct HR as (_ & Hx & _).
      destruct (Z.eqb_spec x NIL); [contradiction|discriminate].
    - pose proof HR as HR0. simpl in HR. destruct HR as (_ & Hx & _).
      cbn [q_walk] in H. destruct (Z.eqb_spec x NIL); [contradiction|].
      cbn [walk]. destruct (klt k (hkey h x)); [congruence|].
      assert (Step : forall mx', match pred_step fuel2 h x with
                                 | Some nx => q_walk klt ggt ncontrib f fuel2 h kn k a g nx mx'
                                 | None => None end = Some r ->
                                 r = walk h kn k a g (rev (cbefore c ++ ids a0)) mx').
      { intros mx' Hs. destruct (pred_step fuel2 h x) as [nx|] eqn:Hp; [|discriminate].
        destruct (pred_step_ok h root fuel2 c x a0 b nx HC HR0 HN Hp)
          as [(E1 & E2)|(c2 & a2 & b2 & E1 & E2 & E3 & E4)].
        - subst nx. rewrite E2. simpl. destruct f; simpl in Hs; congruence.
        - rewrite E4, rev_app_distr. simpl. eapply IH; eauto. rewrite E1. exact HN. }
      destruct (ncontrib (hval h x) a) as [cg|].
      + destruct (negb (x =? kn)).
        * destruct (ggt (if ggt cg mx then cg else mx) g); [congruence|]. apply Step. exact H.
        * apply Step. exact H.
      + apply Step. exact H.
  Qed.

  Definition hitn (g : G) (a : A) (n : N) : bool := hit ggt ncontrib g a n.

  Lemma ggt_mono_r x y g : ggt x g = true -> gle ggt x y -> ggt y g = true.
  Proof.
    intros H1 H2. destruct (ggt y g) eqn:E; [reflexivity|].
    assert (X : gle ggt x g) by (eapply gle_trans; [exact H2|exact E]). unfold gle in X. congruence.
  Qed.

  Lemma walk_spec (h : heap) kn k a g : forall l mx,
    ggt mx g = false -> (forall x, In x l -> klt k (hkey h x) = false) ->
    exists m, walk h kn k a g l mx = QVal m /\
              (ggt m g = true <-> exists x, In x l /\ x <> kn /\ hitn g a (hval h x) = true).
  Proof.
    induction l as [|x r IH]; intros mx Hmx Hk; simpl.
    - exists mx. split; [reflexivity|]. rewrite Hmx. split; [discriminate|intros (x & [] & _)].
    - rewrite (Hk x) by now left.
      assert (Hkr : forall y, In y r -> klt k (hkey h y) = false) by (intros y Hy; apply Hk; now right).
      assert (Skip : hitn g a (hval h x) = false \/ x = kn ->
                     forall mx', ggt mx' g = false ->
                     exists m, walk h kn k a g r mx' = QVal m /\
                       (ggt m g = true <-> exists y, (x = y \/ In y r) /\ y <> kn /\ hitn g a (hval h y) = true)).
      { intros Hx mx' Hm'. destruct (IH mx' Hm' Hkr) as (m & E1 & E2). exists m. split; [exact E1|].
        rewrite E2. split.
        - intros (y & Hy & R). exists y. split; [now right|exact R].
        - intros (y & [<-|Hy] & Hne & Hh); [destruct Hx; congruence|]. exists y. auto. }
      unfold hitn, hit in *. destruct (ncontrib (hval h x) a) as [cg|] eqn:Ec.
      + destruct (Z.eqb_spec x kn) as [Exk|Exk]; simpl.
        * apply Skip; auto.
        * destruct (ggt (if ggt cg mx then cg else mx) g) eqn:Eg.
          -- exists (if ggt cg mx then cg else mx). split; [reflexivity|]. rewrite Eg. split; [intros _|auto].
             exists x. split; [now left|]. split; [exact Exk|]. rewrite Ec.
             destruct (ggt cg mx); [exact Eg|congruence].
          -- apply Skip; [|exact Eg]. left.
             destruct (ggt cg g) eqn:E2; [|reflexivity]. exfalso.
             assert (X : ggt (if ggt cg mx then cg else mx) g = true).
             { apply (ggt_mono_r cg); [exact E2|]. destruct (ggt cg mx) eqn:E3; [apply (gle_refl ggt ggt_asym)|exact E3]. }
             congruence.
      + apply Skip; auto.
  Qed.

  Hypothesis klt_irrefl : forall a, klt a a = false.
  Hypothesis klt_negtrans : forall a b c, klt a c = true -> klt a b = true \/ klt b c = true.

  Lemma klt_asym a b : klt a b = true -> klt b a = false.
  Proof.
    intros H. destruct (klt b a) eqn:E; [|reflexivity].
    pose proof (klt_trans _ _ _ H E) as X. rewrite klt_irrefl in X. discriminate.
  Qed.

  Notation tabs := (@tabs K G N).

  (* the query of the concrete tree = the abstract two-phase query *)
  Theorem t_query_ok fuel (t : @tree K G N) l k a g r :
    Good (th t) (troot t) l -> KSorted (th t) l -> l <> [] ->
    gle ggt smallest g ->
    (* phase 1 of the code consults only the left side of the search path: for the
       nodes it skips, min3 > g must imply that the interpolated gradient exceeds g *)
    (forall j, In j l -> klt (hkey (th t) j) k = true -> ggt (hmin (th t) j) g = true ->
               hitn g a (hval (th t) j) = true) ->
    t_query klt ggt nmin ncontrib smallest fuel t k a g = Some r ->
    exists m, r = QVal m /\
      negb (ggt m g) = visible_q klt ggt nmin ncontrib (tabs (th t) l) k a g.
  Proof.
    destruct t as [h root]. simpl. intros (s & (HR & HN & HM & HNil & HS) & <-) HK Hne Hg Hp1 H.
    unfold t_query in H. cbn [th troot] in H.
    assert (Hrn : root <> NIL).
    { intros ->. apply Hne. now rewrite (Rep_root_L _ _ _ _ HR eq_refl). }
    destruct (Z.eqb_spec root NIL); [contradiction|].
    destruct (search klt fuel h root k) as [kn|] eqn:Hs; [|discriminate].
    destruct (search_ok h k root fuel Top root s kn eq_refl HR HK
                (fun j (H : In j []) => match H with end) (fun j (H : In j []) => match H with end) Hs)
      as [(-> & c' & Ec & Hlo & Hhi)|(c' & a0 & b & Ec & HC & HRk & Hlo & Hhi & E1 & E2)].
    - (* absent *)
      simpl in H. injection H as <-. exists smallest. split; [reflexivity|].
      simpl in Ec. subst s. rewrite ids_plug in *. simpl in *.
      unfold visible_q. destruct (has_key klt k (tabs h (cbefore c' ++ cafter c'))) eqn:Eh.
      + exfalso. unfold has_key in Eh. apply existsb_exists in Eh. destruct Eh as ((k1 & n1) & Hin & Hq).
        unfold ProofsTreeIns.tabs in Hin. apply in_map_iff in Hin. destruct Hin as (j & Ej & Hj). inversion Ej; subst.
        simpl in Hq. unfold keq in Hq. apply andb_true_iff in Hq. destruct Hq as [Q1 Q2].
        apply in_app_or in Hj. destruct Hj as [Hj|Hj].
        * rewrite (Hlo j Hj) in Q2. discriminate.
        * rewrite (Hhi j Hj) in Q1. discriminate.
      + unfold gle in Hg. rewrite Hg. reflexivity.
    - (* present *)
      simpl in Ec. subst s.
      assert (Hkn : kn <> NIL) by (simpl in HRk; tauto).
      destruct (Z.eqb_spec kn NIL); [contradiction|].
      pose proof HN as HN0. rewrite ids_plug in HN. simpl in HN.
      apply NoDup_mid in HN. destruct HN as (NI & NC & DC).
      assert (NCc : NoDup (cids c')). { eapply Permutation_NoDup; [symmetry; apply cids_perm|exact NC]. }
      assert (Hknc : ~ In kn (cids c')).
      { intros Hc. apply (DC kn); [apply in_or_app; right; now left|]. apply in_or_app. apply cids_in. exact Hc. }
      apply MaxOK_plug in HM. destruct HM as (HMs & HMc).
      assert (Hpk : hparent h kn = cpar c') by (simpl in HRk; tauto).
      assert (HSc : forall j, In j (cids c') \/ In j [] -> gle ggt smallest (hmin h j)).
      { intros j [Hj|[]]. apply HS. rewrite ids_plug. apply cids_in in Hj. destruct Hj as [Hj|Hj]; apply in_or_app;
          [now left|right; apply in_or_app; now right]. }
      destruct (q_up ggt nmin fuel h kn smallest) as [m1|] eqn:Hu; [|discriminate].
      destruct (q_up_ok h root fuel c' kn smallest [] _ m1 HC Hkn Hpk NCc Hknc HMc HNil HSc
                  (or_introl (conj eq_refl eq_refl)) Hu) as (L1 & S1 & M1).
      assert (M1' : forall j, In j L1 <-> In j (cbefore c')). { intros j. rewrite M1. simpl. tauto. }
      (* the key is present in the abstraction *)
      assert (Hhas : has_key klt k (tabs h (ids (plug c' (Nd a0 kn b)))) = true).
      { unfold has_key. apply existsb_exists. exists (hkey h kn, hval h kn). split.
        - unfold ProofsTreeIns.tabs. apply in_map_iff. exists kn. split; [reflexivity|].
          rewrite ids_plug. apply in_or_app; right. apply in_or_app; left. simpl. apply in_or_app; right; now left.
        - simpl. unfold keq. now rewrite E1, E2. }
      unfold visible_q. rewrite Hhas.
      (* who is nearer *)
      assert (Hsort := HK). rewrite ids_plug in Hsort. simpl in Hsort.
      apply SSorted_app_iff in Hsort. destruct Hsort as (_ & Hsort & _).
      apply SSorted_app_iff in Hsort. destruct Hsort as (Hsort & _ & _).
      apply SSorted_app_iff in Hsort. destruct Hsort as (_ & Hsort & Hak).
      apply StronglySorted_inv in Hsort. destruct Hsort as [_ Hkb]. rewrite Forall_forall in Hkb.
      assert (Hnear : forall j, In j (ids (plug c' (Nd a0 kn b))) ->
                 (klt (hkey h j) k = true <-> In j (cbefore c' ++ ids a0))).
      { intros j Hj. rewrite ids_plug in Hj. simpl in Hj. split.
        - intros Hlt. apply in_app_or in Hj. destruct Hj as [Hj|Hj]; [apply in_or_app; now left|].
          apply in_app_or in Hj. destruct Hj as [Hj|Hj].
          + apply in_app_or in Hj. destruct Hj as [Hj|[<-|Hj]]; [apply in_or_app; now right|congruence|].
            exfalso. pose proof (klt_trans _ _ _ (Hkb j Hj) Hlt). congruence.
          + exfalso. pose proof (klt_asym _ _ (Hhi j Hj)). congruence.
        - intros Hin. apply in_app_or in Hin. destruct Hin as [Hin|Hin]; [apply Hlo; exact Hin|].
          destruct (klt_negtrans _ k _ (Hak j kn Hin ltac:(now left))) as [X|X]; [exact X|congruence]. }
      destruct (ggt m1 g) eqn:Em1.
      + (* phase 1 answers *)
        injection H as <-. exists m1. split; [reflexivity|]. rewrite Em1. simpl.
        destruct S1 as [[EL Em]|(U1 & (w & Hw & Aw))]; [rewrite Em in Em1; unfold gle in Hg; congruence|].
        apply M1' in Hw.
        assert (Hb : blocked_q klt ggt nmin ncontrib (tabs h (ids (plug c' (Nd a0 kn b)))) k a g = true).
        { unfold blocked_q. apply existsb_exists. exists (hkey h w, hval h w). split.
          - unfold ProofsTreeIns.tabs. apply in_map_iff. exists w. split; [reflexivity|].
            rewrite ids_plug. apply in_or_app. now left.
          - simpl. rewrite (Hlo w Hw). simpl. apply orb_true_iff. left.
            apply (ggt_mono_r m1); [exact Em1|exact Aw]. }
        rewrite Hb. reflexivity.
      + (* phase 2 *)
        pose proof (q_walk_eq h root kn k a g fuel (S fuel) c' kn a0 b smallest r HC HRk HN0 H) as Er.
        destruct (walk_spec h kn k a g (kn :: rev (cbefore c' ++ ids a0)) smallest Hg) as (m & Ew & Hm).
        { intros x [<-|Hx]; [exact E1|]. apply in_rev in Hx. apply in_app_or in Hx. destruct Hx as [Hx|Hx].
          - apply klt_asym. apply Hlo. exact Hx.
          - destruct (klt k (hkey h x)) eqn:E; [|reflexivity].
            pose proof (klt_trans _ _ _ E (Hak x kn Hx ltac:(now left))). congruence. }
        exists m. split; [congruence|].
        assert (Hiff : ggt m g = true <->
                       blocked_q klt ggt nmin ncontrib (tabs h (ids (plug c' (Nd a0 kn b)))) k a g = true).
        { rewrite Hm. unfold blocked_q. rewrite existsb_exists. split.
          - intros (x & Hx & Hne' & Hh). destruct Hx as [<-|Hx]; [congruence|]. apply in_rev in Hx.
            exists (hkey h x, hval h x). split.
            + unfold ProofsTreeIns.tabs. apply in_map_iff. exists x. split; [reflexivity|]. rewrite ids_plug.
              apply in_app_or in Hx. destruct Hx as [Hx|Hx]; apply in_or_app; [now left|right].
              apply in_or_app; left. simpl. apply in_or_app. now left.
            + simpl. assert (Hl : klt (hkey h x) k = true).
              { apply Hnear; [|exact Hx]. rewrite ids_plug.
                apply in_app_or in Hx. destruct Hx as [Hx|Hx]; apply in_or_app; [now left|right].
                apply in_or_app; left. simpl. apply in_or_app. now left. }
              rewrite Hl. simpl. apply orb_true_iff. right. exact Hh.
          - intros ((k1 & n1) & Hin & Hq). unfold ProofsTreeIns.tabs in Hin. apply in_map_iff in Hin.
            destruct Hin as (j & Ej & Hj). inversion Ej; subst. simpl in Hq.
            apply andb_true_iff in Hq. destruct Hq as [Hl Hq].
            pose proof (proj1 (Hnear j Hj) Hl) as Hpred.
            assert (Hjk : j <> kn). { intros ->. congruence. }
            exists j. split; [right; apply -> in_rev; exact Hpred|]. split; [exact Hjk|].
            apply orb_true_iff in Hq. destruct Hq as [Hq|Hq]; [|exact Hq].
            apply in_app_or in Hpred. destruct Hpred as [Hc|Ha].
            + exfalso. destruct S1 as [[EL _]|(U1 & _)]; [apply M1' in Hc; rewrite EL in Hc; contradiction|].
              assert (X : gle ggt (hmin h j) g). { eapply gle_trans; [apply U1; apply M1'; exact Hc|exact Em1]. }
              unfold gle in X. unfold Tree.hmin in X. congruence.
            + apply Hp1; assumption. }
        destruct (ggt m g) eqn:Emg.
        * rewrite (proj1 Hiff eq_refl). reflexivity.
        * destruct (blocked_q klt ggt nmin ncontrib (tabs h (ids (plug c' (Nd a0 kn b)))) k a g) eqn:Eb; [|reflexivity].
          pose proof (proj2 Hiff eq_refl). discriminate.
  Qed.
End Qry.
