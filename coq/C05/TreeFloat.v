(* C05/TreeFloat.v — the binary64 instance of the red-black tree model of Tree.v
   (keys, gradients, bearings = float; payload = the fnode of Model.v), the one that
   is extracted and compared with the jitted tree functions.  Definitions only. *)
Require Import Base.Prelude.
Require Import PrimFloat.
Require Import C05.Sweep C05.Model C05.Tree.

(* SMALLEST_GRAD = -9999999999999999999999.0 (rounds to -1e22) *)
Definition SMALLEST : float := (-0x1.0f0cf064dd592p+73)%float.

(* dummy_node_value of _create_status_struct: key 0, gradients (-1, -1, SMALLEST),
   bearings (SMALLEST, SMALLEST, 0) *)
Definition fdummy : fnode := mkNode (-1)%float (-1)%float SMALLEST SMALLEST SMALLEST 0%float.

Definition fcstate := @cstate float float fnode.
Definition fc_init (num_nodes : Z) : fcstate :=
  c_init SMALLEST 0%float fdummy num_nodes.
Definition fcop_of (o : tree_op) : @cop float float float fnode :=
  match o with
  | TIns k n => CI k n
  | TDel k => CD k
  | TQry k a g => CQ k a g
  end.
Definition fc_step (s : fcstate) (o : tree_op) : @cres float * fcstate :=
  c_step ltb fgt fmin3 fcontrib SMALLEST s (fcop_of o).
(* row i of the two arrays *)
Definition fc_row (s : fcstate) (i : Z) : @tnode float float fnode := hget (th (c_tree s)) i.
