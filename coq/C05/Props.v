(* C05/Props.v — the property theorems claimed for C05, nothing else.
   The sweep theorems quantify over ARBITRARY bearing / key / gradient / node /
   value types and comparison functions; the float model of Model.v is the
   instance A = K = G = V = float, alt = klt = PrimFloat.ltb, ggt x y = y <? x. *)
Require Import Base.Prelude C05.Sweep C05.Model C05.Proofs C05.ProofsAngle.
Require Import Permutation Sorted.
Require Import PrimFloat Reals.
Open Scope Z_scope.

(* (0) status invariant: after processing ANY prefix P of the sorted events the
   status structure holds exactly
     - the initial node of every cell that starts on the sweep line and whose
       EXIT has not been processed,
     - the entering node of every such cell whose EXIT and (re-)ENTER have both
       been processed,
     - the entering node of every other cell whose ENTER has been processed and
       whose EXIT has not. *)
Theorem C05_status_invariant :
  forall (A K G N V : Type) (alt : A -> A -> bool) (klt : K -> K -> bool)
         (cells : list (@cell A K G N V)),
    NoDup (map cid cells) ->
    (forall k, klt k k = false) ->
    (forall c, In c cells -> alt (c_ea c) (c_xa c) = negb (cinit c)) ->
    forall L, Permutation L (events_of cells) ->
    StronglySorted (fun x y => ev_ltb alt y x = false) L ->
    forall P R st0 st,
    L = P ++ R -> init_status klt cells [] = inr st0 -> status_after klt st0 P = inr st ->
    forall k n, In (k, n) st <->
      exists c, In c cells /\ k = ckey c /\
        ((cinit c = true /\ ~ In (Exit, c) P /\ n = cnode0 c) \/
         (cinit c = true /\ In (Exit, c) P /\ In (Enter, c) P /\ n = cnode c) \/
         (cinit c = false /\ In (Enter, c) P /\ ~ In (Exit, c) P /\ n = cnode c)).
Proof. exact (@status_invariant). Qed.
Print Assumptions C05_status_invariant.

(* (1a) for ANY event list that is a permutation of the generated events without
   inversions w.r.t. the lexsort key (bearing, type): the sweep over the abstract
   status structure writes exactly the cells the O(n^2) reference calls visible
   (reference with the own-key lookup and the phase-1 shortcut spelled out; no
   premise about interpolation, no order axiom on bearings). *)
Theorem C05_sweep_eq_spec_full :
  forall (A K G N V : Type) (alt : A -> A -> bool) (klt : K -> K -> bool) (ggt : G -> G -> bool)
         (nmin : N -> G) (ncontrib : N -> A -> option G)
         (cells : list (@cell A K G N V)),
    NoDup (map cid cells) ->
    (forall k, klt k k = false) ->
    (forall c, In c cells -> alt (c_ea c) (c_xa c) = negb (cinit c)) ->
    forall L, Permutation L (events_of cells) ->
    StronglySorted (fun x y => ev_ltb alt y x = false) L ->
    forall out, sweep_sorted klt ggt nmin ncontrib cells L = inr out ->
    forall i v, In (i, v) out <-> In (i, v) (viewshed_spec_full alt klt ggt nmin ncontrib cells).
Proof. exact (@sweep_sorted_spec_full). Qed.
Print Assumptions C05_sweep_eq_spec_full.

(* (1b) the model's stable insertion sort (np.lexsort((type, ang))) returns such a
   list whenever < is asymmetric and negatively transitive (a strict weak order)
   on the bearings that occur. *)
Theorem C05_sort_inversion_free :
  forall (A K G N V : Type) (alt : A -> A -> bool) (okA : A -> Prop),
    (forall a b, okA a -> okA b -> alt a b = true -> alt b a = false) ->
    (forall a b c, okA a -> okA b -> okA c -> alt a b = false -> alt b c = false -> alt a c = false) ->
    forall l : list (@event A K G N V), Forall (fun e => okA (eang e)) l ->
      Permutation (ev_sort alt l) l /\
      StronglySorted (fun x y => ev_ltb alt y x = false) (ev_sort alt l).
Proof.
  intros A K G N V alt okA Ha Hn l Hok. split.
  - apply ev_sort_perm.
  - exact (ev_sort_noinv alt okA Ha Hn l Hok).
Qed.
Print Assumptions C05_sort_inversion_free.

(* (1c) the property: model output = line-of-sight reference, cell by cell, for
   every terrain / observer / heights / cell sizes (everything is inside [cells]).
   own_span: every cell's open span contains its own centre bearing;
   phase1_sound: a nearer spanning node whose min(g0,g1,g2) exceeds the gradient
   also has its interpolated gradient exceed it (min3 <= interpolation). *)
Theorem C05_sweep_eq_spec :
  forall (A K G N V : Type) (alt : A -> A -> bool) (klt : K -> K -> bool) (ggt : G -> G -> bool)
         (nmin : N -> G) (ncontrib : N -> A -> option G)
         (cells : list (@cell A K G N V)),
    NoDup (map cid cells) ->
    (forall k, klt k k = false) ->
    (forall c, In c cells -> alt (c_ea c) (c_xa c) = negb (cinit c)) ->
    forall okA : A -> Prop,
    (forall a b, okA a -> okA b -> alt a b = true -> alt b a = false) ->
    (forall a b c, okA a -> okA b -> okA c -> alt a b = false -> alt b c = false -> alt a c = false) ->
    (forall c, In c cells -> okA (c_ea c) /\ okA (c_ca c) /\ okA (c_xa c)) ->
    (forall c, In c cells -> spans alt c (c_ca c) = true) ->
    (forall c c', In c cells -> In c' cells ->
        spans alt c' (c_ca c) = true -> klt (ckey c') (ckey c) = true ->
        ggt (nmin (act_node alt c' (c_ca c))) (cgrad c) = true ->
        hit ggt ncontrib (cgrad c) (c_ca c) (act_node alt c' (c_ca c)) = true) ->
    forall out, viewshed_sweep alt klt ggt nmin ncontrib cells = inr out ->
    forall c, In c cells ->
      lookup (cid c) out = if spec_visible alt klt ggt ncontrib cells c then Some (cout c) else None.
Proof. exact (@sweep_lookup). Qed.
Print Assumptions C05_sweep_eq_spec.

(* the same at the float instance used for extraction: which binary64 facts are premises *)
Theorem C05_float_instance :
  forall cells : list fcell,
    NoDup (map cid cells) ->
    (forall k : float, ltb k k = false) ->
    (forall c, In c cells -> ltb (c_ea c) (c_xa c) = negb (cinit c)) ->
    forall okA : float -> Prop,
    (forall a b, okA a -> okA b -> ltb a b = true -> ltb b a = false) ->
    (forall a b c, okA a -> okA b -> okA c -> ltb a b = false -> ltb b c = false -> ltb a c = false) ->
    (forall c, In c cells -> okA (c_ea c) /\ okA (c_ca c) /\ okA (c_xa c)) ->
    (forall c, In c cells -> spans ltb c (c_ca c) = true) ->
    (forall c c', In c cells -> In c' cells ->
        spans ltb c' (c_ca c) = true -> ltb (ckey c') (ckey c) = true ->
        fgt (fmin3 (act_node ltb c' (c_ca c))) (cgrad c) = true ->
        hit fgt fcontrib (cgrad c) (c_ca c) (act_node ltb c' (c_ca c)) = true) ->
    forall out, fsweep cells = inr out ->
    forall c, In c cells ->
      lookup (cid c) out = if spec_visible ltb ltb fgt fcontrib cells c then Some (cout c) else None.
Proof. exact (@sweep_lookup float float float fnode float ltb ltb fgt fmin3 fcontrib). Qed.
Print Assumptions C05_float_instance.

(* (2) vertical angle of visible cells, real-valued formula of _get_vertical_ang:
   in [0,180]; 90 exactly when level; below 90 looking down, above 90 looking up *)
Theorem C05_vertical_angle_range :
  forall ve d elev : R, (0 < d)%R ->
    (0 <= vert_ang_R ve d elev <= 180)%R /\
    vert_ang_R ve d ve = 90%R /\
    ((elev < ve)%R -> (0 < vert_ang_R ve d elev < 90)%R) /\
    ((ve < elev)%R -> (90 < vert_ang_R ve d elev < 180)%R).
Proof.
  intros ve d elev Hd. split; [now apply vert_ang_range|]. split; [apply vert_ang_level|].
  split; intros H; [now apply vert_ang_below | now apply vert_ang_above].
Qed.
Print Assumptions C05_vertical_angle_range.

(* ---- UNCLAIMED: what "the array-encoded red-black tree of viewshed.py refines the
   abstract status structure" means.  For a tree type T with the three operations
   and a representation relation R, this is the contract the sweep theorems rely on.
   It is stated for TOTAL functions; the tree code is modelled line by line in Tree.v with
   explicit fuel (partial functions), and the refinement is claimed in that form as
   C05_rbtree_refines_status in PropsTree.v (every operation sequence, conditional on the
   model returning); this literal Prop stays unclaimed. *)
Definition rbtree_refines_status_statement
  (A K G N T : Type) (klt : K -> K -> bool) (ggt : G -> G -> bool)
  (nmin : N -> G) (ncontrib : N -> A -> option G)
  (t_insert : K -> N -> T -> T) (t_delete : K -> T -> option T)
  (t_visible : T -> K -> A -> G -> bool) (R : T -> list (K * N) -> Prop) : Prop :=
  (forall t st k n, R t st -> has_key klt k st = false -> R (t_insert k n t) ((k, n) :: st)) /\
  (forall t st k, R t st ->
      match del_key klt k st with
      | Some st' => exists t', t_delete k t = Some t' /\ R t' st'
      | None => t_delete k t = None
      end) /\
  (forall t st k a g, R t st -> t_visible t k a g = visible_q klt ggt nmin ncontrib st k a g).

(* ---- non-vacuity: an exact integer instance (bearings in degrees) with a cell
   that starts on the sweep line and wraps (1), a cell hidden by it (2), a free
   cell (3), a cell seen over the re-entered wrap cell (4) and a cell hidden by
   two nearer cells (5): all premises of C05_sweep_eq_spec hold and the sweep
   returns the expected visible set. *)
Definition toy_cells : list (@cell Z Z Z Z Z) :=
  [ mkCell 1 350 0 10 1 5 5 0 101 true;
    mkCell 2 2 6 9 4 7 7 3 102 false;
    mkCell 3 20 30 40 9 1 1 1 103 false;
    mkCell 4 340 352 358 2 2 2 9 104 false;
    mkCell 5 345 353 359 3 0 0 1 105 false ].
Definition zgt (a b : Z) : bool := b <? a.
Definition zcontrib (n a : Z) : option Z := Some n.

Example C05_nonvacuous :
  NoDup (map cid toy_cells) /\
  (forall k, Z.ltb k k = false) /\
  (forall c, In c toy_cells -> Z.ltb (c_ea c) (c_xa c) = negb (cinit c)) /\
  (forall a b, True -> True -> Z.ltb a b = true -> Z.ltb b a = false) /\
  (forall a b c, True -> True -> True -> Z.ltb a b = false -> Z.ltb b c = false -> Z.ltb a c = false) /\
  (forall c, In c toy_cells -> spans Z.ltb c (c_ca c) = true) /\
  (forall c c', In c toy_cells -> In c' toy_cells ->
      spans Z.ltb c' (c_ca c) = true -> Z.ltb (ckey c') (ckey c) = true ->
      zgt (act_node Z.ltb c' (c_ca c)) (cgrad c) = true ->
      hit zgt zcontrib (cgrad c) (c_ca c) (act_node Z.ltb c' (c_ca c)) = true) /\
  viewshed_sweep Z.ltb Z.ltb zgt (fun n => n) zcontrib toy_cells = inr [(4, 104); (3, 103); (1, 101)] /\
  viewshed_spec Z.ltb Z.ltb zgt zcontrib toy_cells = [(1, 101); (3, 103); (4, 104)].
Proof.
  split. { simpl. repeat (constructor; [simpl; intros H; repeat (destruct H as [H|H]; [discriminate|]); exact H|]). constructor. }
  split. { intros k. apply Z.ltb_irrefl. }
  split. { intros c H. simpl in H. repeat (destruct H as [<-|H]; [reflexivity|]). contradiction. }
  split. { intros a b _ _ H. apply Z.ltb_lt in H. apply Z.ltb_ge. lia. }
  split. { intros a b c _ _ _ H1 H2. apply Z.ltb_ge in H1, H2. apply Z.ltb_ge. lia. }
  split. { intros c H. simpl in H. repeat (destruct H as [<-|H]; [reflexivity|]). contradiction. }
  split. { intros c c' _ _ _ _ H. exact H. }
  split; vm_compute; reflexivity.
Qed.

(* the float model is executable inside Coq too (a monotone bounded stand-in for
   atan): observer at the corner, a peak next to it hides the cells behind, and
   the sweep agrees with both reference definitions *)
Example C05_model_runs :
  match viewshed_model (fun x => x / (1 + abs x))%float
          [[0; 0; 0]; [0; 5; 0]; [0; 0; 0]]%float [0; 1; 2]%float [0; 1; 2]%float
          0%float 0%float 1%float 0%float with
  | VsOk g s f p => p = true /\ g = s /\ g = f /\ nthZ 0%float (nthZ [] g 2) 2 = (-1)%float /\ nthZ 0%float (nthZ [] g 0) 0 = 180%float
  | _ => False
  end.
Proof. vm_compute. repeat split; reflexivity. Qed.
