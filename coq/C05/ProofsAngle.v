(* C05/ProofsAngle.v — range of _get_vertical_ang, for the real-valued formula
   (Coq's Ratan.atan); the binary64 evaluation is tied to it by correspondence only. *)
Require Import Reals Lra.
Open Scope R_scope.

Definition vert_ang_R (ve d elev : R) : R :=
  let diff := ve - elev in
  if Req_EM_T diff 0 then 90
  else if Rlt_dec 0 diff then atan (sqrt d / diff) * 180 / PI
  else atan (Rabs diff / sqrt d) * 180 / PI + 90.

Lemma atan_pos_bound x : 0 < x -> 0 < atan x < PI / 2.
Proof.
  intros Hx. split.
  - rewrite <- atan_0. now apply atan_increasing.
  - apply atan_bound.
Qed.

Lemma scale_bound a : 0 < a < PI / 2 -> 0 < a * 180 / PI < 90.
Proof.
  intros [H1 H2]. pose proof PI_RGT_0 as Hpi.
  assert (E : a * 180 / PI = a / PI * 180) by (field; lra).
  rewrite E.
  assert (Hq : 0 < a / PI < / 2).
  { split.
    - apply Rdiv_lt_0_compat; assumption.
    - apply Rmult_lt_reg_r with PI; [assumption|].
      unfold Rdiv. rewrite Rmult_assoc, Rinv_l by lra. lra. }
  lra.
Qed.

Lemma vert_ang_below ve d elev : 0 < d -> elev < ve -> 0 < vert_ang_R ve d elev < 90.
Proof.
  intros Hd He. unfold vert_ang_R.
  destruct (Req_EM_T (ve - elev) 0) as [E|E]; [lra|].
  destruct (Rlt_dec 0 (ve - elev)) as [L|L]; [|lra].
  apply scale_bound, atan_pos_bound.
  apply Rdiv_lt_0_compat; [now apply sqrt_lt_R0|assumption].
Qed.

Lemma vert_ang_above ve d elev : 0 < d -> ve < elev -> 90 < vert_ang_R ve d elev < 180.
Proof.
  intros Hd He. unfold vert_ang_R.
  destruct (Req_EM_T (ve - elev) 0) as [E|E]; [lra|].
  destruct (Rlt_dec 0 (ve - elev)) as [L|L]; [lra|].
  assert (H : 0 < atan (Rabs (ve - elev) / sqrt d) * 180 / PI < 90).
  { apply scale_bound, atan_pos_bound.
    apply Rdiv_lt_0_compat; [apply Rabs_pos_lt; lra|now apply sqrt_lt_R0]. }
  lra.
Qed.

Lemma vert_ang_level ve d : vert_ang_R ve d ve = 90.
Proof.
  unfold vert_ang_R. destruct (Req_EM_T (ve - ve) 0) as [E|E]; [reflexivity|lra].
Qed.

Lemma vert_ang_range ve d elev : 0 < d -> 0 <= vert_ang_R ve d elev <= 180.
Proof.
  intros Hd. destruct (Rtotal_order elev ve) as [H|[H|H]].
  - pose proof (vert_ang_below ve d elev Hd H). lra.
  - subst. rewrite vert_ang_level. lra.
  - pose proof (vert_ang_above ve d elev Hd H). lra.
Qed.
