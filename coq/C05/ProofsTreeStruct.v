(* C05/ProofsTreeStruct.v — structure-only versions of the rotation lemmas (links,
   parent pointers, distinct ids, in-order sequence; nothing about cached maxima), used
   for _delete_from_tree, whose maximum-repair loops do NOT re-establish the two-sided
   cached-maximum invariant (see C05_tree_delete_max_not_preserved). *)
Require Import Base.Prelude.
Require Import C05.Tree C05.ProofsTreeBase C05.ProofsTreeRot C05.ProofsTreeInv.
Require Import Permutation.

Section Struct.
  Context {K G N : Type}.
  Variable ggt : G -> G -> bool.
  Variable nmin : N -> G.
  Notation heap := (@heap K G N).
  Notation left_rotate := (@left_rotate K G N ggt nmin).
  Notation right_rotate := (@right_rotate K G N ggt nmin).

  Definition SInv (h : heap) (root : Z) (s : shape) : Prop := Rep h root NIL s /\ NoDup (ids s).
  Definition SGood (h : heap) (root : Z) (l : list Z) : Prop := exists s, SInv h root s /\ ids s = l.

  Lemma lrot_sinv (h : heap) root x h' root' c a r :
    SInv h root (plug c (Nd a x r)) ->
    left_rotate h root x = Some (h', root') ->
    exists b y d, r = Nd b y d /\ y = hright h x /\
      SInv h' root' (plug c (Nd (Nd a x b) y d)) /\ same_kvc h h' /\ hparent h' x = y /\
      root' = (if hparent h x =? NIL then y else root) /\
      (forall j, j <> x -> j <> y -> hmax h' j = hmax h j) /\
      hmax h' x = rval ggt (hmax h (hleft h x)) (hmax h (hleft h y)) (hmin nmin h x) /\
      hmax h' y = rval ggt (rval ggt (hmax h (hleft h x)) (hmax h (hleft h y)) (hmin nmin h x))
                       (hmax h (hright h y)) (hmin nmin h y).
  Proof.
    intros (HR & HN) Hrot.
    apply Rep_plug in HR. destruct HR as (p & HC & Hx). simpl in Hx.
    destruct Hx as (-> & Hxn & Hxp & Ha & Hr).
    destruct r as [|b y d].
    { simpl in Hr. unfold Tree.left_rotate in Hrot. rewrite Hr in Hrot.
      rewrite Z.eqb_refl, orb_true_r in Hrot. discriminate. }
    simpl in Hr. destruct Hr as (Ey & Hyn & Hyp & Hb & Hd).
    exists b, y, d. split; [reflexivity|]. split; [auto|].
    pose proof HN as HN0. rewrite ids_plug in HN. simpl in HN.
    apply NoDup_mid in HN. destruct HN as (NI & NC & DC).
    assert (DC' : forall z, In z (ids a ++ x :: ids b ++ y :: ids d) -> ~ In z (cids c)).
    { intros z Hz Hc. apply (DC z Hz). apply in_or_app. apply cids_in. exact Hc. }
    apply NoDup_app_iff in NI. destruct NI as (Na & NI & Dax).
    apply NoDup_cons_iff in NI. destruct NI as (Nx & NI).
    apply NoDup_app_iff in NI. destruct NI as (Nb & NI & Dby).
    apply NoDup_cons_iff in NI. destruct NI as (Ny & Nd').
    assert (Hxy : x <> y). { intros ->. apply Nx. apply in_or_app. right. now left. }
    pose proof (Rep_root _ _ _ _ Hb) as Ryl. pose proof (Rep_root _ _ _ _ Hd) as Ryr.
    pose proof (Rep_root _ _ _ _ Ha) as Rxl.
    pose proof (cpar_cases _ _ _ _ HC) as Rxp.
    pose proof (Rep_NIL_notin _ _ _ _ Ha) as NNa. pose proof (Rep_NIL_notin _ _ _ _ Hb) as NNb.
    pose proof (Rep_NIL_notin _ _ _ _ Hd) as NNd.
    assert (Ix : In x (ids a ++ x :: ids b ++ y :: ids d)) by (apply in_or_app; right; now left).
    assert (Iy : In y (ids a ++ x :: ids b ++ y :: ids d)).
    { apply in_or_app; right; right. apply in_or_app; right; now left. }
    assert (Ib : forall z, In z (ids b) -> In z (ids a ++ x :: ids b ++ y :: ids d)).
    { intros z Hz. apply in_or_app; right; right. apply in_or_app; now left. }
    assert (Id : forall z, In z (ids d) -> In z (ids a ++ x :: ids b ++ y :: ids d)).
    { intros z Hz. apply in_or_app; right; right. apply in_or_app; right; now right. }
    assert (Ia : forall z, In z (ids a) -> In z (ids a ++ x :: ids b ++ y :: ids d)).
    { intros z Hz. apply in_or_app; now left. }
    (* the facts about the rotated heap *)
    subst y.
    destruct (lrot_facts ggt nmin h root x h' root' Hrot) as
        (_ & _ & Froot & Fxl & Fxr & Fxp & Fyl & Fyr & Fyp & Fb & Fp & Foth & Fkv & Fmax & Fmx & Fmy).
    { auto. }
    { destruct Ryl as [E|E]; [rewrite E; auto|]. intros E'. rewrite E' in E. apply Nx. apply in_or_app. now left. }
    { destruct Ryl as [E|E]; [rewrite E; auto|]. intros E'. rewrite E' in E. apply (Dby _ E). now left. }
    { destruct Ryr as [E|E]; [rewrite E; auto|]. intros E'. rewrite E' in E. apply Nx. apply in_or_app. right. now right. }
    { rewrite Hxp. destruct Rxp as [E|[E E']]; [rewrite E; auto|]. intros E2. rewrite E2 in E. exact (DC' _ Ix E). }
    { rewrite Hxp. destruct Rxp as [E|[E E']]; [rewrite E; auto|]. intros E2. rewrite E2 in E. exact (DC' _ Iy E). }
    { rewrite Hxp. intros E. destruct Rxp as [E1|[E1 E2]]; [exact E1|]. exfalso.
      destruct Ryl as [E3|E3]; [congruence|]. rewrite E in E3. exact (DC' _ (Ib _ E3) E1). }
    set (y := hright h x) in *. set (yl := hleft h y) in *.
    (* links of untouched nodes *)
    assert (Fsub : forall z, z <> NIL -> In z (ids a) \/ (In z (ids b) /\ z <> yl) \/ In z (ids d) \/
                                       (In z (cids c) /\ z <> cpar c) -> same_ptrs h h' z).
    { intros z Hzn Hz. apply Foth.
      - intros ->. destruct Hz as [Hz|[[Hz _]|[Hz|[Hz _]]]].
        + apply (Dax _ Hz). now left.
        + apply Nx. apply in_or_app. now left.
        + apply Nx. apply in_or_app. right. now right.
        + exact (DC' _ Ix Hz).
      - intros ->. destruct Hz as [Hz|[[Hz _]|[Hz|[Hz _]]]].
        + apply (Dax _ Hz). right. apply in_or_app. right. now left.
        + apply (Dby _ Hz). now left.
        + contradiction.
        + exact (DC' _ Iy Hz).
      - intros ->. destruct Ryl as [E|E]; [congruence|]. destruct Hz as [Hz|[[_ Hz]|[Hz|[Hz _]]]].
        + apply (Dax _ Hz). right. apply in_or_app. now left.
        + congruence.
        + apply (Dby _ E). now right.
        + exact (DC' _ (Ib _ E) Hz).
      - rewrite Hxp. intros ->. destruct Rxp as [E|[E E']]; [congruence|]. destruct Hz as [Hz|[[Hz _]|[Hz|[_ Hz]]]].
        + exact (DC' _ (Ia _ Hz) E).
        + exact (DC' _ (Ib _ Hz) E).
        + exact (DC' _ (Id _ Hz) E).
        + congruence. }
    assert (Hids : ids (plug c (Nd (Nd a x b) y d)) = ids (plug c (Nd a x (Nd b y d)))).
    { rewrite !ids_plug. f_equal. simpl. repeat (rewrite <- app_assoc; simpl). reflexivity. }
    assert (NCc : NoDup (cids c)).
    { eapply Permutation_NoDup; [symmetry; apply cids_perm|exact NC]. }
    pose proof (RepC_NIL_notin _ _ _ _ HC) as NNc.
    split; [|split; [exact Fkv|split; [exact Fxp|split; [exact Froot|split; [exact Fmax|split; [exact Fmx|exact Fmy]]]]]].
    unfold SInv. split.
    - (* representation *)
      apply Rep_plug. exists y. split.
      + eapply RepC_swap; [exact HC| |].
        * intros j Hj Hne. apply Fsub; [|right; right; right; auto]. intros ->. contradiction.
        * destruct c as [|c i r0|c l0 i]; simpl in *.
          -- rewrite Froot, Hxp. reflexivity.
          -- destruct HC as (Hi & Hil & Hip & Hr0 & HC). apply NoDup_cons_iff in NCc. destruct NCc as [NCi _].
             destruct (Fp ltac:(rewrite Hxp; exact Hi)) as (G1 & G2 & _). rewrite Hxp in G1, G2.
             destruct (G2 Hil) as (G3 & G4). rewrite Froot, Hxp.
             destruct (Z.eqb_spec i NIL); [contradiction|]. repeat split; auto.
             ++ intros Hc. apply NCi. apply in_or_app. now left.
             ++ intros Hc. apply NCi. apply in_or_app. now right.
          -- destruct HC as (Hi & Hil & Hip & Hr0 & HC). apply NoDup_cons_iff in NCc. destruct NCc as [NCi _].
             destruct (Fp ltac:(rewrite Hxp; exact Hi)) as (G1 & _ & G2). rewrite Hxp in G1, G2.
             assert (Hne : hleft h i <> x).
             { destruct (Rep_root _ _ _ _ Hr0) as [E|E]; [congruence|]. intros E'. rewrite E' in E.
               apply (DC' _ Ix). right. apply in_or_app. now left. }
             destruct (G2 Hne) as (G3 & G4). rewrite Froot, Hxp.
             destruct (Z.eqb_spec i NIL); [contradiction|]. repeat split; auto.
             ++ intros Hc. apply NCi. apply in_or_app. now left.
             ++ intros Hc. apply NCi. apply in_or_app. now right.
      + simpl. rewrite Fyl, Fyr, Fyp, Fxl, Fxr, Fxp. repeat split; auto.
        * eapply Rep_ext; [|exact Ha]. intros j Hj. apply Fsub; [intros ->; contradiction|auto].
        * eapply Rep_reparent; [exact Hb|exact Nb| |].
          -- intros j Hj Hne. apply Fsub; [intros ->; contradiction|auto].
          -- intros Hn. destruct (Fb Hn) as (G1 & G2 & G3). auto.
        * eapply Rep_ext; [|exact Hd]. intros j Hj. apply Fsub; [intros ->; contradiction|auto].
    - rewrite Hids. exact HN0.
  Qed.

  Lemma rrot_sinv (h : heap) root y h' root' c l d :
    SInv h root (plug c (Nd l y d)) ->
    right_rotate h root y = Some (h', root') ->
    exists a x b, l = Nd a x b /\ x = hleft h y /\
      SInv h' root' (plug c (Nd a x (Nd b y d))) /\ same_kvc h h' /\ hparent h' y = x /\
      root' = (if hparent h y =? NIL then x else root) /\
      (forall j, j <> y -> j <> x -> hmax h' j = hmax h j) /\
      hmax h' y = rval ggt (hmax h (hright h x)) (hmax h (hright h y)) (hmin nmin h y) /\
      hmax h' x = rval ggt (hmax h (hleft h x))
                       (rval ggt (hmax h (hright h x)) (hmax h (hright h y)) (hmin nmin h y)) (hmin nmin h x).
  Proof.
    intros (HR & HN) Hrot.
    apply Rep_plug in HR. destruct HR as (p & HC & Hy). simpl in Hy.
    destruct Hy as (-> & Hyn & Hyp & Hl & Hd).
    destruct l as [|a x b].
    { simpl in Hl. unfold Tree.right_rotate in Hrot. rewrite Hl in Hrot.
      rewrite Z.eqb_refl, orb_true_r in Hrot. discriminate. }
    simpl in Hl. destruct Hl as (Ex & Hxn & Hxp & Ha & Hb).
    exists a, x, b. split; [reflexivity|]. split; [auto|].
    assert (Hids : ids (plug c (Nd a x (Nd b y d))) = ids (plug c (Nd (Nd a x b) y d))).
    { rewrite !ids_plug. f_equal. simpl. repeat (rewrite <- app_assoc; simpl). reflexivity. }
    pose proof HN as HN0. rewrite <- Hids in HN. rewrite ids_plug in HN. simpl in HN.
    apply NoDup_mid in HN. destruct HN as (NI & NC & DC).
    assert (DC' : forall z, In z (ids a ++ x :: ids b ++ y :: ids d) -> ~ In z (cids c)).
    { intros z Hz Hc. apply (DC z Hz). apply in_or_app. apply cids_in. exact Hc. }
    apply NoDup_app_iff in NI. destruct NI as (Na & NI & Dax).
    apply NoDup_cons_iff in NI. destruct NI as (Nx & NI).
    apply NoDup_app_iff in NI. destruct NI as (Nb & NI & Dby).
    apply NoDup_cons_iff in NI. destruct NI as (Ny & Nd').
    assert (Hxy : x <> y). { intros ->. apply Nx. apply in_or_app. right. now left. }
    pose proof (Rep_root _ _ _ _ Hb) as Rxr. pose proof (Rep_root _ _ _ _ Hd) as Ryr.
    pose proof (Rep_root _ _ _ _ Ha) as Rxl.
    pose proof (cpar_cases _ _ _ _ HC) as Ryp.
    pose proof (Rep_NIL_notin _ _ _ _ Ha) as NNa. pose proof (Rep_NIL_notin _ _ _ _ Hb) as NNb.
    pose proof (Rep_NIL_notin _ _ _ _ Hd) as NNd.
    assert (Ix : In x (ids a ++ x :: ids b ++ y :: ids d)) by (apply in_or_app; right; now left).
    assert (Iy : In y (ids a ++ x :: ids b ++ y :: ids d)).
    { apply in_or_app; right; right. apply in_or_app; right; now left. }
    assert (Ib : forall z, In z (ids b) -> In z (ids a ++ x :: ids b ++ y :: ids d)).
    { intros z Hz. apply in_or_app; right; right. apply in_or_app; now left. }
    assert (Id : forall z, In z (ids d) -> In z (ids a ++ x :: ids b ++ y :: ids d)).
    { intros z Hz. apply in_or_app; right; right. apply in_or_app; right; now right. }
    assert (Ia : forall z, In z (ids a) -> In z (ids a ++ x :: ids b ++ y :: ids d)).
    { intros z Hz. apply in_or_app; now left. }
    subst x.
    destruct (rrot_facts ggt nmin h root y h' root' Hrot) as
        (_ & _ & Froot & Fyr & Fyl & Fyp & Fxr & Fxl & Fxp & Fb & Fp & Foth & Fkv & Fmax & Fmy & Fmx).
    { auto. }
    { destruct Rxr as [E|E]; [rewrite E; auto|]. intros E'. rewrite E' in E. apply (Dby _ E). now left. }
    { destruct Rxr as [E|E]; [rewrite E; auto|]. intros E'. rewrite E' in E. apply Nx. apply in_or_app. now left. }
    { destruct Rxl as [E|E]; [rewrite E; auto|]. intros E'. rewrite E' in E. apply (Dax _ E). right.
      apply in_or_app. right. now left. }
    { rewrite Hyp. destruct Ryp as [E|[E E']]; [rewrite E; auto|]. intros E2. rewrite E2 in E. exact (DC' _ Iy E). }
    { rewrite Hyp. destruct Ryp as [E|[E E']]; [rewrite E; auto|]. intros E2. rewrite E2 in E. exact (DC' _ Ix E). }
    { rewrite Hyp. intros E. destruct Ryp as [E1|[E1 E2]]; [exact E1|]. exfalso.
      destruct Rxr as [E3|E3]; [congruence|]. rewrite E in E3. exact (DC' _ (Ib _ E3) E1). }
    set (x := hleft h y) in *. set (xr := hright h x) in *.
    assert (Fsub : forall z, z <> NIL -> In z (ids a) \/ (In z (ids b) /\ z <> xr) \/ In z (ids d) \/
                                       (In z (cids c) /\ z <> cpar c) -> same_ptrs h h' z).
    { intros z Hzn Hz. apply Foth.
      - intros ->. destruct Hz as [Hz|[[Hz _]|[Hz|[Hz _]]]].
        + apply (Dax _ Hz). right. apply in_or_app. right. now left.
        + apply (Dby _ Hz). now left.
        + contradiction.
        + exact (DC' _ Iy Hz).
      - intros ->. destruct Hz as [Hz|[[Hz _]|[Hz|[Hz _]]]].
        + apply (Dax _ Hz). now left.
        + apply Nx. apply in_or_app. now left.
        + apply Nx. apply in_or_app. right. now right.
        + exact (DC' _ Ix Hz).
      - intros ->. destruct Rxr as [E|E]; [congruence|]. destruct Hz as [Hz|[[_ Hz]|[Hz|[Hz _]]]].
        + apply (Dax _ Hz). right. apply in_or_app. now left.
        + congruence.
        + apply (Dby _ E). now right.
        + exact (DC' _ (Ib _ E) Hz).
      - rewrite Hyp. intros ->. destruct Ryp as [E|[E E']]; [congruence|]. destruct Hz as [Hz|[[Hz _]|[Hz|[_ Hz]]]].
        + exact (DC' _ (Ia _ Hz) E).
        + exact (DC' _ (Ib _ Hz) E).
        + exact (DC' _ (Id _ Hz) E).
        + congruence. }
    assert (NCc : NoDup (cids c)).
    { eapply Permutation_NoDup; [symmetry; apply cids_perm|exact NC]. }
    pose proof (RepC_NIL_notin _ _ _ _ HC) as NNc.
    split; [|split; [exact Fkv|split; [exact Fyp|split; [exact Froot|split; [exact Fmax|split; [exact Fmy|exact Fmx]]]]]].
    unfold SInv. split.
    - apply Rep_plug. exists x. split.
      + eapply RepC_swap; [exact HC| |].
        * intros j Hj Hne. apply Fsub; [|right; right; right; auto]. intros ->. contradiction.
        * destruct c as [|c i r0|c l0 i]; simpl in *.
          -- rewrite Froot, Hyp. reflexivity.
          -- destruct HC as (Hi & Hil & Hip & Hr0 & HC). apply NoDup_cons_iff in NCc. destruct NCc as [NCi _].
             destruct (Fp ltac:(rewrite Hyp; exact Hi)) as (G1 & G2 & _). rewrite Hyp in G1, G2.
             destruct (G2 Hil) as (G3 & G4). rewrite Froot, Hyp.
             destruct (Z.eqb_spec i NIL); [contradiction|]. repeat split; auto.
             ++ intros Hc. apply NCi. apply in_or_app. now left.
             ++ intros Hc. apply NCi. apply in_or_app. now right.
          -- destruct HC as (Hi & Hil & Hip & Hr0 & HC). apply NoDup_cons_iff in NCc. destruct NCc as [NCi _].
             destruct (Fp ltac:(rewrite Hyp; exact Hi)) as (G1 & _ & G2). rewrite Hyp in G1, G2.
             assert (Hne : hleft h i <> y).
             { destruct (Rep_root _ _ _ _ Hr0) as [E|E]; [congruence|]. intros E'. rewrite E' in E.
               apply (DC' _ Iy). right. apply in_or_app. now left. }
             destruct (G2 Hne) as (G3 & G4). rewrite Froot, Hyp.
             destruct (Z.eqb_spec i NIL); [contradiction|]. repeat split; auto.
             ++ intros Hc. apply NCi. apply in_or_app. now left.
             ++ intros Hc. apply NCi. apply in_or_app. now right.
      + simpl. rewrite Fxl, Fxr, Fxp, Fyl, Fyr, Fyp. repeat split; auto.
        * eapply Rep_ext; [|exact Ha]. intros j Hj. apply Fsub; [intros ->; contradiction|auto].
        * eapply Rep_reparent; [exact Hb|exact Nb| |].
          -- intros j Hj Hne. apply Fsub; [intros ->; contradiction|auto].
          -- intros Hn. destruct (Fb Hn) as (G1 & G2 & G3). auto.
        * eapply Rep_ext; [|exact Hd]. intros j Hj. apply Fsub; [intros ->; contradiction|auto].
    - rewrite Hids. exact HN0.
  Qed.


  Definition same_kv (h h' : heap) : Prop := forall j, hkey h' j = hkey h j /\ hval h' j = hval h j.
  Lemma skv_refl h : same_kv h h. Proof. intros j; auto. Qed.
  Lemma skv_trans h1 h2 h3 : same_kv h1 h2 -> same_kv h2 h3 -> same_kv h1 h3.
  Proof. intros A B j. destruct (A j) as [A1 A2], (B j) as [B1 B2]. split; congruence. Qed.
  Lemma skvc_kv h h' : same_kvc h h' -> same_kv h h'.
  Proof. intros A j. destruct (A j) as (A1 & A2 & _). auto. Qed.

  Lemma SGood_ext h h' root l : (forall j, same_ptrs h h' j) -> SGood h root l -> SGood h' root l.
  Proof.
    intros E (s & (HR & HN) & <-). exists s. split; [split; [|exact HN]|reflexivity].
    eapply Rep_ext; [|exact HR]. intros j _. apply E.
  Qed.
  Lemma SGood_set_red h root l i c : SGood h root l -> SGood (set_red h i c) root l.
  Proof. apply SGood_ext. intros j. unfold same_ptrs. now autorewrite with heap. Qed.
  Lemma SGood_set_max h root l i c : SGood h root l -> SGood (set_max h i c) root l.
  Proof. apply SGood_ext. intros j. unfold same_ptrs. now autorewrite with heap. Qed.
  Lemma set_red_skv h i c : same_kv h (set_red h i c).
  Proof. intros j. now autorewrite with heap. Qed.
  Lemma set_max_skv h i c : same_kv h (set_max h i c).
  Proof. intros j. now autorewrite with heap. Qed.

  Lemma nil_black_set_red (h : heap) i c : hred h NIL = false -> (c = false \/ i <> NIL) ->
    hred (set_red h i c) NIL = false.
  Proof.
    intros H Hc. autorewrite with heap. destruct (Z.eqb_spec i NIL); [|exact H].
    destruct Hc; [assumption|contradiction].
  Qed.

  (* where a node sits *)
  Lemma node_pos h root l x : SGood h root l -> In x l ->
    exists c a b, Rep h root NIL (plug c (Nd a x b)) /\ NoDup (ids (plug c (Nd a x b))) /\
                  ids (plug c (Nd a x b)) = l /\ RepC h c x root /\ Rep h x (cpar c) (Nd a x b).
  Proof.
    intros (s & (HR & HN) & <-) Hx. destruct (find_node _ _ Hx) as (c & a & b & ->).
    exists c, a, b. split; [exact HR|]. split; [exact HN|]. split; [reflexivity|].
    apply Rep_plug in HR. destruct HR as (p & HC & Hp). pose proof Hp as Hp0. simpl in Hp. destruct Hp as (-> & _).
    split; assumption.
  Qed.

  Lemma sparent_closed h root l x : SGood h root l -> In x l -> hparent h x = NIL \/ In (hparent h x) l.
  Proof.
    intros HG Hx. destruct (node_pos _ _ _ _ HG Hx) as (c & a & b & _ & _ & <- & HC & HRx).
    simpl in HRx. destruct HRx as (_ & _ & Hp & _). rewrite Hp.
    destruct (cpar_cases _ _ _ _ HC) as [E|[E _]]; [now left|right].
    rewrite ids_plug. apply cids_in in E.
    destruct E as [E|E]; apply in_or_app; [now left|right; apply in_or_app; now right].
  Qed.

  Lemma parent_in h root l x : SGood h root l -> In x l -> x <> root -> In (hparent h x) l.
  Proof.
    intros HG Hx Hne. destruct (node_pos _ _ _ _ HG Hx) as (c & a & b & _ & _ & <- & HC & HRx).
    simpl in HRx. destruct HRx as (_ & _ & Hp & _). rewrite Hp.
    destruct (cpar_cases _ _ _ _ HC) as [E|[E _]].
    - exfalso. destruct c as [|c i r|c l0 i]; simpl in E, HC; [congruence| |]; destruct HC as (Hi & _); congruence.
    - rewrite ids_plug. apply cids_in in E.
      destruct E as [E|E]; apply in_or_app; [now left|right; apply in_or_app; now right].
  Qed.

  Lemma child_cases h root l x : SGood h root l -> In x l -> x <> root ->
    (hleft h (hparent h x) = x /\ hright h (hparent h x) <> x) \/
    (hright h (hparent h x) = x /\ hleft h (hparent h x) <> x).
  Proof.
    intros HG Hx Hne. destruct (node_pos _ _ _ _ HG Hx) as (c & a & b & _ & HN & <- & HC & HRx).
    pose proof HRx as HRx0. simpl in HRx. destruct HRx as (_ & Hxn & Hp & _). rewrite Hp.
    rewrite ids_plug in HN. apply NoDup_mid in HN. destruct HN as (_ & _ & DC).
    assert (Hxi : In x (ids (Nd a x b))) by (simpl; apply in_or_app; right; now left).
    destruct c as [|c i r|c l0 i]; simpl in HC |- *.
    - congruence.
    - destruct HC as (_ & Hl & _ & Hr & _). left. split; [exact Hl|].
      destruct (Rep_root _ _ _ _ Hr) as [E|E]; [congruence|]. intros E'. rewrite E' in E.
      apply (DC x Hxi). simpl. apply in_or_app. right. right. apply in_or_app. now left.
    - destruct HC as (_ & Hl & _ & Hr & _). right. split; [exact Hl|].
      destruct (Rep_root _ _ _ _ Hr) as [E|E]; [congruence|]. intros E'. rewrite E' in E.
      apply (DC x Hxi). simpl. apply in_or_app. left. apply in_or_app. right. apply in_or_app. now left.
  Qed.

  Lemma child_in h root l x : SGood h root l -> In x l ->
    (hleft h x = NIL \/ In (hleft h x) l) /\ (hright h x = NIL \/ In (hright h x) l).
  Proof.
    intros HG Hx. destruct (node_pos _ _ _ _ HG Hx) as (c & a & b & _ & _ & <- & HC & HRx).
    simpl in HRx. destruct HRx as (_ & _ & _ & Ha & Hb). rewrite ids_plug. simpl. split.
    - destruct (Rep_root _ _ _ _ Ha) as [E|E]; [now left|right].
      apply in_or_app; right. apply in_or_app; left. apply in_or_app. now left.
    - destruct (Rep_root _ _ _ _ Hb) as [E|E]; [now left|right].
      apply in_or_app; right. apply in_or_app; left. apply in_or_app. right. now right.
  Qed.

  Lemma children_distinct h root l x : SGood h root l -> In x l -> hleft h x <> NIL -> hleft h x <> hright h x.
  Proof.
    intros HG Hx Hn. destruct (node_pos _ _ _ _ HG Hx) as (c & a & b & _ & HN & <- & HC & HRx).
    simpl in HRx. destruct HRx as (_ & _ & _ & Ha & Hb).
    rewrite ids_plug in HN. apply NoDup_mid in HN. destruct HN as (HN & _). simpl in HN.
    apply NoDup_app_iff in HN. destruct HN as (_ & _ & D).
    destruct (Rep_root _ _ _ _ Ha) as [E|E]; [contradiction|].
    destruct (Rep_root _ _ _ _ Hb) as [E2|E2]; [congruence|]. intros E3. rewrite E3 in E.
    apply (D _ E). now right.
  Qed.

  Lemma sroot_in h root l : SGood h root l -> l <> [] -> In root l.
  Proof.
    intros (s & (HR & _) & <-) Hne. destruct (Rep_root _ _ _ _ HR) as [E|E]; [|exact E].
    exfalso. apply Hne. now rewrite (Rep_root_L _ _ _ _ HR E).
  Qed.

  Lemma lrot_sgood h root l x h' root' :
    SGood h root l -> In x l -> left_rotate h root x = Some (h', root') ->
    SGood h' root' l /\ same_kvc h h' /\
    root' = (if hparent h x =? NIL then hright h x else root) /\
    x <> NIL /\ hright h x <> NIL /\ In (hright h x) l.
  Proof.
    intros HG Hx Hrot. destruct (node_pos _ _ _ _ HG Hx) as (c & a & r & HR & HN & <- & HC & HRx).
    destruct (lrot_sinv _ _ _ _ _ _ _ _ (conj HR HN) Hrot) as (b & y & d & -> & Ey & HT' & Hkv & Hp & Hroot & _).
    assert (Hids : ids (plug c (Nd (Nd a x b) y d)) = ids (plug c (Nd a x (Nd b y d)))).
    { rewrite !ids_plug. f_equal. simpl. repeat (rewrite <- app_assoc; simpl). reflexivity. }
    split; [exists (plug c (Nd (Nd a x b) y d)); split; [exact HT'|exact Hids]|].
    split; [exact Hkv|]. split; [rewrite <- Ey; exact Hroot|].
    unfold Tree.left_rotate in Hrot.
    destruct (x =? NIL) eqn:E1; [discriminate|]. destruct (hright h x =? NIL) eqn:E2; [discriminate|].
    apply Z.eqb_neq in E1, E2. split; [exact E1|]. split; [exact E2|].
    rewrite <- Ey, ids_plug. apply in_or_app; right. apply in_or_app; left. simpl.
    apply in_or_app; right; right. apply in_or_app; right; now left.
  Qed.

  Lemma rrot_sgood h root l y h' root' :
    SGood h root l -> In y l -> right_rotate h root y = Some (h', root') ->
    SGood h' root' l /\ same_kvc h h' /\
    root' = (if hparent h y =? NIL then hleft h y else root) /\
    y <> NIL /\ hleft h y <> NIL /\ In (hleft h y) l.
  Proof.
    intros HG Hy Hrot. destruct (node_pos _ _ _ _ HG Hy) as (c & l0 & d & HR & HN & <- & HC & HRy).
    destruct (rrot_sinv _ _ _ _ _ _ _ _ (conj HR HN) Hrot) as (a & x & b & -> & Ex & HT' & Hkv & Hp & Hroot & _).
    assert (Hids : ids (plug c (Nd a x (Nd b y d))) = ids (plug c (Nd (Nd a x b) y d))).
    { rewrite !ids_plug. f_equal. simpl. repeat (rewrite <- app_assoc; simpl). reflexivity. }
    split; [exists (plug c (Nd a x (Nd b y d))); split; [exact HT'|exact Hids]|].
    split; [exact Hkv|]. split; [rewrite <- Ex; exact Hroot|].
    unfold Tree.right_rotate in Hrot.
    destruct (y =? NIL) eqn:E1; [discriminate|]. destruct (hleft h y =? NIL) eqn:E2; [discriminate|].
    apply Z.eqb_neq in E1, E2. split; [exact E1|]. split; [exact E2|].
    rewrite <- Ex, ids_plug. apply in_or_app; right. apply in_or_app; left. simpl.
    apply in_or_app; left. apply in_or_app; right; now left.
  Qed.
End Struct.
