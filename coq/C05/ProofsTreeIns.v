(* C05/ProofsTreeIns.v — _insert_into_tree on the concrete tree: the descent finds the
   leaf position dictated by the key order, attaching the new row there yields a
   well-formed tree whose in-order sequence is the old one with the new id inserted
   at the sorted position, the upward loop restores the cached maxima, and the
   fix-up keeps all of that. *)
Require Import Base.Prelude.
Require Import C05.Tree C05.ProofsTreeBase C05.ProofsTreeRot C05.ProofsTreeInv C05.ProofsTreeFix.
Require Import Permutation Sorted.

Lemma SSorted_app_iff {T} (R : T -> T -> Prop) (l1 l2 : list T) :
  StronglySorted R (l1 ++ l2) <->
  StronglySorted R l1 /\ StronglySorted R l2 /\ (forall a b, In a l1 -> In b l2 -> R a b).
Proof.
  induction l1 as [|x l1 IH]; simpl.
  - split; [intros H; repeat split; auto; [constructor|intros a b []]|tauto].
  - split.
    + intros H. inversion H as [|? ? H1 H2]; subst. apply IH in H1. destruct H1 as (A & B & C).
      rewrite Forall_app in H2. destruct H2 as [F1 F2]. rewrite Forall_forall in F1, F2.
      split; [constructor; [exact A|apply Forall_forall; exact F1]|]. split; [exact B|].
      intros a b [<-|Ha] Hb; [apply F2; exact Hb|apply C; assumption].
    + intros (A & B & C). inversion A as [|? ? A1 A2]; subst. constructor.
      * apply IH. repeat split; auto.
      * rewrite Forall_forall in A2. apply Forall_forall. intros b Hb. apply in_app_or in Hb.
        destruct Hb as [Hb|Hb]; [apply A2; exact Hb|apply C; [now left|exact Hb]].
Qed.

Section Ins.
  Context {K G N : Type}.
  Variable klt : K -> K -> bool.
  Variable ggt : G -> G -> bool.
  Variable nmin : N -> G.
  Variable smallest : G.
  Notation heap := (@heap K G N).
  Notation hmin := (@hmin K G N nmin).
  Notation TInv := (@TInv K G N ggt nmin smallest).
  Notation Good := (@Good K G N ggt nmin smallest).
  Notation MaxV := (@MaxV G ggt).
  Notation MaxOK := (@MaxOK K G N ggt nmin).
  Notation MaxOKC := (@MaxOKC K G N ggt nmin).
  Hypothesis ggt_asym : forall a b, ggt a b = true -> ggt b a = false.
  Hypothesis gle_trans : forall a b c, gle ggt a b -> gle ggt b c -> gle ggt a c.
  Hypothesis klt_trans : forall a b c, klt a b = true -> klt b c = true -> klt a c = true.

  (* the keys along the id list are strictly increasing *)
  Definition KSorted (h : heap) (l : list Z) : Prop :=
    StronglySorted (fun i j => klt (hkey h i) (hkey h j) = true) l.

  Lemma KSorted_ext h h' l : (forall j, In j l -> hkey h' j = hkey h j) -> KSorted h l -> KSorted h' l.
  Proof.
    unfold KSorted. induction l as [|x l IH]; intros E H; [constructor|].
    inversion H as [|? ? H1 H2]; subst. constructor.
    - apply IH; auto. intros j Hj. apply E. now right.
    - rewrite Forall_forall in *. intros j Hj. rewrite E by now left. rewrite (E j) by now right. auto.
  Qed.

  (* ---- the descent ---- *)
  Definition lo_ok (h : heap) (k : K) (l : list Z) : Prop := forall j, In j l -> klt (hkey h j) k = true.
  Definition hi_ok (h : heap) (k : K) (l : list Z) : Prop := forall j, In j l -> klt k (hkey h j) = true.
  Definition dir_ok (h : heap) (k : K) (c : ctx) : Prop :=
    match c with
    | Top => False
    | CL _ i _ => klt k (hkey h i) = true
    | CR _ _ i => klt k (hkey h i) = false
    end.

  Lemma descend_ok (h : heap) (k : K) root : forall fuel c p s cur,
    RepC h c p root -> Rep h p (cpar c) s ->
    KSorted h (ids (plug c s)) ->
    (forall j, In j (ids (plug c s)) -> klt k (hkey h j) = true \/ klt (hkey h j) k = true) ->
    lo_ok h k (cbefore c) -> hi_ok h k (cafter c) -> dir_ok h k c ->
    descend klt fuel h k (cpar c) p = Some cur ->
    exists c', plug c' L = plug c s /\ RepC h c' NIL root /\ cur = cpar c' /\
               lo_ok h k (cbefore c') /\ hi_ok h k (cafter c') /\ dir_ok h k c'.
  Proof.
    induction fuel as [|f IH]; intros c p s cur HC HR HK HD Hlo Hhi Hdir H; simpl in H.
    - destruct (Z.eqb_spec p NIL) as [->|Hp]; [|discriminate]. injection H as <-.
      rewrite (Rep_root_L _ _ _ _ HR eq_refl). exists c. repeat split; auto.
    - destruct (Z.eqb_spec p NIL) as [->|Hp].
      + injection H as <-. rewrite (Rep_root_L _ _ _ _ HR eq_refl). exists c. repeat split; auto.
      + destruct s as [|l i r]; [simpl in HR; contradiction|].
        simpl in HR. destruct HR as (-> & Hi & Hpar & Hl & Hr).
        pose proof HK as HK0. rewrite ids_plug in HK. simpl in HK.
        apply SSorted_app_iff in HK. destruct HK as (_ & HK & _).
        apply SSorted_app_iff in HK. destruct HK as (HK & _ & _).
        apply SSorted_app_iff in HK. destruct HK as (_ & HK & Hli).
        inversion HK as [|? ? _ Hir]; subst. rewrite Forall_forall in Hir.
        unfold ins_next in H. destruct (klt k (hkey h i)) eqn:Ek.
        * (* left *)
          apply (IH (CL c i r) (hleft h i) l cur) in H.
          -- destruct H as (c' & E & R). exists c'. split; [exact E|exact R].
          -- simpl. repeat split; auto.
          -- exact Hl.
          -- exact HK0.
          -- exact HD.
          -- exact Hlo.
          -- simpl. intros j [<-|Hj]; [exact Ek|]. apply in_app_or in Hj. destruct Hj as [Hj|Hj].
             ++ eapply klt_trans; [exact Ek|apply Hir; exact Hj].
             ++ apply Hhi; exact Hj.
          -- exact Ek.
        * (* right *)
          assert (Eik : klt (hkey h i) k = true).
          { destruct (HD i) as [E|E]; [|congruence|exact E].
            rewrite ids_plug. apply in_or_app; right. apply in_or_app; left. simpl.
            apply in_or_app; right; now left. }
          apply (IH (CR c l i) (hright h i) r cur) in H.
          -- destruct H as (c' & E & R). exists c'. split; [exact E|exact R].
          -- simpl. repeat split; auto.
          -- exact Hr.
          -- exact HK0.
          -- exact HD.
          -- simpl. intros j Hj. apply in_app_or in Hj. destruct Hj as [Hj|Hj]; [apply Hlo; exact Hj|].
             apply in_app_or in Hj. destruct Hj as [Hj|[<-|[]]]; [|exact Eik].
             eapply klt_trans; [apply Hli; [exact Hj|now left]|exact Eik].
          -- exact Hhi.
          -- exact Ek.
  Qed.
End Ins.
