(* C05/ProofsTreeIns.v — _insert_into_tree on the concrete tree: the descent finds the
   leaf position dictated by the key order, attaching the new row there yields a
   well-formed tree whose in-order sequence is the old one with the new id inserted
   at the sorted position, the upward loop restores the cached maxima, and the
   fix-up keeps all of that. *)
Require Import Base.Prelude.
Require Import C05.Sweep C05.Tree C05.ProofsTreeBase C05.ProofsTreeRot C05.ProofsTreeInv C05.ProofsTreeFix.
Require Import Permutation Sorted.

Lemma SSorted_app_iff {T} (R : T -> T -> Prop) (l1 l2 : list T) :
  StronglySorted R (l1 ++ l2) <->
  StronglySorted R l1 /\ StronglySorted R l2 /\ (forall a b, In a l1 -> In b l2 -> R a b).
Proof.
  induction l1 as [|x l1 IH]; simpl.
  - split; [intros H; repeat split; auto; [constructor|intros a b []]|tauto].
  - split.
    + intros H. inversion H as [|? ? H1 H2]; subst. apply IH in H1. destruct H1 as (A & B & C).
      rewrite Forall_app in H2. destruct H2 as [F1 F2]. rewrite Forall_forall in F1, F2.
      split; [constructor; [exact A|apply Forall_forall; exact F1]|]. split; [exact B|].
      intros a b [<-|Ha] Hb; [apply F2; exact Hb|apply C; assumption].
    + intros (A & B & C). inversion A as [|? ? A1 A2]; subst. constructor.
      * apply IH. repeat split; auto.
      * rewrite Forall_forall in A2. apply Forall_forall. intros b Hb. apply in_app_or in Hb.
        destruct Hb as [Hb|Hb]; [apply A2; exact Hb|apply C; [now left|exact Hb]].
Qed.

Section Ins.
  Context {K G N : Type}.
  Variable klt : K -> K -> bool.
  Variable ggt : G -> G -> bool.
  Variable nmin : N -> G.
  Variable smallest : G.
  Notation heap := (@heap K G N).
  Notation hmin := (@hmin K G N nmin).
  Notation TInv := (@TInv K G N ggt nmin smallest).
  Notation Good := (@Good K G N ggt nmin smallest).
  Notation MaxV := (@MaxV G ggt).
  Notation MaxOK := (@MaxOK K G N ggt nmin).
  Notation MaxOKC := (@MaxOKC K G N ggt nmin).
  Hypothesis ggt_asym : forall a b, ggt a b = true -> ggt b a = false.
  Hypothesis gle_trans : forall a b c, gle ggt a b -> gle ggt b c -> gle ggt a c.
  Hypothesis klt_trans : forall a b c, klt a b = true -> klt b c = true -> klt a c = true.

  (* the keys along the id list are strictly increasing *)
  Definition KSorted (h : heap) (l : list Z) : Prop :=
    StronglySorted (fun i j => klt (hkey h i) (hkey h j) = true) l.

  Lemma KSorted_ext h h' l : (forall j, In j l -> hkey h' j = hkey h j) -> KSorted h l -> KSorted h' l.
  Proof.
    unfold KSorted. induction l as [|x l IH]; intros E H; [constructor|].
    inversion H as [|? ? H1 H2]; subst. constructor.
    - apply IH; auto. intros j Hj. apply E. now right.
    - rewrite Forall_forall in *. intros j Hj. rewrite E by now left. rewrite (E j) by now right. auto.
  Qed.

  (* ---- the descent ---- *)
  Definition lo_ok (h : heap) (k : K) (l : list Z) : Prop := forall j, In j l -> klt (hkey h j) k = true.
  Definition hi_ok (h : heap) (k : K) (l : list Z) : Prop := forall j, In j l -> klt k (hkey h j) = true.
  Definition dir_ok (h : heap) (k : K) (c : ctx) : Prop :=
    match c with
    | Top => False
    | CL _ i _ => klt k (hkey h i) = true
    | CR _ _ i => klt k (hkey h i) = false
    end.

  Lemma descend_ok (h : heap) (k : K) root : forall fuel c p s cur,
    RepC h c p root -> Rep h p (cpar c) s ->
    KSorted h (ids (plug c s)) ->
    (forall j, In j (ids (plug c s)) -> klt k (hkey h j) = true \/ klt (hkey h j) k = true) ->
    lo_ok h k (cbefore c) -> hi_ok h k (cafter c) -> (p = NIL -> dir_ok h k c) ->
    descend klt fuel h k (cpar c) p = Some cur ->
    exists c', plug c' L = plug c s /\ RepC h c' NIL root /\ cur = cpar c' /\
               lo_ok h k (cbefore c') /\ hi_ok h k (cafter c') /\ dir_ok h k c'.
  Proof.
    induction fuel as [|f IH]; intros c p s cur HC HR HK HD Hlo Hhi Hdir H; simpl in H.
    - destruct (Z.eqb_spec p NIL) as [->|Hp]; [|discriminate]. injection H as <-.
      rewrite (Rep_root_L _ _ _ _ HR eq_refl). exists c. repeat split; auto.
    - destruct (Z.eqb_spec p NIL) as [->|Hp].
      + injection H as <-. rewrite (Rep_root_L _ _ _ _ HR eq_refl). exists c. repeat split; auto.
      + destruct s as [|l i r]; [simpl in HR; contradiction|].
        simpl in HR. destruct HR as (-> & Hi & Hpar & Hl & Hr).
        pose proof HK as HK0. rewrite ids_plug in HK. simpl in HK.
        apply SSorted_app_iff in HK. destruct HK as (_ & HK & _).
        apply SSorted_app_iff in HK. destruct HK as (HK & _ & _).
        apply SSorted_app_iff in HK. destruct HK as (_ & HK & Hli).
        inversion HK as [|? ? _ Hir]; subst. rewrite Forall_forall in Hir.
        unfold ins_next in H. destruct (klt k (hkey h i)) eqn:Ek.
        * (* left *)
          apply (IH (CL c i r) (hleft h i) l cur) in H.
          -- destruct H as (c' & E & R). exists c'. split; [exact E|exact R].
          -- simpl. repeat split; auto.
          -- exact Hl.
          -- exact HK0.
          -- exact HD.
          -- exact Hlo.
          -- simpl. intros j [<-|Hj]; [exact Ek|]. apply in_app_or in Hj. destruct Hj as [Hj|Hj].
             ++ eapply klt_trans; [exact Ek|apply Hir; exact Hj].
             ++ apply Hhi; exact Hj.
          -- intros _. exact Ek.
        * (* right *)
          assert (Eik : klt (hkey h i) k = true).
          { destruct (HD i) as [E|E]; [|congruence|exact E].
            rewrite ids_plug. apply in_or_app; right. apply in_or_app; left. simpl.
            apply in_or_app; right; now left. }
          apply (IH (CR c l i) (hright h i) r cur) in H.
          -- destruct H as (c' & E & R). exists c'. split; [exact E|exact R].
          -- simpl. repeat split; auto.
          -- exact Hr.
          -- exact HK0.
          -- exact HD.
          -- simpl. intros j Hj. apply in_app_or in Hj. destruct Hj as [Hj|Hj]; [apply Hlo; exact Hj|].
             apply in_app_or in Hj. destruct Hj as [Hj|[<-|[]]]; [|exact Eik].
             eapply klt_trans; [apply Hli; [exact Hj|now left]|exact Eik].
          -- exact Hhi.
          -- intros _. exact Ek.
  Qed.

  (* ---- attaching the new row ---- *)
  Definition attach (h : heap) (id cur : Z) (k : K) (v : N) : heap :=
    let h := hset h id (mkT k v smallest true NIL NIL NIL) in
    let h := set_parent h id cur in
    let h := if klt k (hkey h cur) then set_left h cur id else set_right h cur id in
    set_max h id (hmin h id).

  Lemma t_insert_unfold fuel (t : @tree K G N) id k v :
    t_insert klt ggt nmin smallest fuel t id k v =
    match descend klt fuel (th t) k (troot t) (ins_next klt (th t) k (troot t)) with
    | None => None
    | Some cur =>
      match ins_up ggt fuel (attach (th t) id cur k v) id with
      | None => None
      | Some h => match ifix ggt nmin fuel h (troot t) id with
                  | None => None
                  | Some (h, root) => Some (mkTree h root)
                  end
      end
    end.
  Proof. reflexivity. Qed.

  Lemma attach_facts (h : heap) id cur k v :
    cur <> id ->
    let h' := attach h id cur k v in
    (forall j, j <> id -> j <> cur ->
       hkey h' j = hkey h j /\ hval h' j = hval h j /\ hmax h' j = hmax h j /\ hred h' j = hred h j /\
       hleft h' j = hleft h j /\ hright h' j = hright h j /\ hparent h' j = hparent h j) /\
    (hkey h' id = k /\ hval h' id = v /\ hmax h' id = nmin v /\ hred h' id = true /\
     hleft h' id = NIL /\ hright h' id = NIL /\ hparent h' id = cur) /\
    (hkey h' cur = hkey h cur /\ hval h' cur = hval h cur /\ hmax h' cur = hmax h cur /\
     hred h' cur = hred h cur /\ hparent h' cur = hparent h cur /\
     (if klt k (hkey h cur) then hleft h' cur = id /\ hright h' cur = hright h cur
      else hright h' cur = id /\ hleft h' cur = hleft h cur)).
  Proof.
    intros Hne h'. subst h'. unfold attach.
    assert (Ek : hkey (set_parent (hset h id (mkT k v smallest true NIL NIL NIL)) id cur) cur = hkey h cur).
    { hs. reflexivity. }
    rewrite Ek. unfold Tree.hmin.
    split; [|split].
    - intros j J1 J2. destruct (klt k (hkey h cur)); repeat split; hs; reflexivity.
    - destruct (klt k (hkey h cur)); repeat split; hs; reflexivity.
    - destruct (klt k (hkey h cur)); repeat split; hs; reflexivity.
  Qed.

  (* ---- the upward loop restoring the cached maxima ---- *)
  Lemma MaxV_members hm m l l' : (forall j, In j l <-> In j l') -> MaxV hm m l -> MaxV hm m l'.
  Proof.
    intros E [U (w & Hw & Aw)]. split.
    - intros j Hj. apply U. apply E. exact Hj.
    - exists w. split; [apply E; exact Hw|exact Aw].
  Qed.

  Lemma MaxV_up hm mn mi ln L L' :
    MaxV hm mn ln -> MaxV hm mi L -> (forall j, In j L' <-> In j ln \/ In j L) ->
    MaxV hm (if ggt mn mi then mn else mi) L'.
  Proof.
    intros [Un (wn & Hwn & Awn)] [Ui (wi & Hwi & Awi)] E.
    assert (Hn : gle ggt mn (if ggt mn mi then mn else mi) /\ gle ggt mi (if ggt mn mi then mn else mi)).
    { destruct (ggt mn mi) eqn:Eg; split.
      - apply (gle_refl ggt ggt_asym).
      - apply ggt_asym. exact Eg.
      - exact Eg.
      - apply (gle_refl ggt ggt_asym). }
    destruct Hn as [Hn Hi]. split.
    - intros j Hj. apply E in Hj. destruct Hj as [Hj|Hj].
      + eapply gle_trans; [apply Un; exact Hj|exact Hn].
      + eapply gle_trans; [apply Ui; exact Hj|exact Hi].
    - destruct (ggt mn mi).
      + exists wn. split; [apply E; now left|exact Awn].
      + exists wi. split; [apply E; now right|exact Awi].
  Qed.

  Lemma MaxOKC_add h c id : forall l l',
    (forall j, In j l' <-> j = id \/ In j l) ->
    (exists j0, In j0 l /\ gle ggt (hmin h id) (hmin h j0)) ->
    MaxOKC h c l -> MaxOKC h c l'.
  Proof.
    induction c as [|c IH i r|c IH l0 i]; simpl; intros l l' Hm (j0 & Hj0 & Hle) H; [exact I| |].
    - destruct H as (A & (U & (w & Hw & Aw)) & C). split; [exact A|split].
      + split.
        * intros j Hj. apply in_app_or in Hj. destruct Hj as [Hj|Hj].
          -- apply Hm in Hj. destruct Hj as [->|Hj].
             ++ eapply gle_trans; [exact Hle|apply U; apply in_or_app; now left].
             ++ apply U. apply in_or_app; now left.
          -- apply U. apply in_or_app; now right.
        * exists w. split; [|exact Aw]. apply in_app_or in Hw.
          destruct Hw as [Hw|Hw]; apply in_or_app; [left; apply Hm; now right|now right].
      + eapply IH; [| |exact C].
        * intros j. rewrite !in_app_iff, Hm. tauto.
        * exists j0. split; [apply in_or_app; now left|exact Hle].
    - destruct H as (A & (U & (w & Hw & Aw)) & C). split; [exact A|split].
      + split.
        * intros j Hj. apply in_app_or in Hj. destruct Hj as [Hj|[Hj|Hj]].
          -- apply U. apply in_or_app; now left.
          -- apply U. apply in_or_app; right; now left.
          -- apply Hm in Hj. destruct Hj as [->|Hj].
             ++ eapply gle_trans; [exact Hle|apply U; apply in_or_app; right; now right].
             ++ apply U. apply in_or_app; right; now right.
        * exists w. split; [|exact Aw]. apply in_app_or in Hw.
          destruct Hw as [Hw|[Hw|Hw]]; apply in_or_app; [now left|right; now left|right; right; apply Hm; now right].
      + eapply IH; [| |exact C].
        * intros j. rewrite !in_app_iff. simpl. rewrite Hm. tauto.
        * exists j0. split; [apply in_or_app; right; now right|exact Hle].
  Qed.

  Definition same_but_max (h h' : heap) : Prop :=
    forall j, same_ptrs h h' j /\ hkey h' j = hkey h j /\ hval h' j = hval h j /\ hred h' j = hred h j.

  Lemma sbm_refl h : same_but_max h h.
  Proof. intros j. unfold same_ptrs. repeat split; reflexivity. Qed.
  Lemma sbm_trans h1 h2 h3 : same_but_max h1 h2 -> same_but_max h2 h3 -> same_but_max h1 h3.
  Proof.
    intros A B j. destruct (A j) as ((A1 & A2 & A3) & A4 & A5 & A6), (B j) as ((B1 & B2 & B3) & B4 & B5 & B6).
    unfold same_ptrs. repeat split; congruence.
  Qed.
  Lemma sbm_set_max h i m : same_but_max h (set_max h i m).
  Proof. intros j. unfold same_ptrs. repeat split; now autorewrite with heap. Qed.

  Lemma ins_up_ok (id root : Z) : forall fuel (h : heap) c s lo next h',
    RepC h c next root -> Rep h next (cpar c) s -> s <> L ->
    NoDup (ids (plug c s)) ->
    MaxOK h s -> MaxOKC h c lo ->
    (forall j, In j (ids s) <-> j = id \/ In j lo) ->
    ins_up ggt fuel h next = Some h' ->
    MaxOK h' (plug c s) /\ same_but_max h h' /\ (forall j, ~ In j (cids c) -> hmax h' j = hmax h j).
  Proof.
    induction fuel as [|f IH]; intros h c s lo next h' HC HR Hs HN HM HMC Hmem H.
    - destruct s as [|a i b]; [congruence|]. simpl in HR. destruct HR as (-> & Hi & Hp & _).
      simpl in H. rewrite Hp in H. destruct c as [|c1 j r|c1 l0 j]; simpl in H, HC.
      + injection H as <-. split; [exact HM|]. split; [apply sbm_refl|auto].
      + destruct HC as (Hj & _). destruct (Z.eqb_spec j NIL); [contradiction|discriminate].
      + destruct HC as (Hj & _). destruct (Z.eqb_spec j NIL); [contradiction|discriminate].
    - destruct s as [|a n b] eqn:Es; [congruence|]. rewrite <- Es in *.
      assert (Hnx : next = n /\ hparent h next = cpar c).
      { rewrite Es in HR. simpl in HR. destruct HR as (-> & _ & Hp & _). auto. }
      destruct Hnx as [-> Hp].
      assert (Mn : MaxV (hmin h) (hmax h n) (ids s)).
      { rewrite Es in HM |- *. simpl in HM. destruct HM as (_ & _ & M). exact M. }
      assert (Inn : In n (ids s)). { rewrite Es. simpl. apply in_or_app; right; now left. }
      simpl in H. rewrite Hp in H. destruct c as [|c1 i r|c1 l0 i]; simpl in H.
      + injection H as <-. split; [exact HM|]. split; [apply sbm_refl|auto].
      + (* left child of i *)
        simpl in HC. destruct HC as (Hi & Hil & Hip & Hr & HC1).
        destruct (Z.eqb_spec i NIL); [contradiction|].
        simpl in HMC. destruct HMC as (Mr & Mi & MC1).
        pose proof HN as HN0. simpl in HN. rewrite ids_plug in HN. simpl in HN.
        apply NoDup_mid in HN. destruct HN as (NI & NC & DC).
        apply NoDup_app_iff in NI. destruct NI as (Ns & NI & Dsi). apply NoDup_cons_iff in NI. destruct NI as (Nir & Nr).
        assert (Hin : i <> n). { intros ->. apply (Dsi _ Inn). now left. }
        assert (NCi : ~ In i (cids c1)).
        { intros Hc. apply (DC i); [apply in_or_app; right; now left|]. apply in_or_app. apply cids_in. exact Hc. }
        set (h1 := if ggt (hmax h n) (hmax h i) then set_max h i (hmax h n) else h) in *.
        assert (S1 : same_but_max h h1). { unfold h1. destruct (ggt _ _); [apply sbm_set_max|apply sbm_refl]. }
        assert (X1 : forall j, j <> i -> hmax h1 j = hmax h j).
        { intros j Hj. unfold h1. destruct (ggt _ _); [|reflexivity]. autorewrite with heap.
          destruct (Z.eqb_spec i j); [congruence|reflexivity]. }
        assert (Xi : hmax h1 i = if ggt (hmax h n) (hmax h i) then hmax h n else hmax h i).
        { unfold h1. destruct (ggt _ _); [|reflexivity]. autorewrite with heap. now rewrite Z.eqb_refl. }
        assert (Hhm : forall j, hmin h1 j = hmin h j).
        { intros j. unfold Tree.hmin. destruct (S1 j) as (_ & _ & -> & _). reflexivity. }
        assert (Ms1 : MaxOK h1 s).
        { eapply MaxOK_ext; [|exact HM]. intros j Hj. destruct (S1 j) as (_ & _ & E & _). split; [|exact E].
          apply X1. intros ->. apply (Dsi _ Hj). now left. }
        assert (Mr1 : MaxOK h1 r).
        { eapply MaxOK_ext; [|exact Mr]. intros j Hj. destruct (S1 j) as (_ & _ & E & _). split; [|exact E].
          apply X1. intros ->. contradiction. }
        assert (Mi1 : MaxV (hmin h1) (hmax h1 i) (ids s ++ i :: ids r)).
        { eapply MaxV_ext; [intros j _; apply Hhm|]. rewrite Xi. eapply MaxV_up; [exact Mn|exact Mi|].
          intros j. rewrite !in_app_iff, Hmem. tauto. }
        assert (HC1' : RepC h1 c1 i root).
        { eapply RepC_ext; [|exact HC1]. intros j _. destruct (S1 j) as (E & _). exact E. }
        assert (HR1 : Rep h1 i (cpar c1) (Nd s i r)).
        { eapply Rep_ext; [intros j _; destruct (S1 j) as (E & _); exact E|].
          simpl. repeat split; auto. rewrite Hil. exact HR. }
        rewrite (X1 n) in H by auto.
        destruct (ggt (hmax h1 i) (hmax h n)) eqn:Eb.
        * (* break *)
          injection H as <-. split; [|split; [exact S1|]].
          -- change (plug (CL c1 i r) s) with (plug c1 (Nd s i r)). apply MaxOK_plug. split.
             ++ simpl. split; [exact Ms1|split; [exact Mr1|exact Mi1]].
             ++ destruct Mi as (Ui & (w & Hw & Aw)).
                assert (Hsame : hmax h1 i = hmax h i).
                { revert Eb. rewrite Xi. destruct (ggt (hmax h n) (hmax h i)); intros Eb; [|reflexivity].
                  pose proof (gle_refl ggt ggt_asym (hmax h n)) as Er. unfold gle in Er. congruence. }
                eapply MaxOKC_ext with (h := h); [intros j; destruct (S1 j) as (_ & _ & E & _); exact E| |].
                { intros j Hj. apply X1. intros ->. contradiction. }
                simpl. eapply (MaxOKC_add h c1 id (lo ++ i :: ids r)); [| |exact MC1].
                ** intros j. rewrite !in_app_iff, Hmem. tauto.
                ** exists w. split; [exact Hw|].
                   destruct Mn as (Un & _). eapply gle_trans; [apply Un; apply Hmem; now left|].
                   eapply gle_trans; [|exact Aw]. rewrite <- Hsame. apply ggt_asym. exact Eb.
          -- intros j Hj. apply X1. intros ->. apply Hj. now left.
        * (* continue *)
          destruct (IH h1 c1 (Nd s i r) (lo ++ i :: ids r) i h' HC1' HR1 ltac:(discriminate) HN0) as (A & B & C); auto.
          -- simpl. split; [exact Ms1|split; [exact Mr1|exact Mi1]].
          -- eapply MaxOKC_ext; [intros j; destruct (S1 j) as (_ & _ & E & _); exact E| |exact MC1].
             intros j Hj. apply X1. intros ->. contradiction.
          -- intros j. simpl. rewrite !in_app_iff, Hmem. simpl. tauto.
          -- split; [exact A|]. split; [eapply sbm_trans; eauto|].
             intros j Hj. rewrite C; [apply X1; intros ->; apply Hj; now left|].
             intros Hc. apply Hj. simpl. right. apply in_or_app. now right.
      + (* right child of i *)
        simpl in HC. destruct HC as (Hi & Hil & Hip & Hr & HC1).
        destruct (Z.eqb_spec i NIL); [contradiction|].
        simpl in HMC. destruct HMC as (Mr & Mi & MC1).
        pose proof HN as HN0. simpl in HN. rewrite ids_plug in HN. simpl in HN.
        apply NoDup_mid in HN. destruct HN as (NI & NC & DC).
        apply NoDup_app_iff in NI. destruct NI as (Nl & NI & Dli). apply NoDup_cons_iff in NI. destruct NI as (Nis & Ns).
        assert (Hin : i <> n). { intros ->. contradiction. }
        set (h1 := if ggt (hmax h n) (hmax h i) then set_max h i (hmax h n) else h) in *.
        assert (S1 : same_but_max h h1). { unfold h1. destruct (ggt _ _); [apply sbm_set_max|apply sbm_refl]. }
        assert (X1 : forall j, j <> i -> hmax h1 j = hmax h j).
        { intros j Hj. unfold h1. destruct (ggt _ _); [|reflexivity]. autorewrite with heap.
          destruct (Z.eqb_spec i j); [congruence|reflexivity]. }
        assert (Xi : hmax h1 i = if ggt (hmax h n) (hmax h i) then hmax h n else hmax h i).
        { unfold h1. destruct (ggt _ _); [|reflexivity]. autorewrite with heap. now rewrite Z.eqb_refl. }
        assert (Hhm : forall j, hmin h1 j = hmin h j).
        { intros j. unfold Tree.hmin. destruct (S1 j) as (_ & _ & -> & _). reflexivity. }
        assert (Ms1 : MaxOK h1 s).
        { eapply MaxOK_ext; [|exact HM]. intros j Hj. destruct (S1 j) as (_ & _ & E & _). split; [|exact E].
          apply X1. intros ->. contradiction. }
        assert (Mr1 : MaxOK h1 l0).
        { eapply MaxOK_ext; [|exact Mr]. intros j Hj. destruct (S1 j) as (_ & _ & E & _). split; [|exact E].
          apply X1. intros ->. apply (Dli _ Hj). now left. }
        assert (Mi1 : MaxV (hmin h1) (hmax h1 i) (ids l0 ++ i :: ids s)).
        { eapply MaxV_ext; [intros j _; apply Hhm|]. rewrite Xi. eapply MaxV_up; [exact Mn|exact Mi|].
          intros j. rewrite !in_app_iff. simpl. rewrite Hmem. tauto. }
        assert (HC1' : RepC h1 c1 i root).
        { eapply RepC_ext; [|exact HC1]. intros j _. destruct (S1 j) as (E & _). exact E. }
        assert (HR1 : Rep h1 i (cpar c1) (Nd l0 i s)).
        { eapply Rep_ext; [intros j _; destruct (S1 j) as (E & _); exact E|].
          simpl. repeat split; auto. rewrite Hil. exact HR. }
        assert (NCi : ~ In i (cids c1)).
        { intros Hc. apply (DC i); [apply in_or_app; right; now left|]. apply in_or_app. apply cids_in. exact Hc. }
        rewrite (X1 n) in H by auto.
        destruct (ggt (hmax h1 i) (hmax h n)) eqn:Eb.
        * injection H as <-. split; [|split; [exact S1|]].
          -- change (plug (CR c1 l0 i) s) with (plug c1 (Nd l0 i s)). apply MaxOK_plug. split.
             ++ simpl. split; [exact Mr1|split; [exact Ms1|exact Mi1]].
             ++ destruct Mi as (Ui & (w & Hw & Aw)).
                assert (Hsame : hmax h1 i = hmax h i).
                { revert Eb. rewrite Xi. destruct (ggt (hmax h n) (hmax h i)); intros Eb; [|reflexivity].
                  pose proof (gle_refl ggt ggt_asym (hmax h n)) as Er. unfold gle in Er. congruence. }
                eapply MaxOKC_ext with (h := h); [intros j; destruct (S1 j) as (_ & _ & E & _); exact E| |].
                { intros j Hj. apply X1. intros ->. contradiction. }
                simpl. eapply (MaxOKC_add h c1 id (ids l0 ++ i :: lo)); [| |exact MC1].
                ** intros j. rewrite !in_app_iff. simpl. rewrite Hmem. tauto.
                ** exists w. split; [exact Hw|].
                   destruct Mn as (Un & _). eapply gle_trans; [apply Un; apply Hmem; now left|].
                   eapply gle_trans; [|exact Aw]. rewrite <- Hsame. apply ggt_asym. exact Eb.
          -- intros j Hj. apply X1. intros ->. apply Hj. now left.
        * destruct (IH h1 c1 (Nd l0 i s) (ids l0 ++ i :: lo) i h' HC1' HR1 ltac:(discriminate) HN0) as (A & B & C); auto.
          -- simpl. split; [exact Mr1|split; [exact Ms1|exact Mi1]].
          -- eapply MaxOKC_ext; [intros j; destruct (S1 j) as (_ & _ & E & _); exact E| |exact MC1].
             intros j Hj. apply X1. intros ->. contradiction.
          -- intros j. simpl. rewrite !in_app_iff. simpl. rewrite Hmem. tauto.
          -- split; [exact A|]. split; [eapply sbm_trans; eauto|].
             intros j Hj. rewrite C; [apply X1; intros ->; apply Hj; now left|].
             intros Hc. apply Hj. simpl. right. apply in_or_app. now right.
  Qed.

  Lemma MaxOKC_ext2 (h h' : heap) : forall c l,
    (forall j, In j (cids c) \/ In j l -> hval h' j = hval h j) ->
    (forall j, In j (cids c) -> hmax h' j = hmax h j) -> MaxOKC h c l -> MaxOKC h' c l.
  Proof.
    induction c as [|c IH i r|c IH l0 i]; simpl; intros l Ev Em H; [exact I| |].
    - destruct H as (Hr & Hm & HC). split; [|split].
      + eapply MaxOK_ext; [|exact Hr]. intros j Hj. split; [apply Em|apply Ev; left]; right; apply in_or_app; now left.
      + rewrite Em by now left. eapply MaxV_ext; [|exact Hm]. intros j Hj. unfold Tree.hmin. rewrite Ev; [reflexivity|].
        apply in_app_or in Hj. destruct Hj as [Hj|[<-|Hj]]; [now right|left; now left|left; right; apply in_or_app; now left].
      + apply IH; auto.
        * intros j [Hj|Hj]; apply Ev.
          -- left. right. apply in_or_app. now right.
          -- apply in_app_or in Hj. destruct Hj as [Hj|[<-|Hj]]; [now right|left; now left|left; right; apply in_or_app; now left].
        * intros j Hj. apply Em. right. apply in_or_app. now right.
    - destruct H as (Hr & Hm & HC). split; [|split].
      + eapply MaxOK_ext; [|exact Hr]. intros j Hj. split; [apply Em|apply Ev; left]; right; apply in_or_app; now left.
      + rewrite Em by now left. eapply MaxV_ext; [|exact Hm]. intros j Hj. unfold Tree.hmin. rewrite Ev; [reflexivity|].
        apply in_app_or in Hj. destruct Hj as [Hj|[<-|Hj]]; [left; right; apply in_or_app; now left|left; now left|now right].
      + apply IH; auto.
        * intros j [Hj|Hj]; apply Ev.
          -- left. right. apply in_or_app. now right.
          -- apply in_app_or in Hj. destruct Hj as [Hj|[<-|Hj]]; [left; right; apply in_or_app; now left|left; now left|now right].
        * intros j Hj. apply Em. right. apply in_or_app. now right.
  Qed.

  Lemma NoDup_insert {T} (x : T) l1 l2 : NoDup (l1 ++ l2) -> ~ In x (l1 ++ l2) -> NoDup (l1 ++ x :: l2).
  Proof.
    intros H Hx. apply NoDup_app_iff in H. destruct H as (A & B & C). apply NoDup_app_iff.
    split; [exact A|]. split.
    - constructor; [|exact B]. intros Hc. apply Hx. apply in_or_app. now right.
    - intros z Hz [<-|Hz2]; [apply Hx; apply in_or_app; now left|exact (C z Hz Hz2)].
  Qed.

  Theorem t_insert_ok fuel (t : @tree K G N) id k v t' l :
    Good (th t) (troot t) l -> KSorted (th t) l -> l <> [] ->
    hred (th t) NIL = false ->
    id <> NIL -> ~ In id l ->
    (forall j, In j l -> klt k (hkey (th t) j) = true \/ klt (hkey (th t) j) k = true) ->
    gle ggt smallest (nmin v) ->
    t_insert klt ggt nmin smallest fuel t id k v = Some t' ->
    exists l1 l2, l = l1 ++ l2 /\
      Good (th t') (troot t') (l1 ++ id :: l2) /\ KSorted (th t') (l1 ++ id :: l2) /\
      hkey (th t') id = k /\ hval (th t') id = v /\
      (forall j, j <> id -> hkey (th t') j = hkey (th t) j /\ hval (th t') j = hval (th t) j) /\
      hred (th t') NIL = false /\ hred (th t') (troot t') = false.
  Proof.
    destruct t as [h root]. simpl. intros (s & (HR & HN & HM & HNil & HS) & <-) HK Hne HB Hid Hfresh HD Hv H.
    rewrite t_insert_unfold in H. simpl in H.
    destruct (descend klt fuel h k root (ins_next klt h k root)) as [cur|] eqn:Hd; [|discriminate].
    (* the descent, seen from the root *)
    assert (Hrn : root <> NIL).
    { intros ->. apply Hne. now rewrite (Rep_root_L _ _ _ _ HR eq_refl). }
    assert (Hd' : descend klt (S fuel) h k (cpar Top) root = Some cur).
    { simpl. destruct (Z.eqb_spec root NIL); [contradiction|exact Hd]. }
    destruct (descend_ok h k root (S fuel) Top root s cur eq_refl HR HK HD
                (fun j (H : In j []) => match H with end) (fun j (H : In j []) => match H with end)
                (fun E => False_ind _ (Hrn E)) Hd') as (c & Ec & HC & -> & Hlo & Hhi & Hdir).
    simpl in Ec. subst s.
    assert (HcT : c <> Top) by (intros ->; exact Hdir).
    destruct (cpar_cases _ _ _ _ HC) as [E|[Hcur Hcurn]]; [destruct c; simpl in E, HC; try congruence; tauto|].
    pose proof (RepC_NIL_notin _ _ _ _ HC) as NNc.
    rewrite ids_plug in *. simpl in *.
    set (l1 := cbefore c) in *. set (l2 := cafter c) in *.
    assert (Hcurl : In (cpar c) (l1 ++ l2)). { apply in_or_app. apply cids_in. exact Hcur. }
    assert (Hcid : cpar c <> id). { intros E. apply Hfresh. rewrite <- E. exact Hcurl. }
    assert (Hcids : forall j, In j (cids c) -> j <> id).
    { intros j Hj ->. apply Hfresh. apply in_or_app. apply cids_in. exact Hj. }
    destruct (attach_facts h id (cpar c) k v Hcid) as (F1 & F2 & F3).
    set (h4 := attach h id (cpar c) k v) in *.
    destruct F2 as (Fk & Fv & Fm & Fr & Fl & Frr & Fp).
    destruct F3 as (Ck & Cv & Cm & Cr & Cp & Cd).
    assert (NCc : NoDup (cids c)).
    { eapply Permutation_NoDup; [symmetry; apply cids_perm|exact HN]. }
    (* the tree with the new leaf *)
    assert (HC4 : RepC h4 c id root).
    { eapply RepC_swap; [exact HC| |].
      - intros j Hj Hne'. destruct (F1 j (Hcids j Hj) Hne') as (_ & _ & _ & _ & A & B & C). split; [|split]; assumption.
      - destruct c as [|c1 i r|c1 l0 i]; simpl in *; [contradiction| |].
        + rewrite Hdir in Cd. destruct Cd as [Cd1 Cd2]. apply NoDup_cons_iff in NCc. destruct NCc as [NCi _].
          repeat split; auto; intros Hc; apply NCi; apply in_or_app; [now left|now right].
        + rewrite Hdir in Cd. destruct Cd as [Cd1 Cd2]. apply NoDup_cons_iff in NCc. destruct NCc as [NCi _].
          repeat split; auto; intros Hc; apply NCi; apply in_or_app; [now left|now right]. }
    assert (HR4 : Rep h4 id (cpar c) (Nd L id L)).
    { simpl. repeat split; auto. }
    assert (HN4 : NoDup (ids (plug c (Nd L id L)))).
    { rewrite ids_plug. simpl. apply NoDup_insert; assumption. }
    apply MaxOK_plug in HM. destruct HM as (_ & HMC). simpl in HMC.
    assert (HMC4 : MaxOKC h4 c []).
    { eapply MaxOKC_ext2; [| |exact HMC].
      - intros j [Hj|[]]. destruct (Z.eq_dec j (cpar c)) as [->|Hn]; [exact Cv|].
        destruct (F1 j (Hcids j Hj) Hn) as (_ & A & _). exact A.
      - intros j Hj. destruct (Z.eq_dec j (cpar c)) as [->|Hn]; [exact Cm|].
        destruct (F1 j (Hcids j Hj) Hn) as (_ & _ & A & _). exact A. }
    assert (HM4 : MaxOK h4 (Nd L id L)).
    { simpl. repeat split; trivial.
      - intros j [<-|[]]. unfold Tree.hmin. rewrite Fv, Fm. apply (gle_refl ggt ggt_asym).
      - exists id. split; [now left|]. unfold Tree.hmin. rewrite Fv, Fm. apply (gle_refl ggt ggt_asym). }
    destruct (ins_up ggt fuel h4 id) as [h5|] eqn:Hu; [|discriminate].
    assert (Hmem4 : forall j, In j (ids (Nd L id L)) <-> j = id \/ In j []).
    { intros j. simpl. split; intros [E|[]]; left; congruence. }
    destruct (ins_up_ok id root fuel h4 c (Nd L id L) [] id h5 HC4 HR4 ltac:(discriminate) HN4 HM4 HMC4 Hmem4 Hu)
      as (M5 & S5 & X5).
    assert (Hkv5 : forall j, hkey h5 j = hkey h4 j /\ hval h5 j = hval h4 j /\ hred h5 j = hred h4 j).
    { intros j. destruct (S5 j) as (_ & A & B & C). auto. }
    assert (Hold : forall j, j <> id -> hkey h4 j = hkey h j /\ hval h4 j = hval h j /\ hred h4 j = hred h j).
    { intros j Hj. destruct (Z.eq_dec j (cpar c)) as [->|Hn]; [auto|].
      destruct (F1 j Hj Hn) as (A & B & _ & D & _). auto. }
    assert (HNn : NIL <> id) by congruence.
    assert (HNc : NIL <> cpar c) by congruence.
    assert (G5 : Good h5 root (l1 ++ id :: l2)).
    { exists (plug c (Nd L id L)). split; [|rewrite ids_plug; reflexivity].
      unfold ProofsTreeInv.TInv. split; [|split; [|split; [|split]]].
      - eapply Rep_ext; [intros j _; destruct (S5 j) as (E & _); exact E|].
        apply Rep_plug. exists id. split; assumption.
      - exact HN4.
      - exact M5.
      - rewrite X5 by exact NNc. destruct (F1 NIL HNn HNc) as (_ & _ & A & _). rewrite A. exact HNil.
      - intros j Hj. rewrite ids_plug in Hj. simpl in Hj. unfold Tree.hmin.
        destruct (Hkv5 j) as (_ & -> & _). destruct (Z.eq_dec j id) as [->|Hn].
        + rewrite Fv. exact Hv.
        + destruct (Hold j Hn) as (_ & -> & _). apply HS. apply in_app_or in Hj.
          destruct Hj as [Hj|[Hj|Hj]]; [apply in_or_app; now left|congruence|apply in_or_app; now right]. }
    assert (K5 : KSorted h5 (l1 ++ id :: l2)).
    { unfold KSorted in *. apply SSorted_app_iff in HK. destruct HK as (K1 & K2 & K12).
      assert (Hk1 : forall j, In j (l1 ++ l2) -> hkey h5 j = hkey h j).
      { intros j Hj. destruct (Hkv5 j) as (-> & _). apply Hold. intros ->. contradiction. }
      assert (Hkid : hkey h5 id = k). { destruct (Hkv5 id) as (-> & _). exact Fk. }
      apply SSorted_app_iff. split; [|split].
      - eapply (KSorted_ext h); [|exact K1]. intros j Hj. apply Hk1. apply in_or_app; now left.
      - constructor.
        + eapply (KSorted_ext h); [|exact K2]. intros j Hj. apply Hk1. apply in_or_app; now right.
        + apply Forall_forall. intros j Hj. rewrite Hkid, Hk1 by (apply in_or_app; now right). apply Hhi. exact Hj.
      - intros a b Ha [<-|Hb].
        + rewrite Hkid, Hk1 by (apply in_or_app; now left). apply Hlo. exact Ha.
        + rewrite !Hk1 by (apply in_or_app; auto). apply K12; assumption. }
    assert (B5 : hred h5 NIL = false).
    { destruct (Hkv5 NIL) as (_ & _ & ->). destruct (Hold NIL HNn) as (_ & _ & ->). exact HB. }
    destruct (ifix ggt nmin fuel h5 root id) as [[h6 root6]|] eqn:Hf; [|discriminate]. injection H as <-. simpl.
    destruct (ifix_ok ggt nmin smallest ggt_asym gle_trans fuel h5 root (l1 ++ id :: l2) id h6 root6) as (G6 & KV6 & B6 & R6); auto.
    { split; [exact G5|split; [apply in_or_app; right; now left|exact B5]]. }
    exists l1, l2. split; [reflexivity|]. split; [exact G6|]. split.
    { eapply KSorted_ext; [|exact K5]. intros j _. apply KV6. }
    split. { destruct (KV6 id) as (-> & _). destruct (Hkv5 id) as (-> & _). exact Fk. }
    split. { destruct (KV6 id) as (_ & ->). destruct (Hkv5 id) as (_ & -> & _). exact Fv. }
    split; [|split; assumption].
    intros j Hj. destruct (KV6 j) as (-> & ->). destruct (Hkv5 j) as (-> & -> & _).
    destruct (Hold j Hj) as (A & B & _). auto.
  Qed.

  (* the abstraction: (key, payload) along the in-order id sequence *)
  Definition tabs (h : heap) (l : list Z) : list (K * N) := map (fun i => (hkey h i, hval h i)) l.

  Lemma tabs_ext h h' l : (forall j, In j l -> hkey h' j = hkey h j /\ hval h' j = hval h j) -> tabs h' l = tabs h l.
  Proof. intros E. apply map_ext_in. intros j Hj. destruct (E j Hj) as [-> ->]. reflexivity. Qed.

  Lemma has_key_tabs h k l :
    has_key klt k (tabs h l) = false ->
    forall j, In j l -> klt k (hkey h j) = true \/ klt (hkey h j) k = true.
  Proof.
    unfold has_key, tabs. intros H j Hj.
    destruct (klt k (hkey h j)) eqn:E1; [now left|]. destruct (klt (hkey h j) k) eqn:E2; [now right|].
    exfalso. assert (Hex : existsb (fun kn : K * N => keq klt k (fst kn)) (map (fun i => (hkey h i, hval h i)) l) = true).
    { apply existsb_exists. exists (hkey h j, hval h j). split; [apply in_map_iff; exists j; auto|].
      simpl. unfold keq. now rewrite E1, E2. }
    congruence.
  Qed.

  Theorem t_insert_refines fuel (t : @tree K G N) id k v t' l :
    Good (th t) (troot t) l -> KSorted (th t) l -> l <> [] ->
    hred (th t) NIL = false ->
    id <> NIL -> ~ In id l ->
    has_key klt k (tabs (th t) l) = false ->
    gle ggt smallest (nmin v) ->
    t_insert klt ggt nmin smallest fuel t id k v = Some t' ->
    exists l1 l2, l = l1 ++ l2 /\
      Good (th t') (troot t') (l1 ++ id :: l2) /\ KSorted (th t') (l1 ++ id :: l2) /\
      tabs (th t') (l1 ++ id :: l2) = tabs (th t) l1 ++ (k, v) :: tabs (th t) l2 /\
      st_insert klt k v (tabs (th t) l) = inr ((k, v) :: tabs (th t) l) /\
      Permutation (tabs (th t') (l1 ++ id :: l2)) ((k, v) :: tabs (th t) l) /\
      hred (th t') NIL = false /\ hred (th t') (troot t') = false.
  Proof.
    intros HG HK Hne HB Hid Hfresh Hdup Hv H.
    destruct (t_insert_ok fuel t id k v t' l HG HK Hne HB Hid Hfresh (has_key_tabs _ _ _ Hdup) Hv H)
      as (l1 & l2 & -> & G' & K' & Ek & Ev & Eo & B1 & B2).
    exists l1, l2. split; [reflexivity|]. split; [exact G'|]. split; [exact K'|].
    assert (Et : tabs (th t') (l1 ++ id :: l2) = tabs (th t) l1 ++ (k, v) :: tabs (th t) l2).
    { unfold tabs. rewrite map_app. simpl. rewrite Ek, Ev. f_equal; [|f_equal].
      - apply map_ext_in. intros j Hj. destruct (Eo j) as [-> ->]; [|reflexivity].
        intros ->. apply Hfresh. apply in_or_app. now left.
      - apply map_ext_in. intros j Hj. destruct (Eo j) as [-> ->]; [|reflexivity].
        intros ->. apply Hfresh. apply in_or_app. now right. }
    split; [exact Et|]. split.
    { unfold st_insert. now rewrite Hdup. }
    split; [|split; assumption].
    rewrite Et. unfold tabs. rewrite map_app. symmetry. apply Permutation_middle.
  Qed.
End Ins.
