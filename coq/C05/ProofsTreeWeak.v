(* C05/ProofsTreeWeak.v — the ONE-SIDED cached-maximum invariant: every cached maximum is
   SMALLEST_GRAD or is bounded by the min3 of some node of its subtree ("never too
   high").  This is what the query needs, it is monotone under adding nodes, and it is
   what survives _delete_from_tree in practice (the two-sided invariant does not).
   Proved here: rotations, the insert fix-up, _insert_into_tree preserve it, and the
   query of a tree satisfying it equals the abstract two-phase query. *)
Require Import Base.Prelude.
Require Import C05.Sweep C05.Tree C05.ProofsTreeBase C05.ProofsTreeRot C05.ProofsTreeInv C05.ProofsTreeFix
        C05.ProofsTreeIns C05.ProofsTreeQry C05.ProofsTreeStruct.
Require Import Permutation Sorted.

Section Weak.
  Context {K G N : Type}.
  Variable ggt : G -> G -> bool.
  Variable nmin : N -> G.
  Variable smallest : G.
  Notation heap := (@heap K G N).
  Notation hmin := (@hmin K G N nmin).
  Notation left_rotate := (@left_rotate K G N ggt nmin).
  Notation right_rotate := (@right_rotate K G N ggt nmin).
  Notation rval := (@rval G ggt).
  Notation SInv := (@SInv K G N).
  Notation SGood := (@SGood K G N).
  Hypothesis ggt_asym : forall a b, ggt a b = true -> ggt b a = false.
  Hypothesis gle_trans : forall a b c, gle ggt a b -> gle ggt b c -> gle ggt a c.

  Definition SubA (hm : Z -> G) (m : G) (l : list Z) : Prop :=
    m = smallest \/ exists j, In j l /\ gle ggt m (hm j).

  Lemma SubA_mono hm m l l' : (forall j, In j l -> In j l') -> SubA hm m l -> SubA hm m l'.
  Proof. intros E [H|(j & Hj & A)]; [now left|right]. exists j. split; [apply E; exact Hj|exact A]. Qed.
  Lemma SubA_ext hm hm' m l : (forall j, In j l -> hm' j = hm j) -> SubA hm m l -> SubA hm' m l.
  Proof. intros E [H|(j & Hj & A)]; [now left|right]. exists j. split; [exact Hj|]. rewrite E by exact Hj. exact A. Qed.
  Lemma SubA_own hm i l : In i l -> SubA hm (hm i) l.
  Proof. intros H. right. exists i. split; [exact H|apply (gle_refl ggt ggt_asym)]. Qed.
  Lemma SubA_rval hm a b i la lb l :
    SubA hm a la -> SubA hm b lb -> (forall j, In j la -> In j l) -> (forall j, In j lb -> In j l) -> In i l ->
    SubA hm (rval a b (hm i)) l.
  Proof.
    intros Ha Hb Ea Eb Hi. destruct (rval_in ggt a b (hm i)) as [E|[E|E]]; rewrite E.
    - eapply SubA_mono; [exact Ea|exact Ha].
    - eapply SubA_mono; [exact Eb|exact Hb].
    - apply SubA_own. exact Hi.
  Qed.

  Fixpoint WOK (h : heap) (s : shape) : Prop :=
    match s with
    | L => True
    | Nd l i r => WOK h l /\ WOK h r /\ SubA (hmin h) (hmax h i) (ids (Nd l i r))
    end.
  Fixpoint WOKC (h : heap) (c : ctx) (l : list Z) : Prop :=
    match c with
    | Top => True
    | CL c' i r => WOK h r /\ SubA (hmin h) (hmax h i) (l ++ i :: ids r) /\ WOKC h c' (l ++ i :: ids r)
    | CR c' l0 i => WOK h l0 /\ SubA (hmin h) (hmax h i) (ids l0 ++ i :: l) /\ WOKC h c' (ids l0 ++ i :: l)
    end.

  Lemma WOK_plug h c : forall s, WOK h (plug c s) <-> WOK h s /\ WOKC h c (ids s).
  Proof.
    induction c as [|c IH i r|c IH l i]; intros s; simpl; [tauto| |]; rewrite IH; simpl; tauto.
  Qed.

  Lemma WOK_ext h h' : forall s,
    (forall j, In j (ids s) -> hmax h' j = hmax h j /\ hval h' j = hval h j) -> WOK h s -> WOK h' s.
  Proof.
    induction s as [|l IHl i r IHr]; simpl; intros E H; [exact I|].
    destruct H as (Hl & Hr & Hm). split; [|split].
    - apply IHl; auto. intros j Hj. apply E. apply in_or_app; now left.
    - apply IHr; auto. intros j Hj. apply E. apply in_or_app; right; now right.
    - destruct (E i) as [-> _]; [apply in_or_app; right; now left|].
      eapply SubA_ext; [|exact Hm]. intros j Hj. unfold Tree.hmin. now destruct (E j Hj) as [_ ->].
  Qed.

  Lemma WOKC_ext h h' : forall c l,
    (forall j, hval h' j = hval h j) ->
    (forall j, In j (cids c) -> hmax h' j = hmax h j) -> WOKC h c l -> WOKC h' c l.
  Proof.
    induction c as [|c IH i r|c IH l0 i]; simpl; intros l Ev Em H; [exact I| |];
      destruct H as (Hr & Hm & HC); (split; [|split]).
    - eapply WOK_ext; [|exact Hr]. intros j Hj. split; [apply Em; right; apply in_or_app; now left|apply Ev].
    - rewrite Em by now left. eapply SubA_ext; [|exact Hm]. intros j _. unfold Tree.hmin. now rewrite Ev.
    - apply IH; auto. intros j Hj. apply Em. right. apply in_or_app. now right.
    - eapply WOK_ext; [|exact Hr]. intros j Hj. split; [apply Em; right; apply in_or_app; now left|apply Ev].
    - rewrite Em by now left. eapply SubA_ext; [|exact Hm]. intros j _. unfold Tree.hmin. now rewrite Ev.
    - apply IH; auto. intros j Hj. apply Em. right. apply in_or_app. now right.
  Qed.

  (* the hole may only grow *)
  Lemma WOKC_mono h : forall c l l', (forall j, In j l -> In j l') -> WOKC h c l -> WOKC h c l'.
  Proof.
    induction c as [|c IH i r|c IH l0 i]; simpl; intros l l' E H; [exact I| |];
      destruct H as (Hr & Hm & HC); (split; [exact Hr|split]).
    - eapply SubA_mono; [|exact Hm]. intros j Hj. apply in_app_or in Hj. apply in_or_app. destruct Hj; [left; auto|now right].
    - eapply IH; [|exact HC]. intros j Hj. apply in_app_or in Hj. apply in_or_app. destruct Hj; [left; auto|now right].
    - eapply SubA_mono; [|exact Hm]. intros j Hj. apply in_app_or in Hj. apply in_or_app.
      destruct Hj as [Hj|[Hj|Hj]]; [now left|right; now left|right; right; auto].
    - eapply IH; [|exact HC]. intros j Hj. apply in_app_or in Hj. apply in_or_app.
      destruct Hj as [Hj|[Hj|Hj]]; [now left|right; now left|right; right; auto].
  Qed.

  Lemma sub_a h p par s :
    Rep h p par s -> WOK h s -> hmax h NIL = smallest -> SubA (hmin h) (hmax h p) (ids s).
  Proof.
    destruct s as [|l i r]; simpl.
    - intros -> _ E. left. exact E.
    - intros (-> & _) (_ & _ & Hm) _. exact Hm.
  Qed.

  Definition WInv (h : heap) (root : Z) (s : shape) : Prop :=
    Rep h root NIL s /\ NoDup (ids s) /\ WOK h s /\ hmax h NIL = smallest.
  Definition WGood (h : heap) (root : Z) (l : list Z) : Prop := exists s, WInv h root s /\ ids s = l.

  Lemma WGood_SGood h root l : WGood h root l -> SGood h root l.
  Proof. intros (s & (HR & HN & _) & E). exists s. split; [split; assumption|exact E]. Qed.

  Lemma lrot_winv (h : heap) root x h' root' c a r :
    WInv h root (plug c (Nd a x r)) ->
    left_rotate h root x = Some (h', root') ->
    exists b y d, r = Nd b y d /\ y = hright h x /\
      WInv h' root' (plug c (Nd (Nd a x b) y d)) /\ same_kvc h h' /\ hparent h' x = y.
  Proof.
    intros (HR & HN & HW & HNil) Hrot.
    destruct (lrot_sinv ggt nmin _ _ _ _ _ _ _ _ (conj HR HN) Hrot)
      as (b & y & d & -> & Ey & (HR' & HN') & Hkv & Hp & _ & Fmax & Fmx & Fmy).
    exists b, y, d. split; [reflexivity|]. split; [exact Ey|]. split; [|split; assumption].
    apply Rep_plug in HR. destruct HR as (p & HC & Hx). simpl in Hx.
    destruct Hx as (-> & Hxn & Hxp & Ha & (Ey' & Hyn & Hyp & Hb & Hd)).
    apply WOK_plug in HW. destruct HW as (HWs & HWc). simpl in HWs. destruct HWs as (HWa & (HWb & HWd & _) & _).
    pose proof HN' as HN2. rewrite ids_plug in HN2. simpl in HN2.
    apply NoDup_mid in HN2. destruct HN2 as (NI & _ & DC).
    apply NoDup_app_iff in NI. destruct NI as (NI1 & NI2 & D12).
    apply NoDup_app_iff in NI1. destruct NI1 as (_ & NI1 & Dax). apply NoDup_cons_iff in NI1. destruct NI1 as (Nxb & _).
    apply NoDup_cons_iff in NI2. destruct NI2 as (Nyd & _).
    assert (Ix : In x ((ids a ++ x :: ids b) ++ y :: ids d)).
    { apply in_or_app; left. apply in_or_app; right; now left. }
    assert (Iy : In y ((ids a ++ x :: ids b) ++ y :: ids d)) by (apply in_or_app; right; now left).
    assert (Hxy : x <> y). { intros E. apply (D12 x); [apply in_or_app; right; now left|left; congruence]. }
    assert (Hne : forall j, In j (ids a) \/ In j (ids b) \/ In j (ids d) \/ In j (cids c) -> j <> x /\ j <> y).
    { intros j [Hj|[Hj|[Hj|Hj]]].
      - split; intros ->; [apply (Dax _ Hj); now left|apply (D12 y); [apply in_or_app; now left|now left]].
      - split; intros ->; [contradiction|apply (D12 y); [apply in_or_app; right; now right|now left]].
      - split; intros ->; [apply (D12 x); [apply in_or_app; right; now left|now right]|contradiction].
      - split; intros ->; [apply (DC x Ix)|apply (DC y Iy)]; apply in_or_app; apply cids_in; exact Hj. }
    assert (Hhm : forall j, hmin h' j = hmin h j).
    { intros j. unfold Tree.hmin. destruct (Hkv j) as (_ & -> & _). reflexivity. }
    assert (Sx : SubA (hmin h) (hmax h' x) (ids a ++ x :: ids b)).
    { rewrite Fmx. apply (SubA_rval (hmin h) _ _ x (ids a) (ids b)).
      - eapply sub_a; [exact Ha|exact HWa|exact HNil].
      - eapply sub_a; [exact Hb|exact HWb|exact HNil].
      - intros j Hj. apply in_or_app. now left.
      - intros j Hj. apply in_or_app. right. now right.
      - apply in_or_app. right. now left. }
    assert (Sy : SubA (hmin h) (hmax h' y) ((ids a ++ x :: ids b) ++ y :: ids d)).
    { rewrite Fmy, <- Fmx. apply (SubA_rval (hmin h) _ _ y (ids a ++ x :: ids b) (ids d)).
      - exact Sx.
      - eapply sub_a; [exact Hd|exact HWd|exact HNil].
      - intros j Hj. apply in_or_app. now left.
      - intros j Hj. apply in_or_app. right. now right.
      - apply in_or_app. right. now left. }
    split; [exact HR'|]. split; [exact HN'|]. split.
    - apply WOK_plug. split.
      + simpl. split; [split; [|split]|split].
        * eapply WOK_ext; [|exact HWa]. intros j Hj. split; [|apply Hkv]. destruct (Hne j) as [A B]; auto.
        * eapply WOK_ext; [|exact HWb]. intros j Hj. split; [|apply Hkv]. destruct (Hne j) as [A B]; auto.
        * eapply SubA_ext; [|exact Sx]. intros j _. apply Hhm.
        * eapply WOK_ext; [|exact HWd]. intros j Hj. split; [|apply Hkv]. destruct (Hne j) as [A B]; auto.
        * eapply SubA_ext; [|exact Sy]. intros j _. apply Hhm.
      + eapply WOKC_mono; [|eapply WOKC_ext; [| |exact HWc]].
        * intros j Hj. simpl in Hj |- *. rewrite <- app_assoc. exact Hj.
        * intros j. apply Hkv.
        * intros j Hj. destruct (Hne j) as [A B]; auto.
    - rewrite Fmax; [exact HNil|congruence|congruence].
  Qed.

  Lemma rrot_winv (h : heap) root y h' root' c l d :
    WInv h root (plug c (Nd l y d)) ->
    right_rotate h root y = Some (h', root') ->
    exists a x b, l = Nd a x b /\ x = hleft h y /\
      WInv h' root' (plug c (Nd a x (Nd b y d))) /\ same_kvc h h' /\ hparent h' y = x.
  Proof.
    intros (HR & HN & HW & HNil) Hrot.
    destruct (rrot_sinv ggt nmin _ _ _ _ _ _ _ _ (conj HR HN) Hrot)
      as (a & x & b & -> & Ex & (HR' & HN') & Hkv & Hp & _ & Fmax & Fmy & Fmx).
    exists a, x, b. split; [reflexivity|]. split; [exact Ex|]. split; [|split; assumption].
    apply Rep_plug in HR. destruct HR as (p & HC & Hy). simpl in Hy.
    destruct Hy as (-> & Hyn & Hyp & (Ex' & Hxn & Hxp & Ha & Hb) & Hd).
    apply WOK_plug in HW. destruct HW as (HWs & HWc). simpl in HWs. destruct HWs as ((HWa & HWb & _) & HWd & _).
    pose proof HN' as HN2. rewrite ids_plug in HN2. simpl in HN2.
    apply NoDup_mid in HN2. destruct HN2 as (NI & _ & DC).
    apply NoDup_app_iff in NI. destruct NI as (_ & NI2 & Dax).
    apply NoDup_cons_iff in NI2. destruct NI2 as (Nxr & NI3).
    apply NoDup_app_iff in NI3. destruct NI3 as (_ & NI4 & Dby).
    apply NoDup_cons_iff in NI4. destruct NI4 as (Nyd & _).
    assert (Ix : In x (ids a ++ x :: ids b ++ y :: ids d)) by (apply in_or_app; right; now left).
    assert (Iy : In y (ids a ++ x :: ids b ++ y :: ids d)).
    { apply in_or_app; right; right. apply in_or_app; right; now left. }
    assert (Hxy : x <> y). { intros E. apply Nxr. apply in_or_app. right. left. congruence. }
    assert (Hne : forall j, In j (ids a) \/ In j (ids b) \/ In j (ids d) \/ In j (cids c) -> j <> y /\ j <> x).
    { intros j [Hj|[Hj|[Hj|Hj]]].
      - split; intros ->; [apply (Dax _ Hj); right; apply in_or_app; right; now left|apply (Dax _ Hj); now left].
      - split; intros ->; [apply (Dby _ Hj); now left|apply Nxr; apply in_or_app; now left].
      - split; intros ->; [contradiction|apply Nxr; apply in_or_app; right; now right].
      - split; intros ->; [apply (DC y Iy)|apply (DC x Ix)]; apply in_or_app; apply cids_in; exact Hj. }
    assert (Hhm : forall j, hmin h' j = hmin h j).
    { intros j. unfold Tree.hmin. destruct (Hkv j) as (_ & -> & _). reflexivity. }
    assert (Sy : SubA (hmin h) (hmax h' y) (ids b ++ y :: ids d)).
    { rewrite Fmy. apply (SubA_rval (hmin h) _ _ y (ids b) (ids d)).
      - eapply sub_a; [exact Hb|exact HWb|exact HNil].
      - eapply sub_a; [exact Hd|exact HWd|exact HNil].
      - intros j Hj. apply in_or_app. now left.
      - intros j Hj. apply in_or_app. right. now right.
      - apply in_or_app. right. now left. }
    assert (Sx : SubA (hmin h) (hmax h' x) (ids a ++ x :: ids b ++ y :: ids d)).
    { rewrite Fmx, <- Fmy. apply (SubA_rval (hmin h) _ _ x (ids a) (ids b ++ y :: ids d)).
      - eapply sub_a; [exact Ha|exact HWa|exact HNil].
      - exact Sy.
      - intros j Hj. apply in_or_app. now left.
      - intros j Hj. apply in_or_app. right. now right.
      - apply in_or_app. right. now left. }
    split; [exact HR'|]. split; [exact HN'|]. split.
    - apply WOK_plug. split.
      + simpl. split; [|split; [split; [|split]|]].
        * eapply WOK_ext; [|exact HWa]. intros j Hj. split; [|apply Hkv]. destruct (Hne j) as [A B]; auto.
        * eapply WOK_ext; [|exact HWb]. intros j Hj. split; [|apply Hkv]. destruct (Hne j) as [A B]; auto.
        * eapply WOK_ext; [|exact HWd]. intros j Hj. split; [|apply Hkv]. destruct (Hne j) as [A B]; auto.
        * eapply SubA_ext; [|exact Sy]. intros j _. apply Hhm.
        * eapply SubA_ext; [|exact Sx]. intros j _. apply Hhm.
      + eapply WOKC_mono; [|eapply WOKC_ext; [| |exact HWc]].
        * intros j Hj. simpl in Hj |- *. rewrite <- app_assoc in Hj. exact Hj.
        * intros j. apply Hkv.
        * intros j Hj. destruct (Hne j) as [A B]; auto.
    - rewrite Fmax; [exact HNil|congruence|congruence].
  Qed.

  (* the two-sided invariant implies the one-sided one *)
  Lemma MaxOK_WOK h : forall s, MaxOK ggt nmin h s -> WOK h s.
  Proof.
    induction s as [|l IHl i r IHr]; simpl; [auto|]. intros (A & B & (_ & (w & Hw & Aw))).
    split; [auto|split; [auto|]]. right. exists w. split; assumption.
  Qed.
  Lemma Good_WGood h root l : Good ggt nmin smallest h root l -> WGood h root l.
  Proof.
    intros (s & (HR & HN & HM & HNil & _) & E). exists s. split; [|exact E].
    split; [exact HR|split; [exact HN|split; [apply MaxOK_WOK; exact HM|exact HNil]]].
  Qed.

  (* ---- WGood-level facts ---- *)
  Lemma WGood_ext_colour h root l i c : WGood h root l -> WGood (set_red h i c) root l.
  Proof.
    intros (s & (HR & HN & HW & HNil) & <-). exists s. split; [|reflexivity].
    split; [|split; [exact HN|split]].
    - eapply Rep_ext; [|exact HR]. intros j _. unfold same_ptrs. now autorewrite with heap.
    - eapply WOK_ext; [|exact HW]. intros j _. now autorewrite with heap.
    - now autorewrite with heap.
  Qed.

  Lemma wparent_closed h root l z : WGood h root l -> In z l -> hparent h z = NIL \/ In (hparent h z) l.
  Proof. intros HG. apply (sparent_closed _ _ _ _ (WGood_SGood _ _ _ HG)). Qed.

  Lemma lrot_wgood h root l x h' root' :
    WGood h root l -> In x l -> left_rotate h root x = Some (h', root') ->
    WGood h' root' l /\ same_kvc h h' /\ hparent h' x = hright h x /\ In (hright h x) l /\ x <> NIL.
  Proof.
    intros (s & HT & <-) Hx Hrot. destruct (find_node _ _ Hx) as (c & a & r & ->).
    destruct (lrot_winv _ _ _ _ _ _ _ _ HT Hrot) as (b & y & d & -> & Ey & HT' & Hkv & Hp).
    assert (Hids : ids (plug c (Nd (Nd a x b) y d)) = ids (plug c (Nd a x (Nd b y d)))).
    { rewrite !ids_plug. f_equal. simpl. repeat (rewrite <- app_assoc; simpl). reflexivity. }
    split; [exists (plug c (Nd (Nd a x b) y d)); split; [exact HT'|exact Hids]|].
    split; [exact Hkv|]. split; [congruence|]. split.
    - rewrite <- Ey, ids_plug. apply in_or_app; right. apply in_or_app; left. simpl.
      apply in_or_app; right; right. apply in_or_app; right; now left.
    - unfold Tree.left_rotate in Hrot. destruct (x =? NIL) eqn:E; [discriminate|]. now apply Z.eqb_neq in E.
  Qed.

  Lemma rrot_wgood h root l y h' root' :
    WGood h root l -> In y l -> right_rotate h root y = Some (h', root') ->
    WGood h' root' l /\ same_kvc h h' /\ hparent h' y = hleft h y /\ In (hleft h y) l /\ y <> NIL.
  Proof.
    intros (s & HT & <-) Hy Hrot. destruct (find_node _ _ Hy) as (c & l0 & d & ->).
    destruct (rrot_winv _ _ _ _ _ _ _ _ HT Hrot) as (a & x & b & -> & Ex & HT' & Hkv & Hp).
    assert (Hids : ids (plug c (Nd a x (Nd b y d))) = ids (plug c (Nd (Nd a x b) y d))).
    { rewrite !ids_plug. f_equal. simpl. repeat (rewrite <- app_assoc; simpl). reflexivity. }
    split; [exists (plug c (Nd a x (Nd b y d))); split; [exact HT'|exact Hids]|].
    split; [exact Hkv|]. split; [congruence|]. split.
    - rewrite <- Ex, ids_plug. apply in_or_app; right. apply in_or_app; left. simpl.
      apply in_or_app; left. apply in_or_app; right; now left.
    - unfold Tree.right_rotate in Hrot. destruct (y =? NIL) eqn:E; [discriminate|]. now apply Z.eqb_neq in E.
  Qed.

  Notation ifix := (@ifix K G N ggt nmin).
  Notation ifix_step := (@ifix_step K G N ggt nmin).
  Notation same_kv := (@ProofsTreeFix.same_kv K G N).

  (* state of the fix-up loop *)
  Definition WFixSt (h : heap) (root : Z) (l : list Z) (z : Z) : Prop :=
    WGood h root l /\ In z l /\ hred h NIL = false.

  Lemma ifix_step_ok_w h root l z h1 root1 z1 :
    WFixSt h root l z -> hred h (hparent h z) = true ->
    ifix_step h root z (hparent h z) = Some (h1, root1, z1) ->
    WFixSt h1 root1 l z1 /\ same_kv h h1.
  Proof.
    intros (HG & Hz & HNb) Hred Hstep.
    assert (Hzp : In (hparent h z) l).
    { destruct (wparent_closed _ _ _ _ HG Hz) as [E|E]; [rewrite E in Hred; congruence|exact E]. }
    unfold Tree.ifix_step in Hstep.
    set (zp := hparent h z) in *. set (zpp := hparent h zp) in *.
    destruct (Z.eqb_spec zpp NIL) as [|Hzppn]; [discriminate|].
    assert (Hzpp : In zpp l).
    { destruct (wparent_closed _ _ _ _ HG Hzp) as [E|E]; [contradiction|exact E]. }
    assert (Case1 : forall y, WFixSt (set_red (set_red (set_red h zp false) y false) zpp true) root l zpp /\
                              same_kv h (set_red (set_red (set_red h zp false) y false) zpp true)).
    { intros y. split; [split; [|split]|].
      - repeat apply WGood_ext_colour. exact HG.
      - exact Hzpp.
      - repeat apply hred_NIL_set_red; auto.
      - eapply same_kv_trans; [eapply same_kv_trans|]; apply set_red_kv. }
    (* the common tail: recolour and rotate at the grandparent *)
    assert (TailR : forall h2 r2 z2, WGood h2 r2 l -> In z2 l -> hred h2 NIL = false -> same_kv h h2 ->
              In (hparent h2 z2) l -> 
              match right_rotate (set_red (set_red h2 (hparent h2 z2) false) (hparent h2 (hparent h2 z2)) true) r2
                                 (hparent h2 (hparent h2 z2)) with
              | Some (h3, r3) => Some (h3, r3, z2) | None => None end = Some (h1, root1, z1) ->
              WFixSt h1 root1 l z1 /\ same_kv h h1).
    { intros h2 r2 z2 G2 Z2 B2 KV2 P2 Hm.
      destruct (right_rotate _ r2 _) as [[h3 r3]|] eqn:Hr; [|discriminate]. injection Hm as <- <- <-.
      assert (G2' : WGood (set_red (set_red h2 (hparent h2 z2) false) (hparent h2 (hparent h2 z2)) true) r2 l)
        by (repeat apply WGood_ext_colour; exact G2).
      assert (Hg : hparent h2 (hparent h2 z2) <> NIL).
      { unfold Tree.right_rotate in Hr. destruct (hparent h2 (hparent h2 z2) =? NIL) eqn:E; [discriminate|].
        now apply Z.eqb_neq in E. }
      assert (Hin : In (hparent h2 (hparent h2 z2)) l).
      { destruct (wparent_closed _ _ _ _ G2 P2) as [E|E]; [contradiction|exact E]. }
      destruct (rrot_wgood _ _ _ _ _ _ G2' Hin Hr) as (G3 & KV3 & _).
      split; [split; [exact G3|split; [exact Z2|]]|].
      - destruct (KV3 NIL) as (_ & _ & ->). repeat apply hred_NIL_set_red; auto.
      - eapply same_kv_trans; [exact KV2|]. eapply same_kv_trans; [|apply same_kvc_kv; exact KV3].
        eapply same_kv_trans; apply set_red_kv. }
    assert (TailL : forall h2 r2 z2, WGood h2 r2 l -> In z2 l -> hred h2 NIL = false -> same_kv h h2 ->
              In (hparent h2 z2) l -> 
              match left_rotate (set_red (set_red h2 (hparent h2 z2) false) (hparent h2 (hparent h2 z2)) true) r2
                                 (hparent h2 (hparent h2 z2)) with
              | Some (h3, r3) => Some (h3, r3, z2) | None => None end = Some (h1, root1, z1) ->
              WFixSt h1 root1 l z1 /\ same_kv h h1).
    { intros h2 r2 z2 G2 Z2 B2 KV2 P2 Hm.
      destruct (left_rotate _ r2 _) as [[h3 r3]|] eqn:Hr; [|discriminate]. injection Hm as <- <- <-.
      assert (G2' : WGood (set_red (set_red h2 (hparent h2 z2) false) (hparent h2 (hparent h2 z2)) true) r2 l)
        by (repeat apply WGood_ext_colour; exact G2).
      assert (Hg : hparent h2 (hparent h2 z2) <> NIL).
      { unfold Tree.left_rotate in Hr. destruct (hparent h2 (hparent h2 z2) =? NIL) eqn:E; [discriminate|].
        now apply Z.eqb_neq in E. }
      assert (Hin : In (hparent h2 (hparent h2 z2)) l).
      { destruct (wparent_closed _ _ _ _ G2 P2) as [E|E]; [contradiction|exact E]. }
      destruct (lrot_wgood _ _ _ _ _ _ G2' Hin Hr) as (G3 & KV3 & _).
      split; [split; [exact G3|split; [exact Z2|]]|].
      - destruct (KV3 NIL) as (_ & _ & ->). repeat apply hred_NIL_set_red; auto.
      - eapply same_kv_trans; [exact KV2|]. eapply same_kv_trans; [|apply same_kvc_kv; exact KV3].
        eapply same_kv_trans; apply set_red_kv. }
    destruct (zp =? hleft h zpp).
    - destruct (hred h (hright h zpp)).
      + injection Hstep as <- <- <-. apply Case1.
      + destruct (Z.eqb_spec z (hright h zp)) as [Ez|Ez].
        * destruct (left_rotate h root zp) as [[h2 r2]|] eqn:Hr; [|discriminate].
          destruct (lrot_wgood _ _ _ _ _ _ HG Hzp Hr) as (G2 & KV2 & P2 & I2 & _).
          apply (TailR h2 r2 zp); auto.
          -- destruct (KV2 NIL) as (_ & _ & ->). exact HNb.
          -- apply same_kvc_kv; exact KV2.
          -- rewrite P2. exact I2.
        * apply (TailR h root z); auto. apply same_kv_refl.
    - destruct (hred h (hleft h zpp)).
      + injection Hstep as <- <- <-. apply Case1.
      + destruct (Z.eqb_spec z (hleft h zp)) as [Ez|Ez].
        * destruct (right_rotate h root zp) as [[h2 r2]|] eqn:Hr; [|discriminate].
          destruct (rrot_wgood _ _ _ _ _ _ HG Hzp Hr) as (G2 & KV2 & P2 & I2 & _).
          apply (TailL h2 r2 zp); auto.
          -- destruct (KV2 NIL) as (_ & _ & ->). exact HNb.
          -- apply same_kvc_kv; exact KV2.
          -- rewrite P2. exact I2.
        * apply (TailL h root z); auto. apply same_kv_refl.
  Qed.

  Lemma ifix_ok_w : forall fuel h root l z h' root',
    WFixSt h root l z -> ifix fuel h root z = Some (h', root') ->
    WGood h' root' l /\ same_kv h h' /\ hred h' NIL = false /\ hred h' root' = false.
  Proof.
    induction fuel as [|f IH]; intros h root l z h' root' HS H; simpl in H.
    - destruct (hred h (hparent h z)) eqn:E; simpl in H; [discriminate|]. injection H as <- <-.
      destruct HS as (HG & _ & HB). split; [apply WGood_ext_colour; exact HG|]. split; [apply set_red_kv|].
      split; [apply hred_NIL_set_red; auto|]. autorewrite with heap. now rewrite Z.eqb_refl.
    - destruct (hred h (hparent h z)) eqn:E; simpl in H.
      + destruct (ifix_step h root z (hparent h z)) as [[[h1 r1] z1]|] eqn:Hs; [|discriminate].
        destruct (ifix_step_ok_w _ _ _ _ _ _ _ HS E Hs) as (HS1 & KV1).
        destruct (IH _ _ _ _ _ _ HS1 H) as (A & B & C & D).
        split; [exact A|]. split; [eapply same_kv_trans; eauto|]. auto.
      + injection H as <- <-.
        destruct HS as (HG & _ & HB). split; [apply WGood_ext_colour; exact HG|]. split; [apply set_red_kv|].
        split; [apply hred_NIL_set_red; auto|]. autorewrite with heap. now rewrite Z.eqb_refl.
  Qed.

  (* ---- _insert_into_tree and the weak invariant ---- *)
  Lemma WOKC_ext2 (h h' : heap) : forall c l,
    (forall j, In j (cids c) \/ In j l -> hval h' j = hval h j) ->
    (forall j, In j (cids c) -> hmax h' j = hmax h j) -> WOKC h c l -> WOKC h' c l.
  Proof.
    induction c as [|c IH i r|c IH l0 i]; simpl; intros l Ev Em H; [exact I| |];
      destruct H as (Hr & Hm & HC); (split; [|split]).
    - eapply WOK_ext; [|exact Hr]. intros j Hj. split; [apply Em|apply Ev; left]; right; apply in_or_app; now left.
    - rewrite Em by now left. eapply SubA_ext; [|exact Hm]. intros j Hj. unfold Tree.hmin. rewrite Ev; [reflexivity|].
      apply in_app_or in Hj. destruct Hj as [Hj|[<-|Hj]]; [now right|left; now left|left; right; apply in_or_app; now left].
    - apply IH; auto.
      + intros j [Hj|Hj]; apply Ev.
        * left. right. apply in_or_app. now right.
        * apply in_app_or in Hj. destruct Hj as [Hj|[<-|Hj]]; [now right|left; now left|left; right; apply in_or_app; now left].
      + intros j Hj. apply Em. right. apply in_or_app. now right.
    - eapply WOK_ext; [|exact Hr]. intros j Hj. split; [apply Em|apply Ev; left]; right; apply in_or_app; now left.
    - rewrite Em by now left. eapply SubA_ext; [|exact Hm]. intros j Hj. unfold Tree.hmin. rewrite Ev; [reflexivity|].
      apply in_app_or in Hj. destruct Hj as [Hj|[<-|Hj]]; [left; right; apply in_or_app; now left|left; now left|now right].
    - apply IH; auto.
      + intros j [Hj|Hj]; apply Ev.
        * left. right. apply in_or_app. now right.
        * apply in_app_or in Hj. destruct Hj as [Hj|[<-|Hj]]; [left; right; apply in_or_app; now left|left; now left|now right].
      + intros j Hj. apply Em. right. apply in_or_app. now right.
  Qed.

  (* a node may take over the cached maximum of one of its children *)
  Lemma WGood_set_max_child h root l i ch :
    WGood h root l -> In i l -> (ch = hleft h i \/ ch = hright h i) ->
    WGood (set_max h i (hmax h ch)) root l.
  Proof.
    intros (s & (HR & HN & HW & HNil) & <-) Hi Hch. destruct (find_node _ _ Hi) as (c & a & b & ->).
    exists (plug c (Nd a i b)). split; [|reflexivity].
    pose proof HR as HR0. apply Rep_plug in HR0. destruct HR0 as (p & HC & Hp). simpl in Hp.
    destruct Hp as (-> & Hin & Hip & Ha & Hb).
    pose proof HN as HN0. rewrite ids_plug in HN0. simpl in HN0. apply NoDup_mid in HN0. destruct HN0 as (NI & _ & DC).
    apply NoDup_app_iff in NI. destruct NI as (_ & NI & Dai). apply NoDup_cons_iff in NI. destruct NI as (Nib & _).
    assert (Ii : In i (ids a ++ i :: ids b)) by (apply in_or_app; right; now left).
    apply WOK_plug in HW. destruct HW as (HWs & HWc). simpl in HWs. destruct HWs as (HWa & HWb & _).
    assert (Hm : forall j, j <> i -> hmax (set_max h i (hmax h ch)) j = hmax h j).
    { intros j Hj. autorewrite with heap. destruct (Z.eqb_spec i j); [congruence|reflexivity]. }
    split; [|split; [exact HN|split]].
    - eapply Rep_ext; [|exact HR]. intros j _. unfold same_ptrs. now autorewrite with heap.
    - apply WOK_plug. split.
      + simpl. split; [|split].
        * eapply WOK_ext; [|exact HWa]. intros j Hj. split; [|now autorewrite with heap]. apply Hm.
          intros ->. apply (Dai _ Hj). now left.
        * eapply WOK_ext; [|exact HWb]. intros j Hj. split; [|now autorewrite with heap]. apply Hm.
          intros ->. contradiction.
        * autorewrite with heap. rewrite Z.eqb_refl.
          eapply SubA_ext; [intros j _; unfold Tree.hmin; now autorewrite with heap|].
          destruct Hch as [-> | ->].
          -- eapply SubA_mono; [|eapply sub_a; [exact Ha|exact HWa|exact HNil]]. intros j Hj. apply in_or_app. now left.
          -- eapply SubA_mono; [|eapply sub_a; [exact Hb|exact HWb|exact HNil]]. intros j Hj. apply in_or_app. right. now right.
      + eapply WOKC_ext; [| |exact HWc].
        * intros j. now autorewrite with heap.
        * intros j Hj. apply Hm. intros ->. apply (DC i Ii). apply in_or_app. apply cids_in. exact Hj.
    - rewrite Hm; [exact HNil|congruence].
  Qed.

  Notation ins_up := (@ins_up K G N ggt).
  Notation same_but_max := (@same_but_max K G N).

  Lemma sroot_parent h root l : SGood h root l -> l <> [] -> hparent h root = NIL.
  Proof.
    intros (s & (HR & _) & <-) Hne. destruct s as [|a i b]; [contradiction|]. simpl in HR. destruct HR as (-> & _ & E & _). exact E.
  Qed.

  Lemma ins_up_w root : forall fuel (h : heap) l next h',
    WGood h root l -> In next l -> ins_up fuel h next = Some h' ->
    WGood h' root l /\ same_but_max h h'.
  Proof.
    induction fuel as [|f IH]; intros h l next h' HG Hn H; simpl in H.
    - destruct (hparent h next =? NIL); [|discriminate]. injection H as <-. split; [exact HG|apply sbm_refl].
    - destruct (Z.eqb_spec (hparent h next) NIL) as [E|E]; [injection H as <-; split; [exact HG|apply sbm_refl]|].
      pose proof (WGood_SGood _ _ _ HG) as SG.
      assert (Hnr : next <> root).
      { intros ->. apply E. apply (sroot_parent _ _ _ SG). intros El. rewrite El in Hn. contradiction. }
      pose proof (parent_in _ _ _ _ SG Hn Hnr) as Hp.
      set (h1 := if ggt (hmax h next) (hmax h (hparent h next)) then set_max h (hparent h next) (hmax h next) else h) in *.
      assert (G1 : WGood h1 root l).
      { unfold h1. destruct (ggt _ _); [|exact HG]. apply WGood_set_max_child; auto.
        destruct (child_cases _ _ _ _ SG Hn Hnr) as [[A _]|[A _]]; [left|right]; congruence. }
      assert (S1 : same_but_max h h1). { unfold h1. destruct (ggt _ _); [apply sbm_set_max|apply sbm_refl]. }
      destruct (ggt (hmax h1 (hparent h next)) (hmax h1 next)).
      + injection H as <-. split; assumption.
      + destruct (IH h1 l (hparent h next) h' G1 Hp H) as (A & B). split; [exact A|eapply sbm_trans; eauto].
  Qed.

  Variable klt : K -> K -> bool.
  Hypothesis klt_trans : forall a b c, klt a b = true -> klt b c = true -> klt a c = true.
  Notation KSorted := (@KSorted K G N klt).
  Notation descend_ok_ := (@descend_ok K G N klt klt_trans).
  Notation attach_ := (@attach K G N klt nmin smallest).
  Notation attach_facts_ := (@attach_facts K G N klt nmin smallest).
  Notation lo_ok := (@lo_ok K G N klt).
  Notation hi_ok := (@hi_ok K G N klt).
  Notation KSorted_ext := (@KSorted_ext K G N klt).

  Theorem t_insert_ok_w fuel (t : @tree K G N) id k v t' l :
    WGood (th t) (troot t) l -> KSorted (th t) l -> l <> [] ->
    hred (th t) NIL = false ->
    id <> NIL -> ~ In id l ->
    (forall j, In j l -> klt k (hkey (th t) j) = true \/ klt (hkey (th t) j) k = true) ->
    t_insert klt ggt nmin smallest fuel t id k v = Some t' ->
    exists l1 l2, l = l1 ++ l2 /\
      WGood (th t') (troot t') (l1 ++ id :: l2) /\ KSorted (th t') (l1 ++ id :: l2) /\
      hkey (th t') id = k /\ hval (th t') id = v /\
      (forall j, j <> id -> hkey (th t') j = hkey (th t) j /\ hval (th t') j = hval (th t) j) /\
      hred (th t') NIL = false /\ hred (th t') (troot t') = false.
  Proof.
    destruct t as [h root]. simpl. intros (s & (HR & HN & HM & HNil) & <-) HK Hne HB Hid Hfresh HD H.
    rewrite (t_insert_unfold klt ggt nmin smallest) in H. simpl in H.
    destruct (descend klt fuel h k root (ins_next klt h k root)) as [cur|] eqn:Hd; [|discriminate].
    (* the descent, seen from the root *)
    assert (Hrn : root <> NIL).
    { intros ->. apply Hne. now rewrite (Rep_root_L _ _ _ _ HR eq_refl). }
    assert (Hd' : descend klt (S fuel) h k (cpar Top) root = Some cur).
    { simpl. destruct (Z.eqb_spec root NIL); [contradiction|exact Hd]. }
    destruct (descend_ok_ h k root (S fuel) Top root s cur eq_refl HR HK HD
                (fun j (H : In j []) => match H with end) (fun j (H : In j []) => match H with end)
                (fun E => False_ind _ (Hrn E)) Hd') as (c & Ec & HC & -> & Hlo & Hhi & Hdir).
    simpl in Ec. subst s.
    assert (HcT : c <> Top) by (intros ->; exact Hdir).
    destruct (cpar_cases _ _ _ _ HC) as [E|[Hcur Hcurn]]; [destruct c; simpl in E, HC; try congruence; tauto|].
    pose proof (RepC_NIL_notin _ _ _ _ HC) as NNc.
    rewrite ids_plug in *. simpl in *.
    set (l1 := cbefore c) in *. set (l2 := cafter c) in *.
    assert (Hcurl : In (cpar c) (l1 ++ l2)). { apply in_or_app. apply cids_in. exact Hcur. }
    assert (Hcid : cpar c <> id). { intros E. apply Hfresh. rewrite <- E. exact Hcurl. }
    assert (Hcids : forall j, In j (cids c) -> j <> id).
    { intros j Hj ->. apply Hfresh. apply in_or_app. apply cids_in. exact Hj. }
    destruct (attach_facts_ h id (cpar c) k v Hcid) as (F1 & F2 & F3).
    set (h4 := attach_ h id (cpar c) k v) in *.
    destruct F2 as (Fk & Fv & Fm & Fr & Fl & Frr & Fp).
    destruct F3 as (Ck & Cv & Cm & Cr & Cp & Cd).
    assert (NCc : NoDup (cids c)).
    { eapply Permutation_NoDup; [symmetry; apply cids_perm|exact HN]. }
    (* the tree with the new leaf *)
    assert (HC4 : RepC h4 c id root).
    { eapply RepC_swap; [exact HC| |].
      - intros j Hj Hne'. destruct (F1 j (Hcids j Hj) Hne') as (_ & _ & _ & _ & A & B & C). split; [|split]; assumption.
      - destruct c as [|c1 i r|c1 l0 i]; simpl in *; [contradiction| |].
        + rewrite Hdir in Cd. destruct Cd as [Cd1 Cd2]. apply NoDup_cons_iff in NCc. destruct NCc as [NCi _].
          repeat split; auto; intros Hc; apply NCi; apply in_or_app; [now left|now right].
        + rewrite Hdir in Cd. destruct Cd as [Cd1 Cd2]. apply NoDup_cons_iff in NCc. destruct NCc as [NCi _].
          repeat split; auto; intros Hc; apply NCi; apply in_or_app; [now left|now right]. }
    assert (HR4 : Rep h4 id (cpar c) (Nd L id L)).
    { simpl. repeat split; auto. }
    assert (HN4 : NoDup (ids (plug c (Nd L id L)))).
    { rewrite ids_plug. simpl. apply NoDup_insert; assumption. }
    apply WOK_plug in HM. destruct HM as (_ & HMC). simpl in HMC.
    assert (HNn : NIL <> id) by congruence.
    assert (HNc : NIL <> cpar c) by congruence.
    assert (Hold : forall j, j <> id -> hkey h4 j = hkey h j /\ hval h4 j = hval h j /\ hred h4 j = hred h j).
    { intros j Hj. destruct (Z.eq_dec j (cpar c)) as [->|Hn]; [auto|].
      destruct (F1 j Hj Hn) as (A & B & _ & D & _). auto. }
    assert (G4 : WGood h4 root (l1 ++ id :: l2)).
    { exists (plug c (Nd L id L)). split; [|rewrite ids_plug; reflexivity].
      split; [apply Rep_plug; exists id; split; assumption|]. split; [exact HN4|]. split.
      - apply WOK_plug. split.
        + simpl. repeat split; trivial. right. exists id. split; [now left|]. unfold Tree.hmin. rewrite Fv, Fm.
          apply (gle_refl ggt ggt_asym).
        + eapply WOKC_mono; [|eapply (WOKC_ext2 h h4); [| |exact HMC]].
          * intros j [].
          * intros j [Hj|[]]. destruct (Z.eq_dec j (cpar c)) as [->|Hn]; [exact Cv|].
            destruct (F1 j (Hcids j Hj) Hn) as (_ & A & _). exact A.
          * intros j Hj. destruct (Z.eq_dec j (cpar c)) as [->|Hn]; [exact Cm|].
            destruct (F1 j (Hcids j Hj) Hn) as (_ & _ & A & _). exact A.
      - destruct (F1 NIL HNn HNc) as (_ & _ & A & _). rewrite A. exact HNil. }
    destruct (ins_up fuel h4 id) as [h5|] eqn:Hu; [|discriminate].
    destruct (ins_up_w root fuel h4 (l1 ++ id :: l2) id h5 G4 ltac:(apply in_or_app; right; now left) Hu) as (G5 & S5).
    assert (Hkv5 : forall j, hkey h5 j = hkey h4 j /\ hval h5 j = hval h4 j /\ hred h5 j = hred h4 j).
    { intros j. destruct (S5 j) as (_ & A & B & C). auto. }
    assert (K5 : KSorted h5 (l1 ++ id :: l2)).
    { unfold KSorted in *. apply SSorted_app_iff in HK. destruct HK as (K1 & K2 & K12).
      assert (Hk1 : forall j, In j (l1 ++ l2) -> hkey h5 j = hkey h j).
      { intros j Hj. destruct (Hkv5 j) as (-> & _). apply Hold. intros ->. contradiction. }
      assert (Hkid : hkey h5 id = k). { destruct (Hkv5 id) as (-> & _). exact Fk. }
      apply SSorted_app_iff. split; [|split].
      - eapply (KSorted_ext h); [|exact K1]. intros j Hj. apply Hk1. apply in_or_app; now left.
      - constructor.
        + eapply (KSorted_ext h); [|exact K2]. intros j Hj. apply Hk1. apply in_or_app; now right.
        + apply Forall_forall. intros j Hj. rewrite Hkid, Hk1 by (apply in_or_app; now right). apply Hhi. exact Hj.
      - intros a b Ha [<-|Hb].
        + rewrite Hkid, Hk1 by (apply in_or_app; now left). apply Hlo. exact Ha.
        + rewrite !Hk1 by (apply in_or_app; auto). apply K12; assumption. }
    assert (B5 : hred h5 NIL = false).
    { destruct (Hkv5 NIL) as (_ & _ & ->). destruct (Hold NIL HNn) as (_ & _ & ->). exact HB. }
    destruct (ifix fuel h5 root id) as [[h6 root6]|] eqn:Hf; [|discriminate]. injection H as <-. simpl.
    destruct (ifix_ok_w fuel h5 root (l1 ++ id :: l2) id h6 root6) as (G6 & KV6 & B6 & R6); auto.
    { split; [exact G5|split; [apply in_or_app; right; now left|exact B5]]. }
    exists l1, l2. split; [reflexivity|]. split; [exact G6|]. split.
    { eapply KSorted_ext; [|exact K5]. intros j _. apply KV6. }
    split. { destruct (KV6 id) as (-> & _). destruct (Hkv5 id) as (-> & _). exact Fk. }
    split. { destruct (KV6 id) as (_ & ->). destruct (Hkv5 id) as (_ & -> & _). exact Fv. }
    split; [|split; assumption].
    intros j Hj. destruct (KV6 j) as (-> & ->). destruct (Hkv5 j) as (-> & -> & _).
    destruct (Hold j Hj) as (A & B & _). auto.
  Qed.


  Notation tabs_ := (@tabs K G N).
  Theorem t_insert_refines_w fuel (t : @tree K G N) id k v t' l :
    WGood (th t) (troot t) l -> KSorted (th t) l -> l <> [] ->
    hred (th t) NIL = false ->
    id <> NIL -> ~ In id l ->
    has_key klt k (tabs_ (th t) l) = false ->
    t_insert klt ggt nmin smallest fuel t id k v = Some t' ->
    exists l1 l2, l = l1 ++ l2 /\
      WGood (th t') (troot t') (l1 ++ id :: l2) /\ KSorted (th t') (l1 ++ id :: l2) /\
      tabs_ (th t') (l1 ++ id :: l2) = tabs_ (th t) l1 ++ (k, v) :: tabs_ (th t) l2 /\
      st_insert klt k v (tabs_ (th t) l) = inr ((k, v) :: tabs_ (th t) l) /\
      Permutation (tabs_ (th t') (l1 ++ id :: l2)) ((k, v) :: tabs_ (th t) l) /\
      hred (th t') NIL = false /\ hred (th t') (troot t') = false.
  Proof.
    intros HG HK Hne HB Hid Hfresh Hdup H.
    destruct (t_insert_ok_w fuel t id k v t' l HG HK Hne HB Hid Hfresh (has_key_tabs klt _ _ _ Hdup) H)
      as (l1 & l2 & -> & G' & K' & Ek & Ev & Eo & B1 & B2).
    exists l1, l2. split; [reflexivity|]. split; [exact G'|]. split; [exact K'|].
    assert (Et : tabs_ (th t') (l1 ++ id :: l2) = tabs_ (th t) l1 ++ (k, v) :: tabs_ (th t) l2).
    { unfold tabs. rewrite map_app. simpl. rewrite Ek, Ev. f_equal; [|f_equal].
      - apply map_ext_in. intros j Hj. destruct (Eo j) as [-> ->]; [|reflexivity].
        intros ->. apply Hfresh. apply in_or_app. now left.
      - apply map_ext_in. intros j Hj. destruct (Eo j) as [-> ->]; [|reflexivity].
        intros ->. apply Hfresh. apply in_or_app. now right. }
    split; [exact Et|]. split.
    { unfold st_insert. now rewrite Hdup. }
    split; [|split; assumption].
    rewrite Et. unfold tabs. rewrite map_app. symmetry. apply Permutation_middle.
  Qed.

  (* ---- the query under the weak invariant ---- *)
  Lemma q_up_w (h : heap) root : forall fuel c cur mx L0 lh m,
    RepC h c cur root -> cur <> NIL -> hparent h cur = cpar c ->
    NoDup (cids c) -> ~ In cur (cids c) ->
    WOKC h c lh -> hmax h NIL = smallest ->
    SubA (hmin h) mx L0 ->
    q_up ggt nmin fuel h cur mx = Some m ->
    SubA (hmin h) m (cbefore c ++ L0).
  Proof.
    induction fuel as [|f IH]; intros c cur mx L0 lh m HC Hcn Hp HN Hnc HM HNil Hmx H; simpl in H; rewrite Hp in H.
    - destruct c as [|c1 i r|c1 l0 i]; simpl in H, HC.
      + injection H as <-. exact Hmx.
      + destruct HC as (Hi & _). destruct (Z.eqb_spec i NIL); [contradiction|discriminate].
      + destruct HC as (Hi & _). destruct (Z.eqb_spec i NIL); [contradiction|discriminate].
    - destruct c as [|c1 i r|c1 l0 i]; simpl in H, HC.
      + injection H as <-. exact Hmx.
      + destruct HC as (Hi & Hil & Hip & Hr & HC1). destruct (Z.eqb_spec i NIL); [contradiction|].
        simpl in HN. apply NoDup_cons_iff in HN. destruct HN as (Ni & HN).
        apply NoDup_app_iff in HN. destruct HN as (Nr & Nc1 & Drc).
        assert (Hne : cur <> hright h i).
        { destruct (Rep_root _ _ _ _ Hr) as [E|E]; [congruence|]. intros E'. apply Hnc. simpl. right.
          apply in_or_app. left. rewrite E'. exact E. }
        destruct (Z.eqb_spec cur (hright h i)); [contradiction|].
        simpl in HM. destruct HM as (_ & _ & HM1).
        simpl. eapply (IH c1 i mx L0 (lh ++ i :: ids r) m HC1 Hi Hip Nc1); eauto.
        intros Hc. apply Ni. apply in_or_app. now right.
      + destruct HC as (Hi & Hil & Hip & Hr & HC1). destruct (Z.eqb_spec i NIL); [contradiction|].
        simpl in HN. apply NoDup_cons_iff in HN. destruct HN as (Ni & HN).
        apply NoDup_app_iff in HN. destruct HN as (Nr & Nc1 & Drc).
        rewrite Hil, Z.eqb_refl in H.
        simpl in HM. destruct HM as (Ml0 & _ & HM1).
        pose proof (sub_a h _ _ _ Hr Ml0 HNil) as Sl.
        set (mx1 := if ggt (hmax h (hleft h i)) mx then hmax h (hleft h i) else mx) in *.
        set (mx2 := if ggt (hmin h i) mx1 then hmin h i else mx1) in *.
        assert (S1 : SubA (hmin h) mx1 (ids l0 ++ L0)).
        { unfold mx1. destruct (ggt (hmax h (hleft h i)) mx); [eapply SubA_mono; [|exact Sl]|eapply SubA_mono; [|exact Hmx]];
            intros j Hj; apply in_or_app; auto. }
        assert (S2 : SubA (hmin h) mx2 (i :: ids l0 ++ L0)).
        { unfold mx2. destruct (ggt (hmin h i) mx1); [apply SubA_own; now left|eapply SubA_mono; [|exact S1]].
          intros j Hj. now right. }
        assert (Hnc1 : ~ In i (cids c1)). { intros Hc. apply Ni. apply in_or_app. now right. }
        pose proof (IH c1 i mx2 (i :: ids l0 ++ L0) (ids l0 ++ i :: lh) m HC1 Hi Hip Nc1 Hnc1 HM1 HNil S2 H) as R.
        eapply SubA_mono; [|exact R]. intros j Hj. simpl. rewrite <- !app_assoc.
        apply in_app_or in Hj. apply in_or_app. destruct Hj as [Hj|Hj]; [now left|right].
        destruct Hj as [<-|Hj]; [apply in_or_app; right; now left|].
        apply in_app_or in Hj. apply in_or_app. destruct Hj as [Hj|Hj]; [now left|right; now right].
  Qed.

  Context {A : Type}.
  Variable ncontrib : N -> A -> option G.
  Hypothesis klt_irrefl : forall a, klt a a = false.
  Hypothesis klt_negtrans : forall a b c, klt a c = true -> klt a b = true \/ klt b c = true.
  Notation search_ok_ := (@search_ok K G N klt klt_trans).
  Notation q_walk_eq_ := (@q_walk_eq A K G N klt ggt ncontrib).
  Notation walk_spec_ := (@walk_spec A K G N klt ggt ncontrib ggt_asym gle_trans).
  Notation klt_asym_ := (@klt_asym K klt klt_trans klt_irrefl).
  Notation ggt_mono_r_ := (@ggt_mono_r G ggt gle_trans).
  Notation hitn := (@hitn A G N ggt ncontrib).
  Notation tabs := (@tabs K G N).

  Theorem t_query_ok_w fuel (t : @tree K G N) l k a g r :
    WGood (th t) (troot t) l -> KSorted (th t) l -> l <> [] ->
    gle ggt smallest g ->
    (* phase 1 of the code consults only the left side of the search path: for the
       nodes it skips, min3 > g must imply that the interpolated gradient exceeds g *)
    (forall j, In j l -> klt (hkey (th t) j) k = true -> ggt (hmin (th t) j) g = true ->
               hitn g a (hval (th t) j) = true) ->
    t_query klt ggt nmin ncontrib smallest fuel t k a g = Some r ->
    exists m, r = QVal m /\
      negb (ggt m g) = visible_q klt ggt nmin ncontrib (tabs (th t) l) k a g.
  Proof.
    destruct t as [h root]. simpl. intros (s & (HR & HN & HM & HNil) & <-) HK Hne Hg Hp1 H.
    unfold t_query in H. cbn [th troot] in H.
    assert (Hrn : root <> NIL).
    { intros ->. apply Hne. now rewrite (Rep_root_L _ _ _ _ HR eq_refl). }
    destruct (Z.eqb_spec root NIL); [contradiction|].
    destruct (search klt fuel h root k) as [kn|] eqn:Hs; [|discriminate].
    destruct (search_ok_ h k root fuel Top root s kn eq_refl HR HK
                (fun j (H : In j []) => match H with end) (fun j (H : In j []) => match H with end) Hs)
      as [(-> & c' & Ec & Hlo & Hhi)|(c' & a0 & b & Ec & HC & HRk & Hlo & Hhi & E1 & E2)].
    - (* absent *)
      simpl in H. injection H as <-. exists smallest. split; [reflexivity|].
      simpl in Ec. subst s. rewrite ids_plug in *. simpl in *.
      unfold visible_q. destruct (has_key klt k (tabs h (cbefore c' ++ cafter c'))) eqn:Eh.
      + exfalso. unfold has_key in Eh. apply existsb_exists in Eh. destruct Eh as ((k1 & n1) & Hin & Hq).
        unfold ProofsTreeIns.tabs in Hin. apply in_map_iff in Hin. destruct Hin as (j & Ej & Hj). inversion Ej; subst.
        simpl in Hq. unfold keq in Hq. apply andb_true_iff in Hq. destruct Hq as [Q1 Q2].
        apply in_app_or in Hj. destruct Hj as [Hj|Hj].
        * rewrite (Hlo j Hj) in Q2. discriminate.
        * rewrite (Hhi j Hj) in Q1. discriminate.
      + unfold gle in Hg. rewrite Hg. reflexivity.
    - (* present *)
      simpl in Ec. subst s.
      assert (Hkn : kn <> NIL) by (simpl in HRk; tauto).
      destruct (Z.eqb_spec kn NIL); [contradiction|].
      pose proof HN as HN0. rewrite ids_plug in HN. simpl in HN.
      apply NoDup_mid in HN. destruct HN as (NI & NC & DC).
      assert (NCc : NoDup (cids c')). { eapply Permutation_NoDup; [symmetry; apply cids_perm|exact NC]. }
      assert (Hknc : ~ In kn (cids c')).
      { intros Hc. apply (DC kn); [apply in_or_app; right; now left|]. apply in_or_app. apply cids_in. exact Hc. }
      apply WOK_plug in HM. destruct HM as (HMs & HMc).
      assert (Hpk : hparent h kn = cpar c') by (simpl in HRk; tauto).
      destruct (q_up ggt nmin fuel h kn smallest) as [m1|] eqn:Hu; [|discriminate].
      pose proof (q_up_w h root fuel c' kn smallest [] _ m1 HC Hkn Hpk NCc Hknc HMc HNil (or_introl eq_refl) Hu) as S1.
      rewrite app_nil_r in S1.
      (* the key is present in the abstraction *)
      assert (Hhas : has_key klt k (tabs h (ids (plug c' (Nd a0 kn b)))) = true).
      { unfold has_key. apply existsb_exists. exists (hkey h kn, hval h kn). split.
        - unfold ProofsTreeIns.tabs. apply in_map_iff. exists kn. split; [reflexivity|].
          rewrite ids_plug. apply in_or_app; right. apply in_or_app; left. simpl. apply in_or_app; right; now left.
        - simpl. unfold keq. now rewrite E1, E2. }
      unfold visible_q. rewrite Hhas.
      (* who is nearer *)
      assert (Hsort := HK). rewrite ids_plug in Hsort. simpl in Hsort.
      apply SSorted_app_iff in Hsort. destruct Hsort as (_ & Hsort & _).
      apply SSorted_app_iff in Hsort. destruct Hsort as (Hsort & _ & _).
      apply SSorted_app_iff in Hsort. destruct Hsort as (_ & Hsort & Hak).
      apply StronglySorted_inv in Hsort. destruct Hsort as [_ Hkb]. rewrite Forall_forall in Hkb.
      assert (Hnear : forall j, In j (ids (plug c' (Nd a0 kn b))) ->
                 (klt (hkey h j) k = true <-> In j (cbefore c' ++ ids a0))).
      { intros j Hj. rewrite ids_plug in Hj. simpl in Hj. split.
        - intros Hlt. apply in_app_or in Hj. destruct Hj as [Hj|Hj]; [apply in_or_app; now left|].
          apply in_app_or in Hj. destruct Hj as [Hj|Hj].
          + apply in_app_or in Hj. destruct Hj as [Hj|[<-|Hj]]; [apply in_or_app; now right|congruence|].
            exfalso. pose proof (klt_trans _ _ _ (Hkb j Hj) Hlt). congruence.
          + exfalso. pose proof (klt_asym_ _ _ (Hhi j Hj)). congruence.
        - intros Hin. apply in_app_or in Hin. destruct Hin as [Hin|Hin]; [apply Hlo; exact Hin|].
          destruct (klt_negtrans _ k _ (Hak j kn Hin ltac:(now left))) as [X|X]; [exact X|congruence]. }
      destruct (ggt m1 g) eqn:Em1.
      + (* phase 1 answers *)
        injection H as <-. exists m1. split; [reflexivity|]. rewrite Em1. simpl.
        destruct S1 as [Em|(w & Hw & Aw)]; [rewrite Em in Em1; unfold gle in Hg; congruence|].
        assert (Hb : blocked_q klt ggt nmin ncontrib (tabs h (ids (plug c' (Nd a0 kn b)))) k a g = true).
        { unfold blocked_q. apply existsb_exists. exists (hkey h w, hval h w). split.
          - unfold ProofsTreeIns.tabs. apply in_map_iff. exists w. split; [reflexivity|].
            rewrite ids_plug. apply in_or_app. now left.
          - simpl. rewrite (Hlo w Hw). simpl. apply orb_true_iff. left.
            apply (ggt_mono_r_ m1); [exact Em1|exact Aw]. }
        rewrite Hb. reflexivity.
      + (* phase 2 *)
        pose proof (q_walk_eq_ h root kn k a g fuel (S fuel) c' kn a0 b smallest r HC HRk HN0 H) as Er.
        destruct (walk_spec_ h kn k a g (kn :: rev (cbefore c' ++ ids a0)) smallest Hg) as (m & Ew & Hm).
        { intros x [<-|Hx]; [exact E1|]. apply in_rev in Hx. apply in_app_or in Hx. destruct Hx as [Hx|Hx].
          - apply klt_asym_. apply Hlo. exact Hx.
          - destruct (klt k (hkey h x)) eqn:E; [|reflexivity].
            pose proof (klt_trans _ _ _ E (Hak x kn Hx ltac:(now left))). congruence. }
        exists m. split; [congruence|].
        assert (Hiff : ggt m g = true <->
                       blocked_q klt ggt nmin ncontrib (tabs h (ids (plug c' (Nd a0 kn b)))) k a g = true).
        { rewrite Hm. unfold blocked_q. rewrite existsb_exists. split.
          - intros (x & Hx & Hne' & Hh). destruct Hx as [<-|Hx]; [congruence|]. apply in_rev in Hx.
            exists (hkey h x, hval h x). split.
            + unfold ProofsTreeIns.tabs. apply in_map_iff. exists x. split; [reflexivity|]. rewrite ids_plug.
              apply in_app_or in Hx. destruct Hx as [Hx|Hx]; apply in_or_app; [now left|right].
              apply in_or_app; left. simpl. apply in_or_app. now left.
            + simpl. assert (Hl : klt (hkey h x) k = true).
              { apply Hnear; [|exact Hx]. rewrite ids_plug.
                apply in_app_or in Hx. destruct Hx as [Hx|Hx]; apply in_or_app; [now left|right].
                apply in_or_app; left. simpl. apply in_or_app. now left. }
              rewrite Hl. simpl. apply orb_true_iff. right. exact Hh.
          - intros ((k1 & n1) & Hin & Hq). unfold ProofsTreeIns.tabs in Hin. apply in_map_iff in Hin.
            destruct Hin as (j & Ej & Hj). inversion Ej; subst. simpl in Hq.
            apply andb_true_iff in Hq. destruct Hq as [Hl Hq].
            pose proof (proj1 (Hnear j Hj) Hl) as Hpred.
            assert (Hjk : j <> kn). { intros ->. congruence. }
            exists j. split; [right; apply -> in_rev; exact Hpred|]. split; [exact Hjk|].
            apply orb_true_iff in Hq. destruct Hq as [Hq|Hq]; [|exact Hq].
            apply in_app_or in Hpred. destruct Hpred as [Hc|Ha].
            + apply Hp1; assumption.
            + apply Hp1; assumption. }
        destruct (ggt m g) eqn:Emg.
        * rewrite (proj1 Hiff eq_refl). reflexivity.
        * destruct (blocked_q klt ggt nmin ncontrib (tabs h (ids (plug c' (Nd a0 kn b)))) k a g) eqn:Eb; [|reflexivity].
          pose proof (proj2 Hiff eq_refl). discriminate.
  Qed.
End Weak.
