(* C08/Model.v — executable model of xrspatial slope._cpu, aspect._run_numpy,
   curvature._cpu (+ the (cx+cy)/2 of the wrapper), hillshade._run_numpy and
   utils.get_dataarray_resolution / calc_res (NumPy backend), written ONCE over
   [Arith] with Numba's / NumPy's promotion spelled out:
     slope, aspect: window read as float32, `2 * f` is int64*float32 = float64 and
       everything after it is float64, the result is stored as float32;
     curvature: `data[y+1,x] + data[y-1,x]` is a float32 addition, `/ 2` widens;
     hillshade (NumPy, NEP 50): gradient, sqrt, arctan, arctan2, pi/2 - ., sin/cos of
       the slope and aspect are float32; the products with np.sin(altituderad)
       (a float64 scalar) and everything after are float64.
   libm / NumPy trigonometry are Section variables.  Definitions only. *)
Require Import Base.Prelude.
From Coq Require Import QArith PrimFloat SpecFloat.
Require Import C08.Arith.
Close Scope Q_scope.
Open Scope Z_scope.

(* the 3x3 neighbourhood of a cell, named by compass direction with row y-1 = north
   (nw = data[y-1, x-1], s = data[y+1, x], ...) *)
Record Win (T : Type) : Type := mkWin {
  w_nw : T; w_n : T; w_ne : T;
  w_w : T;  w_c : T; w_e : T;
  w_sw : T; w_s : T; w_se : T
}.
Arguments mkWin {T}. Arguments w_nw {T}. Arguments w_n {T}. Arguments w_ne {T}.
Arguments w_w {T}. Arguments w_c {T}. Arguments w_e {T}.
Arguments w_sw {T}. Arguments w_s {T}. Arguments w_se {T}.

Section Grid.
  Context {T U : Type}.
  Variable nanT : T.
  Variable nanU : U.
  Definition get (g : list (list T)) (y x : Z) : T := nthZ nanT (nthZ [] g y) x.
  Definition nrows (g : list (list T)) : Z := lenZ g.
  Definition ncols (g : list (list T)) : Z := lenZ (nthZ [] g 0).     (* data.shape[1] *)
  Definition win_at (g : list (list T)) (y x : Z) : Win T :=
    mkWin (get g (y - 1) (x - 1)) (get g (y - 1) x) (get g (y - 1) (x + 1))
          (get g y (x - 1))       (get g y x)       (get g y (x + 1))
          (get g (y + 1) (x - 1)) (get g (y + 1) x) (get g (y + 1) (x + 1)).
  (* for y in range(1, rows-1): for x in range(1, cols-1) *)
  Definition interior (rows cols y x : Z) : bool :=
    (1 <=? y) && (y <? rows - 1) && (1 <=? x) && (x <? cols - 1).
  (* out = full(nan); out[y, x] = f(window) on the interior *)
  Definition stencil (f : Win T -> U) (g : list (list T)) : list (list U) :=
    let rows := nrows g in
    let cols := ncols g in
    map (fun y => map (fun x => if interior rows cols y x then f (win_at g y x) else nanU)
                      (ziota 0 (Z.to_nat cols)))
        (ziota 0 (Z.to_nat rows)).
End Grid.

Section Surface.
  Variable A : Arith.
  Notation S := (T32 A).
  Notation D := (T64 A).
  Variable atanD : D -> D.               (* np.arctan / np.arctan2 inside Numba: libm *)
  Variable atan2D : D -> D -> D.
  Variables atanS sinS cosS : S -> S.    (* NumPy's vectorised float32 functions (hillshade) *)
  Variable atan2S : S -> S -> S.
  Variables sinD cosD : D -> D.          (* np.sin / np.cos of the Python float altituderad *)
  Let lit (z : Z) : D := dofZ A z.

  (* p + 2*q + r  with p q r float32:  float32 + (int64*float32 = float64) -> float64 *)
  Definition horn3 (p q r : S) : D :=
    dadd A (dadd A (widen A p) (dmul A (lit 2) (widen A q))) (widen A r).

  (* ---- slope._cpu : a b c = row y+1 (south), d f = row y, g h i = row y-1 (north) ---- *)
  Definition slope_grad (cx cy : D) (W : Win S) : D * D :=
    let a := w_sw W in let b := w_s W in let c := w_se W in
    let d := w_w W in let f := w_e W in
    let g := w_nw W in let h := w_n W in let i := w_ne W in
    (ddiv A (dsub A (horn3 c f i) (horn3 a d g)) (dmul A (lit 8) cx),
     ddiv A (dsub A (horn3 g h i) (horn3 a b c)) (dmul A (lit 8) cy)).
  Definition slope_p2 (cx cy : D) (W : Win S) : D :=
    let '(dx, dy) := slope_grad cx cy W in dadd A (dmul A dx dx) (dmul A dy dy).
  (* out = np.arctan((dz_dx**2 + dz_dy**2) ** .5) * 57.29578 ; k57 = the literal 57.29578 *)
  Definition slope_cell (k57 cx cy : D) (W : Win S) : S :=
    narrow A (dmul A (atanD (dsqrt A (slope_p2 cx cy W))) k57).

  (* ---- aspect._run_numpy : a b c = row y-1 (north), g h i = row y+1 (south); no cell size ---- *)
  Definition aspect_grad (W : Win S) : D * D :=
    let a := w_nw W in let b := w_n W in let c := w_ne W in
    let d := w_w W in let f := w_e W in
    let g := w_sw W in let h := w_s W in let i := w_se W in
    (ddiv A (dsub A (horn3 c f i) (horn3 a d g)) (lit 8),
     ddiv A (dsub A (horn3 g h i) (horn3 a b c)) (lit 8)).
  (* compass conversion of _aspect = arctan2(dz_dy, -dz_dx) * RADIAN *)
  Definition compass (asp : D) : D :=
    if dltb A asp (lit 0) then dsub A (lit 90) asp
    else if dltb A (lit 90) asp then dadd A (dsub A (lit 360) asp) (lit 90)
    else dsub A (lit 90) asp.
  Definition aspect_cell (radian : D) (W : Win S) : S :=
    let '(dx, dy) := aspect_grad W in
    if deqb A dx (lit 0) && deqb A dy (lit 0) then narrow A (lit (-1))
    else narrow A (compass (dmul A (atan2D dy (dopp A dx)) radian)).

  (* ---- curvature._cpu ---- *)
  Definition curv_sum (W : Win S) : D :=
    let d := dsub A (ddiv A (widen A (sadd A (w_s W) (w_n W))) (lit 2)) (widen A (w_c W)) in
    let e := dsub A (ddiv A (widen A (sadd A (w_e W) (w_w W))) (lit 2)) (widen A (w_c W)) in
    dadd A d e.
  (* out = -2 * (d + e) * 100 / (cellsize * cellsize) *)
  Definition curvature_cell (cellsize : D) (W : Win S) : S :=
    narrow A (ddiv A (dmul A (dmul A (lit (-2)) (curv_sum W)) (lit 100)) (dmul A cellsize cellsize)).
  (* wrapper: cellsize = (cellsize_x + cellsize_y) / 2 *)
  Definition curv_cellsize (cx cy : D) : D := ddiv A (dadd A cx cy) (lit 2).

  (* ---- hillshade._run_numpy (interior cells; the frame is overwritten with NaN) ---- *)
  (* np.gradient, unit spacing: x = d/d(axis 0) = (south - north)/2, y = d/d(axis 1) = (east - west)/2 *)
  Definition hs_grad (W : Win S) : S * S :=
    (sdiv A (ssub A (w_s W) (w_n W)) (sofZ A 2), sdiv A (ssub A (w_e W) (w_w W)) (sofZ A 2)).
  Definition hillshade_cell (pi azimuth altitude : D) (W : Win S) : D :=
    let '(gx, gy) := hs_grad W in
    let half_pi := ddiv A pi (lit 2) in
    let slope := ssub A (narrow A half_pi)
                        (atanS (ssqrt A (sadd A (smul A gx gx) (smul A gy gy)))) in
    let aspect := atan2S (sopp A gx) gy in
    let az := dsub A (lit 360) azimuth in                              (* azimuth = 360.0 - azimuth *)
    let azimuthrad := ddiv A (dmul A az pi) (lit 180) in
    let altituderad := ddiv A (dmul A altitude pi) (lit 180) in
    let shaded :=
      dadd A (dmul A (sinD altituderad) (widen A (sinS slope)))
             (dmul A (dmul A (cosD altituderad) (widen A (cosS slope)))
                     (widen A (cosS (ssub A (narrow A (dsub A azimuthrad half_pi)) aspect)))) in
    ddiv A (dadd A shaded (lit 1)) (lit 2).

  (* ---- rasters ---- *)
  Definition slope_raster (k57 cx cy : D) (g : list (list S)) : list (list S) :=
    stencil (snan A) (snan A) (slope_cell k57 cx cy) g.
  Definition aspect_raster (radian : D) (g : list (list S)) : list (list S) :=
    stencil (snan A) (snan A) (aspect_cell radian) g.
  Definition curvature_raster (cx cy : D) (g : list (list S)) : list (list S) :=
    stencil (snan A) (snan A) (curvature_cell (curv_cellsize cx cy)) g.
  (* np.gradient needs at least 2 cells along each axis: None = ValueError *)
  Definition hillshade_raster (pi azimuth altitude : D) (g : list (list S)) : option (list (list D)) :=
    if (2 <=? nrows g) && (2 <=? ncols g)
    then Some (stencil (snan A) (dnan A) (hillshade_cell pi azimuth altitude) g)
    else None.

  (* ---- utils.get_dataarray_resolution / calc_res ---- *)
  Inductive res_attr : Type :=
  | ResAbsent                 (* no usable `res` attribute: fall back to the coordinates *)
  | ResScalar (c : D)         (* res = number *)
  | ResPair (cx cy : D).      (* res = (x, y) tuple / list / ndarray of two Python numbers *)
  Definition dmin_list (l : list D) : D :=
    match l with [] => dnan A | v :: t => fold_left (fun m u => if dltb A u m then u else m) t v end.
  Definition dmax_list (l : list D) : D :=
    match l with [] => dnan A | v :: t => fold_left (fun m u => if dltb A m u then u else m) t v end.
  (* xres = (xmax - xmin) / (w - 1);  yres = (ymax - ymin) / (h - 1) *)
  Definition calc_res (xs ys : list D) (h w : Z) : D * D :=
    (ddiv A (dsub A (dmax_list xs) (dmin_list xs)) (lit (w - 1)),
     ddiv A (dsub A (dmax_list ys) (dmin_list ys)) (lit (h - 1))).
  Definition cell_sizes (r : res_attr) (xs ys : list D) (h w : Z) : D * D :=
    match r with
    | ResPair cx cy => (cx, cy)
    | ResScalar c => (c, c)
    | ResAbsent => calc_res xs ys h w
    end.
End Surface.
Arguments ResAbsent {A}. Arguments ResScalar {A}. Arguments ResPair {A}.

(* ------------------------------------------------------------------ *)
(* float instance: what the driver runs                                *)
(* ------------------------------------------------------------------ *)
Inductive cellv : Type := CI (z : Z) | CF (f : float).
(* data.astype(np.float32) *)
Definition cast32 (c : cellv) : spec_float :=
  match c with CI z => b32_of_Z z | CF f => b32_of_f64 f end.
Definition castg (g : list (list cellv)) := map (map cast32) g.
Definition F := FloatArith.
Definition out64 (g : list (list spec_float)) : list (list float) := map (map f64_of_b32) g.

Inductive fres : Type := FAbsent | FScalar (c : float) | FPair (cx cy : float).
Definition res_of (r : fres) : @res_attr F :=
  match r with FAbsent => ResAbsent | FScalar c => @ResScalar F c | FPair a b => @ResPair F a b end.
Definition f_sizes (r : fres) (xs ys : list float) (g : list (list cellv)) : float * float :=
  cell_sizes F (res_of r) xs ys (nrows (castg g)) (ncols (castg g)).
Definition f_slope (atanf : float -> float) (k57 : float) (r : fres) (xs ys : list float)
    (g : list (list cellv)) : list (list float) :=
  let '(cx, cy) := f_sizes r xs ys g in out64 (slope_raster F atanf k57 cx cy (castg g)).
Definition f_aspect (atan2f : float -> float -> float) (radian : float) (g : list (list cellv)) :=
  out64 (aspect_raster F atan2f radian (castg g)).
Definition f_curvature (r : fres) (xs ys : list float) (g : list (list cellv)) :=
  let '(cx, cy) := f_sizes r xs ys g in out64 (curvature_raster F cx cy (castg g)).
(* float32 trigonometry = the double function rounded to float32 (NumPy's own float32 loops differ by ulps) *)
Definition f_hillshade (atanf sinf cosf : float -> float) (atan2f : float -> float -> float)
    (pi azimuth altitude : float) (g : list (list cellv)) : option (list (list float)) :=
  let r32 (h : float -> float) (x : spec_float) := b32_of_f64 (h (f64_of_b32 x)) in
  let a2 (x y : spec_float) := b32_of_f64 (atan2f (f64_of_b32 x) (f64_of_b32 y)) in
  hillshade_raster F (r32 atanf) (r32 sinf) (r32 cosf) a2 sinf cosf pi azimuth altitude (castg g).
