(* Arith.v — the small arithmetic interface the floating-point kernels are written
   against, and its two instances:
     * [FloatArith]  : binary32 = SpecFloat operations at (prec 24, emax 128),
                       binary64 = PrimFloat; used for execution / extraction and the
                       bit-exact correspondence with the Numba kernels;
     * [ExactArith]  : both carriers are [option Q] (None = NaN), every operation is
                       exact; used for the algebraic theorems (axiom-free).
   Numba's promotion rules are written out in the kernels with [widen] (binary32 ->
   binary64, exact) and [narrow] (binary64 -> binary32, round to nearest even: what
   a store into a float32 array or `.astype('f4')` does).  Definitions only. *)
Require Import Base.Prelude.
From Coq Require Import QArith PrimFloat SpecFloat FloatOps.
Close Scope Q_scope.
Open Scope Z_scope.

Record Arith : Type := mkArith {
  T32 : Type;                       (* float32 values *)
  T64 : Type;                       (* float64 values *)
  sadd : T32 -> T32 -> T32;  ssub : T32 -> T32 -> T32;
  smul : T32 -> T32 -> T32;  sdiv : T32 -> T32 -> T32;
  ssqrt : T32 -> T32;        sopp : T32 -> T32;
  dadd : T64 -> T64 -> T64;  dsub : T64 -> T64 -> T64;
  dmul : T64 -> T64 -> T64;  ddiv : T64 -> T64 -> T64;
  dsqrt : T64 -> T64;        dopp : T64 -> T64;
  widen : T32 -> T64;        narrow : T64 -> T32;
  sofZ : Z -> T32;           dofZ : Z -> T64;      (* integer literals *)
  snan : T32;                dnan : T64;
  seqb : T32 -> T32 -> bool; sltb : T32 -> T32 -> bool; sleb : T32 -> T32 -> bool;
  deqb : T64 -> T64 -> bool; dltb : T64 -> T64 -> bool; dleb : T64 -> T64 -> bool;
  sisnan : T32 -> bool;      disnan : T64 -> bool;
  strunc : T32 -> option Z          (* truncation toward zero; None for NaN / inf *)
}.

(* ------------------------------------------------------------------ *)
(* exact instance                                                      *)
(* ------------------------------------------------------------------ *)
Definition oq := option Q.
Definition olift1 (f : Q -> Q) (a : oq) : oq :=
  match a with Some x => Some (f x) | None => None end.
Definition olift2 (f : Q -> Q -> Q) (a b : oq) : oq :=
  match a, b with Some x, Some y => Some (f x y) | _, _ => None end.
(* x / 0 is NaN in the exact instance: it has no infinities *)
Definition odiv (a b : oq) : oq :=
  match a, b with
  | Some x, Some y => if Qeq_bool y 0%Q then None else Some (x / y)%Q
  | _, _ => None
  end.
Definition ocmp (f : Q -> Q -> bool) (a b : oq) : bool :=
  match a, b with Some x, Some y => f x y | _, _ => false end.
Definition Qlt_bool (x y : Q) : bool := negb (Qle_bool y x).
Definition oisnan (a : oq) : bool := match a with None => true | Some _ => false end.
Definition Qtrunc (x : Q) : Z := Z.quot (Qnum x) (Zpos (Qden x)).

Section Exact.
  Variable qsqrt : Q -> Q.          (* abstract square root on non-negative rationals *)
  Definition osqrt (a : oq) : oq :=
    match a with
    | Some x => if Qle_bool 0%Q x then Some (qsqrt x) else None
    | None => None
    end.
  Definition ExactArith : Arith := {|
    T32 := oq; T64 := oq;
    sadd := olift2 Qplus; ssub := olift2 Qminus; smul := olift2 Qmult; sdiv := odiv;
    ssqrt := osqrt; sopp := olift1 Qopp;
    dadd := olift2 Qplus; dsub := olift2 Qminus; dmul := olift2 Qmult; ddiv := odiv;
    dsqrt := osqrt; dopp := olift1 Qopp;
    widen := fun x => x; narrow := fun x => x;
    sofZ := fun z => Some (inject_Z z); dofZ := fun z => Some (inject_Z z);
    snan := None; dnan := None;
    seqb := ocmp Qeq_bool; sltb := ocmp Qlt_bool; sleb := ocmp Qle_bool;
    deqb := ocmp Qeq_bool; dltb := ocmp Qlt_bool; dleb := ocmp Qle_bool;
    sisnan := oisnan; disnan := oisnan;
    strunc := fun a => match a with Some x => Some (Qtrunc x) | None => None end
  |}.
End Exact.

(* ------------------------------------------------------------------ *)
(* float instance                                                      *)
(* ------------------------------------------------------------------ *)
Definition prec32 : Z := 24.
Definition emax32 : Z := 128.

(* Z -> binary64 from float operations only (exact below 2^53) *)
Fixpoint pos_to_float (p : positive) : float :=
  match p with
  | xH => 1%float
  | xO q => (2 * pos_to_float q)%float
  | xI q => (2 * pos_to_float q + 1)%float
  end.
Definition Z_to_float (z : Z) : float :=
  match z with
  | Z0 => 0%float
  | Zpos p => pos_to_float p
  | Zneg p => (- pos_to_float p)%float
  end.
(* f * 2^e by repeated exact doubling / halving *)
Definition scale2 (f : float) (e : Z) : float :=
  match e with
  | Z0 => f
  | Zpos n => Pos.iter (fun x => (x * 2)%float) f n
  | Zneg n => Pos.iter (fun x => (x / 2)%float) f n
  end.
(* binary32 -> binary64: exact (every binary32 number is a normal binary64 number) *)
Definition f64_of_b32 (x : spec_float) : float :=
  match x with
  | S754_nan => nan
  | S754_zero false => 0%float
  | S754_zero true => (-0)%float
  | S754_infinity false => infinity
  | S754_infinity true => neg_infinity
  | S754_finite s m e =>
    let f := scale2 (pos_to_float m) e in if s then (- f)%float else f
  end.
(* binary64 -> binary32: round to nearest even (a store into a float32 array) *)
Definition b32_of_f64 (x : float) : spec_float :=
  match Prim2SF x with
  | S754_finite s m e => binary_round prec32 emax32 s m e
  | y => y
  end.
(* integer -> binary32 / binary64 (`.astype('f4')` of an integer raster) *)
Definition b32_of_Z (z : Z) : spec_float := binary_normalize prec32 emax32 z 0 false.
Definition sf_isnan (x : spec_float) : bool := match x with S754_nan => true | _ => false end.
Definition sf_trunc (x : spec_float) : option Z :=
  match x with
  | S754_zero _ => Some 0
  | S754_finite s m e =>
    let a := match e with
             | Z0 => Zpos m
             | Zpos n => Z.shiftl (Zpos m) (Zpos n)
             | Zneg n => Z.shiftr (Zpos m) (Zpos n)
             end in
    Some (if s then - a else a)
  | _ => None
  end.

Definition FloatArith : Arith := {|
  T32 := spec_float; T64 := float;
  sadd := SFadd prec32 emax32; ssub := SFsub prec32 emax32;
  smul := SFmul prec32 emax32; sdiv := SFdiv prec32 emax32;
  ssqrt := SFsqrt prec32 emax32; sopp := SFopp;
  dadd := PrimFloat.add; dsub := PrimFloat.sub; dmul := PrimFloat.mul; ddiv := PrimFloat.div;
  dsqrt := PrimFloat.sqrt; dopp := PrimFloat.opp;
  widen := f64_of_b32; narrow := b32_of_f64;
  sofZ := b32_of_Z; dofZ := Z_to_float;
  snan := S754_nan; dnan := nan;
  seqb := SFeqb; sltb := SFltb; sleb := SFleb;
  deqb := PrimFloat.eqb; dltb := PrimFloat.ltb; dleb := PrimFloat.leb;
  sisnan := sf_isnan; disnan := PrimFloat.is_nan;
  strunc := sf_trunc
|}.
