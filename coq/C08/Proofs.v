(* C08/Proofs.v — structural facts about the 3x3 stencil, for ANY cell types and
   ANY kernel function: dimensions, border NaN, interior = kernel(window), and
   containment of a single-cell change.  Holds for every raster size. *)
Require Import Base.Prelude.
Require Import C08.Arith C08.Model.
Open Scope Z_scope.

Lemma nthZ_ziota s n i : 0 <= i < Z.of_nat n -> nthZ 0 (ziota s n) i = s + i.
Proof.
  revert s i; induction n as [|n IH]; intros s i H; [lia|].
  cbn [ziota]. destruct (Z.eq_dec i 0) as [->|Hi].
  - rewrite nthZ_cons_0. lia.
  - rewrite nthZ_cons_S by lia. rewrite IH by lia. lia.
Qed.

Lemma lenZ_ziota s n : lenZ (ziota s n) = Z.of_nat n.
Proof. unfold lenZ. now rewrite ziota_length. Qed.

Lemma nthZ_map_ziota {B} (d : B) (h : Z -> B) n i :
  0 <= i < Z.of_nat n -> nthZ d (map h (ziota 0 n)) i = h i.
Proof.
  intros H. rewrite (nthZ_map h 0 d) by (rewrite lenZ_ziota; lia).
  rewrite nthZ_ziota by lia. f_equal; lia.
Qed.

Section Stencil.
  Context {T U : Type}.
  Variable nanT : T.
  Variable nanU : U.
  Variable f : Win T -> U.

  Lemma stencil_nrows g : nrows (stencil nanT nanU f g) = nrows g.
  Proof.
    unfold stencil, nrows. rewrite lenZ_map, lenZ_ziota.
    pose proof (lenZ_nonneg g). lia.
  Qed.

  Lemma stencil_row_len g y : 0 <= y < nrows g ->
    lenZ (nthZ [] (stencil nanT nanU f g) y) = ncols g.
  Proof.
    intros H. unfold stencil. rewrite nthZ_map_ziota by (unfold nrows in *; lia).
    rewrite lenZ_map, lenZ_ziota. unfold ncols. pose proof (lenZ_nonneg (nthZ [] g 0)). lia.
  Qed.

  (* the whole content of the stencil: NaN outside the interior, kernel(window) inside *)
  Lemma stencil_get g y x : 0 <= y < nrows g -> 0 <= x < ncols g ->
    get nanU (stencil nanT nanU f g) y x =
    if interior (nrows g) (ncols g) y x then f (win_at nanT g y x) else nanU.
  Proof.
    intros Hy Hx. unfold get, stencil.
    rewrite nthZ_map_ziota by (unfold nrows in *; lia).
    rewrite nthZ_map_ziota by (unfold ncols in *; lia).
    reflexivity.
  Qed.

  Lemma stencil_border g y x : 0 <= y < nrows g -> 0 <= x < ncols g ->
    (y = 0 \/ y = nrows g - 1 \/ x = 0 \/ x = ncols g - 1) ->
    get nanU (stencil nanT nanU f g) y x = nanU.
  Proof.
    intros Hy Hx Hb. rewrite stencil_get by assumption.
    unfold interior. destruct (1 <=? y) eqn:E1; destruct (y <? nrows g - 1) eqn:E2;
      destruct (1 <=? x) eqn:E3; destruct (x <? ncols g - 1) eqn:E4; cbn; try reflexivity. lia.
  Qed.

  Lemma stencil_interior g y x : 1 <= y < nrows g - 1 -> 1 <= x < ncols g - 1 ->
    get nanU (stencil nanT nanU f g) y x = f (win_at nanT g y x).
  Proof.
    intros Hy Hx. rewrite stencil_get by lia.
    unfold interior. destruct (1 <=? y) eqn:E1; destruct (y <? nrows g - 1) eqn:E2;
      destruct (1 <=? x) eqn:E3; destruct (x <? ncols g - 1) eqn:E4; cbn; try reflexivity; lia.
  Qed.

  (* g' is g with (at most) the cell (py, px) changed *)
  Definition agree_except (g g' : list (list T)) (py px : Z) : Prop :=
    nrows g' = nrows g /\ ncols g' = ncols g /\
    forall y x, (y <> py \/ x <> px) -> get nanT g' y x = get nanT g y x.

  Lemma stencil_poke g g' py px y x :
    agree_except g g' py px -> 0 <= y < nrows g -> 0 <= x < ncols g ->
    (y < py - 1 \/ py + 1 < y \/ x < px - 1 \/ px + 1 < x) ->
    get nanU (stencil nanT nanU f g') y x = get nanU (stencil nanT nanU f g) y x.
  Proof.
    intros (Hr & Hc & Hg) Hy Hx Hfar.
    rewrite !stencil_get by (rewrite ?Hr, ?Hc; assumption).
    rewrite Hr, Hc. destruct (interior (nrows g) (ncols g) y x); [|reflexivity].
    f_equal. unfold win_at. rewrite !Hg by lia. reflexivity.
  Qed.
End Stencil.
