(* C08/ProofsTurn.v — the quarter turn (np.rot90) at window level with the aspect's
   compass conversion, and at raster level for every raster size. *)
Require Import Base.Prelude.
From Coq Require Import QArith Qfield Lqa.
Require Import C08.Arith C08.Model C08.Proofs C08.ProofsExact.
Close Scope Q_scope.
Open Scope Z_scope.

(* ------------------------------------------------------------------ *)
(* raster level, any cell type                                         *)
(* ------------------------------------------------------------------ *)
(* the window of a quarter-turned raster: (nw n ne / w c e / sw s se) -> (ne e se / n c s / nw w sw) *)
Definition wrotT {T} (W : Win T) : Win T :=
  mkWin (w_ne W) (w_e W) (w_se W) (w_n W) (w_c W) (w_s W) (w_nw W) (w_w W) (w_sw W).

Section Rot.
  Context {T U : Type}.
  Variable nanT : T.
  Variable nanU : U.

  (* g' is np.rot90(g): shape (cols, rows) and g'[i, j] = g[j, cols-1-i] *)
  Definition is_rot90 (g g' : list (list T)) : Prop :=
    nrows g' = ncols g /\ ncols g' = nrows g /\
    forall i j, 0 <= i < nrows g' -> 0 <= j < ncols g' ->
                get nanT g' i j = get nanT g j (ncols g - 1 - i).

  (* an executable rot90 *)
  Definition rot90 (g : list (list T)) : list (list T) :=
    map (fun i => map (fun j => get nanT g j (ncols g - 1 - i)) (ziota 0 (Z.to_nat (nrows g))))
        (ziota 0 (Z.to_nat (ncols g))).

  Lemma rot90_is_rot90 g : 0 < ncols g -> is_rot90 g (rot90 g).
  Proof.
    intros Hc. pose proof (lenZ_nonneg g) as Hr.
    assert (R : nrows (rot90 g) = ncols g).
    { unfold rot90, nrows at 1. rewrite lenZ_map, lenZ_ziota. lia. }
    assert (C : ncols (rot90 g) = nrows g).
    { unfold ncols at 1, rot90. rewrite nthZ_map_ziota by lia.
      rewrite lenZ_map, lenZ_ziota. unfold nrows in *. lia. }
    split; [exact R|]. split; [exact C|].
    intros i j Hi Hj. rewrite R in Hi. rewrite C in Hj.
    unfold get at 1, rot90. rewrite nthZ_map_ziota by lia.
    rewrite nthZ_map_ziota by (unfold nrows in *; lia). reflexivity.
  Qed.

  Lemma win_rot g g' i j : is_rot90 g g' ->
    1 <= i < nrows g' - 1 -> 1 <= j < ncols g' - 1 ->
    win_at nanT g' i j = wrotT (win_at nanT g j (ncols g - 1 - i)).
  Proof.
    intros (Hr & Hc & Hg) Hi Hj. unfold win_at, wrotT; cbn [w_nw w_n w_ne w_w w_c w_e w_sw w_s w_se].
    rewrite !Hg by lia. f_equal; f_equal; lia.
  Qed.

  (* interior cells map to the turned positions, and there the kernel sees the turned window *)
  Lemma stencil_rot (f : Win T -> U) g g' i j : is_rot90 g g' ->
    1 <= i < nrows g' - 1 -> 1 <= j < ncols g' - 1 ->
    let y := j in let x := ncols g - 1 - i in
    (1 <= y < nrows g - 1 /\ 1 <= x < ncols g - 1) /\
    get nanU (stencil nanT nanU f g') i j = f (wrotT (win_at nanT g y x)) /\
    get nanU (stencil nanT nanU f g) y x = f (win_at nanT g y x).
  Proof.
    intros H Hi Hj y x. pose proof H as (Hr & Hc & _).
    assert (Hy : 1 <= y < nrows g - 1) by (unfold y; lia).
    assert (Hx : 1 <= x < ncols g - 1) by (unfold x; lia).
    split; [split; assumption|]. split.
    - rewrite stencil_interior by assumption. f_equal. apply win_rot; assumption.
    - apply stencil_interior; assumption.
  Qed.
End Rot.

(* ------------------------------------------------------------------ *)
(* window level, exact instance                                        *)
(* ------------------------------------------------------------------ *)
Close Scope Z_scope.
Open Scope Q_scope.

Lemma wq_wrot W : wq (wrot W) = wrotT (wq W).
Proof. reflexivity. Qed.

Lemma Qlt_bool_iff x y : Qlt_bool x y = true <-> x < y.
Proof.
  unfold Qlt_bool. destruct (Qle_bool y x) eqn:E; cbn.
  - apply Qle_bool_iff in E. split; [discriminate|]. intros H. apply Qlt_not_le in H. contradiction.
  - split; [intros _|reflexivity]. apply Qnot_le_lt. intros C. apply Qle_bool_iff in C. congruence.
Qed.
Lemma Qlt_bool_niff x y : Qlt_bool x y = false <-> y <= x.
Proof.
  unfold Qlt_bool. destruct (Qle_bool y x) eqn:E; cbn.
  - apply Qle_bool_iff in E. tauto.
  - split; [discriminate|]. intros H. apply Qle_bool_iff in H. congruence.
Qed.

(* the code's conversion of the mathematical angle (degrees, counter-clockwise from east) to a compass bearing *)
Definition compassQ (a : Q) : Q :=
  if Qlt_bool a 0 then 90 - a else if Qlt_bool 90 a then 360 - a + 90 else 90 - a.

Lemma compassQ_low a : a <= 90 -> compassQ a == 90 - a.
Proof.
  intros H. unfold compassQ. destruct (Qlt_bool a 0); [reflexivity|].
  destruct (Qlt_bool 90 a) eqn:E; [|reflexivity]. apply Qlt_bool_iff in E. lra.
Qed.
Lemma compassQ_high a : 90 < a -> compassQ a == 450 - a.
Proof.
  intros H. unfold compassQ. destruct (Qlt_bool a 0) eqn:E0; [apply Qlt_bool_iff in E0; lra|].
  destruct (Qlt_bool 90 a) eqn:E; [ring|]. apply Qlt_bool_niff in E. lra.
Qed.

Section AspectTurn.
  Variable qsqrt : Q -> Q.
  Notation E := (ExactArith qsqrt).
  Variable qatan2 : Q -> Q -> Q.
  Variable radian : Q.
  Notation A2 := (fun y x : T64 E => olift2 qatan2 y x).

  Lemma compass_closed a : compass E (Some a) = Some (compassQ a).
  Proof.
    unfold compass, compassQ.
    change (dltb E (Some a) (dofZ E 0)) with (Qlt_bool a 0).
    change (dltb E (dofZ E 90) (Some a)) with (Qlt_bool 90 a).
    destruct (Qlt_bool a 0); [reflexivity|]. destruct (Qlt_bool 90 a); reflexivity.
  Qed.

  Lemma aspect_closed W :
    aspect_cell E A2 (Some radian) (wq W) =
    if Qeq_bool (as_dx W) 0 && Qeq_bool (as_dy W) 0 then Some (-1)
    else Some (compassQ (qatan2 (as_dy W) (- as_dx W) * radian)).
  Proof.
    unfold aspect_cell. rewrite aspect_grad_closed. cbv beta iota zeta.
    change (deqb E (Some (as_dx W)) (dofZ E 0)) with (Qeq_bool (as_dx W) 0).
    change (deqb E (Some (as_dy W)) (dofZ E 0)) with (Qeq_bool (as_dy W) 0).
    destruct (Qeq_bool (as_dx W) 0 && Qeq_bool (as_dy W) 0); [reflexivity|].
    change (dmul E (olift2 qatan2 (Some (as_dy W)) (dopp E (Some (as_dx W)))) (Some radian))
      with (Some (qatan2 (as_dy W) (- as_dx W) * radian)).
    change (narrow E (compass E (Some (qatan2 (as_dy W) (- as_dx W) * radian))))
      with (compass E (Some (qatan2 (as_dy W) (- as_dx W) * radian))).
    apply compass_closed.
  Qed.

  (* premises about the external atan2 (times RADIAN, i.e. in degrees) *)
  Hypothesis atan2_compat : forall y y' x x', y == y' -> x == x' -> qatan2 y x == qatan2 y' x'.
  Hypothesis atan2_range : forall y x, -180 <= qatan2 y x * radian <= 180.
  (* turning the vector (x, y) a quarter turn counter-clockwise, to (-y, x), adds 90 degrees modulo 360 *)
  Hypothesis atan2_quarter : forall y x, ~ (x == 0 /\ y == 0) ->
    qatan2 x (- y) * radian == qatan2 y x * radian + 90 \/
    qatan2 x (- y) * radian == qatan2 y x * radian - 270.

  Lemma aspect_quarter_turn W :
    exists q q',
      aspect_cell E A2 (Some radian) (wq W) = Some q /\
      aspect_cell E A2 (Some radian) (wq (wrot W)) = Some q' /\
      ((q == -1 /\ q' == -1) \/
       (0 <= q <= 360 /\ 0 <= q' <= 360 /\ (q' == q - 90 \/ q' == q + 270))).
  Proof.
    rewrite !aspect_closed.
    destruct (quarter_turn 1 W) as (Hx & Hy & _).
    destruct (Qeq_bool (as_dx W) 0) eqn:Ex; destruct (Qeq_bool (as_dy W) 0) eqn:Ey; cbn [andb].
    1: { apply Qeq_bool_iff in Ex. apply Qeq_bool_iff in Ey.
         assert (Ex' : Qeq_bool (as_dx (wrot W)) 0 = true) by (apply Qeq_bool_iff; rewrite Hx; exact Ey).
         assert (Ey' : Qeq_bool (as_dy (wrot W)) 0 = true) by (apply Qeq_bool_iff; rewrite Hy, Ex; reflexivity).
         rewrite Ex', Ey'. cbn [andb]. do 2 eexists. split; [reflexivity|]. split; [reflexivity|].
         left; split; reflexivity. }
    all: assert (NZ : ~ (- as_dx W == 0 /\ as_dy W == 0)) by
        (intros [N1 N2];
         first [ apply Qeq_bool_iff in N2; congruence
               | assert (N1' : as_dx W == 0) by lra; apply Qeq_bool_iff in N1'; congruence ]).
    all: assert (F : Qeq_bool (as_dx (wrot W)) 0 && Qeq_bool (as_dy (wrot W)) 0 = false).
    all: try (apply andb_false_iff;
              destruct (Qeq_bool (as_dx (wrot W)) 0) eqn:Ex'; [|left; reflexivity];
              destruct (Qeq_bool (as_dy (wrot W)) 0) eqn:Ey'; [|right; reflexivity];
              exfalso; apply Qeq_bool_iff in Ex'; apply Qeq_bool_iff in Ey';
              apply NZ; split; [rewrite <- Hy; exact Ey'|rewrite <- Hx; exact Ex']).
    all: rewrite F; do 2 eexists; (split; [reflexivity|]); (split; [reflexivity|]); right.
    all: set (th := qatan2 (as_dy W) (- as_dx W) * radian).
    all: set (th' := qatan2 (as_dy (wrot W)) (- as_dx (wrot W)) * radian).
    all: assert (C : th' == qatan2 (- as_dx W) (- as_dy W) * radian) by
        (unfold th'; rewrite (atan2_compat (as_dy (wrot W)) (- as_dx W) (- as_dx (wrot W)) (- as_dy W));
         [reflexivity|exact Hy|rewrite Hx; reflexivity]).
    all: pose proof (atan2_range (as_dy W) (- as_dx W)) as R; fold th in R.
    all: pose proof (atan2_range (as_dy (wrot W)) (- as_dx (wrot W))) as R'; fold th' in R'.
    all: pose proof (atan2_quarter (as_dy W) (- as_dx W) NZ) as Q; fold th in Q; rewrite <- C in Q.
    all: destruct (Qlt_le_dec 90 th) as [Hh|Hl];
         [rewrite (compassQ_high th Hh)|rewrite (compassQ_low th Hl)];
         (destruct (Qlt_le_dec 90 th') as [Hh'|Hl'];
          [rewrite (compassQ_high th' Hh')|rewrite (compassQ_low th' Hl')]);
         destruct Q as [Q|Q]; (split; [lra|]); (split; [lra|]); lra.
  Qed.
End AspectTurn.

(* ---- a concrete (coarse) atan2 in degrees that satisfies the three premises: the quadrant's base angle ---- *)
Definition quad_angle (y x : Q) : Q :=
  if Qlt_le_dec 0 x then (if Qlt_le_dec y 0 then -90 else 0)
  else if Qlt_le_dec 0 y then 90
  else if Qlt_le_dec x 0 then 180
  else if Qlt_le_dec y 0 then -90 else 0.

Lemma quad_angle_premises :
  (forall y y' x x', y == y' -> x == x' -> quad_angle y x == quad_angle y' x') /\
  (forall y x, -180 <= quad_angle y x * 1 <= 180) /\
  (forall y x, ~ (x == 0 /\ y == 0) ->
     quad_angle x (- y) * 1 == quad_angle y x * 1 + 90 \/ quad_angle x (- y) * 1 == quad_angle y x * 1 - 270).
Proof.
  unfold quad_angle. repeat split.
  - intros y y' x x' Hy Hx.
    repeat match goal with |- context [Qlt_le_dec ?a ?b] => destruct (Qlt_le_dec a b) end; lra.
  - repeat match goal with |- context [Qlt_le_dec ?a ?b] => destruct (Qlt_le_dec a b) end; lra.
  - repeat match goal with |- context [Qlt_le_dec ?a ?b] => destruct (Qlt_le_dec a b) end; lra.
  - intros y x H.
    repeat match goal with |- context [Qlt_le_dec ?a ?b] => destruct (Qlt_le_dec a b) end;
      try (left; lra); try (right; lra); exfalso; apply H; split; lra.
Qed.

(* ------------------------------------------------------------------ *)
(* slope and curvature turn with the window; whole-raster statement    *)
(* ------------------------------------------------------------------ *)
Section RasterTurn.
  Variable qsqrt : Q -> Q.
  Notation E := (ExactArith qsqrt).
  Variable qatan : Q -> Q.
  Variable qatan2 : Q -> Q -> Q.
  Variables k57 radian : Q.
  Notation A2 := (fun y x : T64 E => olift2 qatan2 y x).
  Hypothesis sqrt_compat : forall x x', x == x' -> qsqrt x == qsqrt x'.
  Hypothesis atan_compat : forall x x', x == x' -> qatan x == qatan x'.
  Hypothesis atan2_compat : forall y y' x x', y == y' -> x == x' -> qatan2 y x == qatan2 y' x'.
  Hypothesis atan2_range : forall y x, -180 <= qatan2 y x * radian <= 180.
  Hypothesis atan2_quarter : forall y x, ~ (x == 0 /\ y == 0) ->
    qatan2 x (- y) * radian == qatan2 y x * radian + 90 \/
    qatan2 x (- y) * radian == qatan2 y x * radian - 270.

  Definition p2Q (c : Q) (W : Win Q) : Q := sl_dx c W * sl_dx c W + sl_dy c W * sl_dy c W.

  Lemma slope_closed c W : ~ c == 0 ->
    slope_cell E (olift1 qatan) (Some k57) (Some c) (Some c) (wq W) = Some (qatan (qsqrt (p2Q c W)) * k57).
  Proof.
    intros Hc. unfold slope_cell, slope_p2. rewrite (slope_grad_closed qsqrt c c W Hc Hc).
    cbv beta iota zeta.
    change (dadd E (dmul E (Some (sl_dx c W)) (Some (sl_dx c W))) (dmul E (Some (sl_dy c W)) (Some (sl_dy c W))))
      with (Some (p2Q c W)).
    unfold dsqrt, ExactArith, osqrt.
    assert (P : 0 <= p2Q c W) by (unfold p2Q; pose proof (sq_nn (sl_dx c W)); pose proof (sq_nn (sl_dy c W)); lra).
    apply Qle_bool_iff in P. rewrite P. reflexivity.
  Qed.

  (* slope (square cells) and curvature are unchanged by turning the window *)
  Lemma slope_turn c W : ~ c == 0 ->
    exists q q', slope_cell E (olift1 qatan) (Some k57) (Some c) (Some c) (wq W) = Some q /\
                 slope_cell E (olift1 qatan) (Some k57) (Some c) (Some c) (wq (wrot W)) = Some q' /\ q' == q.
  Proof.
    intros Hc. rewrite !(slope_closed c _ Hc). do 2 eexists. split; [reflexivity|]. split; [reflexivity|].
    destruct (quarter_turn c W) as (_ & _ & _ & _ & Hp & _).
    rewrite (atan_compat _ _ (sqrt_compat _ _ Hp)). reflexivity.
  Qed.

  Lemma curvature_turn cs W : ~ cs == 0 ->
    exists q q', curvature_cell E (Some cs) (wq W) = Some q /\
                 curvature_cell E (Some cs) (wq (wrot W)) = Some q' /\ q' == q.
  Proof.
    intros Hc. rewrite !(curvature_closed qsqrt cs _ Hc). do 2 eexists. split; [reflexivity|]. split; [reflexivity|].
    unfold curv_val. destruct (quarter_turn 1 W) as (_ & _ & _ & _ & _ & Hv). rewrite Hv. reflexivity.
  Qed.

  (* np.rot90 of a whole raster of any size, square cells c x c: at every interior cell (i, j) of the turned raster,
     which is the cell (j, cols-1-i) of the original, slope and curvature are the original's values and the aspect
     is the original's minus 90 degrees modulo 360 (flat stays -1) — for every cell whose 3x3 window is finite *)
  Lemma rot90_raster c (g g' : list (list oq)) i j W :
    ~ c == 0 -> is_rot90 None g g' ->
    (1 <= i < nrows g' - 1)%Z -> (1 <= j < ncols g' - 1)%Z ->
    let y := j in let x := (ncols g - 1 - i)%Z in
    win_at None g y x = wq W ->
    (1 <= y < nrows g - 1 /\ 1 <= x < ncols g - 1)%Z /\
    (exists q q', get None (slope_raster E (olift1 qatan) (Some k57) (Some c) (Some c) g) y x = Some q /\
                  get None (slope_raster E (olift1 qatan) (Some k57) (Some c) (Some c) g') i j = Some q' /\ q' == q) /\
    (exists q q', get None (curvature_raster E (Some c) (Some c) g) y x = Some q /\
                  get None (curvature_raster E (Some c) (Some c) g') i j = Some q' /\ q' == q) /\
    (exists q q', get None (aspect_raster E A2 (Some radian) g) y x = Some q /\
                  get None (aspect_raster E A2 (Some radian) g') i j = Some q' /\
                  ((q == -1 /\ q' == -1) \/
                   (0 <= q <= 360 /\ 0 <= q' <= 360 /\ (q' == q - 90 \/ q' == q + 270)))).
  Proof.
    intros Hc Hrot Hi Hj y x HW. subst y x.
    unfold slope_raster, aspect_raster, curvature_raster.
    change (snan E) with (@None Q).
    destruct (stencil_rot None None (slope_cell E (olift1 qatan) (Some k57) (Some c) (Some c)) g g' i j Hrot Hi Hj)
      as (Hin & S' & S).
    destruct (stencil_rot None None (curvature_cell E (curv_cellsize E (Some c) (Some c))) g g' i j Hrot Hi Hj)
      as (_ & C' & C).
    destruct (stencil_rot None None (aspect_cell E A2 (Some radian)) g g' i j Hrot Hi Hj) as (_ & A' & A).
    cbv zeta in Hin, S', S, C', C, A', A.
    split; [exact Hin|].
    split; [|split].
    - destruct (slope_turn c W Hc) as (q & q' & H1 & H2 & H3). exists q, q'.
      split; [etransitivity; [exact S|etransitivity; [exact (f_equal _ HW)|exact H1]]|].
      split; [etransitivity; [exact S'|etransitivity; [exact (f_equal (fun w => _ (wrotT w)) HW)|exact H2]]|exact H3].
    - assert (CS : curv_cellsize E (Some c) (Some c) = Some ((c + c) / 2)).
      { unfold curv_cellsize. cbv beta iota zeta delta [ExactArith dadd ddiv dofZ olift2].
        rewrite odiv_some; [reflexivity|discriminate]. }
      assert (NZ : ~ (c + c) / 2 == 0).
      { intros H. apply Hc. assert (c + c == 0) by (rewrite <- (Qmult_0_l 2), <- H; field). lra. }
      destruct (curvature_turn ((c + c) / 2) W NZ) as (q & q' & H1 & H2 & H3). exists q, q'.
      split; [etransitivity; [exact C|etransitivity; [exact (f_equal _ HW)|rewrite CS; exact H1]]|].
      split; [etransitivity; [exact C'|etransitivity; [exact (f_equal (fun w => _ (wrotT w)) HW)|rewrite CS; exact H2]]|exact H3].
    - destruct (aspect_quarter_turn qsqrt qatan2 radian atan2_compat atan2_range atan2_quarter W)
        as (q & q' & H1 & H2 & H3). exists q, q'.
      split; [etransitivity; [exact A|etransitivity; [exact (f_equal _ HW)|exact H1]]|].
      split; [etransitivity; [exact A'|etransitivity; [exact (f_equal (fun w => _ (wrotT w)) HW)|exact H2]]|exact H3].
  Qed.
End RasterTurn.
