Require Import Extraction ExtrOcamlBasic ExtrOCamlFloats ExtrOCamlInt63.
Require Import Base.Prelude C08.Arith C08.Model.
Extraction Language OCaml.
Extraction "model.ml" f_slope f_aspect f_curvature f_hillshade.
