(* C08/Props.v — the property theorems claimed for C08, nothing else.
   The first four hold for EVERY arithmetic instance and every choice of the external
   (libm / NumPy) functions, in particular for the float32/float64 instance that is executed;
   the rest are about the exact instance E = ExactArith qsqrt (option Q, None = NaN). *)
Require Import Base.Prelude.
From Coq Require Import QArith Lqa PrimFloat SpecFloat.
Require Import C08.Arith C08.Model C08.Proofs C08.ProofsExact C08.ProofsTurn.
Close Scope Q_scope.
Open Scope Z_scope.

(* shape: the outputs have the input's shape *)
Theorem C08_shape : forall (A : Arith) atanD atan2D atanS sinS cosS atan2S sinD cosD k57 radian cx cy pi az alt g,
  nrows (slope_raster A atanD k57 cx cy g) = nrows g /\
  nrows (aspect_raster A atan2D radian g) = nrows g /\
  nrows (curvature_raster A cx cy g) = nrows g /\
  (forall out, hillshade_raster A atanS sinS cosS atan2S sinD cosD pi az alt g = Some out -> nrows out = nrows g) /\
  (forall y, 0 <= y < nrows g ->
     lenZ (nthZ [] (slope_raster A atanD k57 cx cy g) y) = ncols g /\
     lenZ (nthZ [] (aspect_raster A atan2D radian g) y) = ncols g /\
     lenZ (nthZ [] (curvature_raster A cx cy g) y) = ncols g /\
     (forall out, hillshade_raster A atanS sinS cosS atan2S sinD cosD pi az alt g = Some out ->
                  lenZ (nthZ [] out y) = ncols g)).
Proof.
  intros. unfold slope_raster, aspect_raster, curvature_raster, hillshade_raster.
  repeat split; try apply stencil_nrows; try (apply stencil_row_len; assumption);
    intros out Ho; destruct ((2 <=? nrows g) && (2 <=? ncols g)); try discriminate;
    inversion Ho; subst; [apply stencil_nrows|apply stencil_row_len; assumption].
Qed.
Print Assumptions C08_shape.

(* locality: every output cell is NaN outside the interior (rows 1..rows-2, cols 1..cols-2) and at an
   interior cell it is the kernel applied to that cell's 3x3 window and the cell size — nothing else *)
Theorem C08_locality : forall (A : Arith) atanD atan2D atanS sinS cosS atan2S sinD cosD k57 radian cx cy pi az alt g y x,
  0 <= y < nrows g -> 0 <= x < ncols g ->
  let inside := interior (nrows g) (ncols g) y x in
  let W := win_at (snan A) g y x in
  (inside = true <-> (1 <= y < nrows g - 1 /\ 1 <= x < ncols g - 1)) /\
  get (snan A) (slope_raster A atanD k57 cx cy g) y x = (if inside then slope_cell A atanD k57 cx cy W else snan A) /\
  get (snan A) (aspect_raster A atan2D radian g) y x = (if inside then aspect_cell A atan2D radian W else snan A) /\
  get (snan A) (curvature_raster A cx cy g) y x =
    (if inside then curvature_cell A (curv_cellsize A cx cy) W else snan A) /\
  (forall out, hillshade_raster A atanS sinS cosS atan2S sinD cosD pi az alt g = Some out ->
     get (dnan A) out y x = (if inside then hillshade_cell A atanS sinS cosS atan2S sinD cosD pi az alt W else dnan A)).
Proof.
  intros A atanD atan2D atanS sinS cosS atan2S sinD cosD k57 radian cx cy pi az alt g y x Hy Hx inside W.
  split; [unfold inside, interior; lia|].
  unfold slope_raster, aspect_raster, curvature_raster, hillshade_raster.
  repeat split; try (apply stencil_get; assumption).
  intros out Ho. destruct ((2 <=? nrows g) && (2 <=? ncols g)); [|discriminate].
  inversion Ho; subst. apply stencil_get; assumption.
Qed.
Print Assumptions C08_locality.

(* border cells are NaN *)
Theorem C08_border_nan : forall (A : Arith) atanD atan2D atanS sinS cosS atan2S sinD cosD k57 radian cx cy pi az alt g y x,
  0 <= y < nrows g -> 0 <= x < ncols g ->
  (y = 0 \/ y = nrows g - 1 \/ x = 0 \/ x = ncols g - 1) ->
  get (snan A) (slope_raster A atanD k57 cx cy g) y x = snan A /\
  get (snan A) (aspect_raster A atan2D radian g) y x = snan A /\
  get (snan A) (curvature_raster A cx cy g) y x = snan A /\
  (forall out, hillshade_raster A atanS sinS cosS atan2S sinD cosD pi az alt g = Some out ->
     get (dnan A) out y x = dnan A).
Proof.
  intros. unfold slope_raster, aspect_raster, curvature_raster, hillshade_raster.
  repeat split; try (apply stencil_border; assumption).
  intros out Ho. destruct ((2 <=? nrows g) && (2 <=? ncols g)); [|discriminate].
  inversion Ho; subst. apply stencil_border; assumption.
Qed.
Print Assumptions C08_border_nan.

(* containment: changing ONE input cell (py, px) — to NaN or to anything — changes the output only inside
   that cell's 3x3 neighbourhood *)
Theorem C08_poke_contained : forall (A : Arith) atanD atan2D atanS sinS cosS atan2S sinD cosD k57 radian cx cy pi az alt
    g g' py px y x,
  agree_except (snan A) g g' py px -> 0 <= y < nrows g -> 0 <= x < ncols g ->
  (y < py - 1 \/ py + 1 < y \/ x < px - 1 \/ px + 1 < x) ->
  get (snan A) (slope_raster A atanD k57 cx cy g') y x = get (snan A) (slope_raster A atanD k57 cx cy g) y x /\
  get (snan A) (aspect_raster A atan2D radian g') y x = get (snan A) (aspect_raster A atan2D radian g) y x /\
  get (snan A) (curvature_raster A cx cy g') y x = get (snan A) (curvature_raster A cx cy g) y x /\
  (forall out out',
     hillshade_raster A atanS sinS cosS atan2S sinD cosD pi az alt g = Some out ->
     hillshade_raster A atanS sinS cosS atan2S sinD cosD pi az alt g' = Some out' ->
     get (dnan A) out' y x = get (dnan A) out y x).
Proof.
  intros A atanD atan2D atanS sinS cosS atan2S sinD cosD k57 radian cx cy pi az alt g g' py px y x Hag Hy Hx Hfar.
  unfold slope_raster, aspect_raster, curvature_raster, hillshade_raster.
  repeat split; try (apply stencil_poke with (py := py) (px := px); assumption).
  intros out out' Ho Ho'.
  destruct ((2 <=? nrows g) && (2 <=? ncols g)); [|discriminate].
  destruct ((2 <=? nrows g') && (2 <=? ncols g')); [|discriminate].
  inversion Ho; inversion Ho'; subst. apply stencil_poke with (py := py) (px := px); assumption.
Qed.
Print Assumptions C08_poke_contained.

Open Scope Q_scope.

(* the kernels compute the documented finite-difference formulas (exact instance, finite window) *)
Theorem C08_formulas : forall (qsqrt : Q -> Q) cx cy cs (W : Win Q),
  let E := ExactArith qsqrt in
  (~ cx == 0 -> ~ cy == 0 ->
   slope_grad E (Some cx) (Some cy) (wq W) = (Some (sl_dx cx W), Some (sl_dy cy W))) /\
  aspect_grad E (wq W) = (Some (as_dx W), Some (as_dy W)) /\
  (~ cs == 0 -> curvature_cell E (Some cs) (wq W) = Some (curv_val cs W)) /\
  hs_grad E (wq W) = (Some (hs_gx W), Some (hs_gy W)).
Proof.
  intros qsqrt cx cy cs W E.
  exact (conj (slope_grad_closed qsqrt cx cy W) (conj (aspect_grad_closed qsqrt W)
        (conj (curvature_closed qsqrt cs W) (hs_grad_closed qsqrt W)))).
Qed.
Print Assumptions C08_formulas.

(* adding a constant to every elevation changes no gradient and no second difference *)
Theorem C08_offset_invariant : forall k cx cy (W : Win Q),
  sl_dx cx (wadd k W) == sl_dx cx W /\ sl_dy cy (wadd k W) == sl_dy cy W /\
  as_dx (wadd k W) == as_dx W /\ as_dy (wadd k W) == as_dy W /\
  cv (wadd k W) == cv W /\ hs_gx (wadd k W) == hs_gx W /\ hs_gy (wadd k W) == hs_gy W.
Proof. exact offset_invariant. Qed.
Print Assumptions C08_offset_invariant.

(* flat window: zero gradient and curvature; the kernels give aspect -1, curvature 0 and (with sqrt 0 = 0,
   atan 0 = 0) slope 0 *)
Theorem C08_flat_window : forall (qsqrt qatan : Q -> Q) (qatan2 : Q -> Q -> Q) v cx cy cs k57 radian,
  (forall x, x == 0 -> qsqrt x == 0) -> (forall x, x == 0 -> qatan x == 0) ->
  ~ cx == 0 -> ~ cy == 0 -> ~ cs == 0 ->
  let E := ExactArith qsqrt in
  (sl_dx cx (wflat v) == 0 /\ sl_dy cy (wflat v) == 0 /\ as_dx (wflat v) == 0 /\ as_dy (wflat v) == 0 /\
   cv (wflat v) == 0 /\ hs_gx (wflat v) == 0 /\ hs_gy (wflat v) == 0) /\
  aspect_cell E (fun y x => olift2 qatan2 y x) radian (wq (wflat v)) = Some (-1) /\
  (exists q, curvature_cell E (Some cs) (wq (wflat v)) = Some q /\ q == 0) /\
  (exists q, slope_cell E (olift1 qatan) (Some k57) (Some cx) (Some cy) (wq (wflat v)) = Some q /\ q == 0).
Proof.
  intros qsqrt qatan qatan2 v cx cy cs k57 radian Hs Ha Hx Hy Hc E.
  split; [apply flat_zero|]. split; [apply aspect_flat|]. split; [apply curvature_flat; exact Hc|].
  apply slope_flat; assumption.
Qed.
Print Assumptions C08_flat_window.

(* quarter turn (np.rot90) with square cells: aspect's gradient (dz_dx, dz_dy) goes to (dz_dy, -dz_dx),
   slope's to (-dz_dy, dz_dx) (its rows are read bottom-up), so the slope magnitude is unchanged; the
   curvature stencil is unchanged *)
Theorem C08_quarter_turn : forall c (W : Win Q),
  as_dx (wrot W) == as_dy W /\ as_dy (wrot W) == - as_dx W /\
  sl_dx c (wrot W) == - sl_dy c W /\ sl_dy c (wrot W) == sl_dx c W /\
  sl_dx c (wrot W) * sl_dx c (wrot W) + sl_dy c (wrot W) * sl_dy c (wrot W)
    == sl_dx c W * sl_dx c W + sl_dy c W * sl_dy c W /\
  cv (wrot W) == cv W.
Proof. exact quarter_turn. Qed.
Print Assumptions C08_quarter_turn.

(* ranges under explicit premises about the external functions *)
Theorem C08_slope_range : forall (qsqrt qatan : Q -> Q) k57,
  (forall x, 0 <= x -> 0 <= qsqrt x) ->
  (forall x, 0 <= x -> 0 <= qatan x /\ qatan x * k57 <= 90) -> 0 <= k57 ->
  forall cx cy (W : Win oq),
  slope_cell (ExactArith qsqrt) (olift1 qatan) (Some k57) cx cy W = None \/
  exists q, slope_cell (ExactArith qsqrt) (olift1 qatan) (Some k57) cx cy W = Some q /\ 0 <= q <= 90.
Proof. intros qsqrt qatan k57 H1 H2 H3 cx cy W. apply slope_range; assumption. Qed.
Print Assumptions C08_slope_range.

Theorem C08_aspect_range : forall (qsqrt : Q -> Q) (qatan2 : Q -> Q -> Q) radian,
  (forall y x, -180 <= qatan2 y x * radian <= 180) ->
  forall (W : Win oq),
  aspect_cell (ExactArith qsqrt) (fun y x => olift2 qatan2 y x) (Some radian) W = None \/
  exists q, aspect_cell (ExactArith qsqrt) (fun y x => olift2 qatan2 y x) (Some radian) W = Some q /\
            (q == -1 \/ 0 <= q <= 360).
Proof. intros qsqrt qatan2 radian H W. apply aspect_range; assumption. Qed.
Print Assumptions C08_aspect_range.

Theorem C08_hillshade_range : forall (qsqrt qatanS qsinS qcosS qsinD qcosD : Q -> Q) (qatan2S : Q -> Q -> Q),
  (forall x, qsinS x * qsinS x + qcosS x * qcosS x == 1) ->
  (forall x, qsinD x * qsinD x + qcosD x * qcosD x == 1) ->
  (forall x, -1 <= qcosS x <= 1) ->
  forall pi az alt (W : Win oq),
  let out := hillshade_cell (ExactArith qsqrt) (olift1 qatanS) (olift1 qsinS) (olift1 qcosS)
               (fun y x => olift2 qatan2S y x) (olift1 qsinD) (olift1 qcosD) pi az alt W in
  out = None \/ exists q, out = Some q /\ 0 <= q <= 1.
Proof. intros qsqrt qatanS qsinS qcosS qsinD qcosD qatan2S H1 H2 H3 pi az alt W. apply hillshade_range; assumption. Qed.
Print Assumptions C08_hillshade_range.

(* quarter turn of the ASPECT through the code's compass conversion (exact instance). atan2 is abstract; premises:
   it respects ==, atan2*RADIAN lies in [-180,180], and turning the vector (x, y) to (-y, x) adds 90 degrees mod 360.
   Then the aspect of the turned window (np.rot90, counter-clockwise) is the aspect minus 90 modulo 360:
   q' = q - 90 (q >= 90) or q + 270; a flat window keeps -1 *)
Theorem C08_aspect_quarter_turn : forall (qsqrt : Q -> Q) (qatan2 : Q -> Q -> Q) radian,
  (forall y y' x x', y == y' -> x == x' -> qatan2 y x == qatan2 y' x') ->
  (forall y x, -180 <= qatan2 y x * radian <= 180) ->
  (forall y x, ~ (x == 0 /\ y == 0) ->
     qatan2 x (- y) * radian == qatan2 y x * radian + 90 \/ qatan2 x (- y) * radian == qatan2 y x * radian - 270) ->
  forall (W : Win Q),
  exists q q',
    aspect_cell (ExactArith qsqrt) (fun y x => olift2 qatan2 y x) (Some radian) (wq W) = Some q /\
    aspect_cell (ExactArith qsqrt) (fun y x => olift2 qatan2 y x) (Some radian) (wq (wrot W)) = Some q' /\
    ((q == -1 /\ q' == -1) \/
     (0 <= q <= 360 /\ 0 <= q' <= 360 /\ (q' == q - 90 \/ q' == q + 270))).
Proof. intros qsqrt qatan2 radian H1 H2 H3 W. apply aspect_quarter_turn; assumption. Qed.
Print Assumptions C08_aspect_quarter_turn.

(* np.rot90 of a whole raster, every size, every arithmetic instance and kernel: an interior cell (i, j) of the turned
   raster is the interior cell (j, cols-1-i) of the original and the kernel sees exactly the turned 3x3 window there *)
Theorem C08_rot90_positions : forall (A : Arith) atanD atan2D k57 radian cx cy (g g' : list (list (T32 A))) i j,
  is_rot90 (snan A) g g' -> (1 <= i < nrows g' - 1)%Z -> (1 <= j < ncols g' - 1)%Z ->
  let y := j in let x := (ncols g - 1 - i)%Z in
  let W := win_at (snan A) g y x in
  (1 <= y < nrows g - 1 /\ 1 <= x < ncols g - 1)%Z /\
  get (snan A) (slope_raster A atanD k57 cx cy g') i j = slope_cell A atanD k57 cx cy (wrotT W) /\
  get (snan A) (slope_raster A atanD k57 cx cy g) y x = slope_cell A atanD k57 cx cy W /\
  get (snan A) (aspect_raster A atan2D radian g') i j = aspect_cell A atan2D radian (wrotT W) /\
  get (snan A) (aspect_raster A atan2D radian g) y x = aspect_cell A atan2D radian W /\
  get (snan A) (curvature_raster A cx cy g') i j = curvature_cell A (curv_cellsize A cx cy) (wrotT W) /\
  get (snan A) (curvature_raster A cx cy g) y x = curvature_cell A (curv_cellsize A cx cy) W /\
  (forall h : list (list (T32 A)), (0 < ncols h)%Z -> is_rot90 (snan A) h (rot90 (snan A) h)).
Proof.
  intros A atanD atan2D k57 radian cx cy g g' i j Hrot Hi Hj y x W.
  destruct (stencil_rot (snan A) (snan A) (slope_cell A atanD k57 cx cy) g g' i j Hrot Hi Hj) as (Hin & S' & S).
  destruct (stencil_rot (snan A) (snan A) (aspect_cell A atan2D radian) g g' i j Hrot Hi Hj) as (_ & A' & A0).
  destruct (stencil_rot (snan A) (snan A) (curvature_cell A (curv_cellsize A cx cy)) g g' i j Hrot Hi Hj) as (_ & C' & C0).
  split; [exact Hin|]. split; [exact S'|]. split; [exact S|]. split; [exact A'|]. split; [exact A0|].
  split; [exact C'|]. split; [exact C0|]. intros h Hh. apply rot90_is_rot90; exact Hh.
Qed.
Print Assumptions C08_rot90_positions.

(* the property's sentence for a whole raster (exact instance, square cells c x c, any size): at every interior cell of
   np.rot90(g) whose window is finite, slope and curvature are the original cell's values (they "turn with the raster")
   and the aspect is the original's minus 90 degrees modulo 360 (flat stays -1) *)
Theorem C08_rot90_raster : forall (qsqrt qatan : Q -> Q) (qatan2 : Q -> Q -> Q) k57 radian,
  (forall x x', x == x' -> qsqrt x == qsqrt x') -> (forall x x', x == x' -> qatan x == qatan x') ->
  (forall y y' x x', y == y' -> x == x' -> qatan2 y x == qatan2 y' x') ->
  (forall y x, -180 <= qatan2 y x * radian <= 180) ->
  (forall y x, ~ (x == 0 /\ y == 0) ->
     qatan2 x (- y) * radian == qatan2 y x * radian + 90 \/ qatan2 x (- y) * radian == qatan2 y x * radian - 270) ->
  forall c (g g' : list (list oq)) i j W,
  let E := ExactArith qsqrt in
  ~ c == 0 -> is_rot90 None g g' -> (1 <= i < nrows g' - 1)%Z -> (1 <= j < ncols g' - 1)%Z ->
  let y := j in let x := (ncols g - 1 - i)%Z in
  win_at None g y x = wq W ->
  (1 <= y < nrows g - 1 /\ 1 <= x < ncols g - 1)%Z /\
  (exists q q', get None (slope_raster E (olift1 qatan) (Some k57) (Some c) (Some c) g) y x = Some q /\
                get None (slope_raster E (olift1 qatan) (Some k57) (Some c) (Some c) g') i j = Some q' /\ q' == q) /\
  (exists q q', get None (curvature_raster E (Some c) (Some c) g) y x = Some q /\
                get None (curvature_raster E (Some c) (Some c) g') i j = Some q' /\ q' == q) /\
  (exists q q', get None (aspect_raster E (fun y x => olift2 qatan2 y x) (Some radian) g) y x = Some q /\
                get None (aspect_raster E (fun y x => olift2 qatan2 y x) (Some radian) g') i j = Some q' /\
                ((q == -1 /\ q' == -1) \/
                 (0 <= q <= 360 /\ 0 <= q' <= 360 /\ (q' == q - 90 \/ q' == q + 270)))).
Proof.
  intros qsqrt qatan qatan2 k57 radian H1 H2 H3 H4 H5 c g g' i j W E Hc Hrot Hi Hj y x HW.
  apply (rot90_raster qsqrt qatan qatan2 k57 radian H1 H2 H3 H4 H5 c g g' i j W Hc Hrot Hi Hj HW).
Qed.
Print Assumptions C08_rot90_raster.

(* ---------------- non-vacuity and concrete evaluations ---------------- *)
Definition z0 (x : Q) : Q := 0.
Definition one (x : Q) : Q := 1.

(* the premises of the range / flat theorems are satisfiable (trivial functions) *)
Example C08_premises_satisfiable :
  (forall x, x == 0 -> z0 x == 0) /\ (forall x, 0 <= x -> 0 <= z0 x) /\
  (forall x, 0 <= x -> 0 <= z0 x /\ z0 x * (5729578 # 100000) <= 90) /\
  (forall y x : Q, -180 <= (fun _ _ => 0) y x * (573 # 10) <= 180) /\
  (forall x, z0 x * z0 x + one x * one x == 1) /\ (forall x, -1 <= one x <= 1).
Proof. unfold z0, one. repeat split; intros; lra. Qed.

(* exact instance on a concrete window: a ramp rising to the east by 1 per cell, cell size 2 x 1/2 *)
Definition ramp : Win Q := mkWin 0 1 2 0 1 2 0 1 2.
Example C08_exact_examples :
  sl_dx 2 ramp == 1 # 2 /\ sl_dy (1 # 2) ramp == 0 /\ as_dx ramp == 1 /\ as_dy ramp == 0 /\ cv ramp == 0 /\
  as_dx (wrot ramp) == 0 /\ as_dy (wrot ramp) == -1 /\
  cv (mkWin 0 0 0 0 1 0 0 0 0) == -2 /\ curv_val 1 (mkWin 0 0 0 0 1 0 0 0 0) == 400 /\
  aspect_cell (ExactArith z0) (fun y x => olift2 (fun _ _ => 0) y x) (Some (573 # 10)) (wq (wflat 7)) = Some (-1).
Proof. repeat apply conj; try reflexivity. Qed.

(* float instance (what is extracted): 1x1 and 3x3 rasters; border NaN; flat aspect -1; curvature of a
   unit spike with res (1,1) is 400; identity stands in for libm here *)
Example C08_float_examples :
  f_aspect (fun y x => y) 1%float [[CI 5]] = [[nan]] /\
  f_aspect (fun y x => y) 1%float [[CI 5; CI 5; CI 5]; [CI 5; CI 5; CI 5]; [CI 5; CI 5; CI 5]]
    = [[nan; nan; nan]; [nan; (-1)%float; nan]; [nan; nan; nan]] /\
  f_curvature (FPair 1%float 1%float) [] [] [[CI 0; CI 0; CI 0]; [CI 0; CI 1; CI 0]; [CI 0; CI 0; CI 0]]
    = [[nan; nan; nan]; [nan; 400%float; nan]; [nan; nan; nan]] /\
  f_hillshade (fun x => x) (fun x => x) (fun x => x) (fun y x => y) 3%float 225%float 25%float [[CI 1]] = None.
Proof. repeat split; vm_compute; reflexivity. Qed.

(* the premises of the quarter-turn theorems are satisfiable: the quadrant's base angle (0, 90, 180, -90) with RADIAN = 1
   respects ==, stays in [-180,180] and gains 90 degrees mod 360 under a quarter turn of the vector *)
Example C08_quarter_premises_satisfiable :
  (forall y y' x x', y == y' -> x == x' -> quad_angle y x == quad_angle y' x') /\
  (forall y x, -180 <= quad_angle y x * 1 <= 180) /\
  (forall y x, ~ (x == 0 /\ y == 0) ->
     quad_angle x (- y) * 1 == quad_angle y x * 1 + 90 \/ quad_angle x (- y) * 1 == quad_angle y x * 1 - 270).
Proof. exact quad_angle_premises. Qed.

(* a concrete turn: the ramp rising to the east faces west (270 with the coarse quad_angle: atan2(0, -1) -> 180 -> 450-180);
   turned counter-clockwise it rises to the north and faces south: 180 = 270 - 90.  And rot90 of a 2x3 raster *)
Example C08_turn_examples :
  aspect_cell (ExactArith z0) (fun y x => olift2 quad_angle y x) (Some 1) (wq ramp) = Some (360 - 180 + 90) /\
  aspect_cell (ExactArith z0) (fun y x => olift2 quad_angle y x) (Some 1) (wq (wrot ramp)) = Some (90 - -90) /\
  rot90 0%Z [[1; 2; 3]; [4; 5; 6]]%Z = [[3; 6]; [2; 5]; [1; 4]]%Z.
Proof. repeat split; vm_compute; reflexivity. Qed.
