(* C08/ProofsExact.v — the exact instance (option Q, None = NaN): closed forms of the
   gradients / second difference and their algebra (offset, flat window, quarter turn),
   and the range facts under explicit premises about sqrt / atan / atan2 / sin / cos. *)
Require Import Base.Prelude.
From Coq Require Import QArith Qfield Lqa.
Require Import C08.Arith C08.Model.
Close Scope Z_scope.
Open Scope Q_scope.

(* ---- windows of rationals ---- *)
Definition wq (W : Win Q) : Win oq :=
  mkWin (Some (w_nw W)) (Some (w_n W)) (Some (w_ne W))
        (Some (w_w W)) (Some (w_c W)) (Some (w_e W))
        (Some (w_sw W)) (Some (w_s W)) (Some (w_se W)).
Definition wadd (k : Q) (W : Win Q) : Win Q :=
  mkWin (w_nw W + k) (w_n W + k) (w_ne W + k) (w_w W + k) (w_c W + k) (w_e W + k)
        (w_sw W + k) (w_s W + k) (w_se W + k).
Definition wflat (v : Q) : Win Q := mkWin v v v v v v v v v.
(* np.rot90 (counter-clockwise quarter turn) seen from one window *)
Definition wrot (W : Win Q) : Win Q :=
  mkWin (w_ne W) (w_e W) (w_se W) (w_n W) (w_c W) (w_s W) (w_nw W) (w_w W) (w_sw W).

(* ---- the documented finite-difference formulas ---- *)
Definition sl_dx (cx : Q) (W : Win Q) : Q :=
  ((w_se W + 2 * w_e W + w_ne W) - (w_sw W + 2 * w_w W + w_nw W)) / (8 * cx).
Definition sl_dy (cy : Q) (W : Win Q) : Q :=
  ((w_nw W + 2 * w_n W + w_ne W) - (w_sw W + 2 * w_s W + w_se W)) / (8 * cy).
Definition as_dx (W : Win Q) : Q :=
  ((w_ne W + 2 * w_e W + w_se W) - (w_nw W + 2 * w_w W + w_sw W)) / 8.
Definition as_dy (W : Win Q) : Q :=
  ((w_sw W + 2 * w_s W + w_se W) - (w_nw W + 2 * w_n W + w_ne W)) / 8.
Definition cv (W : Win Q) : Q :=
  ((w_s W + w_n W) / 2 - w_c W) + ((w_e W + w_w W) / 2 - w_c W).
Definition curv_val (cs : Q) (W : Win Q) : Q := -2 * cv W * 100 / (cs * cs).
Definition hs_gx (W : Win Q) : Q := (w_s W - w_n W) / 2.
Definition hs_gy (W : Win Q) : Q := (w_e W - w_w W) / 2.

Lemma Qeq_bool_false x y : ~ x == y -> Qeq_bool x y = false.
Proof.
  intros H. destruct (Qeq_bool x y) eqn:E; [|reflexivity]. apply Qeq_bool_iff in E. contradiction.
Qed.
Lemma Qeq_bool_true x y : x == y -> Qeq_bool x y = true.
Proof. apply Qeq_bool_iff. Qed.
Lemma odiv_some x y : ~ y == 0 -> odiv (Some x) (Some y) = Some (x / y).
Proof. intros H. unfold odiv. rewrite (Qeq_bool_false y 0 H). reflexivity. Qed.

Ltac ex_unfold :=
  cbv beta iota zeta delta
    [slope_grad slope_p2 aspect_grad curv_sum curvature_cell curv_cellsize hs_grad horn3
     ExactArith T32 T64 sadd ssub smul sdiv ssqrt sopp dadd dsub dmul ddiv dsqrt dopp
     widen narrow sofZ dofZ snan dnan seqb sltb sleb deqb dltb dleb sisnan disnan
     olift2 olift1 wq wadd wflat wrot
     w_nw w_n w_ne w_w w_c w_e w_sw w_s w_se].

Section Exact.
  Variable qsqrt : Q -> Q.
  Notation E := (ExactArith qsqrt).

  (* ---- the kernels compute the documented formulas ---- *)
  Lemma slope_grad_closed cx cy W : ~ cx == 0 -> ~ cy == 0 ->
    slope_grad E (Some cx) (Some cy) (wq W) = (Some (sl_dx cx W), Some (sl_dy cy W)).
  Proof.
    intros Hx Hy. ex_unfold.
    rewrite !odiv_some; [reflexivity| |].
    - intros H. apply Hy. change (inject_Z 8) with 8 in H. lra.
    - intros H. apply Hx. change (inject_Z 8) with 8 in H. lra.
  Qed.

  Lemma aspect_grad_closed W : aspect_grad E (wq W) = (Some (as_dx W), Some (as_dy W)).
  Proof. ex_unfold. rewrite !odiv_some; [reflexivity| |]; intros H; discriminate H. Qed.

  Lemma curv_sum_closed W : curv_sum E (wq W) = Some (cv W).
  Proof. ex_unfold. rewrite !odiv_some; [reflexivity| |]; intros H; discriminate H. Qed.

  Lemma curvature_closed cs W : ~ cs == 0 ->
    curvature_cell E (Some cs) (wq W) = Some (curv_val cs W).
  Proof.
    intros H. unfold curvature_cell. rewrite curv_sum_closed. ex_unfold.
    rewrite odiv_some; [reflexivity|]. intros H0. apply H.
    destruct (Qmult_integral _ _ H0); assumption.
  Qed.

  Lemma hs_grad_closed W : hs_grad E (wq W) = (Some (hs_gx W), Some (hs_gy W)).
  Proof. ex_unfold. rewrite !odiv_some; [reflexivity| |]; intros H; discriminate H. Qed.

  (* ---- adding a constant to every elevation changes nothing ---- *)
  Lemma offset_invariant k cx cy W :
    sl_dx cx (wadd k W) == sl_dx cx W /\ sl_dy cy (wadd k W) == sl_dy cy W /\
    as_dx (wadd k W) == as_dx W /\ as_dy (wadd k W) == as_dy W /\
    cv (wadd k W) == cv W /\ hs_gx (wadd k W) == hs_gx W /\ hs_gy (wadd k W) == hs_gy W.
  Proof.
    unfold sl_dx, sl_dy, as_dx, as_dy, cv, hs_gx, hs_gy, wadd, Qdiv; cbn [w_nw w_n w_ne w_w w_c w_e w_sw w_s w_se].
    repeat apply conj; first [ring | field].
  Qed.

  (* ---- flat window: zero gradient, zero curvature ---- *)
  Lemma flat_zero v cx cy :
    sl_dx cx (wflat v) == 0 /\ sl_dy cy (wflat v) == 0 /\ as_dx (wflat v) == 0 /\ as_dy (wflat v) == 0 /\
    cv (wflat v) == 0 /\ hs_gx (wflat v) == 0 /\ hs_gy (wflat v) == 0.
  Proof.
    unfold sl_dx, sl_dy, as_dx, as_dy, cv, hs_gx, hs_gy, wflat, Qdiv; cbn [w_nw w_n w_ne w_w w_c w_e w_sw w_s w_se].
    repeat apply conj; first [ring | field].
  Qed.

  (* ---- quarter turn ---- *)
  Lemma quarter_turn c W :
    as_dx (wrot W) == as_dy W /\ as_dy (wrot W) == - as_dx W /\
    sl_dx c (wrot W) == - sl_dy c W /\ sl_dy c (wrot W) == sl_dx c W /\
    sl_dx c (wrot W) * sl_dx c (wrot W) + sl_dy c (wrot W) * sl_dy c (wrot W)
      == sl_dx c W * sl_dx c W + sl_dy c W * sl_dy c W /\
    cv (wrot W) == cv W.
  Proof.
    unfold sl_dx, sl_dy, as_dx, as_dy, cv, wrot, Qdiv; cbn [w_nw w_n w_ne w_w w_c w_e w_sw w_s w_se].
    repeat apply conj; first [ring | field].
  Qed.

  (* ---- flat window through the kernels ---- *)
  Variable qatan2 : Q -> Q -> Q.
  Lemma aspect_flat radian v :
    aspect_cell E (fun y x => olift2 qatan2 y x) radian (wq (wflat v)) = Some (-1).
  Proof.
    unfold aspect_cell. rewrite aspect_grad_closed.
    destruct (flat_zero v 1 1) as (_ & _ & Hx & Hy & _).
    cbv beta iota zeta.
    change (deqb E (Some (as_dx (wflat v))) (dofZ E 0)) with (Qeq_bool (as_dx (wflat v)) 0).
    change (deqb E (Some (as_dy (wflat v))) (dofZ E 0)) with (Qeq_bool (as_dy (wflat v)) 0).
    rewrite (Qeq_bool_true _ _ Hx), (Qeq_bool_true _ _ Hy). reflexivity.
  Qed.

  Lemma curvature_flat cs v : ~ cs == 0 ->
    exists q, curvature_cell E (Some cs) (wq (wflat v)) = Some q /\ q == 0.
  Proof.
    intros H. rewrite (curvature_closed cs _ H). eexists; split; [reflexivity|].
    unfold curv_val. destruct (flat_zero v 1 1) as (_ & _ & _ & _ & Hc & _).
    rewrite Hc. field. exact H.
  Qed.

  Variable qatan : Q -> Q.
  Hypothesis sqrt_zero : forall x, x == 0 -> qsqrt x == 0.
  Hypothesis atan_zero : forall x, x == 0 -> qatan x == 0.
  Lemma slope_flat k57 cx cy v : ~ cx == 0 -> ~ cy == 0 ->
    exists q, slope_cell E (olift1 qatan) (Some k57) (Some cx) (Some cy) (wq (wflat v)) = Some q /\ q == 0.
  Proof.
    intros Hx Hy. unfold slope_cell, slope_p2. rewrite (slope_grad_closed cx cy _ Hx Hy).
    destruct (flat_zero v cx cy) as (Dx & Dy & _).
    cbv beta iota zeta.
    change (dadd E (dmul E (Some (sl_dx cx (wflat v))) (Some (sl_dx cx (wflat v))))
                   (dmul E (Some (sl_dy cy (wflat v))) (Some (sl_dy cy (wflat v)))))
      with (Some (sl_dx cx (wflat v) * sl_dx cx (wflat v) + sl_dy cy (wflat v) * sl_dy cy (wflat v))).
    unfold dsqrt, ExactArith, osqrt.
    assert (P : sl_dx cx (wflat v) * sl_dx cx (wflat v) + sl_dy cy (wflat v) * sl_dy cy (wflat v) == 0)
      by (rewrite Dx, Dy; ring).
    assert (L : Qle_bool 0 (sl_dx cx (wflat v) * sl_dx cx (wflat v) + sl_dy cy (wflat v) * sl_dy cy (wflat v)) = true)
      by (apply Qle_bool_iff; rewrite P; lra).
    rewrite L. eexists; split; [reflexivity|].
    rewrite (atan_zero _ (sqrt_zero _ P)). ring.
  Qed.
End Exact.

(* ------------------------------------------------------------------ *)
(* range facts under explicit premises about the external functions    *)
(* ------------------------------------------------------------------ *)
Ltac ex_compute :=
  cbv beta iota zeta delta
    [ExactArith T32 T64 sadd ssub smul sdiv sopp dadd dsub dmul dopp
     widen narrow sofZ dofZ snan dnan deqb dltb dleb olift2 olift1 ocmp].

Lemma sq_nn (x : Q) : 0 <= x * x.
Proof.
  destruct (Qlt_le_dec x 0) as [H|H].
  - setoid_replace (x * x) with ((- x) * (- x)) by ring. apply Qmult_le_0_compat; lra.
  - apply Qmult_le_0_compat; lra.
Qed.

Section Ranges.
  Variable qsqrt : Q -> Q.
  Notation E := (ExactArith qsqrt).
  Variable qatan : Q -> Q.
  Variable qatan2 : Q -> Q -> Q.
  Variables k57 radian : Q.
  Hypothesis sqrt_nonneg : forall x, 0 <= x -> 0 <= qsqrt x.
  Hypothesis atan_range : forall x, 0 <= x -> 0 <= qatan x /\ qatan x * k57 <= 90.
  Hypothesis k57_nonneg : 0 <= k57.
  Hypothesis atan2_range : forall y x, -180 <= qatan2 y x * radian <= 180.

  Lemma slope_range cx cy (W : Win oq) :
    slope_cell E (olift1 qatan) (Some k57) cx cy W = None \/
    exists q, slope_cell E (olift1 qatan) (Some k57) cx cy W = Some q /\ 0 <= q <= 90.
  Proof.
    unfold slope_cell, slope_p2. destruct (slope_grad E cx cy W) as [dx dy].
    destruct dx as [dx|]; [|left; reflexivity].
    destruct dy as [dy|]; [|left; reflexivity].
    right. ex_compute. unfold dsqrt, osqrt.
    assert (P : 0 <= dx * dx + dy * dy) by (pose proof (sq_nn dx); pose proof (sq_nn dy); lra).
    apply Qle_bool_iff in P. rewrite P. apply Qle_bool_iff in P.
    eexists; split; [reflexivity|].
    destruct (atan_range _ (sqrt_nonneg _ P)) as [A1 A2]. split; [nra|exact A2].
  Qed.

  Lemma compass_range a : -180 <= a <= 180 ->
    exists q, compass E (Some a) = Some q /\ 0 <= q <= 360.
  Proof.
    intros Ha. unfold compass. ex_compute. unfold Qlt_bool.
    change (inject_Z 0) with 0. change (inject_Z 90) with 90. change (inject_Z 360) with 360.
    destruct (Qle_bool 0 a) eqn:E0; cbn [negb].
    - apply Qle_bool_iff in E0. destruct (Qle_bool a 90) eqn:E1; cbn [negb].
      + apply Qle_bool_iff in E1. eexists; split; [reflexivity|]. lra.
      + assert (90 < a).
        { apply Qnot_le_lt. intros C. apply Qle_bool_iff in C. congruence. }
        eexists; split; [reflexivity|]. lra.
    - assert (a < 0).
      { apply Qnot_le_lt. intros C. apply Qle_bool_iff in C. congruence. }
      eexists; split; [reflexivity|]. lra.
  Qed.

  Lemma aspect_range (W : Win oq) :
    aspect_cell E (fun y x => olift2 qatan2 y x) (Some radian) W = None \/
    exists q, aspect_cell E (fun y x => olift2 qatan2 y x) (Some radian) W = Some q /\
              (q == -1 \/ 0 <= q <= 360).
  Proof.
    unfold aspect_cell. destruct (aspect_grad E W) as [dx dy].
    destruct (deqb E dx (dofZ E 0) && deqb E dy (dofZ E 0)).
    - right. eexists; split; [reflexivity|]. left. reflexivity.
    - destruct dx as [dx|]; [|left; destruct dy; reflexivity].
      destruct dy as [dy|]; [|left; reflexivity].
      right.
      change (dmul E (olift2 qatan2 (Some dy) (dopp E (Some dx))) (Some radian))
        with (Some (qatan2 dy (- dx) * radian)).
      destruct (compass_range _ (atan2_range dy (- dx))) as (q & Hq & Hr).
      change (narrow E (compass E (Some (qatan2 dy (- dx) * radian)))) with (compass E (Some (qatan2 dy (- dx) * radian))).
      rewrite Hq. eexists; split; [reflexivity|]. right; exact Hr.
  Qed.

  (* hillshade: sin/cos pairs with sin^2 + cos^2 = 1 and |cos| <= 1 *)
  Variables qatanS qsinS qcosS qsinD qcosD : Q -> Q.
  Variable qatan2S : Q -> Q -> Q.
  Hypothesis pythS : forall x, qsinS x * qsinS x + qcosS x * qcosS x == 1.
  Hypothesis pythD : forall x, qsinD x * qsinD x + qcosD x * qcosD x == 1.
  Hypothesis cos_bound : forall x, -1 <= qcosS x <= 1.

  Lemma shade_bound sa ca ss cs cx :
    sa * sa + ca * ca == 1 -> ss * ss + cs * cs == 1 -> -1 <= cx <= 1 ->
    -1 <= sa * ss + ca * cs * cx <= 1.
  Proof.
    intros H1 H2 H3.
    assert (B : 0 <= cs * cs * (1 - cx * cx)).
    { apply Qmult_le_0_compat; [apply sq_nn|].
      setoid_replace (1 - cx * cx) with ((1 - cx) * (1 + cx)) by ring.
      apply Qmult_le_0_compat; lra. }
    assert (U : (sa - ss) * (sa - ss) + (ca - cs * cx) * (ca - cs * cx) + cs * cs * (1 - cx * cx) ==
                (sa * sa + ca * ca) + (ss * ss + cs * cs) - 2 * (sa * ss + ca * cs * cx)) by ring.
    assert (L : (sa + ss) * (sa + ss) + (ca + cs * cx) * (ca + cs * cx) + cs * cs * (1 - cx * cx) ==
                (sa * sa + ca * ca) + (ss * ss + cs * cs) + 2 * (sa * ss + ca * cs * cx)) by ring.
    rewrite H1, H2 in U. rewrite H1, H2 in L.
    pose proof (sq_nn (sa - ss)) as S1. pose proof (sq_nn (ca - cs * cx)) as S2.
    pose proof (sq_nn (sa + ss)) as S3. pose proof (sq_nn (ca + cs * cx)) as S4.
    split; lra.
  Qed.

  Lemma hillshade_range pi az alt (W : Win oq) :
    let out := hillshade_cell E (olift1 qatanS) (olift1 qsinS) (olift1 qcosS)
                 (fun y x => olift2 qatan2S y x) (olift1 qsinD) (olift1 qcosD) pi az alt W in
    out = None \/ exists q, out = Some q /\ 0 <= q <= 1.
  Proof.
    cbv zeta. unfold hillshade_cell. destruct (hs_grad E W) as [gx gy].
    destruct pi as [pi|], az as [az|], alt as [alt|], gx as [gx|], gy as [gy|];
      try (left; ex_compute; unfold odiv; cbn;
           repeat match goal with |- context [if ?c then _ else _] => destruct c end; reflexivity).
    ex_compute. unfold odiv, ssqrt, osqrt.
    change (Qeq_bool (inject_Z 2) 0) with false. change (Qeq_bool (inject_Z 180) 0) with false.
    cbv iota.
    assert (P : 0 <= gx * gx + gy * gy) by (pose proof (sq_nn gx); pose proof (sq_nn gy); lra).
    apply Qle_bool_iff in P. rewrite P.
    right. eexists; split; [reflexivity|].
    match goal with |- 0 <= (?sa * ?ss + ?ca * ?cs * ?cx + _) / _ <= 1 =>
      pose proof (shade_bound sa ca ss cs cx (pythD _) (pythS _) (cos_bound _)) as HB end.
    change (inject_Z 1) with 1 in *. change (inject_Z 2) with 2 in *.
    split.
    - apply Qle_shift_div_l; lra.
    - apply Qle_shift_div_r; lra.
  Qed.
End Ranges.
