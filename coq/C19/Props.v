(* C19/Props.v — the property theorems claimed for C19, nothing else. *)
Require Import Base.Prelude C19.GeneratedFacts C19.Model C19.ProofsMetric C19.ProofsMetricR C19.ProofsGCRange C19.ProofsCellsize C19.ProofsKernel C19.ProofsParse.
From Coq Require Import QArith Ascii.
Open Scope Z_scope.

(* Manhattan distance (the formula of manhattan_distance over exact integers — finite doubles are
   dyadic, so after scaling this covers all finite inputs): symmetric, zero exactly for coincident
   points, non-negative, triangle inequality *)
Theorem C19_manhattan_is_metric : forall ax ay bx by_ cx cy,
  z_manhattan ax bx ay by_ = z_manhattan bx ax by_ ay /\
  (z_manhattan ax bx ay by_ = 0 <-> (ax = bx /\ ay = by_)) /\
  0 <= z_manhattan ax bx ay by_ /\
  z_manhattan ax cx ay cy <= z_manhattan ax bx ay by_ + z_manhattan bx cx by_ cy.
Proof.
  intros. split; [apply z_manhattan_sym|]. split; [apply z_manhattan_zero|].
  split; [apply z_manhattan_nonneg|apply z_manhattan_triangle].
Qed.
Print Assumptions C19_manhattan_is_metric.

(* ... also for UNSIGNED arguments: with a subtraction that cannot go below zero (natural numbers) and with
   arithmetic modulo 2^64 (operands below 2^32) the formula is |x1 - x2| + |y1 - y2|, because it only ever
   subtracts the smaller from the larger *)
Theorem C19_manhattan_unsigned_exact :
  (forall x1 x2 y1 y2 : N,
     Z.of_N (n_manhattan x1 x2 y1 y2) = Z.abs (Z.of_N x1 - Z.of_N x2) + Z.abs (Z.of_N y1 - Z.of_N y2)) /\
  (forall x1 x2 y1 y2, 0 <= x1 < 2 ^ 32 -> 0 <= x2 < 2 ^ 32 -> 0 <= y1 < 2 ^ 32 -> 0 <= y2 < 2 ^ 32 ->
     w_manhattan x1 x2 y1 y2 = Z.abs (x1 - x2) + Z.abs (y1 - y2)) /\
  (forall x1 x2 y1 y2, z_manhattan x1 x2 y1 y2 = Z.abs (x1 - x2) + Z.abs (y1 - y2)).
Proof. split; [exact n_manhattan_exact|]. split; [exact w_manhattan_exact|exact z_manhattan_abs]. Qed.
Print Assumptions C19_manhattan_unsigned_exact.

(* the defect fixed by fixes/C19-manhattan-unsigned-wrap.diff: abs(x1 - x2) + abs(y1 - y2) on unsigned 64-bit
   operands wraps around — d((165,177),(194,70)) = 136 but 165 - 194 is 2^64 - 29 there, and the old formula is not even symmetric
   (modulo 2^64 it gives 78 one way and 2^64 - 78 the other; Numba's float conversion made it 1.8e19) *)
Example C19_manhattan_abs_unsigned_refuted :
  w_manhattan 165 194 177 70 = 136 /\ w_manhattan 194 165 70 177 = 136 /\
  w_manhattan_abs 165 194 177 70 = 78 /\ w_manhattan_abs 194 165 70 177 = 2 ^ 64 - 78 /\ wsub 165 194 = 2 ^ 64 - 29.
Proof. repeat split; vm_compute; reflexivity. Qed.

(* Euclidean distance: the radicand x*x + y*y of euclidean_distance over exact integers is symmetric,
   zero exactly for coincident points, and satisfies the triangle inequality in its square-root-free
   form: whenever p, q >= 0 bound the two legs (p^2 >= d2(A,B), q^2 >= d2(B,C)), p + q bounds the
   third side ((p+q)^2 >= d2(A,C)). *)
Theorem C19_euclidean_sq_is_metric : forall ax ay bx by_ cx cy,
  z_euclid_sq ax bx ay by_ = z_euclid_sq bx ax by_ ay /\
  (z_euclid_sq ax bx ay by_ = 0 <-> (ax = bx /\ ay = by_)) /\
  0 <= z_euclid_sq ax bx ay by_ /\
  (forall p q, 0 <= p -> 0 <= q ->
     z_euclid_sq ax bx ay by_ <= p * p -> z_euclid_sq bx cx by_ cy <= q * q ->
     z_euclid_sq ax cx ay cy <= (p + q) * (p + q)).
Proof.
  intros. split; [apply z_euclid_sq_sym|]. split; [apply z_euclid_sq_zero|].
  split; [apply z_euclid_sq_nonneg|]. intros p q. apply z_euclid_triangle_sq.
Qed.
Print Assumptions C19_euclidean_sq_is_metric.

(* The formula of euclidean_distance over the real numbers is a metric: symmetric, zero exactly for
   coincident points, triangle inequality (Cauchy-Schwarz).  Uses the standard library's real-number
   axioms (listed by Print Assumptions and in TRUSTED). *)
Theorem C19_euclidean_is_metric_over_R : forall ax ay bx by_ cx cy : Rdefinitions.R,
  r_euclid ax bx ay by_ = r_euclid bx ax by_ ay /\
  (r_euclid ax bx ay by_ = Rdefinitions.IZR 0 <-> (ax = bx /\ ay = by_)) /\
  Rdefinitions.Rle (r_euclid ax cx ay cy) (Rdefinitions.Rplus (r_euclid ax bx ay by_) (r_euclid bx cx by_ cy)).
Proof.
  intros. split; [apply r_euclid_sym|]. split; [apply r_euclid_zero|apply r_euclid_triangle].
Qed.
Print Assumptions C19_euclidean_is_metric_over_R.

(* great_circle_distance validates its arguments by exactly this decision rule (bounds are read
   from the source into GeneratedFacts.v): accepted iff |lon| <= 180 and |lat| <= 90 for both points;
   the error names the first offending argument; a rejected call computes nothing *)
Theorem C19_great_circle_validation : forall x1 x2 y1 y2 : Q,
  (q_gc_validate x1 x2 y1 y2 = None <->
     in_range (-180) 180 x1 /\ in_range (-180) 180 x2 /\ in_range (-90) 90 y1 /\ in_range (-90) 90 y2) /\
  (q_gc_validate x1 x2 y1 y2 = Some BadX1 <-> ~ in_range (-180) 180 x1) /\
  (q_gc_validate x1 x2 y1 y2 = Some BadX2 <-> in_range (-180) 180 x1 /\ ~ in_range (-180) 180 x2) /\
  (q_gc_validate x1 x2 y1 y2 = Some BadY1 <->
     in_range (-180) 180 x1 /\ in_range (-180) 180 x2 /\ ~ in_range (-90) 90 y1) /\
  (q_gc_validate x1 x2 y1 y2 = Some BadY2 <->
     in_range (-180) 180 x1 /\ in_range (-180) 180 x2 /\ in_range (-90) 90 y1 /\ ~ in_range (-90) 90 y2).
Proof. exact q_gc_validate_spec. Qed.
Print Assumptions C19_great_circle_validation.

Theorem C19_great_circle_rejects : forall (T : Type) add sub mul div sqrt sin cos asin radians ltb of_Z
    (x1 x2 y1 y2 radius : T) e,
  gc_validate ltb of_Z x1 x2 y1 y2 = Some e ->
  great_circle add sub mul div sqrt sin cos asin radians ltb of_Z x1 x2 y1 y2 radius = inl e.
Proof. exact @great_circle_rejects. Qed.
Print Assumptions C19_great_circle_rejects.

(* great-circle distance is within [0, pi * R] for in-range coordinates and R >= 0: the formula of
   great_circle_distance over the reals with sin / cos / asin as arbitrary functions satisfying the
   stated premises (what the bound needs from libm): sin^2 + cos^2 = 1, the addition formulas of cos,
   cos >= 0 on [-pi/2, pi/2], asin maps [0,1] into [0, pi/2].  They give 0 <= a <= 1 for the
   haversine term via cos(l1) cos(l2) <= cos^2((l2-l1)/2); sqrt is the real square root (monotone). *)
Theorem C19_great_circle_range :
  forall (sin cos asin : Rdefinitions.R -> Rdefinitions.R) (pi : Rdefinitions.R),
  Rdefinitions.Rle (Rdefinitions.IZR 0) pi ->
  (forall x, Rdefinitions.Rplus (Rdefinitions.Rmult (sin x) (sin x)) (Rdefinitions.Rmult (cos x) (cos x)) = Rdefinitions.IZR 1) ->
  (forall x y, cos (Rdefinitions.Rplus x y)
               = Rdefinitions.Rminus (Rdefinitions.Rmult (cos x) (cos y)) (Rdefinitions.Rmult (sin x) (sin y))) ->
  (forall x y, cos (Rdefinitions.Rminus x y)
               = Rdefinitions.Rplus (Rdefinitions.Rmult (cos x) (cos y)) (Rdefinitions.Rmult (sin x) (sin y))) ->
  (forall x, Rdefinitions.Rle (Rdefinitions.Ropp (Rdefinitions.Rdiv pi (Rdefinitions.IZR 2))) x /\
             Rdefinitions.Rle x (Rdefinitions.Rdiv pi (Rdefinitions.IZR 2)) -> Rdefinitions.Rle (Rdefinitions.IZR 0) (cos x)) ->
  (forall x, Rdefinitions.Rle (Rdefinitions.IZR 0) x /\ Rdefinitions.Rle x (Rdefinitions.IZR 1) ->
             Rdefinitions.Rle (Rdefinitions.IZR 0) (asin x) /\ Rdefinitions.Rle (asin x) (Rdefinitions.Rdiv pi (Rdefinitions.IZR 2))) ->
  forall x1 x2 y1 y2 radius,
  Rdefinitions.Rle (Rdefinitions.IZR (-180)) x1 /\ Rdefinitions.Rle x1 (Rdefinitions.IZR 180) ->
  Rdefinitions.Rle (Rdefinitions.IZR (-180)) x2 /\ Rdefinitions.Rle x2 (Rdefinitions.IZR 180) ->
  Rdefinitions.Rle (Rdefinitions.IZR (-90)) y1 /\ Rdefinitions.Rle y1 (Rdefinitions.IZR 90) ->
  Rdefinitions.Rle (Rdefinitions.IZR (-90)) y2 /\ Rdefinitions.Rle y2 (Rdefinitions.IZR 90) ->
  Rdefinitions.Rle (Rdefinitions.IZR 0) radius ->
  exists d, r_great_circle sin cos asin pi x1 x2 y1 y2 radius = inr d /\
            Rdefinitions.Rle (Rdefinitions.IZR 0) d /\ Rdefinitions.Rle d (Rdefinitions.Rmult pi radius).
Proof. exact great_circle_range. Qed.
Print Assumptions C19_great_circle_range.

(* the premises are consistent: the real sin / cos / asin / PI of the standard library satisfy them *)
Theorem C19_great_circle_range_real_functions : forall x1 x2 y1 y2 radius,
  Rdefinitions.Rle (Rdefinitions.IZR (-180)) x1 /\ Rdefinitions.Rle x1 (Rdefinitions.IZR 180) ->
  Rdefinitions.Rle (Rdefinitions.IZR (-180)) x2 /\ Rdefinitions.Rle x2 (Rdefinitions.IZR 180) ->
  Rdefinitions.Rle (Rdefinitions.IZR (-90)) y1 /\ Rdefinitions.Rle y1 (Rdefinitions.IZR 90) ->
  Rdefinitions.Rle (Rdefinitions.IZR (-90)) y2 /\ Rdefinitions.Rle y2 (Rdefinitions.IZR 90) ->
  Rdefinitions.Rle (Rdefinitions.IZR 0) radius ->
  exists d, r_great_circle Rtrigo_def.sin Rtrigo_def.cos Ratan.asin Rtrigo1.PI x1 x2 y1 y2 radius = inr d /\
            Rdefinitions.Rle (Rdefinitions.IZR 0) d /\ Rdefinitions.Rle d (Rdefinitions.Rmult Rtrigo1.PI radius).
Proof. exact great_circle_range_real. Qed.
Print Assumptions C19_great_circle_range_real_functions.

(* calc_cellsize, in any arithmetic: the resolution is attrs['res'] (pair, or one number for both
   axes) when present and otherwise (max - min) / (n - 1) of the coordinates; the unit is attrs['unit']
   or DEFAULT_UNIT; the result is (cx * factor, |cy * factor|) with the factor of the generated UNITS
   table, and a unit that is not a key of the table gives no result (KeyError) *)
Theorem C19_calc_cellsize_spec :
  forall (T : Type) (sub mul div : T -> T -> T) (abs : T -> T) (table : list (list ascii * T))
         attr unit_attr xmin xmax wm1 ymin ymax hm1,
    let unit := match unit_attr with Some u => u | None => default_unit end in
    let cx := match attr with ResPair a _ => a | ResScalar a => a | ResAbsent => div (sub xmax xmin) wm1 end in
    let cy := match attr with ResPair _ b => b | ResScalar a => a | ResAbsent => div (sub ymax ymin) hm1 end in
    (forall f, lookup_unit unit table = Some f ->
       calc_cellsize sub mul div abs table attr unit_attr xmin xmax wm1 ymin ymax hm1 = Some (mul cx f, abs (mul cy f))) /\
    (lookup_unit unit table = None ->
       calc_cellsize sub mul div abs table attr unit_attr xmin xmax wm1 ymin ymax hm1 = None).
Proof. exact @calc_cellsize_cases. Qed.
Print Assumptions C19_calc_cellsize_spec.

(* ... and at the exact (rational) instance with the generated table: the y cell size is never
   negative; without a unit attribute the result is the resolution itself (metres, factor 1);
   for evenly spaced coordinates x0, x0+dx, ..., x0+(n-1)dx the coordinate resolution is dx *)
Theorem C19_calc_cellsize_exact :
  (forall attr unit_attr xmin xmax wm1 ymin ymax hm1 cx cy,
     q_calc_cellsize attr unit_attr xmin xmax wm1 ymin ymax hm1 = Some (cx, cy) -> (0 <= cy)%Q) /\
  (forall attr xmin xmax wm1 ymin ymax hm1,
     exists cx cy, q_calc_cellsize attr None xmin xmax wm1 ymin ymax hm1 = Some (cx, cy) /\
       (cx == fst (resolution Qminus Qdiv attr xmin xmax wm1 ymin ymax hm1))%Q /\
       (cy == Qabs.Qabs (snd (resolution Qminus Qdiv attr xmin xmax wm1 ymin ymax hm1)))%Q) /\
  (forall (x0 dx : Q) (n : Z), 2 <= n ->
     (calc_res Qminus Qdiv x0 (x0 + inject_Z (n - 1) * dx) (inject_Z (n - 1)) == dx)%Q).
Proof.
  split; [exact q_cellsize_second_nonneg|]. split; [exact q_cellsize_no_unit|exact q_calc_res_even_spacing].
Qed.
Print Assumptions C19_calc_cellsize_exact.

Example C19_nonvacuous_cellsize :
  (q_calc_cellsize (ResPair (1 # 2) (-(1 # 2))) (Some ["k"; "m"]%char) 0 0 1 0 0 1
     = Some ((1 # 2) * (1000 # 1), Qabs.Qabs (-(1 # 2) * (1000 # 1))) /\
   q_calc_cellsize (ResScalar (3 # 1)) (Some ["K"; "M"]%char) 0 0 1 0 0 1 = None /\
   (exists c, q_calc_cellsize ResAbsent None (10 # 1) (14 # 1) (4 # 1) (7 # 1) (9 # 1) (2 # 1) = Some c /\
              fst c == 1 /\ snd c == 1))%Q.
Proof.
  split; [vm_compute; reflexivity|]. split; [vm_compute; reflexivity|].
  eexists. split; [vm_compute; reflexivity|]. split; reflexivity.
Qed.

(* the haversine term (hence the distance) is symmetric under exchanging the two points, in any
   arithmetic where subtraction is antisymmetric, halving and sin are odd, (-a)(-a) = a a and
   multiplication commutes — all true of IEEE binary64 and libm sin *)
Theorem C19_haversine_symmetric : forall (T : Type) (add sub mul div : T -> T -> T) (sin cos radians neg : T -> T) (of_Z : Z -> T),
  (forall a b, sub a b = neg (sub b a)) ->
  (forall a, div (neg a) (of_Z 2) = neg (div a (of_Z 2))) ->
  (forall a, sin (neg a) = neg (sin a)) ->
  (forall a, mul (neg a) (neg a) = mul a a) ->
  (forall a b, mul a b = mul b a) ->
  forall x1 x2 y1 y2,
    gc_a add sub mul div sin cos radians of_Z x1 x2 y1 y2
    = gc_a add sub mul div sin cos radians of_Z x2 x1 y2 y1.
Proof. exact @gc_a_sym. Qed.
Print Assumptions C19_haversine_symmetric.

(* _ellipse_kernel for ALL half-widths hw, hh >= 0: odd shape (2hh+1) x (2hw+1); cell (j,i) is the
   0/1 ellipse mask at offset (i-hw, j-hh); symmetric under both axis flips; the centre is 1 *)
Theorem C19_ellipse_kernel_shape_mask_symmetry : forall hw hh, 0 <= hw -> 0 <= hh ->
  lenZ (ellipse_kernel hw hh) = 2 * hh + 1 /\
  (forall j, 0 <= j <= 2 * hh -> lenZ (nthZ [] (ellipse_kernel hw hh) j) = 2 * hw + 1) /\
  (forall j i, 0 <= j <= 2 * hh -> 0 <= i <= 2 * hw ->
     kget (ellipse_kernel hw hh) j i = ellipse_cell hw hh (i - hw) (j - hh) /\
     kget (ellipse_kernel hw hh) j (2 * hw - i) = kget (ellipse_kernel hw hh) j i /\
     kget (ellipse_kernel hw hh) (2 * hh - j) i = kget (ellipse_kernel hw hh) j i) /\
  kget (ellipse_kernel hw hh) hh hw = 1.
Proof. exact ellipse_spec. Qed.
Print Assumptions C19_ellipse_kernel_shape_mask_symmetry.

Theorem C19_ellipse_cell_is_ellipse_equation : forall hw hh x y,
  (ellipse_cell hw hh x y = 0 \/ ellipse_cell hw hh x y = 1) /\
  (ellipse_cell hw hh x y = 1 <-> (x * hh) * (x * hh) + (y * hw) * (y * hw) <= (hw * hh) * (hw * hh)).
Proof. intros. split; [apply ellipse_cell_01|apply ellipse_cell_iff]. Qed.
Print Assumptions C19_ellipse_cell_is_ellipse_equation.

(* annulus for ALL half-widths with inner <= outer: same odd shape as the outer kernel, equal to the
   outer kernel minus the inner kernel centred in it, every cell 0 or 1 (never negative) *)
Theorem C19_annulus_is_outer_minus_centred_inner : forall hwo hho hwi hhi,
  0 <= hwi <= hwo -> 0 <= hhi <= hho ->
  exists K, annulus_hw hwo hho hwi hhi = Some K /\
    lenZ K = 2 * hho + 1 /\
    (forall j, 0 <= j <= 2 * hho -> lenZ (nthZ [] K j) = 2 * hwo + 1) /\
    (forall j i, 0 <= j <= 2 * hho -> 0 <= i <= 2 * hwo ->
       kget K j i = kget (ellipse_kernel hwo hho) j i - centred_inner hwo hho hwi hhi j i /\
       (kget K j i = 0 \/ kget K j i = 1)).
Proof. exact annulus_spec. Qed.
Print Assumptions C19_annulus_is_outer_minus_centred_inner.

Theorem C19_inner_ellipse_inside_outer : forall a b A B x y,
  0 <= a <= A -> 0 <= b <= B -> - a <= x <= a -> - b <= y <= b ->
  ellipse_cell a b x y = 1 -> ellipse_cell A B x y = 1.
Proof. exact ellipse_subset. Qed.
Print Assumptions C19_inner_ellipse_inside_outer.

(* the tokenizer behind _get_distance terminates on every string and loses no character; numeric
   tokens are numerals of the grammar  -? digits* (. digits+)?  *)
Theorem C19_splits_lossless : forall s, exists ps, splits s = Some ps /\ pieces_text ps = s /\
  Forall (fun p => piece_text p <> []) ps /\
  Forall (fun p => match p with PNum n => is_number n | PText _ => True end) ps.
Proof. exact splits_lossless. Qed.
Print Assumptions C19_splits_lossless.

(* _get_distance accepts only  numeral ++ unit  with a positive finite numeral and a unit of the
   table (after lower-casing and removing blanks; no unit = DEFAULT_UNIT) and returns numeral x factor *)
Theorem C19_get_distance_accepts_only_number_unit :
  forall (F : Type) (tofloat : list ascii -> F) (pf : F -> bool) (fmul : F -> F -> F) table s v,
  get_distance tofloat pf fmul table s = inr v ->
  exists n u f, s = n ++ u /\ is_number n /\ pf (tofloat n) = true /\
                lookup_unit (normalize_unit (unit_of u)) table = Some f /\ v = fmul (tofloat n) f.
Proof. exact @get_distance_accepts. Qed.
Print Assumptions C19_get_distance_accepts_only_number_unit.

(* ... and on every string of that shape (digit-free unit) the outcome is decided by exactly
   "positive finite numeral" and "known unit" *)
Theorem C19_get_distance_decides_number_unit :
  forall (F : Type) (tofloat : list ascii -> F) (pf : F -> bool) (fmul : F -> F -> F) table n u,
  is_number n -> no_digits u ->
  get_distance tofloat pf fmul table (n ++ u) =
    if pf (tofloat n) then
      match lookup_unit (normalize_unit (unit_of u)) table with
      | Some f => inr (fmul (tofloat n) f)
      | None => inl ErrUnit
      end
    else inl ErrNumber.
Proof. exact @get_distance_number_unit. Qed.
Print Assumptions C19_get_distance_decides_number_unit.

Theorem C19_get_distance_rejects_other_shapes :
  forall (F : Type) (tofloat : list ascii -> F) (pf : F -> bool) (fmul : F -> F -> F) table s ps,
  splits s = Some ps ->
  (length ps = 0%nat \/ (2 < length ps)%nat -> get_distance tofloat pf fmul table s = inl ErrInvalid) /\
  (forall t rest, ps = PText t :: rest -> (length ps <= 2)%nat -> get_distance tofloat pf fmul table s = inl ErrNumber).
Proof. exact @get_distance_rejects. Qed.
Print Assumptions C19_get_distance_rejects_other_shapes.

(* the UNITS table generated from the source converts to metres with the stated factors:
   metre 1, foot 0.3048 = 381/1250, mile 1609.344 = 201168/125 (mile, miles, mls, ml), kilometre 1000; every key is
   digit-free (so a unit suffix containing a digit is never accepted) *)
Definition str (s : list ascii) := s.
Theorem C19_units_table_factors :
  map (fun k => lookup_unit k units_table_q)
      [ ["m"; "e"; "t"; "e"; "r"]; ["m"; "e"; "t"; "e"; "r"; "s"]; ["m"];
        ["f"; "o"; "o"; "t"]; ["f"; "e"; "e"; "t"]; ["f"; "t"];
        ["m"; "i"; "l"; "e"]; ["m"; "i"; "l"; "e"; "s"]; ["m"; "l"; "s"]; ["m"; "l"];
        ["k"; "i"; "l"; "o"; "m"; "e"; "t"; "e"; "r"]; ["k"; "i"; "l"; "o"; "m"; "e"; "t"; "e"; "r"; "s"]; ["k"; "m"] ]%char
  = [ Some (1, 1); Some (1, 1); Some (1, 1); Some (381, 1250); Some (381, 1250); Some (381, 1250);
      Some (201168, 125); Some (201168, 125); Some (201168, 125); Some (201168, 125); Some (1000, 1); Some (1000, 1); Some (1000, 1) ] /\
  length units_table_q = 13%nat /\
  map fst units_table = map fst units_table_q /\
  Forall (fun kv => no_digits (fst kv)) units_table /\
  default_unit = ["m"; "e"; "t"; "e"; "r"]%char.
Proof.
  split; [vm_compute; reflexivity|]. split; [reflexivity|]. split; [reflexivity|].
  split; [|reflexivity]. repeat constructor.
Qed.
Print Assumptions C19_units_table_factors.

(* ---- non-vacuity ---- *)
Example C19_nonvacuous_metrics :
  z_manhattan 1 4 1 5 = 7 /\ z_euclid_sq 1 4 1 5 = 25 /\
  z_euclid_sq 0 3 0 4 <= 5 * 5 /\ z_euclid_sq 3 8 4 16 <= 13 * 13 /\ z_euclid_sq 0 8 0 16 <= (5 + 13) * (5 + 13) /\
  q_gc_validate (180 # 1) (-180 # 1) (90 # 1) (-90 # 1) = None /\
  q_gc_validate (361 # 2) 0 0 0 = Some BadX1 /\ q_gc_validate 0 0 0 (-181 # 2) = Some BadY2.
Proof. vm_compute. repeat split; intros; discriminate. Qed.

Example C19_nonvacuous_kernels :
  ellipse_kernel 3 1 = [[0; 0; 0; 1; 0; 0; 0]; [1; 1; 1; 1; 1; 1; 1]; [0; 0; 0; 1; 0; 0; 0]] /\
  ellipse_kernel 0 2 = [[1]; [1]; [1]; [1]; [1]] /\
  annulus_hw 3 3 1 1 = Some [[0; 0; 0; 1; 0; 0; 0]; [0; 1; 1; 1; 1; 1; 0]; [0; 1; 1; 0; 1; 1; 0]; [1; 1; 0; 0; 0; 1; 1];
                             [0; 1; 1; 0; 1; 1; 0]; [0; 1; 1; 1; 1; 1; 0]; [0; 0; 0; 1; 0; 0; 0]] /\
  annulus_hw 1 1 2 1 = None.
Proof. vm_compute. repeat split. Qed.

Example C19_nonvacuous_strings :
  let s1 := ["2"; "."; "5"; " "; "K"; " "; "m"]%char in
  splits s1 = Some [PNum ["2"; "."; "5"]%char; PText [" "; "K"; " "; "m"]%char] /\
  is_number ["2"; "."; "5"]%char /\ no_digits [" "; "K"; " "; "m"]%char /\
  normalize_unit [" "; "K"; " "; "m"]%char = ["k"; "m"]%char /\
  lookup_unit ["k"; "m"]%char units_table_q = Some (1000, 1) /\
  splits ["1"; "."; "5"; "."; "3"]%char = Some [PNum ["1"; "."; "5"]%char; PNum ["."; "3"]%char] /\
  splits ["5"; "e"; "3"]%char = Some [PNum ["5"]%char; PText ["e"]%char; PNum ["3"]%char] /\
  splits ["-"; "-"; "5"]%char = Some [PText ["-"]%char; PNum ["-"; "5"]%char].
Proof.
  cbv zeta. split; [vm_compute; reflexivity|]. split.
  { apply N_pos. apply (U_frac ["2"%char] ["5"%char]); repeat constructor; discriminate. }
  split; [repeat constructor|]. repeat split; vm_compute; reflexivity.
Qed.
