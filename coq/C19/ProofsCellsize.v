(* C19/ProofsCellsize.v — calc_cellsize: which resolution is used (attrs['res'] pair / scalar, else
   (max - min) / (n - 1) of the coordinates), conversion to metres through the generated UNITS
   table (default unit when attrs has none, KeyError for an unknown unit), second component >= 0;
   for evenly spaced coordinates the coordinate resolution is the spacing.  Exact instance: Q. *)
Require Import Base.Prelude C19.GeneratedFacts C19.Model.
From Coq Require Import QArith Qabs Ascii.
Open Scope Z_scope.

(* ---- generic in the arithmetic: pure case analysis of the code ---- *)
Section Generic.
  Context {T : Type}.
  Variables (sub mul div : T -> T -> T) (abs : T -> T).
  Variable table : list (list ascii * T).
  Notation cc := (calc_cellsize sub mul div abs table).

  Lemma calc_cellsize_cases attr unit_attr xmin xmax wm1 ymin ymax hm1 :
    let unit := match unit_attr with Some u => u | None => default_unit end in
    let cx := match attr with ResPair a _ => a | ResScalar a => a | ResAbsent => div (sub xmax xmin) wm1 end in
    let cy := match attr with ResPair _ b => b | ResScalar a => a | ResAbsent => div (sub ymax ymin) hm1 end in
    (forall f, lookup_unit unit table = Some f ->
       cc attr unit_attr xmin xmax wm1 ymin ymax hm1 = Some (mul cx f, abs (mul cy f))) /\
    (lookup_unit unit table = None -> cc attr unit_attr xmin xmax wm1 ymin ymax hm1 = None).
  Proof.
    cbv zeta. unfold calc_cellsize, resolution, cellsize_of_res, calc_res.
    destruct attr; split; intros; try (rewrite H); reflexivity.
  Qed.
End Generic.

(* ---- the exact instance ---- *)
Definition q_table : list (list ascii * Q) :=
  map (fun kv => (fst kv, Qmake (fst (snd kv)) (Z.to_pos (snd (snd kv))))) units_table_q.
Definition q_calc_cellsize := calc_cellsize Qminus Qmult Qdiv Qabs q_table.

Lemma default_unit_factor_one : lookup_unit default_unit q_table = Some (1 # 1)%Q.
Proof. vm_compute. reflexivity. Qed.

Lemma q_cellsize_second_nonneg attr unit_attr xmin xmax wm1 ymin ymax hm1 cx cy :
  q_calc_cellsize attr unit_attr xmin xmax wm1 ymin ymax hm1 = Some (cx, cy) -> (0 <= cy)%Q.
Proof.
  unfold q_calc_cellsize, calc_cellsize, cellsize_of_res.
  destruct (resolution Qminus Qdiv attr xmin xmax wm1 ymin ymax hm1) as [rx ry].
  destruct (lookup_unit _ q_table) as [f|]; [|discriminate].
  intros H. assert (E : cy = Qabs (ry * f)) by congruence. rewrite E. apply Qabs_nonneg.
Qed.

(* no unit attribute: metres, i.e. the resolution itself (up to Q equality) and |.| on y *)
Lemma q_cellsize_no_unit attr xmin xmax wm1 ymin ymax hm1 :
  exists cx cy, q_calc_cellsize attr None xmin xmax wm1 ymin ymax hm1 = Some (cx, cy) /\
    (cx == fst (resolution Qminus Qdiv attr xmin xmax wm1 ymin ymax hm1))%Q /\
    (cy == Qabs (snd (resolution Qminus Qdiv attr xmin xmax wm1 ymin ymax hm1)))%Q.
Proof.
  unfold q_calc_cellsize, calc_cellsize, cellsize_of_res.
  destruct (resolution Qminus Qdiv attr xmin xmax wm1 ymin ymax hm1) as [rx ry].
  rewrite default_unit_factor_one. eexists. eexists. split; [reflexivity|]. cbn [fst snd].
  split; [apply Qmult_1_r|]. now rewrite Qmult_1_r.
Qed.

(* evenly spaced coordinates x0, x0 + dx, ..., x0 + (n-1) dx (n >= 2, dx >= 0 so that min = x0 and
   max = the last one): the coordinate resolution is the spacing *)
Lemma q_calc_res_even_spacing (x0 dx : Q) (n : Z) : 2 <= n ->
  (calc_res Qminus Qdiv x0 (x0 + inject_Z (n - 1) * dx) (inject_Z (n - 1)) == dx)%Q.
Proof.
  intros Hn. unfold calc_res.
  assert (Hnz : ~ (inject_Z (n - 1) == 0)%Q).
  { unfold Qeq, inject_Z. simpl. lia. }
  field. exact Hnz.
Qed.
