(* C19/Model.v — executable model of
     xrspatial/proximity.py : euclidean_distance, manhattan_distance, great_circle_distance
     xrspatial/convolution.py: _get_distance (after fixes/C19-get-distance-finite.diff), _to_meters,
                               calc_cellsize, _ellipse_kernel, circle_kernel, annulus_kernel.
   The metric formulas are written once, generic in the arithmetic: the PrimFloat instance is the
   one that runs (and is compared bit-for-bit with the code), the Z / Q instances are the ones the
   theorems are about.  libm functions and Python's float()/int() are Section variables supplied
   by the OCaml driver.  Definitions only. *)
Require Import Base.Prelude.
From Coq Require Import Ascii PrimFloat.
Require Import C19.GeneratedFacts.
Open Scope Z_scope.

(* ------------------------------------------------------------------ *)
(* 1. metrics                                                           *)
(* ------------------------------------------------------------------ *)
Section MetricFormulas.
  Context {T : Type}.
  Variables (add sub mul : T -> T -> T) (sqrt abs : T -> T).
  (*  x = x1 - x2;  y = y1 - y2;  return np.sqrt(x * x + y * y)  *)
  Definition euclid_sq (x1 x2 y1 y2 : T) : T :=
    let x := sub x1 x2 in let y := sub y1 y2 in add (mul x x) (mul y y).
  Definition euclid (x1 x2 y1 y2 : T) : T := sqrt (euclid_sq x1 x2 y1 y2).
  (*  x = x1 - x2 if x1 > x2 else x2 - x1;  y likewise;  return x + y
      (after fixes/C19-manhattan-unsigned-wrap.diff: the smaller is subtracted from the larger, so the
      subtraction never goes below zero — abs(x1 - x2) wrapped around for unsigned integer arguments)  *)
  Variable ltb : T -> T -> bool.
  Definition absdiff (a b : T) : T := if ltb b a then sub a b else sub b a.
  Definition manhattan (x1 x2 y1 y2 : T) : T := add (absdiff x1 x2) (absdiff y1 y2).
  (* the formula before the fix, for the refutation witness *)
  Definition manhattan_abs (x1 x2 y1 y2 : T) : T :=
    let x := sub x1 x2 in let y := sub y1 y2 in add (abs x) (abs y).
End MetricFormulas.

Inductive gc_error : Type := BadX1 | BadX2 | BadY1 | BadY2.

Section GreatCircle.
  Context {T : Type}.
  Variables (add sub mul div : T -> T -> T) (sqrt sin cos asin radians : T -> T).
  Variable ltb : T -> T -> bool.
  Variable of_Z : Z -> T.           (* the integer literals 180, -180, 90, -90, 2 *)
  (*  if x1 > 180 or x1 < -180: raise ...   (bounds from GeneratedFacts)  *)
  Definition out_of (hi lo : Z) (v : T) : bool := ltb (of_Z hi) v || ltb v (of_Z lo).
  Definition gc_validate (x1 x2 y1 y2 : T) : option gc_error :=
    if out_of gc_x1_hi gc_x1_lo x1 then Some BadX1
    else if out_of gc_x2_hi gc_x2_lo x2 then Some BadX2
    else if out_of gc_y1_hi gc_y1_lo y1 then Some BadY1
    else if out_of gc_y2_hi gc_y2_lo y2 then Some BadY2
    else None.
  (*  a = sin(dlat/2)**2 + cos(lat1)*cos(lat2)*sin(dlon/2)**2  *)
  Definition gc_a (x1 x2 y1 y2 : T) : T :=
    let lat1 := radians y1 in let lon1 := radians x1 in
    let lat2 := radians y2 in let lon2 := radians x2 in
    let dlon := sub lon2 lon1 in
    let dlat := sub lat2 lat1 in
    let s1 := sin (div dlat (of_Z 2)) in
    let s2 := sin (div dlon (of_Z 2)) in
    add (mul s1 s1) (mul (mul (cos lat1) (cos lat2)) (mul s2 s2)).
  (*  return radius * 2 * np.arcsin(np.sqrt(a))  *)
  Definition great_circle (x1 x2 y1 y2 radius : T) : gc_error + T :=
    match gc_validate x1 x2 y1 y2 with
    | Some e => inl e
    | None => inr (mul (mul radius (of_Z 2)) (asin (sqrt (gc_a x1 x2 y1 y2))))
    end.
End GreatCircle.

(* the running instances (binary64) *)
Definition f_euclid := euclid PrimFloat.add PrimFloat.sub PrimFloat.mul PrimFloat.sqrt.
Definition f_manhattan := manhattan PrimFloat.add PrimFloat.sub PrimFloat.ltb.
Section FloatGC.
  Variables (fsin fcos fasin : float -> float).
  Variable f_of_Z : Z -> float.
  Variable pi_over_180 : float.                 (* math.pi / 180.0 *)
  Definition f_radians (x : float) : float := PrimFloat.mul x pi_over_180.
  Definition f_great_circle :=
    great_circle PrimFloat.add PrimFloat.sub PrimFloat.mul PrimFloat.div PrimFloat.sqrt
                 fsin fcos fasin f_radians PrimFloat.ltb f_of_Z.
End FloatGC.

(* ------------------------------------------------------------------ *)
(* 2. kernels (integer half-widths; the comparison is exact integer arithmetic) *)
(* ------------------------------------------------------------------ *)
(*  (x * half_h) ** 2 + (y * half_w) ** 2 <= (half_w * half_h) ** 2  *)
Definition ellipse_cell (hw hh x y : Z) : Z :=
  if (x * hh) * (x * hh) + (y * hw) * (y * hw) <=? (hw * hh) * (hw * hh) then 1 else 0.
(*  x = linspace(-hw, hw, 2hw+1) (a row), y = linspace(-hh, hh, 2hh+1) (a column)  *)
Definition ellipse_kernel (hw hh : Z) : list (list Z) :=
  map (fun j => map (fun i => ellipse_cell hw hh (- hw + i) (- hh + j))
                    (ziota 0 (Z.to_nat (2 * hw + 1))))
      (ziota 0 (Z.to_nat (2 * hh + 1))).

Definition krows (k : list (list Z)) : Z := lenZ k.
Definition kcols (k : list (list Z)) : Z := lenZ (hd [] k).
Definition zeros (n : Z) : list Z := repeat 0 (Z.to_nat n).
(* np.pad(k, ((pr, pr), (pc, pc)), constant 0) *)
Definition pad_kernel (pr pc : Z) (k : list (list Z)) : list (list Z) :=
  let w := kcols k + 2 * pc in
  repeat (zeros w) (Z.to_nat pr) ++ map (fun row => zeros pc ++ row ++ zeros pc) k ++ repeat (zeros w) (Z.to_nat pr).
Fixpoint zip_sub (a b : list Z) : list Z :=
  match a, b with x :: a', y :: b' => (x - y) :: zip_sub a' b' | _, _ => [] end.
Fixpoint kernel_sub (a b : list (list Z)) : list (list Z) :=
  match a, b with x :: a', y :: b' => zip_sub x y :: kernel_sub a' b' | _, _ => [] end.
(* annulus from the half-widths of the outer and inner circle; None = np.pad's ValueError for a
   negative pad width *)
Definition annulus_hw (hwo hho hwi hhi : Z) : option (list (list Z)) :=
  let ko := ellipse_kernel hwo hho in
  let ki := ellipse_kernel hwi hhi in
  let pv0 := krows ko - krows ki in
  let pv1 := kcols ko - kcols ki in
  if (pv0 / 2 <? 0) || (pv1 / 2 <? 0) then None
  else Some (kernel_sub ko (pad_kernel (pv0 / 2) (pv1 / 2) ki)).

(* ------------------------------------------------------------------ *)
(* 3. distance strings                                                  *)
(* ------------------------------------------------------------------ *)
Definition is_digit (c : ascii) : bool :=
  let n := nat_of_ascii c in (48 <=? n)%nat && (n <=? 57)%nat.
Definition chr_minus : ascii := "-"%char.
Definition chr_dot : ascii := "."%char.
Definition chr_space : ascii := " "%char.

Fixpoint span_digits (l : list ascii) : list ascii * list ascii :=
  match l with
  | c :: t => if is_digit c then let (d, r) := span_digits t in (c :: d, r) else ([], l)
  | [] => ([], [])
  end.
Definition nonempty {A} (l : list A) : bool := match l with [] => false | _ => true end.

(* the regular expression  -?\d*\.?\d+  anchored at the head of l, with Python's greedy /
   backtracking choice: (matched text, rest) *)
Definition match_unsigned (l : list ascii) : option (list ascii * list ascii) :=
  let (d1, r1) := span_digits l in
  match r1 with
  | c :: r2 =>
    if Ascii.eqb c chr_dot then
      let (d2, r3) := span_digits r2 in
      if nonempty d2 then Some (d1 ++ chr_dot :: d2, r3)
      else if nonempty d1 then Some (d1, r1) else None
    else if nonempty d1 then Some (d1, r1) else None
  | [] => if nonempty d1 then Some (d1, r1) else None
  end.
Definition match_number (l : list ascii) : option (list ascii * list ascii) :=
  match l with
  | c :: t =>
    if Ascii.eqb c chr_minus then
      match match_unsigned t with Some (m, r) => Some (c :: m, r) | None => None end
    else match_unsigned l
  | [] => None
  end.

Inductive piece : Type := PText (s : list ascii) | PNum (s : list ascii).
Definition flush (acc : list ascii) : list piece := match acc with [] => [] | _ => [PText acc] end.
(* [x for x in re.split(r'(-?\d*\.?\d+)', s) if x != '']; acc = text since the last match
   (in order); None = fuel exhausted (never with fuel > length, proved) *)
Fixpoint split_loop (fuel : nat) (l acc : list ascii) : option (list piece) :=
  match fuel with
  | O => None
  | S f =>
    match l with
    | [] => Some (flush acc)
    | c :: t =>
      match match_number l with
      | Some (m, r) =>
        match split_loop f r [] with Some ps => Some (flush acc ++ PNum m :: ps) | None => None end
      | None => split_loop f t (acc ++ [c])
      end
    end
  end.
Definition splits (s : list ascii) : option (list piece) := split_loop (S (length s)) s [].

Definition lower (c : ascii) : ascii :=
  let n := nat_of_ascii c in if (65 <=? n)%nat && (n <=? 90)%nat then ascii_of_nat (n + 32) else c.
(* unit.lower().replace(' ', '') *)
Definition normalize_unit (u : list ascii) : list ascii :=
  filter (fun c => negb (Ascii.eqb c chr_space)) (map lower u).
Fixpoint lookup_unit {F} (u : list ascii) (tbl : list (list ascii * F)) : option F :=
  match tbl with
  | [] => None
  | (k, f) :: r => if list_eq_dec ascii_dec k u then Some f else lookup_unit u r
  end.

Inductive dist_error : Type := ErrInvalid | ErrNumber | ErrUnit | ErrFuel.
Definition piece_text (p : piece) : list ascii := match p with PText s | PNum s => s end.

Section GetDistance.
  Context {F : Type}.
  Variable tofloat : list ascii -> F.     (* Python float() on a token matching -?\d*\.?\d+ *)
  Variable positive_finite : F -> bool.   (* 0 < d < inf *)
  Variable fmul : F -> F -> F.
  Variable table : list (list ascii * F).
  Definition get_distance (s : list ascii) : dist_error + F :=
    match splits s with
    | None => inl ErrFuel
    | Some ps =>
      match ps with
      | [p] | [p; _] =>
        let unit := match ps with [_; u] => piece_text u | _ => default_unit end in
        match p with
        | PText _ => inl ErrNumber          (* not numeric, or inf/nan: rejected by the finite-positive test *)
        | PNum n =>
          let d := tofloat n in
          if positive_finite d then
            match lookup_unit (normalize_unit unit) table with
            | Some f => inr (fmul d f)
            | None => inl ErrUnit
            end
          else inl ErrNumber
        end
      | _ => inl ErrInvalid
      end
    end.
End GetDistance.

Definition f_positive_finite (d : float) : bool := PrimFloat.ltb 0%float d && PrimFloat.ltb d infinity.
Definition f_get_distance (tofloat : list ascii -> float) :=
  get_distance tofloat f_positive_finite PrimFloat.mul units_table.

(* ---- calc_cellsize (convolution.py) on top of get_dataarray_resolution / calc_res (utils.py) ---- *)
Section CellSize.
  Context {T : Type}.
  Variables (sub mul div : T -> T -> T) (abs : T -> T).
  Variable table : list (list ascii * T).
  (* calc_res: (max - min) / (n - 1) along one axis *)
  Definition calc_res (first last nm1 : T) : T := div (sub last first) nm1.
  (* attrs['res']: a pair of numbers, one number, or absent / anything else *)
  Inductive res_attr : Type := ResPair (a b : T) | ResScalar (a : T) | ResAbsent.
  (* get_dataarray_resolution: the attribute wins, otherwise the coordinates *)
  Definition resolution (attr : res_attr) (xmin xmax wm1 ymin ymax hm1 : T) : T * T :=
    match attr with
    | ResPair a b => (a, b)
    | ResScalar a => (a, a)
    | ResAbsent => (calc_res xmin xmax wm1, calc_res ymin ymax hm1)
    end.
  (* (cx * UNITS[unit], abs(cy * UNITS[unit])); the unit is looked up as it is (no normalisation)
     — None = KeyError *)
  Definition cellsize_of_res (cx cy : T) (unit : list ascii) : option (T * T) :=
    match lookup_unit unit table with
    | Some f => Some (mul cx f, abs (mul cy f))
    | None => None
    end.
  (* calc_cellsize: unit = attrs['unit'] if present else DEFAULT_UNIT *)
  Definition calc_cellsize (attr : res_attr) (unit_attr : option (list ascii))
             (xmin xmax wm1 ymin ymax hm1 : T) : option (T * T) :=
    let unit := match unit_attr with Some u => u | None => default_unit end in
    let (cx, cy) := resolution attr xmin xmax wm1 ymin ymax hm1 in
    cellsize_of_res cx cy unit.
End CellSize.
Arguments ResAbsent {T}.

Definition f_calc_cellsize := cellsize_of_res PrimFloat.mul PrimFloat.abs units_table.
Definition f_calc_res := @calc_res float PrimFloat.sub PrimFloat.div.
Definition f_calc_cellsize_full :=
  calc_cellsize PrimFloat.sub PrimFloat.mul PrimFloat.div PrimFloat.abs units_table.

(* circle_kernel / annulus_kernel: r = _get_distance(str(radius)); half = int(r / cellsize) *)
Section CircleKernel.
  Variable tofloat : list ascii -> float.
  Variable trunc : float -> Z.               (* Python int() of a finite float *)
  Definition half_width (r cs : float) : Z := trunc (PrimFloat.div r cs).
  Definition circle_kernel (cx cy : float) (radius : list ascii) : dist_error + list (list Z) :=
    match f_get_distance tofloat radius with
    | inl e => inl e
    | inr r => inr (ellipse_kernel (half_width r cx) (half_width r cy))
    end.
  Definition annulus_kernel (cx cy : float) (outer inner : list ascii)
    : dist_error + option (list (list Z)) :=
    match f_get_distance tofloat outer, f_get_distance tofloat inner with
    | inl e, _ => inl e
    | _, inl e => inl e
    | inr ro, inr ri =>
      inr (annulus_hw (half_width ro cx) (half_width ro cy) (half_width ri cx) (half_width ri cy))
    end.
End CircleKernel.
