(* C19/ProofsParse.v — the distance-string tokenizer (re.split(r'(-?\d*\.?\d+)')) is lossless and
   terminating; _get_distance accepts exactly  number [unit]. *)
Require Import Base.Prelude C19.GeneratedFacts C19.Model.
From Coq Require Import Ascii.
Open Scope Z_scope.

Definition all_digits (l : list ascii) : Prop := Forall (fun c => is_digit c = true) l.
Definition no_digits (l : list ascii) : Prop := Forall (fun c => is_digit c = false) l.

(* the numerals of the grammar:  -? digits* ( . digits+ )?  with at least one digit *)
Inductive is_unsigned : list ascii -> Prop :=
| U_int d : d <> [] -> all_digits d -> is_unsigned d
| U_frac d1 d2 : all_digits d1 -> d2 <> [] -> all_digits d2 -> is_unsigned (d1 ++ chr_dot :: d2).
Inductive is_number : list ascii -> Prop :=
| N_pos m : is_unsigned m -> is_number m
| N_neg m : is_unsigned m -> is_number (chr_minus :: m).

Lemma dot_not_digit : is_digit chr_dot = false.
Proof. reflexivity. Qed.
Lemma minus_not_digit : is_digit chr_minus = false.
Proof. reflexivity. Qed.

(* ---- span_digits ---- *)
Lemma span_digits_spec l : forall d r, span_digits l = (d, r) ->
  l = d ++ r /\ all_digits d /\ (match r with [] => True | c :: _ => is_digit c = false end).
Proof.
  induction l as [|c t IH]; intros d r H; simpl in H.
  - inversion H; subst. repeat split; constructor.
  - destruct (is_digit c) eqn:E.
    + destruct (span_digits t) as [d' r'] eqn:E'. inversion H; subst.
      destruct (IH d' r eq_refl) as (H1 & H2 & H3). subst t. repeat split; auto. constructor; auto.
    + inversion H; subst. repeat split; auto. constructor.
Qed.

Lemma span_digits_app d rest : all_digits d ->
  (match rest with [] => True | c :: _ => is_digit c = false end) ->
  span_digits (d ++ rest) = (d, rest).
Proof.
  intros Hd Hr. induction Hd as [|c d Hc Hd IH]; simpl.
  - destruct rest as [|c r]; [reflexivity|]. simpl. now rewrite Hr.
  - rewrite Hc, IH. reflexivity.
Qed.

Lemma nonempty_true {A} (l : list A) : nonempty l = true <-> l <> [].
Proof. destruct l; simpl; split; congruence. Qed.

(* ---- one match ---- *)
Lemma match_unsigned_spec l m r : match_unsigned l = Some (m, r) ->
  l = m ++ r /\ is_unsigned m.
Proof.
  unfold match_unsigned. destruct (span_digits l) as [d1 r1] eqn:E1.
  destruct (span_digits_spec _ _ _ E1) as (Hl & Hd1 & Hr1).
  destruct r1 as [|c r2].
  - destruct (nonempty d1) eqn:En; [|discriminate]. intros H; inversion H; subst.
    split; [reflexivity|]. apply U_int; [now apply nonempty_true|assumption].
  - destruct (Ascii.eqb c chr_dot) eqn:Ec.
    + apply Ascii.eqb_eq in Ec. subst c.
      destruct (span_digits r2) as [d2 r3] eqn:E2.
      destruct (span_digits_spec _ _ _ E2) as (Hl2 & Hd2 & Hr3).
      destruct (nonempty d2) eqn:En2.
      * intros H; inversion H; subst. split.
        -- rewrite <- app_assoc. reflexivity.
        -- apply U_frac; auto. now apply nonempty_true.
      * destruct (nonempty d1) eqn:En; [|discriminate]. intros H; inversion H; subst.
        split; [reflexivity|]. apply U_int; [now apply nonempty_true|assumption].
    + destruct (nonempty d1) eqn:En; [|discriminate]. intros H; inversion H; subst.
      split; [reflexivity|]. apply U_int; [now apply nonempty_true|assumption].
Qed.

Lemma match_number_spec l m r : match_number l = Some (m, r) -> l = m ++ r /\ is_number m.
Proof.
  unfold match_number. destruct l as [|c t]; [discriminate|].
  destruct (Ascii.eqb c chr_minus) eqn:Ec.
  - apply Ascii.eqb_eq in Ec. subst c.
    destruct (match_unsigned t) as [[m' r']|] eqn:E; [|discriminate].
    intros H; inversion H; subst. destruct (match_unsigned_spec _ _ _ E) as (Ht & Hm).
    subst t. split; [reflexivity|]. now apply N_neg.
  - intros H. destruct (match_unsigned_spec _ _ _ H) as (Hl & Hm). split; [assumption|]. now apply N_pos.
Qed.

Lemma is_unsigned_nonempty m : is_unsigned m -> m <> [].
Proof. intros [d Hd _|d1 d2 _ _ _]; [assumption|]. destruct d1; discriminate. Qed.
Lemma is_number_nonempty m : is_number m -> m <> [].
Proof. intros [m' H|m' H]; [now apply is_unsigned_nonempty|discriminate]. Qed.

Lemma is_unsigned_has_digit m : is_unsigned m -> exists c, In c m /\ is_digit c = true.
Proof.
  intros [d Hd Hall|d1 d2 _ Hd2 Hall].
  - destruct d as [|c d]; [congruence|]. inversion Hall; subst. exists c. split; [now left|assumption].
  - destruct d2 as [|c d2]; [congruence|]. inversion Hall; subst. exists c. split; [|assumption].
    apply in_or_app. right. right. now left.
Qed.

(* a string without digits contains no match *)
Lemma match_number_no_digits l : no_digits l -> match_number l = None.
Proof.
  intros Hn. destruct (match_number l) as [[m r]|] eqn:E; [|reflexivity].
  destruct (match_number_spec _ _ _ E) as (Hl & Hm). exfalso.
  assert (Hex : exists c, In c m /\ is_digit c = true).
  { destruct Hm as [m' H|m' H]; destruct (is_unsigned_has_digit _ H) as (c & Hin & Hc); exists c; split; auto.
    now right. }
  destruct Hex as (c & Hin & Hc). unfold no_digits in Hn. rewrite Forall_forall in Hn.
  assert (Hf : is_digit c = false) by (apply Hn; subst l; apply in_or_app; now left). congruence.
Qed.

(* ---- the grammar's numerals are matched whole when followed by a non-digit-starting rest ---- *)
Lemma match_unsigned_complete m u : is_unsigned m -> no_digits u -> match_unsigned (m ++ u) = Some (m, u).
Proof.
  intros Hm Hu.
  assert (Hu0 : match u with [] => True | c :: _ => is_digit c = false end)
    by (destruct u; [exact I|now inversion Hu]).
  destruct Hm as [d Hd Hall|d1 d2 Hd1 Hne Hd2]; unfold match_unsigned.
  - rewrite (span_digits_app d u Hall Hu0).
    apply nonempty_true in Hd. destruct u as [|c u'].
    + now rewrite Hd.
    + destruct (Ascii.eqb c chr_dot) eqn:Ec.
      * apply Ascii.eqb_eq in Ec. subst c. inversion Hu as [|? ? Hc Hu']; subst.
        assert (Hu0' : match u' with [] => True | c :: _ => is_digit c = false end)
          by (destruct u'; [exact I|now inversion Hu']).
        pose proof (span_digits_app [] u' (Forall_nil _) Hu0') as Hs. cbn [app] in Hs. rewrite Hs. cbn [nonempty]. now rewrite Hd.
      * now rewrite Hd.
  - rewrite <- app_assoc. simpl.
    rewrite (span_digits_app d1 (chr_dot :: d2 ++ u) Hd1 dot_not_digit).
    rewrite Ascii.eqb_refl. rewrite (span_digits_app d2 u Hd2 Hu0).
    apply nonempty_true in Hne. rewrite Hne. reflexivity.
Qed.

Lemma match_number_complete n u : is_number n -> no_digits u -> match_number (n ++ u) = Some (n, u).
Proof.
  intros Hn Hu. destruct Hn as [m Hm|m Hm]; unfold match_number.
  - pose proof (match_unsigned_complete m u Hm Hu) as H.
    destruct (m ++ u) as [|c t] eqn:E.
    + apply is_unsigned_nonempty in Hm. destruct m; [congruence|discriminate].
    + destruct (Ascii.eqb c chr_minus) eqn:Ec; [|exact H].
      (* an unsigned numeral does not start with '-' *)
      apply Ascii.eqb_eq in Ec. subst c. exfalso.
      destruct Hm as [d Hd Hall|d1 d2 Hd1 _ _].
      * destruct d as [|c d]; [congruence|]. inversion E; subst. inversion Hall; subst.
        rewrite minus_not_digit in *. discriminate.
      * destruct d1 as [|c d1]; simpl in E; inversion E; subst.
        inversion Hd1; subst. rewrite minus_not_digit in *. discriminate.
  - cbn [app]. rewrite Ascii.eqb_refl. now rewrite (match_unsigned_complete m u Hm Hu).
Qed.

(* ---- the splitting loop ---- *)
Definition pieces_text (ps : list piece) : list ascii := concat (map piece_text ps).

Lemma flush_text acc : pieces_text (flush acc) = acc.
Proof. destruct acc; [reflexivity|]. unfold pieces_text. simpl. now rewrite app_nil_r. Qed.
Lemma flush_nonempty acc : Forall (fun p => piece_text p <> []) (flush acc).
Proof. destruct acc; constructor; [discriminate|constructor]. Qed.
Lemma pieces_text_app a b : pieces_text (a ++ b) = pieces_text a ++ pieces_text b.
Proof. unfold pieces_text. now rewrite map_app, concat_app. Qed.

Lemma split_loop_spec fuel : forall l acc, (length l < fuel)%nat ->
  exists ps, split_loop fuel l acc = Some ps /\ pieces_text ps = acc ++ l /\
             Forall (fun p => piece_text p <> []) ps /\
             Forall (fun p => match p with PNum n => is_number n | PText _ => True end) ps.
Proof.
  induction fuel as [|f IH]; intros l acc Hf; [lia|].
  destruct l as [|c t].
  - simpl. exists (flush acc). split; [reflexivity|]. split; [now rewrite flush_text, app_nil_r|].
    split; [apply flush_nonempty|]. destruct acc; repeat constructor.
  - cbn [split_loop]. destruct (match_number (c :: t)) as [[m r]|] eqn:E.
    + destruct (match_number_spec _ _ _ E) as (Hl & Hm).
      assert (Hlen : (length r < f)%nat).
      { apply (f_equal (@length ascii)) in Hl. rewrite app_length in Hl.
        pose proof (is_number_nonempty _ Hm). destruct m; [congruence|]. simpl in *. lia. }
      destruct (IH r [] Hlen) as (ps & Hps & Htext & Hne & Hnum). rewrite Hps.
      exists (flush acc ++ PNum m :: ps). split; [reflexivity|]. split; [|split].
      * rewrite pieces_text_app, flush_text. unfold pieces_text in *. simpl. rewrite Htext, Hl. reflexivity.
      * apply Forall_app. split; [apply flush_nonempty|]. constructor; [|assumption].
        simpl. now apply is_number_nonempty.
      * apply Forall_app. split; [destruct acc; repeat constructor|]. constructor; assumption.
    + assert (Hlen : (length t < f)%nat) by (simpl in Hf; lia).
      destruct (IH t (acc ++ [c]) Hlen) as (ps & Hps & Htext & Hne & Hnum).
      exists ps. split; [exact Hps|]. split; [|split; assumption].
      rewrite Htext, <- app_assoc. reflexivity.
Qed.

(* the tokenizer terminates and loses no character *)
Theorem splits_lossless s : exists ps, splits s = Some ps /\ pieces_text ps = s /\
  Forall (fun p => piece_text p <> []) ps /\
  Forall (fun p => match p with PNum n => is_number n | PText _ => True end) ps.
Proof. unfold splits. apply (split_loop_spec (S (length s)) s []). lia. Qed.

Lemma split_loop_no_digits fuel : forall l acc, (length l < fuel)%nat -> no_digits l ->
  split_loop fuel l acc = Some (flush (acc ++ l)).
Proof.
  induction fuel as [|f IH]; intros l acc Hf Hn; [lia|].
  destruct l as [|c t]; [simpl; now rewrite app_nil_r|].
  cbn [split_loop]. rewrite (match_number_no_digits _ Hn).
  inversion Hn; subst. rewrite IH by (simpl in Hf; lia || assumption). now rewrite <- app_assoc.
Qed.

(* number [unit]: a numeral of the grammar followed by a digit-free unit is split into exactly those two *)
Theorem splits_number_unit n u : is_number n -> no_digits u ->
  splits (n ++ u) = Some (PNum n :: flush u).
Proof.
  intros Hn Hu. unfold splits. remember (length (n ++ u)) as k.
  destruct (n ++ u) as [|c t] eqn:E.
  { apply is_number_nonempty in Hn. destruct n; [congruence|discriminate]. }
  cbn [split_loop]. rewrite <- E. rewrite (match_number_complete n u Hn Hu).
  rewrite split_loop_no_digits; [reflexivity| |assumption].
  subst k. apply (f_equal (@length ascii)) in E. rewrite app_length in E. simpl in E.
  pose proof (is_number_nonempty _ Hn). destruct n; [congruence|]. simpl in *. lia.
Qed.

(* ---- _get_distance ---- *)
Section GetDistanceSpec.
  Context {F : Type}.
  Variable tofloat : list ascii -> F.
  Variable pf : F -> bool.
  Variable fmul : F -> F -> F.
  Variable table : list (list ascii * F).
  Notation gd := (get_distance tofloat pf fmul table).

  Definition unit_of (u : list ascii) : list ascii := match u with [] => default_unit | _ => u end.

  (* soundness: whatever is accepted is  numeral ++ unit  with a positive finite numeral and a
     table unit, and the result is numeral x factor *)
  Theorem get_distance_accepts s v : gd s = inr v ->
    exists n u f, s = n ++ u /\ is_number n /\ pf (tofloat n) = true /\
                  lookup_unit (normalize_unit (unit_of u)) table = Some f /\ v = fmul (tofloat n) f.
  Proof.
    unfold get_distance. destruct (splits_lossless s) as (ps & Hps & Htext & Hne & Hnum). rewrite Hps.
    destruct ps as [|p [|p2 [|p3 ps]]]; try discriminate.
    - destruct p as [t|n]; [discriminate|].
      destruct (pf (tofloat n)) eqn:Ep; [|discriminate].
      destruct (lookup_unit (normalize_unit default_unit) table) as [f|] eqn:El; [|discriminate].
      intros H; inversion H; subst v. exists n, [], f.
      unfold pieces_text in Htext. simpl in Htext. rewrite app_nil_r in *. inversion Hnum; subst.
      repeat split; auto.
    - destruct p as [t|n]; [discriminate|].
      destruct (pf (tofloat n)) eqn:Ep; [|discriminate].
      destruct (lookup_unit (normalize_unit (piece_text p2)) table) as [f|] eqn:El; [|discriminate].
      intros H; inversion H; subst v. exists n, (piece_text p2), f.
      unfold pieces_text in Htext. simpl in Htext. rewrite app_nil_r in Htext. inversion Hnum; subst.
      inversion Hne as [|? ? _ Hne2]; subst. inversion Hne2 as [|? ? Hp2 _]; subst.
      repeat split; auto. unfold unit_of. destruct (piece_text p2); [congruence|exact El].
  Qed.

  (* completeness on the grammar (digit-free unit suffix): the decision is exactly
     "positive finite numeral and known unit" *)
  Theorem get_distance_number_unit n u : is_number n -> no_digits u ->
    gd (n ++ u) =
      if pf (tofloat n) then
        match lookup_unit (normalize_unit (unit_of u)) table with
        | Some f => inr (fmul (tofloat n) f)
        | None => inl ErrUnit
        end
      else inl ErrNumber.
  Proof.
    intros Hn Hu. unfold get_distance. rewrite (splits_number_unit n u Hn Hu).
    destruct u as [|c u']; reflexivity.
  Qed.

  (* every other shape of token list is rejected *)
  Theorem get_distance_rejects s ps : splits s = Some ps ->
    (length ps = 0%nat \/ (2 < length ps)%nat -> gd s = inl ErrInvalid) /\
    (forall t rest, ps = PText t :: rest -> (length ps <= 2)%nat -> gd s = inl ErrNumber).
  Proof.
    intros Hps. unfold get_distance. rewrite Hps. split.
    - intros [H|H]; destruct ps as [|p [|p2 [|p3 ps']]]; simpl in H; try lia; reflexivity.
    - intros t rest -> H. destruct rest as [|p2 [|p3 r]]; simpl in H; try lia; reflexivity.
  Qed.
End GetDistanceSpec.

(* ---- the generated unit table ---- *)
Lemma normalize_keeps_digits u : ~ no_digits u -> ~ no_digits (normalize_unit u).
Proof.
  intros H Hn. apply H. clear H. unfold no_digits, normalize_unit in *. rewrite Forall_forall in *.
  intros c Hc. destruct (is_digit c) eqn:Ed; [|reflexivity].
  assert (Hl : lower c = c).
  { unfold lower. unfold is_digit in Ed. destruct ((65 <=? nat_of_ascii c)%nat && (nat_of_ascii c <=? 90)%nat) eqn:E; [|reflexivity].
    apply andb_true_iff in Ed as [E1 E2]. apply andb_true_iff in E as [E3 E4].
    apply Nat.leb_le in E1, E2, E3, E4. lia. }
  assert (Hs : Ascii.eqb c chr_space = false).
  { destruct (Ascii.eqb c chr_space) eqn:E; [|reflexivity]. apply Ascii.eqb_eq in E. subst c. discriminate. }
  assert (Hf : is_digit c = false); [|congruence].
  apply Hn. apply filter_In. split.
  - rewrite <- Hl. now apply in_map.
  - now rewrite Hs.
Qed.
