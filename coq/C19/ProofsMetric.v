(* C19/ProofsMetric.v — metric axioms for the formulas of euclidean_distance / manhattan_distance
   (exact arithmetic: Z, the harness' dyadic embedding of finite doubles), the range validation of
   great_circle_distance as a decision rule (over Q), symmetry of the haversine term. *)
Require Import Base.Prelude C19.GeneratedFacts C19.Model.
From Coq Require Import QArith.
Open Scope Z_scope.

(* ---- Manhattan over Z ---- *)
Definition z_manhattan := manhattan Z.add Z.sub Z.ltb.
Ltac split_ifs := repeat match goal with |- context [if ?b then _ else _] => destruct b eqn:? end.

Lemma z_manhattan_sym x1 x2 y1 y2 : z_manhattan x1 x2 y1 y2 = z_manhattan x2 x1 y2 y1.
Proof. unfold z_manhattan, manhattan, absdiff. split_ifs; lia. Qed.
Lemma z_manhattan_zero x1 x2 y1 y2 : z_manhattan x1 x2 y1 y2 = 0 <-> (x1 = x2 /\ y1 = y2).
Proof. unfold z_manhattan, manhattan, absdiff. split_ifs; lia. Qed.
Lemma z_manhattan_nonneg x1 x2 y1 y2 : 0 <= z_manhattan x1 x2 y1 y2.
Proof. unfold z_manhattan, manhattan, absdiff. split_ifs; lia. Qed.
Lemma z_manhattan_triangle ax ay bx by_ cx cy :
  z_manhattan ax cx ay cy <= z_manhattan ax bx ay by_ + z_manhattan bx cx by_ cy.
Proof. unfold z_manhattan, manhattan, absdiff. split_ifs; lia. Qed.

Lemma z_manhattan_abs x1 x2 y1 y2 : z_manhattan x1 x2 y1 y2 = Z.abs (x1 - x2) + Z.abs (y1 - y2).
Proof. unfold z_manhattan, manhattan, absdiff. split_ifs; lia. Qed.

(* unsigned arguments: with natural-number (never negative, truncated) subtraction the formula still
   gives |x1 - x2| + |y1 - y2| — it only ever subtracts the smaller from the larger *)
Definition n_manhattan := manhattan N.add N.sub N.ltb.
Lemma n_manhattan_exact (x1 x2 y1 y2 : N) :
  Z.of_N (n_manhattan x1 x2 y1 y2) = Z.abs (Z.of_N x1 - Z.of_N x2) + Z.abs (Z.of_N y1 - Z.of_N y2).
Proof.
  unfold n_manhattan, manhattan, absdiff.
  destruct (N.ltb x2 x1) eqn:E1; destruct (N.ltb y2 y1) eqn:E2;
    try apply N.ltb_lt in E1; try apply N.ltb_ge in E1; try apply N.ltb_lt in E2; try apply N.ltb_ge in E2; lia.
Qed.
(* arithmetic modulo 2^64 (what the compiled code does with unsigned 64-bit operands) *)
Definition wsub (a b : Z) : Z := (a - b) mod 2 ^ 64.
Definition wadd (a b : Z) : Z := (a + b) mod 2 ^ 64.
Definition w_manhattan := manhattan wadd wsub Z.ltb.
Definition w_manhattan_abs := manhattan_abs wadd wsub (fun a => a).     (* abs of an unsigned value is itself *)
Lemma w_manhattan_exact x1 x2 y1 y2 :
  0 <= x1 < 2 ^ 32 -> 0 <= x2 < 2 ^ 32 -> 0 <= y1 < 2 ^ 32 -> 0 <= y2 < 2 ^ 32 ->
  w_manhattan x1 x2 y1 y2 = Z.abs (x1 - x2) + Z.abs (y1 - y2).
Proof.
  intros. unfold w_manhattan, manhattan, absdiff, wadd, wsub.
  assert (H64 : 2 ^ 64 = 18446744073709551616) by reflexivity. assert (H32 : 2 ^ 32 = 4294967296) by reflexivity.
  rewrite H64 in *. rewrite H32 in *.
  destruct (x2 <? x1) eqn:E1; destruct (y2 <? y1) eqn:E2;
    repeat rewrite Z.mod_small by lia; lia.
Qed.

(* ---- squared Euclidean over Z ---- *)
Definition z_euclid_sq := euclid_sq Z.add Z.sub Z.mul.

Lemma z_euclid_sq_sym x1 x2 y1 y2 : z_euclid_sq x1 x2 y1 y2 = z_euclid_sq x2 x1 y2 y1.
Proof. unfold z_euclid_sq, euclid_sq. ring. Qed.
Lemma z_euclid_sq_nonneg x1 x2 y1 y2 : 0 <= z_euclid_sq x1 x2 y1 y2.
Proof.
  unfold z_euclid_sq, euclid_sq. cbv zeta.
  pose proof (Z.square_nonneg (x1 - x2)). pose proof (Z.square_nonneg (y1 - y2)). lia.
Qed.
Lemma z_euclid_sq_zero x1 x2 y1 y2 : z_euclid_sq x1 x2 y1 y2 = 0 <-> (x1 = x2 /\ y1 = y2).
Proof.
  unfold z_euclid_sq, euclid_sq. cbv zeta. split.
  - intros H. pose proof (Z.square_nonneg (x1 - x2)). pose proof (Z.square_nonneg (y1 - y2)).
    assert (Ha : (x1 - x2) * (x1 - x2) = 0) by lia. assert (Hb : (y1 - y2) * (y1 - y2) = 0) by lia.
    apply Z.mul_eq_0 in Ha. apply Z.mul_eq_0 in Hb. lia.
  - intros [-> ->]. ring.
Qed.

Lemma cauchy_schwarz_pq a b c d p q :
  0 <= p -> 0 <= q -> a * a + b * b <= p * p -> c * c + d * d <= q * q -> a * c + b * d <= p * q.
Proof.
  intros Hp Hq Hu Hv.
  assert (Hid : (a * c + b * d) * (a * c + b * d) + (a * d - b * c) * (a * d - b * c)
                = (a * a + b * b) * (c * c + d * d)) by ring.
  assert (Hprod : (a * a + b * b) * (c * c + d * d) <= (p * p) * (q * q)).
  { pose proof (Z.square_nonneg a). pose proof (Z.square_nonneg b).
    pose proof (Z.square_nonneg c). pose proof (Z.square_nonneg d).
    apply Z.mul_le_mono_nonneg; lia. }
  pose proof (Z.square_nonneg (a * d - b * c)) as Hdet.
  assert (Hsq : (a * c + b * d) * (a * c + b * d) <= (p * q) * (p * q)).
  { replace ((p * q) * (p * q)) with ((p * p) * (q * q)) by ring. lia. }
  destruct (Z_le_gt_dec (a * c + b * d) (p * q)) as [H|H]; [exact H|].
  assert (Hpq : 0 <= p * q) by (apply Z.mul_nonneg_nonneg; assumption).
  exfalso.
  assert ((p * q) * (p * q) < (a * c + b * d) * (a * c + b * d)).
  { apply Z.mul_lt_mono_nonneg; lia. }
  lia.
Qed.

(* the triangle inequality without square roots: any bounds p >= d(A,B), q >= d(B,C) (stated on the
   squares) give p + q >= d(A,C).  Over the reals this is d(A,C) <= d(A,B) + d(B,C). *)
Lemma z_euclid_triangle_sq ax ay bx by_ cx cy p q :
  0 <= p -> 0 <= q ->
  z_euclid_sq ax bx ay by_ <= p * p -> z_euclid_sq bx cx by_ cy <= q * q ->
  z_euclid_sq ax cx ay cy <= (p + q) * (p + q).
Proof.
  unfold z_euclid_sq, euclid_sq. cbv zeta. intros Hp Hq H1 H2.
  pose proof (cauchy_schwarz_pq (ax - bx) (ay - by_) (bx - cx) (by_ - cy) p q Hp Hq H1 H2) as Hcs.
  replace (ax - cx) with ((ax - bx) + (bx - cx)) by ring.
  replace (ay - cy) with ((ay - by_) + (by_ - cy)) by ring.
  nia.
Qed.

(* ---- great-circle validation as a decision rule (rational coordinates) ---- *)
Definition q_ltb (a b : Q) : bool := if Qlt_le_dec a b then true else false.
Lemma q_ltb_true a b : q_ltb a b = true <-> (a < b)%Q.
Proof.
  unfold q_ltb. destruct (Qlt_le_dec a b) as [H|H].
  - split; auto.
  - split; [discriminate|]. intros H'. exfalso. apply (Qlt_not_le _ _ H' H).
Qed.
Lemma q_ltb_false a b : q_ltb a b = false <-> (b <= a)%Q.
Proof.
  unfold q_ltb. destruct (Qlt_le_dec a b) as [H|H].
  - split; [discriminate|]. intros H'. exfalso. apply (Qlt_not_le _ _ H H').
  - split; auto.
Qed.

Definition q_gc_validate := @gc_validate Q q_ltb inject_Z.

Definition in_range (lo hi : Z) (v : Q) : Prop := (inject_Z lo <= v /\ v <= inject_Z hi)%Q.

Lemma out_of_false hi lo v : out_of q_ltb inject_Z hi lo v = false <-> in_range lo hi v.
Proof.
  unfold out_of, in_range. rewrite orb_false_iff, !q_ltb_false. tauto.
Qed.
Lemma out_of_true hi lo v : out_of q_ltb inject_Z hi lo v = true <-> ~ in_range lo hi v.
Proof.
  rewrite <- out_of_false. destruct (out_of q_ltb inject_Z hi lo v).
  - split; [intros _; discriminate|reflexivity].
  - split; [discriminate|]. intros H. exfalso. now apply H.
Qed.

Lemma q_gc_validate_spec x1 x2 y1 y2 :
  (q_gc_validate x1 x2 y1 y2 = None <->
     in_range (-180) 180 x1 /\ in_range (-180) 180 x2 /\ in_range (-90) 90 y1 /\ in_range (-90) 90 y2) /\
  (q_gc_validate x1 x2 y1 y2 = Some BadX1 <-> ~ in_range (-180) 180 x1) /\
  (q_gc_validate x1 x2 y1 y2 = Some BadX2 <-> in_range (-180) 180 x1 /\ ~ in_range (-180) 180 x2) /\
  (q_gc_validate x1 x2 y1 y2 = Some BadY1 <->
     in_range (-180) 180 x1 /\ in_range (-180) 180 x2 /\ ~ in_range (-90) 90 y1) /\
  (q_gc_validate x1 x2 y1 y2 = Some BadY2 <->
     in_range (-180) 180 x1 /\ in_range (-180) 180 x2 /\ in_range (-90) 90 y1 /\ ~ in_range (-90) 90 y2).
Proof.
  unfold q_gc_validate, gc_validate.
  change gc_x1_hi with 180; change gc_x1_lo with (-180); change gc_x2_hi with 180; change gc_x2_lo with (-180).
  change gc_y1_hi with 90; change gc_y1_lo with (-90); change gc_y2_hi with 90; change gc_y2_lo with (-90).
  destruct (out_of q_ltb inject_Z 180 (-180) x1) eqn:E1;
    [apply out_of_true in E1|apply out_of_false in E1].
  { repeat split; intros; try reflexivity; try congruence; try tauto; unfold in_range in *; tauto. }
  destruct (out_of q_ltb inject_Z 180 (-180) x2) eqn:E2;
    [apply out_of_true in E2|apply out_of_false in E2].
  { repeat split; intros; try reflexivity; try congruence; try tauto; unfold in_range in *; tauto. }
  destruct (out_of q_ltb inject_Z 90 (-90) y1) eqn:E3;
    [apply out_of_true in E3|apply out_of_false in E3].
  { repeat split; intros; try reflexivity; try congruence; try tauto; unfold in_range in *; tauto. }
  destruct (out_of q_ltb inject_Z 90 (-90) y2) eqn:E4;
    [apply out_of_true in E4|apply out_of_false in E4].
  { repeat split; intros; try reflexivity; try congruence; try tauto; unfold in_range in *; tauto. }
  repeat split; intros; try reflexivity; try congruence; try tauto; unfold in_range in *; tauto.
Qed.

(* the distance is only computed for validated coordinates *)
Lemma great_circle_rejects {T} add sub mul div sqrt sin cos asin radians ltb of_Z (x1 x2 y1 y2 radius : T) e :
  gc_validate ltb of_Z x1 x2 y1 y2 = Some e ->
  great_circle add sub mul div sqrt sin cos asin radians ltb of_Z x1 x2 y1 y2 radius = inl e.
Proof. intros H. unfold great_circle. now rewrite H. Qed.

(* ---- symmetry of the haversine term ---- *)
Section HaversineSym.
  Context {T : Type}.
  Variables (add sub mul div : T -> T -> T) (sin cos radians neg : T -> T) (of_Z : Z -> T).
  Hypothesis sub_anti : forall a b, sub a b = neg (sub b a).
  Hypothesis half_neg : forall a, div (neg a) (of_Z 2) = neg (div a (of_Z 2)).
  Hypothesis sin_odd : forall a, sin (neg a) = neg (sin a).
  Hypothesis sq_neg : forall a, mul (neg a) (neg a) = mul a a.
  Hypothesis mul_comm : forall a b, mul a b = mul b a.

  Lemma sin_half_sq_sym a b :
    mul (sin (div (sub a b) (of_Z 2))) (sin (div (sub a b) (of_Z 2)))
    = mul (sin (div (sub b a) (of_Z 2))) (sin (div (sub b a) (of_Z 2))).
  Proof. rewrite (sub_anti a b), half_neg, sin_odd, sq_neg. reflexivity. Qed.

  Lemma gc_a_sym x1 x2 y1 y2 :
    gc_a add sub mul div sin cos radians of_Z x1 x2 y1 y2
    = gc_a add sub mul div sin cos radians of_Z x2 x1 y2 y1.
  Proof.
    unfold gc_a. cbv zeta.
    rewrite (sin_half_sq_sym (radians y2) (radians y1)).
    rewrite (sin_half_sq_sym (radians x2) (radians x1)).
    rewrite (mul_comm (cos (radians y1)) (cos (radians y2))). reflexivity.
  Qed.
End HaversineSym.
